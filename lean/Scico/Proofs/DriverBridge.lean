/-
  C15: the tick (`Nat`) transcription of `Timer` is the integer-clock instance of the generic
  transcription `Scico.Driver.Clock` on every non-decreasing history; hence the tick-counting and the
  gap-summing ideal stop-watches agree there.
-/
import Scico.Proofs.DriverTimer
import Scico.Proofs.DriverClock

set_option linter.unusedSimpArgs false
set_option linter.unusedSectionVars false

namespace Scico.Driver
open Scico.Driver.Spec

variable {L : Type} [DecidableEq L]

/-- a call of the tick model seen on the integer clock -/
def castCall (c : Call L) : Clock.Call L Int := ⟨(c.time : Int), c.op, c.arg⟩

def castEv (e : Nat × Op) : Int × Op := ((e.1 : Int), e.2)

def castEntry (e : Entry) : Clock.Entry Int := ⟨e.t0.map (fun s => (s : Int)), (e.td : Int)⟩

theorem known_cast (c : Cfg L) (h : List (Call L)) (l : L) :
    Clock.known c (h.map castCall) l = known c h l := by
  simp [Clock.known, known, List.any_map, castCall, Function.comp_def]
  rfl

theorem reaches_cast (c : Cfg L) (pre : List (Call L)) (k : Call L) (l : L) :
    Clock.reaches c (pre.map castCall) (castCall k) l = reaches c pre k l := by
  have hk : Clock.known c (pre.map castCall) = known c pre := by funext x; exact known_cast c pre x
  unfold Clock.reaches reaches
  simp only [castCall, hk]
  rfl

theorem labelHistoryFrom_cast (c : Cfg L) (l : L) (pre h : List (Call L)) :
    Clock.labelHistoryFrom c l (pre.map castCall) (h.map castCall) = (labelHistoryFrom c l pre h).map castEv := by
  induction h generalizing pre with
  | nil => simp [Clock.labelHistoryFrom, labelHistoryFrom]
  | cons k rest ih =>
    have := ih (pre ++ [k])
    simp only [List.map_append, List.map_cons, List.map_nil] at this
    simp only [List.map_cons, Clock.labelHistoryFrom, labelHistoryFrom, reaches_cast, this, List.map_append]
    by_cases hr : reaches c pre k l = true <;> simp [hr, castEv, castCall]

theorem labelHistory_cast (c : Cfg L) (h : List (Call L)) (l : L) :
    Clock.labelHistory c (h.map castCall) l = (labelHistory c h l).map castEv := by
  have := labelHistoryFrom_cast c l [] h
  simpa [Clock.labelHistory, labelHistory] using this

/-- on a time-ordered history the integer-clock machine is the cast of the tick machine
    (every `t - t0` of the tick machine is exact) -/
theorem machFold_cast (es : List (Nat × Op)) (hs : es.Pairwise (fun a b => a.1 ≤ b.1)) :
    Clock.machFold (es.map castEv) = castEntry (machFold es) := by
  induction es using List.reverseRecOn with
  | nil => simp [Clock.machFold, machFold, castEntry, Entry.fresh, Clock.Entry.fresh]
  | append_singleton es ev ih =>
    rw [List.pairwise_append] at hs
    obtain ⟨h1, _, h3⟩ := hs
    have hR := refines_machFold es h1
    rw [List.map_append, List.map_cons, List.map_nil, Clock.machFold_snoc, machFold_snoc, ih h1]
    obtain ⟨t, k⟩ := ev
    cases k with
    | start =>
      cases h0 : (machFold es).t0 <;>
        simp [Clock.mach, mach, castEv, castEntry, Clock.startEntry, startEntry, h0]
    | stop =>
      cases h0 : (machFold es).t0 with
      | none => simp [Clock.mach, mach, castEv, castEntry, Clock.stopEntry, stopEntry, h0]
      | some s =>
        obtain ⟨ev0, hev0, hs0⟩ := hR.t0_mem s h0
        have hle : s ≤ t := by rw [← hs0]; exact h3 ev0 hev0 (t, .stop) (by simp)
        simp [Clock.mach, mach, castEv, castEntry, Clock.stopEntry, stopEntry, h0]
        omega
    | reset => simp [Clock.mach, mach, castEv, castEntry, Clock.resetEntry, resetEntry]

theorem elapsedEntry_cast (es : List (Nat × Op)) (hs : es.Pairwise (fun a b => a.1 ≤ b.1)) (now : Nat)
    (hn : ∀ ev ∈ es, ev.1 ≤ now) (total : Bool) :
    Clock.elapsedEntry (castEntry (machFold es)) total (now : Int) = ((elapsedEntry (machFold es) total now : Nat) : Int) := by
  have hR := refines_machFold es hs
  cases h0 : (machFold es).t0 with
  | none => cases total <;> simp [Clock.elapsedEntry, elapsedEntry, castEntry, h0]
  | some s =>
    obtain ⟨ev0, hev0, hs0⟩ := hR.t0_mem s h0
    have hle : s ≤ now := by rw [← hs0]; exact hn ev0 hev0
    cases total <;> simp [Clock.elapsedEntry, elapsedEntry, castEntry, h0] <;> omega

/-- **the tick model is the integer-clock instance of the generic model**: on every non-decreasing
    history `Timer.elapsed` of the `Nat` transcription, cast to ℤ, is `Timer.elapsed` of the
    generic transcription on the cast history -/
theorem timer_nat_is_clock (c : Cfg L) (h : List (Call L)) (now : Nat) (hm : Monotone h now)
    (label : Option L) (total : Bool) :
    (((Timer.init c.init c.dflt c.all).run h).elapsed label total now).map (fun v => (v : Int)) =
      ((Clock.Timer.init c.init c.dflt c.all : Clock.Timer L Int).run (h.map castCall)).elapsed label total (now : Int) := by
  have R : Represents c h ((Timer.init c.init c.dflt c.all).run h) := by
    simpa using represents_run [] h _ (represents_init c)
  have RC : Clock.Represents c (h.map castCall)
      ((Clock.Timer.init c.init c.dflt c.all : Clock.Timer L Int).run (h.map castCall)) := by
    simpa using Clock.represents_run [] (h.map castCall) _ (Clock.represents_init c)
  have hentry : ∀ l, known c h l = true →
      Clock.elapsedEntry (Clock.machFold (Clock.labelHistory c (h.map castCall) l)) total (now : Int) =
        ((elapsedEntry (machFold (labelHistory c h l)) total now : Nat) : Int) := by
    intro l _
    have hsorted : (labelHistory c h l).Pairwise (fun a b => a.1 ≤ b.1) := labelHistoryFrom_sorted c l [] h hm.1
    have hle : ∀ ev ∈ labelHistory c h l, ev.1 ≤ now := by
      intro ev hev
      obtain ⟨k, hk, ht⟩ := labelHistoryFrom_times c l [] h ev hev
      rw [← ht]; exact hm.2 k hk
    rw [labelHistory_cast, machFold_cast _ hsorted, elapsedEntry_cast _ hsorted now hle]
  cases label with
  | none =>
    simp only [Timer.elapsed, Timer.elapsedDefault, Clock.Timer.elapsed, R.dflt, RC.dflt, R.get c.dflt, RC.get c.dflt,
      known_cast]
    cases hk : known c h c.dflt with
    | true => simp [hentry c.dflt hk]
    | false => simp
  | some l =>
    simp only [Timer.elapsed, Clock.Timer.elapsed, R.get l, RC.get l, known_cast]
    cases hk : known c h l with
    | true => simp [hentry l hk]
    | false => simp

/-- hence the two ideal stop-watches — counting ticks, summing gaps — agree on every
    non-decreasing integer history -/
theorem specElapsed_tick_eq_gap (c : Cfg L) (h : List (Call L)) (now : Nat) (hm : Monotone h now)
    (label : Option L) (total : Bool) :
    (specElapsed c h label total now).map (fun v => (v : Int)) =
      Clock.specElapsed c (h.map castCall) label total (now : Int) := by
  rw [← timer_refines_stopwatch c h now hm label total, timer_nat_is_clock c h now hm label total,
    Clock.timer_refines_stopwatch]

end Scico.Driver
