/-
  The CG path of `SquaredL2Loss.prox`, index-free: ANY real-linear operator `A : E → F` between real inner-product spaces (so complex
  arrays with `Re⟨·,·⟩`, block arrays, N-d arrays) together with its adjoint `At` (hypothesis `SysData.adj` — property C01 of the operator)
  and a symmetric positive semi-definite weighting `W`:
  * `cert_of_sysRes_zero` : a solution of `(I + c At W A) x = v + c At W y`, `c = 2·scale·lam`, is the prox of `scale·⟨W(y - Ax), y - Ax⟩`;
  * `dist_le_norm_sysRes` : `‖x - p‖ ≤ ‖residual(x)‖`;
  * `exists_sysRes_zero`  : existence in finite dimension.
  (`Proofs/ProxCG.lean` is the dense real-matrix instance tied to the model `sqL2LossSysResidual`.)
-/
import Scico.Proofs.ProxGeneric
import Mathlib.LinearAlgebra.FiniteDimensional.Basic

set_option linter.unusedSectionVars false

namespace Scico.ProxCGGen
open Scico.ProxSpec

variable {E F : Type*} [NormedAddCommGroup E] [InnerProductSpace ℝ E] [NormedAddCommGroup F] [InnerProductSpace ℝ F]

local notation "⟪" x ", " y "⟫" => inner ℝ x y

/-- the data of `SquaredL2Loss` with a general linear operator, index-free: `A` linear, `At` its adjoint w.r.t. the REAL inner products
    (for complex arrays: `Re⟨·,·⟩`, `At = Aᴴ` — this is property C01 of the operator), `W` symmetric positive semi-definite (a non-negative diagonal) -/
structure SysData (A : E →ₗ[ℝ] F) (At : F →ₗ[ℝ] E) (W : F →ₗ[ℝ] F) : Prop where
  adj : ∀ u d, ⟪At u, d⟫ = ⟪u, A d⟫
  wsymm : ∀ u z, ⟪W u, z⟫ = ⟪u, W z⟫
  wpos : ∀ u, 0 ≤ ⟪W u, u⟫

/-- `x ↦ x + c·At W A x` -/
def sysOp (c : ℝ) (A : E →ₗ[ℝ] F) (At : F →ₗ[ℝ] E) (W : F →ₗ[ℝ] F) : E →ₗ[ℝ] E :=
  LinearMap.id + c • (At ∘ₗ W ∘ₗ A)

theorem sysOp_apply (c : ℝ) (A : E →ₗ[ℝ] F) (At : F →ₗ[ℝ] E) (W : F →ₗ[ℝ] F) (x : E) :
    sysOp c A At W x = x + c • At (W (A x)) := by simp [sysOp]

/-- residual of `(I + c At W A) x = v + c At W y` -/
def sysRes (c : ℝ) (A : E →ₗ[ℝ] F) (At : F →ₗ[ℝ] E) (W : F →ₗ[ℝ] F) (y : F) (v x : E) : E :=
  sysOp c A At W x - (v + c • At (W y))

/-- the loss `scale·⟨W(y - Ax), y - Ax⟩` -/
def lossFn (scale : ℝ) (A : E →ₗ[ℝ] F) (W : F →ₗ[ℝ] F) (y : F) (x : E) : ℝ := scale * ⟪W (y - A x), y - A x⟫

theorem coercive {c : ℝ} (hc : 0 ≤ c) {A : E →ₗ[ℝ] F} {At : F →ₗ[ℝ] E} {W : F →ₗ[ℝ] F} (h : SysData A At W) (e : E) :
    ‖e‖ ^ 2 ≤ ⟪sysOp c A At W e, e⟫ := by
  rw [sysOp_apply, inner_add_left, real_inner_smul_left, h.adj, real_inner_self_eq_norm_sq]
  have := mul_nonneg hc (h.wpos (A e))
  linarith

theorem norm_le_norm_sysOp {c : ℝ} (hc : 0 ≤ c) {A : E →ₗ[ℝ] F} {At : F →ₗ[ℝ] E} {W : F →ₗ[ℝ] F} (h : SysData A At W) (e : E) :
    ‖e‖ ≤ ‖sysOp c A At W e‖ := by
  have h3 := coercive hc h e
  have h4 := real_inner_le_norm (sysOp c A At W e) e
  by_cases h0 : ‖e‖ = 0
  · rw [h0]; exact norm_nonneg _
  · have hpos : 0 < ‖e‖ := lt_of_le_of_ne (norm_nonneg _) (Ne.symm h0)
    have : ‖e‖ * ‖e‖ ≤ ‖sysOp c A At W e‖ * ‖e‖ := by nlinarith
    exact le_of_mul_le_mul_right this hpos

/-- **a solution of the documented system is the prox**, for any linear operator with its adjoint (real or complex data) -/
theorem cert_of_sysRes_zero {lam scale : ℝ} (hlam : 0 < lam) (hs : 0 ≤ scale) {A : E →ₗ[ℝ] F} {At : F →ₗ[ℝ] E} {W : F →ₗ[ℝ] F}
    (h : SysData A At W) (y : F) (v p : E) (hres : sysRes (2 * scale * lam) A At W y v p = 0) :
    Cert Set.univ (lossFn scale A W y) lam v p := by
  refine ⟨trivial, fun z _ => ?_⟩
  rw [real_inner_smul_left]
  set d := z - p with hd
  have hvp : v - p = (2 * scale * lam) • At (W (A p - y)) := by
    unfold sysRes at hres
    rw [sysOp_apply, sub_eq_zero] at hres
    have : v = p + (2 * scale * lam) • At (W (A p)) - (2 * scale * lam) • At (W y) := by rw [hres]; abel
    rw [this, map_sub, map_sub, smul_sub]; abel
  have hin : ⟪v - p, d⟫ = 2 * scale * lam * ⟪W (A p - y), A d⟫ := by
    rw [hvp, real_inner_smul_left, h.adj]
  obtain ⟨r, hr⟩ : ∃ r, r = y - A p := ⟨_, rfl⟩
  have hz : y - A z = r - A d := by rw [hr, hd, map_sub]; abel
  unfold lossFn
  rw [hin, hz, ← hr]
  have e1 : A p - y = -r := by rw [hr]; abel
  rw [e1, map_neg, inner_neg_left]
  have hexp : ⟪W (r - A d), r - A d⟫ = ⟪W r, r⟫ - 2 * ⟪W r, A d⟫ + ⟪W (A d), A d⟫ := by
    rw [map_sub, inner_sub_left, inner_sub_right, inner_sub_right, h.wsymm (A d) r, real_inner_comm (W r) (A d)]
    ring
  rw [hexp]
  have hnn := mul_nonneg hs (h.wpos (A d))
  have : 1 / lam * (2 * scale * lam * -⟪W r, A d⟫) = -(2 * scale * ⟪W r, A d⟫) := by field_simp
  rw [this]
  nlinarith

/-- **conditioning of the CG path**: `‖x - p‖ ≤ ‖residual(x)‖` -/
theorem dist_le_norm_sysRes {c : ℝ} (hc : 0 ≤ c) {A : E →ₗ[ℝ] F} {At : F →ₗ[ℝ] E} {W : F →ₗ[ℝ] F} (h : SysData A At W)
    (y : F) (v x p : E) (hp : sysRes c A At W y v p = 0) : ‖x - p‖ ≤ ‖sysRes c A At W y v x‖ := by
  have e : sysRes c A At W y v x = sysOp c A At W (x - p) := by
    have : sysRes c A At W y v x = sysRes c A At W y v x - sysRes c A At W y v p := by rw [hp, sub_zero]
    rw [this]; unfold sysRes; rw [map_sub]; abel
  rw [e]; exact norm_le_norm_sysOp hc h (x - p)

/-- the system has a solution in finite dimension -/
theorem exists_sysRes_zero [FiniteDimensional ℝ E] {c : ℝ} (hc : 0 ≤ c) {A : E →ₗ[ℝ] F} {At : F →ₗ[ℝ] E} {W : F →ₗ[ℝ] F}
    (h : SysData A At W) (y : F) (v : E) : ∃ p : E, sysRes c A At W y v p = 0 := by
  have hinj : Function.Injective (sysOp c A At W) := by
    rw [injective_iff_map_eq_zero]
    intro e he
    have := norm_le_norm_sysOp hc h e
    rw [he, norm_zero] at this
    exact norm_eq_zero.mp (le_antisymm this (norm_nonneg _))
  obtain ⟨p, hp⟩ := LinearMap.surjective_of_injective hinj (v + c • At (W y))
  exact ⟨p, by unfold sysRes; rw [hp, sub_self]⟩

end Scico.ProxCGGen
