/-
  C07: chain rules in gradient form.

  * `isGradAt_comp_affine`   : `grad (s·φ(A· − y))(x) = s·Aᴴ grad φ(Ax − y)`   (lines suffice)
  * `isGradAt_comp_operator` : nonlinear `F` with JAX's `jvp`/`vjp` contracts:
                               `grad (s·φ(F(·) − y))(x) = s·Gmap(grad φ(F x − y))`, `Gmap = F.vjp(x, conjugate=True)`
  * structural zeros of a group norm after a linear map (non-circular isotropic TV)
  * explicit gradient formulas of the Poisson and squared-l2-abs losses
-/
import Scico.Proofs.AutogradDeriv
import Mathlib.Analysis.Calculus.Deriv.Abs

namespace Scico.Autograd
open Scico

variable {n m k : Nat}

theorem reInner_adjMat {K : Type} [CommRing K] (A : Mat K m n) (u : CVec K m) (d : CVec K n) :
    reInner (mulVec (adjMat A) u) d = reInner u (mulVec A d) := by
  unfold reInner; rw [cinner_adjMat]

theorem vsub_along (A : Mat ℝ m n) (y : CVec ℝ m) (x d : CVec ℝ n) (t : ℝ) :
    vsub (mulVec A (along x d t)) y = along (vsub (mulVec A x) y) (mulVec A d) t := by
  rw [mulVec_along]
  funext i
  apply Cx.ext' <;> simp [vsub, along] <;> ring

/-- chain rule through an affine map, gradient form: `grad(s·φ∘(A·−y))(x) = s·Aᴴ·grad φ(Ax−y)` -/
theorem isGradAt_comp_affine (s : ℝ) (A : Mat ℝ m n) (y : CVec ℝ m) (φ : CVec ℝ m → ℝ) (x : CVec ℝ n)
    (g : CVec ℝ m) (h : IsGradAt φ (vsub (mulVec A x) y) g) :
    IsGradAt (fun z => s * φ (vsub (mulVec A z) y)) x (vsmul s (mulVec (adjMat A) g)) := by
  intro d
  rw [reInner_vsmul_left, reInner_adjMat]
  have h1 := (h (mulVec A d)).const_mul s
  refine HasDerivAt.congr' h1 (fun t => ?_) rfl
  show s * φ (vsub (mulVec A (along x d t)) y) = s * φ (along (vsub (mulVec A x) y) (mulVec A d) t)
  rw [vsub_along]

/-- chain rule through a **nonlinear** operator `F`, gradient form.  `J`/`G` are what `jax.jvp`/
    `jax.vjp` return at `x`: `J d` is the derivative of `F` along `d` (componentwise), `G` the
    transpose of `J` for `Re Σ aᵢbᵢ`.  `φ` must be differentiable along curves at `F x − y`
    (`t ↦ F(x+td)` is not a line).  Then the gradient of `z ↦ s·φ(F z − y)` at `x` is
    `s·Gmap(grad φ)`, `Gmap = conj ∘ G ∘ conj` (what `F.vjp(x, conjugate=True)` returns). -/
theorem isGradAt_comp_operator (s : ℝ) (F J : CVec ℝ n → CVec ℝ m) (G : CVec ℝ m → CVec ℝ n)
    (y : CVec ℝ m) (φ : CVec ℝ m → ℝ) (x : CVec ℝ n) (g : CVec ℝ m)
    (hJ : ∀ d, Tangent (fun t => F (along x d t)) (J d))
    (hG : ∀ c d, reBdot (G c) d = reBdot c (J d))
    (h : IsCurveGradAt φ (vsub (F x) y) g) :
    IsGradAt (fun z => s * φ (vsub (F z) y)) x (vsmul s (vjpWrap true G g)) := by
  intro d
  rw [reInner_vsmul_left, vjp_conj_real_adjoint J G hG g d]
  have hc : Tangent (fun t => vsub (F (along x d t)) y) (J d) := tangent_vsub_const (hJ d) y
  have h0 : (fun t => vsub (F (along x d t)) y) 0 = vsub (F x) y := by
    show vsub (F (along x d 0)) y = _
    rw [along_zero]
  exact (h _ (J d) h0 hc).const_mul s

/-- a group norm after a linear map, at a point where every group of `A x − y` is either non-zero or
    *structurally* zero (all its rows of `A` and entries of `y` vanish): smooth along every line -/
theorem smoothLines_loss_l21 (s : ℝ) (A : Mat ℝ m n) (y : CVec ℝ m) (grp : Fin m → Fin k) (x : CVec ℝ n)
    (h : ∀ g, groupAbs2 grp (vsub (mulVec A x) y) g ≠ 0 ∨
      ∀ i, grp i = g → (y i = 0 ∧ ∀ j, A i j = 0)) :
    (Fn.loss s A y (Fn.l21 k grp)).SmoothLines x := by
  intro d
  show ∀ g, groupAbs2 grp (vsub (mulVec A (along x d 0)) y) g ≠ 0 ∨
    ∀ t, groupAbs2 grp (vsub (mulVec A (along x d t)) y) g = 0
  intro g
  rcases h g with hne | hz
  · left; rwa [along_zero]
  · right
    intro t
    rw [groupAbs2_eq]
    refine Finset.sum_eq_zero (fun i _ => ?_)
    by_cases hg : grp i = g
    · simp only [hg, if_true]
      obtain ⟨hy, hA⟩ := hz i hg
      have : vsub (mulVec A (along x d t)) y i = 0 := by
        simp only [vsub, mulVec_eq, hy, hA, zero_mul, Finset.sum_const_zero, sub_zero]
      rw [this]; simp [Cx.abs2]
    · simp [hg]

/-- the same for the l1 norm after a linear map (anisotropic TV): every entry of `A x − y` is either
    non-zero or structurally zero -/
theorem smoothLines_loss_l1 (s : ℝ) (A : Mat ℝ m n) (y : CVec ℝ m) (x : CVec ℝ n)
    (h : ∀ i, Cx.abs2 (vsub (mulVec A x) y i) ≠ 0 ∨ (y i = 0 ∧ ∀ j, A i j = 0)) :
    (Fn.loss s A y Fn.l1).SmoothLines x := by
  intro d
  show ∀ i, Cx.abs2 (vsub (mulVec A (along x d 0)) y i) ≠ 0 ∨
    ∀ t, Cx.abs2 (vsub (mulVec A (along x d t)) y i) = 0
  intro i
  rcases h i with hne | ⟨hy, hA⟩
  · left; rwa [along_zero]
  · right
    intro t
    have : vsub (mulVec A (along x d t)) y i = 0 := by
      simp only [vsub, mulVec_eq, hy, hA, zero_mul, Finset.sum_const_zero, sub_zero]
    rw [this]; simp [Cx.abs2]

theorem conjMat_transpose {K : Type} [CommRing K] (A : Mat K m n) : conjMat (transpose A) = adjMat A := rfl

theorem conjVec_vsmul {K : Type} [CommRing K] (s : K) (v : CVec K n) : conjVec (vsmul s v) = vsmul s (conjVec v) := by
  funext i; apply Cx.ext' <;> simp [conjVec, vsmul]

/-- `grad` of a loss whose JAX cotangent at `A x` is `r`: `s·Aᴴ·conj r` -/
theorem grad_through_matrix {K : Type} [CommRing K] (s : K) (A : Mat K m n) (r : CVec K m) :
    scicoGrad (vsmul s (mulVec (transpose A) r)) = vsmul s (mulVec (adjMat A) (conjVec r)) := by
  unfold scicoGrad
  rw [conjVec_vsmul, conjVec_mulVec, conjMat_transpose]


/-! ### distance to a set given by its projection `P` (`SetDistance`, `SquaredSetDistance`) -/

theorem reBdot_vsub {K : Type} [CommRing K] (a b d : CVec K n) :
    reBdot (vsub a b) d = reBdot a d - reBdot b d := by
  rw [reBdot_eq, reBdot_eq, reBdot_eq, ← Finset.sum_sub_distrib]
  exact Finset.sum_congr rfl (fun i _ => by simp [vsub]; ring)

theorem reBdot_vsub_right {K : Type} [CommRing K] (c a b : CVec K n) :
    reBdot c (vsub a b) = reBdot c a - reBdot c b := by
  rw [reBdot_eq, reBdot_eq, reBdot_eq, ← Finset.sum_sub_distrib]
  exact Finset.sum_congr rfl (fun i _ => by simp [vsub]; ring)

theorem vsub_zero {K : Type} [CommRing K] (v : CVec K n) : vsub v 0 = v := by
  funext i; simp [vsub]

theorem vsmul_one {K : Type} [CommRing K] (v : CVec K n) : vsmul 1 v = v := by
  funext i; apply Cx.ext' <;> simp [vsmul]

/-- the residual map `z ↦ z − P z` inherits JAX's contracts from `P` -/
theorem residual_contracts (P JP GP : CVec ℝ n → CVec ℝ n) (x : CVec ℝ n)
    (hJ : ∀ d, Tangent (fun t => P (along x d t)) (JP d))
    (hG : ∀ c d, reBdot (GP c) d = reBdot c (JP d)) :
    (∀ d, Tangent (fun t => vsub (along x d t) (P (along x d t))) (vsub d (JP d))) ∧
    (∀ c d, reBdot (vsub c (GP c)) d = reBdot c (vsub d (JP d))) := by
  refine ⟨fun d i => ?_, fun c d => ?_⟩
  · exact ((tangent_along x d i).sub (hJ d i)).congr (fun _ => rfl) rfl
  · rw [reBdot_vsub, reBdot_vsub_right, hG]

/-! ### the smoothness guards are necessary -/

theorem not_hasDerivAt_abs (a c : ℝ) : ¬ HasDerivAt (fun t : ℝ => a + |t|) c 0 := by
  intro h
  have h2 : HasDerivAt (fun t : ℝ => |t|) c 0 := by
    have := h.sub_const a
    refine HasDerivAt.congr' this (fun t => by ring) rfl
  exact not_differentiableAt_abs_zero h2.differentiableAt

/-- the l1 norm has no gradient at a point with a zero coordinate -/
theorem l1_not_grad (x : CVec ℝ n) (i : Fin n) (hi : x i = 0) : ¬ ∃ g, IsGradAt (Fn.l1 : Fn ℝ n).eval x g := by
  rintro ⟨g, hg⟩
  have h := hg (single i ⟨1, 0⟩)
  refine not_hasDerivAt_abs (∑ j ∈ Finset.univ.erase i, Cx.abs (x j)) _ (HasDerivAt.congr' h (fun t => ?_) rfl)
  simp only [Fn.eval, vsum_eq]
  have e1 : ∀ j ∈ Finset.univ.erase i, Cx.abs (along x (single i ⟨1, 0⟩) t j) = Cx.abs (x j) := by
    intro j hj
    have hne : j ≠ i := Finset.ne_of_mem_erase hj
    congr 1
    apply Cx.ext' <;> simp [along, single, hne]
  have e2 : Cx.abs (along x (single i ⟨1, 0⟩) t i) = |t| := by
    have : along x (single i ⟨1, 0⟩) t i = ⟨t, 0⟩ := by
      apply Cx.ext' <;> simp [along, single, hi]
    rw [this]
    simp [Cx.abs, Cx.abs2, hasSqrt_real, ← sq, Real.sqrt_sq_eq_abs]
  rw [← Finset.add_sum_erase Finset.univ (fun j => Cx.abs (along x (single i ⟨1, 0⟩) t j)) (Finset.mem_univ i),
    e2, Finset.sum_congr rfl e1, add_comm]

/-- the l2 norm has no gradient at the origin (for `n ≥ 1`) -/
theorem l2_not_grad (i : Fin n) : ¬ ∃ g, IsGradAt (Fn.l2 : Fn ℝ n).eval (fun _ => 0) g := by
  rintro ⟨g, hg⟩
  have h := hg (single i ⟨1, 0⟩)
  refine not_hasDerivAt_abs 0 _ (HasDerivAt.congr' h (fun t => ?_) rfl)
  simp only [Fn.eval, norm2, sumAbs2_eq, hasSqrt_real, zero_add]
  rw [Finset.sum_eq_single i]
  · have : along (fun _ => (0 : Cx ℝ)) (single i ⟨1, 0⟩) t i = ⟨t, 0⟩ := by
      apply Cx.ext' <;> simp [along, single]
    rw [this]
    simp [Cx.abs2, ← sq, Real.sqrt_sq_eq_abs]
  · intro j _ hj
    have : along (fun _ => (0 : Cx ℝ)) (single i ⟨1, 0⟩) t j = 0 := by
      apply Cx.ext' <;> simp [along, single, hj]
    rw [this]; simp [Cx.abs2]
  · intro h; exact absurd (Finset.mem_univ _) h

/-! ### `linear_adjoint` of a real-linear function -/

theorem reInner_eq_reBdot_right {K : Type} [CommRing K] (a x : CVec K n) : reInner a x = reBdot a (conjVec x) := by
  rw [reInner_eq, reBdot_eq]
  exact Finset.sum_congr rfl (fun i _ => by simp [conjVec])

theorem linearAdjoint_real_adjoint (T : (CVec ℝ n → CVec ℝ m) → (CVec ℝ m → CVec ℝ n))
    (f : CVec ℝ n → CVec ℝ m) (cp co : Bool) (hc : cp = true ∨ co = true)
    (hT : ∀ y x, reBdot (T (conjFun f) y) x = reBdot y (conjFun f x)) (y : CVec ℝ m) (x : CVec ℝ n) :
    reInner (linearAdjoint T cp co f y) x = reInner y (f x) := by
  have : linearAdjoint T cp co f = T (conjFun f) := by
    unfold linearAdjoint
    rcases hc with h | h <;> simp [h]
  rw [this, reInner_eq_reBdot_right, hT, reInner_eq_reBdot_right]
  simp [conjFun, conjVec_conjVec]

/-! ### `ProximalAverage.__call__` as an expression -/

theorem proxAvgFn_eval {n : Nat} (l : List (ℝ × Fn ℝ n)) (acc : Fn ℝ n) (x : CVec ℝ n) :
    (proxAvgFn l acc).eval x = acc.eval x + (l.map (fun p => p.1 * p.2.eval x)).sum := by
  induction l generalizing acc with
  | nil => simp [proxAvgFn]
  | cons p rest ih =>
    obtain ⟨a, f⟩ := p
    simp only [proxAvgFn, ih, Fn.eval, List.map_cons, List.sum_cons]
    ring

theorem proxAvgFn_smooth {n : Nat} (l : List (ℝ × Fn ℝ n)) (acc : Fn ℝ n) (x : CVec ℝ n)
    (ha : acc.Smooth x) (h : ∀ p ∈ l, p.2.Smooth x) : (proxAvgFn l acc).Smooth x := by
  induction l generalizing acc with
  | nil => exact ha
  | cons p rest ih =>
    obtain ⟨a, f⟩ := p
    simp only [proxAvgFn]
    apply ih
    · exact ⟨ha, h (a, f) (by simp)⟩
    · intro q hq; exact h q (by simp [hq])

end Scico.Autograd
