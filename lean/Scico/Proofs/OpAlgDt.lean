/-
  Dtype soundness of the operator calculus (C12): the dtype an operator DECLARES is the dtype its
  closures RETURN on an argument of the declared dtype.

  `DtOk o`:  `o.evalDt o.md.inDt = ok o.md.outDt`  (forward map), and for a `LinearOperator`
             `o.adjCallDt o.md.outDt = ok o.md.inDt`  (`adj` accepts an array of the declared output
             dtype — its own dtype check passes, and every inner check too — and returns the
             declared input dtype).

  Every closed-form class (`MatrixOperator`, `Diagonal`, `ScaledIdentity`, `Identity`) re-derives its
  dtypes from the payload and is sound unconditionally; the generic constructions are sound exactly
  under the agreement conditions the code does not check (recorded findings `mixed-operand-dtypes`,
  `adj-dtype-check-mixed`): operands of a generic sum declare the same dtypes, and a composition
  through `Operator.__call__` chains its dtypes.  Independent of the scalar type.
-/
import Scico.Model.OpAlg

namespace Scico.OpAlg
open Scico.DType

theorem rt_idem (a : DT) : resultType a a = a := by cases a <;> rfl
theorem rt_comm (a b : DT) : resultType a b = resultType b a := by cases a <;> cases b <;> rfl
theorem rt_absorb (a b : DT) : resultType a (resultType a b) = resultType a b := by
  cases a <;> cases b <;> rfl
theorem rt_absorb' (a b : DT) : resultType (resultType a b) b = resultType a b := by
  cases a <;> cases b <;> rfl
theorem rtS_rt (a : DT) (s : SK) : resultType (resultTypeS a s) a = resultTypeS a s := by
  cases a <;> cases s <;> first | rfl | (rename_i d; cases d <;> rfl)

set_option linter.unusedSectionVars false

section
variable {α : Type} [Add α] [Sub α] [Mul α] [Div α] [Neg α] [Zero α] [One α] [HasConj α] [HasRe α]

/-- declared dtypes = returned dtypes -/
structure DtOk (o : Obj α) : Prop where
  ev : o.evalDt o.md.inDt = .ok o.md.outDt
  ad : o.md.cls ≠ .op → o.adjCallDt o.md.outDt = .ok o.md.inDt
  /-- a `MatrixOperator` has one dtype -/
  mx : o.md.cls = .matrix → o.md.outDt = o.md.inDt

/-- the two operands of a generic sum declare the same spaces -/
def DtAgree (a b : Obj α) : Prop := a.md.inDt = b.md.inDt ∧ a.md.outDt = b.md.outDt

/-- result built by one of the generic constructors (`Operator`, `LinearOperator`) -/
def IsGeneric (o : Obj α) : Prop := o.md.cls = .op ∨ o.md.cls = .linop

/-! ### constructors -/

theorem mkMat_dt (m n : Nat) (dt : DT) (A : Mx α) : DtOk (mkMat m n dt A) := by
  refine ⟨?_, fun _ => ?_, fun _ => rfl⟩
  · show Except.ok (resultType dt dt) = Except.ok dt
    rw [rt_idem]
  · show (if (Cls.matrix = Cls.matrix) then _ else _) = _
    simp only [if_true]
    show Except.ok (resultType dt dt) = Except.ok dt
    rw [rt_idem]

theorem autoAdj_dt {inDt outDt : DT} {evalDt : DtFn} (h : evalDt inDt = .ok outDt) :
    autoAdjDt inDt evalDt outDt = .ok inDt := by
  unfold autoAdjDt
  rw [h]
  simp

theorem adjCall_of_adjDt {o : Obj α} (h : o.adjDt o.md.outDt = .ok o.md.inDt) :
    o.adjCallDt o.md.outDt = .ok o.md.inDt := by
  unfold Obj.adjCallDt
  split
  · exact h
  · simp [h]

theorem DtOk.of {o : Obj α} (hev : o.evalDt o.md.inDt = .ok o.md.outDt)
    (had : o.adjDt o.md.outDt = .ok o.md.inDt) (hm : o.md.cls ≠ .matrix) : DtOk o :=
  ⟨hev, fun _ => adjCall_of_adjDt had, fun h => absurd h hm⟩

theorem DtOk.ofOp {o : Obj α} (hev : o.evalDt o.md.inDt = .ok o.md.outDt) (hop : o.md.cls = .op) :
    DtOk o :=
  ⟨hev, fun h => absurd hop h, fun h => by rw [hop] at h; cases h⟩

theorem mkDiag_dt {d : V α} {dsh : Shape} {ddt : DT} {inSh : Shape} {inDt : DT} {o : Obj α}
    (h : mkDiag Cfg.fixed d dsh ddt inSh inDt = .ok o) : DtOk o := by
  unfold mkDiag at h
  split at h
  · cases h
  · injection h with h
    subst h
    exact DtOk.of rfl
      (autoAdj_dt (inDt := inDt) (outDt := resultType ddt inDt)
        (evalDt := fun dx => .ok (resultType ddt dx)) rfl) (by intro h; cases h)

theorem mkSid_dt (c : α) (sk : SK) (sh : Shape) (inDt : DT) : DtOk (mkSid Cfg.fixed c sk sh inDt) :=
  DtOk.of rfl
    (autoAdj_dt (inDt := inDt) (outDt := resultType (resultTypeS inDt sk) inDt)
      (evalDt := fun dx => .ok (resultType (resultTypeS inDt sk) dx)) rfl) (by intro h; cases h)

theorem mkIdent_dt (sh : Shape) (dt : DT) : DtOk (mkIdent (α := α) sh dt) :=
  DtOk.of rfl (autoAdj_dt (inDt := dt) (outDt := dt) (evalDt := fun dx => .ok dx) rfl)
    (by intro h; cases h)

theorem mkLinAuto_dt {inSh outSh : Shape} {inDt outDt : DT} {ev : Vc α → Vc α} {evalDt : DtFn}
    (h : evalDt inDt = .ok outDt) : DtOk (mkLinAuto inSh outSh inDt outDt ev evalDt) :=
  DtOk.of h (autoAdj_dt h) (by intro h; cases h)

/-- the hand-written `adj_fn` of a `lin` leaf returns the declared input dtype -/
def LeafAdjOk (inDt gDt : DT) : Prop :=
  (if inDt.isComplex then resultType gDt (resultType gDt inDt)
   else (resultType gDt (resultType gDt inDt)).toReal) = inDt

theorem mkLinLeaf_dt (inSh outSh : Shape) (inDt gDt : DT) (hasAdj : Bool) (G : Mx α)
    (h : hasAdj = true → LeafAdjOk inDt gDt) : DtOk (mkLinLeaf inSh outSh inDt gDt hasAdj G) := by
  unfold mkLinLeaf
  by_cases hA : hasAdj = true
  · simp only [hA, if_true]
    refine DtOk.of rfl ?_ (by intro h; cases h)
    have := h hA
    unfold LeafAdjOk at this
    show Except.ok (if inDt.isComplex then resultType gDt (resultType gDt inDt)
      else (resultType gDt (resultType gDt inDt)).toReal) = Except.ok inDt
    rw [this]
  · simp only [hA, Bool.false_eq_true, if_false]
    exact mkLinAuto_dt rfl

theorem mkNonlinLeaf_dt (inSh outSh : Shape) (inDt gDt : DT) (G : Mx α) :
    DtOk (mkNonlinLeaf inSh outSh inDt gDt G) :=
  DtOk.ofOp rfl rfl

/-! ### generic algebra -/

theorem opAddSub_dt (sub : Bool) {a b o : Obj α} (ha : DtOk a) (hb : DtOk b)
    (hin : a.md.inDt = b.md.inDt) (h : opAddSub sub a b = .ok o) : DtOk o := by
  unfold opAddSub at h
  split at h
  · injection h with h; subst h
    refine DtOk.ofOp ?_ rfl
    show (do let da ← a.evalDt a.md.inDt; let db ← b.evalDt a.md.inDt; pure (resultType da db)) = _
    rw [ha.1, hin, hb.1]
    rfl
  · cases h

theorem linAddSub_dt (sub : Bool) {a b : Obj α} (ha : DtOk a) (hb : DtOk b)
    (hla : a.md.cls ≠ .op) (hlb : b.md.cls ≠ .op) (hag : DtAgree a b) :
    DtOk (linAddSub sub a b) := by
  refine DtOk.of ?_ ?_ (by intro h; cases h)
  · show (do let da ← a.evalDt a.md.inDt; let db ← b.evalDt a.md.inDt; pure (resultType da db)) = _
    rw [ha.1, hag.1, hb.1]
    rfl
  · show (do let da ← a.adjCallDt (resultType a.md.outDt b.md.outDt)
             let db ← b.adjCallDt (resultType a.md.outDt b.md.outDt); pure (resultType da db)) = _
    rw [← hag.2, rt_idem, ha.2 hla, hag.2, hb.2 hlb, ← hag.1]
    show Except.ok (resultType a.md.inDt a.md.inDt) = _
    rw [rt_idem]
    rfl

theorem opMul_dt {a o : Obj α} (c : Scal α) (ha : DtOk a) (h : opMul a c = .ok o) : DtOk o := by
  unfold opMul at h
  split at h
  · injection h with h; subst h
    refine DtOk.ofOp ?_ rfl
    show (do let d ← a.evalDt a.md.inDt; pure (resultTypeS d c.kind.sk)) = _
    rw [ha.1]; rfl
  · cases h

theorem opDiv_dt {a o : Obj α} (c : Scal α) (ha : DtOk a) (h : opDiv a c = .ok o) : DtOk o := by
  unfold opDiv at h
  split at h
  · injection h with h; subst h
    refine DtOk.ofOp ?_ rfl
    show (do let d ← a.evalDt a.md.inDt; pure (resultTypeS d c.kind.sk)) = _
    rw [ha.1]; rfl
  · cases h

theorem linMul_dt {a o : Obj α} (c : Scal α) (ha : DtOk a) (hla : a.md.cls ≠ .op)
    (h : linMul a c = .ok o) : DtOk o := by
  unfold linMul at h
  split at h
  · injection h with h; subst h
    refine DtOk.of ?_ (ha.2 hla) (by intro h; cases h)
    show (do let d ← a.evalDt a.md.inDt; pure (resultTypeS d c.kind.sk)) = _
    rw [ha.1]; rfl
  · cases h

theorem linDiv_dt {a o : Obj α} (c : Scal α) (ha : DtOk a) (hla : a.md.cls ≠ .op)
    (h : linDiv a c = .ok o) : DtOk o := by
  unfold linDiv at h
  split at h
  · injection h with h; subst h
    refine DtOk.of ?_ (ha.2 hla) (by intro h; cases h)
    show (do let d ← a.evalDt a.md.inDt; pure (resultTypeS d c.kind.sk)) = _
    rw [ha.1]; rfl
  · cases h

/-- `Operator.__call__(Operator)`: sound when the dtypes chain (not checked by the code) -/
theorem opComp_dt {a b o : Obj α} (ha : DtOk a) (hb : DtOk b) (hch : a.md.inDt = b.md.outDt)
    (h : opComp Cfg.fixed a b = .ok o) : DtOk o := by
  unfold opComp at h
  split at h
  · injection h with h; subst h
    refine DtOk.ofOp ?_ rfl
    show (do let d ← b.evalDt b.md.inDt; a.evalDt d) = _
    rw [hb.1, ← hch]
    exact ha.1
  · cases h

/-- `ComposedLinearOperator`: the constructor checks that the dtypes chain -/
theorem linComp_dt {a b o : Obj α} (ha : DtOk a) (hb : DtOk b) (hla : a.md.cls ≠ .op)
    (hlb : b.md.cls ≠ .op) (h : linComp a b = .ok o) : DtOk o := by
  unfold linComp at h
  split at h
  · cases h
  · split at h
    · cases h
    · rename_i hdt
      have hdt' : a.md.inDt = b.md.outDt := by simpa using hdt
      injection h with h; subst h
      refine DtOk.of ?_ ?_ (by intro h; cases h)
      · show (do let d ← b.evalDt b.md.inDt; a.evalDt d) = _
        rw [hb.1, ← hdt']
        exact ha.1
      · show (do let d ← a.adjCallDt a.md.outDt; b.adjCallDt d) = _
        rw [ha.2 hla, hdt']
        exact hb.2 hlb

theorem linT_dt {a : Obj α} (ha : DtOk a) (hla : a.md.cls ≠ .op) : DtOk (linT a) := by
  unfold linT
  split
  · exact DtOk.of (ha.2 hla) ha.1 (by intro h; cases h)
  · exact DtOk.of (ha.2 hla) ha.1 (by intro h; cases h)

theorem linH_dt {a : Obj α} (ha : DtOk a) (hla : a.md.cls ≠ .op) : DtOk (linH a) :=
  DtOk.of (ha.2 hla) ha.1 (by intro h; cases h)

theorem linConj_dt {a : Obj α} (ha : DtOk a) (hla : a.md.cls ≠ .op) : DtOk (linConj a) :=
  DtOk.of ha.1 (ha.2 hla) (by intro h; cases h)

theorem linGram_dt {a : Obj α} (ha : DtOk a) (hla : a.md.cls ≠ .op) : DtOk (linGram Cfg.fixed a) := by
  have hg : (do let d ← a.evalDt a.md.inDt; a.adjCallDt d) = Except.ok a.md.inDt := by
    rw [ha.1]; exact ha.2 hla
  exact DtOk.of hg hg (by intro h; cases h)

/-! ### closed forms: every result is rebuilt by a constructor -/

theorem rediag_dt {d : V α} {dsh : Shape} {ddt : DT} {inSh : Shape} {inDt? : Option DT} {o : Obj α}
    (h : rediag Cfg.fixed d dsh ddt inSh inDt? = .ok o) : DtOk o := by
  unfold rediag at h
  exact mkDiag_dt h

theorem diagAddSub_dt (sub : Bool) {a b o : Obj α} (h : diagAddSub Cfg.fixed sub a b = .ok o) :
    DtOk o := by
  unfold diagAddSub at h
  rcases a.diagonal with ⟨da, sa, ta⟩
  rcases b.diagonal with ⟨db, sb, tb⟩
  simp only at h
  split at h
  · exact rediag_dt h
  · cases h

theorem sidAddSub_dt (sub : Bool) {a b o : Obj α} (h : sidAddSub Cfg.fixed sub a b = .ok o) :
    DtOk o := by
  unfold sidAddSub at h
  split at h
  · injection h with h; subst h; exact mkSid_dt _ _ _ _
  · cases h

theorem diagMul_dt {a o : Obj α} (c : Scal α) (h : diagMul Cfg.fixed a c = .ok o) : DtOk o := by
  unfold diagMul at h
  split at h
  · rcases a.diagonal with ⟨da, sa, ta⟩
    exact rediag_dt h
  · cases h

theorem diagDiv_dt {a o : Obj α} (c : Scal α) (h : diagDiv Cfg.fixed a c = .ok o) : DtOk o := by
  unfold diagDiv at h
  split at h
  · rcases a.diagonal with ⟨da, sa, ta⟩
    exact rediag_dt h
  · cases h

theorem sidMul_dt {a o : Obj α} (c : Scal α) (h : sidMul Cfg.fixed a c = .ok o) : DtOk o := by
  unfold sidMul at h
  split at h
  · injection h with h; subst h; exact mkSid_dt _ _ _ _
  · cases h

theorem sidDiv_dt {a o : Obj α} (c : Scal α) (h : sidDiv Cfg.fixed a c = .ok o) : DtOk o := by
  unfold sidDiv at h
  split at h
  · injection h with h; subst h; exact mkSid_dt _ _ _ _
  · cases h

theorem matMulS_dt {a o : Obj α} (c : Scal α) (h : matMulS a c = .ok o) : DtOk o := by
  unfold matMulS at h
  split at h
  · cases h
  · split at h
    · injection h with h; subst h; exact mkMat_dt _ _ _ _
    · split at h <;> cases h

theorem matDivS_dt {a o : Obj α} (c : Scal α) (h : matDivS a c = .ok o) : DtOk o := by
  unfold matDivS at h
  split at h
  · cases h
  · split at h
    · injection h with h; subst h; exact mkMat_dt _ _ _ _
    · split at h <;> cases h

theorem matRDivS_dt {a o : Obj α} (c : Scal α) (h : matRDivS a c = .ok o) : DtOk o := by
  unfold matRDivS at h
  split at h
  · cases h
  · split at h
    · injection h with h; subst h; exact mkMat_dt _ _ _ _
    · split at h <;> cases h

theorem matAddSubS_dt {a o : Obj α} (sub rev : Bool) (c : Scal α)
    (h : matAddSubS sub rev a c = .ok o) : DtOk o := by
  unfold matAddSubS at h
  split at h
  · cases h
  · split at h
    · injection h with h; subst h; exact mkMat_dt _ _ _ _
    · split at h <;> cases h

theorem matHadamard_dt {a b o : Obj α} (div : Bool) (h : matHadamard div a b = .ok o) : DtOk o := by
  unfold matHadamard at h
  split at h
  · split at h
    · injection h with h; subst h; exact mkMat_dt _ _ _ _
    · cases h
  · cases h

/-- the class of a result built by `opAddSub` / `linAddSub` -/
theorem opAddSub_cls {a b o : Obj α} (sub : Bool) (h : opAddSub sub a b = .ok o) : o.md.cls = .op := by
  unfold opAddSub at h
  split at h
  · injection h with h; subst h; rfl
  · cases h

/-- `_wrap_add_sub_matrix`: a `MatrixOperator` result is sound unconditionally, a generic one when the
    operands agree -/
theorem matAddSub_dt (sub : Bool) {a b o : Obj α} (ha : DtOk a) (hb : DtOk b)
    (hla : a.md.cls ≠ .op) (hag : IsGeneric o → DtAgree a b)
    (h : matAddSub sub a b = .ok o) : DtOk o := by
  unfold matAddSub at h
  split at h
  · split at h
    · injection h with h; subst h; exact mkMat_dt _ _ _ _
    · cases h
  · split at h
    · cases h
    · split at h
      · rename_i hl
        injection h with h; subst h
        have hlb : b.md.cls ≠ .op := by simpa [Cls.isLinop] using hl
        exact linAddSub_dt sub ha hb hla hlb (hag (Or.inr rfl))
      · exact opAddSub_dt sub ha hb (hag (Or.inl (opAddSub_cls sub h))).1 h

theorem matNeg_dt (a : Obj α) : DtOk (matNeg a) := mkMat_dt _ _ _ _

/-- the unwrapped `__add__/__sub__` of class `c` -/
theorem addSubOf_dt (c : Cls) (sub : Bool) {a b o : Obj α} (ha : DtOk a) (hb : DtOk b)
    (hla : a.md.cls ≠ .op) (hlb : b.md.cls ≠ .op) (hag : IsGeneric o → DtAgree a b)
    (h : addSubOf Cfg.fixed c sub a b = .ok o) : DtOk o := by
  unfold addSubOf at h
  split at h
  · exact opAddSub_dt sub ha hb (hag (Or.inl (opAddSub_cls sub h))).1 h
  · exact diagAddSub_dt sub h
  · exact sidAddSub_dt sub h
  · exact matAddSub_dt sub ha hb hla hag h
  · injection h with h; subst h
    exact linAddSub_dt sub ha hb hla hlb (hag (Or.inr rfl))

theorem wrapAddSub_dt (sub : Bool) {a b o : Obj α} (ha : DtOk a) (hb : DtOk b)
    (hla : a.md.cls ≠ .op) (hag : IsGeneric o → DtAgree a b)
    (h : wrapAddSub Cfg.fixed sub a b = .ok o) : DtOk o := by
  unfold wrapAddSub at h
  split at h
  · cases h
  · by_cases hlb : b.md.cls = .op
    · -- right operand a plain Operator: every branch ends in `Operator.__add__`
      have hbc : b.cls = .op := hlb
      have hsub1 : b.cls.isSub a.cls = false := by
        rw [hbc]
        have : a.cls ≠ .op := hla
        revert this
        cases a.cls <;> simp [Cls.isSub]
      have hsub2 : a.cls.isSub b.cls = true := by
        rw [hbc]; cases a.cls <;> simp [Cls.isSub]
      simp only [hsub1, Bool.false_eq_true, if_false, hsub2, if_true] at h
      rw [hbc] at h
      have : addSubOf Cfg.fixed Cls.op sub a b = opAddSub sub a b := rfl
      rw [this] at h
      exact opAddSub_dt sub ha hb (hag (Or.inl (opAddSub_cls sub h))).1 h
    · split at h
      · exact addSubOf_dt _ sub ha hb hla hlb hag h
      · split at h
        · exact addSubOf_dt _ sub ha hb hla hlb hag h
        · split at h
          · injection h with h; subst h
            exact linAddSub_dt sub ha hb hla hlb (hag (Or.inr rfl))
          · exact opAddSub_dt sub ha hb (hag (Or.inl (opAddSub_cls sub h))).1 h

/-- `a + b`, `a - b`: closed-form results are sound unconditionally; a generic result
    (`Operator` / `LinearOperator`) when the operands declare the same dtypes -/
theorem addSub_dt (sub : Bool) {a b o : Obj α} (ha : DtOk a) (hb : DtOk b)
    (hag : IsGeneric o → DtAgree a b) (h : addSub Cfg.fixed sub a b = .ok o) : DtOk o := by
  unfold addSub at h
  split at h
  · rename_i hpri
    simp only [Bool.and_eq_true, Bool.or_eq_true, decide_eq_true_eq] at hpri
    have hbm : b.md.cls ≠ .op := by
      have : b.md.cls = .matrix := hpri.1
      rw [this]; decide
    have hag' : IsGeneric o → DtAgree b a := fun hg => ⟨(hag hg).1.symm, (hag hg).2.symm⟩
    split at h
    · refine matAddSub_dt false (matNeg_dt b) ha (by show Cls.matrix ≠ Cls.op; decide) ?_ h
      intro hg
      have := hag' hg
      -- `-b` declares the dtypes of `b`
      refine ⟨this.1, ?_⟩
      show b.md.inDt = a.md.outDt
      rw [← hb.mx hpri.1]; exact this.2
    · exact matAddSub_dt false hb ha hbm hag' h
  · split at h
    · exact opAddSub_dt sub ha hb (hag (Or.inl (opAddSub_cls sub h))).1 h
    · rename_i hm
      exact matAddSub_dt sub ha hb (by rw [show a.md.cls = Cls.matrix from hm]; decide) hag h
    · rename_i hop _
      exact wrapAddSub_dt sub ha hb (by simpa [Obj.cls] using hop) hag h

/-! ### scalar factors, negation -/

theorem smul_dt {a o : Obj α} (c : Scal α) (ha : DtOk a) (h : smul Cfg.fixed a c = .ok o) : DtOk o := by
  unfold smul at h
  split at h
  · exact opMul_dt c ha h
  · exact diagMul_dt c h
  · exact sidMul_dt c h
  · exact matMulS_dt c h
  · rename_i h1 h2 h3 h4
    refine linMul_dt c ha ?_ h
    intro hop
    apply h1
    simp [Obj.cls, hop, Cls.arith]

theorem sdiv_dt {a o : Obj α} (c : Scal α) (ha : DtOk a) (h : sdiv Cfg.fixed a c = .ok o) : DtOk o := by
  unfold sdiv at h
  split at h
  · exact opDiv_dt c ha h
  · exact diagDiv_dt c h
  · exact sidDiv_dt c h
  · exact matDivS_dt c h
  · rename_i h1 h2 h3 h4
    refine linDiv_dt c ha ?_ h
    intro hop
    apply h1
    simp [Obj.cls, hop, Cls.arith]

theorem neg_dt {a o : Obj α} (ha : DtOk a) (h : neg Cfg.fixed a = .ok o) : DtOk o := by
  unfold neg at h
  split at h
  · injection h with h; subst h; exact matNeg_dt a
  · exact smul_dt _ ha h

/-! ### composition -/

/-- `LinearOperator.__call__(Operator)` -/
theorem linCall_dt {a b o : Obj α} (ha : DtOk a) (hb : DtOk b) (hla : a.md.cls ≠ .op)
    (hch : o.md.cls = .op → a.md.inDt = b.md.outDt) (h : linCall Cfg.fixed a b = .ok o) : DtOk o := by
  unfold linCall at h
  split at h
  · rename_i hl
    exact linComp_dt ha hb hla (by simpa [Obj.cls, Cls.isLinop] using hl) h
  · have hc : o.md.cls = .op := by
      unfold opComp at h
      split at h
      · injection h with h; subst h; rfl
      · cases h
    exact opComp_dt ha hb (hch hc) h

theorem opComp_cls {a b o : Obj α} (h : opComp Cfg.fixed a b = .ok o) : o.md.cls = .op := by
  unfold opComp at h
  split at h
  · injection h with h; subst h; rfl
  · cases h

/-- `MatrixOperator.__call__(Operator)` -/
theorem matCall_dt {a b o : Obj α} (ha : DtOk a) (hb : DtOk b)
    (hch : o.md.cls = .op → a.md.inDt = b.md.outDt) (h : matCall Cfg.fixed a b = .ok o) : DtOk o := by
  unfold matCall at h
  split at h
  · split at h
    · split at h
      · injection h with h; subst h; exact ha
      · split at h
        · injection h with h; subst h; exact mkMat_dt _ _ _ _
        · dsimp only at h
          split at h
          · cases h
          · rename_i outDt hev
            injection h with h; subst h
            exact mkLinAuto_dt hev
    · cases h
  · simp only [Cfg.fixed, if_true] at h
    exact opComp_dt ha hb (hch (opComp_cls h)) h

/-- `a(b)`: sound; when the result is a plain `Operator` (built by `Operator.__call__`, which does not
    compare dtypes) provided the dtypes chain -/
theorem call_dt {a b o : Obj α} (ha : DtOk a) (hb : DtOk b)
    (hch : o.md.cls = .op → a.md.inDt = b.md.outDt) (h : call Cfg.fixed a b = .ok o) : DtOk o := by
  unfold call at h
  split at h
  · exact opComp_dt ha hb (hch (opComp_cls h)) h
  · exact matCall_dt ha hb hch h
  · rename_i hop _
    exact linCall_dt ha hb (by simpa [Obj.cls] using hop) hch h

theorem diagMatmul_dt {a b o : Obj α} (ha : DtOk a) (hb : DtOk b) (hla : a.md.cls ≠ .op)
    (hch : o.md.cls = .op → a.md.inDt = b.md.outDt) (h : diagMatmul Cfg.fixed a b = .ok o) : DtOk o := by
  unfold diagMatmul at h
  simp only [Cfg.fixed, ↓reduceIte] at h
  split at h
  · split at h
    · rcases a.diagonal with ⟨da, sa, ta⟩
      rcases b.diagonal with ⟨db, sb, tb⟩
      split at h
      · cases h
      · exact rediag_dt h
    · cases h
  · exact linCall_dt ha hb hla hch h

theorem sidMatmul_dt {a b o : Obj α} (ha : DtOk a) (hb : DtOk b) (hla : a.md.cls ≠ .op)
    (hch : o.md.cls = .op → a.md.inDt = b.md.outDt) (h : sidMatmul Cfg.fixed a b = .ok o) : DtOk o := by
  unfold sidMatmul at h
  simp only [Cfg.fixed, ↓reduceIte] at h
  split at h
  · split at h
    · cases h
    · split at h
      · injection h with h; subst h; exact mkSid_dt _ _ _ _
      · rcases b.diagonal with ⟨db, sb, tb⟩
        exact rediag_dt h
  · exact linCall_dt ha hb hla hch h

/-- `a @ b` -/
theorem matmul_dt {a b o : Obj α} (ha : DtOk a) (hb : DtOk b)
    (hch : o.md.cls = .op → o ≠ a → a.md.inDt = b.md.outDt)
    (h : matmul Cfg.fixed a b = .ok o) : DtOk o := by
  unfold matmul at h
  split at h
  · split at h
    · split at h
      · cases h
      · injection h with h; subst h; exact ha
    · split at h <;> cases h
  · rename_i hop
    have hla : a.md.cls ≠ .op := by simpa [Obj.cls] using hop
    split at h
    · split at h
      · cases h
      · injection h with h; subst h; exact ha
    · have hch' : o.md.cls = .op → a.md.inDt = b.md.outDt := by
        intro hc
        by_cases hoa : o = a
        · rw [hoa] at hc; exact absurd hc hla
        · exact hch hc hoa
      split at h
      · split at h
        · cases h
        · injection h with h; subst h; exact hb
      · exact sidMatmul_dt ha hb hla hch' h
      · exact diagMatmul_dt ha hb hla hch' h
      · exact call_dt ha hb hch' h

/-! ### views -/

theorem diagT_dt {a : Obj α} (ha : DtOk a) (hla : a.md.cls ≠ .op) : DtOk (diagT Cfg.fixed a) := by
  unfold diagT
  split
  · exact linT_dt ha hla
  · exact ha

theorem diagConj_dt {a o : Obj α} (ha : DtOk a) (h : diagConj Cfg.fixed a = .ok o) : DtOk o := by
  unfold diagConj at h
  split at h
  · injection h with h; subst h; exact ha
  · injection h with h; subst h; exact mkSid_dt _ _ _ _
  · rcases a.diagonal with ⟨da, sa, ta⟩
    exact rediag_dt h

theorem diagH_dt {a o : Obj α} (ha : DtOk a) (hla : a.md.cls ≠ .op)
    (h : diagH Cfg.fixed a = .ok o) : DtOk o := by
  unfold diagH at h
  split at h
  · injection h with h; subst h; exact linH_dt ha hla
  · exact diagConj_dt ha h

theorem diagGram_dt {a o : Obj α} (ha : DtOk a) (hla : a.md.cls ≠ .op)
    (h : diagGram Cfg.fixed a = .ok o) : DtOk o := by
  unfold diagGram at h
  split at h
  · injection h with h; subst h; exact ha
  · injection h with h; subst h; exact mkSid_dt _ _ _ _
  · split at h
    · injection h with h; subst h; exact linGram_dt ha hla
    · rcases a.diagonal with ⟨da, sa, ta⟩
      exact rediag_dt h

theorem opT_dt {a o : Obj α} (ha : DtOk a) (h : opT Cfg.fixed a = .ok o) : DtOk o := by
  unfold opT at h
  split at h
  · cases h
  · injection h with h; subst h; exact mkMat_dt _ _ _ _
  · rename_i hc; injection h with h; subst h
    exact diagT_dt ha (by rw [show a.md.cls = Cls.diag from hc]; decide)
  · rename_i hc; injection h with h; subst h
    exact diagT_dt ha (by rw [show a.md.cls = Cls.scaledId from hc]; decide)
  · rename_i hc; injection h with h; subst h
    exact diagT_dt ha (by rw [show a.md.cls = Cls.ident from hc]; decide)
  · rename_i hop _ _ _ _
    injection h with h; subst h
    exact linT_dt ha (by simpa [Obj.cls] using hop)

theorem opH_dt {a o : Obj α} (ha : DtOk a) (h : opH Cfg.fixed a = .ok o) : DtOk o := by
  unfold opH at h
  split at h
  · cases h
  · injection h with h; subst h; exact mkMat_dt _ _ _ _
  · rename_i hc
    exact diagH_dt ha (by rw [show a.md.cls = Cls.diag from hc]; decide) h
  · rename_i hc
    exact diagH_dt ha (by rw [show a.md.cls = Cls.scaledId from hc]; decide) h
  · rename_i hc
    exact diagH_dt ha (by rw [show a.md.cls = Cls.ident from hc]; decide) h
  · rename_i hop _ _ _ _
    injection h with h; subst h
    exact linH_dt ha (by simpa [Obj.cls] using hop)

theorem opConj_dt {a o : Obj α} (ha : DtOk a) (h : opConj Cfg.fixed a = .ok o) : DtOk o := by
  unfold opConj at h
  split at h
  · cases h
  · injection h with h; subst h; exact mkMat_dt _ _ _ _
  · exact diagConj_dt ha h
  · exact diagConj_dt ha h
  · exact diagConj_dt ha h
  · rename_i hop _ _ _ _
    injection h with h; subst h
    exact linConj_dt ha (by simpa [Obj.cls] using hop)

theorem opGram_dt {a o : Obj α} (ha : DtOk a) (h : opGram Cfg.fixed a = .ok o) : DtOk o := by
  unfold opGram at h
  split at h
  · cases h
  · injection h with h; subst h; exact mkMat_dt _ _ _ _
  · rename_i hc
    exact diagGram_dt ha (by rw [show a.md.cls = Cls.diag from hc]; decide) h
  · rename_i hc
    exact diagGram_dt ha (by rw [show a.md.cls = Cls.scaledId from hc]; decide) h
  · rename_i hc
    exact diagGram_dt ha (by rw [show a.md.cls = Cls.ident from hc]; decide) h
  · rename_i hop _ _ _ _
    injection h with h; subst h
    exact linGram_dt ha (by simpa [Obj.cls] using hop)

/-! ### the induction over expression trees -/

theorem bind_ok' {ε β γ : Type} {x : Except ε β} {f : β → Except ε γ} {b : γ}
    (h : (x >>= f) = .ok b) : ∃ a, x = .ok a ∧ f a = .ok b := by
  cases x with
  | error e => simp [bind, Except.bind] at h
  | ok a => exact ⟨a, rfl, by simpa [bind, Except.bind] using h⟩

/-- **the agreement conditions scico does not check** (everything else it checks itself):
    * at `a ± b`: when the result is a generic `Operator` / `LinearOperator` (no closed form applies),
      the operands declare the same input and output dtypes;
    * at `a(b)` / `a @ b`: when the result is a plain `Operator` built by `Operator.__call__`, the
      dtypes chain (`ComposedLinearOperator` checks this itself);
    * a `lin` leaf with a hand-written `adj_fn`: that function returns the declared input dtype. -/
def DtAgrees : LExpr α → Prop
  | .lin _ _ inDt gDt hasAdj _ => hasAdj = true → LeafAdjOk inDt gDt
  | .add a b =>
    DtAgrees a ∧ DtAgrees b ∧ ∀ oa ob o, build a = .ok oa → build b = .ok ob →
      addSub Cfg.fixed false oa ob = .ok o → IsGeneric o → DtAgree oa ob
  | .sub a b =>
    DtAgrees a ∧ DtAgrees b ∧ ∀ oa ob o, build a = .ok oa → build b = .ok ob →
      addSub Cfg.fixed true oa ob = .ok o → IsGeneric o → DtAgree oa ob
  | .comp a b =>
    DtAgrees a ∧ DtAgrees b ∧ ∀ oa ob o, build a = .ok oa → build b = .ok ob →
      call Cfg.fixed oa ob = .ok o → o.md.cls = .op → oa.md.inDt = ob.md.outDt
  | .matmul a b =>
    DtAgrees a ∧ DtAgrees b ∧ ∀ oa ob o, build a = .ok oa → build b = .ok ob →
      matmul Cfg.fixed oa ob = .ok o → o.md.cls = .op → o ≠ oa → oa.md.inDt = ob.md.outDt
  | .had _ a b => DtAgrees a ∧ DtAgrees b
  | .neg a | .smulL _ a | .smulR a _ | .sdiv a _ | .rdiv _ a | .addS _ _ a _
  | .T a | .H a | .conj a | .gram a => DtAgrees a
  | _ => True

/-- **Dtype soundness.**  Whatever scico builds for an expression whose operands agree in the
    sense of `DtAgrees` returns, on an argument of its declared input dtype, exactly its declared
    output dtype, and its adjoint maps the declared output dtype to the declared input dtype (its
    dtype check and every inner one pass). -/
theorem build_dt : ∀ (e : LExpr α) (o : Obj α), DtAgrees e → build e = .ok o → DtOk o := by
  intro e
  induction e with
  | mat m n dt A =>
    intro o _ h; simp only [build, buildC] at h; injection h with h; subst h; exact mkMat_dt _ _ _ _
  | diag dsh ddt inSh? inDt? d =>
    intro o _ h; simp only [build, buildC] at h; exact mkDiag_dt h
  | scaledId c ck sh dt =>
    intro o _ h; simp only [build, buildC] at h; injection h with h; subst h; exact mkSid_dt _ _ _ _
  | ident sh dt =>
    intro o _ h; simp only [build, buildC] at h; injection h with h; subst h; exact mkIdent_dt _ _
  | lin inSh outSh inDt gDt hasAdj G =>
    intro o hg h; simp only [build, buildC] at h; injection h with h; subst h
    exact mkLinLeaf_dt _ _ _ _ _ _ hg
  | nonlin inSh outSh inDt gDt G =>
    intro o _ h; simp only [build, buildC] at h; injection h with h; subst h
    exact mkNonlinLeaf_dt _ _ _ _ _
  | add a b iha ihb =>
    intro o hg h
    simp only [build, buildC] at h
    obtain ⟨oa, ha, h⟩ := bind_ok' h
    obtain ⟨ob, hb, h⟩ := bind_ok' h
    exact addSub_dt false (iha oa hg.1 ha) (ihb ob hg.2.1 hb) (hg.2.2 oa ob o ha hb h) h
  | sub a b iha ihb =>
    intro o hg h
    simp only [build, buildC] at h
    obtain ⟨oa, ha, h⟩ := bind_ok' h
    obtain ⟨ob, hb, h⟩ := bind_ok' h
    exact addSub_dt true (iha oa hg.1 ha) (ihb ob hg.2.1 hb) (hg.2.2 oa ob o ha hb h) h
  | neg a iha =>
    intro o hg h
    simp only [build, buildC] at h
    obtain ⟨oa, ha, h⟩ := bind_ok' h
    exact neg_dt (iha oa hg ha) h
  | smulL c a iha =>
    intro o hg h
    simp only [build, buildC] at h
    obtain ⟨oa, ha, h⟩ := bind_ok' h
    exact smul_dt c (iha oa hg ha) h
  | smulR a c iha =>
    intro o hg h
    simp only [build, buildC] at h
    obtain ⟨oa, ha, h⟩ := bind_ok' h
    exact smul_dt c (iha oa hg ha) h
  | sdiv a c iha =>
    intro o hg h
    simp only [build, buildC] at h
    obtain ⟨oa, ha, h⟩ := bind_ok' h
    exact sdiv_dt c (iha oa hg ha) h
  | rdiv c a iha =>
    intro o hg h
    simp only [build, buildC] at h
    obtain ⟨oa, ha, h⟩ := bind_ok' h
    split at h
    · exact matRDivS_dt c h
    · cases h
  | addS sub rev a c iha =>
    intro o hg h
    simp only [build, buildC] at h
    obtain ⟨oa, ha, h⟩ := bind_ok' h
    split at h
    · exact matAddSubS_dt sub rev c h
    · cases h
  | had div a b iha ihb =>
    intro o hg h
    simp only [build, buildC] at h
    obtain ⟨oa, ha, h⟩ := bind_ok' h
    obtain ⟨ob, hb, h⟩ := bind_ok' h
    split at h
    · exact matHadamard_dt div h
    · cases h
  | comp a b iha ihb =>
    intro o hg h
    simp only [build, buildC] at h
    obtain ⟨oa, ha, h⟩ := bind_ok' h
    obtain ⟨ob, hb, h⟩ := bind_ok' h
    exact call_dt (iha oa hg.1 ha) (ihb ob hg.2.1 hb) (hg.2.2 oa ob o ha hb h) h
  | matmul a b iha ihb =>
    intro o hg h
    simp only [build, buildC] at h
    obtain ⟨oa, ha, h⟩ := bind_ok' h
    obtain ⟨ob, hb, h⟩ := bind_ok' h
    exact matmul_dt (iha oa hg.1 ha) (ihb ob hg.2.1 hb) (hg.2.2 oa ob o ha hb h) h
  | T a iha =>
    intro o hg h
    simp only [build, buildC] at h
    obtain ⟨oa, ha, h⟩ := bind_ok' h
    exact opT_dt (iha oa hg ha) h
  | H a iha =>
    intro o hg h
    simp only [build, buildC] at h
    obtain ⟨oa, ha, h⟩ := bind_ok' h
    exact opH_dt (iha oa hg ha) h
  | conj a iha =>
    intro o hg h
    simp only [build, buildC] at h
    obtain ⟨oa, ha, h⟩ := bind_ok' h
    exact opConj_dt (iha oa hg ha) h
  | gram a iha =>
    intro o hg h
    simp only [build, buildC] at h
    obtain ⟨oa, ha, h⟩ := bind_ok' h
    exact opGram_dt (iha oa hg ha) h

end
end Scico.OpAlg
