/-
  The auxiliary sequences of the robust line search (`RobustLineSearchStepSize`, Florea–Vorobyov):
  for the value `L` a trial is made with,

      t = (1 + √(1 + 4·L·T_k)) / (2L),   T = T_k + t,   y = (T_k·x + t·Zrb) / T

  satisfy the estimate-sequence identity `L·t² = T` (`t` is the positive root of `L t² − t − T_k = 0`), `t ≥ 1/L > 0`,
  `T > T_k ≥ 0`, and `y` is the convex combination of `x` and `Zrb` with weights `T_k/T`, `t/T`.
  Real scalars (exact arithmetic).
-/
import Scico.Proofs.StepSizeEnv
import Mathlib.Analysis.SpecialFunctions.Sqrt
import Mathlib.Tactic.Linarith
import Mathlib.Tactic.FieldSimp
import Mathlib.Tactic.Ring

set_option linter.unusedSectionVars false

namespace Scico.StepSize

noncomputable instance instHasSqrtRealSS : HasSqrt ℝ := ⟨Real.sqrt⟩

/-- the step `t` of a trial -/
noncomputable def rlsT (Tk L : ℝ) : ℝ := (1 + Real.sqrt (1 + 4 * L * Tk)) / (2 * L)

theorem rlsTrial_fst {V : Type} (env : Env V ℝ) (x : V) (Tk : ℝ) (Zrb : V) (L : ℝ) :
    (rlsTrial env x Tk Zrb L).1 = rlsT Tk L ∧ (rlsTrial env x Tk Zrb L).2.1 = Tk + rlsT Tk L := by
  have h4 : (four : ℝ) = 4 := by unfold four; norm_num
  have h2 : (two : ℝ) = 2 := by unfold two; norm_num
  unfold rlsTrial rlsT
  simp only [h4, h2]
  exact ⟨rfl, rfl⟩

/-- the estimate-sequence identity and the signs -/
theorem rlsT_spec (Tk L : ℝ) (hL : 0 < L) (hT : 0 ≤ Tk) :
    1 / L ≤ rlsT Tk L ∧ 0 < rlsT Tk L ∧ L * rlsT Tk L ^ 2 = Tk + rlsT Tk L ∧ Tk < Tk + rlsT Tk L := by
  have hs0 : 0 ≤ 1 + 4 * L * Tk := by have := mul_nonneg (le_of_lt hL) hT; linarith
  have hs1 : 1 ≤ Real.sqrt (1 + 4 * L * Tk) := by
    rw [Real.one_le_sqrt]
    have := mul_nonneg (le_of_lt hL) hT; linarith
  have hsq : Real.sqrt (1 + 4 * L * Tk) ^ 2 = 1 + 4 * L * Tk := Real.sq_sqrt hs0
  have hlow : 1 / L ≤ rlsT Tk L := by
    unfold rlsT
    rw [div_le_div_iff₀ hL (by linarith)]
    nlinarith
  have hpos : 0 < rlsT Tk L := lt_of_lt_of_le (by positivity) hlow
  refine ⟨hlow, hpos, ?_, by linarith⟩
  unfold rlsT
  set s := Real.sqrt (1 + 4 * L * Tk) with hs
  have hne : L ≠ 0 := ne_of_gt hL
  field_simp
  nlinarith [hsq]

/-- the reals carry no NaN / infinities -/
noncomputable instance instIEEERealSS : IEEE ℝ := ⟨fun _ => false, fun _ => true⟩

theorem geom_pos_real (L γ : ℝ) (hL : 0 < L) (hγ : 0 < γ) : ∀ k, 0 < geom L γ k := by
  intro k
  induction k generalizing L with
  | zero => exact hL
  | succ k ih => exact ih (L * γ) (mul_pos hL hγ)

open Classical in
/-- **Estimate-sequence invariant of `RobustLineSearchStepSize.update`** (exact arithmetic): for `L, γ_d, γ_u > 0` and
    `T_k ≥ 0`, a completed call returns `L' > 0`, the new `T_{k+1} = T_k + t` exceeds `T_k`, and
    `L' · t² = T_{k+1}` with `t = T_{k+1} − T_k` — the identity holds for the *returned* `L'` (the value the handed-back
    candidate was computed with). -/
theorem update_rls_estimate_sequence {V : Type} (env : Env V ℝ) (γd γu : ℝ) (m : Nat) (x : V) (L : ℝ)
    (ps : PolState V ℝ) (v : V) (L' : ℝ) (ps' : PolState V ℝ) (hL : 0 < L) (hγd : 0 < γd) (hγu : 0 < γu)
    (hT : 0 ≤ ps.Tk) (h : update env (.rls γd γu m) x L ps v = some (L', ps')) :
    0 < L' ∧ ps.Tk < ps'.Tk ∧ L' * (ps'.Tk - ps.Tk) ^ 2 = ps'.Tk := by
  obtain ⟨k, _, hL', _, _, _, _, hTk, _⟩ := update_rls env γd γu m x L ps v L' ps' h (zrbOf ps x) rfl
  have hpos : 0 < L' := by rw [hL']; exact geom_pos_real _ _ (mul_pos hL hγd) hγu k
  have hT' : ps'.Tk = ps.Tk + rlsT ps.Tk L' := by rw [hTk]; exact (rlsTrial_fst env x ps.Tk _ L').2
  obtain ⟨_, _, h3, h4⟩ := rlsT_spec ps.Tk L' hpos hT
  refine ⟨hpos, by rw [hT']; exact h4, ?_⟩
  rw [hT', add_sub_cancel_left]
  exact h3

theorem iterate_pred {V S : Type} (step : PGMState V S → Option (PGMState V S)) (P : PGMState V S → Prop)
    (hstep : ∀ s s', P s → step s = some s' → P s') :
    ∀ (k : Nat) (s0 s : PGMState V S), P s0 → iterate step k s0 = some s → P s := by
  intro k
  induction k with
  | zero => intro s0 s h0 h; simp only [iterate, Option.some.injEq] at h; exact h ▸ h0
  | succ k ih =>
    intro s0 s h0 h
    simp only [iterate] at h
    split at h
    · cases h
    · rename_i s1 hs1
      exact ih s1 s (hstep s0 s1 h0 hs1) h

open Classical in
/-- one `AcceleratedPGM.step` with the robust line search: what it does to `(L, T_k)` -/
theorem apgmStep_rls_seq {V : Type} (env : Env V ℝ) (γd γu : ℝ) (m : Nat) (hγd : 0 < γd) (hγu : 0 < γu)
    (s s' : PGMState V ℝ) (hL : 0 < s.L) (hT : 0 ≤ s.ps.Tk) (h : apgmStep env (.rls γd γu m) s = some s') :
    0 < s'.L ∧ s.ps.Tk < s'.ps.Tk ∧ s'.L * (s'.ps.Tk - s.ps.Tk) ^ 2 = s'.ps.Tk := by
  unfold apgmStep at h
  simp only [apgmPoint, Policy.isBB, Bool.false_eq_true, if_false] at h
  split at h
  · cases h
  · rename_i L ps hu
    split at h
    · cases h
    · rename_i z hz
      simp only [Option.some.injEq] at h
      subst h
      exact update_rls_estimate_sequence env γd γu m s.x s.L s.ps s.v L ps hL hγd hγu hT hu

end Scico.StepSize
