/-
  N-dimensional lemmas about the evaluation model `Scico.Model.FuncEval` (property C09, round 2):

  * the finite difference along any axis of a row-major N-d array (`fdAxis`, the operator the TV
    norms evaluate through) in coordinates `(a, c, b)` — `a` the flat index over the leading axes,
    `c` the coordinate on the differenced axis, `b` the flat index over the trailing axes — and
    its identification with the code-shaped 1-D difference (`diffAppend`) of every fibre;
  * the TV norms as the documented sums over those differences;
  * `L21Norm(l2_axis=0)` on a stacked array (what `IsotropicTVNorm` applies to `G x`).
-/
import Scico.Proofs.FuncEval

namespace Scico.FuncEval

/-! ### sizes -/

theorem foldl_mul_eq (s : List Nat) (a : Nat) : s.foldl (· * ·) a = a * s.prod := by
  induction s generalizing a with
  | nil => simp
  | cons x xs ih => simp only [List.foldl_cons, ih, List.prod_cons]; ring

theorem size_eq_prod (s : List Nat) : size s = s.prod := by
  unfold size; rw [foldl_mul_eq]; simp

theorem size_append (s t : List Nat) : size (s ++ t) = size s * size t := by
  simp [size_eq_prod]

theorem size_cons (n : Nat) (t : List Nat) : size (n :: t) = n * size t := by
  simp [size_eq_prod]

theorem size_split (pre post : List Nat) (n : Nat) :
    size (pre ++ n :: post) = size pre * n * size post := by
  rw [size_append, size_cons]; ring

/-- position `(a, c, b)` of an array of shape `pre ++ [n] ++ post` is inside the flat array -/
theorem idx_lt {P n S a c b : Nat} (ha : a < P) (hc : c < n) (hb : b < S) :
    (a * n + c) * S + b < P * n * S := by
  have h1 : a * n + c < P * n := by
    calc a * n + c < a * n + n := by omega
      _ = (a + 1) * n := by ring
      _ ≤ P * n := Nat.mul_le_mul_right n ha
  calc (a * n + c) * S + b < (a * n + c) * S + S := by omega
    _ = (a * n + c + 1) * S := by ring
    _ ≤ P * n * S := Nat.mul_le_mul_right S h1

/-! ### finite difference along an axis of an N-d array -/
section fd
variable {K : Type} [Field K]

theorem fdAxis_length (circular : Bool) (shape : List Nat) (ax : Nat) (x : List K) :
    (fdAxis circular shape ax x).length = size shape := by
  simp [fdAxis]

/-- **N-d finite difference, every shape / axis / boundary mode.**  For an array of shape
    `pre ++ [n] ++ post` (row-major, `x.reshape(P, n, S)[a, c, b]` at flat position
    `(a·n + c)·S + b`, `P = ∏ pre`, `S = ∏ post`), differencing along axis `pre.length` gives at
    `(a, c, b)`: `x[a, c+1, b] − x[a, c, b]` for `c + 1 < n`, and at `c = n − 1` the value
    `x[a, 0, b] − x[a, n−1, b]` (circular) or `0` (`append=0`). -/
theorem fdAxis_nd (circular : Bool) (pre post : List Nat) (n : Nat) (x : List K)
    (a c b : Nat) (ha : a < size pre) (hc : c < n) (hb : b < size post) :
    (fdAxis circular (pre ++ n :: post) pre.length x).getD ((a * n + c) * size post + b) 0 =
      if c + 1 < n then
        x.getD ((a * n + (c + 1)) * size post + b) 0 - x.getD ((a * n + c) * size post + b) 0
      else if circular then
        x.getD ((a * n + 0) * size post + b) 0 - x.getD ((a * n + c) * size post + b) 0
      else 0 := by
  have hlt : (a * n + c) * size post + b < size (pre ++ n :: post) := by
    rw [size_split]; exact idx_lt ha hc hb
  have hS : 0 < size post := by omega
  have hn : (pre ++ n :: post).getD pre.length 1 = n := by
    simp [List.getD_eq_getElem?_getD]
  have hdrop : (pre ++ n :: post).drop (pre.length + 1) = post := by
    simp [List.drop_append]
  have hdiv : ((a * n + c) * size post + b) / size post = a * n + c := by
    rw [Nat.mul_comm, Nat.mul_add_div hS, Nat.div_eq_of_lt hb]; simp
  have hmod : (a * n + c) % n = c := by
    rw [Nat.mul_comm, Nat.mul_add_mod, Nat.mod_eq_of_lt hc]
  unfold fdAxis
  simp only [hn, hdrop]
  rw [List.getD_eq_getElem?_getD, List.getElem?_map, List.getElem?_range hlt]
  simp only [Option.map_some, Option.getD_some, hdiv, hmod]
  have e1 : (a * n + c) * size post + b + size post = (a * n + (c + 1)) * size post + b := by ring
  have e2 : (a * n + c) * size post + b - c * size post = (a * n + 0) * size post + b := by
    have : (a * n + c) * size post + b = (a * n + 0) * size post + b + c * size post := by ring
    omega
  rw [e1, e2]

/-- the fibre of `x` (shape `pre ++ [n] ++ post`) through `(a, ·, b)` -/
def fibre (n S : Nat) (x : List K) (a b : Nat) : List K :=
  (List.range n).map (fun c => x.getD ((a * n + c) * S + b) 0)

theorem fibre_length (n S : Nat) (x : List K) (a b : Nat) : (fibre n S x a b).length = n := by
  simp [fibre]

theorem fibre_getD (n S : Nat) (x : List K) (a b c : Nat) (hc : c < n) :
    (fibre n S x a b).getD c 0 = x.getD ((a * n + c) * S + b) 0 := by
  simp [fibre, List.getD_eq_getElem?_getD, List.getElem?_map, List.getElem?_range hc]

/-- **N-d lifting of the code-shaped difference**: along every fibre, the N-d model `fdAxis` is
    the 1-D `diffAppend` (append a copy of the last / first entry, then `diff` — what
    `SingleAxisFiniteDifference._eval` does along `axis`). -/
theorem fdAxis_fibre (circular : Bool) (pre post : List Nat) (n : Nat) (x : List K)
    (a c b : Nat) (ha : a < size pre) (hc : c < n) (hb : b < size post) :
    (fdAxis circular (pre ++ n :: post) pre.length x).getD ((a * n + c) * size post + b) 0 =
      (diffAppend circular (fibre n (size post) x a b)).getD c 0 := by
  rw [fdAxis_nd circular pre post n x a c b ha hc hb,
    diffAppend_getD circular _ c (by rw [fibre_length]; exact hc), fibre_length]
  have h0 : 0 < n := by omega
  by_cases h1 : c + 1 < n
  · rw [if_pos h1, if_pos h1, fibre_getD _ _ _ _ _ _ h1, fibre_getD _ _ _ _ _ _ hc]
  · rw [if_neg h1, if_neg h1, fibre_getD _ _ _ _ _ _ h0, fibre_getD _ _ _ _ _ _ hc]

end fd

end Scico.FuncEval

namespace Scico.FuncEval

/-! ### the TV norms are the documented norms of the finite differences -/
section tv

theorem absR_eq_abs (a : ℝ) : absR a = |a| := by
  unfold absR
  split
  · rw [abs_of_neg ‹_›]
  · rw [abs_of_nonneg (not_lt.mp ‹_›)]

theorem range_map_getD {β : Type} (l : List ℝ) (N : Nat) (h : l.length = N) (g : ℝ → β) :
    (List.range N).map (fun i => g (l.getD i 0)) = l.map g := by
  subst h
  apply List.ext_getElem
  · simp
  · intro i h1 h2
    simp [List.getD_eq_getElem?_getD, List.getElem?_eq_getElem (show i < l.length by simpa using h1)]

/-- real data: `AnisotropicTVNorm` is `L1Norm` of the stack of differences, i.e.
    `Σ_axes Σ_positions |D_ax x|` -/
theorem tvAniso_real (circular : Bool) (shape axes : List Nat) (x : List ℝ) :
    tvAniso circular shape axes [x] =
      (axes.map (fun ax => ((fdAxis circular shape ax x).map (fun d => |d|)).sum)).sum ∧
    tvAniso circular shape axes [x] = l1 false (.blk (axes.map (fun ax => fdAxis circular shape ax x))) := by
  have key : tvAniso circular shape axes [x] =
      (axes.map (fun ax => ((fdAxis circular shape ax x).map (fun d => |d|)).sum)).sum := by
    unfold tvAniso tvSq
    rw [List.map_map]
    congr 1
    apply List.map_congr_left
    intro ax _
    simp only [Function.comp, List.map_cons, List.map_nil, List.sum_cons, List.sum_nil, add_zero, List.map_map,
      HasSqrt.sqrt]
    have := range_map_getD (fdAxis circular shape ax x) (size shape) (fdAxis_length circular shape ax x)
      (fun d => Real.sqrt (d * d))
    beta_reduce at this
    have e : ((fun s : ℝ => √s) ∘ fun i => (fdAxis circular shape ax x).getD i 0 * (fdAxis circular shape ax x).getD i 0)
        = fun i => √((fdAxis circular shape ax x).getD i 0 * (fdAxis circular shape ax x).getD i 0) := rfl
    rw [e, this]
    congr 1
    apply List.map_congr_left
    intro d _
    rw [← sq, Real.sqrt_sq_eq_abs]
  refine ⟨key, ?_⟩
  rw [key]
  simp only [l1, Arg.flat, mags, Bool.false_eq_true, if_false]
  rw [List.map_flatten, List.sum_flatten, List.map_map, List.map_map]
  congr 1
  apply List.map_congr_left
  intro ax _
  simp only [Function.comp]
  congr 1
  apply List.map_congr_left
  intro d _
  exact (absR_eq_abs d).symm

/-- complex data (`comps = [re, im]`): `Σ_axes Σ_positions |D_ax x|` with
    `|D_ax x|² = (D_ax re)² + (D_ax im)²` (the difference is taken componentwise) -/
theorem tvAniso_cplx (circular : Bool) (shape axes : List Nat) (re im : List ℝ) :
    tvAniso circular shape axes [re, im] =
      (axes.map (fun ax => ((List.range (size shape)).map (fun i =>
        Real.sqrt ((fdAxis circular shape ax re).getD i 0 ^ 2 + (fdAxis circular shape ax im).getD i 0 ^ 2))).sum)).sum := by
  unfold tvAniso tvSq
  rw [List.map_map]
  congr 1
  apply List.map_congr_left
  intro ax _
  simp only [Function.comp, List.map_cons, List.map_nil, List.sum_cons, List.sum_nil, add_zero, List.map_map,
    HasSqrt.sqrt]
  congr 1
  apply List.map_congr_left
  intro i _
  simp only [Function.comp]
  congr 1
  ring

/-- `IsotropicTVNorm`: `Σ_positions sqrt( Σ_axes |D_ax x|² )` (real data) -/
theorem tvIso_real (circular : Bool) (shape axes : List Nat) (x : List ℝ) :
    tvIso circular shape axes [x] =
      ((List.range (size shape)).map (fun i =>
        Real.sqrt ((axes.map (fun ax => (fdAxis circular shape ax x).getD i 0 ^ 2)).sum))).sum := by
  unfold tvIso tvSq
  simp only [HasSqrt.sqrt]
  congr 1
  apply List.map_congr_left
  intro i hi
  have hi' : i < size shape := by simpa using hi
  rw [absR_eq_abs, abs_of_nonneg (Real.sqrt_nonneg _)]
  congr 1
  rw [List.map_map]
  congr 1
  apply List.map_congr_left
  intro ax _
  simp only [Function.comp, List.map_cons, List.map_nil, List.sum_cons, List.sum_nil, add_zero]
  simp [List.getD_eq_getElem?_getD, List.getElem?_map, List.getElem?_range hi', sq]

/-- complex data -/
theorem tvIso_cplx (circular : Bool) (shape axes : List Nat) (re im : List ℝ) :
    tvIso circular shape axes [re, im] =
      ((List.range (size shape)).map (fun i =>
        Real.sqrt ((axes.map (fun ax => (fdAxis circular shape ax re).getD i 0 ^ 2
          + (fdAxis circular shape ax im).getD i 0 ^ 2)).sum))).sum := by
  unfold tvIso tvSq
  simp only [HasSqrt.sqrt]
  congr 1
  apply List.map_congr_left
  intro i hi
  have hi' : i < size shape := by simpa using hi
  rw [absR_eq_abs, abs_of_nonneg (Real.sqrt_nonneg _)]
  congr 1
  rw [List.map_map]
  congr 1
  apply List.map_congr_left
  intro ax _
  simp only [Function.comp, List.map_cons, List.map_nil, List.sum_cons, List.sum_nil, add_zero]
  simp [List.getD_eq_getElem?_getD, List.getElem?_map, List.getElem?_range hi', sq]

/-- a constant image has zero total variation, for both boundary modes, every shape and axis
    (sanity of the boundary handling: the appended copy produces a zero difference) -/
theorem fdAxis_const (circular : Bool) (pre post : List Nat) (n : Nat) (k : ℝ) (x : List ℝ)
    (hx : ∀ i, i < size (pre ++ n :: post) → x.getD i 0 = k)
    (a c b : Nat) (ha : a < size pre) (hc : c < n) (hb : b < size post) :
    (fdAxis circular (pre ++ n :: post) pre.length x).getD ((a * n + c) * size post + b) 0 = 0 := by
  rw [fdAxis_nd circular pre post n x a c b ha hc hb]
  have h0 : 0 < n := by omega
  have hs := size_split pre post n
  have g : ∀ c', c' < n → x.getD ((a * n + c') * size post + b) 0 = k := fun c' hc' =>
    hx _ (by rw [hs]; exact idx_lt ha hc' hb)
  split
  · rw [g _ ‹_›, g _ hc]; ring
  · split
    · rw [g 0 h0, g _ hc]; ring
    · rfl

end tv

end Scico.FuncEval

namespace Scico.FuncEval

/-! ### `L21Norm(l2_axis=0)` on a stack: the index arithmetic of the model is the documented sum -/
section l21

theorem unravel_snd (s : List Nat) (i : Nat) :
    (s.foldr (fun n (acc : List Nat × Nat) => ((acc.2 % n) :: acc.1, acc.2 / n)) ([], i)).2 = i / size s := by
  induction s with
  | nil => simp [size]
  | cons n t ih =>
    simp only [List.foldr_cons, ih, size_cons]
    rw [Nat.div_div_eq_div_mul, Nat.mul_comm]

theorem unravel_cons (n : Nat) (s : List Nat) (i : Nat) :
    unravel (n :: s) i = ((i / size s) % n) :: unravel s i := by
  simp only [unravel, List.foldr_cons, unravel_snd]

theorem unravel_length (s : List Nat) (i : Nat) : (unravel s i).length = s.length := by
  induction s with
  | nil => simp [unravel]
  | cons n t ih => rw [unravel_cons]; simp [ih]

theorem ravel_from : ∀ (s ms : List Nat) (acc : Nat), ms.length = s.length →
    (List.zip s ms).foldl (fun acc p => acc * p.1 + p.2) acc = acc * size s + ravel s ms
  | [], [], acc, _ => by simp [ravel, size]
  | [], _ :: _, _, h => by simp at h
  | _ :: _, [], _, h => by simp at h
  | n :: s, m :: ms, acc, h => by
    simp only [List.length_cons, Nat.add_right_cancel_iff] at h
    simp only [ravel, List.zip_cons_cons, List.foldl_cons, size_cons]
    rw [ravel_from s ms (acc * n + m) h, ravel_from s ms (0 * n + m) h]
    ring

theorem ravel_cons (n m : Nat) (s ms : List Nat) (h : ms.length = s.length) :
    ravel (n :: s) (m :: ms) = m * size s + ravel s ms := by
  simp only [ravel, List.zip_cons_cons, List.foldl_cons]
  rw [ravel_from s ms (0 * n + m) h]
  simp [ravel]

/-- `ravel ∘ unravel` is reduction modulo the size -/
theorem ravel_unravel (s : List Nat) (i : Nat) : ravel s (unravel s i) = i % size s := by
  induction s with
  | nil => simp [ravel, unravel, size, Nat.mod_one]
  | cons n t ih =>
    rw [unravel_cons, ravel_cons _ _ _ _ (unravel_length t i), ih, size_cons, Nat.mul_comm n (size t), Nat.mod_mul]
    ring

theorem dropAxes_tail (ms : List Nat) (k : Nat) (hk : 1 ≤ k) :
    (ms.zipIdx k).map (fun p => if [0].contains p.2 then 0 else p.1) = ms := by
  induction ms generalizing k with
  | nil => simp
  | cons m ms ih =>
    simp only [List.zipIdx_cons, List.map_cons]
    rw [ih (k + 1) (by omega)]
    have hk0 : k ≠ 0 := by omega
    simp [hk0]

theorem dropAxes_zero_cons (m : Nat) (ms : List Nat) : dropAxes [0] (m :: ms) = 0 :: ms := by
  simp only [dropAxes, List.zipIdx_cons, List.map_cons]
  rw [dropAxes_tail ms (0 + 1) (by omega)]
  simp

/-- the group key of position `i` for `l2_axis=0` on shape `k :: rest` is `i mod ∏ rest` -/
theorem key_axis0 (k : Nat) (rest : List Nat) (i : Nat) :
    ravel (k :: rest) (dropAxes [0] (unravel (k :: rest) i)) = i % size rest := by
  rw [unravel_cons, dropAxes_zero_cons, ravel_cons _ _ _ _ (unravel_length rest i), ravel_unravel]
  simp

theorem filter_map_sum {β : Type} (l : List β) (p : β → Bool) (f : β → ℝ) :
    ((l.filter p).map f).sum = (l.map (fun i => if p i then f i else 0)).sum := by
  induction l with
  | nil => simp
  | cons x l ih =>
    by_cases h : p x
    · simp [List.filter_cons, h, ih]
    · simp [List.filter_cons, h, ih]

theorem sum_range_ite_eq (S r : Nat) (hr : r < S) (g : Nat → ℝ) :
    ((List.range S).map (fun t => if t = r then g t else 0)).sum = g r := by
  induction S with
  | zero => omega
  | succ S ih =>
    rw [List.range_succ, List.map_append, List.sum_append]
    by_cases h : r < S
    · rw [ih h]
      have : S ≠ r := by omega
      simp [this]
    · have hrS : r = S := by omega
      subst hrS
      have : ((List.range r).map (fun t => if t = r then g t else 0)).sum = 0 := by
        apply List.sum_eq_zero
        intro a ha
        simp only [List.mem_map, List.mem_range] at ha
        obtain ⟨t, ht, rfl⟩ := ha
        have : t ≠ r := by omega
        simp [this]
      rw [this]; simp

/-- the entries of group `r`: positions `j·S + r`, `j < k` -/
theorem group_sum (k S r : Nat) (hr : r < S) (f : Nat → ℝ) :
    (((List.range (k * S)).filter (fun i => i % S == r)).map f).sum =
      ((List.range k).map (fun j => f (j * S + r))).sum := by
  rw [filter_map_sum]
  induction k with
  | zero => simp
  | succ k ih =>
    have e : (k + 1) * S = k * S + S := by ring
    rw [e, List.range_add, List.map_append, List.sum_append, ih, List.range_succ, List.map_append, List.sum_append]
    congr 1
    rw [List.map_map]
    have : ((fun i => if (i % S == r) = true then f i else 0) ∘ fun x => k * S + x)
        = fun t => if (t % S == r) = true then f (k * S + t) else 0 := by
      funext t
      simp only [Function.comp, Nat.mul_add_mod_self_right]
    rw [this]
    have h2 : (List.range S).map (fun t => if (t % S == r) = true then f (k * S + t) else 0)
        = (List.range S).map (fun t => if t = r then f (k * S + t) else 0) := by
      apply List.map_congr_left
      intro t ht
      rw [List.mem_range] at ht
      rw [Nat.mod_eq_of_lt ht]
      simp
    rw [h2, sum_range_ite_eq S r hr (fun t => f (k * S + t))]
    simp

theorem filter_lt_range (n m : Nat) (h : m ≤ n) : (List.range n).filter (fun i => decide (i < m)) = List.range m := by
  induction n with
  | zero => have : m = 0 := by omega
            subst this; simp
  | succ n ih =>
    rw [List.range_succ, List.filter_append]
    by_cases hm : m ≤ n
    · rw [ih hm]
      have : ¬ n < m := by omega
      simp [this]
    · have hmn : m = n + 1 := by omega
      subst hmn
      have h1 : (List.range n).filter (fun i => decide (i < n + 1)) = List.range n := by
        apply List.filter_eq_self.mpr
        intro a ha
        rw [List.mem_range] at ha
        simp; omega
      rw [h1, List.range_succ]
      simp

/-- **`L21Norm(l2_axis=0)` on an array of shape `k :: rest`** (`k ≥ 1`), given the squared magnitudes
    `sq` in row-major order: the model's group-key formula is the documented
    `Σ_{r < ∏ rest} sqrt( Σ_{j < k} |x[j, r]|² )` — what `IsotropicTVNorm` applies to the stacked
    differences `G x` -/
theorem l21AxesOfSq_axis0 (k : Nat) (hk : 0 < k) (rest : List Nat) (sq : List ℝ) :
    l21AxesOfSq (k :: rest) [0] sq =
      ((List.range (size rest)).map (fun r =>
        |Real.sqrt (((List.range k).map (fun j => sq.getD (j * size rest + r) 0)).sum)|)).sum := by
  unfold l21AxesOfSq
  simp only [key_axis0, size_cons]
  rcases Nat.eq_zero_or_pos (size rest) with h0 | hS
  · simp [h0]
  · have hreps : (List.range (k * size rest)).filter (fun i => i % size rest == i)
        = List.range (size rest) := by
      have : (fun i => i % size rest == i) = fun i => decide (i < size rest) := by
        funext i
        by_cases h : i < size rest
        · simp [Nat.mod_eq_of_lt h, h]
        · have : i % size rest < size rest := Nat.mod_lt _ hS
          have hne : i % size rest ≠ i := by omega
          simp [h, hne]
      rw [this]
      exact filter_lt_range _ _ (Nat.le_mul_of_pos_left _ hk)
    rw [hreps]
    congr 1
    apply List.map_congr_left
    intro r hr
    rw [List.mem_range] at hr
    rw [absR_eq_abs]
    simp only [HasSqrt.sqrt]
    rw [group_sum k (size rest) r hr (fun i => sq.getD i 0)]

end l21

end Scico.FuncEval

namespace Scico.FuncEval

/-! ### `IsotropicTVNorm` is `L21Norm(l2_axis=0)` applied to the stack of differences -/
section tviso

theorem flatten_getD : ∀ (ls : List (List ℝ)) (N : Nat), (∀ l ∈ ls, l.length = N) → ∀ (j r : Nat), r < N →
    j < ls.length → ls.flatten.getD (j * N + r) 0 = (ls.getD j []).getD r 0
  | [], _, _, _, _, _, hj => by simp at hj
  | l0 :: ls, N, h, 0, r, hr, _ => by
    have h0 : l0.length = N := h l0 (by simp)
    simp only [List.flatten_cons, Nat.zero_mul, Nat.zero_add, List.getD_cons_zero]
    exact getD_append_left' l0 _ r (by omega)
  | l0 :: ls, N, h, j + 1, r, hr, hj => by
    have h0 : l0.length = N := h l0 (by simp)
    have ih := flatten_getD ls N (fun l hl => h l (by simp [hl])) j r hr (by simpa using hj)
    simp only [List.flatten_cons, List.getD_cons_succ]
    rw [← ih]
    have e : (j + 1) * N + r = l0.length + (j * N + r) := by rw [h0]; ring
    rw [e]
    simp [List.getD_eq_getElem?_getD, List.getElem?_append_right]

theorem tvSq_length (circular : Bool) (shape axes : List Nat) (comps : List (List ℝ)) :
    (tvSq circular shape axes comps).length = axes.length ∧
    ∀ l ∈ tvSq circular shape axes comps, l.length = size shape := by
  constructor
  · simp [tvSq]
  · intro l hl
    simp only [tvSq, List.mem_map] at hl
    obtain ⟨ax, _, rfl⟩ := hl
    simp

/-- `IsotropicTVNorm.__call__` = `L21Norm(l2_axis=0)(G x)`: the model `tvIso` is the model of
    `L21Norm` with `l2_axis=0` on the stack of the `|D_ax x|²` arrays (shape `len(axes) :: shape`) -/
theorem tvIso_eq_l21 (circular : Bool) (shape axes : List Nat) (comps : List (List ℝ)) (hax : axes ≠ []) :
    tvIso circular shape axes comps =
      l21AxesOfSq (axes.length :: shape) [0] (tvSq circular shape axes comps).flatten := by
  obtain ⟨hlen, hall⟩ := tvSq_length circular shape axes comps
  rw [l21AxesOfSq_axis0 _ (List.length_pos_iff.mpr hax)]
  unfold tvIso
  simp only [HasSqrt.sqrt]
  congr 1
  apply List.map_congr_left
  intro i hi
  rw [List.mem_range] at hi
  rw [absR_eq_abs]
  congr 2
  -- Σ over the stack, written with `getD` on the flattened stack
  have : (List.range axes.length).map (fun j => (tvSq circular shape axes comps).flatten.getD (j * size shape + i) 0)
      = (tvSq circular shape axes comps).map (fun l => l.getD i 0) := by
    apply List.ext_getElem
    · simp [hlen]
    · intro j h1 h2
      have hj : j < (tvSq circular shape axes comps).length := by simpa using h2
      simp only [List.getElem_map, List.getElem_range]
      rw [flatten_getD _ (size shape) hall j i hi hj]
      simp [List.getD_eq_getElem?_getD, List.getElem?_eq_getElem hj]
  rw [this]

end tviso

end Scico.FuncEval

namespace Scico.FuncEval

/-! ### `L21Norm(l2_axis=axes)` for an arbitrary axis subset: which entries the model groups -/
section l21groups

/-- group key of flat position `i` -/
def l21Key (shape axes : List Nat) (i : Nat) : Nat := ravel shape (dropAxes axes (unravel shape i))

theorem unravel_add_mul (s : List Nat) (i k : Nat) : unravel s (i + k * size s) = unravel s i := by
  induction s generalizing k with
  | nil => simp [unravel]
  | cons n t ih =>
    rw [unravel_cons, unravel_cons, size_cons]
    have e : i + k * (n * size t) = i + (k * n) * size t := by ring
    rw [e, ih (k * n)]
    rcases Nat.eq_zero_or_pos (size t) with h0 | hS
    · simp [h0]
    · rw [Nat.add_mul_div_right _ _ hS, Nat.add_mul_mod_self_right]

theorem unravel_inRange : ∀ (s : List Nat) (i : Nat), (∀ d ∈ s, 0 < d) → List.Forall₂ (· < ·) (unravel s i) s
  | [], i, _ => by simp [unravel]
  | n :: t, i, h => by
    rw [unravel_cons]
    exact List.Forall₂.cons (Nat.mod_lt _ (h n (by simp))) (unravel_inRange t i (fun d hd => h d (by simp [hd])))

theorem ravel_lt : ∀ (s mi : List Nat), List.Forall₂ (· < ·) mi s → ravel s mi < size s ∨ s = []
  | [], _, _ => Or.inr rfl
  | n :: t, [], h => by cases h
  | n :: t, m :: ms, h => by
    left
    cases h with
    | cons hm hrest =>
      rw [ravel_cons _ _ _ _ hrest.length_eq, size_cons]
      rcases ravel_lt t ms hrest with h1 | h1
      · calc m * size t + ravel t ms < m * size t + size t := by omega
          _ = (m + 1) * size t := by ring
          _ ≤ n * size t := Nat.mul_le_mul_right _ hm
      · subst h1
        cases hrest
        simp [ravel, size]
        omega

theorem ravel_lt' (s mi : List Nat) (h : List.Forall₂ (· < ·) mi s) : ravel s mi < size s := by
  rcases ravel_lt s mi h with h1 | h1
  · exact h1
  · subst h1; cases h; simp [ravel, size]

theorem unravel_ravel : ∀ (s mi : List Nat), List.Forall₂ (· < ·) mi s → unravel s (ravel s mi) = mi
  | [], _, h => by cases h; simp [unravel]
  | n :: t, [], h => by cases h
  | n :: t, m :: ms, h => by
    cases h with
    | cons hm hrest =>
      have hr := ravel_lt' t ms hrest
      rw [ravel_cons _ _ _ _ hrest.length_eq, unravel_cons]
      have hS : 0 < size t := by omega
      have e1 : (m * size t + ravel t ms) / size t = m := by
        rw [Nat.mul_comm, Nat.mul_add_div hS, Nat.div_eq_of_lt hr]; simp
      have e2 : unravel t (m * size t + ravel t ms) = unravel t (ravel t ms) := by
        rw [Nat.add_comm]; exact unravel_add_mul t _ m
      rw [e1, Nat.mod_eq_of_lt hm, e2, unravel_ravel t ms hrest]

theorem dropAxes_zipIdx_inRange (axes : List Nat) : ∀ (mi s : List Nat) (k : Nat), List.Forall₂ (· < ·) mi s →
    List.Forall₂ (· < ·) ((mi.zipIdx k).map (fun p => if axes.contains p.2 then 0 else p.1)) s
  | [], [], _, _ => by simp
  | m :: ms, n :: t, k, h => by
    cases h with
    | cons hm hrest =>
      simp only [List.zipIdx_cons, List.map_cons]
      refine List.Forall₂.cons ?_ (dropAxes_zipIdx_inRange axes ms t (k + 1) hrest)
      split
      · omega
      · exact hm
  | [], _ :: _, _, h => by cases h
  | _ :: _, [], _, h => by cases h

theorem dropAxes_inRange (axes mi s : List Nat) (h : List.Forall₂ (· < ·) mi s) :
    List.Forall₂ (· < ·) (dropAxes axes mi) s := dropAxes_zipIdx_inRange axes mi s 0 h

theorem dropAxes_zipIdx_getD (axes : List Nat) : ∀ (mi : List Nat) (k p : Nat),
    ((mi.zipIdx k).map (fun q => if axes.contains q.2 then 0 else q.1)).getD p 0
      = if axes.contains (k + p) then 0 else mi.getD p 0
  | [], k, p => by simp
  | m :: ms, k, 0 => by simp
  | m :: ms, k, p + 1 => by
    simp only [List.zipIdx_cons, List.map_cons, List.getD_cons_succ]
    rw [dropAxes_zipIdx_getD axes ms (k + 1) p]
    have : k + 1 + p = k + (p + 1) := by omega
    rw [this]

theorem dropAxes_getD (axes mi : List Nat) (p : Nat) :
    (dropAxes axes mi).getD p 0 = if axes.contains p then 0 else mi.getD p 0 := by
  have := dropAxes_zipIdx_getD axes mi 0 p
  simpa [dropAxes] using this

theorem dropAxes_length (axes mi : List Nat) : (dropAxes axes mi).length = mi.length := by
  simp [dropAxes]

/-- **index-level grouping for every axis subset**: on a shape with positive dimensions two flat positions
    get the same key iff their multi-indices agree on every axis that is *not* reduced -/
theorem l21Key_eq_iff (shape axes : List Nat) (hpos : ∀ d ∈ shape, 0 < d) (i j : Nat) :
    l21Key shape axes i = l21Key shape axes j ↔
      ∀ p, axes.contains p = false → (unravel shape i).getD p 0 = (unravel shape j).getD p 0 := by
  have hi := dropAxes_inRange axes _ _ (unravel_inRange shape i hpos)
  have hj := dropAxes_inRange axes _ _ (unravel_inRange shape j hpos)
  constructor
  · intro h p hp
    have h' : dropAxes axes (unravel shape i) = dropAxes axes (unravel shape j) := by
      have := congrArg (unravel shape) h
      simp only [l21Key] at this
      rwa [unravel_ravel _ _ hi, unravel_ravel _ _ hj] at this
    have := congrArg (fun l => l.getD p 0) h'
    simp only [dropAxes_getD, hp] at this
    simpa using this
  · intro h
    simp only [l21Key]
    congr 1
    apply List.ext_getElem
    · simp [dropAxes_length, unravel_length]
    · intro p h1 h2
      have e1 := dropAxes_getD axes (unravel shape i) p
      have e2 := dropAxes_getD axes (unravel shape j) p
      rw [List.getD_eq_getElem?_getD, List.getElem?_eq_getElem h1] at e1
      rw [List.getD_eq_getElem?_getD, List.getElem?_eq_getElem h2] at e2
      simp only [Option.getD_some] at e1 e2
      rw [e1, e2]
      by_cases hp : axes.contains p = true
      · rw [if_pos hp, if_pos hp]
      · rw [if_neg hp, if_neg hp]
        exact h p (by simpa using hp)

/-- every group has exactly one representative inside the array: the key is a position of the array,
    it is its own key, and it lies in the group -/
theorem l21Key_rep (shape axes : List Nat) (hpos : ∀ d ∈ shape, 0 < d) (i : Nat) :
    l21Key shape axes i < size shape ∧ l21Key shape axes (l21Key shape axes i) = l21Key shape axes i := by
  have hi := dropAxes_inRange axes _ _ (unravel_inRange shape i hpos)
  refine ⟨ravel_lt' _ _ hi, ?_⟩
  simp only [l21Key]
  rw [unravel_ravel _ _ hi]
  congr 1
  apply List.ext_getElem
  · simp [dropAxes_length]
  · intro p h1 h2
    have e1 := dropAxes_getD axes (dropAxes axes (unravel shape i)) p
    have e2 := dropAxes_getD axes (unravel shape i) p
    rw [List.getD_eq_getElem?_getD, List.getElem?_eq_getElem h1] at e1
    rw [List.getD_eq_getElem?_getD, List.getElem?_eq_getElem h2] at e2
    simp only [Option.getD_some] at e1 e2
    rw [e1, e2]
    by_cases hp : axes.contains p = true
    · rw [if_pos hp, if_pos hp]
    · rw [if_neg hp, if_neg hp, dropAxes_getD, if_neg hp]

/-- the model's value, written with the key: one `sqrt` per representative, over the entries of its group -/
theorem l21AxesOfSq_eq (shape axes : List Nat) (sq : List ℝ) :
    l21AxesOfSq shape axes sq =
      (((List.range (size shape)).filter (fun i => l21Key shape axes i == i)).map (fun r =>
        |Real.sqrt ((((List.range (size shape)).filter (fun i => l21Key shape axes i == r)).map
          (fun i => sq.getD i 0)).sum)|)).sum := by
  unfold l21AxesOfSq l21Key
  simp only [HasSqrt.sqrt]
  congr 1
  apply List.map_congr_left
  intro r _
  exact absR_eq_abs _

end l21groups

end Scico.FuncEval
