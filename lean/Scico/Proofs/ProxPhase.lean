/-
  The phase factor `exp(1j*angle(v))` of `L1Norm.prox`, `L1MinusL2Norm.prox` (complex input): with `angle = Complex.arg`
  and `exp = Complex.exp` it IS the model's `cphase v` (`v/|v|`, `1` at `0`).
-/
import Scico.Proofs.ProxBridge
import Mathlib.Analysis.SpecialFunctions.Complex.Arg

namespace Scico.ProxPhase
open Scico Scico.Prox Scico.ProxBridge

/-- **the phase factor of the code**: `exp(1j * angle(v))` (with `angle = Complex.arg`, `exp = Complex.exp`) is what the
    model calls `cphase v` — `v/|v|`, and `1` at `v = 0` (because `angle 0 = 0`) -/
theorem cphase_eq_exp (z : ℝ × ℝ) :
    toC (cphase z) = Complex.exp (Complex.I * (Complex.arg (toC z) : ℂ)) := by
  unfold cphase
  simp only [cabs_eq]
  by_cases h : 0 < ‖toC z‖
  · rw [if_pos h]
    have hx := Complex.norm_mul_exp_arg_mul_I (toC z)
    have hne : ((‖toC z‖ : ℝ) : ℂ) ≠ 0 := by exact_mod_cast h.ne'
    have : Complex.exp (Complex.I * (Complex.arg (toC z) : ℂ)) = toC z / ((‖toC z‖ : ℝ) : ℂ) := by
      rw [eq_div_iff hne, mul_comm, mul_comm Complex.I]; exact hx
    rw [this]
    apply Complex.ext
    · simp [Complex.div_ofReal_re]
    · simp [Complex.div_ofReal_im]
  · rw [if_neg h]
    have h0 : toC z = 0 := norm_eq_zero.mp (le_antisymm (not_lt.mp h) (norm_nonneg _))
    rw [h0, Complex.arg_zero]
    simp [toC]
    apply Complex.ext <;> simp
end Scico.ProxPhase
