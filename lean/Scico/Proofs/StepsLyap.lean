/-
  Proofs/StepsLyap — property C03, part 3: the ADMM Lyapunov function
  `V = Σ_i ρ_i (‖u_i − u_i*‖² + ‖z_i − z_i*‖²)` (Boyd et al. 2010, §3.3 / appendix A with `y = ρu`,
  `B = −I`) does not increase along the documented iteration, and decreases by at least
  `Σ ρ_i (‖r_i⁺‖² + ‖z_i⁺ − z_i‖²)`.

  The argument is the monotone-operator form of Boyd's proof: the three sub-gradient inclusions
  (x-update stationarity, z-update certificate at the new and at the previous iterate) are combined
  through monotonicity of `∂f`, `∂g`.

  Proved here: one constraint, no relaxation (`alpha = 1`) — `admm_lyapunov_single`, and its iteration
  over whole trajectories.  The statement for `N` constraints is `admm_lyapunov_stmt` (a `Prop`, not
  claimed).
-/
import Scico.Model.Steps
import Scico.Proofs.StepsConvex
import Scico.Proofs.StepsFixed
import Mathlib.Tactic.Abel

set_option linter.unusedSectionVars false

namespace Scico.Steps

variable {X Z : Type} [NormedAddCommGroup X] [InnerProductSpace ℝ X]
  [NormedAddCommGroup Z] [InnerProductSpace ℝ Z]

local notation "⟪" x ", " y "⟫" => inner ℝ x y

/-- the inner-product algebra of the Lyapunov argument -/
theorem lyap_core (a d r e : Z) (h1 : ⟪a + d, r + e⟫ ≤ 0) (h2 : 0 ≤ ⟪a, e⟫) (h3 : 0 ≤ ⟪r, d⟫) :
    ‖a‖ ^ 2 + ‖e‖ ^ 2 + ‖r‖ ^ 2 + ‖d‖ ^ 2 ≤ ‖a - r‖ ^ 2 + ‖e - d‖ ^ 2 := by
  rw [norm_sub_sq_real, norm_sub_sq_real]
  rw [inner_add_left, inner_add_right, inner_add_right] at h1
  have e1 : ⟪d, r⟫ = ⟪r, d⟫ := real_inner_comm _ _
  have e2 : ⟪e, d⟫ = ⟪d, e⟫ := real_inner_comm _ _
  rw [e1] at h1
  rw [e2]
  linarith

/-- Lyapunov function for lists of constraints -/
def lyapV (cons : List (Con X Z)) (zs us z u : List Z) : ℝ :=
  ((cons.zip ((zs.zip us).zip (z.zip u))).map
    (fun t => t.1.rho * (‖t.2.2.2 - t.2.1.2‖ ^ 2 + ‖t.2.2.1 - t.2.1.1‖ ^ 2))).sum

/-- single constraint, `alpha = 1`: one documented ADMM iteration decreases
    `V = ρ(‖u − u*‖² + ‖z − z*‖²)` by at least `ρ(‖Cx⁺ − z⁺‖² + ‖z⁺ − z‖²)`.
    Hypotheses: `C` additive with adjoint `Cadj`; `∂`-contracts of the x-update and of `prox_g`;
    `(x*, Cx*, u*)` a KKT point; the current multiplier is dual feasible, `ρu ∈ ∂g(z)` (true after
    every step, see `admm_single_dualfeasible`). -/
theorem admm_lyapunov_single (c : Con X Z) (f : Option (X → ℝ)) (solveX : List Z → List Z → X → X)
    (F : Fn X) (hsolve : ∀ z u x0, F.Subgrad (solveX z u x0) (xGrad [c] z u (solveX z u x0)))
    (hC : ∀ x y, c.C (x - y) = c.C x - c.C y) (hadj : ∀ w x, ⟪c.Cadj w, x⟫ = ⟪w, c.C x⟫)
    (hrho : 0 < c.rho) (hprox : IsProx c.G c.prox)
    (xs : X) (us : Z) (hkx : F.Subgrad xs (xGrad [c] [c.C xs] [us] xs)) (hkz : c.G.Subgrad (c.C xs) (c.rho • us))
    (x : X) (z zOld u : Z) (hpre : c.G.Subgrad z (c.rho • u)) :
    let s' := admmSpecStep (admmOfCons f 1 solveX [c]) { x := x, z := [z], zOld := [zOld], u := [u] }
    ∃ xn zn un, s' = { x := xn, z := [zn], zOld := [z], u := [un] } ∧
      c.G.Subgrad zn (c.rho • un) ∧
      c.rho * (‖un - us‖ ^ 2 + ‖zn - c.C xs‖ ^ 2) + c.rho * (‖c.C xn - zn‖ ^ 2 + ‖zn - z‖ ^ 2)
        ≤ c.rho * (‖u - us‖ ^ 2 + ‖z - c.C xs‖ ^ 2) := by
  intro s'
  set xn := solveX [z] [u] x with hxn
  set zn := c.prox (1 / c.rho) (c.C xn + u) with hzn
  set un := u + c.C xn - zn with hun
  have hs' : s' = { x := xn, z := [zn], zOld := [z], u := [un] } := by
    simp only [s', admmSpecStep, admmOfCons, List.map_cons, List.map_nil, admmSpecZU]
    simp only [one_smul, sub_self, zero_smul, add_zero]
    rfl
  -- (b) certificate of the z-update
  have hb : c.G.Subgrad zn (c.rho • un) := by
    have := hprox (1 / c.rho) (by positivity) (c.C xn + u)
    rw [one_div_one_div] at this
    have e : c.C xn + u - zn = un := by simp only [hun]; abel
    rw [e] at this
    exact this
  refine ⟨xn, zn, un, hs', hb, ?_⟩
  -- (a) stationarity of the x-update and of x*
  have ha := hsolve [z] [u] x
  rw [← hxn] at ha
  have hg1 : xGrad [c] [z] [u] xn = c.rho • c.Cadj (z - u - c.C xn) := by simp [xGrad]
  have hg2 : xGrad [c] [c.C xs] [us] xs = c.rho • c.Cadj (c.C xs - us - c.C xs) := by simp [xGrad]
  rw [hg1] at ha
  rw [hg2] at hkx
  have m1 := Fn.subgrad_monotone ha hkx
  have m2 := Fn.subgrad_monotone hb hkz
  have m3 := Fn.subgrad_monotone hb hpre
  -- rewrite the three monotonicity inequalities in the variables a, d, r, e
  set a := un - us
  set d := zn - z
  set r := un - u
  set e := zn - c.C xs
  have hCx : c.C xn = r + zn := by simp only [r, hun]; abel
  have q1 : ⟪a + d, r + e⟫ ≤ 0 := by
    rw [← smul_sub, inner_smul_left] at m1
    simp only [RCLike.conj_to_real] at m1
    rw [inner_sub_left, hadj, hadj, ← inner_sub_left, hC] at m1
    have e1 : z - u - c.C xn - (c.C xs - us - c.C xs) = -(a + d) := by
      rw [hCx]; simp only [a, d, r]; abel
    have e2 : c.C xn - c.C xs = r + e := by rw [hCx]; simp only [e]; abel
    rw [e1, e2, inner_neg_left] at m1
    have : 0 ≤ -⟪a + d, r + e⟫ := by
      by_contra hcon
      push Not at hcon
      have := mul_neg_of_pos_of_neg hrho hcon
      linarith
    linarith
  have q2 : 0 ≤ ⟪a, e⟫ := by
    rw [← smul_sub, inner_smul_left] at m2
    simp only [RCLike.conj_to_real] at m2
    by_contra hcon
    push Not at hcon
    have := mul_neg_of_pos_of_neg hrho hcon
    linarith
  have q3 : 0 ≤ ⟪r, d⟫ := by
    rw [← smul_sub, inner_smul_left] at m3
    simp only [RCLike.conj_to_real] at m3
    by_contra hcon
    push Not at hcon
    have := mul_neg_of_pos_of_neg hrho hcon
    linarith
  have core := lyap_core a d r e q1 q2 q3
  have e3 : u - us = a - r := by simp only [a, r]; abel
  have e4 : z - c.C xs = e - d := by simp only [e, d]; abel
  have e5 : c.C xn - zn = r := by rw [hCx]; abel
  rw [e3, e4, e5]
  have := mul_le_mul_of_nonneg_left core hrho.le
  linarith

/-- along whole trajectories: from any dual-feasible single-constraint state, `V` after `k`
    documented iterations is at most `V` at the start, for every `k` -/
theorem admm_lyapunov_traj (c : Con X Z) (f : Option (X → ℝ)) (solveX : List Z → List Z → X → X)
    (F : Fn X) (hsolve : ∀ z u x0, F.Subgrad (solveX z u x0) (xGrad [c] z u (solveX z u x0)))
    (hC : ∀ x y, c.C (x - y) = c.C x - c.C y) (hadj : ∀ w x, ⟪c.Cadj w, x⟫ = ⟪w, c.C x⟫)
    (hrho : 0 < c.rho) (hprox : IsProx c.G c.prox)
    (xs : X) (us : Z) (hkx : F.Subgrad xs (xGrad [c] [c.C xs] [us] xs)) (hkz : c.G.Subgrad (c.C xs) (c.rho • us))
    (k : Nat) :
    ∀ (x : X) (z zOld u : Z), c.G.Subgrad z (c.rho • u) →
      ∃ xk zk zo uk,
        iter (admmSpecStep (admmOfCons f 1 solveX [c])) k { x := x, z := [z], zOld := [zOld], u := [u] }
          = { x := xk, z := [zk], zOld := [zo], u := [uk] } ∧
        c.G.Subgrad zk (c.rho • uk) ∧
        c.rho * (‖uk - us‖ ^ 2 + ‖zk - c.C xs‖ ^ 2) ≤ c.rho * (‖u - us‖ ^ 2 + ‖z - c.C xs‖ ^ 2) := by
  induction k with
  | zero =>
    intro x z zOld u hpre
    exact ⟨x, z, zOld, u, rfl, hpre, le_refl _⟩
  | succ k ih =>
    intro x z zOld u hpre
    obtain ⟨xn, zn, un, hs, hfeas, hdec⟩ :=
      admm_lyapunov_single c f solveX F hsolve hC hadj hrho hprox xs us hkx hkz x z zOld u hpre
    obtain ⟨xk, zk, zo, uk, hk1, hk2, hk3⟩ := ih xn zn z un hfeas
    refine ⟨xk, zk, zo, uk, ?_, hk2, ?_⟩
    · simp only [iter]
      rw [hs]
      exact hk1
    · have : 0 ≤ c.rho * (‖c.C xn - zn‖ ^ 2 + ‖zn - z‖ ^ 2) := by positivity
      linarith

/-- statement for `N` constraints (`alpha = 1`); NOT claimed — only the single-constraint case
    above is proved -/
def admm_lyapunov_stmt : Prop :=
  ∀ (X Z : Type) [NormedAddCommGroup X] [InnerProductSpace ℝ X] [NormedAddCommGroup Z] [InnerProductSpace ℝ Z]
    (cons : List (Con X Z)) (f : Option (X → ℝ)) (solveX : List Z → List Z → X → X) (F : Fn X),
    XSolver F cons solveX →
    (∀ c ∈ cons, (∀ x y, c.C (x - y) = c.C x - c.C y) ∧ (∀ w x, inner ℝ (c.Cadj w) x = inner ℝ w (c.C x)) ∧
      0 < c.rho ∧ IsProx c.G c.prox) →
    ∀ (xs : X) (us : List Z),
      List.Forall₂ (fun (c : Con X Z) u => c.G.Subgrad (c.C xs) (c.rho • u)) cons us →
      F.Subgrad xs (xGrad cons (cons.map (fun c => c.C xs)) us xs) →
      ∀ (s : ADMMState X Z), s.z.length = cons.length → s.u.length = cons.length →
        List.Forall₂ (fun (c : Con X Z) (zu : Z × Z) => c.G.Subgrad zu.1 (c.rho • zu.2)) cons (s.z.zip s.u) →
        lyapV cons (cons.map (fun c => c.C xs)) us (admmSpecStep (admmOfCons f 1 solveX cons) s).z
            (admmSpecStep (admmOfCons f 1 solveX cons) s).u
          ≤ lyapV cons (cons.map (fun c => c.C xs)) us s.z s.u

end Scico.Steps
