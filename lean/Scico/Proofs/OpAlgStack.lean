/-
  Stacks (`VerticalStack`, `DiagonalStack`): what scico builds from operands that denote matrices
  `D₁ … D_N` denotes the vertical concatenation / the block-diagonal matrix of the `D_k`; the adjoint
  closure is its conjugate transpose; declared sizes are the sums of the operands' sizes.
-/
import Scico.Proofs.OpAlgLin

namespace Scico.OpAlg
open Scico.DType
attribute [local instance] starConj
set_option linter.unusedSectionVars false

section
variable {K : Type} [Field K] [StarRing K] [HasRe K]

@[simp] theorem vslice_get (off m : Nat) (x : Vc K) (i : Nat) :
    (vslice off m x).get i = if i < m then x.get (off + i) else 0 := rfl

@[simp] theorem vappend_get (m k : Nat) (u v : Vc K) (i : Nat) :
    (vappend m k u v).get i = if i < m + k then (if i < m then u.get i else v.get (i - m)) else 0 := rfl

/-- splitting a finite sum -/
theorem sumTo_split (a b : Nat) (f : Nat → K) :
    sumTo (a + b) f = sumTo a f + sumTo b (fun i => f (a + i)) := by
  induction b with
  | zero => simp
  | succ b ih =>
    rw [← Nat.add_assoc, sumTo_succ, sumTo_succ, ih]; ring

/-- operands paired with the matrices they denote -/
inductive AllSound : List (Obj K) → List (Mx K) → Prop where
  | nil : AllSound [] []
  | cons {o : Obj K} {D : Mx K} {os : List (Obj K)} {Ds : List (Mx K)} :
      Sound o D → AllSound os Ds → AllSound (o :: os) (D :: Ds)

/-! ### VerticalStack -/

theorem vstackEval_size (ops : List (Obj K)) (x : Vc K) : (vstackEval ops x).size = sumM ops := by
  cases ops with
  | nil => rfl
  | cons o os => rfl

/-- forward closure of a vertical stack = (vertical concatenation) · x -/
theorem vstackEval_spec {ops : List (Obj K)} {Ds : List (Mx K)} (h : AllSound ops Ds) (n : Nat)
    (hn : ∀ o ∈ ops, o.n = n) (x : Vc K) (i : Nat) :
    (vstackEval ops x).get i = if i < sumM ops then mulVec n (vcatMx ops Ds) x.get i else 0 := by
  induction h generalizing i with
  | nil => simp [vstackEval, sumM, zeroV]
  | @cons o D os Ds hS _ ih =>
    have hon : o.n = n := hn o (by simp)
    have ih' := fun i => ih (fun o' ho' => hn o' (by simp [ho'])) i
    simp only [vstackEval, vappend_get, sumM]
    by_cases hi : i < o.m + sumM os
    · simp only [hi, if_true]
      by_cases hi0 : i < o.m
      · simp only [hi0, if_true]
        rw [hS.ev x i, hon]
        simp only [hi0, if_true]
        unfold mulVec vcatMx
        simp only [hi0, if_true]
      · simp only [hi0, if_false]
        rw [ih' (i - o.m)]
        have : i - o.m < sumM os := by omega
        simp only [this, if_true]
        unfold mulVec
        conv_rhs => unfold vcatMx
        simp only [hi0, if_false]
    · simp [hi]

/-- adjoint closure of a vertical stack = (vertical concatenation)ᴴ · y (block by block) -/
theorem vstackAdj_spec {ops : List (Obj K)} {Ds : List (Mx K)} (h : AllSound ops Ds) (n : Nat)
    (hn : ∀ o ∈ ops, o.n = n) (off : Nat) (y : Vc K) (j : Nat) :
    (vstackAdj n ops off y).get j
      = if j < n then mulVecH (sumM ops) (vcatMx ops Ds) (fun i => y.get (off + i)) j else 0 := by
  induction h generalizing off with
  | nil => simp [vstackAdj, sumM, mulVecH]
  | @cons o D os Ds hS _ ih =>
    have hon : o.n = n := hn o (by simp)
    have ih' := fun off => ih (fun o' ho' => hn o' (by simp [ho'])) off
    simp only [vstackAdj, vzip_get, sumM]
    by_cases hj : j < n
    · simp only [hj, if_true]
      rw [hS.ad _ j, hon, ih' (off + o.m)]
      simp only [hj, if_true]
      unfold mulVecH
      rw [sumTo_split]
      congr 1
      · apply sumTo_congr
        intro i hi
        simp [vcatMx, hi]
      · apply sumTo_congr
        intro i _
        have h1 : ¬ (o.m + i < o.m) := by omega
        have h2 : o.m + i - o.m = i := by omega
        simp only [vcatMx, h1, if_false, h2, Nat.add_assoc]
    · simp [hj]

/-! ### DiagonalStack -/

theorem dstackEval_spec {ops : List (Obj K)} {Ds : List (Mx K)} (h : AllSound ops Ds) (off : Nat)
    (x : Vc K) (i : Nat) :
    (dstackEval ops off x).get i
      = if i < sumM ops then mulVec (sumN ops) (bdiagMx ops Ds) (fun j => x.get (off + j)) i else 0 := by
  induction h generalizing off i with
  | nil => simp [dstackEval, sumM, zeroV]
  | @cons o D os Ds hS _ ih =>
    simp only [dstackEval, vappend_get, sumM, sumN]
    by_cases hi : i < o.m + sumM os
    · simp only [hi, if_true]
      by_cases hi0 : i < o.m
      · simp only [hi0, if_true]
        rw [hS.ev _ i]
        simp only [hi0, if_true]
        unfold mulVec
        rw [sumTo_split]
        have hz : sumTo (sumN os) (fun k => bdiagMx (o :: os) (D :: Ds) i (o.n + k) * x.get (off + (o.n + k))) = 0 := by
          have : ∀ k, bdiagMx (o :: os) (D :: Ds) i (o.n + k) = 0 := by
            intro k
            have h1 : ¬ (o.n + k < o.n) := by omega
            simp [bdiagMx, hi0, h1]
          simp [this]
        rw [hz, add_zero]
        apply sumTo_congr
        intro k hk
        simp [bdiagMx, hi0, hk]
      · simp only [hi0, if_false]
        rw [ih (off + o.n) (i - o.m)]
        have : i - o.m < sumM os := by omega
        simp only [this, if_true]
        unfold mulVec
        rw [sumTo_split]
        have hz : sumTo o.n (fun k => bdiagMx (o :: os) (D :: Ds) i k * x.get (off + k)) = 0 := by
          have : ∀ k, k < o.n → bdiagMx (o :: os) (D :: Ds) i k * x.get (off + k) = 0 := by
            intro k hk
            simp [bdiagMx, hi0, hk]
          rw [sumTo_congr this]; simp
        rw [hz, zero_add]
        apply sumTo_congr
        intro k _
        have h1 : ¬ (o.n + k < o.n) := by omega
        have h2 : o.n + k - o.n = k := by omega
        simp only [bdiagMx, hi0, if_false, h1, h2, Nat.add_assoc]
    · simp [hi]

theorem dstackAdj_spec {ops : List (Obj K)} {Ds : List (Mx K)} (h : AllSound ops Ds) (off : Nat)
    (y : Vc K) (j : Nat) :
    (dstackAdj ops off y).get j
      = if j < sumN ops then mulVecH (sumM ops) (bdiagMx ops Ds) (fun i => y.get (off + i)) j else 0 := by
  induction h generalizing off j with
  | nil => simp [dstackAdj, sumN, zeroV]
  | @cons o D os Ds hS _ ih =>
    simp only [dstackAdj, vappend_get, sumM, sumN]
    by_cases hj : j < o.n + sumN os
    · simp only [hj, if_true]
      by_cases hj0 : j < o.n
      · simp only [hj0, if_true]
        rw [hS.ad _ j]
        simp only [hj0, if_true]
        unfold mulVecH
        rw [sumTo_split]
        have hz : sumTo (sumM os) (fun k => conj (bdiagMx (o :: os) (D :: Ds) (o.m + k) j) * y.get (off + (o.m + k))) = 0 := by
          have : ∀ k, bdiagMx (o :: os) (D :: Ds) (o.m + k) j = 0 := by
            intro k
            have h1 : ¬ (o.m + k < o.m) := by omega
            simp [bdiagMx, hj0, h1]
          simp [this, conj_eq_star]
        rw [hz, add_zero]
        apply sumTo_congr
        intro k hk
        simp [bdiagMx, hj0, hk]
      · simp only [hj0, if_false]
        rw [ih (off + o.m) (j - o.n)]
        have : j - o.n < sumN os := by omega
        simp only [this, if_true]
        unfold mulVecH
        rw [sumTo_split]
        have hz : sumTo o.m (fun k => conj (bdiagMx (o :: os) (D :: Ds) k j) * y.get (off + k)) = 0 := by
          have : ∀ k, k < o.m → conj (bdiagMx (o :: os) (D :: Ds) k j) * y.get (off + k) = 0 := by
            intro k hk
            simp [bdiagMx, hj0, hk, conj_eq_star]
          rw [sumTo_congr this]; simp
        rw [hz, zero_add]
        apply sumTo_congr
        intro k _
        have h1 : ¬ (o.m + k < o.m) := by omega
        have h2 : o.m + k - o.m = k := by omega
        simp only [bdiagMx, h1, if_false, hj0, h2, Nat.add_assoc]
    · simp [hj]

/-! ### declared sizes -/

theorem prodL_cons (a : Nat) (l : List Nat) : prodL (a :: l) = a * prodL l := rfl

/-- stacking `N` equal plain shapes: `(N, *S)` has the total number of elements -/
theorem sumM_collapsed (ops : List (Obj K)) (d : List Nat)
    (h : ∀ o ∈ ops, o.md.outShape = .plain d) : sumM ops = ops.length * prodL d := by
  induction ops with
  | nil => simp [sumM]
  | cons o os ih =>
    have ho : o.m = prodL d := by simp only [Obj.m, h o (by simp), Shape.size]
    rw [sumM, ih (fun o' ho' => h o' (by simp [ho'])), ho, List.length_cons, Nat.succ_mul, Nat.add_comm]

theorem sumN_collapsed (ops : List (Obj K)) (d : List Nat)
    (h : ∀ o ∈ ops, o.md.inShape = .plain d) : sumN ops = ops.length * prodL d := by
  induction ops with
  | nil => simp [sumN]
  | cons o os ih =>
    have ho : o.n = prodL d := by simp only [Obj.n, h o (by simp), Shape.size]
    rw [sumN, ih (fun o' ho' => h o' (by simp [ho'])), ho, List.length_cons, Nat.succ_mul, Nat.add_comm]

/-- block shape of plain shapes: the sizes add up -/
theorem sumM_blocked (ops : List (Obj K)) (h : ∀ o ∈ ops, o.md.outShape.isNested = false) :
    (Shape.nested ((ops.map (fun o => o.md.outShape)).map plainDims)).size = sumM ops := by
  induction ops with
  | nil => rfl
  | cons o os ih =>
    have ih' := ih (fun o' ho' => h o' (by simp [ho']))
    have ho := h o (by simp)
    simp only [Shape.size, List.map_cons, List.foldr_cons, sumM] at ih' ⊢
    rw [ih']
    congr 1
    cases hsh : o.md.outShape with
    | plain d => simp [Obj.m, hsh, plainDims, Shape.size]
    | nested b => simp [hsh, Shape.isNested] at ho

theorem sumN_blocked (ops : List (Obj K)) (h : ∀ o ∈ ops, o.md.inShape.isNested = false) :
    (Shape.nested ((ops.map (fun o => o.md.inShape)).map plainDims)).size = sumN ops := by
  induction ops with
  | nil => rfl
  | cons o os ih =>
    have ih' := ih (fun o' ho' => h o' (by simp [ho']))
    have ho := h o (by simp)
    simp only [Shape.size, List.map_cons, List.foldr_cons, sumN] at ih' ⊢
    rw [ih']
    congr 1
    cases hsh : o.md.inShape with
    | plain d => simp [Obj.n, hsh, plainDims, Shape.size]
    | nested b => simp [hsh, Shape.isNested] at ho

theorem isCollapsibleS_spec {s : Shape} {rest : List Shape} (h : isCollapsibleS (s :: rest) = true) :
    ∃ d, s = .plain d ∧ ∀ t ∈ rest, t = .plain d := by
  simp only [isCollapsibleS, Bool.and_eq_true, Bool.not_eq_true', List.all_eq_true,
    decide_eq_true_eq] at h
  cases s with
  | plain d => exact ⟨d, rfl, h.2⟩
  | nested b => simp [Shape.isNested] at h

/-- `collapse_shapes` applied to the output (`sel = outShape`, `tot = sumM`) or input shapes -/
theorem collapseS_size (ops : List (Obj K)) (sel : Obj K → Shape) (tot : List (Obj K) → Nat)
    (allow : Bool) (sh : Shape) (c : Bool)
    (hcol : ∀ d, (∀ o ∈ ops, sel o = .plain d) → tot ops = ops.length * prodL d)
    (hblk : (∀ o ∈ ops, (sel o).isNested = false) →
      (Shape.nested ((ops.map sel).map plainDims)).size = tot ops)
    (h : collapseS (ops.map sel) allow = .ok (sh, c)) : sh.size = tot ops := by
  unfold collapseS at h
  split at h
  · rename_i hc
    simp only [Bool.and_eq_true] at hc
    cases ops with
    | nil => simp at h
    | cons o os =>
      simp only [List.map_cons] at h hc
      obtain ⟨d, hd, hrest⟩ := isCollapsibleS_spec hc.1
      rw [hd] at h
      simp only at h
      injection h with h
      injection h with h1 _
      subst h1
      have hall : ∀ o' ∈ o :: os, sel o' = .plain d := by
        intro o' ho'
        rcases List.mem_cons.mp ho' with h' | h'
        · rw [h']; exact hd
        · exact hrest _ (List.mem_map_of_mem h')
      rw [hcol d hall]
      simp [Shape.size, prodL_cons]
  · split at h
    · rename_i hb
      injection h with h
      injection h with h1 _
      subst h1
      apply hblk
      intro o ho
      have := (List.all_eq_true.mp hb) (sel o) (List.mem_map_of_mem ho)
      simpa using this
    · cases h

/-! ### the stack constructors -/

theorem AllSound.mem {ops : List (Obj K)} {Ds : List (Mx K)} (h : AllSound ops Ds) :
    ∀ o ∈ ops, ∃ D, Sound o D := by
  induction h with
  | nil => intro o ho; cases ho
  | cons hS _ ih =>
    intro o' ho'
    rcases List.mem_cons.mp ho' with h' | h'
    · subst h'; exact ⟨_, hS⟩
    · exact ih o' h'

theorem any_false_iff {β : Type} {l : List β} {p : β → Bool} (h : ¬ (l.any p = true)) :
    ∀ x ∈ l, p x = false := by
  intro x hx
  cases hp : p x with
  | false => rfl
  | true => exact absurd (List.any_eq_true.mpr ⟨x, hx, hp⟩) h

/-- **`linop.VerticalStack`.**  Operands denoting `D₁ … D_N` (all classes, any derived expression):
    the stack evaluates `x ↦ [D₁; …; D_N] x`, its adjoint `y ↦ Σ D_kᴴ y_k = [D₁; …; D_N]ᴴ y`; the declared
    output size (collapsed `(N, *S)` or block shape) is the sum of the operands' output sizes and the
    input space is the common one. -/
theorem vstack_sound {ops : List (Obj K)} {Ds : List (Mx K)} {o : Obj K} (collapse : Bool)
    (h : AllSound ops Ds) (hb : vstack true ops collapse = .ok o) :
    Sound o (vcatMx ops Ds) ∧ o.m = sumM ops ∧ (∀ o' ∈ ops, o'.n = o.n)
    ∧ (o.md.outShape.isNested = false ↔ (isCollapsibleS (ops.map (fun o => o.md.outShape)) && collapse) = true) := by
  unfold vstack at hb
  cases ops with
  | nil => cases hb
  | cons o0 os =>
    simp only [Bool.true_and] at hb
    split at hb
    · cases hb
    · split at hb
      · cases hb
      · rename_i hin
        split at hb
        · cases hb
        · split at hb
          · cases hb
          · rename_i hnest
            split at hb
            · cases hb
            · simp only [if_true] at hb
              injection hb with hb
              have hinS : ∀ o' ∈ o0 :: os, o'.md.inShape = o0.md.inShape := by
                intro o' ho'
                have := hin
                simp only [Bool.not_eq_true', Bool.not_eq_false] at this
                simpa using (List.all_eq_true.mp this) o' ho'
              have hnn : ∀ o' ∈ o0 :: os, o'.n = o0.n := by
                intro o' ho'; simp only [Obj.n, hinS o' ho']
              have hpl : ∀ o' ∈ o0 :: os, o'.md.outShape.isNested = false :=
                any_false_iff hnest
              obtain ⟨D0, hS0⟩ := h.mem o0 (by simp)
              -- size of the declared output shape
              have hm : o.m = sumM (o0 :: os) := by
                subst hb
                simp only [mkLin_m]
                split
                · rename_i hc
                  simp only [Bool.and_eq_true] at hc
                  obtain ⟨d, hd, hrest⟩ := isCollapsibleS_spec (s := o0.md.outShape)
                    (rest := os.map (fun o => o.md.outShape)) (by simpa using hc.1)
                  have hall : ∀ o' ∈ o0 :: os, o'.md.outShape = .plain d := by
                    intro o' ho'
                    rcases List.mem_cons.mp ho' with h' | h'
                    · rw [h']; exact hd
                    · exact hrest _ (List.mem_map_of_mem h')
                  rw [sumM_collapsed _ d hall, hd]
                  simp [Shape.size, prodL_cons, plainDims]
                · exact sumM_blocked (o0 :: os) hpl
              have hn : o.n = o0.n := by subst hb; rfl
              refine ⟨?_, hm, fun o' ho' => by rw [hn]; exact hnn o' ho', ?_⟩
              · exact
                { lin := by subst hb; simp
                  ev := by
                    intro x i
                    have := vstackEval_spec h o0.n hnn x i
                    rw [hm, hn]
                    subst hb
                    simpa using this
                  ad := by
                    intro y j
                    have := vstackAdj_spec h o0.n hnn 0 y j
                    rw [hm, hn]
                    subst hb
                    simp only [mkLin_adj]
                    rw [this]
                    simp
                  evSz := by
                    intro x
                    rw [hm]; subst hb
                    exact vstackEval_size _ x
                  adSz := by
                    intro y
                    rw [hn]; subst hb
                    simp only [mkLin_adj]
                    cases os <;> rfl
                  pl := by subst hb; simp [PayloadIs, mkLin]
                  mode := by
                    rcases hS0.mode with hR | hC
                    · exact Or.inl hR
                    · subst hb
                      exact Or.inr ⟨hC.inC, hC.outC, hC.inC⟩ }
              · subst hb
                show (if (isCollapsibleS ((o0 :: os).map (fun o => o.md.outShape)) && collapse) = true
                    then Shape.plain ((o0 :: os).length :: plainDims o0.md.outShape)
                    else Shape.nested (((o0 :: os).map (fun o => o.md.outShape)).map plainDims)).isNested = false
                  ↔ (isCollapsibleS ((o0 :: os).map (fun o => o.md.outShape)) && collapse) = true
                by_cases hc : (isCollapsibleS ((o0 :: os).map (fun o => o.md.outShape)) && collapse) = true
                · rw [if_pos hc]; exact ⟨fun _ => hc, fun _ => rfl⟩
                · rw [if_neg hc]; exact ⟨fun h' => by simp [Shape.isNested] at h', fun h' => absurd h' hc⟩

/-- **`linop.DiagonalStack`.**  Operands denoting `D₁ … D_N`: the stack evaluates
    `x ↦ diag(D₁,…,D_N) x` on the stacked / block input, its adjoint is the conjugate transpose, and
    the declared sizes are the sums of the operands' sizes. -/
theorem dstack_sound {ops : List (Obj K)} {Ds : List (Mx K)} {o : Obj K} (cIn cOut : Bool)
    (h : AllSound ops Ds) (hb : dstack true ops cIn cOut = .ok o) :
    Sound o (bdiagMx ops Ds) ∧ o.m = sumM ops ∧ o.n = sumN ops := by
  unfold dstack at hb
  cases ops with
  | nil => cases hb
  | cons o0 os =>
    simp only [Bool.true_and] at hb
    split at hb
    · cases hb
    · split at hb
      · cases hb
      · split at hb
        · cases hb
        · split at hb
          · cases hb
          · split at hb
            · cases hb
            · rename_i inSh cI hci
              split at hb
              · cases hb
              · rename_i outSh cO hco
                simp only [if_true] at hb
                injection hb with hb
                obtain ⟨D0, hS0⟩ := h.mem o0 (by simp)
                have hn : o.n = sumN (o0 :: os) := by
                  subst hb
                  exact collapseS_size (o0 :: os) (fun o => o.md.inShape) sumN cIn inSh cI
                    (fun d hd => sumN_collapsed _ d hd) (fun hd => sumN_blocked _ hd) hci
                have hm : o.m = sumM (o0 :: os) := by
                  subst hb
                  exact collapseS_size (o0 :: os) (fun o => o.md.outShape) sumM cOut outSh cO
                    (fun d hd => sumM_collapsed _ d hd) (fun hd => sumM_blocked _ hd) hco
                refine ⟨?_, hm, hn⟩
                exact
                { lin := by subst hb; simp
                  ev := by
                    intro x i
                    have := dstackEval_spec h 0 x i
                    rw [hm, hn]
                    subst hb
                    simp only [mkLin_eval]
                    rw [this]
                    simp
                  ad := by
                    intro y j
                    have := dstackAdj_spec h 0 y j
                    rw [hm, hn]
                    subst hb
                    simp only [mkLin_adj]
                    rw [this]
                    simp
                  evSz := by
                    intro x
                    rw [hm]; subst hb
                    rfl
                  adSz := by
                    intro y
                    rw [hn]; subst hb
                    rfl
                  pl := by subst hb; simp [PayloadIs, mkLin]
                  mode := by
                    rcases hS0.mode with hR | hC
                    · exact Or.inl hR
                    · subst hb
                      exact Or.inr ⟨hC.inC, hC.outC, hC.inC⟩ }

end
end Scico.OpAlg
