/-
  The whole concrete family is sound (C06, round 3): for EVERY choice of tables, the interpretation `famInterp`
  (`Model/Jaxpr.lean: famDen` at ℂ) satisfies all per-class facts:

    linAll    arbitrary row-finite sparse matrices over the operands           (`applyDescG`, Proofs/JaxprArray.lean)
    bilinear  arbitrary row-finite sparse bilinear forms  Σ c · u j · v k       (mul with broadcasting, dot_general,
                                                                                conv_general_dilated)
    divLike   u j / v k                                                          (div with broadcasting)
    realPart  Σ Re (c · u j)   with complex coefficients c                      (real, imag, complex → real, irfft)
    conj      pointwise conjugate

  Hence for a translated program ALL of whose equations are instances of the family, `check p = linC` gives
  ℂ-linearity of `run (famInterp …) p` with no hypothesis about the primitives ("proved outright"); the driver runs
  exactly this `run` at complex floats against the scico operator (harness/jaxpr_family.py, stream 9).
-/
import Scico.Proofs.JaxprArray

namespace Scico.Jaxpr.Fam

open Scico.Jaxpr Scico.Jaxpr.Arr

/-- real part, as a complex number -/
noncomputable def reC (z : ℂ) : ℂ := ((z.re : ℝ) : ℂ)

noncomputable def famInterp (nl : ℕ → List Vc → Vc) (F : FamTables ℂ) : Interp Vc :=
  ⟨famDen reC (starRingEnd ℂ) nl F⟩

theorem applyBil_add_left (B : ℕ → List (ℕ × ℕ × ℂ)) (u u' v : Vc) :
    applyBilG B (u + u') v = applyBilG B u v + applyBilG B u' v := by
  funext i
  simp only [applyBilG, Pi.add_apply, add_mul, mul_add]
  exact sum_map_add' _ _ _

theorem applyBil_add_right (B : ℕ → List (ℕ × ℕ × ℂ)) (u v v' : Vc) :
    applyBilG B u (v + v') = applyBilG B u v + applyBilG B u v' := by
  funext i
  simp only [applyBilG, Pi.add_apply, mul_add]
  exact sum_map_add' _ _ _

theorem applyBil_smul_left (B : ℕ → List (ℕ × ℕ × ℂ)) (c : ℂ) (u v : Vc) :
    applyBilG B (c • u) v = c • applyBilG B u v := by
  funext i
  simp only [applyBilG, Pi.smul_apply, smul_eq_mul]
  rw [← sum_map_mul']
  congr 1
  apply List.map_congr_left
  intro t _
  ring

theorem applyBil_smul_right (B : ℕ → List (ℕ × ℕ × ℂ)) (c : ℂ) (u v : Vc) :
    applyBilG B u (c • v) = c • applyBilG B u v := by
  funext i
  simp only [applyBilG, Pi.smul_apply, smul_eq_mul]
  rw [← sum_map_mul']
  congr 1
  apply List.map_congr_left
  intro t _
  ring

theorem applyDiv_add (D : ℕ → ℕ × ℕ) (u u' d : Vc) :
    applyDivG D (u + u') d = applyDivG D u d + applyDivG D u' d := by
  funext i; simp [applyDivG, add_div]

theorem applyDiv_smul (D : ℕ → ℕ × ℕ) (c : ℂ) (u d : Vc) :
    applyDivG D (c • u) d = c • applyDivG D u d := by
  funext i; simp [applyDivG, mul_div_assoc]

theorem reC_add (z w : ℂ) : reC (z + w) = reC z + reC w := by simp [reC]

theorem reC_real_mul (r : ℝ) (z : ℂ) : reC ((r : ℂ) * z) = (r : ℂ) * reC z := by simp [reC]

theorem applyRe_add (Rd : ℕ → List (ℕ × ℂ)) (u u' : Vc) :
    applyReG reC Rd (u + u') = applyReG reC Rd u + applyReG reC Rd u' := by
  funext i
  simp only [applyReG, Pi.add_apply, mul_add, reC_add]
  exact sum_map_add' _ _ _

theorem applyRe_smul (Rd : ℕ → List (ℕ × ℂ)) (r : ℝ) (u : Vc) :
    applyReG reC Rd (r • u) = r • applyReG reC Rd u := by
  funext i
  simp only [applyReG, Pi.smul_apply, Complex.real_smul]
  rw [← sum_map_mul']
  congr 1
  apply List.map_congr_left
  intro t _
  rw [← reC_real_mul]
  congr 1
  ring

/-- **every table gives a sound interpretation** -/
theorem famInterp_sound (nl : ℕ → List Vc → Vc) (F : FamTables ℂ) : (famInterp nl F).Sound ℝ ℂ where
  star_real := fun r => by simp
  lit_zero := fun _ _ => rfl
  lin_add := fun p ps xs ys h => applyDesc_add (F.lin p ps) xs ys h
  lin_smul := fun p ps c xs => applyDesc_smul (F.lin p ps) c xs
  bil_add_left := fun p ps u u' v => applyBil_add_left (F.bil p) u u' v
  bil_smul_left := fun p ps c u v => applyBil_smul_left (F.bil p) c u v
  bil_add_right := fun p ps u v v' => applyBil_add_right (F.bil p) u v v'
  bil_smul_right := fun p ps c u v => applyBil_smul_right (F.bil p) c u v
  div_add := fun p ps u u' d => applyDiv_add (F.dv p) u u' d
  div_smul := fun p ps c u d => applyDiv_smul (F.dv p) c u d
  re_add := fun p ps u u' => applyRe_add (F.rp p) u u'
  re_smul := fun p ps r u => applyRe_smul (F.rp p) r u
  conj_add := fun p ps u u' => by
    funext i; simp [famInterp, famDen]
  conj_smul := fun p ps c u => by
    funext i; simp [famInterp, famDen]

/-! ### a worked program over the whole family -/

/-- tables of the example: equation 1 = pointwise product, 3 = pointwise quotient, 5 = real part, literals 3 and 2 -/
noncomputable def exTables : FamTables ℂ where
  lin _ _ _ := []
  bil _ i := [(i, i, 1)]
  dv _ i := (i, i)
  rp _ i := [(i, 1)]
  lit p _ := if p = 0 then 3 else 2

/-- `y = conj ((3 · x) / 2)` and `z = Re ((3 · x) / 2)` with one id per equation (relabelled form) -/
abbrev exProg : Prog :=
  { nin := 1
    eqns := [⟨.lit false, 0, [], []⟩, ⟨.bilinear, 1, [], [1, 0]⟩, ⟨.lit false, 2, [], []⟩, ⟨.divLike, 3, [], [2, 3]⟩,
             ⟨.conj, 4, [], [4]⟩, ⟨.realPart, 5, [], [4]⟩]
    outs := [5] }

abbrev exProgRe : Prog := { exProg with outs := [6] }

theorem exProg_run (nl) (x : Fin exProg.nin → Vc) (j) (i : ℕ) :
    run (famInterp nl exTables) exProg x j i = (starRingEnd ℂ) (3 * x ⟨0, by decide⟩ i / 2) := by
  rw [Arr.fin1 (by decide) j]
  simp [run, finalEnv, evalEqns, stepVal, valOf, famInterp, famDen, exTables, applyBilG, applyDivG]

end Scico.Jaxpr.Fam
