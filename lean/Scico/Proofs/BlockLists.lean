/-
  Structural obligations on the wrapped-name tables of `scico.numpy` (C13, DESIGN §5.8).

  `harness/translate_lists.py` regenerates `Scico/Generated/WrappedNames.lean` (the tables as
  Lean data) from the working tree on every run and asks Lean to `decide` `check tables = true`.
  This file defines `check` and proves what it means (`check_sound`), once.
  Mathlib-free.
-/

namespace Scico.Block.Lists

structure Tables where
  unaryOps : List String
  binaryOps : List String
  creation : List String
  mathematical : List String
  reductions : List String
  testing : List String
  special : List String
  /-- `(list name, wrapper name)` of the `wrap_recursively` calls of `scico/numpy/__init__.py`, in order -/
  wrapCallsNumpy : List (String × String)
  wrapCallsSpecial : List (String × String)

/-- which wrapper each table must get, and in which order (`add_full_reduction` "should be
    outside `map_func_over_blocks`", i.e. applied after it) -/
def expectedNumpyCalls : List (String × String) :=
  [("creation_routines", "map_func_over_tuple_of_tuples"),
   ("mathematical_functions", "map_func_over_blocks"),
   ("reduction_functions", "add_full_reduction"),
   ("testing_functions", "map_void_func_over_blocks")]

def expectedSpecialCalls : List (String × String) := [("functions", "map_func_over_blocks")]

/-- operators the documentation promises on block arrays (`+ - * / @ ** abs neg pos`, comparisons) -/
def requiredUnary : List String := ["__abs__", "__neg__", "__pos__"]
def requiredBinary : List String :=
  ["__add__", "__radd__", "__sub__", "__rsub__", "__mul__", "__rmul__", "__matmul__", "__rmatmul__",
   "__truediv__", "__rtruediv__", "__pow__", "__rpow__",
   "__gt__", "__ge__", "__lt__", "__le__", "__eq__", "__ne__"]
/-- reductions the documentation shows / the library itself applies to block arrays -/
def requiredReductions : List String := ["sum", "linalg.norm"]

def subset (a b : List String) : Bool := a.all (fun x => b.contains x)
def disjoint (a b : List String) : Bool := a.all (fun x => !b.contains x)

def check (t : Tables) : Bool :=
  subset t.reductions t.mathematical &&
  disjoint t.creation t.mathematical &&
  disjoint t.creation t.reductions &&
  disjoint t.testing t.mathematical &&
  subset requiredUnary t.unaryOps &&
  subset requiredBinary t.binaryOps &&
  subset requiredReductions t.reductions &&
  disjoint t.unaryOps t.binaryOps &&
  (t.wrapCallsNumpy == expectedNumpyCalls) &&
  (t.wrapCallsSpecial == expectedSpecialCalls)

/-- how a name of the `scico.numpy` namespace is wrapped, read off the tables -/
inductive Kind where
  | creation      -- `map_func_over_tuple_of_tuples`
  | reduction     -- `add_full_reduction ∘ map_func_over_blocks`
  | mapped        -- `map_func_over_blocks`
  | void          -- `map_void_func_over_blocks`
  | raw           -- plain `jax.numpy`
deriving DecidableEq, Repr

def kindOf (t : Tables) (name : String) : Kind :=
  if t.creation.contains name then .creation
  else if t.reductions.contains name then .reduction
  else if t.mathematical.contains name then .mapped
  else if t.testing.contains name then .void
  else .raw

theorem subset_iff {a b : List String} : subset a b = true ↔ ∀ x ∈ a, x ∈ b := by
  simp [subset, List.all_eq_true, List.contains_iff_mem]

theorem disjoint_iff {a b : List String} : disjoint a b = true ↔ ∀ x ∈ a, x ∉ b := by
  simp [disjoint, List.all_eq_true, List.contains_iff_mem]

/-- Meaning of the decidable obligation. -/
theorem check_sound (t : Tables) (h : check t = true) :
    -- every reduction is also block-mapped, so the `axis=` path maps over blocks
    (∀ n ∈ t.reductions, n ∈ t.mathematical) ∧
    -- a name is wrapped in exactly one way
    (∀ n ∈ t.creation, n ∉ t.mathematical ∧ n ∉ t.reductions) ∧
    (∀ n ∈ t.testing, n ∉ t.mathematical) ∧
    -- the promised operators are lifted
    (∀ n ∈ requiredUnary, n ∈ t.unaryOps) ∧ (∀ n ∈ requiredBinary, n ∈ t.binaryOps) ∧
    (∀ n ∈ requiredReductions, n ∈ t.reductions) ∧
    -- each table gets its wrapper, reductions wrapped after (outside) the block mapping
    t.wrapCallsNumpy = expectedNumpyCalls ∧ t.wrapCallsSpecial = expectedSpecialCalls ∧
    -- consequently the wrapping kind read off the tables is the one applied
    (∀ n ∈ t.reductions, kindOf t n = .reduction) ∧
    (∀ n ∈ t.creation, kindOf t n = .creation) ∧
    (∀ n ∈ t.mathematical, n ∉ t.reductions → kindOf t n = .mapped) := by
  simp only [check, Bool.and_eq_true, beq_iff_eq] at h
  obtain ⟨⟨⟨⟨⟨⟨⟨⟨⟨h1, h2⟩, h3⟩, h4⟩, h5⟩, h6⟩, h7⟩, _h8⟩, h9⟩, h10⟩ := h
  have r1 := subset_iff.1 h1
  have c1 := disjoint_iff.1 h2
  have c2 := disjoint_iff.1 h3
  refine ⟨r1, fun n hn => ⟨c1 n hn, c2 n hn⟩, disjoint_iff.1 h4, subset_iff.1 h5, subset_iff.1 h6,
    subset_iff.1 h7, h9, h10, ?_, ?_, ?_⟩
  · intro n hn
    have hc : n ∉ t.creation := fun h => c2 n h hn
    simp [kindOf, hc, hn]
  · intro n hn
    simp [kindOf, hn]
  · intro n hn hnr
    have hc : n ∉ t.creation := fun h => c1 n h hn
    simp [kindOf, hc, hnr, hn]

/-! ### which attributes of `jax.Array` are lifted onto `BlockArray` (`_blockarray.py`: `da_props`, `da_methods`) -/

/-- one public attribute of the jax array type, as `inspect.getmembers` reports it -/
structure Member where
  name : String
  isProp : Bool       -- `isinstance(v, property)`
  isCallable : Bool   -- `isinstance(v, Callable)`

structure AttrTables where
  /-- public attributes (`k[0] != "_"`) of `type(jnp.array([0]))` -/
  members : List Member
  /-- public names `BlockArray` defines itself (class body) — `dir(BlockArray)` before the lifting -/
  ownNames : List String
  skipProps : List String
  skipMethods : List String
  /-- the conjuncts of the two list-comprehension conditions, as source text -/
  propConds : List String
  methodConds : List String
  /-- the lists the translator computed by the code's rule (compared with the running code by the harness) -/
  expectedProps : List String
  expectedMethods : List String

/-- `da_props`: `isinstance(v, property) and k[0] != "_" and k not in dir(BlockArray) and k not in skip_props` -/
def liftedProps (t : AttrTables) : List String :=
  (t.members.filter (fun m => m.isProp && !(t.ownNames.contains m.name) && !(t.skipProps.contains m.name))).map Member.name

/-- `da_methods`: computed after the properties were set on the class, so `dir(BlockArray)` contains them -/
def liftedMethods (t : AttrTables) : List String :=
  (t.members.filter (fun m => m.isCallable && !(t.ownNames.contains m.name) &&
      !((liftedProps t).contains m.name) && !(t.skipMethods.contains m.name))).map Member.name

def expectedPropConds : List String :=
  ["isinstance(v, property)", "k[0] != '_'", "k not in dir(BlockArray)", "k not in skip_props"]
def expectedMethodConds : List String :=
  ["isinstance(v, Callable)", "k[0] != '_'", "k not in dir(BlockArray)", "k not in skip_methods"]

/-- properties the documentation shows on block arrays / the library reads from them -/
def requiredProps : List String := ["shape", "size", "ndim", "T", "real", "imag"]
/-- methods the library itself calls on block arrays (`ravel` in the full reductions, `astype` in
    `solver.minimize`, `conj` in `cg`, …) -/
def requiredMethods : List String :=
  ["ravel", "reshape", "conj", "conjugate", "astype", "sum", "flatten", "copy", "transpose"]

def checkAttrs (t : AttrTables) : Bool :=
  (t.propConds == expectedPropConds) && (t.methodConds == expectedMethodConds) &&
  (liftedProps t == t.expectedProps) && (liftedMethods t == t.expectedMethods) &&
  subset requiredProps (liftedProps t) && subset requiredMethods (liftedMethods t) &&
  disjoint (liftedProps t) (liftedMethods t) &&
  t.ownNames.contains "dtype" && !((liftedProps t).contains "at")

theorem checkAttrs_sound (t : AttrTables) (h : checkAttrs t = true) :
    -- the comprehension conditions are the modelled ones and give the listed names
    t.propConds = expectedPropConds ∧ t.methodConds = expectedMethodConds ∧
    liftedProps t = t.expectedProps ∧ liftedMethods t = t.expectedMethods ∧
    -- the promised attributes are lifted, each in one way only
    (∀ n ∈ requiredProps, n ∈ liftedProps t) ∧ (∀ n ∈ requiredMethods, n ∈ liftedMethods t) ∧
    (∀ n ∈ liftedProps t, n ∉ liftedMethods t) ∧
    -- `x.dtype` is the block array's own (one dtype), `x.at` is not lifted
    "dtype" ∈ t.ownNames ∧ "dtype" ∉ liftedProps t ∧ "at" ∉ liftedProps t := by
  simp only [checkAttrs, Bool.and_eq_true, beq_iff_eq, Bool.not_eq_true', List.contains_iff_mem] at h
  obtain ⟨⟨⟨⟨⟨⟨⟨⟨h1, h2⟩, h3⟩, h4⟩, h5⟩, h6⟩, h7⟩, h8⟩, h9⟩ := h
  refine ⟨h1, h2, h3, h4, subset_iff.1 h5, subset_iff.1 h6, disjoint_iff.1 h7, h8, ?_, ?_⟩
  · intro hm
    simp only [liftedProps, List.mem_map, List.mem_filter, Bool.and_eq_true, Bool.not_eq_true',
      List.contains_iff_mem] at hm
    obtain ⟨m, ⟨_, ⟨_, hown⟩, _⟩, hn⟩ := hm
    rw [hn] at hown
    have : ("dtype" ∈ t.ownNames) := h8
    simp [List.contains_iff_mem, this] at hown
  · intro hm
    rw [List.contains_iff_mem.2 hm] at h9
    exact absurd h9 (by simp)

/-! ### the whole `scico.numpy` namespace: wrapped or deliberately passed through -/

/-- PINNED: the public names of `jax.numpy` (with `linalg.*`, `fft.*`) that `scico.numpy` passes through
    unwrapped — dtypes, constants, index helpers, array construction from data, i/o, statistics that are
    not in the reduction list (`max`, `min`, `mean`, `std`, `var`, …: the reduction list defines itself),
    the whole `fft` module, and the Array-API aliases of wrapped functions that newer jax versions added
    (`acos asin atan atan2 acosh asinh atanh pow concat permute_dims bitwise_* …`: observation, see
    design/C13.md).  A name that appears in or disappears from `jax.numpy`, or that drops out of the
    wrapped lists, breaks the generated obligation `namespace_ok` until this list is reviewed. -/
def pinnedPassThrough : List String :=
  ["ComplexWarning", "acos", "acosh", "apply_along_axis", "apply_over_axes", "arange",
   "argpartition", "array", "array_repr", "array_str", "asin", "asinh",
   "astype", "atan", "atan2", "atanh", "average", "bartlett",
   "bfloat16", "bincount", "bitwise_and", "bitwise_count", "bitwise_invert", "bitwise_left_shift",
   "bitwise_not", "bitwise_or", "bitwise_right_shift", "bitwise_xor", "blackman", "bool",
   "bool_", "broadcast_arrays", "broadcast_shapes", "broadcast_to", "c_", "can_cast",
   "cdouble", "character", "choose", "complex128", "complex64", "complex_",
   "complexfloating", "compress", "concat", "concatenate", "copy", "corrcoef",
   "correlate", "cov", "csingle", "cumulative_sum", "delete", "diag",
   "diag_indices", "diag_indices_from", "diagflat", "diagonal", "digitize", "double",
   "dtype", "e", "euler_gamma", "eye", "fft.fft", "fft.fft2",
   "fft.fftfreq", "fft.fftn", "fft.fftshift", "fft.hfft", "fft.ifft", "fft.ifft2",
   "fft.ifftn", "fft.ifftshift", "fft.ihfft", "fft.irfft", "fft.irfft2", "fft.irfftn",
   "fft.rfft", "fft.rfft2", "fft.rfftfreq", "fft.rfftn", "fill_diagonal", "finfo",
   "flexible", "float16", "float32", "float64", "float8_e4m3b11fnuz", "float8_e4m3fn",
   "float8_e4m3fnuz", "float8_e5m2", "float8_e5m2fnuz", "float_", "floating", "from_dlpack",
   "frombuffer", "fromfile", "fromfunction", "fromiter", "frompyfunc", "fromstring",
   "generic", "geomspace", "get_printoptions", "hamming", "hanning", "histogram",
   "histogram2d", "histogram_bin_edges", "histogramdd", "identity", "iinfo", "index_exp",
   "indices", "inexact", "inf", "int16", "int2", "int32",
   "int4", "int64", "int8", "int_", "integer", "intersect1d",
   "invert", "isdtype", "isin", "issubdtype", "iterable", "ix_",
   "kaiser", "left_shift", "linalg.cross", "linalg.diagonal", "linalg.matmul", "linalg.matrix_norm",
   "linalg.matrix_transpose", "linalg.outer", "linalg.svdvals", "linalg.tensordot", "linalg.trace", "linalg.vecdot",
   "linalg.vector_norm", "linspace", "load", "logspace", "mask_indices", "matrix_transpose",
   "max", "mean", "median", "meshgrid", "mgrid", "min",
   "nan", "nanmean", "nanmedian", "nanpercentile", "nanquantile", "nanstd",
   "nanvar", "ndarray", "ndim", "newaxis", "number", "object_",
   "ogrid", "packbits", "pad", "percentile", "permute_dims", "pi",
   "piecewise", "place", "poly", "polyadd", "polyder", "polydiv",
   "polyfit", "polyint", "polymul", "polysub", "polyval", "pow",
   "printoptions", "promote_types", "ptp", "put", "quantile", "r_",
   "ravel_multi_index", "result_type", "right_shift", "roots", "s_", "save",
   "savez", "select", "set_printoptions", "setdiff1d", "setxor1d", "signedinteger",
   "single", "size", "std", "take", "take_along_axis", "trapezoid",
   "tri", "tril", "tril_indices", "tril_indices_from", "triu", "triu_indices",
   "triu_indices_from", "ufunc", "uint", "uint16", "uint2", "uint32",
   "uint4", "uint64", "uint8", "union1d", "unique_all", "unique_counts",
   "unique_inverse", "unique_values", "unpackbits", "unravel_index", "unsignedinteger", "unstack",
   "vander", "var", "vecdot", "vectorize"]

def wrappedName (t : Tables) (n : String) : Bool := t.creation.contains n || t.mathematical.contains n

/-- `jnpNames`: sorted public names of `jax.numpy` read from jax by the translator -/
def checkNamespace (t : Tables) (jnpNames : List String) : Bool :=
  (jnpNames.filter (fun n => !(wrappedName t n)) == pinnedPassThrough) &&
  subset (t.creation ++ t.mathematical) jnpNames

theorem checkNamespace_sound (t : Tables) (jnpNames : List String) (h : checkNamespace t jnpNames = true) :
    -- every name of the namespace is wrapped by one of the lists or is a pinned pass-through
    (∀ n ∈ jnpNames, wrappedName t n = true ∨ n ∈ pinnedPassThrough) ∧
    -- the pinned names exist and are not wrapped
    (∀ n ∈ pinnedPassThrough, n ∈ jnpNames ∧ wrappedName t n = false) ∧
    -- every wrapped name exists in jax.numpy (nothing is "wrapped" in name only)
    (∀ n ∈ t.creation ++ t.mathematical, n ∈ jnpNames) := by
  simp only [checkNamespace, Bool.and_eq_true, beq_iff_eq] at h
  obtain ⟨h1, h2⟩ := h
  refine ⟨?_, ?_, subset_iff.1 h2⟩
  · intro n hn
    by_cases hw : wrappedName t n = true
    · exact Or.inl hw
    · right
      rw [← h1]
      exact List.mem_filter.2 ⟨hn, by simpa using hw⟩
  · intro n hn
    rw [← h1] at hn
    obtain ⟨h3, h4⟩ := List.mem_filter.1 hn
    exact ⟨h3, by simpa using h4⟩

/-! ### operator dunders: lifted, or (pinned) not defined on `BlockArray` -/

/-- Python's unary / binary / reflected operator methods -/
def allOperatorDunders : List String :=
  ["__neg__", "__pos__", "__abs__", "__invert__",
   "__add__", "__radd__", "__sub__", "__rsub__", "__mul__", "__rmul__", "__matmul__", "__rmatmul__",
   "__truediv__", "__rtruediv__", "__floordiv__", "__rfloordiv__", "__mod__", "__rmod__",
   "__pow__", "__rpow__", "__divmod__", "__rdivmod__",
   "__lshift__", "__rlshift__", "__rshift__", "__rrshift__",
   "__and__", "__rand__", "__xor__", "__rxor__", "__or__", "__ror__",
   "__lt__", "__le__", "__gt__", "__ge__", "__eq__", "__ne__"]

/-- PINNED: operators a block array does not have (`~x`, `x & y`, `x | y`, `x ^ y`, shifts, `divmod`):
    Python answers TypeError — unless the OTHER operand's own (reflected) method accepts a sequence, as
    numpy's does: then numpy treats the block array as a list of arrays (ValueError for blocks of
    different shapes), never a block-wise result.  In-place operators (`+=` …) are not defined either, so
    Python falls back to the binary operator and rebinds the name to a NEW block array. -/
def pinnedNonLifted : List String :=
  ["__invert__", "__divmod__", "__rdivmod__", "__lshift__", "__rlshift__", "__rshift__", "__rrshift__",
   "__and__", "__rand__", "__xor__", "__rxor__", "__or__", "__ror__"]

def inplaceDunders : List String :=
  ["__iadd__", "__isub__", "__imul__", "__imatmul__", "__itruediv__", "__ifloordiv__", "__imod__", "__ipow__",
   "__ilshift__", "__irshift__", "__iand__", "__ixor__", "__ior__"]

def checkOperators (t : Tables) : Bool :=
  (allOperatorDunders.filter (fun n => !(t.unaryOps.contains n || t.binaryOps.contains n)) == pinnedNonLifted) &&
  subset (t.unaryOps ++ t.binaryOps) allOperatorDunders &&
  disjoint inplaceDunders (t.unaryOps ++ t.binaryOps) &&
  -- a lifted binary operator is lifted together with its reflected form
  (t.binaryOps.all (fun n => ["__lt__", "__le__", "__gt__", "__ge__", "__eq__", "__ne__"].contains n ||
      (if n.startsWith "__r" then true else t.binaryOps.contains ("__r" ++ n.drop 2))))

theorem checkOperators_sound (t : Tables) (h : checkOperators t = true) :
    (∀ n ∈ allOperatorDunders, n ∈ t.unaryOps ∨ n ∈ t.binaryOps ∨ n ∈ pinnedNonLifted) ∧
    (∀ n ∈ pinnedNonLifted, n ∉ t.unaryOps ∧ n ∉ t.binaryOps) ∧
    (∀ n ∈ inplaceDunders, n ∉ t.unaryOps ++ t.binaryOps) := by
  simp only [checkOperators, Bool.and_eq_true, beq_iff_eq] at h
  obtain ⟨⟨⟨h1, _⟩, h3⟩, _⟩ := h
  refine ⟨?_, ?_, disjoint_iff.1 h3⟩
  · intro n hn
    by_cases hw : (t.unaryOps.contains n || t.binaryOps.contains n) = true
    · simp only [Bool.or_eq_true, List.contains_iff_mem] at hw
      rcases hw with hw | hw
      · exact Or.inl hw
      · exact Or.inr (Or.inl hw)
    · right; right
      rw [← h1]
      exact List.mem_filter.2 ⟨hn, by simpa using hw⟩
  · intro n hn
    rw [← h1] at hn
    have := (List.mem_filter.1 hn).2
    simp only [Bool.not_eq_true', Bool.or_eq_false_iff] at this
    constructor
    · intro hc; have := List.contains_iff_mem.2 hc; simp_all
    · intro hc; have := List.contains_iff_mem.2 hc; simp_all

end Scico.Block.Lists
