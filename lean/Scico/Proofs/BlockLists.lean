/-
  Structural obligations on the wrapped-name tables of `scico.numpy` (C13, DESIGN §5.8).

  `harness/translate_lists.py` regenerates `Scico/Generated/WrappedNames.lean` (the tables as
  Lean data) from the working tree on every run and asks Lean to `decide` `check tables = true`.
  This file defines `check` and proves what it means (`check_sound`), once.
  Mathlib-free.
-/

namespace Scico.Block.Lists

structure Tables where
  unaryOps : List String
  binaryOps : List String
  creation : List String
  mathematical : List String
  reductions : List String
  testing : List String
  special : List String
  /-- `(list name, wrapper name)` of the `wrap_recursively` calls of `scico/numpy/__init__.py`, in order -/
  wrapCallsNumpy : List (String × String)
  wrapCallsSpecial : List (String × String)

/-- which wrapper each table must get, and in which order (`add_full_reduction` "should be
    outside `map_func_over_blocks`", i.e. applied after it) -/
def expectedNumpyCalls : List (String × String) :=
  [("creation_routines", "map_func_over_tuple_of_tuples"),
   ("mathematical_functions", "map_func_over_blocks"),
   ("reduction_functions", "add_full_reduction"),
   ("testing_functions", "map_void_func_over_blocks")]

def expectedSpecialCalls : List (String × String) := [("functions", "map_func_over_blocks")]

/-- operators the documentation promises on block arrays (`+ - * / @ ** abs neg pos`, comparisons) -/
def requiredUnary : List String := ["__abs__", "__neg__", "__pos__"]
def requiredBinary : List String :=
  ["__add__", "__radd__", "__sub__", "__rsub__", "__mul__", "__rmul__", "__matmul__", "__rmatmul__",
   "__truediv__", "__rtruediv__", "__pow__", "__rpow__",
   "__gt__", "__ge__", "__lt__", "__le__", "__eq__", "__ne__"]
/-- reductions the documentation shows / the library itself applies to block arrays -/
def requiredReductions : List String := ["sum", "linalg.norm"]

def subset (a b : List String) : Bool := a.all (fun x => b.contains x)
def disjoint (a b : List String) : Bool := a.all (fun x => !b.contains x)

def check (t : Tables) : Bool :=
  subset t.reductions t.mathematical &&
  disjoint t.creation t.mathematical &&
  disjoint t.creation t.reductions &&
  disjoint t.testing t.mathematical &&
  subset requiredUnary t.unaryOps &&
  subset requiredBinary t.binaryOps &&
  subset requiredReductions t.reductions &&
  disjoint t.unaryOps t.binaryOps &&
  (t.wrapCallsNumpy == expectedNumpyCalls) &&
  (t.wrapCallsSpecial == expectedSpecialCalls)

/-- how a name of the `scico.numpy` namespace is wrapped, read off the tables -/
inductive Kind where
  | creation      -- `map_func_over_tuple_of_tuples`
  | reduction     -- `add_full_reduction ∘ map_func_over_blocks`
  | mapped        -- `map_func_over_blocks`
  | void          -- `map_void_func_over_blocks`
  | raw           -- plain `jax.numpy`
deriving DecidableEq, Repr

def kindOf (t : Tables) (name : String) : Kind :=
  if t.creation.contains name then .creation
  else if t.reductions.contains name then .reduction
  else if t.mathematical.contains name then .mapped
  else if t.testing.contains name then .void
  else .raw

theorem subset_iff {a b : List String} : subset a b = true ↔ ∀ x ∈ a, x ∈ b := by
  simp [subset, List.all_eq_true, List.contains_iff_mem]

theorem disjoint_iff {a b : List String} : disjoint a b = true ↔ ∀ x ∈ a, x ∉ b := by
  simp [disjoint, List.all_eq_true, List.contains_iff_mem]

/-- Meaning of the decidable obligation. -/
theorem check_sound (t : Tables) (h : check t = true) :
    -- every reduction is also block-mapped, so the `axis=` path maps over blocks
    (∀ n ∈ t.reductions, n ∈ t.mathematical) ∧
    -- a name is wrapped in exactly one way
    (∀ n ∈ t.creation, n ∉ t.mathematical ∧ n ∉ t.reductions) ∧
    (∀ n ∈ t.testing, n ∉ t.mathematical) ∧
    -- the promised operators are lifted
    (∀ n ∈ requiredUnary, n ∈ t.unaryOps) ∧ (∀ n ∈ requiredBinary, n ∈ t.binaryOps) ∧
    (∀ n ∈ requiredReductions, n ∈ t.reductions) ∧
    -- each table gets its wrapper, reductions wrapped after (outside) the block mapping
    t.wrapCallsNumpy = expectedNumpyCalls ∧ t.wrapCallsSpecial = expectedSpecialCalls ∧
    -- consequently the wrapping kind read off the tables is the one applied
    (∀ n ∈ t.reductions, kindOf t n = .reduction) ∧
    (∀ n ∈ t.creation, kindOf t n = .creation) ∧
    (∀ n ∈ t.mathematical, n ∉ t.reductions → kindOf t n = .mapped) := by
  simp only [check, Bool.and_eq_true, beq_iff_eq] at h
  obtain ⟨⟨⟨⟨⟨⟨⟨⟨⟨h1, h2⟩, h3⟩, h4⟩, h5⟩, h6⟩, h7⟩, _h8⟩, h9⟩, h10⟩ := h
  have r1 := subset_iff.1 h1
  have c1 := disjoint_iff.1 h2
  have c2 := disjoint_iff.1 h3
  refine ⟨r1, fun n hn => ⟨c1 n hn, c2 n hn⟩, disjoint_iff.1 h4, subset_iff.1 h5, subset_iff.1 h6,
    subset_iff.1 h7, h9, h10, ?_, ?_, ?_⟩
  · intro n hn
    have hc : n ∉ t.creation := fun h => c2 n h hn
    simp [kindOf, hc, hn]
  · intro n hn
    simp [kindOf, hn]
  · intro n hn hnr
    have hc : n ∉ t.creation := fun h => c1 n h hn
    simp [kindOf, hc, hnr, hn]

end Scico.Block.Lists
