/-
  Keyword routing of `scico.solver.minimize` / `minimize_scalar` as a generated finite table
  (C18, DESIGN §5.11).  `harness/translate_kwargs.py` regenerates
  `Scico/Generated/Kwargs.lean` from the working tree with `ast`; Lean decides `checkFn`.
  This file defines the check and proves its meaning once.  Mathlib-free.
-/

import Scico.Model.Wrap

namespace Scico.Wrap.Kwargs

structure FnTable where
  /-- parameters of the wrapper -/
  accepted : List String
  /-- parameters whose value flows into the inner scipy call -/
  forwarded : List String
  /-- parameters tested by an `if … raise` -/
  rejected : List String
  /-- `(scipy keyword, wrapper parameter)` passed as `kw=param` with `param` never re-assigned -/
  verbatim : List (String × String)
  /-- keywords of the inner call -/
  callKeywords : List String
  /-- `(keyword or #position, source of the expression)` of the inner call (for the record) -/
  callExprs : List (String × String)
  /-- parameter names of the scipy function -/
  scipyParams : List String
  /-- `(wrapper parameter, source text of its default)`; parameters without a default are absent -/
  defaults : List (String × String) := []
  /-- `(scipy parameter, repr of its default)` from `inspect.signature` -/
  scipyDefaults : List (String × String) := []

/-- pass-through parameters of `minimize`: they must reach scipy unchanged under the same name -/
def expectedVerbatimMinimize : List (String × String) :=
  [("args", "args"), ("method", "method"), ("hess", "hess"), ("hessp", "hessp"), ("bounds", "bounds"),
   ("constraints", "constraints"), ("tol", "tol"), ("callback", "callback"), ("options", "options")]

def expectedVerbatimScalar : List (String × String) :=
  [("bracket", "bracket"), ("bounds", "bounds"), ("args", "args"), ("method", "method"),
   ("tol", "tol"), ("options", "options")]

def checkFn (t : FnTable) (expected : List (String × String)) : Bool :=
  t.accepted.all (fun k => t.forwarded.contains k || t.rejected.contains k) &&
  expected.all (fun p => t.verbatim.contains p) &&
  t.callKeywords.all (fun k => t.scipyParams.contains k)

theorem checkFn_sound (t : FnTable) (expected : List (String × String)) (h : checkFn t expected = true) :
    (∀ k ∈ t.accepted, k ∈ t.forwarded ∨ k ∈ t.rejected) ∧
    (∀ p ∈ expected, p ∈ t.verbatim) ∧
    (∀ k ∈ t.callKeywords, k ∈ t.scipyParams) := by
  simp only [checkFn, Bool.and_eq_true, List.all_eq_true, Bool.or_eq_true, List.contains_iff_mem] at h
  obtain ⟨⟨h1, h2⟩, h3⟩ := h
  exact ⟨h1, h2, h3⟩

/-- defaults: a pass-through parameter the caller omits must mean what omitting it means in scipy,
    i.e. the wrapper's default is scipy's default — except for the parameters listed in `allowed`
    (deliberate, visible in the signature: `minimize(method="L-BFGS-B")`) -/
def checkDefaults (t : FnTable) (allowed : List String) : Bool :=
  t.verbatim.all (fun kp => allowed.contains kp.2 || (t.defaults.lookup kp.2 == t.scipyDefaults.lookup kp.1))

theorem checkDefaults_sound (t : FnTable) (allowed : List String) (h : checkDefaults t allowed = true) :
    ∀ kp ∈ t.verbatim, kp.2 ∉ allowed → t.defaults.lookup kp.2 = t.scipyDefaults.lookup kp.1 := by
  intro kp hkp hna
  simp only [checkDefaults, List.all_eq_true, Bool.or_eq_true, beq_iff_eq] at h
  rcases h kp hkp with h1 | h1
  · exact absurd (List.contains_iff_mem.1 h1) hna
  · exact h1

/-- the deliberate default of `minimize` -/
def allowedDefaultDiffMinimize : List String := ["method"]

/-- the literal list in the code, lower-cased by the translator, is the modelled list; that is exactly scipy's solvers minus the
    gradient-free ones; the installed scipy has the modelled solver set -/
def checkGrad (codeLower installed : List String) : Bool :=
  (codeLower == Scico.Wrap.gradMethodsLower) &&
  (Scico.Wrap.scipyMethods.all (fun m =>
      Scico.Wrap.gradMethodsLower.contains m == !(Scico.Wrap.scipyNoGradient.contains m))) &&
  (Scico.Wrap.gradMethodsLower.all (fun m => Scico.Wrap.scipyMethods.contains m)) &&
  (installed.all (fun m => Scico.Wrap.scipyMethods.contains m)) &&
  (Scico.Wrap.scipyMethods.all (fun m => installed.contains m))

end Scico.Wrap.Kwargs
