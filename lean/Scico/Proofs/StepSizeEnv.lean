/-
  Lemmas about the policies on an environment, for an arbitrary scalar type `S`
  (no arithmetic facts are used: these are statements about control flow and about which
  expression is evaluated where).
-/
import Scico.Proofs.StepSize

set_option linter.unusedSectionVars false

namespace Scico.StepSize

section generic

variable {V S : Type} [Zero S] [One S] [Add S] [Sub S] [Mul S] [Div S] [LE S] [DecidableLE S] [LT S]
  [DecidableLT S] [IEEE S] [HasSqrt S]

/-- the acceptance test of a line search at the point `v` for the value `M`:
    `f(z) ≤ f̂_M(z, v)` with `z = x_step(v, M)` -/
def Accept (env : Env V S) (v : V) (M : S) : Prop :=
  env.f (xstep env v M) ≤ fquad env (xstep env v M) v M

/-- `Zrb` as the robust line search reads it: `pgm.x` before the first call -/
def zrbOf (ps : PolState V S) (x : V) : V :=
  match ps.Zrb with
  | none => x
  | some z => z

/-- the acceptance test of the robust line search for the value `M` (auxiliary point `y(M)`) -/
def AcceptR (env : Env V S) (x : V) (Tk : S) (Zrb : V) (M : S) : Prop :=
  env.f (rlsTrial env x Tk Zrb M).2.2.2 ≤
    fquad env (rlsTrial env x Tk Zrb M).2.2.2 (rlsTrial env x Tk Zrb M).2.2.1 M

theorem update_ls (env : Env V S) (γu : S) (maxiter : Nat) (x : V) (L : S) (ps : PolState V S) (v : V)
    (L' : S) (ps' : PolState V S) (h : update env (.ls γu maxiter) x L ps v = some (L', ps')) :
    (maxiter = 0 ∧ L' = L ∧ ps'.tried = 0) ∨
    ∃ k, k < maxiter ∧ L' = geom L γu k ∧ ps'.tried = k + 1 ∧
      (∀ j, j < k → ¬ Accept env v (geom L γu j)) ∧ (Accept env v L' ∨ k + 1 = maxiter) := by
  simp only [update] at h
  split at h
  · rename_i hs
    simp only [Option.some.injEq, Prod.mk.injEq] at h
    obtain ⟨rfl, rfl⟩ := h
    exact Or.inl ⟨(searchLoop_none_iff _ _ _ _ _ _).1 hs, rfl, rfl⟩
  · rename_i L'' z n hs
    simp only [Option.some.injEq, Prod.mk.injEq] at h
    obtain ⟨rfl, rfl⟩ := h
    obtain ⟨k, hk, hn, hL, hb, hrej, hlast⟩ := searchLoop_spec _ _ _ _ _ _ _ _ _ hs
    refine Or.inr ⟨k, hk, hL, by simpa using hn, ?_, ?_⟩
    · intro j hj
      have := hrej j hj
      simpa [Accept, xstep] using this
    · rcases hlast with h1 | h1
      · left
        rw [hb] at h1
        simpa [Accept, xstep] using h1
      · exact Or.inr h1

theorem update_rls (env : Env V S) (γd γu : S) (maxiter : Nat) (x : V) (L : S) (ps : PolState V S) (v : V)
    (L' : S) (ps' : PolState V S) (h : update env (.rls γd γu maxiter) x L ps v = some (L', ps'))
    (Zrb : V) (hZ : Zrb = zrbOf ps x) :
    ∃ k, k < maxiter ∧ L' = geom (L * γd) γu k ∧ ps'.tried = k + 1 ∧
      (∀ j, j < k → ¬ AcceptR env x ps.Tk Zrb (geom (L * γd) γu j)) ∧
      (AcceptR env x ps.Tk Zrb L' ∨ k + 1 = maxiter) ∧
      ps'.Z = some (rlsTrial env x ps.Tk Zrb L').2.2.2 ∧
      ps'.Tk = (rlsTrial env x ps.Tk Zrb L').2.1 ∧
      ps'.Zrb = some (env.add Zrb (env.smul ((rlsTrial env x ps.Tk Zrb L').1 * L')
        (env.sub (rlsTrial env x ps.Tk Zrb L').2.2.2 (rlsTrial env x ps.Tk Zrb L').2.2.1))) := by
  subst hZ
  simp only [update] at h
  change (match searchLoop γu (fun _ L => rlsTrial env x ps.Tk (zrbOf ps x) L) _ maxiter 0 (L * γd) with
    | none => none
    | some (L', (t, T, y, z), n) => _) = _ at h
  split at h
  · cases h
  · rename_i L'' t T y z n hs
    simp only [Option.some.injEq, Prod.mk.injEq] at h
    obtain ⟨rfl, rfl⟩ := h
    obtain ⟨k, hk, hn, hL, hb, hrej, hlast⟩ := searchLoop_spec _ _ _ _ _ _ _ _ _ hs
    have hb' : rlsTrial env x ps.Tk (zrbOf ps x) L'' = (t, T, y, z) := hb.symm
    refine ⟨k, hk, hL, by simpa using hn, ?_, ?_, ?_, ?_, ?_⟩
    · intro j hj
      have := hrej j hj
      simpa [AcceptR] using this
    · rcases hlast with h1 | h1
      · left
        rw [hb] at h1
        simpa [AcceptR] using h1
      · exact Or.inr h1
    · simp [hb']
    · simp [hb']
    · rw [hb']; rfl

theorem update_rls_none_iff (env : Env V S) (γd γu : S) (maxiter : Nat) (x : V) (L : S) (ps : PolState V S) (v : V) :
    update env (.rls γd γu maxiter) x L ps v = none ↔ maxiter = 0 := by
  simp only [update]
  constructor
  · intro h
    split at h
    · rename_i hs; exact (searchLoop_none_iff _ _ _ _ _ _).1 hs
    · cases h
  · intro h
    subst h
    simp [searchLoop]

end generic

end Scico.StepSize
