/-
  `loss._dep_cubic_root` / `loss._cbrt` (scico/loss.py) as modelled in `Scico/Model/Prox.lean` (`depCubicRoot`, `cbrtC`,
  `cpowThird`, `csqrtReal`) — the closed-form root IS a root.

  The code computes in complex arithmetic: `Δ = q²/4 + p³/27`, `w³ = -q/2 + sqrt(Δ + 0j)` (or `-q` when `|p| ≤ 1e-7`),
  `w = _cbrt(w³)` (principal complex power, with a sign trick), `r = Re(w - p/(3w))`.  Contracts (instance `HasTrig ℝ`):
  `angle = Complex.arg`, `cos/sin = Real.cos/sin`, `x ** (1/3) = Real.rpow x (1/3)` for `x ≥ 0`, and the principal complex
  power in polar form `z ** (1/3) = |z|^(1/3) (cos(θ/3) + i sin(θ/3))`, `θ = angle z`.

  * `depCubicRoot_ok` : for `q ≤ 0` (what `SquaredL2SquaredAbsLoss.prox` passes) and `p = 0 ∨ eps < |p|`, the value is a
    non-negative root of `r³ + p r + q`, and is `0` only if `p ≥ 0`.  Three cases: `p = 0` (`r = ∛(-q)`), `Δ ≥ 0`
    (Cardano with real radicals, Vieta's substitution), `Δ < 0` (trigonometric form `2√(-p/3) cos(θ/3)` through
    `cos 3x = 4cos³x - 3cos x`).
  * `depCubicRoot_band_residual` : inside the band `0 < |p| ≤ eps` the value is in general NOT a root (documented compromise
    of the code): `p = eps`, `q = -1` leaves the residual `-eps³/27`.
  * `CubicRootOK`, `min_sqL2SqAbs_entry`, `cubicRootOK_model` : the relation `SquaredL2SquaredAbsLoss.prox` needs, the
    per-entry minimiser theorem given the relation, and its discharge by the model of the root.
-/
import Scico.Proofs.ProxNonconvex
import Mathlib.Analysis.SpecialFunctions.Complex.Arg
import Mathlib.Analysis.SpecialFunctions.Pow.Real
import Mathlib.Analysis.SpecialFunctions.Trigonometric.Basic
import Mathlib.Tactic.Linarith
import Mathlib.Tactic.FieldSimp

namespace Scico.ProxCubic
open Scico Scico.Prox Scico.ProxBridge

noncomputable instance : HasTrig ℝ :=
  ⟨Real.cos, Real.sin, fun y x => Complex.arg ⟨x, y⟩, fun x => x ^ (1 / 3 : ℝ), Real.pi⟩


@[simp] theorem trig_cos (x : ℝ) : HasTrig.cos x = Real.cos x := rfl
@[simp] theorem trig_sin (x : ℝ) : HasTrig.sin x = Real.sin x := rfl
@[simp] theorem trig_cbrt (x : ℝ) : HasTrig.cbrt x = x ^ (1 / 3 : ℝ) := rfl
@[simp] theorem trig_pi : (HasTrig.pi : ℝ) = Real.pi := rfl
theorem trig_atan2 (y x : ℝ) : HasTrig.atan2 y x = Complex.arg ⟨x, y⟩ := rfl

theorem cbrt_cube {x : ℝ} (hx : 0 ≤ x) : (x ^ (1 / 3 : ℝ)) ^ 3 = x := by
  rw [← Real.rpow_natCast, ← Real.rpow_mul hx]; norm_num

theorem cbrt_pos {x : ℝ} (hx : 0 < x) : 0 < x ^ (1 / 3 : ℝ) := Real.rpow_pos_of_pos hx _

theorem cabs_real {a : ℝ} (ha : 0 ≤ a) : cabs (a, (0 : ℝ)) = a := by
  unfold cabs; simp [Real.sqrt_mul_self ha]

theorem atan2_real {a : ℝ} (ha : 0 ≤ a) : HasTrig.atan2 (0 : ℝ) a = 0 := by
  rw [trig_atan2]
  have : (⟨a, 0⟩ : ℂ) = (a : ℂ) := by apply Complex.ext <;> simp
  rw [this, Complex.arg_ofReal_of_nonneg ha]

theorem cpowThird_real {a : ℝ} (ha : 0 ≤ a) : cpowThird (a, (0 : ℝ)) = (a ^ (1 / 3 : ℝ), 0) := by
  unfold cpowThird
  simp only [cabs_real ha, atan2_real ha]
  rcases eq_or_lt_of_le ha with h | h
  · subst h; simp
  · rw [if_pos h]; simp

theorem cbrtC_real {a : ℝ} (ha : 0 ≤ a) : cbrtC (a, (0 : ℝ)) = (a ^ (1 / 3 : ℝ), 0) := by
  unfold cbrtC
  simp only [atan2_real ha, hasAbs_abs, abs_zero, trig_pi]
  rw [if_neg (by have := Real.pi_pos; intro h; linarith), cpowThird_real ha]

/-- upper half plane, right quadrant: `_cbrt` is the principal power, written in polar form -/
theorem cbrtC_quadrant {a b : ℝ} (ha : 0 ≤ a) (hb : 0 < b) :
    cbrtC (a, b) = (cabs (a, b) ^ (1 / 3 : ℝ) * Real.cos (Complex.arg ⟨a, b⟩ / 3),
      cabs (a, b) ^ (1 / 3 : ℝ) * Real.sin (Complex.arg ⟨a, b⟩ / 3)) := by
  have harg : |Complex.arg ⟨a, b⟩| ≤ Real.pi / 2 := Complex.abs_arg_le_pi_div_two_iff.mpr ha
  have hpos : 0 < cabs (a, b) := by
    rw [cabs_eq]; apply norm_pos_iff.mpr; intro h
    have := congrArg Complex.im h; simp at this; linarith
  unfold cbrtC
  simp only [trig_atan2, hasAbs_abs, trig_pi]
  rw [if_neg (by have := Real.pi_pos; intro h; linarith)]
  unfold cpowThird
  simp only [trig_atan2, trig_cos, trig_sin, trig_cbrt]
  rw [if_pos hpos]

theorem isZero_false {a : ℝ} (h : a ≠ 0) : isZero a = false := by
  rcases Bool.eq_false_or_eq_true (isZero a) with h' | h'
  · exact absurd ((isZero_iff a).mp h') h
  · exact h'

/-- monotonicity of the cube on non-negative reals, both directions -/
theorem cube_inj {x y : ℝ} (hx : 0 ≤ x) (hy : 0 ≤ y) (h : x ^ 3 = y ^ 3) : x = y :=
  (pow_left_inj₀ hx hy (by norm_num)).mp h

theorem cube_le {x y : ℝ} (hy : 0 ≤ y) (h : x ^ 3 ≤ y ^ 3) : x ≤ y := by
  by_contra hc; push Not at hc
  have : y ^ 3 < x ^ 3 := pow_lt_pow_left₀ hc hy (by norm_num)
  linarith

/-- **`_dep_cubic_root` returns the required root** (`q ≤ 0` is what `SquaredL2SquaredAbsLoss.prox` passes):
    outside the band `0 < |p| ≤ eps` (where the code deliberately replaces `w³` by `-q`) the value is a non-negative
    root of `r³ + p r + q`, and it is `0` only if `p ≥ 0`. -/
theorem depCubicRoot_ok {eps p q : ℝ} (heps : 0 ≤ eps) (hq : q ≤ 0) (hband : p = 0 ∨ eps < |p|) :
    0 ≤ depCubicRoot eps p q ∧ depCubicRoot eps p q ^ 3 + p * depCubicRoot eps p q + q = 0 ∧
      (depCubicRoot eps p q = 0 → 0 ≤ p) := by
  by_cases hp0 : p = 0
  · -- w3 = -q, r = cbrt(-q)
    subst hp0
    have hval : depCubicRoot eps 0 q = (-q) ^ (1 / 3 : ℝ) := by
      unfold depCubicRoot
      simp only [hasAbs_abs, abs_zero]
      rw [if_neg (not_lt.mpr heps), cbrtC_real (by linarith)]
      unfold reNoNanDivC; simp
    rw [hval]
    have hnq : 0 ≤ -q := by linarith
    refine ⟨Real.rpow_nonneg hnq _, ?_, fun _ => le_refl _⟩
    rw [cbrt_cube hnq]; ring
  · have hb : eps < |p| := hband.resolve_left hp0
    obtain ⟨d, hd⟩ : ∃ d, d = q * q / 4 + p * p * p / 27 := ⟨_, rfl⟩
    by_cases hdn : d < 0
    · -- three real roots: trigonometric form
      have hpneg : p < 0 := by
        by_contra hc; push Not at hc
        have : 0 ≤ p * p * p := by positivity
        nlinarith [mul_self_nonneg q]
      obtain ⟨b, hbdef⟩ : ∃ b, b = √(-d) := ⟨_, rfl⟩
      have hbpos : 0 < b := by rw [hbdef]; exact Real.sqrt_pos.mpr (by linarith)
      have hb2 : b * b = -d := by rw [hbdef]; exact Real.mul_self_sqrt (by linarith)
      obtain ⟨a, hadef⟩ : ∃ a, a = -q / 2 := ⟨_, rfl⟩
      have ha0 : 0 ≤ a := by rw [hadef]; linarith
      obtain ⟨ρ, hρ⟩ : ∃ ρ, ρ = cabs (a, b) := ⟨_, rfl⟩
      obtain ⟨θ, hθ⟩ : ∃ θ, θ = Complex.arg ⟨a, b⟩ := ⟨_, rfl⟩
      have hρpos : 0 < ρ := by
        rw [hρ, cabs_eq]; apply norm_pos_iff.mpr; intro h
        have := congrArg Complex.im h; simp at this; linarith
      have hρ2 : ρ ^ 2 = a * a + b * b := by
        rw [hρ]; unfold cabs; rw [hasSqrt_sqrt, Real.sq_sqrt (by positivity)]
      have hcosθ : ρ * Real.cos θ = a := by
        rw [hρ, hθ, cabs_eq]; exact Complex.norm_mul_cos_arg _
      have hθ0 : 0 ≤ θ := by rw [hθ]; exact Complex.arg_nonneg_iff.mpr hbpos.le
      have hθ1 : θ ≤ Real.pi / 2 := by
        rw [hθ]; exact (abs_le.mp (Complex.abs_arg_le_pi_div_two_iff.mpr ha0)).2
      obtain ⟨m, hm⟩ : ∃ m, m = ρ ^ (1 / 3 : ℝ) := ⟨_, rfl⟩
      have hmpos : 0 < m := by rw [hm]; exact cbrt_pos hρpos
      have hm3 : m ^ 3 = ρ := by rw [hm]; exact cbrt_cube hρpos.le
      -- m² = -p/3
      have hm2 : m ^ 2 = -p / 3 := by
        apply cube_inj (by positivity) (by linarith)
        have : (m ^ 2) ^ 3 = (m ^ 3) ^ 2 := by ring
        rw [this, hm3, hρ2, hb2, hadef, hd]; ring
      have hcpos : 0 < Real.cos (θ / 3) := by
        apply Real.cos_pos_of_mem_Ioo
        constructor <;> [skip; skip] <;> have := Real.pi_pos <;> linarith
      have hval : depCubicRoot eps p q = 2 * (m * Real.cos (θ / 3)) := by
        unfold depCubicRoot
        simp only [hasAbs_abs]
        rw [if_pos hb, ← hd]
        unfold csqrtReal
        rw [if_pos hdn, hasSqrt_sqrt, ← hbdef]
        have e : cadd (-q / 2, (0 : ℝ)) (0, b) = (a, b) := by unfold cadd; simp [hadef]
        rw [e, cbrtC_quadrant ha0 hbpos, ← hρ, ← hθ, ← hm]
        unfold reNoNanDivC cscale
        have hne : (3 : ℝ) * (m * Real.cos (θ / 3)) ≠ 0 := by positivity
        simp only [isZero_false hne, Bool.false_and]
        have hden : 3 * (m * Real.cos (θ / 3)) * (3 * (m * Real.cos (θ / 3))) +
            3 * (m * Real.sin (θ / 3)) * (3 * (m * Real.sin (θ / 3))) = 9 * m ^ 2 := by
          have := Real.sin_sq_add_cos_sq (θ / 3)
          nlinarith
        simp only [Bool.false_eq_true, if_false]
        rw [hden, hm2]
        have hp3 : -p / 3 ≠ 0 := by intro h; linarith
        field_simp
        ring
      rw [hval]
      refine ⟨by positivity, ?_, fun h => absurd h (by positivity)⟩
      have h3 := Real.cos_three_mul (θ / 3)
      have e3 : 3 * (θ / 3) = θ := by ring
      rw [e3] at h3
      have hp : p = -3 * m ^ 2 := by linarith
      have : (2 * (m * Real.cos (θ / 3))) ^ 3 + p * (2 * (m * Real.cos (θ / 3))) + q
          = 2 * m ^ 3 * (4 * Real.cos (θ / 3) ^ 3 - 3 * Real.cos (θ / 3)) + q := by rw [hp]; ring
      rw [this, ← h3, hm3]
      have : 2 * ρ * Real.cos θ = 2 * a := by linarith
      rw [this, hadef]; ring
    · -- one real root (or a double root): Cardano with real radicals
      push Not at hdn
      obtain ⟨s, hs⟩ : ∃ s, s = √d := ⟨_, rfl⟩
      have hs0 : 0 ≤ s := by rw [hs]; exact Real.sqrt_nonneg _
      have hs2 : s * s = d := by rw [hs]; exact Real.mul_self_sqrt hdn
      obtain ⟨a, hadef⟩ : ∃ a, a = -q / 2 + s := ⟨_, rfl⟩
      have ha0 : 0 ≤ a := by rw [hadef]; linarith
      have hquad : a * a + q * a = p * p * p / 27 := by rw [hadef]; nlinarith
      have hapos : 0 < a := by
        rcases eq_or_lt_of_le ha0 with h | h
        · exfalso
          rw [← h] at hquad
          have : p * p * p = 0 := by linarith
          have : p = 0 := by
            rcases mul_eq_zero.mp this with h1 | h1
            · rcases mul_eq_zero.mp h1 with h2 | h2 <;> exact h2
            · exact h1
          exact hp0 this
        · exact h
      obtain ⟨c, hc⟩ : ∃ c, c = a ^ (1 / 3 : ℝ) := ⟨_, rfl⟩
      have hcpos : 0 < c := by rw [hc]; exact cbrt_pos hapos
      have hc3 : c ^ 3 = a := by rw [hc]; exact cbrt_cube ha0
      have hval : depCubicRoot eps p q = c - p / (3 * c) := by
        unfold depCubicRoot
        simp only [hasAbs_abs]
        rw [if_pos hb, ← hd]
        unfold csqrtReal
        rw [if_neg (not_lt.mpr hdn), hasSqrt_sqrt, ← hs]
        have e : cadd (-q / 2, (0 : ℝ)) (s, 0) = (a, 0) := by unfold cadd; simp [hadef]
        rw [e, cbrtC_real ha0, ← hc]
        unfold reNoNanDivC cscale
        have hne : (3 : ℝ) * c ≠ 0 := by positivity
        simp only [isZero_false hne, Bool.false_and, Bool.false_eq_true, if_false]
        field_simp
        ring
      rw [hval]
      have hroot : (c - p / (3 * c)) ^ 3 + p * (c - p / (3 * c)) + q = 0 := by
        have h1 : (c - p / (3 * c)) ^ 3 + p * (c - p / (3 * c)) = c ^ 3 - p ^ 3 / (27 * c ^ 3) := by
          field_simp; ring
        rw [h1, hc3]
        have : a - p ^ 3 / (27 * a) + q = (a * a + q * a - p * p * p / 27) / a := by field_simp; ring
        rw [this, hquad]; simp
      have hnonneg_of_ppos : 0 < p → 0 ≤ c - p / (3 * c) := by
        intro hpp
        have hc2 : p / 3 ≤ c ^ 2 := by
          apply cube_le (by positivity)
          have : (c ^ 2) ^ 3 = (c ^ 3) ^ 2 := by ring
          rw [this, hc3]
          have : 0 ≤ -q * a := by nlinarith
          nlinarith
        have : c - p / (3 * c) = (3 * c ^ 2 - p) / (3 * c) := by field_simp
        rw [this]; apply div_nonneg <;> nlinarith
      have hpos_of_pneg : p < 0 → 0 < c - p / (3 * c) := by
        intro hpn
        have : 0 < -p / (3 * c) := by apply div_pos <;> linarith
        have e : c - p / (3 * c) = c + -p / (3 * c) := by ring
        rw [e]; linarith
      refine ⟨?_, hroot, ?_⟩
      · rcases lt_or_gt_of_ne hp0 with h | h
        · exact (hpos_of_pneg h).le
        · exact hnonneg_of_ppos h
      · intro h0
        by_contra hc'; push Not at hc'
        have := hpos_of_pneg hc'
        linarith


open Scico.ProxSpec Scico.ProxNonconvex WithLp

variable {E : Type*} [NormedAddCommGroup E] [InnerProductSpace ℝ E]

/-- what `SquaredL2SquaredAbsLoss.prox` needs from the value `r` returned by `_dep_cubic_root(p, q)` for one entry
    (`alpha = 4·lam·scale·w`, `p = (1 - alpha y)/alpha`, `q = -|v|/alpha`): a non-negative root of `r³ + p r + q`,
    which is `0` only if `alpha·y ≤ 1`.  Nothing is required where `alpha = 0` (the prox returns `v` there). -/
def CubicRootOK (lam scale w y absv r : ℝ) : Prop :=
  0 < lam * 4 * scale * w →
    0 ≤ r ∧ r ^ 3 + depCubicP scale w y lam * r + depCubicQ scale w absv lam = 0 ∧
      (r = 0 → lam * 4 * scale * w * y ≤ 1)

/-- `SquaredL2SquaredAbsLoss.prox` on one entry of a real (`E = ℝ`) or complex (`E = ℂ`) array, given the root relation -/
theorem min_sqL2SqAbs_entry {lam scale w y r : ℝ} (hlam : 0 < lam) (hs : 0 ≤ scale) (hw : 0 ≤ w) (v u : E)
    (hu : ‖u‖ = 1) (hroot : CubicRootOK lam scale w y ‖v‖ r) :
    IsGMin Set.univ (fun x : E => scale * w * (y - ‖x‖ ^ 2) ^ 2) lam v
      (if 0 < lam * 4 * scale * w then (if 0 < ‖v‖ then r • ((1 / ‖v‖) • v) else r • u) else v) := by
  by_cases hα : 0 < lam * 4 * scale * w
  · rw [if_pos hα]
    obtain ⟨hr0, hrt, hsel⟩ := hroot hα
    have e4 : 4 * lam * (scale * w) = lam * 4 * scale * w := by ring
    have ha : 0 < scale * w := by
      by_contra hc
      push Not at hc
      nlinarith
    have hrt' : 4 * lam * (scale * w) * r ^ 3 + (1 - 4 * lam * (scale * w) * y) * r - ‖v‖ = 0 := by
      unfold depCubicP depCubicQ at hrt
      simp only [noNanDiv_eq, if_neg hα.ne'] at hrt
      rw [e4]
      generalize lam * 4 * scale * w = A at hα hrt ⊢
      have h2 : A * (r ^ 3 + (1 - A * y) / A * r + -‖v‖ / A) = A * r ^ 3 + (1 - A * y) * r - ‖v‖ := by
        field_simp
        ring
      rw [← h2, hrt, mul_zero]
    exact min_sqL2SqAbs hlam ha v u hu hr0 hrt' (fun h0 => by rw [e4]; exact hsel h0)
  · rw [if_neg hα]
    have h0 : scale * w = 0 := by
      have hnn : 0 ≤ lam * 4 * scale * w := by positivity
      have : lam * 4 * scale * w = 0 := le_antisymm (not_lt.mp hα) hnn
      have h4 : lam * 4 * (scale * w) = 0 := by rw [← this]; ring
      rcases mul_eq_zero.mp h4 with h | h
      · exact absurd h (by positivity)
      · exact h
    simp only [h0]
    exact min_zero_weight v _

/-- **the model of `_dep_cubic_root` discharges the root relation** for the coefficients that
    `SquaredL2SquaredAbsLoss.prox` hands to it, outside the band `0 < |p| ≤ eps` -/
theorem cubicRootOK_model {eps lam scale w y absv : ℝ} (heps : 0 ≤ eps) (habs : 0 ≤ absv)
    (hband : 0 < lam * 4 * scale * w → depCubicP scale w y lam = 0 ∨ eps < |depCubicP scale w y lam|) :
    CubicRootOK lam scale w y absv
      (depCubicRoot eps (depCubicP scale w y lam) (depCubicQ scale w absv lam)) := by
  intro hα
  have hq : depCubicQ scale w absv lam ≤ 0 := by
    unfold depCubicQ
    simp only [noNanDiv_eq, if_neg hα.ne']
    exact div_nonpos_of_nonpos_of_nonneg (by linarith) hα.le
  obtain ⟨h1, h2, h3⟩ := depCubicRoot_ok heps hq (hband hα)
  refine ⟨h1, h2, fun h0 => ?_⟩
  have hp := h3 h0
  unfold depCubicP at hp
  simp only [noNanDiv_eq, if_neg hα.ne'] at hp
  have := (div_nonneg_iff.mp hp)
  rcases this with ⟨h, _⟩ | ⟨_, h⟩
  · linarith
  · exact absurd hα (not_lt.mpr h)

/-- inside the band the code's value is NOT a root in general: `p = eps > 0`, `q = -1` gives `r = 1 - eps/3` and
    `r³ + p r + q = -eps³/27` (the code accepts this error by design, see the docstring of `_dep_cubic_root`) -/
theorem depCubicRoot_band_residual {eps : ℝ} (heps : 0 < eps) :
    depCubicRoot eps eps (-1) ^ 3 + eps * depCubicRoot eps eps (-1) + (-1) = -(eps ^ 3 / 27) := by
  have hval : depCubicRoot eps eps (-1) = 1 - eps / 3 := by
    unfold depCubicRoot
    simp only [hasAbs_abs, abs_of_pos heps, lt_irrefl, if_false, neg_neg]
    rw [cbrtC_real zero_le_one, Real.one_rpow]
    unfold reNoNanDivC cscale
    have hne : (3 : ℝ) * 1 ≠ 0 := by norm_num
    simp only [isZero_false hne, Bool.false_and, Bool.false_eq_true, if_false]
    ring
  rw [hval]; ring

/-- `sqL2SqAbsProx1` in the form used by `min_sqL2SqAbs_entry` -/
theorem sqL2SqAbsProx1_eq (scale w v lam r : ℝ) :
    sqL2SqAbsProx1 scale w v lam r =
      if 0 < lam * 4 * scale * w then (if 0 < ‖v‖ then r • ((1 / ‖v‖) • v) else r • (1 : ℝ)) else v := by
  unfold sqL2SqAbsProx1
  simp only [hasAbs_abs, Real.norm_eq_abs]
  split_ifs <;> simp [div_eq_inv_mul]

/-- `sqL2SqAbsProxC1` as a complex number, in the form used by `min_sqL2SqAbs_entry` -/
theorem toC_sqL2SqAbsProxC1_eq (scale w : ℝ) (z : ℝ × ℝ) (lam r : ℝ) :
    toC (sqL2SqAbsProxC1 scale w z lam r) =
      if 0 < lam * 4 * scale * w then (if 0 < ‖toC z‖ then r • ((1 / ‖toC z‖) • toC z) else r • (1 : ℂ))
      else toC z := by
  unfold sqL2SqAbsProxC1
  simp only [cabs_eq]
  split_ifs
  · apply Complex.ext <;>
      simp only [toC_re, toC_im, cscale, cdivr, Complex.smul_re, Complex.smul_im, smul_eq_mul] <;> ring
  · apply Complex.ext <;>
      simp only [toC_re, toC_im, cscale, Complex.smul_re, Complex.smul_im, smul_eq_mul, Complex.one_re, Complex.one_im]
  · rfl


/-- inside the band `|p| ≤ eps` (and `q < 0`) the code returns `c - p/(3c)`, `c = ∛(-q)`: the first-order correction of `∛(-q)` -/
theorem depCubicRoot_band_val {eps p q : ℝ} (hq : q < 0) (hp : |p| ≤ eps) :
    depCubicRoot eps p q = (-q) ^ (1 / 3 : ℝ) - p / (3 * (-q) ^ (1 / 3 : ℝ)) := by
  have hnq : 0 < -q := by linarith
  have hc : 0 < (-q) ^ (1 / 3 : ℝ) := cbrt_pos hnq
  unfold depCubicRoot
  simp only [hasAbs_abs]
  rw [if_neg (not_lt.mpr hp), cbrtC_real hnq.le]
  unfold reNoNanDivC cscale
  have hne : (3 : ℝ) * (-q) ^ (1 / 3 : ℝ) ≠ 0 := by positivity
  simp only [isZero_false hne, Bool.false_and, Bool.false_eq_true, if_false]
  field_simp
  ring

/-- **error of `_dep_cubic_root` inside its band, exactly**: the residual of the cubic at the returned value is `p³/(27 q)`,
    hence at most `eps³/(27|q|)` in modulus (`eps = 1e-7`: `≤ 3.8e-23/|q|`) -/
theorem depCubicRoot_band_residual_eq {eps p q : ℝ} (hq : q < 0) (hp : |p| ≤ eps) :
    depCubicRoot eps p q ^ 3 + p * depCubicRoot eps p q + q = p ^ 3 / (27 * q) := by
  have hnq : 0 < -q := by linarith
  obtain ⟨c, hcdef⟩ : ∃ c, c = (-q) ^ (1 / 3 : ℝ) := ⟨_, rfl⟩
  have hc : 0 < c := by rw [hcdef]; exact cbrt_pos hnq
  have hc3 : c ^ 3 = -q := by rw [hcdef]; exact cbrt_cube hnq.le
  rw [depCubicRoot_band_val hq hp, ← hcdef]
  have h1 : (c - p / (3 * c)) ^ 3 + p * (c - p / (3 * c)) = c ^ 3 - p ^ 3 / (27 * c ^ 3) := by
    field_simp; ring
  have hq0 : q ≠ 0 := hq.ne
  rw [h1, hc3]
  field_simp
  ring

theorem depCubicRoot_band_residual_le {eps p q : ℝ} (hq : q < 0) (hp : |p| ≤ eps) :
    |depCubicRoot eps p q ^ 3 + p * depCubicRoot eps p q + q| ≤ eps ^ 3 / (27 * |q|) := by
  rw [depCubicRoot_band_residual_eq hq hp, abs_div, abs_mul, abs_pow]
  have h27 : |(27 : ℝ)| = 27 := abs_of_pos (by norm_num)
  rw [h27]
  have hq' : 0 < |q| := abs_pos.mpr hq.ne
  apply div_le_div_of_nonneg_right _ (by positivity)
  exact pow_le_pow_left₀ (abs_nonneg p) hp 3


/-- inside the band with `q = 0` (i.e. `v_i = 0`) the code returns `0` (for `p < 0` the minimising radius is `√(-p) ≤ √eps`) -/
theorem depCubicRoot_band_zero {eps p : ℝ} (hp : |p| ≤ eps) : depCubicRoot eps p 0 = 0 := by
  unfold depCubicRoot
  simp only [hasAbs_abs, neg_zero]
  rw [if_neg (not_lt.mpr hp), cbrtC_real (le_refl 0)]
  unfold reNoNanDivC cscale
  have h0 : (0 : ℝ) ^ (1 / 3 : ℝ) = 0 := Real.zero_rpow (by norm_num)
  simp [isZero_iff]

end Scico.ProxCubic
