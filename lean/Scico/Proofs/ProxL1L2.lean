/-
  `L1MinusL2Norm.prox` (Lou & Yan 2018): the four-branch formula of the code is a global minimiser of
  `F(x) = lam(‖x‖₁ - beta‖x‖₂) + ½‖x - v‖²` for every `beta ≥ 0` and every `v` (incl. `v = 0`, code after fix cda1690).

  Proof idea (direct, no first-order conditions): write `ρ = ‖x‖₂`.
  * if `|v_i| ≤ μ ≤ lam` for all `i` :  `lam‖x‖₁ - ⟪x,v⟫ ≥ (lam-μ)‖x‖₁ ≥ (lam-μ)ρ`, so
        `F(x) ≥ ½ρ² - ρ m + ½‖v‖²`,  `m = μ + (beta-1) lam`;
  * if `v = u + c`, `|c_i| ≤ lam` :      `lam‖x‖₁ - ⟪x,v⟫ ≥ -⟪x,u⟫ ≥ -ρ‖u‖`, so
        `F(x) ≥ ½ρ² - ρ(‖u‖ + lam beta) + ½‖v‖²`;
  each right-hand side is bounded below by its minimum over `ρ ≥ 0`, and the code's point attains it.
-/
import Scico.Proofs.ProxBridge
import Mathlib.Tactic.Linarith
import Mathlib.Tactic.Positivity

set_option linter.unusedSectionVars false

namespace Scico.ProxL1L2

open Scico Scico.Prox Scico.ProxSpec Scico.ProxBridge WithLp

/-! ### the folds `vmax` and `argmaxFirst` -/

theorem foldl_maxP_spec (l : List ℝ) (a : ℝ) :
    a ≤ l.foldl maxP a ∧ (∀ x ∈ l, x ≤ l.foldl maxP a) ∧ (l.foldl maxP a = a ∨ l.foldl maxP a ∈ l) := by
  induction l generalizing a with
  | nil => simp
  | cons b t ih =>
    simp only [List.foldl_cons, List.mem_cons]
    obtain ⟨h1, h2, h3⟩ := ih (maxP a b)
    rw [maxP_eq] at h1 h2 h3 ⊢
    refine ⟨le_trans (le_max_left _ _) h1, ?_, ?_⟩
    · rintro x (rfl | hx)
      · exact le_trans (le_max_right _ _) h1
      · exact h2 x hx
    · rcases h3 with h | h
      · rcases le_total a b with hab | hab
        · rw [max_eq_right hab] at h ⊢; exact Or.inr (Or.inl h)
        · rw [max_eq_left hab] at h ⊢; exact Or.inl h
      · exact Or.inr (Or.inr h)

variable {n : Nat}

theorem vmax_ge (va : Fin n → ℝ) (i : Fin n) : va i ≤ vmax va := by
  unfold vmax
  exact (foldl_maxP_spec _ 0).2.1 _ (by simp [List.mem_ofFn])

theorem vmax_nonneg (va : Fin n → ℝ) : 0 ≤ vmax va := (foldl_maxP_spec _ 0).1

theorem vmax_attained (va : Fin n → ℝ) : vmax va = 0 ∨ ∃ i, va i = vmax va := by
  unfold vmax
  rcases (foldl_maxP_spec (List.ofFn va) 0).2.2 with h | h
  · exact Or.inl h
  · rw [List.mem_ofFn] at h
    obtain ⟨i, hi⟩ := h
    exact Or.inr ⟨i, hi⟩

/-- the step function of `argmaxFirst` -/
noncomputable def amStep (va : Fin n → ℝ) (acc : Option (Fin n)) (i : Fin n) : Option (Fin n) :=
  match acc with
  | none => some i
  | some j => if va j < va i then some i else some j

theorem foldl_amStep_spec (va : Fin n → ℝ) (l : List (Fin n)) (acc : Option (Fin n)) :
    (l.foldl (amStep va) acc = none ↔ acc = none ∧ l = []) ∧
    ∀ k, l.foldl (amStep va) acc = some k →
      (∀ j, acc = some j → va j ≤ va k) ∧ (∀ i ∈ l, va i ≤ va k) := by
  induction l generalizing acc with
  | nil =>
    refine ⟨by simp, fun k hk => ⟨fun j hj => ?_, fun i hi => by cases hi⟩⟩
    simp only [List.foldl_nil] at hk
    rw [hk] at hj; cases hj; exact le_refl _
  | cons b t ih =>
    simp only [List.foldl_cons]
    obtain ⟨ih1, ih2⟩ := ih (amStep va acc b)
    constructor
    · constructor
      · intro h
        have := (ih1.mp h).1
        cases acc with
        | none => simp [amStep] at this
        | some j => simp only [amStep] at this; split_ifs at this
      · rintro ⟨_, h⟩; cases h
    · intro k hk
      obtain ⟨h1, h2⟩ := ih2 k hk
      cases acc with
      | none =>
        refine ⟨fun j hj => (by cases hj), ?_⟩
        intro i hi
        rcases List.mem_cons.mp hi with rfl | hi
        · exact h1 _ rfl
        · exact h2 i hi
      | some j =>
        simp only [amStep] at h1
        refine ⟨?_, ?_⟩
        · intro j' hj'
          cases hj'
          by_cases hlt : va j < va b
          · rw [if_pos hlt] at h1; exact le_trans hlt.le (h1 _ rfl)
          · rw [if_neg hlt] at h1; exact h1 _ rfl
        · intro i hi
          rcases List.mem_cons.mp hi with rfl | hi
          · by_cases hlt : va j < va i
            · rw [if_pos hlt] at h1; exact h1 _ rfl
            · rw [if_neg hlt] at h1; exact le_trans (not_lt.mp hlt) (h1 _ rfl)
          · exact h2 i hi

theorem argmaxFirst_eq (va : Fin n → ℝ) : argmaxFirst va = (List.finRange n).foldl (amStep va) none := by
  unfold argmaxFirst
  congr 1

theorem argmaxFirst_spec (va : Fin n → ℝ) (k : Fin n) (h : argmaxFirst va = some k) : ∀ i, va i ≤ va k := by
  rw [argmaxFirst_eq] at h
  exact fun i => ((foldl_amStep_spec va _ none).2 k h).2 i (List.mem_finRange i)

theorem argmaxFirst_isSome (va : Fin n → ℝ) (i : Fin n) : ∃ k, argmaxFirst va = some k := by
  rw [argmaxFirst_eq]
  cases h : (List.finRange n).foldl (amStep va) none with
  | none =>
    have := ((foldl_amStep_spec va _ none).1.mp h).2
    have hi := List.mem_finRange i
    rw [this] at hi; cases hi
  | some k => exact ⟨k, rfl⟩

/-! ### norms on `ℝⁿ` -/

/-- SPEC: `‖x‖₁ - beta‖x‖₂` -/
noncomputable def l1l2Fn (beta : ℝ) (x : EuclideanSpace ℝ (Fin n)) : ℝ := ∑ i, |x i| - beta * ‖x‖

theorem norm_sq_eq_sum (x : EuclideanSpace ℝ (Fin n)) : ‖x‖ ^ 2 = ∑ i, x i ^ 2 := by
  rw [EuclideanSpace.norm_eq, Real.sq_sqrt (Finset.sum_nonneg fun i _ => sq_nonneg _)]
  refine Finset.sum_congr rfl fun i _ => ?_
  rw [Real.norm_eq_abs, sq_abs]

/-- `‖x‖₂ ≤ ‖x‖₁` -/
theorem norm_le_l1 (x : EuclideanSpace ℝ (Fin n)) : ‖x‖ ≤ ∑ i, |x i| := by
  have hS : 0 ≤ ∑ i, |x i| := Finset.sum_nonneg fun i _ => abs_nonneg _
  rw [← pow_le_pow_iff_left₀ (norm_nonneg x) hS two_ne_zero, norm_sq_eq_sum]
  calc ∑ i, x i ^ 2 = ∑ i, |x i| * |x i| := by
        refine Finset.sum_congr rfl fun i _ => ?_
        rw [← sq_abs]; ring
    _ ≤ ∑ i, |x i| * ∑ j, |x j| := by
        refine Finset.sum_le_sum fun i _ => ?_
        refine mul_le_mul_of_nonneg_left ?_ (abs_nonneg _)
        exact Finset.single_le_sum (f := fun j => |x j|) (fun j _ => abs_nonneg _) (Finset.mem_univ i)
    _ = (∑ i, |x i|) ^ 2 := by rw [← Finset.sum_mul]; ring

/-- the objective, expanded -/
theorem obj_expand (lam beta : ℝ) (x v : EuclideanSpace ℝ (Fin n)) :
    lam * l1l2Fn beta x + 1 / 2 * ‖x - v‖ ^ 2
      = lam * ∑ i, |x i| - lam * beta * ‖x‖ + 1 / 2 * ‖x‖ ^ 2 - inner ℝ x v + 1 / 2 * ‖v‖ ^ 2 := by
  unfold l1l2Fn; rw [norm_sub_sq_real]; ring

/-- lower bound when all `|v_i| ≤ μ ≤ lam` -/
theorem lower_small {lam beta μ : ℝ} (hμ : μ ≤ lam) (x v : EuclideanSpace ℝ (Fin n))
    (hv : ∀ i, |v i| ≤ μ) :
    1 / 2 * ‖x‖ ^ 2 - ‖x‖ * (μ + (beta - 1) * lam) + 1 / 2 * ‖v‖ ^ 2 ≤ lam * l1l2Fn beta x + 1 / 2 * ‖x - v‖ ^ 2 := by
  rw [obj_expand]
  have h1 : inner ℝ x v ≤ μ * ∑ i, |x i| := by
    rw [inner_toE, Finset.mul_sum]
    refine Finset.sum_le_sum fun i _ => ?_
    calc x i * v i ≤ |x i * v i| := le_abs_self _
      _ = |v i| * |x i| := by rw [abs_mul]; ring
      _ ≤ μ * |x i| := mul_le_mul_of_nonneg_right (hv i) (abs_nonneg _)
  have h2 := norm_le_l1 x
  nlinarith [mul_le_mul_of_nonneg_left h2 (sub_nonneg.mpr hμ)]

/-- lower bound when `v = u + c` with `|c_i| ≤ lam` -/
theorem lower_large {lam beta : ℝ} (x v u : EuclideanSpace ℝ (Fin n))
    (hc : ∀ i, |v i - u i| ≤ lam) :
    1 / 2 * ‖x‖ ^ 2 - ‖x‖ * (‖u‖ + lam * beta) + 1 / 2 * ‖v‖ ^ 2 ≤ lam * l1l2Fn beta x + 1 / 2 * ‖x - v‖ ^ 2 := by
  rw [obj_expand]
  have h1 : inner ℝ x v - inner ℝ x u ≤ lam * ∑ i, |x i| := by
    rw [inner_toE, inner_toE, ← Finset.sum_sub_distrib, Finset.mul_sum]
    refine Finset.sum_le_sum fun i _ => ?_
    calc x i * v i - x i * u i = x i * (v i - u i) := by ring
      _ ≤ |x i * (v i - u i)| := le_abs_self _
      _ = |v i - u i| * |x i| := by rw [abs_mul]; ring
      _ ≤ lam * |x i| := mul_le_mul_of_nonneg_right (hc i) (abs_nonneg _)
  have h2 : inner ℝ x u ≤ ‖x‖ * ‖u‖ := real_inner_le_norm x u
  nlinarith

/-! ### values at the code's points -/

theorem norm_onesparse (k : Fin n) (a : ℝ) : ‖toE (fun i => if i = k then a else 0)‖ = |a| := by
  rw [norm_toE]
  have : ∑ i, (if i = k then a else 0) * (if i = k then a else 0) = a * a := by
    rw [Finset.sum_eq_single k]
    · simp
    · intro b _ hb; simp [hb]
    · intro h; exact absurd (Finset.mem_univ k) h
  rw [this, ← sq, Real.sqrt_sq_eq_abs]

theorem l1_onesparse (k : Fin n) (a : ℝ) : ∑ i, |toE (fun i => if i = k then a else 0) i| = |a| := by
  simp only [toE_apply]
  rw [Finset.sum_eq_single k]
  · simp
  · intro b _ hb; simp [hb]
  · intro h; exact absurd (Finset.mem_univ k) h

theorem inner_onesparse (k : Fin n) (a : ℝ) (v : EuclideanSpace ℝ (Fin n)) :
    inner ℝ (toE (fun i => if i = k then a else 0)) v = a * v k := by
  rw [inner_toE]
  simp only [toE_apply]
  rw [Finset.sum_eq_single k]
  · simp
  · intro b _ hb; simp [hb]
  · intro h; exact absurd (Finset.mem_univ k) h

/-- **main theorem** -/
theorem l1l2_min {lam beta : ℝ} (hlam : 0 < lam) (hb : 0 ≤ beta) (v : Fin n → ℝ) :
    IsGMin Set.univ (l1l2Fn beta) lam (toE v) (toE (l1l2Prox beta v lam)) := by
  refine ⟨trivial, fun x _ => ?_⟩
  set va : Fin n → ℝ := fun i => |v i| with hva
  set μ := vmax va with hμdef
  have hμ_ge : ∀ i, |toE v i| ≤ μ := fun i => vmax_ge va i
  have hμ0 : 0 ≤ μ := vmax_nonneg va
  have hmodel : l1l2Prox beta v lam =
      if 0 < μ then
        if lam < μ then
          let u : Fin n → ℝ := fun i => maxP (va i - lam) 0 * sign (v i)
          fun i => u i * ((norm2 u + lam * beta) / norm2 u)
        else if μ < (1 - beta) * lam then fun _ => 0
        else match argmaxFirst va with
          | none => fun _ => 0
          | some k => fun i => if i = k then (va k + (beta - 1) * lam) * sign (v k) else 0
      else fun i => if i.val = 0 then maxP (beta - 1) 0 * lam else 0 := rfl
  rw [hmodel]
  have hzero : lam * l1l2Fn beta (toE (fun _ : Fin n => (0 : ℝ))) + 1 / 2 * ‖toE (fun _ : Fin n => (0 : ℝ)) - toE v‖ ^ 2
      = 1 / 2 * ‖toE v‖ ^ 2 := by
    have : toE (fun _ : Fin n => (0 : ℝ)) = 0 := rfl
    rw [this, obj_expand]; simp
  by_cases h0 : 0 < μ
  · rw [if_pos h0]
    by_cases h1 : lam < μ
    · -- regime 1 : shrink and rescale
      rw [if_pos h1]
      simp only []
      set u : Fin n → ℝ := fun i => maxP (va i - lam) 0 * sign (v i) with hu
      have hu_i : ∀ i, u i = max (|v i| - lam) 0 * sign (v i) := fun i => by rw [hu]; simp only [maxP_eq, hva]
      have hc : ∀ i, |toE v i - toE u i| ≤ lam := by
        intro i
        simp only [toE_apply, hu_i]
        rcases le_total (|v i| - lam) 0 with h | h
        · rw [max_eq_right h]; simp; linarith
        · rw [max_eq_left h]
          have : v i - (|v i| - lam) * sign (v i) = lam * sign (v i) := by
            have := ProxBridge.sign_mul_abs (v i); nlinarith
          rw [this, abs_mul, abs_of_pos hlam]
          have hv0 : v i ≠ 0 := by
            intro h0'; rw [h0', abs_zero] at h; linarith
          rw [abs_sign _ hv0, mul_one]
      -- ‖u‖ > 0
      have hupos : 0 < ‖toE u‖ := by
        rcases vmax_attained va with hz | ⟨i, hi⟩
        · rw [← hμdef] at hz; linarith
        · rw [← hμdef] at hi
          have hne : toE u ≠ 0 := by
            intro hz
            have : u i = 0 := by have := congrArg (fun w => w i) hz; simpa using this
            rw [hu_i, max_eq_left (by simp only [hva] at hi; linarith)] at this
            have hv0 : v i ≠ 0 := by
              intro h0'; simp only [hva, h0', abs_zero] at hi; linarith
            rcases mul_eq_zero.mp this with h | h
            · simp only [hva] at hi; linarith
            · have := abs_sign (v i) hv0; rw [h, abs_zero] at this; linarith
          exact norm_pos_iff.mpr hne
      set M := ‖toE u‖ + lam * beta with hM
      have hMpos : 0 < M := by positivity
      set kk := (norm2 u + lam * beta) / norm2 u with hkk
      have hk : kk = M / ‖toE u‖ := by rw [hkk, norm2_eq]
      have hkpos : 0 < kk := by rw [hk]; positivity
      have hp : toE (fun i => u i * kk) = kk • toE u := by rw [← toE_smul]; congr 1; funext i; ring
      rw [hp]
      -- lower bound for x
      have hlow := lower_large (lam := lam) (beta := beta) x (toE v) (toE u) hc
      -- value at p
      have hval : lam * l1l2Fn beta (kk • toE u) + 1 / 2 * ‖kk • toE u - toE v‖ ^ 2
          = 1 / 2 * ‖toE v‖ ^ 2 - 1 / 2 * M ^ 2 := by
        rw [obj_expand, norm_smul, Real.norm_eq_abs, abs_of_pos hkpos, real_inner_smul_left]
        have hS : ∑ i, |(kk • toE u) i| = kk * ∑ i, |u i| := by
          rw [Finset.mul_sum]
          refine Finset.sum_congr rfl fun i _ => ?_
          rw [PiLp.smul_apply, smul_eq_mul, abs_mul, abs_of_pos hkpos, toE_apply]
        rw [hS]
        -- lam Σ|u_i| - ⟪u,v⟫ = -‖u‖²
        have hkey : lam * ∑ i, |u i| - inner ℝ (toE u) (toE v) = -‖toE u‖ ^ 2 := by
          rw [inner_toE, norm_sq_eq_sum, Finset.mul_sum, ← Finset.sum_sub_distrib, ← Finset.sum_neg_distrib]
          refine Finset.sum_congr rfl fun i _ => ?_
          simp only [toE_apply, hu_i]
          rcases le_total (|v i| - lam) 0 with h | h
          · rw [max_eq_right h]; simp
          · rw [max_eq_left h]
            have hv0 : v i ≠ 0 := by
              intro h0'; rw [h0', abs_zero] at h; linarith
            have hs := abs_sign (v i) hv0
            have hs2 : sign (v i) ^ 2 = 1 := by rw [← sq_abs, hs]; norm_num
            have hsv := ProxBridge.sign_mul_abs (v i)
            rw [abs_mul, hs, mul_one, abs_of_nonneg h]
            have : (|v i| - lam) * sign (v i) * v i = (|v i| - lam) * |v i| := by
              have : sign (v i) * v i = |v i| := by
                have h3 : sign (v i) * v i = sign (v i) * (|v i| * sign (v i)) := by rw [hsv]
                rw [h3]; nlinarith
              calc (|v i| - lam) * sign (v i) * v i = (|v i| - lam) * (sign (v i) * v i) := by ring
                _ = _ := by rw [this]
            rw [this]
            have : ((|v i| - lam) * sign (v i)) ^ 2 = (|v i| - lam) ^ 2 := by rw [mul_pow, hs2, mul_one]
            rw [this]; ring
        have hkM : kk * ‖toE u‖ = M := by rw [hk]; field_simp
        have e1 : lam * (kk * ∑ i, |u i|) - kk * inner ℝ (toE u) (toE v) = -(M * ‖toE u‖) := by
          have : lam * (kk * ∑ i, |u i|) - kk * inner ℝ (toE u) (toE v)
              = kk * (lam * ∑ i, |u i| - inner ℝ (toE u) (toE v)) := by ring
          rw [this, hkey, ← hkM]; ring
        rw [hkM]
        have : lam * (kk * ∑ i, |u i|) - lam * beta * M + 1 / 2 * M ^ 2 - kk * inner ℝ (toE u) (toE v) + 1 / 2 * ‖toE v‖ ^ 2
            = (lam * (kk * ∑ i, |u i|) - kk * inner ℝ (toE u) (toE v)) - lam * beta * M + 1 / 2 * M ^ 2 + 1 / 2 * ‖toE v‖ ^ 2 := by
          ring
        rw [this, e1, hM]; ring
      rw [hval]
      nlinarith [sq_nonneg (‖x‖ - M)]
    · rw [if_neg h1]
      push Not at h1
      have hlow := lower_small (lam := lam) (beta := beta) h1 x (toE v) hμ_ge
      by_cases h2 : μ < (1 - beta) * lam
      · -- regime 3 : zero
        rw [if_pos h2, hzero]
        have : 0 ≤ ‖x‖ * -(μ + (beta - 1) * lam) := mul_nonneg (norm_nonneg x) (by linarith)
        nlinarith [sq_nonneg ‖x‖]
      · -- regime 2 : one-sparse at the first arg-max
        rw [if_neg h2]
        push Not at h2
        obtain ⟨i0, hi0⟩ : ∃ i, va i = μ := by
          rcases vmax_attained va with hz | h
          · rw [← hμdef] at hz; linarith
          · exact h
        obtain ⟨k, hk⟩ := argmaxFirst_isSome va i0
        have hkmax : va k = μ := le_antisymm (vmax_ge va k) (by rw [← hi0]; exact argmaxFirst_spec va k hk i0)
        rw [hk]
        simp only []
        set m := μ + (beta - 1) * lam with hm
        have hm0 : 0 ≤ m := by rw [hm]; linarith
        have hvk0 : v k ≠ 0 := by
          intro h; simp only [hva, h, abs_zero] at hkmax; linarith
        have ha : (va k + (beta - 1) * lam) * sign (v k) = m * sign (v k) := by rw [hkmax]
        rw [ha]
        have habs : |m * sign (v k)| = m := by rw [abs_mul, abs_sign _ hvk0, mul_one, abs_of_nonneg hm0]
        have hval : lam * l1l2Fn beta (toE (fun i => if i = k then m * sign (v k) else 0))
            + 1 / 2 * ‖toE (fun i => if i = k then m * sign (v k) else 0) - toE v‖ ^ 2
            = 1 / 2 * ‖toE v‖ ^ 2 - 1 / 2 * m ^ 2 := by
          rw [obj_expand, norm_onesparse, l1_onesparse, inner_onesparse, habs, toE_apply]
          have : m * sign (v k) * v k = m * μ := by
            have h3 : sign (v k) * v k = |v k| := by
              have hsv := ProxBridge.sign_mul_abs (v k)
              have hs := abs_sign (v k) hvk0
              have hs2 : sign (v k) ^ 2 = 1 := by rw [← sq_abs, hs]; norm_num
              calc sign (v k) * v k = sign (v k) * (|v k| * sign (v k)) := by rw [hsv]
                _ = |v k| * sign (v k) ^ 2 := by ring
                _ = |v k| := by rw [hs2, mul_one]
            rw [mul_assoc, h3]; simp only [hva] at hkmax; rw [hkmax]
          rw [this, hm]; ring
        rw [hval]
        nlinarith [sq_nonneg (‖x‖ - m)]
  · -- v = 0 : one-sparse vector of magnitude max(beta-1,0)·lam in entry 0
    rw [if_neg h0]
    have hμz : μ = 0 := le_antisymm (not_lt.mp h0) hμ0
    have hv0 : toE v = 0 := by
      ext i
      have := hμ_ge i
      rw [hμz] at this
      exact abs_eq_zero.mp (le_antisymm this (abs_nonneg _))
    have hlow := lower_small (lam := lam) (beta := beta) (μ := μ) (by rw [hμz]; exact hlam.le) x (toE v) hμ_ge
    rw [hμz, hv0, norm_zero, sub_zero] at hlow
    rw [hv0]
    set a := maxP (beta - 1) 0 * lam with ha
    have ha' : a = max (beta - 1) 0 * lam := by rw [ha, maxP_eq]
    have ha0 : 0 ≤ a := by rw [ha']; exact mul_nonneg (le_max_right _ _) hlam.le
    rcases Nat.eq_zero_or_pos n with hn | hn
    · -- no entries: every vector is 0
      subst hn
      have hx : x = 0 := by ext i; exact i.elim0
      have hp : toE (fun i : Fin 0 => if i.val = 0 then a else 0) = 0 := by ext i; exact i.elim0
      rw [hp, hx]
    · set k : Fin n := ⟨0, hn⟩ with hk
      have hp : (fun i : Fin n => if i.val = 0 then a else 0) = fun i => if i = k then a else 0 := by
        funext i
        have : (i.val = 0) = (i = k) := by rw [hk]; exact propext ⟨fun h => Fin.ext h, fun h => by rw [h]⟩
        simp only [this]
      rw [hp, obj_expand, norm_onesparse, l1_onesparse, inner_onesparse, abs_of_nonneg ha0]
      simp only [PiLp.zero_apply, mul_zero, norm_zero, sub_zero]
      rcases le_total (beta - 1) 0 with hb1 | hb1
      · have : a = 0 := by rw [ha', max_eq_right hb1, zero_mul]
        rw [this]
        have : 0 ≤ ‖x‖ * ((1 - beta) * lam) := mul_nonneg (norm_nonneg x) (mul_nonneg (by linarith) hlam.le)
        nlinarith [sq_nonneg ‖x‖]
      · have : a = (beta - 1) * lam := by rw [ha', max_eq_left hb1]
        rw [this]
        nlinarith [sq_nonneg (‖x‖ - (beta - 1) * lam)]

end Scico.ProxL1L2
