/-
  The dispatch rule of the operator calculus (C06, round 5): `combineKind` (Model/Jaxpr.lean) says when scico presents
  the result of `A + B`, `A - B`, `A(B)`, `A @ B` as a LinearOperator.  Sound: operands that keep the promise of their
  presentation give results that keep theirs.  Necessary: identity + |.| presented as linear would break it.
-/
import Scico.Proofs.Jaxpr
import Mathlib.LinearAlgebra.Pi
import Mathlib.Tactic.NormNum
import Mathlib.Data.Real.Basic

namespace Scico.Jaxpr

section
variable {K : Type} [CommSemiring K] {n : Nat}

/-- what a presentation promises about the map -/
def KindOK (k : OpKind) (f : (Fin n → K) → (Fin n → K)) : Prop := k = .linear → IsLinearMap K f

/-- the dispatch rule is sound: when operands keep the promise of their presentation, so do the sum and the
    composition under the presentation `combineKind` gives them -/
theorem combineKind_sound (ka kb : OpKind) (f g : (Fin n → K) → (Fin n → K)) (hf : KindOK ka f) (hg : KindOK kb g) :
    KindOK (combineKind ka kb) (fun x => f x + g x) ∧ KindOK (combineKind ka kb) (fun x => f (g x)) := by
  have key : ∀ k : OpKind, k ≠ .linear → ∀ h : (Fin n → K) → (Fin n → K), KindOK k h := fun k hk h e => absurd e hk
  cases ka with
  | nonlinear => exact ⟨key _ (by simp [combineKind]) _, key _ (by simp [combineKind]) _⟩
  | linear =>
    cases kb with
    | nonlinear => exact ⟨key _ (by simp [combineKind]) _, key _ (by simp [combineKind]) _⟩
    | linear =>
      have hf' := hf rfl
      have hg' := hg rfl
      exact ⟨fun _ => ⟨fun x y => by simp only [hf'.map_add, hg'.map_add]; exact add_add_add_comm _ _ _ _,
          fun a x => by simp only [hf'.map_smul, hg'.map_smul, smul_add]⟩,
        fun _ => ⟨fun x y => by simp only [hg'.map_add, hf'.map_add], fun a x => by simp only [hg'.map_smul, hf'.map_smul]⟩⟩

end

/-- the rule is necessary: identity + |·| presented as linear would break the promise (ℝ¹: f(1)+f(-1) = 2 ≠ 0 = f(0)) -/
theorem abs_sum_not_linear : ¬ IsLinearMap ℝ (fun x : Fin 1 → ℝ => x + fun i => |x i|) := by
  intro h
  have := congrFun (h.map_add (fun _ => 1) (fun _ => -1)) 0
  norm_num at this

end Scico.Jaxpr
