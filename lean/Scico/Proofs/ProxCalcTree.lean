/-
  Theorems about *every* tree of the model `Scico.Model.ProxCalc` (unbounded depth):

  * availability — a set (truthful) flag and a conforming argument give a value, of the
    argument's shape (`prox_ok_of_hasProx`, `eval_ok_of_hasEval`);
  * soundness — if the base functionals' proximal maps are proximal maps, the value the model of
    `prox` returns for any nesting of scaling / separable / translation wrappers is a proximal
    point of the functional the tree denotes (`tree_sound`).

  The denotation is written on the model's own argument type (plain array = list of entries,
  block array = list of lists; complex data interleaved, so the squared distance below is the
  squared ℓ² distance in both cases).
-/
import Scico.Model.ProxCalc
import Mathlib.Tactic.Ring
import Mathlib.Tactic.Linarith
import Mathlib.Data.Real.Basic
import Mathlib.Algebra.BigOperators.Group.List.Basic
import Mathlib.Algebra.Order.BigOperators.Group.List
import Mathlib.Tactic.Positivity

namespace Scico.ProxCalc
open Scico Scico.FuncEval

/-! ### shapes -/
section shapes
variable {α : Type}

/-- same kind (plain / block) and same block lengths -/
def _root_.Scico.FuncEval.Arg.shapeEq : Arg α → Arg α → Prop
  | .arr a, .arr b => a.length = b.length
  | .blk a, .blk b => a.map List.length = b.map List.length
  | _, _ => False

theorem Arg.shapeEq_refl (a : Arg α) : a.shapeEq a := by
  cases a <;> simp [Arg.shapeEq]

theorem Arg.shapeEq_symm {a b : Arg α} (h : a.shapeEq b) : b.shapeEq a := by
  cases a <;> cases b <;> simp_all [Arg.shapeEq]

theorem Arg.shapeEq_trans {a b c : Arg α} (h : a.shapeEq b) (h' : b.shapeEq c) : a.shapeEq c := by
  cases a <;> cases b <;> cases c <;> simp_all [Arg.shapeEq]

variable [Add α] [Sub α] [Mul α] [Div α] [Neg α] [Zero α] [One α] [LT α] [DecidableLT α]

theorem zipSame_ok {op : α → α → α} {a b : List α} (h : a.length = b.length) :
    zipSame op a b = .ok (List.zipWith op a b) := by simp [zipSame, h]

theorem zipSame_eq_ok {op : α → α → α} {a b d : List α} (h : zipSame op a b = .ok d) :
    a.length = b.length ∧ d = List.zipWith op a b := by
  unfold zipSame at h
  split at h
  · exact ⟨‹_›, by injection h with h; exact h.symm⟩
  · cases h

theorem zipBlocks_ok {op : α → α → α} : ∀ {a b : List (List α)}, a.map List.length = b.map List.length →
    zipBlocks op a b = .ok (List.zipWith (List.zipWith op) a b)
  | [], [], _ => rfl
  | [], _ :: _, h => by simp at h
  | _ :: _, [], h => by simp at h
  | x :: xs, y :: ys, h => by
    simp only [List.map_cons, List.cons.injEq] at h
    simp [zipBlocks, zipSame_ok h.1, zipBlocks_ok h.2, bind, Except.bind, pure, Except.pure]

theorem zipBlocks_eq_ok {op : α → α → α} : ∀ {a b d : List (List α)}, zipBlocks op a b = .ok d →
    a.map List.length = b.map List.length ∧ d = List.zipWith (List.zipWith op) a b
  | [], [], d, h => by simp [zipBlocks] at h; simp [h]
  | [], _ :: _, d, h => by simp [zipBlocks] at h
  | _ :: _, [], d, h => by simp [zipBlocks] at h
  | x :: xs, y :: ys, d, h => by
    simp only [zipBlocks, bind, Except.bind] at h
    cases h1 : zipSame op x y with
    | error e => simp [h1] at h
    | ok hd =>
      cases h2 : zipBlocks op xs ys with
      | error e => simp [h1, h2] at h
      | ok tl =>
        simp only [h1, h2, pure, Except.pure, Except.ok.injEq] at h
        obtain ⟨l1, e1⟩ := zipSame_eq_ok h1
        obtain ⟨l2, e2⟩ := zipBlocks_eq_ok h2
        subst h
        simp [l1, l2, e1, e2]

/-- total version of `Arg.zip` (used in the specification) -/
def Arg.zipT (op : α → α → α) : Arg α → Arg α → Arg α
  | .arr a, .arr b => .arr (List.zipWith op a b)
  | .blk a, .blk b => .blk (List.zipWith (List.zipWith op) a b)
  | a, _ => a

theorem Arg.zip_ok {op : α → α → α} {a b : Arg α} (h : a.shapeEq b) :
    Arg.zip op a b = .ok (Arg.zipT op a b) := by
  cases a <;> cases b <;> simp only [Arg.shapeEq] at h
  · simp [Arg.zip, Arg.zipT, zipSame_ok h, Except.map]
  · simp [Arg.zip, Arg.zipT, zipBlocks_ok h, Except.map]

theorem Arg.zip_eq_ok {op : α → α → α} {a b d : Arg α} (h : Arg.zip op a b = .ok d) :
    a.shapeEq b ∧ d = Arg.zipT op a b := by
  cases a with
  | arr a =>
    cases b with
    | arr b =>
      simp only [Arg.zip, Except.map] at h
      cases h1 : zipSame op a b with
      | error e => simp [h1] at h
      | ok r =>
        simp only [h1, Except.ok.injEq] at h
        obtain ⟨l, e⟩ := zipSame_eq_ok h1
        exact ⟨l, by rw [← h, e]; rfl⟩
    | blk b => simp [Arg.zip] at h
  | blk a =>
    cases b with
    | arr b => simp [Arg.zip] at h
    | blk b =>
      simp only [Arg.zip, Except.map] at h
      cases h1 : zipBlocks op a b with
      | error e => simp [h1] at h
      | ok r =>
        simp only [h1, Except.ok.injEq] at h
        obtain ⟨l, e⟩ := zipBlocks_eq_ok h1
        exact ⟨l, by rw [← h, e]; rfl⟩

theorem map_length_zipWith {op : α → α → α} : ∀ {a b : List (List α)}, a.map List.length = b.map List.length →
    (List.zipWith (List.zipWith op) a b).map List.length = a.map List.length
  | [], [], _ => rfl
  | [], _ :: _, h => by simp at h
  | _ :: _, [], h => by simp at h
  | x :: xs, y :: ys, h => by
    simp only [List.map_cons, List.cons.injEq] at h
    simp [h.1, map_length_zipWith h.2]

theorem Arg.zipT_shapeEq {op : α → α → α} {a b : Arg α} (h : a.shapeEq b) : (Arg.zipT op a b).shapeEq a := by
  cases a <;> cases b <;> simp only [Arg.shapeEq] at h
  · simp [Arg.zipT, Arg.shapeEq, h]
  · simp [Arg.zipT, Arg.shapeEq, map_length_zipWith h]

theorem Arg.map_shapeEq (g : α → α) (a : Arg α) : (Arg.map g a).shapeEq a := by
  cases a <;> simp [Arg.map, Arg.shapeEq, Function.comp_def]

end shapes

/-! ### availability -/
section avail
variable {α : Type} [Add α] [Sub α] [Mul α] [Div α] [Neg α] [Zero α] [One α] [LT α] [DecidableLT α]
  [HasSqrt α]

/-- the base functionals' prox maps and the linear solver return arrays of the argument's shape -/
structure Env.ShapeOk (E : Env α) : Prop where
  prox : ∀ i v lam, (E.prox i v lam).shapeEq v
  solve : ∀ i y w c v, (E.solve i y w c v).shapeEq v

/-- the argument conforms to a `SquaredL2Loss` node -/
def ConformsSq (E : Env α) (y : Arg α) (A : OpK α) (v : Arg α) : Prop :=
  match A with
  | .ident => ∃ vv yy, v = .arr vv ∧ y = .arr yy ∧ yy.length = vv.length ∧
      (diagOf E.cplx (nEntries E.cplx vv) (OpK.ident : OpK α)).map List.length = some vv.length
  | .diag d => ∃ vv yy, v = .arr vv ∧ y = .arr yy ∧ yy.length = vv.length ∧ d.length = vv.length ∧
      (emul E.cplx d vv).length = vv.length
  | .lin i => y.shapeEq (E.opEval i v)
  | .nonlin i => y.shapeEq (E.opEval i v)

/-- the argument conforms to the tree: block counts match the separable lists, measurements
    have the shape of what they are subtracted from -/
def Conforms (E : Env α) : Fn α → Arg α → Prop
  | .leaf _, _ => True
  | .scaled _ f, v => Conforms E f v
  | .sum f g, v => Conforms E f v ∧ Conforms E g v
  | .snil, v => v = .blk []
  | .scons f r, v => ∃ b bs, v = .blk (b :: bs) ∧ Conforms E f (.arr b) ∧ Conforms E r (.blk bs)
  | .lossNone _ _ _, _ => True
  | .loss y A f _, v => y.shapeEq (E.applyOpt A v) ∧ ∀ d, d.shapeEq (E.applyOpt A v) → Conforms E f d
  | .sqL2 y A _ _, v => ConformsSq E y A v

/-- trees made of the generic wrappers only (no `SquaredL2Loss` node; that class is treated by
    its own theorems) -/
def Generic : Fn α → Prop
  | .leaf _ => True
  | .scaled _ f => Generic f
  | .sum f g => Generic f ∧ Generic g
  | .snil => True
  | .scons f r => Generic f ∧ Generic r
  | .lossNone _ _ _ => True
  | .loss _ _ f _ => Generic f
  | .sqL2 _ _ _ _ => False

theorem prox_ok_of_hasProx (E : Env α) (hE : E.ShapeOk) :
    ∀ (t : Fn α) (v : Arg α) (lam : α), hasProx E t = true → Generic t → Conforms E t v →
      ∃ p, prox E t v lam = .ok p ∧ p.shapeEq v := by
  intro t
  induction t with
  | leaf i =>
    intro v lam h _ _
    simp only [hasProx] at h
    exact ⟨_, by simp [prox, h], hE.prox i v lam⟩
  | scaled c f ih =>
    intro v lam h hg hc
    simp only [hasProx, Bool.and_eq_true] at h
    exact ih v (lam * c) h.1 hg hc
  | sum f g _ _ => intro v lam h; simp [hasProx] at h
  | snil =>
    intro v lam _ _ hc
    simp only [Conforms] at hc
    subst hc
    exact ⟨.blk [], rfl, by simp [Arg.shapeEq]⟩
  | scons f r ihf ihr =>
    intro v lam h hg hc
    simp only [hasProx, Bool.and_eq_true] at h
    obtain ⟨b, bs, rfl, hcf, hcr⟩ := hc
    obtain ⟨p, hp, hps⟩ := ihf (.arr b) lam h.1 hg.1 hcf
    obtain ⟨ps, hps', hpss⟩ := ihr (.blk bs) lam h.2 hg.2 hcr
    cases p with
    | blk _ => simp [Arg.shapeEq] at hps
    | arr p =>
      cases ps with
      | arr _ => simp [Arg.shapeEq] at hpss
      | blk ps =>
        refine ⟨.blk (p :: ps), by simp [prox, hp, hps', bind, Except.bind, pure, Except.pure], ?_⟩
        simp only [Arg.shapeEq] at hps hpss ⊢
        simp [hps, hpss]
  | lossNone y A s => intro v lam h; simp [hasProx] at h
  | loss y A f s ih =>
    intro v lam h hg hc
    have hguard := h
    simp only [hasProx, Bool.and_eq_true] at h
    obtain ⟨hA, hf⟩ := h
    cases A with
    | some i => simp at hA
    | none =>
      simp only [Conforms, Env.applyOpt] at hc
      obtain ⟨hy, hcf⟩ := hc
      have hvy : v.shapeEq y := Arg.shapeEq_symm hy
      have hd := Arg.zipT_shapeEq (op := (· - ·)) hvy
      obtain ⟨q, hq, hqs⟩ := ih (Arg.zipT (· - ·) v y) (s * lam) hf hg (hcf _ hd)
      have hqy : q.shapeEq y := Arg.shapeEq_trans hqs (Arg.shapeEq_trans hd hvy)
      refine ⟨Arg.zipT (· + ·) q y, ?_, Arg.shapeEq_trans (Arg.zipT_shapeEq hqy) (Arg.shapeEq_trans hqs hd)⟩
      simp [prox, hf, Arg.sub, Arg.add, Arg.zip_ok hvy, hq, Arg.zip_ok hqy, bind, Except.bind]
  | sqL2 y A w s => intro v lam _ hg; exact hg.elim

/-- a `SquaredL2Loss` with a linear forward operator returns a value on conforming arguments -/
theorem sqL2_prox_ok (E : Env α) (y : Arg α) (A : OpK α) (w : Option (List α)) (s : α) (v : Arg α) (lam : α)
    (h : hasProx E (.sqL2 y A w s) = true) (hc : ConformsSq E y A v) :
    ∃ p, prox E (.sqL2 y A w s) v lam = .ok p := by
  cases A with
  | nonlin i => simp [hasProx] at h
  | lin i => exact ⟨_, rfl⟩
  | ident =>
    obtain ⟨vv, yy, rfl, rfl, hyl, hd⟩ := hc
    cases hdo : diagOf E.cplx (nEntries E.cplx vv) (OpK.ident : OpK α) with
    | none => simp [hdo] at hd
    | some a =>
      simp only [hdo, Option.map_some, Option.some.injEq] at hd
      exact ⟨_, by simp [prox, hdo, hd, hyl] <;> rfl⟩
  | diag d =>
    obtain ⟨vv, yy, rfl, rfl, hyl, hdl, _⟩ := hc
    exact ⟨_, by simp [prox, diagOf, hdl, hyl] <;> rfl⟩

theorem eval_ok_of_hasEval (E : Env α) :
    ∀ (t : Fn α) (x : Arg α), hasEval E t = true → Conforms E t x → ∃ r, eval E t x = .ok r := by
  intro t
  induction t with
  | leaf i => intro x h _; simp only [hasEval] at h; exact ⟨_, by simp [eval, h] <;> rfl⟩
  | scaled c f ih =>
    intro x h hc
    obtain ⟨r, hr⟩ := ih x h hc
    exact ⟨c * r, by simp [eval, hr, bind, Except.bind, pure, Except.pure]⟩
  | sum f g ihf ihg =>
    intro x h hc
    simp only [hasEval, Bool.and_eq_true] at h
    obtain ⟨a, ha⟩ := ihf x h.1 hc.1
    obtain ⟨b, hb⟩ := ihg x h.2 hc.2
    exact ⟨a + b, by simp [eval, ha, hb, bind, Except.bind, pure, Except.pure]⟩
  | snil => intro x _ hc; simp only [Conforms] at hc; subst hc; exact ⟨0, rfl⟩
  | scons f r ihf ihr =>
    intro x h hc
    simp only [hasEval, Bool.and_eq_true] at h
    obtain ⟨b, bs, rfl, hcf, hcr⟩ := hc
    obtain ⟨a, ha⟩ := ihf (.arr b) h.1 hcf
    obtain ⟨s, hs⟩ := ihr (.blk bs) h.2 hcr
    exact ⟨a + s, by simp [eval, ha, hs, bind, Except.bind, pure, Except.pure]⟩
  | lossNone y A s => intro x h; simp [hasEval] at h
  | loss y A f s ih =>
    intro x h hc
    simp only [hasEval] at h
    obtain ⟨hy, hcf⟩ := hc
    have hxy := Arg.shapeEq_symm hy
    obtain ⟨r, hr⟩ := ih _ h (hcf _ (Arg.zipT_shapeEq (op := (· - ·)) hxy))
    exact ⟨s * r, by simp [eval, Arg.sub, Arg.zip_ok hxy, hr, bind, Except.bind, pure, Except.pure]⟩
  | sqL2 y A w s =>
    intro x _ hc
    cases A with
    | ident =>
      obtain ⟨vv, yy, rfl, rfl, hyl, _⟩ := hc
      exact ⟨_, by simp [eval, OpK.apply, Arg.sub, Arg.zip, zipSame_ok hyl, Except.map, bind, Except.bind, pure, Except.pure] <;> rfl⟩
    | diag d =>
      obtain ⟨vv, yy, rfl, rfl, hyl, _, hel⟩ := hc
      have : yy.length = (emul E.cplx d vv).length := by rw [hel, hyl]
      exact ⟨_, by simp [eval, OpK.apply, hel, Arg.sub, Arg.zip, zipSame_ok this, Except.map, bind, Except.bind, pure, Except.pure] <;> rfl⟩
    | lin i =>
      simp only [Conforms, ConformsSq] at hc
      exact ⟨_, by simp [eval, OpK.apply, Arg.sub, Arg.zip_ok hc, bind, Except.bind, pure, Except.pure] <;> rfl⟩
    | nonlin i =>
      simp only [Conforms, ConformsSq] at hc
      exact ⟨_, by simp [eval, OpK.apply, Arg.sub, Arg.zip_ok hc, bind, Except.bind, pure, Except.pure] <;> rfl⟩

end avail

/-! ### soundness of every nesting -/
section sound

/-- squared ℓ² distance of two lists (of the same length) -/
def sq2 (a b : List ℝ) : ℝ := (List.zipWith (fun x y => (x - y) ^ 2) a b).sum

/-- squared ℓ² distance of two arguments of the same shape -/
def _root_.Scico.FuncEval.Arg.dist2 : Arg ℝ → Arg ℝ → ℝ
  | .arr a, .arr b => sq2 a b
  | .blk a, .blk b => (List.zipWith sq2 a b).sum
  | _, _ => 0

/-- meaning of the base functionals: domain and finite value -/
structure LeafSem where
  dom : Nat → Arg ℝ → Prop
  val : Nat → Arg ℝ → ℝ

/-- `p` is a proximal point of `lam·f` (domain `D`) at `v`, among arguments of the shape of `v` -/
def IsProxA (D : Arg ℝ → Prop) (f : Arg ℝ → ℝ) (lam : ℝ) (v p : Arg ℝ) : Prop :=
  p.shapeEq v ∧ D p ∧
    ∀ x, x.shapeEq v → D x → lam * f p + (1 / 2) * p.dist2 v ≤ lam * f x + (1 / 2) * x.dist2 v

/-- hypothesis on the leaves (this is property C02 for the base functionals) -/
def LeafSound (E : Env ℝ) (S : LeafSem) : Prop :=
  ∀ i v lam, 0 < lam → E.hasProx i = true → IsProxA (S.dom i) (S.val i) lam v (E.prox i v lam)

/-- the functional a tree denotes (specification, written independently of `eval`) -/
noncomputable def den (E : Env ℝ) (S : LeafSem) : Fn ℝ → Arg ℝ → ℝ
  | .leaf i, x => S.val i x
  | .scaled c f, x => c * den E S f x
  | .sum f g, x => den E S f x + den E S g x
  | .snil, _ => 0
  | .scons f r, .blk (b :: bs) => den E S f (.arr b) + den E S r (.blk bs)
  | .scons _ _, _ => 0
  | .lossNone _ _ _, _ => 0
  | .loss y A f s, x => s * den E S f (Arg.zipT (· - ·) (E.applyOpt A x) y)
  | .sqL2 y A w s, x =>
    -- `s · Σ w_i |y_i − (A x)_i|²` (documented weighted squared ℓ² loss); `0` where `A x` is not defined
    match OpK.apply E A x with
    | .ok ax => s * wsum w (sqmags E.cplx (Arg.zipT (· - ·) y ax).flat)
    | .error _ => 0

/-- its domain -/
def dom (E : Env ℝ) (S : LeafSem) : Fn ℝ → Arg ℝ → Prop
  | .leaf i, x => S.dom i x
  | .scaled _ f, x => dom E S f x
  | .sum f g, x => dom E S f x ∧ dom E S g x
  | .snil, _ => True
  | .scons f r, .blk (b :: bs) => dom E S f (.arr b) ∧ dom E S r (.blk bs)
  | .scons _ _, _ => True
  | .lossNone _ _ _, _ => True
  | .loss y A f _, x => dom E S f (Arg.zipT (· - ·) (E.applyOpt A x) y)
  | .sqL2 _ _ _ _, _ => True

theorem sq2_sub_sub : ∀ (x v y : List ℝ), x.length = v.length → v.length = y.length →
    sq2 (List.zipWith (· - ·) x y) (List.zipWith (· - ·) v y) = sq2 x v
  | [], [], [], _, _ => rfl
  | a :: x, b :: v, c :: y, h1, h2 => by
    simp only [List.length_cons, Nat.add_right_cancel_iff] at h1 h2
    have ih := sq2_sub_sub x v y h1 h2
    simp only [sq2, List.zipWith_cons_cons, List.sum_cons] at ih ⊢
    rw [ih]; ring
  | [], _ :: _, _, h, _ => by simp at h
  | _ :: _, [], _, h, _ => by simp at h
  | _ :: _, _ :: _, [], _, h => by simp at h
  | [], [], _ :: _, _, h => by simp at h

theorem zipWith_add_sub : ∀ (q y : List ℝ), q.length = y.length →
    List.zipWith (· - ·) (List.zipWith (· + ·) q y) y = q
  | [], [], _ => rfl
  | a :: q, b :: y, h => by
    simp only [List.length_cons, Nat.add_right_cancel_iff] at h
    simp [zipWith_add_sub q y h]
  | [], _ :: _, h => by simp at h
  | _ :: _, [], h => by simp at h

theorem blk_sub_sub : ∀ (x v y : List (List ℝ)), x.map List.length = v.map List.length →
    v.map List.length = y.map List.length →
    (List.zipWith sq2 (List.zipWith (List.zipWith (· - ·)) x y) (List.zipWith (List.zipWith (· - ·)) v y)).sum
      = (List.zipWith sq2 x v).sum
  | [], [], [], _, _ => rfl
  | a :: x, b :: v, c :: y, h1, h2 => by
    simp only [List.map_cons, List.cons.injEq] at h1 h2
    simp [sq2_sub_sub a b c h1.1 h2.1, blk_sub_sub x v y h1.2 h2.2]
  | [], _ :: _, _, h, _ => by simp at h
  | _ :: _, [], _, h, _ => by simp at h
  | _ :: _, _ :: _, [], _, h => by simp at h
  | [], [], _ :: _, _, h => by simp at h

theorem blk_add_sub : ∀ (q y : List (List ℝ)), q.map List.length = y.map List.length →
    List.zipWith (List.zipWith (· - ·)) (List.zipWith (List.zipWith (· + ·)) q y) y = q
  | [], [], _ => rfl
  | a :: q, b :: y, h => by
    simp only [List.map_cons, List.cons.injEq] at h
    simp [zipWith_add_sub a b h.1, blk_add_sub q y h.2]
  | [], _ :: _, h => by simp at h
  | _ :: _, [], h => by simp at h

theorem Arg.dist2_sub_sub {x v y : Arg ℝ} (h1 : x.shapeEq v) (h2 : v.shapeEq y) :
    (Arg.zipT (· - ·) x y).dist2 (Arg.zipT (· - ·) v y) = x.dist2 v := by
  cases x <;> cases v <;> cases y <;> simp only [Arg.shapeEq] at h1 h2
  · exact sq2_sub_sub _ _ _ h1 h2
  · exact blk_sub_sub _ _ _ h1 h2

theorem Arg.add_sub_cancel {q y : Arg ℝ} (h : q.shapeEq y) :
    Arg.zipT (· - ·) (Arg.zipT (· + ·) q y) y = q := by
  cases q <;> cases y <;> simp only [Arg.shapeEq] at h
  · simp [Arg.zipT, zipWith_add_sub _ _ h]
  · simp [Arg.zipT, blk_add_sub _ _ h]

/-- every generic `Loss` node has a positive scale (documented use of `Loss`: `α f(y − A x)`, `α > 0`;
    the flag of a `Loss` does not look at its scale) -/
def LossScalesPos : Fn ℝ → Prop
  | .leaf _ => True
  | .scaled _ f => LossScalesPos f
  | .sum f g => LossScalesPos f ∧ LossScalesPos g
  | .snil => True
  | .scons f r => LossScalesPos f ∧ LossScalesPos r
  | .lossNone _ _ s => 0 < s
  | .loss _ _ f s => 0 < s ∧ LossScalesPos f
  | .sqL2 _ _ _ s => 0 < s

theorem sq2_nonneg (a b : List ℝ) : 0 ≤ sq2 a b := by
  unfold sq2
  apply List.sum_nonneg
  intro x hx
  obtain ⟨i, _, rfl⟩ := List.getElem_of_mem hx
  simp only [List.getElem_zipWith]
  positivity

theorem sq2_self (a : List ℝ) : sq2 a a = 0 := by
  unfold sq2
  induction a with
  | nil => rfl
  | cons x xs ih => simp [ih]

theorem Arg.dist2_nonneg (a b : Arg ℝ) : 0 ≤ a.dist2 b := by
  cases a <;> cases b <;> simp only [Arg.dist2, le_refl]
  · exact sq2_nonneg _ _
  · apply List.sum_nonneg
    intro x hx
    obtain ⟨i, _, rfl⟩ := List.getElem_of_mem hx
    simp only [List.getElem_zipWith]
    exact sq2_nonneg _ _

theorem Arg.dist2_self (a : Arg ℝ) : a.dist2 a = 0 := by
  cases a with
  | arr v => exact sq2_self v
  | blk bs =>
    simp only [Arg.dist2]
    induction bs with
    | nil => rfl
    | cons b bs ih => simp [sq2_self, ih]

/-- the zero functional with the identity as prox (what `ZeroFunctional` is) satisfies `LeafSound` -/
theorem isProxA_zero (lam : ℝ) (v : Arg ℝ) : IsProxA (fun _ => True) (fun _ => 0) lam v v := by
  refine ⟨Arg.shapeEq_refl v, trivial, fun x _ _ => ?_⟩
  rw [Arg.dist2_self]
  have := Arg.dist2_nonneg x v
  linarith

/-- **soundness for all nestings** -/
theorem tree_sound (E : Env ℝ) (S : LeafSem) (hS : LeafSound E S) :
    ∀ (t : Fn ℝ) (v p : Arg ℝ) {lam : ℝ}, 0 < lam → hasProx E t = true → Generic t → LossScalesPos t →
      prox E t v lam = .ok p → IsProxA (dom E S t) (den E S t) lam v p := by
  intro t
  induction t with
  | leaf i =>
    intro v p lam hl h _ _ hr
    simp only [hasProx] at h
    simp only [prox, h, if_true, Except.ok.injEq] at hr
    subst hr
    exact hS i v lam hl h
  | scaled c f ih =>
    intro v p lam hl h hg hls hr
    simp only [hasProx, Bool.and_eq_true, decide_eq_true_eq] at h
    obtain ⟨h1, h2, h3⟩ := ih v p (mul_pos hl h.2) h.1 hg hls hr
    refine ⟨h1, h2, fun x hx hdx => ?_⟩
    have := h3 x hx hdx
    simp only [den]
    linarith
  | sum f g _ _ => intro v p lam _ h; simp [hasProx] at h
  | snil =>
    intro v p lam _ _ _ _ hr
    match v with
    | .arr _ => simp [prox] at hr
    | .blk (_ :: _) => simp [prox] at hr
    | .blk [] =>
      simp only [prox, Except.ok.injEq] at hr
      subst hr
      refine ⟨by simp [Arg.shapeEq], trivial, fun x hx _ => ?_⟩
      cases x with
      | arr _ => simp [Arg.shapeEq] at hx
      | blk xs =>
        simp only [Arg.shapeEq, List.map_nil, List.map_eq_nil_iff] at hx
        subst hx
        simp [den]
  | scons f r ihf ihr =>
    intro v p lam hl h hg hls hr
    simp only [hasProx, Bool.and_eq_true] at h
    match v with
    | .arr _ => simp [prox] at hr
    | .blk [] => simp [prox] at hr
    | .blk (b :: bs) =>
      simp only [prox, bind, Except.bind] at hr
      cases hpa : prox E f (.arr b) lam with
      | error e => simp [hpa] at hr
      | ok pa =>
        cases hpr : prox E r (.blk bs) lam with
        | error e => simp [hpa, hpr] at hr
        | ok pr =>
          obtain ⟨a1, a2, a3⟩ := ihf (.arr b) pa hl h.1 hg.1 hls.1 hpa
          obtain ⟨r1, r2, r3⟩ := ihr (.blk bs) pr hl h.2 hg.2 hls.2 hpr
          cases pa with
          | blk _ => simp [Arg.shapeEq] at a1
          | arr p0 =>
            cases pr with
            | arr _ => simp [Arg.shapeEq] at r1
            | blk ps =>
              simp only [hpa, hpr, pure, Except.pure, Except.ok.injEq] at hr
              subst hr
              simp only [Arg.shapeEq] at a1 r1
              refine ⟨by simp [Arg.shapeEq, a1, r1], ⟨a2, r2⟩, fun x hx hdx => ?_⟩
              cases x with
              | arr _ => simp [Arg.shapeEq] at hx
              | blk xs =>
                cases xs with
                | nil => simp [Arg.shapeEq] at hx
                | cons x0 xs =>
                  simp only [Arg.shapeEq, List.map_cons, List.cons.injEq] at hx
                  have i1 := a3 (.arr x0) hx.1 hdx.1
                  have i2 := r3 (.blk xs) hx.2 hdx.2
                  simp only [den, Arg.dist2, List.zipWith_cons_cons, List.sum_cons] at i1 i2 ⊢
                  linarith
  | lossNone y A s => intro v p lam _ h; simp [hasProx] at h
  | loss y A f s ih =>
    intro v p lam hl h hg hls hr
    have hguard := h
    simp only [hasProx, Bool.and_eq_true] at h
    obtain ⟨hA, hf⟩ := h
    obtain ⟨hs, hlsf⟩ := hls
    cases A with
    | some i => simp at hA
    | none =>
      simp only [hasProx] at hguard
      simp only [prox, hguard, if_true, bind, Except.bind] at hr
      cases hd : Arg.sub v y with
      | error e => simp [hd] at hr
      | ok d =>
        cases hq : prox E f d (s * lam) with
        | error e => simp [hd, hq] at hr
        | ok q =>
          simp only [hd, hq] at hr
          obtain ⟨hvy, rfl⟩ := Arg.zip_eq_ok hd
          obtain ⟨hqy, rfl⟩ := Arg.zip_eq_ok hr
          obtain ⟨q1, q2, q3⟩ := ih _ q (mul_pos hs hl) hf hg hlsf hq
          have hdv : (Arg.zipT (· - ·) v y).shapeEq v := Arg.zipT_shapeEq hvy
          have hpq : (Arg.zipT (· + ·) q y).shapeEq q := Arg.zipT_shapeEq hqy
          have hpv : (Arg.zipT (· + ·) q y).shapeEq v := Arg.shapeEq_trans hpq (Arg.shapeEq_trans q1 hdv)
          refine ⟨hpv, ?_, fun x hx hdx => ?_⟩
          · simp only [dom, Env.applyOpt, Arg.add_sub_cancel hqy]; exact q2
          · simp only [dom, den, Env.applyOpt] at hdx ⊢
            have hxy : x.shapeEq y := Arg.shapeEq_trans hx hvy
            have hx' : (Arg.zipT (· - ·) x y).shapeEq (Arg.zipT (· - ·) v y) :=
              Arg.shapeEq_trans (Arg.zipT_shapeEq hxy) (Arg.shapeEq_trans hx (Arg.shapeEq_symm hdv))
            have i1 := q3 _ hx' hdx
            rw [Arg.dist2_sub_sub hx hvy] at i1
            have e2 := Arg.dist2_sub_sub hpv hvy
            rw [Arg.add_sub_cancel hqy] at e2 ⊢
            rw [e2] at i1
            linarith
  | sqL2 y A w s => intro v p lam _ _ hg; exact hg.elim

/-! ### evaluation of every nesting = the arithmetic combination it denotes -/

/-- `eval` (transcription of the `__call__` methods) agrees with the denotation `den` (the
    documented arithmetic: `c·f(x)`, `f(x)+g(x)`, `Σ_i f_i(x_i)`, `s·f(A x − y)`), for every tree -/
theorem eval_eq_den (E : Env ℝ) (S : LeafSem) (hS : ∀ i x, E.hasEval i = true → E.eval i x = S.val i x) :
    ∀ (t : Fn ℝ) (x : Arg ℝ) (r : ℝ), eval E t x = .ok r → r = den E S t x := by
  intro t
  induction t with
  | leaf i =>
    intro x r h
    simp only [eval] at h
    split at h
    · simp only [Except.ok.injEq] at h; rw [← h]; exact hS i x ‹_›
    · cases h
  | scaled c f ih =>
    intro x r h
    simp only [eval, bind, Except.bind] at h
    cases h1 : eval E f x with
    | error e => simp [h1] at h
    | ok r' =>
      simp only [h1, pure, Except.pure, Except.ok.injEq] at h
      rw [← h, ih x r' h1]; rfl
  | sum f g ihf ihg =>
    intro x r h
    simp only [eval, bind, Except.bind] at h
    cases h1 : eval E f x with
    | error e => simp [h1] at h
    | ok a =>
      cases h2 : eval E g x with
      | error e => simp [h1, h2] at h
      | ok b =>
        simp only [h1, h2, pure, Except.pure, Except.ok.injEq] at h
        rw [← h, ihf x a h1, ihg x b h2]; rfl
  | snil =>
    intro x r h
    match x with
    | .arr _ => simp [eval] at h
    | .blk (_ :: _) => simp [eval] at h
    | .blk [] => simp only [eval, Except.ok.injEq] at h; rw [← h]; rfl
  | scons f rest ihf ihr =>
    intro x r h
    match x with
    | .arr _ => simp [eval] at h
    | .blk [] => simp [eval] at h
    | .blk (b :: bs) =>
      simp only [eval, bind, Except.bind] at h
      cases h1 : eval E f (.arr b) with
      | error e => simp [h1] at h
      | ok a =>
        cases h2 : eval E rest (.blk bs) with
        | error e => simp [h1, h2] at h
        | ok s =>
          simp only [h1, h2, pure, Except.pure, Except.ok.injEq] at h
          rw [← h, ihf _ a h1, ihr _ s h2]; rfl
  | lossNone y A s => intro x r h; simp [eval] at h
  | loss y A f s ih =>
    intro x r h
    simp only [eval, bind, Except.bind] at h
    cases h1 : Arg.sub (E.applyOpt A x) y with
    | error e => simp [h1] at h
    | ok d =>
      cases h2 : eval E f d with
      | error e => simp [h1, h2] at h
      | ok r' =>
        simp only [h1, h2, pure, Except.pure, Except.ok.injEq] at h
        obtain ⟨_, rfl⟩ := Arg.zip_eq_ok h1
        rw [← h, ih _ r' h2]; rfl
  | sqL2 y A w s =>
    intro x r h
    simp only [eval, bind, Except.bind] at h
    cases h1 : OpK.apply E A x with
    | error e => simp [h1] at h
    | ok ax =>
      cases h2 : Arg.sub y ax with
      | error e => simp [h1, h2] at h
      | ok d =>
        simp only [h1, h2, pure, Except.pure, Except.ok.injEq] at h
        obtain ⟨_, rfl⟩ := Arg.zip_eq_ok h2
        rw [← h]
        simp only [den, h1]

/-- a `SeparableFunctional` denotes the sum of its components on the corresponding blocks -/
theorem den_sep (E : Env ℝ) (S : LeafSem) : ∀ (fs : List (Fn ℝ)) (bs : List (List ℝ)), fs.length = bs.length →
    den E S (Fn.sep fs) (.blk bs) = (List.zipWith (fun f b => den E S f (.arr b)) fs bs).sum
  | [], [], _ => by simp [Fn.sep, den]
  | f :: fs, b :: bs, h => by
    simp only [List.length_cons, Nat.add_right_cancel_iff] at h
    simp [Fn.sep, den, den_sep E S fs bs h]
  | [], _ :: _, h => by simp at h
  | _ :: _, [], h => by simp at h

end sound

end Scico.ProxCalc
