/-
  Adjoint engine: leaves with hand-written adjoints, uniqueness of the adjoint (matrix form of the views),
  and the basis lifting lemma.
-/
import Scico.Proofs.AdjointDerived

namespace Scico.Adjoint
open Finset

variable {K : Type} [Field K] [StarRing K]

/-! ### basis vectors -/

theorem vconj_basis (j : Nat) : vconj (basis j : V K) = basis j := by
  funext i
  by_cases h : i = j <;> simp [vconj, basis, h, conj_eq_star]

omit [StarRing K] in
theorem sum_mul_basis (n j : Nat) (hj : j < n) (f : Nat → K) :
    ∑ t ∈ range n, f t * (basis j : V K) t = f j := by
  simp only [basis, mul_ite, mul_one, mul_zero]
  rw [Finset.sum_ite_eq' (range n) j f]
  simp [hj]

theorem ip_basis_left (n j : Nat) (hj : j < n) (w : V K) : ip n (basis j) w = star (w j) := by
  simp only [ip_eq, basis, ite_mul, one_mul, zero_mul]
  rw [Finset.sum_ite_eq' (range n) j (fun i => star (w i))]
  simp [hj]

theorem ip_basis_right (n i : Nat) (hi : i < n) (u : V K) : ip n u (basis i) = u i := by
  simp only [ip_eq, basis]
  have : ∀ t, u t * star (if t = i then (1 : K) else 0) = if t = i then u t else 0 := by
    intro t; by_cases h : t = i <;> simp [h]
  simp only [this]
  rw [Finset.sum_ite_eq' (range n) i u]
  simp [hi]

/-! ### `MatrixOperator`: `A.conj().T @ y` is the adjoint of `A @ x` -/

theorem mat_isAdj (m n : Nat) (M : Nat → Nat → K) : IsAdj (Op.mat m n M) := by
  intro x y
  simp only [Op.mat, ip_eq, sumTo_eq, conj_eq_star, star_sum, star_mul', star_star, Finset.sum_mul, Finset.mul_sum]
  rw [Finset.sum_comm]
  apply Finset.sum_congr rfl
  intro j _
  apply Finset.sum_congr rfl
  intro i _
  ring

/-! ### uniqueness: an adjoint of `x ↦ M x` is `y ↦ Mᴴ y` -/

/-- `A.eval` is multiplication by the matrix `M` (on the declared output range) -/
def IsMat (A : Op K) (M : Nat → Nat → K) : Prop :=
  ∀ x, ∀ i < A.nout, A.eval x i = ∑ j ∈ range A.nin, M i j * x j

theorem mat_isMat (m n : Nat) (M : Nat → Nat → K) : IsMat (Op.mat m n M) M := by
  intro x i _
  simp [Op.mat, sumTo_eq]

theorem adj_unique {A : Op K} {M : Nat → Nat → K} (hA : IsAdj A) (hM : IsMat A M) :
    ∀ y, ∀ j < A.nin, A.adj y j = ∑ i ∈ range A.nout, star (M i j) * y i := by
  intro y j hj
  have h := hA (basis j) y
  rw [ip_basis_left _ _ hj] at h
  have h2 : ip A.nout (A.eval (basis j)) y = ∑ i ∈ range A.nout, M i j * star (y i) := by
    rw [ip_eq]
    apply Finset.sum_congr rfl
    intro i hi
    rw [hM (basis j) i (Finset.mem_range.mp hi), sum_mul_basis _ _ hj]
  rw [h2] at h
  have := congrArg star h
  rw [star_star] at this
  rw [← this, star_sum]
  apply Finset.sum_congr rfl
  intro i _
  simp [star_mul']

/-! ### the basis lifting lemma -/

/-- linear, and reading only the first `n` coordinates of its argument -/
structure IsLinear (n : Nat) (f : V K → V K) : Prop where
  add : ∀ x y, f (vadd x y) = vadd (f x) (f y)
  smul : ∀ (c : K) x, f (vsmul c x) = vsmul c (f x)
  ext : ∀ x x', (∀ j < n, x j = x' j) → f x = f x'

/-- truncation to the first `k` coordinates -/
def trunc (k : Nat) (x : V K) : V K := fun j => if j < k then x j else 0

omit [StarRing K] in
theorem IsLinear.zero {n : Nat} {f : V K → V K} (h : IsLinear n f) : f vzero = vzero := by
  have := h.smul 0 vzero
  have e : vsmul (0 : K) vzero = vzero := by funext i; simp [vsmul, vzero]
  rw [e] at this
  rw [this]
  funext i
  simp [vsmul, vzero]

omit [StarRing K] in
theorem IsLinear.trunc_expand {n : Nat} {f : V K → V K} (h : IsLinear n f) (x : V K) (i : Nat) :
    ∀ k, f (trunc k x) i = ∑ j ∈ range k, x j * f (basis j) i := by
  intro k
  induction k with
  | zero =>
    have : trunc 0 x = vzero := by funext j; simp [trunc, vzero]
    rw [this, h.zero]
    simp [vzero]
  | succ k ih =>
    have e : trunc (k + 1) x = vadd (trunc k x) (vsmul (x k) (basis k)) := by
      funext j
      simp only [trunc, vadd, vsmul, basis]
      by_cases h1 : j < k
      · have : j ≠ k := Nat.ne_of_lt h1
        simp [h1, this, Nat.lt_succ_of_lt h1]
      · by_cases h2 : j = k
        · subst h2; simp
        · have : ¬ j < k + 1 := by omega
          simp [h1, h2, this]
    rw [e, h.add, h.smul, Finset.sum_range_succ, ← ih]
    simp [vadd, vsmul]

omit [StarRing K] in
theorem IsLinear.expand {n : Nat} {f : V K → V K} (h : IsLinear n f) (x : V K) (i : Nat) :
    f x i = ∑ j ∈ range n, x j * f (basis j) i := by
  rw [← h.trunc_expand x i n]
  have : f x = f (trunc n x) := by
    apply h.ext
    intro j hj
    simp [trunc, hj]
  rw [this]

/-- identity on all pairs of basis vectors ⇒ identity for all vectors (what makes the finite check on the
    implementation exhaustive in the inputs of one configuration) -/
theorem basis_lift {A : Op K} (hE : IsLinear A.nin A.eval) (hB : IsLinear A.nout A.adj)
    (hb : ∀ j < A.nin, ∀ i < A.nout,
      ip A.nout (A.eval (basis j)) (basis i) = ip A.nin (basis j) (A.adj (basis i))) :
    IsAdj A := by
  intro x y
  have key : ∀ j < A.nin, ∀ i < A.nout, A.eval (basis j) i = star (A.adj (basis i) j) := by
    intro j hj i hi
    have := hb j hj i hi
    rwa [ip_basis_right _ _ hi, ip_basis_left _ _ hj] at this
  simp only [ip_eq]
  have l : ∀ i ∈ range A.nout, A.eval x i * star (y i)
      = ∑ j ∈ range A.nin, x j * A.eval (basis j) i * star (y i) := by
    intro i _
    rw [hE.expand x i, Finset.sum_mul]
  have r : ∀ j ∈ range A.nin, x j * star (A.adj y j)
      = ∑ i ∈ range A.nout, x j * A.eval (basis j) i * star (y i) := by
    intro j hj
    rw [hB.expand y j, star_sum, Finset.mul_sum]
    apply Finset.sum_congr rfl
    intro i hi
    rw [key j (Finset.mem_range.mp hj) i (Finset.mem_range.mp hi)]
    simp only [star_mul']
    ring
  rw [Finset.sum_congr rfl l, Finset.sum_congr rfl r, Finset.sum_comm]

end Scico.Adjoint
