/-
  `SquaredL2Loss.prox` for a general linear operator `A` (the conjugate-gradient path, scico/loss.py):
  the documented system `(I + 2·lam·scale·AᵀWA) x = v + 2·lam·scale·AᵀW y`.
  * `cert_of_sysRes_zero` : a solution of the system carries the sub-gradient certificate (is THE prox);
  * `dist_le_norm_sysRes` : conditioning — any `x` is within `‖residual(x)‖` of the solution (system matrix `⪰ I`);
  * `exists_sysRes_zero`  : the system has a solution (injective + finite dimension).
-/
import Scico.Proofs.ProxBridge
import Mathlib.LinearAlgebra.FiniteDimensional.Basic
import Mathlib.Analysis.InnerProductSpace.PiL2

set_option linter.unusedSectionVars false

namespace Scico.ProxCG
open Scico Scico.Prox Scico.ProxSpec Scico.ProxBridge WithLp Finset

variable {m n : ℕ}

/-- `A x` -/
def mv (A : Fin m → Fin n → ℝ) (x : Fin n → ℝ) (i : Fin m) : ℝ := ∑ j, A i j * x j
/-- `Aᵀ z` -/
def mtv (A : Fin m → Fin n → ℝ) (z : Fin m → ℝ) (j : Fin n) : ℝ := ∑ i, A i j * z i

theorem mv_add (A : Fin m → Fin n → ℝ) (x d : Fin n → ℝ) (i : Fin m) : mv A (fun j => x j + d j) i = mv A x i + mv A d i := by
  unfold mv; rw [← sum_add_distrib]; exact sum_congr rfl fun j _ => by ring

theorem mv_sub (A : Fin m → Fin n → ℝ) (x d : Fin n → ℝ) (i : Fin m) : mv A (fun j => x j - d j) i = mv A x i - mv A d i := by
  unfold mv; rw [← sum_sub_distrib]; exact sum_congr rfl fun j _ => by ring

theorem mv_smul (A : Fin m → Fin n → ℝ) (c : ℝ) (x : Fin n → ℝ) (i : Fin m) : mv A (fun j => c * x j) i = c * mv A x i := by
  unfold mv; rw [mul_sum]; exact sum_congr rfl fun j _ => by ring

/-- adjoint identity `⟨Aᵀ u, d⟩ = ⟨u, A d⟩` -/
theorem mtv_dot (A : Fin m → Fin n → ℝ) (u : Fin m → ℝ) (d : Fin n → ℝ) :
    ∑ j, mtv A u j * d j = ∑ i, u i * mv A d i := by
  unfold mtv mv
  simp only [sum_mul, mul_sum]
  rw [sum_comm]
  exact sum_congr rfl fun i _ => sum_congr rfl fun j _ => by ring

/-- the system matrix applied to `e`: `e + c AᵀW A e` -/
def sysOp (c : ℝ) (w : Fin m → ℝ) (A : Fin m → Fin n → ℝ) (e : Fin n → ℝ) (j : Fin n) : ℝ :=
  e j + c * mtv A (fun i => w i * mv A e i) j

/-- residual of the documented system `(I + c AᵀWA) x = v + c AᵀW y`, `c = 2·scale·lam` -/
def sysRes (c : ℝ) (w : Fin m → ℝ) (A : Fin m → Fin n → ℝ) (y : Fin m → ℝ) (v x : Fin n → ℝ) (j : Fin n) : ℝ :=
  sysOp c w A x j - (v j + c * mtv A (fun i => w i * y i) j)

theorem sysRes_sub (c : ℝ) (w : Fin m → ℝ) (A : Fin m → Fin n → ℝ) (y : Fin m → ℝ) (v x p : Fin n → ℝ) (j : Fin n) :
    sysRes c w A y v x j - sysRes c w A y v p j = sysOp c w A (fun k => x k - p k) j := by
  unfold sysRes sysOp mtv
  simp only [mv_sub]
  have : ∑ i, A i j * (w i * (mv A x i - mv A p i)) = ∑ i, A i j * (w i * mv A x i) - ∑ i, A i j * (w i * mv A p i) := by
    rw [← sum_sub_distrib]; exact sum_congr rfl fun i _ => by ring
  rw [this]; ring

/-- coercivity: `⟨(I + c AᵀWA) e, e⟩ = ‖e‖² + c Σ w_i (Ae)_i² ≥ ‖e‖²` -/
theorem sysOp_dot (c : ℝ) (w : Fin m → ℝ) (A : Fin m → Fin n → ℝ) (e : Fin n → ℝ) :
    ∑ j, sysOp c w A e j * e j = ∑ j, e j * e j + c * ∑ i, w i * mv A e i ^ 2 := by
  unfold sysOp
  simp only [add_mul, sum_add_distrib, mul_assoc, ← mul_sum]
  rw [mtv_dot]
  congr 2
  exact sum_congr rfl fun i _ => by ring

theorem norm_le_norm_sysOp {c : ℝ} (hc : 0 ≤ c) {w : Fin m → ℝ} (hw : ∀ i, 0 ≤ w i) (A : Fin m → Fin n → ℝ)
    (e : Fin n → ℝ) : ‖toE e‖ ≤ ‖toE (sysOp c w A e)‖ := by
  have h1 : inner ℝ (toE (sysOp c w A e)) (toE e) = ∑ j, sysOp c w A e j * e j := by rw [inner_toE]; rfl
  have h2 : ‖toE e‖ ^ 2 = ∑ j, e j * e j := by
    rw [← real_inner_self_eq_norm_sq, inner_toE]; rfl
  have h3 : ‖toE e‖ ^ 2 ≤ inner ℝ (toE (sysOp c w A e)) (toE e) := by
    rw [h1, sysOp_dot, h2]
    have : 0 ≤ c * ∑ i, w i * mv A e i ^ 2 :=
      mul_nonneg hc (sum_nonneg fun i _ => mul_nonneg (hw i) (sq_nonneg _))
    linarith
  have h4 := real_inner_le_norm (toE (sysOp c w A e)) (toE e)
  by_cases h0 : ‖toE e‖ = 0
  · rw [h0]; exact norm_nonneg _
  · have hpos : 0 < ‖toE e‖ := lt_of_le_of_ne (norm_nonneg _) (Ne.symm h0)
    have : ‖toE e‖ * ‖toE e‖ ≤ ‖toE (sysOp c w A e)‖ * ‖toE e‖ := by nlinarith
    exact le_of_mul_le_mul_right this hpos

/-- SPEC of the weighted squared-L2 loss with a dense operator `A` -/
def sqL2Fn (scale : ℝ) (w : Fin m → ℝ) (A : Fin m → Fin n → ℝ) (y : Fin m → ℝ) (x : EuclideanSpace ℝ (Fin n)) : ℝ :=
  ∑ i, scale * (w i * (y i - mv A (fun j => x j) i) ^ 2)

/-- **a solution of the documented system is the prox** (any linear `A`, weights `w ≥ 0`, `scale ≥ 0`) -/
theorem cert_of_sysRes_zero {lam scale : ℝ} (hlam : 0 < lam) (hs : 0 ≤ scale) {w : Fin m → ℝ} (hw : ∀ i, 0 ≤ w i)
    (A : Fin m → Fin n → ℝ) (y : Fin m → ℝ) (v p : Fin n → ℝ)
    (hres : ∀ j, sysRes (2 * scale * lam) w A y v p j = 0) :
    Cert Set.univ (sqL2Fn scale w A y) lam (toE v) (toE p) := by
  refine ⟨trivial, fun z _ => ?_⟩
  rw [real_inner_smul_left, inner_toE]
  set d : Fin n → ℝ := fun j => z j - p j with hd
  have hvp : ∀ j, v j - p j = 2 * scale * lam * mtv A (fun i => w i * (mv A p i - y i)) j := by
    intro j
    have := hres j
    unfold sysRes sysOp mtv at this
    unfold mtv
    have e : ∑ i, A i j * (w i * (mv A p i - y i)) = ∑ i, A i j * (w i * mv A p i) - ∑ i, A i j * (w i * y i) := by
      rw [← sum_sub_distrib]; exact sum_congr rfl fun i _ => by ring
    rw [e]; linarith
  have hin : ∑ j, (toE v - toE p) j * (z - toE p) j
      = 2 * scale * lam * ∑ i, (w i * (mv A p i - y i)) * mv A d i := by
    have : ∀ j, (toE v - toE p) j * (z - toE p) j = 2 * scale * lam * (mtv A (fun i => w i * (mv A p i - y i)) j * d j) := by
      intro j
      simp only [PiLp.sub_apply, toE_apply, hvp j, hd]; ring
    simp only [this, ← mul_sum]
    rw [mtv_dot]
  rw [hin]
  have hz : ∀ i, mv A (fun j => z j) i = mv A p i + mv A d i := by
    intro i
    rw [← mv_add]; congr 1; funext j; simp [hd]
  unfold sqL2Fn
  simp only [hz, toE_apply]
  have key : ∑ i, scale * (w i * (y i - (mv A p i + mv A d i)) ^ 2)
      - (∑ i, scale * (w i * (y i - mv A p i) ^ 2) + 1 / lam * (2 * scale * lam * ∑ i, w i * (mv A p i - y i) * mv A d i))
      = ∑ i, scale * (w i * mv A d i ^ 2) := by
    have hl : 1 / lam * (2 * scale * lam * ∑ i, w i * (mv A p i - y i) * mv A d i)
        = ∑ i, 2 * scale * (w i * (mv A p i - y i) * mv A d i) := by
      rw [mul_sum, mul_sum]
      refine sum_congr rfl fun i _ => ?_
      field_simp
    rw [hl, ← sum_add_distrib, ← sum_sub_distrib]
    exact sum_congr rfl fun i _ => by ring
  have hnn : 0 ≤ ∑ i, scale * (w i * mv A d i ^ 2) :=
    sum_nonneg fun i _ => mul_nonneg hs (mul_nonneg (hw i) (sq_nonneg _))
  linarith

/-- **conditioning bound for the CG path**: an approximate solution `x` of the system is within `‖residual(x)‖` of the
    exact solution `p` (the system matrix `I + c AᵀWA` is `⪰ I`) -/
theorem dist_le_norm_sysRes {c : ℝ} (hc : 0 ≤ c) {w : Fin m → ℝ} (hw : ∀ i, 0 ≤ w i) (A : Fin m → Fin n → ℝ)
    (y : Fin m → ℝ) (v x p : Fin n → ℝ) (hp : ∀ j, sysRes c w A y v p j = 0) :
    ‖toE x - toE p‖ ≤ ‖toE (sysRes c w A y v x)‖ := by
  have h := norm_le_norm_sysOp hc hw A (fun k => x k - p k)
  have e1 : toE (fun k => x k - p k) = toE x - toE p := rfl
  have e2 : sysOp c w A (fun k => x k - p k) = sysRes c w A y v x := by
    funext j; rw [← sysRes_sub c w A y v x p j, hp j, sub_zero]
  rw [e1, e2] at h; exact h

/-- the system matrix as a linear map -/
def sysLin (c : ℝ) (w : Fin m → ℝ) (A : Fin m → Fin n → ℝ) : (Fin n → ℝ) →ₗ[ℝ] (Fin n → ℝ) where
  toFun := sysOp c w A
  map_add' x z := by
    funext j
    show sysOp c w A (fun k => x k + z k) j = sysOp c w A x j + sysOp c w A z j
    unfold sysOp mtv
    simp only [mv_add]
    have : ∑ i, A i j * (w i * (mv A x i + mv A z i)) = ∑ i, A i j * (w i * mv A x i) + ∑ i, A i j * (w i * mv A z i) := by
      rw [← sum_add_distrib]; exact sum_congr rfl fun i _ => by ring
    rw [this]; ring
  map_smul' a x := by
    funext j
    show sysOp c w A (fun k => a * x k) j = a * sysOp c w A x j
    unfold sysOp mtv
    simp only [mv_smul]
    have : ∑ i, A i j * (w i * (a * mv A x i)) = a * ∑ i, A i j * (w i * mv A x i) := by
      rw [mul_sum]; exact sum_congr rfl fun i _ => by ring
    rw [this]; ring

/-- **the documented system has a solution** (so the prox exists and the bound is not vacuous) -/
theorem exists_sysRes_zero {c : ℝ} (hc : 0 ≤ c) {w : Fin m → ℝ} (hw : ∀ i, 0 ≤ w i) (A : Fin m → Fin n → ℝ)
    (y : Fin m → ℝ) (v : Fin n → ℝ) : ∃ p : Fin n → ℝ, ∀ j, sysRes c w A y v p j = 0 := by
  have hinj : Function.Injective (sysLin c w A) := by
    rw [injective_iff_map_eq_zero]
    intro e he
    have h := norm_le_norm_sysOp hc hw A e
    have : sysOp c w A e = 0 := he
    rw [this] at h
    have h0 : ‖toE e‖ = 0 := le_antisymm (by simpa [toE] using h) (norm_nonneg _)
    have := norm_eq_zero.mp h0
    funext j
    have := congrArg (fun t : EuclideanSpace ℝ (Fin n) => t j) this
    simpa using this
  have hsurj := LinearMap.surjective_of_injective hinj
  obtain ⟨p, hp⟩ := hsurj (fun j => v j + c * mtv A (fun i => w i * y i) j)
  refine ⟨p, fun j => ?_⟩
  have := congrFun hp j
  unfold sysRes
  change sysOp c w A p j = _ at this
  rw [this]; ring

end Scico.ProxCG
