/-
  The dispatch data of the hand-written model is DERIVED from the source tables (`Scico.OpAlg.Tables.model`, kept equal
  to the scico working tree by the generated obligation `Scico.Generated.OpAlgTables.tables_ok`):

  * `Cls.isSub`   = reachability along the `bases` of the table (Python's `isinstance`),
  * `Cls.arith`   = the first class of the MRO that defines `__add__` (whose `__add__/__sub__/__mul__/__truediv__` a
                    class inherits),
  * the wrapper each class's `__add__` is decorated with decides the branch of `addSub`,
  * the class that owns `T / H / conj / gram_op` decides the branch of `opT / opH / opConj / opGram`,
  * the shape / dtype arguments of every generic derived constructor are the metadata the model's functions declare.
-/
import Scico.Model.OpAlg
import Scico.Model.OpAlgTables

namespace Scico.OpAlg.Tables
open Scico.OpAlg Scico.DType

def tagOf : Cls → String
  | .op => "op" | .linop => "linop" | .composed => "composed" | .diag => "diag"
  | .scaledId => "scaledId" | .ident => "ident" | .matrix => "matrix"

def allCls : List Cls := [.op, .linop, .composed, .diag, .scaledId, .ident, .matrix]

def rowOfTag (t : Tables) (tag : String) : Option ClassRow := t.classes.find? (·.tag = tag)
def rowOfName (t : Tables) (n : String) : Option ClassRow :=
  (t.classes.filter (fun r => r.tag ∈ allCls.map tagOf)).find? (·.name = n)

/-- linearised ancestry of a class (single inheritance among the seven classes of the calculus), fuel-bounded -/
def mro (t : Tables) : Nat → String → List String
  | 0, _ => []
  | fuel + 1, tag =>
    match rowOfTag t tag with
    | none => []
    | some r =>
      tag :: (match r.bases with
        | [b] => (match rowOfName t b with | some p => mro t fuel p.tag | none => [])
        | _ => [])

def defines (t : Tables) (tag meth : String) : Bool :=
  match rowOfTag t tag with
  | some r => r.defs.any (·.1 = meth)
  | none => false

def decoratorOf (t : Tables) (tag meth : String) : Option String :=
  (rowOfTag t tag).bind (fun r => (r.defs.find? (·.1 = meth)).map (·.2))

/-- the first class along the MRO that defines `meth` -/
def owner (t : Tables) (tag meth : String) : Option String := (mro t 8 tag).find? (fun c => defines t c meth)

/-- **`isinstance`**: `Cls.isSub c d` is reachability along the bases of the source -/
theorem isSub_from_table : ∀ c ∈ allCls, ∀ d ∈ allCls, ((mro model 8 (tagOf c)).contains (tagOf d)) = c.isSub d := by
  decide +kernel

/-- **inherited arithmetic**: `Cls.arith c` is the first class of the MRO defining `__add__` (and the same class defines
    `__sub__`, `__mul__`, `__truediv__`) -/
theorem arith_from_table : ∀ c ∈ allCls,
    owner model (tagOf c) "__add__" = some (tagOf c.arith) ∧ owner model (tagOf c) "__sub__" = some (tagOf c.arith)
    ∧ owner model (tagOf c) "__mul__" = some (tagOf c.arith) ∧ owner model (tagOf c) "__truediv__" = some (tagOf c.arith) := by
  decide +kernel

/-- the decorator of the `__add__` / `__sub__` a class uses: none for `Operator`, `_wrap_add_sub_matrix` for
    `MatrixOperator`, `_wrap_add_sub` otherwise; `__mul__`/`__truediv__` are behind `_wrap_mul_div_scalar` except for
    `MatrixOperator` (`numpy.isscalar` inside the method) -/
def addWrapper : Cls → String
  | .op => ""
  | .matrix => "partial(_wrap_add_sub_matrix,op=operator.add)"
  | _ => "_wrap_add_sub"

def mulWrapper : Cls → String
  | .matrix => ""
  | _ => "_wrap_mul_div_scalar"

theorem wrappers_from_table : ∀ c ∈ allCls,
    decoratorOf model (tagOf c.arith) "__add__" = some (addWrapper c)
    ∧ decoratorOf model (tagOf c.arith) "__mul__" = some (mulWrapper c)
    ∧ decoratorOf model (tagOf c.arith) "__truediv__" = some (mulWrapper c) := by
  decide +kernel

section
variable {α : Type} [Add α] [Sub α] [Mul α] [Div α] [Neg α] [Zero α] [One α] [HasConj α] [HasRe α]

/-- `addSub` takes the branch of that decorator (apart from the reflected methods of `MatrixOperator`, which the table
    lists as `__radd__`, `__rsub__`) -/
theorem addSub_branch (cfg : Cfg) (sub : Bool) (a b : Obj α)
    (hr : ¬ (b.cls = .matrix ∧ (a.cls = .op ∨ a.cls = .linop))) :
    addSub cfg sub a b =
      (if addWrapper a.cls = "" then opAddSub sub a b
       else if addWrapper a.cls = "_wrap_add_sub" then wrapAddSub cfg sub a b
       else matAddSub sub a b) := by
  unfold addSub
  have : (b.cls = .matrix && (a.cls = .op || a.cls = .linop)) = false := by
    cases hb : b.cls <;> cases ha : a.cls <;> simp_all
  rw [this]
  cases ha : a.cls <;> simp [addWrapper]

theorem reflected_from_table :
    defines model "matrix" "__radd__" = true ∧ defines model "matrix" "__rsub__" = true
    ∧ defines model "ident" "__rmatmul__" = true ∧ defines model "linop" "__rmatmul__" = true
    ∧ defines model "op" "__matmul__" = false ∧ defines model "op" "__rmatmul__" = false := by
  decide +kernel

/-- owners of the views: which class's `T / H / conj / gram_op` an object uses -/
def viewOwner (meth : String) : Cls → Option Cls
  | .op => none
  | .matrix => some .matrix
  | .linop | .composed => some .linop
  | .diag => some .diag
  | .scaledId => if meth = "T" ∨ meth = "H" then some .diag else some .scaledId
  | .ident => if meth = "T" ∨ meth = "H" then some .diag else some .ident

theorem views_from_table : ∀ c ∈ allCls, ∀ meth ∈ ["T", "H", "conj", "gram_op"],
    owner model (tagOf c) meth = (viewOwner meth c).map tagOf := by
  decide +kernel

/-- `opT` dispatches on the owner of `T`: none → `AttributeError`; `MatrixOperator.T`; `Diagonal.T` (inherited by its
    subclasses); `LinearOperator.T` -/
theorem opT_branch (cfg : Cfg) (a : Obj α) :
    opT cfg a = (match viewOwner "T" a.cls with
      | none => .error .other
      | some .matrix => .ok (matTop a)
      | some .diag => .ok (diagT cfg a)
      | some _ => .ok (linT a)) := by
  unfold opT
  cases a.cls <;> simp [viewOwner]

theorem opH_branch (cfg : Cfg) (a : Obj α) :
    opH cfg a = (match viewOwner "H" a.cls with
      | none => .error .other
      | some .matrix => .ok (matHop a)
      | some .diag => diagH cfg a
      | some _ => .ok (linH a)) := by
  unfold opH
  cases a.cls <;> simp [viewOwner]

/-- `conj` and `gram_op` are defined by each class of the `Diagonal` family itself (`diagConj` / `diagGram` branch on
    the class), by `MatrixOperator`, and by `LinearOperator` for the rest -/
theorem opConj_branch (cfg : Cfg) (a : Obj α) :
    opConj cfg a = (match viewOwner "conj" a.cls with
      | none => .error .other
      | some .matrix => .ok (matConjOp a)
      | some .linop => .ok (linConj a)
      | some _ => diagConj cfg a) := by
  unfold opConj
  cases a.cls <;> simp [viewOwner]

theorem opGram_branch (cfg : Cfg) (a : Obj α) :
    opGram cfg a = (match viewOwner "gram_op" a.cls with
      | none => .error .other
      | some .matrix => .ok (matGram a)
      | some .linop => .ok (linGram cfg a)
      | some _ => diagGram cfg a) := by
  unfold opGram
  cases a.cls <;> simp [viewOwner]

/-! ### metadata rules of the generic constructors = the constructor arguments of the source -/

def ctorRow (t : Tables) (tag meth : String) (idx : Nat) : Option CtorRow :=
  t.ctors.find? (fun r => r.tag = tag ∧ r.meth = meth ∧ r.idx = idx)

/-- meaning of a shape expression for `self` / the other operand (`other`, `x`; `self.A` = self, `self.B` = other in
    `ComposedLinearOperator`) -/
def semSh (self other : Meta) : SE → Option Shape
  | .attr o f =>
    let m? : Option Meta := if o = "self" ∨ o = "self.A" then some self
      else if o = "other" ∨ o = "x" ∨ o = "self.B" then some other else none
    m?.bind (fun m => if f = "input_shape" then some m.inShape else if f = "output_shape" then some m.outShape else none)
  | _ => none

/-- meaning of a dtype expression; `sk` = how a scalar operand (`other`, `scalar`) enters `result_type` -/
def semDt (self other : Meta) (sk : SK) : SE → Option DT
  | .attr o f =>
    let m? : Option Meta := if o = "self" ∨ o = "self.A" then some self
      else if o = "other" ∨ o = "x" ∨ o = "self.B" then some other else none
    m?.bind (fun m => if f = "input_dtype" then some m.inDt else if f = "output_dtype" then some m.outDt else none)
  | .rt a (.name _) => (semDt self other sk a).map (fun d => resultTypeS d sk)
  | .rt a b => do let x ← semDt self other sk a; let y ← semDt self other sk b; pure (resultType x y)
  | _ => none

/-- the declared metadata `res` is what the source row passes to the constructor -/
def RowGives (r : Option CtorRow) (self other : Meta) (sk : SK) (res : Meta) : Prop :=
  ∃ row, r = some row ∧ semSh self other row.inSh = some res.inShape ∧ semSh self other row.outSh = some res.outShape
    ∧ semDt self other sk row.inDt = some res.inDt ∧ semDt self other sk row.outDt = some res.outDt

/-- the rows of the generic constructors, as they stand in the table (closed facts) -/
theorem r_op_call_0 : ctorRow model "op" "__call__" 0 = some ⟨"op", "__call__", 0, "Operator", (.attr "x" "input_shape"), (.attr "self" "output_shape"), (.attr "x" "input_dtype"), (.attr "self" "output_dtype"), []⟩ := by decide +kernel
theorem r_op_add_0 : ctorRow model "op" "__add__" 0 = some ⟨"op", "__add__", 0, "Operator", (.attr "self" "input_shape"), (.attr "self" "output_shape"), (.attr "self" "input_dtype"), (.rt (.attr "self" "output_dtype") (.attr "other" "output_dtype")), []⟩ := by decide +kernel
theorem r_op_sub_0 : ctorRow model "op" "__sub__" 0 = some ⟨"op", "__sub__", 0, "Operator", (.attr "self" "input_shape"), (.attr "self" "output_shape"), (.attr "self" "input_dtype"), (.rt (.attr "self" "output_dtype") (.attr "other" "output_dtype")), []⟩ := by decide +kernel
theorem r_op_mul_0 : ctorRow model "op" "__mul__" 0 = some ⟨"op", "__mul__", 0, "Operator", (.attr "self" "input_shape"), (.attr "self" "output_shape"), (.attr "self" "input_dtype"), (.rt (.attr "self" "output_dtype") (.name "other")), []⟩ := by decide +kernel
theorem r_op_rmul_0 : ctorRow model "op" "__rmul__" 0 = some ⟨"op", "__rmul__", 0, "Operator", (.attr "self" "input_shape"), (.attr "self" "output_shape"), (.attr "self" "input_dtype"), (.rt (.attr "self" "output_dtype") (.name "other")), []⟩ := by decide +kernel
theorem r_op_truediv_0 : ctorRow model "op" "__truediv__" 0 = some ⟨"op", "__truediv__", 0, "Operator", (.attr "self" "input_shape"), (.attr "self" "output_shape"), (.attr "self" "input_dtype"), (.rt (.attr "self" "output_dtype") (.name "other")), []⟩ := by decide +kernel
theorem r_linop_add_0 : ctorRow model "linop" "__add__" 0 = some ⟨"linop", "__add__", 0, "LinearOperator", (.attr "self" "input_shape"), (.attr "self" "output_shape"), (.attr "self" "input_dtype"), (.rt (.attr "self" "output_dtype") (.attr "other" "output_dtype")), []⟩ := by decide +kernel
theorem r_linop_sub_0 : ctorRow model "linop" "__sub__" 0 = some ⟨"linop", "__sub__", 0, "LinearOperator", (.attr "self" "input_shape"), (.attr "self" "output_shape"), (.attr "self" "input_dtype"), (.rt (.attr "self" "output_dtype") (.attr "other" "output_dtype")), []⟩ := by decide +kernel
theorem r_linop_mul_0 : ctorRow model "linop" "__mul__" 0 = some ⟨"linop", "__mul__", 0, "LinearOperator", (.attr "self" "input_shape"), (.attr "self" "output_shape"), (.attr "self" "input_dtype"), (.rt (.attr "self" "output_dtype") (.name "other")), []⟩ := by decide +kernel
theorem r_linop_truediv_0 : ctorRow model "linop" "__truediv__" 0 = some ⟨"linop", "__truediv__", 0, "LinearOperator", (.attr "self" "input_shape"), (.attr "self" "output_shape"), (.attr "self" "input_dtype"), (.rt (.attr "self" "output_dtype") (.name "other")), []⟩ := by decide +kernel
theorem r_linop_T_0 : ctorRow model "linop" "T" 0 = some ⟨"linop", "T", 0, "LinearOperator", (.attr "self" "output_shape"), (.attr "self" "input_shape"), (.attr "self" "output_dtype"), (.attr "self" "input_dtype"), []⟩ := by decide +kernel
theorem r_linop_T_1 : ctorRow model "linop" "T" 1 = some ⟨"linop", "T", 1, "LinearOperator", (.attr "self" "output_shape"), (.attr "self" "input_shape"), (.attr "self" "output_dtype"), (.attr "self" "input_dtype"), []⟩ := by decide +kernel
theorem r_linop_H_0 : ctorRow model "linop" "H" 0 = some ⟨"linop", "H", 0, "LinearOperator", (.attr "self" "output_shape"), (.attr "self" "input_shape"), (.attr "self" "output_dtype"), (.attr "self" "input_dtype"), []⟩ := by decide +kernel
theorem r_linop_conj_0 : ctorRow model "linop" "conj" 0 = some ⟨"linop", "conj", 0, "LinearOperator", (.attr "self" "input_shape"), (.attr "self" "output_shape"), (.attr "self" "input_dtype"), (.attr "self" "output_dtype"), []⟩ := by decide +kernel
theorem r_linop_gram_op_0 : ctorRow model "linop" "gram_op" 0 = some ⟨"linop", "gram_op", 0, "LinearOperator", (.attr "self" "input_shape"), (.attr "self" "input_shape"), (.attr "self" "input_dtype"), (.attr "self" "input_dtype"), []⟩ := by decide +kernel
theorem r_composed_init_0 : ctorRow model "composed" "__init__" 0 = some ⟨"composed", "__init__", 0, "super().__init__", (.attr "self.B" "input_shape"), (.attr "self.A" "output_shape"), (.attr "self.B" "input_dtype"), (.attr "self.A" "output_dtype"), []⟩ := by decide +kernel

theorem row_linAddSub (sub : Bool) (a b : Obj α) :
    RowGives (ctorRow model "linop" (if sub then "__sub__" else "__add__") 0) a.md b.md .wFloat (linAddSub sub a b).md := by
  cases sub
  · exact ⟨_, r_linop_add_0, by simp [semSh, linAddSub, mkLin], by simp [semSh, linAddSub, mkLin], by simp [semDt, linAddSub, mkLin],
      by simp [semDt, linAddSub, mkLin, bind, Option.bind]⟩
  · exact ⟨_, r_linop_sub_0, by simp [semSh, linAddSub, mkLin], by simp [semSh, linAddSub, mkLin], by simp [semDt, linAddSub, mkLin],
      by simp [semDt, linAddSub, mkLin, bind, Option.bind]⟩

theorem row_opAddSub (sub : Bool) (a b o : Obj α) (h : opAddSub sub a b = .ok o) :
    RowGives (ctorRow model "op" (if sub then "__sub__" else "__add__") 0) a.md b.md .wFloat o.md := by
  unfold opAddSub at h
  split at h
  · injection h with h; subst h
    cases sub
    · exact ⟨_, r_op_add_0, by simp [semSh, mkOp], by simp [semSh, mkOp], by simp [semDt, mkOp], by simp [semDt, mkOp, bind, Option.bind]⟩
    · exact ⟨_, r_op_sub_0, by simp [semSh, mkOp], by simp [semSh, mkOp], by simp [semDt, mkOp], by simp [semDt, mkOp, bind, Option.bind]⟩
  · cases h

theorem row_opComp (a b o : Obj α) (h : opComp Cfg.fixed a b = .ok o) :
    RowGives (ctorRow model "op" "__call__" 0) a.md b.md .wFloat o.md := by
  unfold opComp at h
  split at h
  · injection h with h; subst h
    exact ⟨_, r_op_call_0, by simp [semSh, mkOp], by simp [semSh, mkOp], by simp [semDt, mkOp, Cfg.fixed], by simp [semDt, mkOp, Cfg.fixed]⟩
  · cases h

theorem row_linComp (a b o : Obj α) (h : linComp a b = .ok o) :
    RowGives (ctorRow model "composed" "__init__" 0) a.md b.md .wFloat o.md := by
  unfold linComp at h
  split at h
  · cases h
  · split at h
    · cases h
    · injection h with h; subst h
      exact ⟨_, r_composed_init_0, by simp [semSh, mkLin], by simp [semSh, mkLin], by simp [semDt, mkLin], by simp [semDt, mkLin]⟩

theorem row_linMul (a o : Obj α) (c : Scal α) (h : linMul a c = .ok o) :
    RowGives (ctorRow model "linop" "__mul__" 0) a.md a.md c.kind.sk o.md := by
  unfold linMul at h
  split at h
  · injection h with h; subst h
    exact ⟨_, r_linop_mul_0, by simp [semSh, mkLin], by simp [semSh, mkLin], by simp [semDt, mkLin], by simp [semDt, mkLin]⟩
  · cases h

theorem row_linDiv (a o : Obj α) (c : Scal α) (h : linDiv a c = .ok o) :
    RowGives (ctorRow model "linop" "__truediv__" 0) a.md a.md c.kind.sk o.md := by
  unfold linDiv at h
  split at h
  · injection h with h; subst h
    exact ⟨_, r_linop_truediv_0, by simp [semSh, mkLin], by simp [semSh, mkLin], by simp [semDt, mkLin], by simp [semDt, mkLin]⟩
  · cases h

theorem row_opMul (a o : Obj α) (c : Scal α) (h : opMul a c = .ok o) :
    RowGives (ctorRow model "op" "__mul__" 0) a.md a.md c.kind.sk o.md
    ∧ RowGives (ctorRow model "op" "__rmul__" 0) a.md a.md c.kind.sk o.md := by
  unfold opMul at h
  split at h
  · injection h with h; subst h
    exact ⟨⟨_, r_op_mul_0, by simp [semSh, mkOp], by simp [semSh, mkOp], by simp [semDt, mkOp], by simp [semDt, mkOp]⟩,
      ⟨_, r_op_rmul_0, by simp [semSh, mkOp], by simp [semSh, mkOp], by simp [semDt, mkOp], by simp [semDt, mkOp]⟩⟩
  · cases h

theorem row_opDiv (a o : Obj α) (c : Scal α) (h : opDiv a c = .ok o) :
    RowGives (ctorRow model "op" "__truediv__" 0) a.md a.md c.kind.sk o.md := by
  unfold opDiv at h
  split at h
  · injection h with h; subst h
    exact ⟨_, r_op_truediv_0, by simp [semSh, mkOp], by simp [semSh, mkOp], by simp [semDt, mkOp], by simp [semDt, mkOp]⟩
  · cases h

/-- `LinearOperator.T` (both `return` statements: the complex and the real branch), `.H`, `.conj()`, `.gram_op` -/
theorem row_views (a : Obj α) :
    RowGives (ctorRow model "linop" "T" 0) a.md a.md .wFloat (linT a).md
    ∧ RowGives (ctorRow model "linop" "T" 1) a.md a.md .wFloat (linT a).md
    ∧ RowGives (ctorRow model "linop" "H" 0) a.md a.md .wFloat (linH a).md
    ∧ RowGives (ctorRow model "linop" "conj" 0) a.md a.md .wFloat (linConj a).md
    ∧ RowGives (ctorRow model "linop" "gram_op" 0) a.md a.md .wFloat (linGram Cfg.fixed a).md := by
  refine ⟨?_, ?_, ⟨_, r_linop_H_0, by simp [semSh, linH, mkLin], by simp [semSh, linH, mkLin], by simp [semDt, linH, mkLin], by simp [semDt, linH, mkLin]⟩,
    ⟨_, r_linop_conj_0, by simp [semSh, linConj, mkLin], by simp [semSh, linConj, mkLin], by simp [semDt, linConj, mkLin], by simp [semDt, linConj, mkLin]⟩,
    ⟨_, r_linop_gram_op_0, by simp [semSh, linGram, mkLin], by simp [semSh, linGram, mkLin], by simp [semDt, linGram, mkLin], by simp [semDt, linGram, mkLin, Cfg.fixed]⟩⟩
  · unfold linT; split <;>
      exact ⟨_, r_linop_T_0, by simp [semSh, mkLin], by simp [semSh, mkLin], by simp [semDt, mkLin], by simp [semDt, mkLin]⟩
  · unfold linT; split <;>
      exact ⟨_, r_linop_T_1, by simp [semSh, mkLin], by simp [semSh, mkLin], by simp [semDt, mkLin], by simp [semDt, mkLin]⟩


/-! ### `Diagonal` closed forms: which `input_shape` / `input_dtype` the rebuilt `Diagonal` receives -/

theorem r_diag_conj_0 : ctorRow model "diag" "conj" 0 = some ⟨"diag", "conj", 0, "Diagonal", (.attr "self" "input_shape"), .absent, (.attr "self" "input_dtype"), .absent, [("diagonal", "self.diagonal.conj()")]⟩ := by decide +kernel
theorem r_diag_gram_op_0 : ctorRow model "diag" "gram_op" 0 = some ⟨"diag", "gram_op", 0, "Diagonal", (.attr "self" "input_shape"), .absent, (.attr "self" "input_dtype"), .absent, [("diagonal", "self.diagonal.conj() * self.diagonal")]⟩ := by decide +kernel
theorem r_diag_add_0 : ctorRow model "diag" "__add__" 0 = some ⟨"diag", "__add__", 0, "Diagonal", (.attr "self" "input_shape"), .absent, .absent, .absent, [("diagonal", "self.diagonal + other.diagonal")]⟩ := by decide +kernel
theorem r_diag_sub_0 : ctorRow model "diag" "__sub__" 0 = some ⟨"diag", "__sub__", 0, "Diagonal", (.attr "self" "input_shape"), .absent, .absent, .absent, [("diagonal", "self.diagonal - other.diagonal")]⟩ := by decide +kernel
theorem r_diag_mul_0 : ctorRow model "diag" "__mul__" 0 = some ⟨"diag", "__mul__", 0, "Diagonal", (.attr "self" "input_shape"), .absent, .absent, .absent, [("diagonal", "self.diagonal * scalar")]⟩ := by decide +kernel
theorem r_diag_truediv_0 : ctorRow model "diag" "__truediv__" 0 = some ⟨"diag", "__truediv__", 0, "Diagonal", (.attr "self" "input_shape"), .absent, .absent, .absent, [("diagonal", "self.diagonal / scalar")]⟩ := by decide +kernel
theorem r_diag_matmul_0 : ctorRow model "diag" "__matmul__" 0 = some ⟨"diag", "__matmul__", 0, "Diagonal", (.attr "other" "input_shape"), .absent, .absent, .absent, [("diagonal", "self.diagonal * other.diagonal")]⟩ := by decide +kernel
theorem r_scaledId_matmul_1 : ctorRow model "scaledId" "__matmul__" 1 = some ⟨"scaledId", "__matmul__", 1, "Diagonal", (.attr "other" "input_shape"), .absent, .absent, .absent, [("diagonal", "self._diagonal * other.diagonal")]⟩ := by decide +kernel

/-- the `input_shape=` argument of a rebuilt `Diagonal` -/
def shArg (self other : Meta) : SE → Option Shape
  | .attr o f => if f = "input_shape" then (if o = "self" then some self.inShape else if o = "other" then some other.inShape else none) else none
  | _ => none

/-- the `input_dtype=` argument of a rebuilt `Diagonal`: absent (the default: the dtype of the new diagonal) or the
    operand's input dtype -/
def dtArg (self : Meta) : SE → Option (Option DT)
  | .absent => some none
  | .attr o f => if o = "self" ∧ f = "input_dtype" then some (some self.inDt) else none
  | _ => none

/-- `Diagonal.__add__/__sub__/__mul__/__truediv__/__matmul__` rebuild the `Diagonal` on `self.input_shape`
    (`other.input_shape` for `@`) with NO `input_dtype`; `conj` / `gram_op` forward `self.input_dtype` — exactly the
    arguments `rediag` receives in the model -/
theorem diag_rows_used (cfg : Cfg) (sub : Bool) (a b : Obj α) (c : Scal α) :
    (∃ row, ctorRow model "diag" (if sub then "__sub__" else "__add__") 0 = some row
      ∧ shArg a.md b.md row.inSh = some a.md.inShape ∧ dtArg a.md row.inDt = some none
      ∧ diagAddSub cfg sub a b = (if a.diagonal.2.1 = b.diagonal.2.1 then
          rediag cfg (fun i => pm sub (a.diagonal.1.get i) (b.diagonal.1.get i)) a.diagonal.2.1
            (resultType a.diagonal.2.2 b.diagonal.2.2) a.md.inShape none else .error .shape))
    ∧ (∃ row, ctorRow model "diag" "__mul__" 0 = some row
      ∧ shArg a.md b.md row.inSh = some a.md.inShape ∧ dtArg a.md row.inDt = some none
      ∧ (c.kind.isScalarEquiv = true → diagMul cfg a c =
          rediag cfg (fun i => a.diagonal.1.get i * c.val) a.diagonal.2.1 (resultTypeS a.diagonal.2.2 c.kind.sk) a.md.inShape none))
    ∧ (∃ row, ctorRow model "diag" "__truediv__" 0 = some row
      ∧ shArg a.md b.md row.inSh = some a.md.inShape ∧ dtArg a.md row.inDt = some none
      ∧ (c.kind.isScalarEquiv = true → diagDiv cfg a c =
          rediag cfg (fun i => a.diagonal.1.get i / c.val) a.diagonal.2.1 (resultTypeS a.diagonal.2.2 c.kind.sk) a.md.inShape none))
    ∧ (∃ row, ctorRow model "diag" "conj" 0 = some row
      ∧ shArg a.md b.md row.inSh = some a.md.inShape ∧ dtArg a.md row.inDt = some (some a.md.inDt)
      ∧ (a.md.cls = .diag → diagConj cfg a =
          rediag cfg (fun i => conj (a.diagonal.1.get i)) a.diagonal.2.1 a.diagonal.2.2 a.md.inShape (some a.md.inDt)))
    ∧ (∃ row, ctorRow model "diag" "gram_op" 0 = some row
      ∧ shArg a.md b.md row.inSh = some a.md.inShape ∧ dtArg a.md row.inDt = some (some a.md.inDt))
    ∧ (∃ row, ctorRow model "diag" "__matmul__" 0 = some row
      ∧ shArg a.md b.md row.inSh = some b.md.inShape ∧ dtArg a.md row.inDt = some none)
    ∧ (∃ row, ctorRow model "scaledId" "__matmul__" 1 = some row
      ∧ shArg a.md b.md row.inSh = some b.md.inShape ∧ dtArg a.md row.inDt = some none) := by
  refine ⟨?_, ⟨_, r_diag_mul_0, by simp [shArg], by simp [dtArg], ?_⟩, ⟨_, r_diag_truediv_0, by simp [shArg], by simp [dtArg], ?_⟩,
    ⟨_, r_diag_conj_0, by simp [shArg], by simp [dtArg], ?_⟩, ⟨_, r_diag_gram_op_0, by simp [shArg], by simp [dtArg]⟩,
    ⟨_, r_diag_matmul_0, by simp [shArg], by simp [dtArg]⟩, ⟨_, r_scaledId_matmul_1, by simp [shArg], by simp [dtArg]⟩⟩
  · cases sub
    · exact ⟨_, r_diag_add_0, by simp [shArg], by simp [dtArg], rfl⟩
    · exact ⟨_, r_diag_sub_0, by simp [shArg], by simp [dtArg], rfl⟩
  · intro hc; unfold diagMul; simp only [hc, if_true]
  · intro hc; unfold diagDiv; simp only [hc, if_true]
  · intro hc; unfold diagConj; simp only [hc]

end

end Scico.OpAlg.Tables
