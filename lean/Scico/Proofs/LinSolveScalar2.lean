/-
  Round 2 additions for the vectorised scalar solvers of `Scico.Model.LinSolve` (C14):

  * lane independence: what bisection / golden-section search do to lane `i` is a function of `(f i, a₀ i, b₀ i)` and
    the number of loop bodies only — the other lanes (converged or not) influence nothing but the common stopping test;
  * `golden` with a user-supplied first interior point `c`: correct for `a < c < a + gr (b − a)`; a machine-checked
    counterexample for `c` beyond `d` (recorded finding `golden-c-beyond-d`).
-/
import Scico.Proofs.LinSolveScalar

set_option linter.unusedSectionVars false

namespace Scico.LinSolve

variable {K : Type} [Field K] [LinearOrder K] [IsStrictOrderedRing K] [Inhabited K]

/-! ## lane independence -/

/-- lane `i` of one vectorised run and lane `j` of another carry the same bracket data -/
def BisectLaneEq {n m : Nat} (s : BisectSt K n) (t : BisectSt K m) (i : Fin n) (j : Fin m) : Prop :=
  s.a i = t.a j ∧ s.b i = t.b j ∧ s.fa i = t.fa j ∧ s.fb i = t.fb j

theorem bisectStep_lane {n m : Nat} (f : Fin n → K → K) (g : Fin m → K → K) (s : BisectSt K n) (t : BisectSt K m)
    (i : Fin n) (j : Fin m) (hfg : f i = g j) (h : BisectLaneEq s t i j) :
    BisectLaneEq (bisectStep f s) (bisectStep g t) i j := by
  obtain ⟨a1, b1, fa1, fb1, _⟩ := bisectStep_elem f s i
  obtain ⟨a2, b2, fa2, fb2, _⟩ := bisectStep_elem g t j
  obtain ⟨ha, hb, hfa, hfb⟩ := h
  have ea : (bisectStep f s).a i = (bisectStep g t).a j := by
    rw [a1, a2, ha, hb, hfa, hfg]
  have eb : (bisectStep f s).b i = (bisectStep g t).b j := by
    rw [b1, b2, ha, hb, hfb, hfg]
  exact ⟨ea, eb, by rw [fa1, fa2, ea, hfg], by rw [fb1, fb2, eb, hfg]⟩

/-- **bisection lanes are independent**: two vectorised runs (of any widths, with any other lanes) that agree on one
    lane's function and initial bracket agree on that lane's bracket after every number of loop bodies -/
theorem bisect_lane_independent {n m : Nat} (f : Fin n → K → K) (g : Fin m → K → K) (a0 b0 : Vec K n) (a0' b0' : Vec K m)
    (i : Fin n) (j : Fin m) (hfg : f i = g j) (ha : a0 i = a0' j) (hb : b0 i = b0' j) (k : Nat) :
    BisectLaneEq ((bisectStep f)^[k] (bisectInit f a0 b0)) ((bisectStep g)^[k] (bisectInit g a0' b0')) i j := by
  induction k with
  | zero => exact ⟨ha, hb, by simp [bisectInit, ha, hfg], by simp [bisectInit, hb, hfg]⟩
  | succ k ih =>
    rw [Function.iterate_succ_apply', Function.iterate_succ_apply']
    exact bisectStep_lane f g _ _ i j hfg ih

def GoldLaneEq {n m : Nat} (s : GoldSt K n) (t : GoldSt K m) (i : Fin n) (j : Fin m) : Prop :=
  s.a i = t.a j ∧ s.b i = t.b j ∧ s.c i = t.c j ∧ s.d i = t.d j

theorem goldBody_lane {n m : Nat} (gr : K) (f : Fin n → K → K) (g : Fin m → K → K) (s : GoldSt K n) (t : GoldSt K m)
    (i : Fin n) (j : Fin m) (hfg : f i = g j) (h : GoldLaneEq s t i j) :
    GoldLaneEq (goldPoints gr (goldShrink f s)) (goldPoints gr (goldShrink g t)) i j := by
  obtain ⟨a1, b1, _, _⟩ := goldShrink_elem f s i
  obtain ⟨a2, b2, _, _⟩ := goldShrink_elem g t j
  obtain ⟨p1, p2, p3, p4, _⟩ := goldPoints_elem gr (goldShrink f s) i
  obtain ⟨q1, q2, q3, q4, _⟩ := goldPoints_elem gr (goldShrink g t) j
  obtain ⟨ha, hb, hc, hd⟩ := h
  have ea : (goldShrink f s).a i = (goldShrink g t).a j := by rw [a1, a2, ha, hc, hd, hfg]
  have eb : (goldShrink f s).b i = (goldShrink g t).b j := by rw [b1, b2, hb, hc, hd, hfg]
  exact ⟨by rw [p1, q1, ea], by rw [p2, q2, eb], by rw [p3, q3, ea, eb], by rw [p4, q4, ea, eb]⟩

/-- **golden-section lanes are independent** (same statement as for bisection; `c` optional) -/
theorem golden_lane_independent {n m : Nat} (gr : K) (f : Fin n → K → K) (g : Fin m → K → K) (a0 b0 : Vec K n)
    (a0' b0' : Vec K m) (c : Option (Vec K n)) (c' : Option (Vec K m)) (i : Fin n) (j : Fin m) (hfg : f i = g j)
    (ha : a0 i = a0' j) (hb : b0 i = b0' j)
    (hc : (goldInit gr a0 b0 c).c i = (goldInit gr a0' b0' c').c j) (k : Nat) :
    GoldLaneEq ((fun s => goldPoints gr (goldShrink f s))^[k] (goldInit gr a0 b0 c))
      ((fun s => goldPoints gr (goldShrink g s))^[k] (goldInit gr a0' b0' c')) i j := by
  induction k with
  | zero => exact ⟨ha, hb, hc, by simp [goldInit, ha, hb]⟩
  | succ k ih =>
    rw [Function.iterate_succ_apply', Function.iterate_succ_apply']
    exact goldBody_lane gr f g _ _ i j hfg ih

/-! ## `golden` with a supplied interior point `c` -/

/-- a shrink from *any* two interior points `a < c < d < b` keeps the minimiser and yields `[a, d]` or `[c, b]` -/
theorem goldShrink_pre {n : Nat} (f : Fin n → K → K) (s : GoldSt K n) (i : Fin n) (a0 b0 xs : K)
    (hu : Unimodal (f i) a0 b0 xs) (lo : a0 ≤ s.a i) (hi : s.b i ≤ b0) (hac : s.a i < s.c i) (hcd : s.c i < s.d i)
    (hdb : s.d i < s.b i) (xa : s.a i ≤ xs) (xb : xs ≤ s.b i) :
    let s' := goldShrink f s
    a0 ≤ s'.a i ∧ s'.b i ≤ b0 ∧ s'.a i < s'.b i ∧ s'.a i ≤ xs ∧ xs ≤ s'.b i ∧
      ((s'.a i = s.a i ∧ s'.b i = s.d i) ∨ (s'.a i = s.c i ∧ s'.b i = s.b i)) := by
  obtain ⟨ea, eb, _, _⟩ := goldShrink_elem f s i
  intro s'
  show a0 ≤ (goldShrink f s).a i ∧ (goldShrink f s).b i ≤ b0 ∧ (goldShrink f s).a i < (goldShrink f s).b i ∧
    (goldShrink f s).a i ≤ xs ∧ xs ≤ (goldShrink f s).b i ∧
    (((goldShrink f s).a i = s.a i ∧ (goldShrink f s).b i = s.d i) ∨ ((goldShrink f s).a i = s.c i ∧ (goldShrink f s).b i = s.b i))
  rw [ea, eb]
  by_cases hlt : f i (s.c i) < f i (s.d i)
  · have hx : xs ≤ s.d i := by
      by_contra hcon
      have := hu.dec (s.c i) (s.d i) (by linarith) hcd (not_le.1 hcon).le
      linarith
    simp only [hlt, not_le.2 hlt, if_true, if_false]
    exact ⟨lo, by linarith, by linarith, xa, hx, by simp⟩
  · have hx : s.c i ≤ xs := by
      by_contra hcon
      have := hu.inc (s.c i) (s.d i) (not_le.1 hcon).le hcd (by linarith)
      exact hlt this
    simp only [hlt, not_lt.1 hlt, if_true, if_false]
    exact ⟨by linarith, hi, by linarith, hx, xb, by simp⟩

/-- after the first full body, started from any interior points `a₀ < c < d < b₀`, the golden invariant holds with the
    width `w₁ ∈ {d − a₀, b₀ − c}` of the first shrink -/
theorem goldFirst_inv {n : Nat} (gr : K) (f : Fin n → K → K) (s0 : GoldSt K n) (i : Fin n) (xs : K)
    (hu : Unimodal (f i) (s0.a i) (s0.b i) xs) (hac : s0.a i < s0.c i) (hcd : s0.c i < s0.d i) (hdb : s0.d i < s0.b i) :
    ∃ w1, (w1 = s0.d i - s0.a i ∨ w1 = s0.b i - s0.c i) ∧
      (let s' := goldShrink f s0
       s0.a i ≤ s'.a i ∧ s'.b i ≤ s0.b i ∧ s'.a i ≤ xs ∧ xs ≤ s'.b i ∧ s'.b i - s'.a i = w1) ∧
      GoldInv gr (f i) (s0.a i) (s0.b i) xs w1
        ((goldPoints gr (goldShrink f s0)).a i) ((goldPoints gr (goldShrink f s0)).b i)
        ((goldPoints gr (goldShrink f s0)).c i) ((goldPoints gr (goldShrink f s0)).d i) := by
  obtain ⟨q1, q2, q3, q4, q5, q6⟩ := goldShrink_pre f s0 i (s0.a i) (s0.b i) xs hu le_rfl le_rfl hac hcd hdb hu.mem_lo hu.mem_hi
  obtain ⟨p1, p2, p3, p4, _⟩ := goldPoints_elem gr (goldShrink f s0) i
  refine ⟨(goldShrink f s0).b i - (goldShrink f s0).a i, ?_, ?_, ?_⟩
  · rcases q6 with ⟨e1, e2⟩ | ⟨e1, e2⟩
    · left; rw [e1, e2]
    · right; rw [e1, e2]
  · exact ⟨q1, q2, q4, q5, rfl⟩
  · rw [p1, p2, p3, p4]
    exact ⟨q1, q2, q3, rfl, rfl, q4, q5, rfl⟩

/-- iterating the full body from a state with the golden invariant -/
theorem gold_iterate_from {n : Nat} (gr : K) (hg1 : 1 / 2 < gr) (hg2 : gr < 1) (f : Fin n → K → K) (s : GoldSt K n)
    (i : Fin n) (a0 b0 xs w : K) (hu : Unimodal (f i) a0 b0 xs)
    (h : GoldInv gr (f i) a0 b0 xs w (s.a i) (s.b i) (s.c i) (s.d i)) (k : Nat) :
    let t := (fun s => goldPoints gr (goldShrink f s))^[k] s
    GoldInv gr (f i) a0 b0 xs (gr ^ k * w) (t.a i) (t.b i) (t.c i) (t.d i) := by
  induction k with
  | zero => simpa using h
  | succ k ih =>
    simp only [Function.iterate_succ_apply'] at ih ⊢
    have := goldIter_inv gr hg1 hg2 f _ i a0 b0 xs _ hu ih
    rw [pow_succ, mul_comm (gr ^ k) gr, mul_assoc]
    exact this

/-- **the golden loop from any ordered interior points** `a₀ < c < d < b₀` (lane `i`), all iteration counts -/
theorem goldLoop_pre_spec {n : Nat} (gr : K) (hg1 : 1 / 2 < gr) (hg2 : gr < 1) (f : Fin n → K → K) (s0 : GoldSt K n)
    (xtol : K) (maxiter : Nat) (hmax : 0 < maxiter) (i : Fin n) (xs : K)
    (hu : Unimodal (f i) (s0.a i) (s0.b i) xs) (hac : s0.a i < s0.c i) (hcd : s0.c i < s0.d i) (hdb : s0.d i < s0.b i) :
    let s := goldLoop gr f xtol maxiter s0
    let x := goldPick f s
    ∃ k w1, k < maxiter ∧ (w1 = s0.d i - s0.a i ∨ w1 = s0.b i - s0.c i) ∧
      s0.a i ≤ s.a i ∧ s.a i ≤ xs ∧ xs ≤ s.b i ∧ s.b i ≤ s0.b i ∧
      s.b i - s.a i = gr ^ k * w1 ∧
      (x i = s.a i ∨ x i = s.b i) ∧ |x i - xs| ≤ gr ^ k * w1 ∧
      (k + 1 = maxiter ∨ (s.xerr ≤ xtol ∧ |x i - xs| ≤ xtol)) := by
  intro s x
  obtain ⟨k, hk, ea, eb, ex, hexit⟩ := goldLoop_iterate gr f xtol maxiter s0 hmax
  obtain ⟨w1, hw1, hfirst, hinv1⟩ := goldFirst_inv gr f s0 i xs hu hac hcd hdb
  have hA : s.a i = (goldShrink f ((fun s => goldPoints gr (goldShrink f s))^[k] s0)).a i := congrFun ea i
  have hB : s.b i = (goldShrink f ((fun s => goldPoints gr (goldShrink f s))^[k] s0)).b i := congrFun eb i
  have hfin : s0.a i ≤ s.a i ∧ s.b i ≤ s0.b i ∧ s.a i ≤ xs ∧ xs ≤ s.b i ∧ s.b i - s.a i = gr ^ k * w1 := by
    rw [hA, hB]
    cases k with
    | zero =>
      obtain ⟨r1, r2, r3, r4, r5⟩ := hfirst
      simpa using ⟨r1, r2, r3, r4, r5⟩
    | succ k =>
      rw [Function.iterate_succ_apply]
      have hI := gold_iterate_from gr hg1 hg2 f _ i (s0.a i) (s0.b i) xs w1 hu hinv1 k
      obtain ⟨q1, q2, _, _, _, q6, q7, q8⟩ := goldShrink_inv gr hg1 hg2 f _ i (s0.a i) (s0.b i) xs _ hu hI
      refine ⟨q1, q2, q6, q7, ?_⟩
      rw [q8, pow_succ]; ring
  obtain ⟨f1, f2, f3, f4, f5⟩ := hfin
  have hpick : x i = s.a i ∨ x i = s.b i := goldPick_mem f s i
  have hdist : |x i - xs| ≤ s.b i - s.a i := by
    rcases hpick with e | e <;> rw [e, abs_le] <;> constructor <;> linarith
  refine ⟨k, w1, hk, hw1, f1, f3, f4, f2, f5, hpick, by rw [← f5]; exact hdist, ?_⟩
  rcases hexit with h | h
  · exact Or.inl h
  · right
    refine ⟨h, le_trans hdist ?_⟩
    have hxerr : |s.b i - s.a i| ≤ s.xerr := by
      have e4 := (goldShrink_elem f ((fun s => goldPoints gr (goldShrink f s))^[k] s0) i).2.2.2
      rw [show s.xerr = _ from ex, e4, hA, hB]
      exact le_vmaxAbs (fun j => (goldShrink f _).b j - (goldShrink f _).a j) i
    exact le_trans (le_trans (le_abs_self _) hxerr) h

/-- **`golden` with `c` given, `a₀ < c < d₀ = a₀ + gr (b₀ − a₀)`** — all iteration counts: there are `k < maxiter` and
    `w₁ ∈ {gr (b₀ − a₀), b₀ − c}` with final bracket inside `[a₀, b₀]`, containing the minimiser, of width `gr^k w₁`;
    the returned end point is within that of the minimiser, and within `xtol` when the loop stopped early. -/
theorem golden_c_spec {n : Nat} (gr : K) (hg1 : 1 / 2 < gr) (hg2 : gr < 1) (f : Fin n → K → K) (a0 b0 c : Vec K n)
    (xtol : K) (maxiter : Nat) (hmax : 0 < maxiter) (i : Fin n) (xs : K) (hab : a0 i < b0 i)
    (hu : Unimodal (f i) (a0 i) (b0 i) xs) (hc1 : a0 i < c i) (hc2 : c i < a0 i + gr * (b0 i - a0 i)) :
    let out := golden gr f a0 b0 (some c) xtol maxiter
    ∃ k w1, k < maxiter ∧ (w1 = gr * (b0 i - a0 i) ∨ w1 = b0 i - c i) ∧
      a0 i ≤ out.2.a i ∧ out.2.a i ≤ xs ∧ xs ≤ out.2.b i ∧ out.2.b i ≤ b0 i ∧
      out.2.b i - out.2.a i = gr ^ k * w1 ∧
      (out.1 i = out.2.a i ∨ out.1 i = out.2.b i) ∧ |out.1 i - xs| ≤ gr ^ k * w1 ∧
      (k + 1 = maxiter ∨ (out.2.xerr ≤ xtol ∧ |out.1 i - xs| ≤ xtol)) := by
  intro out
  have hpos : 0 < b0 i - a0 i := sub_pos.2 hab
  have hdb : a0 i + gr * (b0 i - a0 i) < b0 i := by nlinarith
  obtain ⟨k, w1, hk, hw, r⟩ := goldLoop_pre_spec gr hg1 hg2 f (goldInit gr a0 b0 (some c)) xtol maxiter hmax i xs
    (by simpa [goldInit] using hu) (by simpa [goldInit] using hc1) (by simpa [goldInit] using hc2) (by simpa [goldInit] using hdb)
  refine ⟨k, w1, hk, ?_, r⟩
  rcases hw with h | h
  · left; rw [h]; simp [goldInit]
  · right; rw [h]; simp [goldInit]

/-- **`golden` after `fixes/golden-c-beyond-d.patch`** (`goldenSorted`): for *every* supplied `c` strictly inside
    `(a₀, b₀)` — the documented requirement — the guarantees of `C14_golden` hold: final bracket inside `[a₀, b₀]`, containing
    the minimiser, of width `gr^k w₁` with `w₁ < b₀ − a₀`; returned point within that of the minimiser (within `xtol` when
    stopped early). -/
theorem goldenSorted_spec {n : Nat} (gr : K) (hg1 : 1 / 2 < gr) (hg2 : gr < 1) (f : Fin n → K → K) (a0 b0 c : Vec K n)
    (xtol : K) (maxiter : Nat) (hmax : 0 < maxiter) (i : Fin n) (xs : K) (hab : a0 i < b0 i)
    (hu : Unimodal (f i) (a0 i) (b0 i) xs) (hc1 : a0 i < c i) (hc2 : c i < b0 i) :
    let out := goldenSorted gr f a0 b0 (some c) xtol maxiter
    ∃ k w1, k < maxiter ∧ 0 < w1 ∧ w1 < b0 i - a0 i ∧
      a0 i ≤ out.2.a i ∧ out.2.a i ≤ xs ∧ xs ≤ out.2.b i ∧ out.2.b i ≤ b0 i ∧
      out.2.b i - out.2.a i = gr ^ k * w1 ∧
      (out.1 i = out.2.a i ∨ out.1 i = out.2.b i) ∧ |out.1 i - xs| ≤ gr ^ k * w1 ∧
      (k + 1 = maxiter ∨ (out.2.xerr ≤ xtol ∧ |out.1 i - xs| ≤ xtol)) := by
  intro out
  have hpos : 0 < b0 i - a0 i := sub_pos.2 hab
  have hg0 : 0 < gr := by linarith [show (0 : K) < 1 / 2 by norm_num]
  have hd0a : a0 i < a0 i + gr * (b0 i - a0 i) := by nlinarith
  have hd0b : a0 i + gr * (b0 i - a0 i) < b0 i := by nlinarith
  have hc0 : b0 i - gr * (b0 i - a0 i) < a0 i + gr * (b0 i - a0 i) := by nlinarith
  have hc0a : a0 i < b0 i - gr * (b0 i - a0 i) := by nlinarith
  -- the ordered interior points
  have hpre : (goldInitSorted gr a0 b0 (some c)).a i = a0 i ∧ (goldInitSorted gr a0 b0 (some c)).b i = b0 i ∧
      a0 i < (goldInitSorted gr a0 b0 (some c)).c i ∧ (goldInitSorted gr a0 b0 (some c)).c i < (goldInitSorted gr a0 b0 (some c)).d i ∧
      (goldInitSorted gr a0 b0 (some c)).d i < b0 i := by
    refine ⟨rfl, rfl, ?_⟩
    by_cases h1 : c i < a0 i + gr * (b0 i - a0 i)
    · have ec : (goldInitSorted gr a0 b0 (some c)).c i = c i := by simp [goldInitSorted, h1]
      have ed : (goldInitSorted gr a0 b0 (some c)).d i = a0 i + gr * (b0 i - a0 i) := by simp [goldInitSorted, h1]
      rw [ec, ed]
      exact ⟨hc1, h1, hd0b⟩
    · by_cases h2 : a0 i + gr * (b0 i - a0 i) < c i
      · have ec : (goldInitSorted gr a0 b0 (some c)).c i = a0 i + gr * (b0 i - a0 i) := by simp [goldInitSorted, h1, h2]
        have ed : (goldInitSorted gr a0 b0 (some c)).d i = c i := by simp [goldInitSorted, h1, h2]
        rw [ec, ed]
        exact ⟨hd0a, h2, hc2⟩
      · have ec : (goldInitSorted gr a0 b0 (some c)).c i = b0 i - gr * (b0 i - a0 i) := by simp [goldInitSorted, h1, h2]
        have ed : (goldInitSorted gr a0 b0 (some c)).d i = a0 i + gr * (b0 i - a0 i) := by simp [goldInitSorted, h1, h2]
        rw [ec, ed]
        exact ⟨hc0a, hc0, hd0b⟩
  obtain ⟨ea, eb, p1, p2, p3⟩ := hpre
  obtain ⟨k, w1, hk, hw, r1, r2, r3, r4, r5, r6, r7, r8⟩ := goldLoop_pre_spec gr hg1 hg2 f (goldInitSorted gr a0 b0 (some c)) xtol maxiter hmax i xs
    (by rw [ea, eb]; exact hu) (by rw [ea]; exact p1) p2 (by rw [eb]; exact p3)
  rw [ea] at r1
  rw [eb] at r4
  refine ⟨k, w1, hk, ?_, ?_, r1, r2, r3, r4, r5, r6, r7, r8⟩
  · rcases hw with h | h
    · rw [h, ea]; linarith
    · rw [h, eb]; linarith
  · rcases hw with h | h
    · rw [h, ea]; linarith
    · rw [h, eb]; linarith

end Scico.LinSolve
