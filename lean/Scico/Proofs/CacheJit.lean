/-
  Invariant of the `jit` slot state machine of `Scico.Model.Cache` §6 (operators: `_eval`, `_adj`, `_gram`).
-/
import Scico.Model.Cache
import Mathlib.Logic.Basic
import Mathlib.Data.List.Basic

namespace Scico.Cache

/-- invariant of the slots after a history containing `n` calls of `jit()` -/
structure LinOpState.Inv (v : LinOpVariant) (n : Nat) (s : LinOpState) : Prop where
  ev : s.evalDepth = n
  adjOk : s.adj = none ∨ s.adj = some (specAdjSrc v, n)
  gramOk : s.gram = none ∨ s.gram = some n
  jitted : 0 < n → s.adj ≠ none ∧ s.gram ≠ none
  given : v ≠ .plain → s.adj ≠ none

theorem LinOpState.inv_needAdj (v : LinOpVariant) (n : Nat) (s : LinOpState) (h : s.Inv v n) : s.needAdj.Inv v n := by
  unfold LinOpState.needAdj
  cases ha : s.adj with
  | some a => simpa [ha] using h
  | none =>
    have hv : v = .plain := by
      by_contra hv; exact h.given hv ha
    have hn0 : n = 0 := by
      by_contra hn; exact (h.jitted (Nat.pos_of_ne_zero hn)).1 ha
    subst hn0
    exact ⟨h.ev, Or.inr (by simp [hv, specAdjSrc]), h.gramOk, fun h0 => absurd h0 (Nat.lt_irrefl 0), fun _ => by simp⟩

theorem LinOpState.inv_needGram (v : LinOpVariant) (n : Nat) (s : LinOpState) (h : s.Inv v n) : s.needGram.Inv v n := by
  unfold LinOpState.needGram
  cases hg : s.gram with
  | some g => simpa [hg] using h
  | none =>
    have hn0 : n = 0 := by
      by_contra hn; exact (h.jitted (Nat.pos_of_ne_zero hn)).2 hg
    subst hn0
    exact ⟨h.ev, h.adjOk, Or.inr rfl, fun h0 => absurd h0 (Nat.lt_irrefl 0), h.given⟩

theorem LinOpState.needAdj_some (s : LinOpState) : s.needAdj.adj ≠ none := by
  unfold LinOpState.needAdj; cases ha : s.adj <;> simp [ha]

theorem LinOpState.needGram_some (s : LinOpState) : s.needGram.gram ≠ none := by
  unfold LinOpState.needGram; cases hg : s.gram <;> simp [hg]

theorem LinOpState.needGram_adj (s : LinOpState) : s.needGram.adj = s.adj := by
  unfold LinOpState.needGram; cases s.gram <;> rfl

theorem LinOpState.inv_jit (v : LinOpVariant) (n : Nat) (s : LinOpState) (h : s.Inv v n) : s.jit.Inv v (n + 1) := by
  have h2 := LinOpState.inv_needGram v n _ (LinOpState.inv_needAdj v n s h)
  have ha : s.needAdj.needGram.adj = some (specAdjSrc v, n) := by
    rcases h2.adjOk with hno | hs
    · rw [LinOpState.needGram_adj] at hno; exact absurd hno (LinOpState.needAdj_some s)
    · exact hs
  have hg : s.needAdj.needGram.gram = some n := by
    rcases h2.gramOk with hno | hs
    · exact absurd hno (LinOpState.needGram_some _)
    · exact hs
  unfold LinOpState.jit
  refine ⟨by simp [h2.ev], Or.inr (by simp [ha]), Or.inr (by simp [hg]), fun _ => ⟨by simp [ha], by simp [hg]⟩, fun _ => by simp [ha]⟩

theorem LinOpState.inv_init0 (v : LinOpVariant) : (LinOpState.init0 v).Inv v 0 := by
  cases v
  · exact ⟨rfl, Or.inr rfl, Or.inr rfl, fun h => absurd h (Nat.lt_irrefl 0), fun _ => by simp [LinOpState.init0]⟩
  · exact ⟨rfl, Or.inr rfl, Or.inl rfl, fun h => absurd h (Nat.lt_irrefl 0), fun _ => by simp [LinOpState.init0]⟩
  · exact ⟨rfl, Or.inl rfl, Or.inl rfl, fun h => absurd h (Nat.lt_irrefl 0), fun h => absurd rfl h⟩

theorem LinOpState.inv_init (v : LinOpVariant) (jit : Bool) : (LinOpState.init v jit).Inv v (if jit then 1 else 0) := by
  unfold LinOpState.init
  cases jit
  · simpa using LinOpState.inv_init0 v
  · simpa using LinOpState.inv_jit v 0 _ (LinOpState.inv_init0 v)

theorem LinOpState.inv_step (v : LinOpVariant) (n : Nat) (s : LinOpState) (h : s.Inv v n) (o : LinOpOp) :
    (s.step o).Inv v (n + if o = .jit then 1 else 0) := by
  cases o with
  | jit => simpa [LinOpState.step] using LinOpState.inv_jit v n s h
  | call => simpa [LinOpState.step] using h
  | adj => simpa [LinOpState.step] using LinOpState.inv_needAdj v n s h
  | gram => simpa [LinOpState.step] using LinOpState.inv_needAdj v n _ (LinOpState.inv_needGram v n s h)
  | gramOp => simpa [LinOpState.step] using LinOpState.inv_needGram v n s h

theorem LinOpState.inv_run (v : LinOpVariant) (ops : List LinOpOp) :
    ∀ (n : Nat) (s : LinOpState), s.Inv v n → (s.run ops).Inv v (n + (ops.filter (· == .jit)).length) := by
  induction ops with
  | nil => intro n s h; simpa [LinOpState.run] using h
  | cons o os ih =>
    intro n s h
    have h1 := LinOpState.inv_step v n s h o
    have h2 := ih _ _ h1
    simp only [LinOpState.run]
    by_cases ho : o = .jit
    · subst ho
      simp only [if_true] at h2
      simpa [List.filter, Nat.add_assoc, Nat.add_comm 1] using h2
    · have hb : (o == LinOpOp.jit) = false := by simpa using ho
      simp only [ho, if_false, Nat.add_zero] at h2
      simpa [List.filter, hb] using h2

theorem LinOpState.jit_specOwn (n : Nat) : (specOwnSlots n).jit = specOwnSlots (n + 1) := by
  cases n with
  | zero => rfl
  | succ n => simp [specOwnSlots, LinOpState.jit, LinOpState.needAdj, LinOpState.needGram]

theorem LinOpState.runOwn_spec (ops : List LinOpOp) :
    ∀ n, (specOwnSlots n).runOwn ops = specOwnSlots (n + (ops.filter (· == .jit)).length) := by
  induction ops with
  | nil => intro n; rfl
  | cons o os ih =>
    intro n
    cases o
    · have hb : (LinOpOp.jit == LinOpOp.jit) = true := by decide
      simp only [LinOpState.runOwn, LinOpState.stepOwn, LinOpState.jit_specOwn, ih, List.filter_cons, hb, if_true, List.length_cons]
      congr 1; omega
    all_goals
      simp only [LinOpState.runOwn, LinOpState.stepOwn, ih]
      congr 1

end Scico.Cache
