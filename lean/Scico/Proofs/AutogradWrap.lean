/-
  C07: the conjugating wrappers (`scico.grad`, `Operator.vjp`, `cvjp`, `linop.jacobian`,
  `linear_adjoint`), the exact quadratic expansion of the weighted squared-l2 loss, the
  argument plumbing of `Function`/`partial`, and the `Loss` copy/re-bind machine.
-/
import Scico.Proofs.AutogradAlg

namespace Scico.Autograd
open Scico

/-! ### vjp / cvjp -/
section vjp
variable {K : Type} [CommRing K] {n m : Nat}

theorem reInner_eq_reBdot_conj (v z : CVec K n) : reInner v z = reBdot (conjVec v) z := by
  rw [← reInner_conjVec, conjVec_conjVec]

/-- JAX's `vjp` transposes the (real-linear) Jacobian w.r.t. the pairing `Re Σ aᵢ bᵢ`; with the
    conjugate flag `Gmap` is the adjoint w.r.t. `Re⟪·,·⟫` — also for non-holomorphic operators. -/
theorem vjp_conj_real_adjoint (J : CVec K n → CVec K m) (G : CVec K m → CVec K n)
    (hG : ∀ c d, reBdot (G c) d = reBdot c (J d)) (v : CVec K m) (d : CVec K n) :
    reInner (vjpWrap true G v) d = reInner v (J d) := by
  simp only [vjpWrap, if_true]
  rw [reInner_conjVec, hG, ← reInner_eq_reBdot_conj]

/-- pointwise form: only the contract at the one pair `(conj v, d)` is used — this also covers
    operators with a *real* input array, where JAX's cotangent is the real part and the contract
    holds for real directions `d` only -/
theorem vjp_conj_real_adjoint_at (J : CVec K n → CVec K m) (G : CVec K m → CVec K n)
    (v : CVec K m) (d : CVec K n) (hG : reBdot (G (conjVec v)) d = reBdot (conjVec v) (J d)) :
    reInner (vjpWrap true G v) d = reInner v (J d) := by
  simp only [vjpWrap, if_true]
  rw [reInner_conjVec, hG, ← reInner_eq_reBdot_conj]

theorem reBdot_realPart (g d : CVec K n) (hd : ∀ i, (d i).im = 0) : reBdot (realPart g) d = reBdot g d := by
  rw [reBdot_eq, reBdot_eq]
  exact Finset.sum_congr rfl (fun i _ => by simp [realPart, hd i])

/-- for a ℂ-linear Jacobian (`G` its plain transpose) `Gmap` is the complex adjoint -/
theorem vjp_conj_adjoint (J : CVec K n → CVec K m) (G : CVec K m → CVec K n)
    (hG : ∀ c d, bdot (G c) d = bdot c (J d)) (v : CVec K m) (d : CVec K n) :
    cinner (vjpWrap true G v) d = cinner v (J d) := by
  simp only [vjpWrap, if_true]
  rw [cinner_conjVec, hG, ← cinner_conjVec_left]

/-- without the conjugate flag it is the plain transpose -/
theorem vjp_noconj_transpose (J : CVec K n → CVec K m) (G : CVec K m → CVec K n)
    (hG : ∀ c d, bdot (G c) d = bdot c (J d)) (v : CVec K m) (d : CVec K n) :
    bdot (vjpWrap false G v) d = bdot v (J d) := by
  simp only [vjpWrap, Bool.false_eq_true, if_false]
  exact hG v d

theorem cvjp_eq_vjp_true (G : CVec K m → CVec K n) : cvjpWrap G = vjpWrap true G := by
  funext v; simp [cvjpWrap, vjpWrap]

/-- concrete: for the Jacobian `d ↦ A d`, JAX's `G` is `c ↦ Aᵀ c` and `Gmap v = Aᴴ v` -/
theorem vjpWrap_matrix (A : Mat K m n) (v : CVec K m) :
    vjpWrap true (mulVec (transpose A)) v = mulVec (adjMat A) v := by
  simp only [vjpWrap, if_true]
  rw [conjVec_mulVec]
  rw [conjVec_conjVec]
  rfl

end vjp

/-! ### the model's wrappers are the rows of `Tables.conjSites` -/
section sites
variable {α : Type} [Neg α] {n m : Nat}

theorem scicoGrad_site (jg : CVec α n) : scicoGrad jg = conjTimes 1 jg := rfl
theorem vjpWrap_true_site (G : CVec α m → CVec α n) (v : CVec α m) : vjpWrap true G v = applySite 1 1 G v := rfl
theorem vjpWrap_false_site (G : CVec α m → CVec α n) (v : CVec α m) : vjpWrap false G v = applySite 0 0 G v := by
  simp [vjpWrap, applySite, conjTimes]
theorem cvjpWrap_site (G : CVec α m → CVec α n) (v : CVec α m) : cvjpWrap G v = applySite 1 1 G v := rfl
theorem conjFun_site (f : CVec α n → CVec α m) (x : CVec α n) : conjFun f x = applySite 1 1 f x := rfl

end sites

/-! ### the Jacobian linear operator -/
section jac
variable {α : Type} {a b : Nat}

/-- the Jacobian-product block of the operator's output -/
def JacOut.main : JacOut α a b → CVec α b
  | .plain v => v
  | .withEval _ v => v

/-- the evaluation block, present iff `include_eval` -/
def JacOut.evalBlock : JacOut α a b → Option (CVec α a)
  | .plain _ => none
  | .withEval Fu _ => some Fu

/-- block-wise sum of two outputs of the same form -/
def JacOut.add [Add α] : JacOut α a b → JacOut α a b → Option (JacOut α a b)
  | .plain u, .plain v => some (.plain (vadd u v))
  | .withEval e u, .withEval e' v => some (.withEval (vadd e e') (vadd u v))
  | _, _ => none

end jac

section jac2
variable {K : Type} [CommRing K] {n m : Nat}

theorem jacobian_blocks (inc : Bool) (Fu : CVec K m) (J : CVec K n → CVec K m) (G : CVec K m → CVec K n)
    (v : CVec K n) (w : CVec K m) :
    (jacobianEval inc Fu J v).main = J v ∧ (jacobianAdj inc Fu G w).main = vjpWrap true G w ∧
    (jacobianEval inc Fu J v).evalBlock = (if inc then some Fu else none) ∧
    (jacobianAdj inc Fu G w).evalBlock = (if inc then some Fu else none) := by
  cases inc <;> simp [jacobianEval, jacobianAdj, JacOut.main, JacOut.evalBlock]

/-- with `include_eval` the operator is affine, not linear: it is additive only if `F(u) = 0` -/
theorem jacobianEval_additive_iff (Fu : CVec K m) (J : CVec K n → CVec K m)
    (hJ : ∀ u v, J (vadd u v) = vadd (J u) (J v)) (v₁ v₂ : CVec K n) :
    (jacobianEval true Fu J v₁).add (jacobianEval true Fu J v₂) = some (jacobianEval true Fu J (vadd v₁ v₂))
      ↔ Fu = fun _ => 0 := by
  simp only [jacobianEval, if_true, JacOut.add, Option.some.injEq, JacOut.withEval.injEq, hJ, and_true]
  constructor
  · intro h
    funext i
    have := congrFun h i
    simp only [vadd] at this
    have h2 : Fu i + Fu i = Fu i + 0 := by rw [this, add_zero]
    exact add_left_cancel h2
  · intro h
    funext i
    simp [vadd, h]

end jac2

/-! ### `linear_adjoint` -/
section linadj
variable {K : Type} [CommRing K] {n m : Nat}

theorem conjFun_conjFun (f : CVec K n → CVec K m) : conjFun (conjFun f) = f := by
  funext x; simp [conjFun, conjVec_conjVec]

/-- If `T g` is the transpose of `g` for the bilinear pairing (contract of
    `jax.linear_transpose`, used at the one function it is applied to), then `T (conj_fun f)` is
    the adjoint of `f`. -/
theorem transpose_conjFun_adjoint (f : CVec K n → CVec K m) (Tg : CVec K m → CVec K n)
    (hT : ∀ y x, bdot (Tg y) x = bdot y (conjFun f x)) (y : CVec K m) (x : CVec K n) :
    cinner (Tg y) x = cinner y (f x) := by
  have h := hT y (conjVec x)
  have h2 := congrArg Cx.conj h
  rw [conj_bdot, conj_bdot, conjVec_conjVec] at h2
  have : conjVec (conjFun f (conjVec x)) = f x := by
    simp [conjFun, conjVec_conjVec]
  rw [cinner_conjVec_left, cinner_conjVec_left, h2, this]

/-- real → real branch: `T f` itself; on real data (conjugation is the identity on `y` and on
    `f x`) transposition is adjunction -/
theorem transpose_real_adjoint (f : CVec K n → CVec K m) (Tf : CVec K m → CVec K n)
    (hT : ∀ y x, bdot (Tf y) x = bdot y (f x)) (y : CVec K m) (x : CVec K n)
    (hy : conjVec y = y) (hTy : conjVec (Tf y) = Tf y) :
    cinner (Tf y) x = cinner y (f x) := by
  rw [cinner_conjVec_left, cinner_conjVec_left, hTy, hy]
  exact hT y x

theorem linearAdjoint_adjoint (T : (CVec K n → CVec K m) → (CVec K m → CVec K n))
    (f : CVec K n → CVec K m) (cp co : Bool) (hc : cp = true ∨ co = true)
    (hT : ∀ y x, bdot (T (conjFun f) y) x = bdot y (conjFun f x)) (y : CVec K m) (x : CVec K n) :
    cinner (linearAdjoint T cp co f y) x = cinner y (f x) := by
  have : linearAdjoint T cp co f = T (conjFun f) := by
    unfold linearAdjoint
    rcases hc with h | h <;> simp [h]
  rw [this]
  exact transpose_conjFun_adjoint f _ hT y x

/-- the matrix instance: `conj_fun` of `x ↦ M x` is `x ↦ conj(M) x` -/
theorem conjFun_mulVec (M : Mat K m n) : conjFun (mulVec M) = mulVec (conjMat M) := by
  funext x
  simp only [conjFun]
  rw [conjVec_mulVec, conjVec_conjVec]

end linadj

/-! ### exact quadratic expansion of `α‖Ax−y‖²_W` -/
section quad
variable {K : Type} [Field K] [LinearOrder K] [IsStrictOrderedRing K] [HasSqrt K] [HasLog K] {n m : Nat}

theorem abs2_sub_add (r e : Cx K) :
    Cx.abs2 (-r - e) = Cx.abs2 r + 2 * (r.re * e.re + r.im * e.im) + Cx.abs2 e := by
  simp [Cx.abs2]; ring

theorem eval_sqL2Loss (s : K) (A : Mat K m n) (y : CVec K m) (w : Vec K m) (x : CVec K n) :
    (Fn.sqL2Loss s A y w).eval x = s * ∑ i, w i * Cx.abs2 (mulVec A x i - y i) := by
  simp only [Fn.eval, vsum_eq]
  congr 1
  refine Finset.sum_congr rfl (fun i _ => ?_)
  congr 1
  simp [Cx.abs2]; ring

/-- model gradient of the weighted squared-l2 loss = documented `2αAᴴW(Ax−y)` -/
theorem grad_sqL2Loss_eq_spec (s : K) (A : Mat K m n) (y : CVec K m) (w : Vec K m) (x : CVec K n) :
    (Fn.sqL2Loss s A y w).grad x = sqL2LossGradSpec s A y w x := by
  unfold Fn.grad scicoGrad sqL2LossGradSpec
  simp only [Fn.jaxGrad]
  funext j
  simp only [conjVec, vsmul, mulVec_eq, transpose, adjMat, conjMat, Cx.conj_sum,
    Cx.conj_mul, Cx.conj_conj, Cx.smul_eq, two_eq, Finset.mul_sum]
  refine Finset.sum_congr rfl (fun i _ => ?_)
  apply Cx.ext' <;> simp <;> ring

theorem reInner_grad_sqL2Loss (s : K) (A : Mat K m n) (y : CVec K m) (w : Vec K m) (x d : CVec K n) :
    reInner ((Fn.sqL2Loss s A y w).grad x) d =
      s * ∑ i, 2 * w i * ((mulVec A x i - y i).re * (mulVec A d i).re
                          + (mulVec A x i - y i).im * (mulVec A d i).im) := by
  unfold Fn.grad scicoGrad
  rw [reInner_conjVec]
  simp only [Fn.jaxGrad]
  rw [reBdot_vsmul_left, reBdot_transpose, reBdot_eq]
  congr 1
  refine Finset.sum_congr rfl (fun i _ => ?_)
  simp [two_eq]; ring

theorem reInner_hessianApply (s : K) (A : Mat K m n) (w : Vec K m) (d : CVec K n) :
    reInner (hessianApply s A w d) d = 2 * s * ∑ i, w i * Cx.abs2 (mulVec A d i) := by
  unfold hessianApply
  rw [reInner_vsmul_left, two_eq]
  congr 1
  unfold reInner
  rw [cinner_adjMat, cinner_eq, Cx.re_sum]
  refine Finset.sum_congr rfl (fun i _ => ?_)
  simp [Cx.abs2]; ring

/-- `hessian` applies the documented matrix `2αAᴴWA` -/
theorem hessianApply_eq_mat (s : K) (A : Mat K m n) (w : Vec K m) (x : CVec K n) :
    hessianApply s A w x = mulVec (hessianMat s A w) x := by
  unfold hessianApply hessianMat
  funext j
  simp only [vsmul, mulVec_eq, matSmul, matMul, rowScale, vsum_eq, Cx.smul_eq, Finset.mul_sum,
    Finset.sum_mul]
  rw [Finset.sum_comm]
  refine Finset.sum_congr rfl (fun i _ => Finset.sum_congr rfl (fun l _ => ?_))
  ring

/-- the Hessian matrix is Hermitian -/
theorem hessianMat_hermitian (s : K) (A : Mat K m n) (w : Vec K m) :
    adjMat (hessianMat s A w) = hessianMat s A w := by
  funext i j
  simp only [adjMat, transpose, conjMat, hessianMat, matSmul, matMul, rowScale, vsum_eq,
    Cx.conj_smul, Cx.conj_sum, Cx.conj_mul, Cx.conj_conj]
  congr 1
  refine Finset.sum_congr rfl (fun l _ => ?_)
  apply Cx.ext' <;> simp <;> ring

/-- EXACT second-order expansion, for all `x`, `d` (real or complex data) -/
theorem sqL2Loss_expansion (s : K) (A : Mat K m n) (y : CVec K m) (w : Vec K m) (x d : CVec K n) :
    (Fn.sqL2Loss s A y w).eval (vadd x d) =
      (Fn.sqL2Loss s A y w).eval x + reInner ((Fn.sqL2Loss s A y w).grad x) d
        + (1 / 2) * reInner (hessianApply s A w d) d := by
  rw [eval_sqL2Loss, eval_sqL2Loss, reInner_grad_sqL2Loss, reInner_hessianApply, mulVec_add]
  have h : ∀ i, Cx.abs2 (vadd (mulVec A x) (mulVec A d) i - y i) =
      Cx.abs2 (mulVec A x i - y i)
        + 2 * ((mulVec A x i - y i).re * (mulVec A d i).re + (mulVec A x i - y i).im * (mulVec A d i).im)
        + Cx.abs2 (mulVec A d i) := by
    intro i
    simp [Cx.abs2, vadd]; ring
  simp only [h]
  simp only [Finset.mul_sum, ← Finset.sum_add_distrib]
  refine Finset.sum_congr rfl (fun i _ => ?_)
  ring

/-- positive semi-definiteness of the Hessian for non-negative weights and scale -/
theorem hessian_psd (s : K) (A : Mat K m n) (w : Vec K m) (d : CVec K n) (hs : 0 ≤ s)
    (hw : ∀ i, 0 ≤ w i) : 0 ≤ reInner (hessianApply s A w d) d := by
  rw [reInner_hessianApply]
  apply mul_nonneg (mul_nonneg (by norm_num) hs)
  apply Finset.sum_nonneg
  intro i _
  apply mul_nonneg (hw i)
  unfold Cx.abs2
  nlinarith [mul_self_nonneg (mulVec A d i).re, mul_self_nonneg (mulVec A d i).im]

end quad

/-! ### argument plumbing -/
section plumbing
variable {β : Type}

/-- `Function.slice` re-inserts the free argument where `fixArgs` removed it -/
theorem sliceArgs_fixArgs (args : List β) (i : Nat) (h : i < args.length) :
    sliceArgs i (fixArgs i args) args[i] = args := by
  unfold sliceArgs fixArgs
  have hl : (args.take i).length = i := by simp; omega
  rw [List.take_left' hl, List.drop_left' hl]
  rw [List.append_assoc, List.singleton_append, List.getElem_cons_drop, List.take_append_drop]

/-- more generally the free slot receives whatever is passed -/
theorem sliceArgs_fixArgs_var (args : List β) (i : Nat) (h : i < args.length) (var : β) :
    sliceArgs i (fixArgs i args) var = args.set i var := by
  unfold sliceArgs fixArgs
  have hl : (args.take i).length = i := by simp; omega
  rw [List.take_left' hl, List.drop_left' hl]
  rw [List.set_eq_take_append_cons_drop]
  simp [h]

private theorem merge_prefix (P : Nat → Bool) (jidx : Nat) (free : List β) :
    ∀ (fix1 rest : List β) (pos r : Nat), pos + fix1.length = jidx → (∀ k, pos ≤ k → k < jidx → P k = true) →
      mergeArgs P (fix1.length + r) pos (fix1 ++ rest) free = (mergeArgs P r jidx rest free).map (fix1 ++ ·) := by
  intro fix1
  induction fix1 with
  | nil =>
    intro rest pos r h _
    simp at h
    subst h
    simp
  | cons a t ih =>
    intro rest pos r h hP
    simp only [List.length_cons] at h
    have hp : P pos = true := hP pos (le_refl _) (by omega)
    have : t.length + 1 + r = (t.length + r) + 1 := by omega
    simp only [List.length_cons, this, mergeArgs, hp, if_true, List.cons_append]
    rw [ih rest (pos + 1) r (by omega) (fun k hk hk2 => hP k (by omega) hk2)]
    simp [Option.map_map, Function.comp_def]

private theorem merge_suffix (P : Nat → Bool) :
    ∀ (rest : List β) (pos : Nat), (∀ k, pos ≤ k → k < pos + rest.length → P k = true) →
      mergeArgs P rest.length pos rest [] = some rest := by
  intro rest
  induction rest with
  | nil => intro pos _; simp [mergeArgs]
  | cons a t ih =>
    intro pos hP
    have hp : P pos = true := hP pos (le_refl _) (by simp)
    simp only [List.length_cons, mergeArgs, hp, if_true]
    rw [ih (pos + 1) (fun k hk hk2 => hP k (by omega) (by simp at hk2 ⊢; omega))]
    rfl

/-- `cvjp(fun, *primals, jidx=j)`: the partial function calls `fun` with the primals, slot `j`
    replaced by the differentiated argument -/
theorem cvjpArgs_eq (primals : List β) (j : Nat) (h : j < primals.length) (var : β) :
    cvjpArgs j primals var = some (primals.set j var) := by
  unfold cvjpArgs fixArgs
  set P : Nat → Bool := fun k => k != j && decide (k < primals.length) with hPdef
  have hl : (primals.take j).length = j := by simp; omega
  have hlen : (primals.take j ++ primals.drop (j + 1)).length.succ
      = (primals.take j).length + ((primals.drop (j + 1)).length + 1) := by
    simp; omega
  rw [hlen, merge_prefix P j [var] (primals.take j) (primals.drop (j + 1)) 0 _ (by simp; omega)
    (fun k _ hk => by simp [hPdef]; omega)]
  have hj : P j = false := by simp [hPdef]
  simp only [mergeArgs, hj]
  rw [merge_suffix P (primals.drop (j + 1)) (j + 1)
    (fun k hk hk2 => by simp [hPdef] at hk2 ⊢; omega)]
  simp only [Option.map_some, List.set_eq_take_append_cons_drop, h, if_true]
  simp

end plumbing

/-! ### the `Loss` copy / re-bind machine -/
section heap
variable {α : Type} [Mul α] [Div α]

/-- every object's gradient closure is bound to the object itself -/
def Heap.SelfBound (h : Heap α) : Prop := ∀ (i : Nat) (o : LossObj α), h[i]? = some o → o.gradOf = i

theorem Heap.selfBound_append (h : Heap α) (hw : h.SelfBound) (s : α) :
    Heap.SelfBound (h ++ [⟨s, h.length⟩]) := by
  unfold Heap.SelfBound at hw ⊢
  intro i o hi
  by_cases hlt : i < h.length
  · rw [List.getElem?_append_left hlt] at hi
    exact hw i o hi
  · rw [List.getElem?_append_right (by omega)] at hi
    by_cases hz : i - h.length = 0
    · rw [hz] at hi
      simp at hi
      subst hi
      simp; omega
    · have : 1 ≤ i - h.length := by omega
      rw [List.getElem?_eq_none (by simp; omega)] at hi
      cases hi

theorem Heap.step_selfBound (h : Heap α) (hw : h.SelfBound) (op : LossOp α) : (h.step op).SelfBound := by
  cases op with
  | new s => exact Heap.selfBound_append h hw s
  | mul i c =>
    simp only [Heap.step]
    cases hi : h[i]? with
    | none => simpa using hw
    | some o => simpa [Heap.copyRebindScale] using Heap.selfBound_append h hw (o.scale * c)
  | div i c =>
    simp only [Heap.step]
    cases hi : h[i]? with
    | none => simpa using hw
    | some o => simpa [Heap.copyRebindScale] using Heap.selfBound_append h hw (o.scale / c)
  | setScale i s =>
    simp only [Heap.step]
    unfold Heap.SelfBound at hw ⊢
    intro k o hk
    rw [List.getElem?_modify] at hk
    cases hk' : h[k]? with
    | none => simp [hk'] at hk
    | some o' =>
      have := hw k o' hk'
      by_cases hik : i = k
      · simp [hk', hik] at hk
        subst hk
        exact this
      · simp [hk', hik] at hk
        subst hk
        exact this

theorem Heap.run_selfBound (ops : List (LossOp α)) : ∀ (h : Heap α), h.SelfBound → (h.run ops).SelfBound := by
  induction ops with
  | nil => intro h hw; exact hw
  | cons op t ih =>
    intro h hw
    exact ih (h.step op) (Heap.step_selfBound h hw op)

theorem Heap.length_le_step (h : Heap α) (op : LossOp α) : h.length ≤ (h.step op).length := by
  cases op with
  | new s => simp [Heap.step]
  | mul i c => simp only [Heap.step]; cases h[i]? <;> simp [Heap.copyRebindScale]
  | div i c => simp only [Heap.step]; cases h[i]? <;> simp [Heap.copyRebindScale]
  | setScale i s => simp [Heap.step]

theorem Heap.length_le_run (ops : List (LossOp α)) : ∀ h : Heap α, h.length ≤ (h.run ops).length := by
  induction ops with
  | nil => intro h; exact le_refl _
  | cons op t ih => intro h; exact le_trans (Heap.length_le_step h op) (ih (h.step op))

theorem Heap.run_append (h : Heap α) (a b : List (LossOp α)) : h.run (a ++ b) = (h.run a).run b := by
  simp [Heap.run, List.foldl_append]

/-- an object that exists keeps existing (objects are never deleted) -/
theorem Heap.evalScale_isSome_mono (a b : List (LossOp α)) (i : Nat)
    (hi : (Heap.run ([] : Heap α) a).evalScale i ≠ none) :
    ∃ s, (Heap.run ([] : Heap α) (a ++ b)).evalScale i = some s := by
  have hlt : i < (Heap.run ([] : Heap α) a).length := by
    by_contra hge
    apply hi
    simp [Heap.evalScale, List.getElem?_eq_none (not_lt.mp hge)]
  have hlt2 : i < (Heap.run ([] : Heap α) (a ++ b)).length := by
    rw [Heap.run_append]
    exact lt_of_lt_of_le hlt (Heap.length_le_run b _)
  exact ⟨((Heap.run ([] : Heap α) (a ++ b))[i]).scale, by simp [Heap.evalScale, List.getElem?_eq_getElem hlt2]⟩

theorem Heap.nil_selfBound : Heap.SelfBound ([] : Heap α) := by
  unfold Heap.SelfBound
  intro i o hi; simp at hi

/-- after any history, `obj.grad` uses the scale `obj(x)` uses -/
theorem Heap.gradScale_eq_evalScale (ops : List (LossOp α)) (i : Nat) :
    (Heap.run ([] : Heap α) ops).gradScale i = (Heap.run ([] : Heap α) ops).evalScale i := by
  have hw := Heap.run_selfBound ops ([] : Heap α) Heap.nil_selfBound
  unfold Heap.SelfBound at hw
  unfold Heap.gradScale Heap.evalScale
  cases hi : (Heap.run ([] : Heap α) ops)[i]? with
  | none => rfl
  | some o =>
    have := hw i o hi
    simp only [Option.bind_some, Option.map_some, this, hi]

end heap

end Scico.Autograd
