/-
  More about the layout of the flat vector handed to scipy (C18, round 2):
  * which flat coordinate holds which entry (`getElem?_flatten_offset`),
  * comparing containers entry by entry = comparing flat vectors coordinate by coordinate
    (`x0flat_rel`: bounds given in container form mean the same box on the flat vector),
  * `_unravel` rejects every vector of the wrong length, also for nested shapes.
-/
import Scico.Proofs.Wrap
import Mathlib.Tactic.Ring

namespace Scico.Wrap

variable {α : Type}

/-! ### index form of the layout -/

/-- entry `p` of piece `i` of a concatenation sits at offset `Σ_{j<i} |piece j| + p` -/
theorem getElem?_flatten_offset : ∀ (l : List (List α)) (i : Nat) (hi : i < l.length) (p : Nat),
    p < l[i].length →
    l.flatten[((l.take i).map List.length).sum + p]? = l[i][p]?
  | [], i, hi, _, _ => by simp at hi
  | b :: rest, 0, _, p, hp => by
    simp only [List.take_zero, List.map_nil, List.sum_nil, Nat.zero_add, List.flatten_cons,
      List.getElem_cons_zero] at hp ⊢
    rw [List.getElem?_append_left hp]
  | b :: rest, i + 1, hi, p, hp => by
    simp only [List.take_succ_cons, List.map_cons, List.sum_cons, List.flatten_cons,
      List.getElem_cons_succ] at hp ⊢
    rw [Nat.add_assoc, List.getElem?_append_right (Nat.le_add_right _ _), Nat.add_sub_cancel_left]
    exact getElem?_flatten_offset rest i (by simpa using hi) p hp

/-- entrywise relation between two arrays of one shape -/
def Arr.Rel {β : Type} (R : α → β → Prop) (a : Arr α) (b : Arr β) : Prop :=
  a.shape = b.shape ∧ List.Forall₂ R a.data b.data

def Val.Rel {β : Type} (R : α → β → Prop) : Val α → Val β → Prop
  | .arr a, .arr b => Arr.Rel R a b
  | .blk as, .blk bs => List.Forall₂ (Arr.Rel R) as bs
  | _, _ => False

/-- a complex entry is related part by part -/
def CxRel (R : α → α → Prop) (z w : Cx α) : Prop := R z.re w.re ∧ R z.im w.im

def Container.Rel (R : α → α → Prop) : Container α → Container α → Prop
  | .real x, .real y => Val.Rel R x y
  | .cplx x, .cplx y => Val.Rel (CxRel R) x y
  | _, _ => False

theorem forall₂_append_of_length {β : Type} {R : α → β → Prop} : ∀ {l1 : List α} {l1' : List β} {l2 : List α} {l2' : List β},
    l1.length = l1'.length →
    (List.Forall₂ R (l1 ++ l2) (l1' ++ l2') ↔ List.Forall₂ R l1 l1' ∧ List.Forall₂ R l2 l2')
  | [], [], _, _, _ => by simp
  | [], _ :: _, _, _, h => by simp at h
  | _ :: _, [], _, _, h => by simp at h
  | x :: xs, y :: ys, l2, l2', h => by
    have ih := forall₂_append_of_length (R := R) (l1 := xs) (l1' := ys) (l2 := l2) (l2' := l2') (by simpa using h)
    simp only [List.cons_append, List.forall₂_cons, ih, and_assoc]

theorem forall₂_map_re_im (R : α → α → Prop) : ∀ (d d' : List (Cx α)),
    (List.Forall₂ R (d.map Cx.re ++ d.map Cx.im) (d'.map Cx.re ++ d'.map Cx.im) ∧ d.length = d'.length)
      ↔ List.Forall₂ (CxRel R) d d' := by
  intro d d'
  constructor
  · rintro ⟨h, hl⟩
    rw [forall₂_append_of_length (by simpa using hl)] at h
    obtain ⟨h1, h2⟩ := h
    induction d generalizing d' with
    | nil => cases d' with
      | nil => exact .nil
      | cons _ _ => simp at hl
    | cons z zs ih =>
      cases d' with
      | nil => simp at hl
      | cons w ws =>
        simp only [List.map_cons, List.forall₂_cons] at h1 h2
        exact .cons ⟨h1.1, h2.1⟩ (ih ws (by simpa using hl) h1.2 h2.2)
  · intro h
    have hl := h.length_eq
    refine ⟨?_, hl⟩
    rw [forall₂_append_of_length (by simpa using hl)]
    induction h with
    | nil => exact ⟨.nil, .nil⟩
    | cons hzw _ ih =>
      simp only [List.map_cons, List.forall₂_cons]
      exact ⟨⟨hzw.1, (ih (by simp_all)).1⟩, ⟨hzw.2, (ih (by simp_all)).2⟩⟩

theorem flatten_rel (R : α → α → Prop) : ∀ (bs bs' : List (Arr α)),
    bs.map Arr.shape = bs'.map Arr.shape → (∀ b ∈ bs, b.WF) → (∀ b ∈ bs', b.WF) →
    (List.Forall₂ R (bs.map Arr.data).flatten (bs'.map Arr.data).flatten ↔
      List.Forall₂ (Arr.Rel R) bs bs')
  | [], [], _, _, _ => by simp
  | [], _ :: _, h, _, _ => by simp at h
  | _ :: _, [], h, _, _ => by simp at h
  | b :: rest, b' :: rest', h, hw, hw' => by
    simp only [List.map_cons, List.cons.injEq] at h
    have hb : b.WF := hw b (by simp)
    have hb' : b'.WF := hw' b' (by simp)
    have hl : b.data.length = b'.data.length := by
      unfold Arr.WF at hb hb'
      rw [hb, hb', h.1]
    have ih := flatten_rel R rest rest' h.2 (fun x hx => hw x (by simp [hx])) (fun x hx => hw' x (by simp [hx]))
    simp only [List.map_cons, List.flatten_cons, forall₂_append_of_length hl, ih, List.forall₂_cons,
      Arr.Rel, h.1, true_and]

theorem splitArr_rel (R : α → α → Prop) (a b : Arr (Cx α)) (ha : a.WF) (hb : b.WF) :
    Arr.Rel R (splitArr a) (splitArr b) ↔ Arr.Rel (CxRel R) a b := by
  unfold Arr.WF at ha hb
  simp only [Arr.Rel, splitArr, List.cons.injEq, true_and]
  constructor
  · rintro ⟨hs, hd⟩
    refine ⟨hs, (forall₂_map_re_im R a.data b.data).1 ⟨hd, ?_⟩⟩
    rw [ha, hb, hs]
  · rintro ⟨hs, hd⟩
    exact ⟨hs, ((forall₂_map_re_im R a.data b.data).2 hd).1⟩

theorem map_splitArr_rel (R : α → α → Prop) : ∀ (cs cs' : List (Arr (Cx α))),
    (∀ b ∈ cs, b.WF) → (∀ b ∈ cs', b.WF) →
    (List.Forall₂ (Arr.Rel R) (cs.map splitArr) (cs'.map splitArr) ↔
      List.Forall₂ (Arr.Rel (CxRel R)) cs cs')
  | [], [], _, _ => by simp
  | [], _ :: _, _, _ => by simp
  | _ :: _, [], _, _ => by simp
  | a :: rest, b :: rest', hw, hw' => by
    have ih := map_splitArr_rel R rest rest' (fun x hx => hw x (by simp [hx])) (fun x hx => hw' x (by simp [hx]))
    simp only [List.map_cons, List.forall₂_cons, ih,
      splitArr_rel R a b (hw a (by simp)) (hw' b (by simp))]

/-- comparing two containers of one form entry by entry (real and imaginary parts separately) is
    comparing their flat vectors coordinate by coordinate -/
theorem x0flat_rel (R : α → α → Prop) (c c' : Container α) (hwf : c.WF) (hwf' : c'.WF)
    (hform : SameForm c c') :
    List.Forall₂ R (x0flat c) (x0flat c') ↔ Container.Rel R c c' := by
  obtain ⟨hs, hk⟩ := hform
  cases c with
  | real x =>
    cases c' with
    | cplx _ => exact absurd hk (by simp)
    | real x' =>
      cases x with
      | arr a =>
        cases x' with
        | arr a' =>
          simp only [workShape, prepare, shapeOf, Shape.flat.injEq] at hs
          simp [x0flat, prepare, ravel, Container.Rel, Val.Rel, Arr.Rel, hs]
        | blk _ => simp [workShape, prepare, shapeOf] at hs
      | blk bs =>
        cases x' with
        | arr _ => simp [workShape, prepare, shapeOf] at hs
        | blk bs' =>
          simp only [workShape, prepare, shapeOf, Shape.nested.injEq] at hs
          simpa [x0flat, prepare, ravel, Container.Rel, Val.Rel] using flatten_rel R bs bs' hs hwf hwf'
  | cplx x =>
    cases c' with
    | real _ => exact absurd hk (by simp)
    | cplx x' =>
      cases x with
      | arr a =>
        cases x' with
        | arr a' =>
          simp only [workShape, prepare, shapeOf, splitVal, splitArr, Shape.flat.injEq, List.cons.injEq, true_and] at hs
          have ha : a.data.length = a'.data.length := by
            have h1 : a.data.length = sizeOf a.shape := hwf
            have h2 : a'.data.length = sizeOf a'.shape := hwf'
            rw [h1, h2, hs]
          simp only [x0flat, prepare, ravel, splitVal, splitArr, Container.Rel, Val.Rel, Arr.Rel, hs, true_and]
          constructor
          · intro h; exact (forall₂_map_re_im R _ _).1 ⟨h, ha⟩
          · intro h; exact ((forall₂_map_re_im R _ _).2 h).1
        | blk _ => simp [workShape, prepare, shapeOf, splitVal] at hs
      | blk cs =>
        cases x' with
        | arr _ => simp [workShape, prepare, shapeOf, splitVal] at hs
        | blk cs' =>
          simp only [workShape, prepare, shapeOf, splitVal, Shape.nested.injEq] at hs
          have w1 : ∀ b ∈ cs.map splitArr, b.WF := (splitVal_wf (.blk cs) hwf).1
          have w2 : ∀ b ∈ cs'.map splitArr, b.WF := (splitVal_wf (.blk cs') hwf').1
          have := flatten_rel R (cs.map splitArr) (cs'.map splitArr) hs w1 w2
          simp only [x0flat, prepare, ravel, splitVal, Container.Rel, Val.Rel]
          rw [this]
          exact map_splitArr_rel R cs cs' hwf hwf'


theorem splitIdx_flatten : ∀ (idx : List Nat) (start : Nat) (v : List α), (splitIdx start idx v).flatten = v
  | [], _, v => by simp [splitIdx]
  | i :: rest, start, v => by
    simp only [splitIdx, List.flatten_cons, splitIdx_flatten rest i, List.take_append_drop]

theorem splitIdx_length : ∀ (idx : List Nat) (start : Nat) (v : List α), (splitIdx start idx v).length = idx.length + 1
  | [], _, _ => rfl
  | i :: rest, start, v => by simp [splitIdx, splitIdx_length rest i]

theorem cumsumFrom_length : ∀ (l : List Nat) (acc : Nat), (cumsumFrom acc l).length = l.length
  | [], _ => rfl
  | s :: ss, acc => by simp [cumsumFrom, cumsumFrom_length ss]

theorem mapO_reshape_lengths : ∀ (pieces : List (List α)) (ss : List (List Nat)) (bs : List (Arr α)),
    pieces.length = ss.length →
    mapO (fun (p : List α × List Nat) => reshape p.1 p.2) (List.zip pieces ss) = some bs →
    pieces.map List.length = ss.map sizeOf
  | [], [], _, _, _ => rfl
  | [], _ :: _, _, h, _ => by simp at h
  | _ :: _, [], _, h, _ => by simp at h
  | p :: ps, s :: ss, bs, hl, h => by
    simp only [List.zip_cons_cons, mapO] at h
    cases hr : reshape p s with
    | none => simp [hr] at h
    | some b =>
      cases hm : mapO (fun (p : List α × List Nat) => reshape p.1 p.2) (List.zip ps ss) with
      | none => simp [hr, hm] at h
      | some bs' =>
        have hp : p.length = sizeOf s := by
          unfold reshape at hr
          by_cases hh : p.length = sizeOf s
          · exact hh
          · simp [hh] at hr
        simp only [List.map_cons, hp, mapO_reshape_lengths ps ss bs' (by simpa using hl) hm]

/-- a vector of the wrong length is rejected, whatever the (nested) shape -/
theorem unravel_none_of_length (v : List α) (sh : Shape) (hv : sh.Valid) (h : v.length ≠ total sh) :
    unravel v sh = none := by
  cases sh with
  | flat s => simp [unravel, reshape, total] at h ⊢; exact h
  | nested ss =>
    cases hss : ss with
    | nil => subst hss; exact absurd hv (by simp [Shape.Valid])
    | cons s0 rest =>
      rw [← hss]
      cases hu : unravel v (.nested ss) with
      | none => rfl
      | some x =>
        exfalso
        apply h
        rw [unravel_nested_of_ne _ _ (by simp [hss])] at hu
        set pieces := splitIdx 0 (cumsumFrom 0 (ss.map sizeOf)).dropLast v with hp
        cases hm : mapO (fun (p : List α × List Nat) => reshape p.1 p.2) (List.zip pieces ss) with
        | none => simp [hm] at hu
        | some bs =>
          have hlen : pieces.length = ss.length := by
            rw [hp, splitIdx_length, List.length_dropLast, cumsumFrom_length, List.length_map, hss]
            simp
          have hl := mapO_reshape_lengths pieces ss bs hlen hm
          have hf : pieces.flatten = v := by rw [hp]; exact splitIdx_flatten _ _ _
          calc v.length = pieces.flatten.length := by rw [hf]
            _ = (pieces.map List.length).sum := List.length_flatten
            _ = (ss.map sizeOf).sum := by rw [hl]
            _ = total (.nested ss) := rfl


end Scico.Wrap

namespace Scico.Wrap

variable {α : Type}

/-- the shape of the container itself (for a complex one: without the leading re/im axis) -/
def Container.shape : Container α → Shape
  | .real x => shapeOf x
  | .cplx x => shapeOf x

def Container.isCplx : Container α → Bool
  | .real _ => false
  | .cplx _ => true

theorem splitVal_shape_inj (x x0 : Val (Cx α)) (h : shapeOf (splitVal x) = shapeOf (splitVal x0)) :
    shapeOf x = shapeOf x0 := by
  cases x <;> cases x0 <;> simp [splitVal, shapeOf, splitArr] at h ⊢
  · exact h
  · rename_i bs cs
    have : ∀ (l1 l2 : List (Arr (Cx α))),
        List.map (Arr.shape ∘ fun a => (⟨2 :: a.shape, a.data.map Cx.re ++ a.data.map Cx.im⟩ : Arr α)) l1 =
        List.map (Arr.shape ∘ fun a => (⟨2 :: a.shape, a.data.map Cx.re ++ a.data.map Cx.im⟩ : Arr α)) l2 →
        List.map Arr.shape l1 = List.map Arr.shape l2 := by
      intro l1
      induction l1 with
      | nil => intro l2 h2; cases l2 <;> simp_all
      | cons a t ih =>
        intro l2 h2
        cases l2 with
        | nil => simp at h2
        | cons b t2 =>
          simp only [List.map_cons, List.cons.injEq, Function.comp] at h2 ⊢
          exact ⟨by simpa using h2.1, ih t2 h2.2⟩
    exact this bs cs h

/-- containers of one form have the same kind and the same shape -/
theorem sameForm_shape (c c0 : Container α) (h : SameForm c c0) :
    c.isCplx = c0.isCplx ∧ c.shape = c0.shape := by
  obtain ⟨hs, hk⟩ := h
  cases c <;> cases c0
  · exact ⟨rfl, by simpa [workShape, prepare, Container.shape] using hs⟩
  · exact absurd hk (by simp)
  · exact absurd hk (by simp)
  · exact ⟨rfl, splitVal_shape_inj _ _ (by simpa [workShape, prepare] using hs)⟩

/-- a container has blocks (Python: `x0.shape` and `x0.dtype` exist) -/
theorem valid_of_shape (c : Container α) : (workShape c).Valid ↔ c.shape.Valid := by
  cases c with
  | real x => rfl
  | cplx x =>
    cases x with
    | arr a => simp [workShape, prepare, splitVal, shapeOf, Container.shape, Shape.Valid]
    | blk bs =>
      cases bs <;> simp [workShape, prepare, splitVal, shapeOf, Container.shape, Shape.Valid]

theorem scalarOf_scalar (a : α) : scalarOf (⟨[], [a]⟩ : Arr α) = some a := rfl
theorem scalarOf_one (a : α) : scalarOf (⟨[1], [a]⟩ : Arr α) = some a := rfl

end Scico.Wrap

/-! ### the gradient: flattening preserves the slot-wise pairing -/

namespace Scico.Wrap

section pairing
variable {K : Type} [CommSemiring K]

/-- `Σ aᵢ bᵢ` -/
def dotL (a b : List K) : K := (List.zipWith (· * ·) a b).sum

/-- real pairing of two complex entries: `Re(z) Re(w) + Im(z) Im(w)` -/
def cxPair (z w : Cx K) : K := z.re * w.re + z.im * w.im

def Val.pair : Val K → Val K → K
  | .arr a, .arr b => dotL a.data b.data
  | .blk as, .blk bs => (List.zipWith (fun a b => dotL a.data b.data) as bs).sum
  | _, _ => 0

def Val.pairC : Val (Cx K) → Val (Cx K) → K
  | .arr a, .arr b => (List.zipWith cxPair a.data b.data).sum
  | .blk as, .blk bs => (List.zipWith (fun a b => (List.zipWith cxPair a.data b.data).sum) as bs).sum
  | _, _ => 0

/-- slot-wise pairing of two containers (every real slot — entry, or real / imaginary part of an
    entry — multiplied with the corresponding one): the value of the differential `Σ ∂f/∂slot · h_slot` -/
def Container.pair : Container K → Container K → K
  | .real x, .real y => Val.pair x y
  | .cplx x, .cplx y => Val.pairC x y
  | _, _ => 0

theorem dotL_append {a a' b b' : List K} (h : a.length = a'.length) :
    dotL (a ++ b) (a' ++ b') = dotL a a' + dotL b b' := by
  unfold dotL
  rw [List.zipWith_append h, List.sum_append]

theorem dotL_re_im : ∀ (d d' : List (Cx K)), d.length = d'.length →
    dotL (d.map Cx.re ++ d.map Cx.im) (d'.map Cx.re ++ d'.map Cx.im) = (List.zipWith cxPair d d').sum := by
  intro d d' hl
  rw [dotL_append (by simpa using hl)]
  induction d generalizing d' with
  | nil => cases d' <;> simp [dotL]
  | cons z zs ih =>
    cases d' with
    | nil => simp at hl
    | cons w ws =>
      have := ih ws (by simpa using hl)
      simp only [dotL, List.map_cons, List.zipWith_cons_cons, List.sum_cons] at this ⊢
      rw [← this, cxPair]
      ring

theorem dotL_flatten : ∀ (bs bs' : List (Arr K)),
    bs.map Arr.shape = bs'.map Arr.shape → (∀ b ∈ bs, b.WF) → (∀ b ∈ bs', b.WF) →
    dotL (bs.map Arr.data).flatten (bs'.map Arr.data).flatten =
      (List.zipWith (fun a b => dotL a.data b.data) bs bs').sum
  | [], [], _, _, _ => by simp [dotL]
  | [], _ :: _, h, _, _ => by simp at h
  | _ :: _, [], h, _, _ => by simp at h
  | b :: rest, b' :: rest', h, hw, hw' => by
    simp only [List.map_cons, List.cons.injEq] at h
    have hb : b.WF := hw b (by simp)
    have hb' : b'.WF := hw' b' (by simp)
    have hl : b.data.length = b'.data.length := by
      unfold Arr.WF at hb hb'
      rw [hb, hb', h.1]
    have ih := dotL_flatten rest rest' h.2 (fun x hx => hw x (by simp [hx])) (fun x hx => hw' x (by simp [hx]))
    simp only [List.map_cons, List.flatten_cons, dotL_append hl, ih, List.zipWith_cons_cons, List.sum_cons]

theorem zipWith_splitArr_pair : ∀ (cs cs' : List (Arr (Cx K))),
    cs.map Arr.shape = cs'.map Arr.shape → (∀ b ∈ cs, b.WF) → (∀ b ∈ cs', b.WF) →
    (List.zipWith (fun a b => dotL a.data b.data) (cs.map splitArr) (cs'.map splitArr)).sum =
      (List.zipWith (fun a b => (List.zipWith cxPair a.data b.data).sum) cs cs').sum
  | [], [], _, _, _ => by simp
  | [], _ :: _, h, _, _ => by simp at h
  | _ :: _, [], h, _, _ => by simp at h
  | a :: rest, b :: rest', h, hw, hw' => by
    simp only [List.map_cons, List.cons.injEq] at h
    have ha : a.WF := hw a (by simp)
    have hb : b.WF := hw' b (by simp)
    have hl : a.data.length = b.data.length := by
      unfold Arr.WF at ha hb
      rw [ha, hb, h.1]
    have ih := zipWith_splitArr_pair rest rest' h.2 (fun x hx => hw x (by simp [hx])) (fun x hx => hw' x (by simp [hx]))
    simp only [List.map_cons, List.zipWith_cons_cons, List.sum_cons, ih]
    congr 1
    exact dotL_re_im a.data b.data hl

/-- the flat vectors of two containers of one form pair to the slot-wise pairing of the containers:
    with `G` the container of partial derivatives that `jax.value_and_grad` returns, the vector
    `_ravel(G)` handed to scipy represents the same differential, `⟨flat G, flat H⟩ = Σ_slots G·H` -/
theorem x0flat_pair (G H : Container K) (hG : G.WF) (hH : H.WF) (hform : SameForm G H) :
    dotL (x0flat G) (x0flat H) = Container.pair G H := by
  obtain ⟨hs, hk⟩ := hform
  cases G with
  | real x =>
    cases H with
    | cplx _ => exact absurd hk (by simp)
    | real y =>
      cases x with
      | arr a =>
        cases y with
        | arr b => rfl
        | blk _ => simp [workShape, prepare, shapeOf] at hs
      | blk as =>
        cases y with
        | arr _ => simp [workShape, prepare, shapeOf] at hs
        | blk bs =>
          simp only [workShape, prepare, shapeOf, Shape.nested.injEq] at hs
          simpa [x0flat, prepare, ravel, Container.pair, Val.pair] using dotL_flatten as bs hs hG hH
  | cplx x =>
    cases H with
    | real _ => exact absurd hk (by simp)
    | cplx y =>
      cases x with
      | arr a =>
        cases y with
        | arr b =>
          simp only [workShape, prepare, shapeOf, splitVal, splitArr, Shape.flat.injEq, List.cons.injEq, true_and] at hs
          have hl : a.data.length = b.data.length := by
            have h1 : a.data.length = sizeOf a.shape := hG
            have h2 : b.data.length = sizeOf b.shape := hH
            rw [h1, h2, hs]
          simpa [x0flat, prepare, ravel, splitVal, splitArr, Container.pair, Val.pairC] using dotL_re_im a.data b.data hl
        | blk _ => simp [workShape, prepare, shapeOf, splitVal] at hs
      | blk cs =>
        cases y with
        | arr _ => simp [workShape, prepare, shapeOf, splitVal] at hs
        | blk cs' =>
          simp only [workShape, prepare, shapeOf, splitVal, Shape.nested.injEq] at hs
          have w1 : ∀ b ∈ cs.map splitArr, b.WF := (splitVal_wf (.blk cs) hG).1
          have w2 : ∀ b ∈ cs'.map splitArr, b.WF := (splitVal_wf (.blk cs') hH).1
          have h1 := dotL_flatten (cs.map splitArr) (cs'.map splitArr) hs w1 w2
          have hs' : cs.map Arr.shape = cs'.map Arr.shape := by
            have := splitVal_shape_inj (.blk cs) (.blk cs') (by simp [splitVal, shapeOf, hs])
            simpa [shapeOf] using this
          simp only [x0flat, prepare, ravel, splitVal, Container.pair, Val.pairC]
          rw [h1]
          exact zipWith_splitArr_pair cs cs' hs' hG hH

end pairing

end Scico.Wrap
