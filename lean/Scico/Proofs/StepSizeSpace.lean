/-
  The solver's view (`Env`) of a problem on a real inner-product space, with exact arithmetic embedded in the
  IEEE-extended reals, and the acceptance test of the line searches unfolded there.
-/
import Scico.Proofs.StepSizeRobust
import Mathlib.Analysis.InnerProductSpace.Basic

set_option linter.unusedSectionVars false

namespace Scico.StepSize

open XR

variable {E : Type} [NormedAddCommGroup E] [InnerProductSpace ℝ E]

/-- the solver's view of a problem on a real inner-product space (`ℝⁿ`; `ℂⁿ` with `Re⟨·,·⟩`;
    block arrays = product spaces): exact arithmetic embedded in the extended reals -/
noncomputable def envOfSpace (f : E → ℝ) (grad : E → E) (prox : E → XR ℝ → E)
    (smul : XR ℝ → E → E) : Env E (XR ℝ) where
  sdiv := fun v c => smul (1 / c) v
  f := fun x => fin (f x)
  grad := grad
  prox := prox
  add := (· + ·)
  sub := (· - ·)
  smul := smul
  reInner := fun a b => fin (inner ℝ a b)
  norm := fun a => fin ‖a‖

theorem xr_le_fin (a b : ℝ) : ((fin a : XR ℝ) ≤ fin b) ↔ a ≤ b := by
  show (XR.le (fin a) (fin b) = true) ↔ a ≤ b
  simp [XR.le]

theorem xr_half : (half : XR ℝ) = fin (1 / 2) := by
  show XR.div (fin 1) (XR.add (fin 1) (fin 1)) = fin (1 / 2)
  simp only [XR.add, XR.div]
  rw [if_pos (Or.inr (by norm_num))]
  norm_num

/-- the acceptance test of the line searches on a real inner-product space, unfolded: for a finite `M` it is the
    inequality `f(z) ≤ f(v) + ⟨∇f(v), z − v⟩ + (M/2)‖z − v‖²` at the candidate `z = x_step(v, M)` -/
theorem accept_iff (f : E → ℝ) (grad : E → E) (prox : E → XR ℝ → E) (smul : XR ℝ → E → E) (v : E) (m : ℝ) :
    Accept (envOfSpace f grad prox smul) v (fin m) ↔
      f (xstep (envOfSpace f grad prox smul) v (fin m)) ≤
        f v + inner ℝ (grad v) (xstep (envOfSpace f grad prox smul) v (fin m) - v) +
          1 / 2 * m * (‖xstep (envOfSpace f grad prox smul) v (fin m) - v‖ * ‖xstep (envOfSpace f grad prox smul) v (fin m) - v‖) := by
  unfold Accept fquad
  generalize xstep (envOfSpace f grad prox smul) v (fin m) = z
  simp only [envOfSpace, xr_half]
  show (fin (f z) : XR ℝ) ≤ XR.add (XR.add (fin (f v)) (fin (inner ℝ (grad v) (z - v))))
    (XR.mul (XR.mul (fin (1 / 2)) (fin m)) (XR.mul (fin ‖z - v‖) (fin ‖z - v‖))) ↔ _
  simp only [XR.add, XR.mul]
  exact xr_le_fin _ _

end Scico.StepSize
