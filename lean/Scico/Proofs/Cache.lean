/-
  Helper lemmas for the state machines of `Scico.Model.Cache` (property C19).
-/
import Scico.Model.Cache
import Mathlib.Data.List.Basic
import Mathlib.Data.List.Nodup
import Mathlib.Logic.Function.Iterate

namespace Scico.Cache

/-! ### 1. operator cache -/

section query
variable {ι κ ω : Type} [DecidableEq κ] (opKey : ω → κ) (keyOf : ι → κ) (build : ι → ω)

/-- if the cached operators are a function of the key, a query returns the operator a fresh object
    would build, whatever (reachable) content the slot has -/
theorem query_used (hF : ∀ i j, keyOf i = keyOf j → build i = build j) (hK : ∀ i, opKey (build i) = keyOf i)
    (slot : Option ω) (hslot : ∀ w, slot = some w → ∃ j, w = build j) (i : ι) :
    (query opKey keyOf build slot i).2 = build i ∧
      ∀ w, (query opKey keyOf build slot i).1 = some w → ∃ j, w = build j := by
  cases slot with
  | none => exact ⟨by simp [query], fun w hw => ⟨i, by simpa [query] using hw.symm⟩⟩
  | some w0 =>
    obtain ⟨j, rfl⟩ := hslot w0 rfl
    by_cases h : opKey (build j) = keyOf i
    · have hji : build j = build i := hF j i (by rw [← hK j]; exact h)
      simp only [query, h, if_true]
      exact ⟨hji, fun w hw => ⟨j, by simpa using hw.symm⟩⟩
    · simp only [query, h, if_false]
      exact ⟨trivial, fun w hw => ⟨i, by simpa using hw.symm⟩⟩

/-- conversely: two inputs with the same key but different operators make the second query return the
    first one's operator -/
theorem query_stale (hK : ∀ i, opKey (build i) = keyOf i) (i j : ι) (hk : keyOf i = keyOf j) :
    (query opKey keyOf build (query opKey keyOf build none i).1 j).2 = build i := by
  simp [query, hK, hk]

end query


/-! ### 1b. slots filled while tracing -/

section ctx
variable {ι κ ω : Type} [DecidableEq κ] (opKey : ω → κ) (keyOf : ι → κ) (build : ι → ω)

/-- slot invariant: the content was produced by the builder, in one of the allowed contexts -/
def SlotOk (allowed : ExecCtx → Prop) (slot : Option (Built ω)) : Prop :=
  ∀ b, slot = some b → (∃ j, b.op = build j) ∧ allowed b.madeIn

theorem queryCtx_ok (concrete : Bool) (allowed : ExecCtx → Prop) (c : ExecCtx)
    (hF : ∀ i j, keyOf i = keyOf j → build i = build j) (hK : ∀ i, opKey (build i) = keyOf i)
    (hallow : ∀ m, allowed m → usable m c = true)
    (hnew : allowed (if concrete then ExecCtx.eager else c))
    (slot : Option (Built ω)) (hs : SlotOk build allowed slot) (i : ι) :
    (queryCtx concrete opKey keyOf build slot c i).2 = .ok (build i) ∧
      SlotOk build allowed (queryCtx concrete opKey keyOf build slot c i).1 := by
  cases slot with
  | none =>
    refine ⟨rfl, ?_⟩
    intro b hb
    simp only [queryCtx, Option.some.injEq] at hb
    subst hb
    exact ⟨⟨i, rfl⟩, hnew⟩
  | some b0 =>
    obtain ⟨⟨j, hj⟩, hal⟩ := hs b0 rfl
    by_cases h : opKey b0.op = keyOf i
    · have hji : build j = build i := hF j i (by rw [← hK j, ← hj]; exact h)
      simp only [queryCtx, h, if_true, hallow _ hal]
      exact ⟨by rw [hj, hji], fun b hb => by cases hb; exact ⟨⟨j, hj⟩, hal⟩⟩
    · simp only [queryCtx, h, if_false]
      refine ⟨trivial, ?_⟩
      intro b hb
      simp only [Option.some.injEq] at hb
      subst hb
      exact ⟨⟨i, rfl⟩, hnew⟩

theorem runCtx_ok (concrete : Bool) (allowed : ExecCtx → Prop)
    (hF : ∀ i j, keyOf i = keyOf j → build i = build j) (hK : ∀ i, opKey (build i) = keyOf i)
    (h : List (ExecCtx × ι))
    (hstep : ∀ p ∈ h, (∀ m, allowed m → usable m p.1 = true) ∧ allowed (if concrete then ExecCtx.eager else p.1)) :
    ∀ slot, SlotOk build allowed slot → SlotOk build allowed (runCtx concrete opKey keyOf build slot h) := by
  induction h with
  | nil => intro slot hs; exact hs
  | cons p ps ih =>
    intro slot hs
    obtain ⟨c, i⟩ := p
    have hp := hstep (c, i) List.mem_cons_self
    exact ih (fun q hq => hstep q (List.mem_cons_of_mem _ hq)) _
      (queryCtx_ok opKey keyOf build concrete allowed c hF hK hp.1 hp.2 slot hs i).2

theorem slotOk_none (allowed : ExecCtx → Prop) : SlotOk build allowed (none : Option (Built ω)) := by
  intro b hb; cases hb

theorem usable_eager (c : ExecCtx) : usable .eager c = true := by simp [usable]

theorem usable_self (c : ExecCtx) : usable c c = true := by simp [usable]

end ctx

section tv
variable {ι κ ωG ωP : Type} [DecidableEq κ] (S : TVSpec ι κ ωG ωP)

/-- every filled slot holds an operator produced by the object's own builder -/
def TV.Good (s : TV ωG ωP) : Prop :=
  (∀ w, s.G = some w → ∃ j, w = S.buildG j) ∧ (∀ w, s.P = some w → ∃ j, w = S.buildP j)

theorem TV.init_good (pre : Option ι) : TV.Good S (TV.init S pre) := by
  cases pre with
  | none => exact ⟨fun w h => by simp [TV.init] at h, fun w h => by simp [TV.init] at h⟩
  | some i =>
    exact ⟨fun w h => ⟨i, by simpa [TV.init] using h.symm⟩, fun w h => ⟨i, by simpa [TV.init] using h.symm⟩⟩

/-- the keys read back from the cached operators are the keys they were built for, and the builders
    are functions of the key -/
structure TVSpec.Sound : Prop where
  gKey : ∀ i, S.gKey (S.buildG i) = S.keyOf i
  pKey : ∀ i, S.pKey (S.buildP i) = S.keyOf i
  gFun : ∀ i j, S.keyOf i = S.keyOf j → S.buildG i = S.buildG j
  pFun : ∀ i j, S.keyOf i = S.keyOf j → S.buildP i = S.buildP j

theorem TV.step_good (hS : S.Sound) (s : TV ωG ωP) (hs : TV.Good S s) (o : TVOp ι) :
    (TV.step S s o).2 = TV.fresh S o ∧ TV.Good S (TV.step S s o).1 := by
  cases o with
  | call i =>
    obtain ⟨h1, h2⟩ := query_used S.gKey S.keyOf S.buildG hS.gFun hS.gKey s.G hs.1 i
    exact ⟨by simp [TV.step, TV.fresh, h1], ⟨h2, hs.2⟩⟩
  | prox i =>
    obtain ⟨h1, h2⟩ := query_used S.pKey S.keyOf S.buildP hS.pFun hS.pKey s.P hs.2 i
    exact ⟨by simp [TV.step, TV.fresh, h1], ⟨hs.1, h2⟩⟩

theorem TV.run_good (hS : S.Sound) (h : List (TVOp ι)) : ∀ s, TV.Good S s → TV.Good S (TV.run S s h) := by
  induction h with
  | nil => intro s hs; exact hs
  | cons o os ih => intro s hs; exact ih _ (TV.step_good S hS s hs o).2

end tv

/-! ### 2. loss heap -/

section heap
variable {α : Type}

/-- every object's gradient closure is bound to the object itself -/
@[reducible] def Heap.WF (h : Heap α) : Prop := ∀ (i : Nat) (o : LossObj α), h[i]? = some o → o.gradOf = i

theorem Heap.wf_nil : Heap.WF ([] : Heap α) := by intro i o h; simp at h

theorem Heap.wf_append (h : Heap α) (hw : h.WF) (s : α) : Heap.WF (h ++ [⟨s, h.length⟩]) := by
  intro i o hi
  by_cases hlt : i < h.length
  · rw [List.getElem?_append_left hlt] at hi; exact hw i o hi
  · rw [List.getElem?_append_right (by omega)] at hi
    by_cases he : i - h.length = 0
    · rw [he] at hi; simp at hi; subst hi; simp; omega
    · have : ([⟨s, h.length⟩] : Heap α)[i - h.length]? = none := by
        apply List.getElem?_eq_none; simp; omega
      rw [this] at hi; cases hi

theorem Heap.wf_new (h : Heap α) (hw : h.WF) (s : α) : (h.new s).WF := Heap.wf_append h hw s

theorem Heap.mul_eq [Mul α] (h : Heap α) (i : Nat) (c : α) (o : LossObj α) (ho : h[i]? = some o) :
    h.mul i c = h ++ [⟨o.scale * c, h.length⟩] := by
  simp [Heap.mul, ho]

theorem Heap.div_eq [Div α] (h : Heap α) (i : Nat) (c : α) (o : LossObj α) (ho : h[i]? = some o) :
    h.div i c = h ++ [⟨o.scale / c, h.length⟩] := by
  simp [Heap.div, ho]

theorem Heap.wf_mul [Mul α] (h : Heap α) (hw : h.WF) (i : Nat) (c : α) : (h.mul i c).WF := by
  cases ho : h[i]? with
  | none => simpa [Heap.mul, ho] using hw
  | some o => rw [Heap.mul_eq h i c o ho]; exact Heap.wf_append h hw _

theorem Heap.wf_div [Div α] (h : Heap α) (hw : h.WF) (i : Nat) (c : α) : (h.div i c).WF := by
  cases ho : h[i]? with
  | none => simpa [Heap.div, ho] using hw
  | some o => rw [Heap.div_eq h i c o ho]; exact Heap.wf_append h hw _

theorem Heap.wf_setScale (h : Heap α) (hw : h.WF) (i : Nat) (s : α) : (h.setScale i s).WF := by
  intro j o hj
  unfold Heap.setScale at hj
  rw [List.getElem?_modify] at hj
  cases hh : h[j]? with
  | none => rw [hh] at hj; simp at hj
  | some o' =>
    rw [hh] at hj
    have := hw j o' hh
    by_cases hij : i = j
    · simp [hij] at hj; subst hj; exact this
    · simp [hij] at hj; subst hj; exact this

/-- under the invariant the gradient of an object is its own scale times the unscaled gradient -/
theorem Heap.grad_eq_own [Mul α] (h : Heap α) (hw : h.WF) (i : Nat) (g : α) :
    h.grad i g = (h[i]?).map (fun o => o.scale * g) := by
  unfold Heap.grad
  cases ho : h[i]? with
  | none => rfl
  | some o => simp only [hw i o ho, ho, Option.map_some]

theorem Heap.getElem?_append_old (h : Heap α) (x : LossObj α) (j : Nat) (hj : j < h.length) :
    (h ++ [x])[j]? = h[j]? := List.getElem?_append_left hj

theorem Heap.wf_apply [Mul α] [Div α] (h : Heap α) (hw : h.WF) (o : LossOp α) : (h.apply o).WF := by
  cases o with
  | new s => exact Heap.wf_new h hw s
  | mul i c => exact Heap.wf_mul h hw i c
  | div i c => exact Heap.wf_div h hw i c
  | setScale i s => exact Heap.wf_setScale h hw i s

theorem Heap.wf_run [Mul α] [Div α] (ops : List (LossOp α)) : ∀ h : Heap α, h.WF → (h.run ops).WF := by
  induction ops with
  | nil => intro h hw; exact hw
  | cons o os ih => intro h hw; exact ih _ (Heap.wf_apply h hw o)

theorem map_scale_modify (h : Heap α) (i : Nat) (s : α) :
    (h.modify i (fun o => { o with scale := s })).map (·.scale) = (h.map (·.scale)).modify i (fun _ => s) := by
  apply List.ext_getElem?
  intro j
  simp only [List.getElem?_map, List.getElem?_modify]
  cases h[j]? <;> by_cases hij : i = j <;> simp [hij]

/-- the scales of all objects follow the specification fold -/
theorem Heap.scales_run [Mul α] [Div α] (ops : List (LossOp α)) :
    ∀ h : Heap α, (h.run ops).map (·.scale) = specScales (h.map (·.scale)) ops := by
  induction ops with
  | nil => intro h; rfl
  | cons o os ih =>
    intro h
    cases o with
    | new s => simp only [Heap.run, Heap.apply, specScales]; rw [ih]; simp [Heap.new]
    | mul i c =>
      simp only [Heap.run, Heap.apply, specScales]; rw [ih]
      cases ho : h[i]? with
      | none => simp [Heap.mul, ho]
      | some o => rw [Heap.mul_eq h i c o ho]; simp [ho]
    | div i c =>
      simp only [Heap.run, Heap.apply, specScales]; rw [ih]
      cases ho : h[i]? with
      | none => simp [Heap.div, ho]
      | some o => rw [Heap.div_eq h i c o ho]; simp [ho]
    | setScale i s =>
      simp only [Heap.run, Heap.apply, specScales]; rw [ih]
      simp only [Heap.setScale, map_scale_modify]

end heap

/-! ### 3. attachments -/

/-- index of the last occurrence of `t` in `ss` -/
def lastOcc : List Nat → Nat → Option Nat
  | [], _ => none
  | s :: ss, t =>
    match lastOcc ss t with
    | some j => some (j + 1)
    | none => if s = t then some 0 else none

theorem lastOcc_cons (s : Nat) (ss : List Nat) (t : Nat) :
    lastOcc (s :: ss) t = match lastOcc ss t with
      | some j => some (j + 1)
      | none => if s = t then some 0 else none := rfl

theorem lastOcc_none (ss : List Nat) (t : Nat) (h : lastOcc ss t = none) : ∀ c : Nat, ss[c]? ≠ some t := by
  induction ss with
  | nil => intro c; simp
  | cons a as ih =>
    rw [lastOcc_cons] at h
    cases hla : lastOcc as t with
    | some j => rw [hla] at h; cases h
    | none =>
      rw [hla] at h
      by_cases hat : a = t
      · simp [hat] at h
      · intro c
        cases c with
        | zero => simpa using hat
        | succ c => simpa using ih hla c

theorem lastOcc_spec (ss : List Nat) (t j : Nat) :
    lastOcc ss t = some j ↔ ss[j]? = some t ∧ ∀ c, j < c → ss[c]? ≠ some t := by
  induction ss generalizing j with
  | nil => simp [lastOcc]
  | cons s ss ih =>
    unfold lastOcc
    cases hl : lastOcc ss t with
    | some j' =>
      obtain ⟨h1, h2⟩ := (ih j').mp hl
      simp only [Option.some.injEq]
      constructor
      · rintro rfl
        refine ⟨by simpa using h1, ?_⟩
        intro c hc
        cases c with
        | zero => omega
        | succ c => simpa using h2 c (by omega)
      · rintro ⟨g1, g2⟩
        cases j with
        | zero =>
          have := g2 (j' + 1) (by omega)
          simp [h1] at this
        | succ j =>
          simp only [List.getElem?_cons_succ] at g1
          have hj : lastOcc ss t = some j := (ih j).mpr ⟨g1, fun c hc => by simpa using g2 (c + 1) (by omega)⟩
          rw [hl] at hj; cases hj; rfl
    | none =>
      have hnone : ∀ c : Nat, ss[c]? ≠ some t := lastOcc_none ss t hl
      by_cases hst : s = t
      · simp only [hst, if_true, Option.some.injEq]
        constructor
        · rintro rfl
          exact ⟨by simp, fun c hc => by
            cases c with
            | zero => omega
            | succ c => simpa using hnone c⟩
        · rintro ⟨g1, _⟩
          cases j with
          | zero => rfl
          | succ j => simp only [List.getElem?_cons_succ] at g1; exact absurd g1 (hnone j)
      · simp only [hst, if_false]
        constructor
        · intro h; cases h
        · rintro ⟨g1, _⟩
          cases j with
          | zero => simp at g1; exact absurd g1 hst
          | succ j => simp only [List.getElem?_cons_succ] at g1; exact absurd g1 (hnone j)

/-- the world after a sequence of constructions -/
theorem World.run_spec (ss : List Nat) : ∀ w : World,
    (w.run ss).helperOf = w.helperOf ++ ss ∧
      ∀ t, (w.run ss).backref t =
        match lastOcc ss t with
        | some j => some (w.helperOf.length + j)
        | none => w.backref t := by
  induction ss with
  | nil => intro w; exact ⟨by simp [World.run], fun t => by simp [World.run, lastOcc]⟩
  | cons s ss ih =>
    intro w
    obtain ⟨h1, h2⟩ := ih (w.construct s)
    refine ⟨by rw [World.run, h1]; simp [World.construct], ?_⟩
    intro t
    show ((w.construct s).run ss).backref t = _
    rw [h2 t, lastOcc_cons]
    cases hl : lastOcc ss t with
    | some j =>
      simp only [World.construct, List.length_append, List.length_cons, List.length_nil]
      congr 1
      omega
    | none =>
      by_cases hst : s = t
      · simp [World.construct, hst]
      · have : ¬ t = s := fun h => hst h.symm
        simp [World.construct, hst, this]

theorem lastOcc_nodup (ss : List Nat) (hnd : ss.Nodup) (a : Nat) (s : Nat) (ha : ss[a]? = some s) :
    lastOcc ss s = some a := by
  rw [lastOcc_spec]
  refine ⟨ha, ?_⟩
  intro c hc hcs
  have hlt_a : a < ss.length := by
    by_contra h; rw [List.getElem?_eq_none (by omega)] at ha; cases ha
  have hlt_c : c < ss.length := by
    by_contra h; rw [List.getElem?_eq_none (by omega)] at hcs; cases hcs
  have e1 : ss[a] = s := by rw [List.getElem?_eq_getElem hlt_a] at ha; exact Option.some.inj ha
  have e2 : ss[c] = s := by rw [List.getElem?_eq_getElem hlt_c] at hcs; exact Option.some.inj hcs
  have := (List.Nodup.getElem_inj_iff hnd (hi := hlt_a) (hj := hlt_c)).mp (e1.trans e2.symm)
  omega

/-! ### 4. random generators -/

/-- advancing a key as the wrappers do -/
def adv {κ ρ σ : Type} (R : RngOps κ ρ σ) (k : κ) : κ := (R.split k).1

/-- `n` successive calls, each given the key returned by the previous one -/
def chainCalls {κ ρ σ : Type} (R : RngOps κ ρ σ) (numParams : Nat) (shape : σ ⊕ List σ) :
    Nat → κ → Except Err (List (ρ ⊕ List ρ) × κ)
  | 0, k => .ok ([], k)
  | n + 1, k =>
    match rngCall R numParams 0 none none (some k) none (drawShape R shape) with
    | .error e => .error e
    | .ok (r, k') =>
      match chainCalls R numParams shape n k' with
      | .error e => .error e
      | .ok (rs, kf) => .ok (r :: rs, kf)

theorem chainCalls_spec {κ ρ σ : Type} (R : RngOps κ ρ σ) (numParams : Nat) (hnp : 0 < numParams)
    (shape : σ ⊕ List σ) (n : Nat) : ∀ k,
    chainCalls R numParams shape n k =
      .ok ((List.range n).map (fun i => drawShape R shape (Nat.iterate (adv R) i k)), Nat.iterate (adv R) n k) := by
  induction n with
  | zero => intro k; rfl
  | succ n ih =>
    intro k
    have h0 : ¬ (0 ≥ numParams) := by omega
    have h1 : ¬ (0 > numParams) := by omega
    simp only [chainCalls, rngCall, h0, h1, if_false]
    rw [ih]
    simp only [List.range_succ_eq_map, List.map_cons, List.map_map, Function.iterate_succ, Function.comp_def,
      Function.iterate_zero, id]
    rfl

end Scico.Cache
