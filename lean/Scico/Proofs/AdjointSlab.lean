/-
  Adjoint engine: the slab loops of `XRayTransform3D._project` / `_back_project` (volume processed in chunks of
  `MAX_SLICE_LEN` slices, indices recomputed per chunk with `slice_offset`) compute the whole-volume scatter / gather;
  hence the slab-coded projector is an adjoint pair exactly when the whole-volume one is, and a back-projector that drops
  the slab offset (seeded change C01-m2) is not the adjoint.
-/
import Scico.Proofs.AdjointSignal

namespace Scico.Adjoint
open Finset

theorem sum_slabs {M : Type} [AddCommMonoid M] (B : Nat) (f : Nat → M) :
    ∀ nslab np, np ≤ nslab * B →
      ∑ k ∈ range nslab, ∑ p ∈ range (min B (np - k * B)), f (k * B + p) = ∑ q ∈ range np, f q := by
  intro nslab
  induction nslab with
  | zero =>
    intro np h
    have : np = 0 := by omega
    simp [this]
  | succ n ih =>
    intro np h
    rw [Finset.sum_range_succ]
    by_cases hc : np ≤ n * B
    · rw [ih np hc]
      have : np - n * B = 0 := by omega
      simp [this]
    · have hlt : n * B < np := by omega
      -- the first n slabs are full
      have e1 : ∑ k ∈ range n, ∑ p ∈ range (min B (np - k * B)), f (k * B + p)
          = ∑ k ∈ range n, ∑ p ∈ range (min B (n * B - k * B)), f (k * B + p) := by
        apply Finset.sum_congr rfl
        intro k hk
        have hk' : k < n := Finset.mem_range.mp hk
        have hkB : (k + 1) * B ≤ n * B := Nat.mul_le_mul_right B hk'
        have a1 : min B (np - k * B) = B := by
          apply Nat.min_eq_left
          have : (k + 1) * B = k * B + B := by ring
          omega
        have a2 : min B (n * B - k * B) = B := by
          apply Nat.min_eq_left
          have : (k + 1) * B = k * B + B := by ring
          omega
        rw [a1, a2]
      rw [e1, ih (n * B) (Nat.le_refl _)]
      have hr : np - n * B ≤ B := by
        have : (n + 1) * B = n * B + B := by ring
        omega
      rw [Nat.min_eq_right hr]
      have : np = n * B + (np - n * B) := by omega
      conv_rhs => rw [this, Finset.sum_range_add]

variable {K : Type} [Field K]

/-- the slab loop of the projector computes the whole-volume scatter -/
theorem slabScatter_eq (B nslab np ny : Nat) (h : np ≤ nslab * B) (I : Nat → Nat) (w x : V K) :
    slabScatter B nslab np ny I w x = scatterAddDrop np ny I w x := by
  funext j
  unfold slabScatter scatterAddDrop
  by_cases hj : j < ny
  · simp only [hj, if_true, sumTo_eq]
    exact sum_slabs B (fun q => if I q = j then w q * x q else 0) nslab np h
  · simp [hj, sumTo_eq]

/-- the slab loop of the back-projector computes the whole-volume gather -/
theorem slabGather_eq (B : Nat) (J : Nat → Nat) (w y : V K) : slabGather B J w y = gatherAt J w y := by
  funext p
  have e : p / B * B + p % B = p := by rw [Nat.mul_comm]; exact Nat.div_add_mod p B
  simp [slabGather, gatherAt, e]

theorem scatSlab_eq_scatClamp (B nslab np ny : Nat) (h : np ≤ nslab * B) (I : Nat → Nat) (w : V K) :
    Op.scatSlab B nslab np ny I (fun p => clampIdx ny (I p)) w = Op.scatClamp np ny I w := by
  unfold Op.scatSlab Op.scatClamp
  congr 1
  · funext x; exact slabScatter_eq B nslab np ny h I w x
  · funext y; exact slabGather_eq B _ w y

variable [StarRing K]

theorem scatSlab_isAdj_of_covered (B nslab np ny : Nat) (h : np ≤ nslab * B) (hny : 0 < ny)
    (I : Nat → Nat) (w : V K) (hw : ∀ p, star (w p) = w p) (hcov : ∀ p < np, w p = 0 ∨ I p < ny) :
    IsAdj (Op.scatSlab B nslab np ny I (fun p => clampIdx ny (I p)) w) := by
  rw [scatSlab_eq_scatClamp B nslab np ny h]
  exact scatClamp_isAdj_of_covered np ny hny I w hw hcov

/-- without the slab offset the back-projector is not the adjoint (two voxels in two slabs, identity geometry) -/
theorem scatSlabNoOffset_not_isAdj :
    ¬ IsAdj (Op.scatSlabNoOffset 1 2 2 2 (fun p => p) (fun p => clampIdx 2 p) (fun _ => (1 : K))) := by
  intro h
  have := h (basis 1) (basis 1)
  simp [Op.scatSlabNoOffset, slabScatter, slabGatherNoOffset, scatterAddDrop, gatherAt, clampIdx, ip_eq, sumTo_eq,
    Finset.sum_range_succ, basis] at this

/-! ### the back-projector as coded since e359064 (fill-0 gather) -/

omit [StarRing K] in
theorem slabGatherFill_eq (B ny : Nat) (I : Nat → Nat) (w y : V K) :
    slabGatherFill B ny I w y = gatherFill0 ny I w y := by
  funext p
  have e : p / B * B + p % B = p := by rw [Nat.mul_comm]; exact Nat.div_add_mod p B
  simp [slabGatherFill, gatherFill0, e]

omit [StarRing K] in
theorem scatSlabFill_eq_scatFill (B nslab np ny : Nat) (h : np ≤ nslab * B) (I : Nat → Nat) (w : V K) :
    Op.scatSlabFill B nslab np ny I w = Op.scatFill np ny I w := by
  unfold Op.scatSlabFill Op.scatFill
  congr 1
  · funext x; exact slabScatter_eq B nslab np ny h I w x
  · funext y; exact slabGatherFill_eq B ny I w y

/-- the slab-coded projector term is an adjoint pair for ALL index arrays -/
theorem scatSlabFill_isAdj (B nslab np ny : Nat) (h : np ≤ nslab * B) (I : Nat → Nat) (w : V K)
    (hw : ∀ p, star (w p) = w p) : IsAdj (Op.scatSlabFill B nslab np ny I w) := by
  rw [scatSlabFill_eq_scatFill B nslab np ny h]
  exact scatFill_isAdj np ny I w hw

theorem scatSlabFillNoOffset_not_isAdj :
    ¬ IsAdj (Op.scatSlabFillNoOffset 1 2 2 2 (fun p => p) (fun _ => (1 : K))) := by
  intro h
  have := h (basis 1) (basis 1)
  simp [Op.scatSlabFillNoOffset, slabScatter, slabGatherFillNoOffset, scatterAddDrop, gatherFill0, ip_eq, sumTo_eq,
    Finset.sum_range_succ, basis] at this

/-! ### index maps (`Slice`, `Crop`, `Transpose`, `Reshape`, zero `Pad`; `Sum` is the scatter `Op.scatFill … 1`) -/

theorem imap_isAdj (n m : Nat) (φ : Nat → Nat) : IsAdj (Op.imap (α := K) n m φ) := by
  have h : Op.imap (α := K) n m φ = Op.herm (Op.scatFill m n φ (fun _ => 1)) := rfl
  rw [h]
  exact (isAdj_iff _).mpr (herm_isAdjW test_id ((isAdj_iff _).mp (scatFill_isAdj m n φ _ (fun _ => star_one K))))

/-- zero padding by `lo` in front and `hi` behind: `φ j = j − lo` inside, out of range elsewhere -/
def padMap (n lo : Nat) (j : Nat) : Nat := if lo ≤ j ∧ j < lo + n then j - lo else n

/-- the adjoint of zero padding is cropping: `(Pad.adj y) i = y (lo + i)` -/
theorem pad_adj_is_crop (n lo hi : Nat) (y : V K) (i : Nat) (hi' : i < n) :
    (Op.imap (α := K) n (lo + n + hi) (padMap n lo)).adj y i = y (lo + i) := by
  simp only [Op.imap, scatterAddDrop, hi', if_true, sumTo_eq, one_mul]
  rw [Finset.sum_eq_single (lo + i)]
  · simp [padMap, hi']
  · intro j _ hj
    have : padMap n lo j ≠ i := by
      unfold padMap
      split
      · omega
      · omega
    simp [this]
  · intro h
    exact absurd (Finset.mem_range.mpr (by omega)) h

end Scico.Adjoint
