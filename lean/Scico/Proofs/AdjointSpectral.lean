/-
  Adjoint engine: `CircularConvolve._adj` as coded in the transform domain is the adjoint of `_eval` as coded, for every
  `h_dft`, given only `ifftn = s·fftnᴴ` (`s` real); the real-part wrappers of `self.real` / real input spaces.
-/
import Scico.Proofs.AdjointComplex

namespace Scico.Adjoint
open Finset Complex

section field
variable {K : Type} [Field K] [StarRing K]

/-- if the inverse transform is a self-adjoint multiple of the conjugate transpose of the forward transform
    (`ifftn = (1/N)·fftnᴴ`), multiplication by `conj(h_dft)` in the transform domain is the adjoint of multiplication by
    `h_dft` — for EVERY `h_dft` -/
theorem spectral_isAdj (n : Nat) (F G : Nat → Nat → K) (s : K) (hs : star s = s)
    (hG : ∀ i < n, ∀ f < n, G i f = s * star (F f i)) (D : V K) : IsAdj (Op.spectral n F G D) := by
  intro x y
  simp only [Op.spectral, ip_eq, mulVec, sumTo_eq, conj_eq_star]
  -- both sides = Σ_i Σ_f Σ_j  s · star(F f i) · D f · F f j · x j · star(y i)
  have L : ∀ i ∈ range n, (∑ f ∈ range n, G i f * (D f * ∑ j ∈ range n, F f j * x j)) * star (y i)
      = ∑ f ∈ range n, ∑ j ∈ range n, s * star (F f i) * D f * F f j * x j * star (y i) := by
    intro i hi
    rw [Finset.sum_mul]
    apply Finset.sum_congr rfl
    intro f hf
    rw [hG i (mem_range.mp hi) f (mem_range.mp hf), Finset.mul_sum, Finset.mul_sum, Finset.sum_mul]
    apply Finset.sum_congr rfl
    intro j _
    ring
  have R : ∀ j ∈ range n, x j * star (∑ f ∈ range n, G j f * (star (D f) * ∑ i ∈ range n, F f i * y i))
      = ∑ f ∈ range n, ∑ i ∈ range n, s * star (F f i) * D f * F f j * x j * star (y i) := by
    intro j hj
    rw [star_sum, Finset.mul_sum]
    apply Finset.sum_congr rfl
    intro f hf
    rw [hG j (mem_range.mp hj) f (mem_range.mp hf)]
    simp only [star_mul', star_star, star_sum, hs, Finset.mul_sum]
    apply Finset.sum_congr rfl
    intro i _
    ring
  rw [Finset.sum_congr rfl L, Finset.sum_congr rfl R]
  rw [Finset.sum_comm]
  conv_rhs => rw [Finset.sum_comm]
  apply Finset.sum_congr rfl
  intro f _
  rw [Finset.sum_comm]

/-- the 1-D DFT pair `F f j = ζ^(j f)`, `G i f = n⁻¹ ζ⁻¹^(i f)` with `ζ` on the unit circle satisfies the hypothesis -/
theorem dft_pair (n : Nat) (ζ : K) (hζ : star ζ = ζ⁻¹) (i f : Nat) :
    (n : K)⁻¹ * ζ⁻¹ ^ (i * f) = (n : K)⁻¹ * star (ζ ^ (i * f)) := by
  simp [star_pow, hζ]

theorem star_natCast_inv (n : Nat) : star ((n : K)⁻¹) = (n : K)⁻¹ := by
  simp [star_inv₀]

theorem isAdjRe_of_isAdj {A : Op K} (h : IsAdj A) : IsAdjRe A := by
  intro x y
  rw [h x y]

end field

theorem re_ip_vre_left (n : Nat) (u w : V ℂ) : (ip n (vre u) w).re = (ip n u (vre w)).re := by
  simp [ip_eq, vre, Complex.re_sum, Complex.mul_re]

theorem wrapRR_isAdjRe {A : Op ℂ} (hA : IsAdjRe A) : IsAdjRe (Op.wrapRR creal A) := by
  rw [isAdjRe_iff] at hA ⊢
  intro x y
  show (ip A.nout (vre (A.eval (vre x))) y).re = (ip A.nin x (vre (A.adj (vre y)))).re
  rw [re_ip_vre_left, hA (vre x) (vre y), re_ip_vre_left]

theorem wrapRC_isAdjRe {A : Op ℂ} (hA : IsAdjRe A) : IsAdjRe (Op.wrapRC creal A) := by
  rw [isAdjRe_iff] at hA ⊢
  intro x y
  show (ip A.nout (A.eval (vre x)) y).re = (ip A.nin x (vre (A.adj y))).re
  rw [hA (vre x) y, re_ip_vre_left]

end Scico.Adjoint

namespace Scico.Adjoint
open Finset

/-! ### the N-d DFT pair (`fftn` / `ifftn` over several axes): Kronecker product of 1-D transforms -/

section kron
variable {K : Type} [Field K] [StarRing K]

/-- number of entries of an array of the given dims -/
def dimsProd : List Nat → Nat
  | [] => 1
  | d :: ds => d * dimsProd ds

/-- entry `(f, j)` of the matrix of `fftn` over axes of lengths `ds` (row-major flattening) with the roots `zs`
    (`z_a = exp(−2πi/d_a)`): `Π_a z_a ^ (j_a · f_a)` over the digits of `j`, `f` -/
def kronF : List Nat → List K → Nat → Nat → K
  | d :: ds, z :: zs, f, j =>
      z ^ ((j / dimsProd ds % d) * (f / dimsProd ds % d)) * kronF ds zs (f % dimsProd ds) (j % dimsProd ds)
  | _, _, _, _ => 1

/-- the conjugate of an entry is the entry of the transposed matrix with the inverse roots -/
theorem star_kronF (ds : List Nat) (zs : List K) (hz : ∀ z ∈ zs, star z = z⁻¹) (f j : Nat) :
    star (kronF ds zs f j) = kronF ds (zs.map (·⁻¹)) j f := by
  induction ds generalizing zs f j with
  | nil => cases zs <;> simp [kronF]
  | cons d ds ih =>
    cases zs with
    | nil => simp [kronF]
    | cons z zs =>
      simp only [kronF, List.map_cons, star_mul', star_pow]
      rw [hz z (by simp), ih zs (fun w hw => hz w (by simp [hw])), Nat.mul_comm]

/-- `fftn`/`ifftn` over any number of axes (norm=None: `ifftn = N⁻¹·conj-transpose`) is a pair as `C01_circ_dft_domain`
    requires -/
theorem kron_pair (ds : List Nat) (zs : List K) (hz : ∀ z ∈ zs, star z = z⁻¹) (N : Nat) (i f : Nat) :
    (N : K)⁻¹ * kronF ds (zs.map (·⁻¹)) i f = (N : K)⁻¹ * star (kronF ds zs f i) := by
  rw [star_kronF ds zs hz f i]

end kron

end Scico.Adjoint
