/-
  Soundness of `MatrixOperator`: constructor, views, arithmetic, `__call__` branches.
-/
import Scico.Proofs.OpAlgLin

namespace Scico.OpAlg
open Scico.DType
attribute [local instance] starConj
set_option linter.unusedSectionVars false

section
variable {K : Type} [Field K] [StarRing K] [HasRe K]

@[simp] theorem size_plain_single (n : Nat) : (Shape.plain [n]).size = n := by
  simp [Shape.size, prodL]

/-- the payload link only looks at the `m × n` extent of the denoted matrix -/
theorem PayloadIs.congr {o : Obj K} {D E : Mx K} (h : PayloadIs o D)
    (hDE : ∀ i j, i < o.m → j < o.n → D i j = E i j) : PayloadIs o E := by
  unfold PayloadIs at *
  split
  · rename_i hc
    simp only [hc] at h
    refine ⟨?_, h.2⟩
    intro i j
    rw [h.1 i j]
    by_cases hij : i < o.m ∧ j < o.n
    · simp [hij, hDE i j hij.1 hij.2]
    · simp [hij]
  · rename_i hc
    simp only [hc] at h
    refine ⟨h.1, h.2.1, ?_⟩
    intro i j hi hj
    rw [← hDE i j hi hj]; exact h.2.2 i j hi hj
  · rename_i hc
    simp only [hc] at h
    refine ⟨h.1, ?_⟩
    intro i j hi hj
    have hm : o.m = o.n := by simp only [Obj.m, Obj.n, h.1]
    rw [← hDE i j (hm ▸ hi) hj]; exact h.2 i j hi hj
  · rename_i hc
    simp only [hc] at h
    refine ⟨h.1, h.2.1, ?_⟩
    intro i j hi hj
    have hm : o.m = o.n := by simp only [Obj.m, Obj.n, h.1]
    rw [← hDE i j (hm ▸ hi) hj]; exact h.2.2 i j hi hj
  · trivial

theorem Sound.congr {o : Obj K} {D E : Mx K} (h : Sound o D)
    (hDE : ∀ i j, i < o.m → j < o.n → D i j = E i j) : Sound o E :=
  { lin := h.lin, ev := h.ev.congr hDE, ad := h.ad.congr hDE, pl := h.pl.congr hDE, mode := h.mode,
    evSz := h.evSz, adSz := h.adSz }

/-- `MatrixOperator(A)` denotes `A` -/
theorem mkMat_sound (m n : Nat) (dt : DT) (A D : Mx K)
    (hAD : ∀ i j, i < m → j < n → A i j = D i j) (hmode : RealK K ∨ dt.isComplex = true) :
    Sound (mkMat m n dt A) D :=
  { lin := by simp [mkMat]
    evSz := fun x => by simp [mkMat, Obj.m, vmulVec, trunc]
    adSz := fun y => by simp [mkMat, Obj.n, vmulVecH, trunc]
    ev := by
      intro x i
      simp only [mkMat, vmulVec_get, Obj.m, Obj.n, size_plain_single]
      by_cases hi : i < m
      · simp only [hi, if_true]
        unfold mulVec
        apply sumTo_congr; intro j hj
        simp [hi, hj, hAD i j hi hj]
      · simp [hi]
    ad := by
      intro y j
      simp only [mkMat, vmulVecH_get, Obj.m, Obj.n, size_plain_single]
      by_cases hj : j < n
      · simp only [hj, if_true]
        unfold mulVecH
        apply sumTo_congr; intro i hi
        simp [hi, hj, hAD i j hi hj]
      · simp [hj]
    pl := by
      show (∀ i j, (truncM m n A).get i j
            = if i < (mkMat m n dt A).m ∧ j < (mkMat m n dt A).n then D i j else 0)
          ∧ Shape.plain [n] = Shape.plain [(mkMat m n dt A).n]
          ∧ Shape.plain [m] = Shape.plain [(mkMat m n dt A).m]
          ∧ (mkMat m n dt A).evalDt = (fun dx => .ok (resultType dt dx))
      have hm : (mkMat m n dt A).m = m := by simp [mkMat, Obj.m]
      have hn : (mkMat m n dt A).n = n := by simp [mkMat, Obj.n]
      rw [hm, hn]
      refine ⟨?_, rfl, rfl, rfl⟩
      intro i j
      by_cases hij : i < m ∧ j < n
      · simp [hij, hAD i j hij.1 hij.2]
      · simp [hij]
    mode := by
      rcases hmode with h | h
      · exact Or.inl h
      · exact Or.inr ⟨h, h, h⟩ }

@[simp] theorem mkMat_m (m n : Nat) (dt : DT) (A : Mx K) : (mkMat m n dt A).m = m := by
  simp [mkMat, Obj.m]
@[simp] theorem mkMat_n (m n : Nat) (dt : DT) (A : Mx K) : (mkMat m n dt A).n = n := by
  simp [mkMat, Obj.n]

/-- what the payload of a `MatrixOperator` says -/
theorem mat_payload {a : Obj K} {Da : Mx K} (ha : Sound a Da) (hc : a.md.cls = .matrix) :
    (∀ i j, i < a.m → j < a.n → a.mat.get i j = Da i j)
    ∧ a.md.inShape = .plain [a.n] ∧ a.md.outShape = .plain [a.m]
    ∧ a.evalDt = (fun dx => .ok (resultType a.md.inDt dx)) := by
  have h := ha.pl
  simp only [PayloadIs, hc] at h
  refine ⟨?_, h.2⟩
  intro i j hi hj
  rw [h.1 i j]; simp [hi, hj]

theorem Sound.modeIn {a : Obj K} {Da : Mx K} (ha : Sound a Da) : RealK K ∨ a.md.inDt.isComplex = true := by
  rcases ha.mode with h | h
  · exact Or.inl h
  · exact Or.inr h.inC

theorem matNeg_sound {a : Obj K} {Da : Mx K} (ha : Sound a Da) (hc : a.md.cls = .matrix) :
    Sound (matNeg a) (fun i j => - Da i j) := by
  obtain ⟨hA, _⟩ := mat_payload ha hc
  exact mkMat_sound _ _ _ _ _ (fun i j hi hj => by rw [hA i j hi hj]) ha.modeIn

theorem matTop_sound {a : Obj K} {Da : Mx K} (ha : Sound a Da) (hc : a.md.cls = .matrix) :
    Sound (matTop a) (matT Da) := by
  obtain ⟨hA, _⟩ := mat_payload ha hc
  exact mkMat_sound _ _ _ _ _ (fun i j hi hj => by simp only [matT]; rw [hA j i hj hi]) ha.modeIn

theorem matHop_sound {a : Obj K} {Da : Mx K} (ha : Sound a Da) (hc : a.md.cls = .matrix) :
    Sound (matHop a) (matH Da) := by
  obtain ⟨hA, _⟩ := mat_payload ha hc
  exact mkMat_sound _ _ _ _ _ (fun i j hi hj => by simp only [matH]; rw [hA j i hj hi]) ha.modeIn

theorem matConjOp_sound {a : Obj K} {Da : Mx K} (ha : Sound a Da) (hc : a.md.cls = .matrix) :
    Sound (matConjOp a) (matConj Da) := by
  obtain ⟨hA, _⟩ := mat_payload ha hc
  exact mkMat_sound _ _ _ _ _ (fun i j hi hj => by simp only [matConj]; rw [hA i j hi hj]) ha.modeIn

theorem matGram_sound {a : Obj K} {Da : Mx K} (ha : Sound a Da) (hc : a.md.cls = .matrix) :
    Sound (matGram a) (matMul a.m (matH Da) Da) := by
  obtain ⟨hA, _⟩ := mat_payload ha hc
  refine mkMat_sound _ _ _ _ _ (fun i j hi hj => ?_) ha.modeIn
  unfold matMul matH
  apply sumTo_congr; intro l hl
  show conj (a.mat.get l i) * a.mat.get l j = conj (Da l i) * Da l j
  rw [hA l i hl hi, hA l j hl hj]

theorem rt_mode {a b : Obj K} (ha : Mode a) (hb : Mode b) :
    RealK K ∨ (resultType a.md.inDt b.md.inDt).isComplex = true := by
  rcases ha with h | h
  · exact Or.inl h
  · exact Or.inr (rt_complex_left h.inC)

theorem rtS_mode {a : Obj K} (ha : Mode a) (s : SK) :
    RealK K ∨ (resultTypeS a.md.inDt s).isComplex = true := by
  rcases ha with h | h
  · exact Or.inl h
  · exact Or.inr (rtS_complex s h.inC)

/-- `_wrap_add_sub_matrix` -/
theorem matAddSub_sound (sub : Bool) {a b o : Obj K} {Da Db : Mx K} (ha : Sound a Da)
    (hb : Sound b Db) (hc : a.md.cls = .matrix) (h : matAddSub sub a b = .ok o) :
    Sound o (fun i j => pm sub (Da i j) (Db i j)) := by
  unfold matAddSub at h
  split at h
  · rename_i hcb
    split at h
    · rename_i hs
      injection h with h; subst h
      obtain ⟨hA, _⟩ := mat_payload ha hc
      obtain ⟨hB, _⟩ := mat_payload hb hcb
      refine mkMat_sound _ _ _ _ _ (fun i j hi hj => ?_) (rt_mode ha.mode hb.mode)
      rw [hA i j hi hj, hB i j (sameShape_m hs ▸ hi) (sameShape_n hs ▸ hj)]
    · cases h
  · split at h
    · cases h
    · rename_i hs
      have hs' : a.sameShape b = true := by simpa using hs
      split at h
      · injection h with h; subst h
        exact linAddSub_sound sub ha hb hs'
      · rename_i hl
        exact absurd (by simpa [Cls.isLinop] using hl) hb.lin

theorem matMulS_sound {a o : Obj K} {Da : Mx K} (c : Scal K) (ha : Sound a Da)
    (hc : a.md.cls = .matrix) (h : matMulS a c = .ok o) : Sound o (fun i j => c.val * Da i j) := by
  obtain ⟨hA, _⟩ := mat_payload ha hc
  unfold matMulS at h
  split at h
  · cases h
  · split at h
    · injection h with h; subst h
      exact mkMat_sound _ _ _ _ _ (fun i j hi hj => by rw [hA i j hi hj]) (rtS_mode ha.mode _)
    · split at h <;> cases h

theorem matDivS_sound {a o : Obj K} {Da : Mx K} (c : Scal K) (ha : Sound a Da)
    (hc : a.md.cls = .matrix) (h : matDivS a c = .ok o) : Sound o (fun i j => Da i j / c.val) := by
  obtain ⟨hA, _⟩ := mat_payload ha hc
  unfold matDivS at h
  split at h
  · cases h
  · split at h
    · injection h with h; subst h
      exact mkMat_sound _ _ _ _ _ (fun i j hi hj => by rw [hA i j hi hj]) (rtS_mode ha.mode _)
    · split at h <;> cases h

theorem matRDivS_sound {a o : Obj K} {Da : Mx K} (c : Scal K) (ha : Sound a Da)
    (hc : a.md.cls = .matrix) (h : matRDivS a c = .ok o) :
    Sound o (truncM a.m a.n (fun i j => c.val / Da i j)).get := by
  obtain ⟨hA, _⟩ := mat_payload ha hc
  unfold matRDivS at h
  split at h
  · cases h
  · split at h
    · injection h with h; subst h
      exact mkMat_sound _ _ _ _ _ (fun i j hi hj => by simp [hi, hj, hA i j hi hj]) (rtS_mode ha.mode _)
    · split at h <;> cases h

theorem matAddSubS_sound (sub rev : Bool) {a o : Obj K} {Da : Mx K} (c : Scal K) (ha : Sound a Da)
    (hc : a.md.cls = .matrix) (h : matAddSubS sub rev a c = .ok o) :
    Sound o (truncM a.m a.n
      (fun i j => if rev then pm sub c.val (Da i j) else pm sub (Da i j) c.val)).get := by
  obtain ⟨hA, _⟩ := mat_payload ha hc
  unfold matAddSubS at h
  split at h
  · cases h
  · split at h
    · injection h with h; subst h
      exact mkMat_sound _ _ _ _ _ (fun i j hi hj => by simp [hi, hj, hA i j hi hj]) (rtS_mode ha.mode _)
    · split at h <;> cases h

theorem matHadamard_sound (div : Bool) {a b o : Obj K} {Da Db : Mx K} (ha : Sound a Da)
    (hb : Sound b Db) (hc : a.md.cls = .matrix) (h : matHadamard div a b = .ok o) :
    Sound o (fun i j => if div then Da i j / Db i j else Da i j * Db i j) := by
  unfold matHadamard at h
  split at h
  · rename_i hcb
    split at h
    · rename_i hs
      injection h with h; subst h
      obtain ⟨hA, _⟩ := mat_payload ha hc
      obtain ⟨hB, _⟩ := mat_payload hb hcb
      refine mkMat_sound _ _ _ _ _ (fun i j hi hj => ?_) (rt_mode ha.mode hb.mode)
      rw [hA i j hi hj, hB i j (sameShape_m hs ▸ hi) (sameShape_n hs ▸ hj)]
    · cases h
  · cases h


/-- `LinearOperator(…, eval_fn)` whose adjoint is created by `_set_adjoint` -/
theorem mkLinAuto_sound (inSh outSh : Shape) (inDt outDt : DT) (eval : Vc K → Vc K) (evalDt : DtFn)
    (D : Mx K)
    (hev : ∀ (x : Vc K) (i : Nat), (eval x).get i = if i < outSh.size then mulVec inSh.size D x.get i else 0)
    (hsz : ∀ x : Vc K, (eval x).size = outSh.size)
    (hmode : RealK K ∨ (inDt.isComplex = true ∧ outDt.isComplex = true)) :
    Sound (mkLinAuto inSh outSh inDt outDt eval evalDt) D :=
  { lin := by simp [mkLinAuto]
    evSz := fun x => by simp only [mkLinAuto, mkLin_eval, mkLin_m]; exact hsz x
    adSz := fun y => by simp only [mkLinAuto, mkLin_adj, mkLin_n]; exact autoAdjWith_size _ _ _ _ _ _
    pl := by simp [PayloadIs, mkLinAuto, mkLin]
    ev := by
      intro x i
      simp only [mkLinAuto, mkLin_eval, mkLin_m, mkLin_n]
      exact hev x i
    ad := by
      intro y j
      simp only [mkLinAuto, mkLin_adj, mkLin_m, mkLin_n]
      exact autoAdj_adjIs _ _ inDt _ eval D hev (hmode.imp id (fun h => h.1)) y j
    mode := by
      rcases hmode with h | h
      · exact Or.inl h
      · exact Or.inr ⟨h.1, h.2, h.1⟩ }

/-- payload of `ScaledIdentity` / `Identity` in one form -/
theorem sid_payload {a : Obj K} {Da : Mx K} (ha : Sound a Da)
    (hc : a.md.cls = .scaledId ∨ a.md.cls = .ident) :
    a.md.inShape = a.md.outShape
    ∧ ∀ i j, i < a.n → j < a.n → Da i j = if i = j then a.dat.get 0 else 0 := by
  have h := ha.pl
  rcases hc with hc | hc
  · simp only [PayloadIs, hc] at h; exact h
  · simp only [PayloadIs, hc] at h
    refine ⟨h.1, ?_⟩
    intro i j hi hj
    rw [h.2.2 i j hi hj, h.2.1]

/-- `A · (c I) = c A` on the extent -/
theorem matMul_sid_right (k : Nat) (A B : Mx K) (c : K)
    (hB : ∀ i j, i < k → j < k → B i j = if i = j then c else 0) (i j : Nat) (hj : j < k) :
    matMul k A B i j = A i j * c := by
  unfold matMul
  have : ∀ l, l < k → A i l * B l j = if l = j then A i l * c else 0 := by
    intro l hl
    rw [hB l j hl hj]
    by_cases h : l = j <;> simp [h]
  rw [sumTo_congr this, sumTo_ite_eq]
  simp [hj]

/-- `(c I) · B = c B` on the extent -/
theorem matMul_sid_left (k : Nat) (A B : Mx K) (c : K)
    (hA : ∀ i j, i < k → j < k → A i j = if i = j then c else 0) (i j : Nat) (hi : i < k) :
    matMul k A B i j = c * B i j := by
  unfold matMul
  have : ∀ l, l < k → A i l * B l j = if i = l then c * B l j else 0 := by
    intro l hl
    rw [hA i l hi hl]
    by_cases h : i = l <;> simp [h]
  rw [sumTo_congr this, sumTo_ite_eq']
  simp [hi]

/-- `MatrixOperator.__call__` on a `LinearOperator` -/
theorem matCall_sound (cfg : Cfg) {a b o : Obj K} {Da Db : Mx K} (ha : Sound a Da) (hb : Sound b Db)
    (hc : a.md.cls = .matrix) (h : matCall cfg a b = .ok o) : Sound o (matMul a.n Da Db) := by
  have hbl : b.md.cls.isLinop = true := by
    have := hb.lin
    simp only [Cls.isLinop, bne_iff_ne, ne_eq]; exact this
  unfold matCall at h
  rw [if_pos hbl] at h
  split at h
  · rename_i hsh
    have hk : a.n = b.m := by simp only [Obj.n, Obj.m, hsh]
    obtain ⟨hA, _, _, hAdt⟩ := mat_payload ha hc
    split at h
    · -- Identity: the matrix operator itself
      rename_i hid
      injection h with h; subst h
      obtain ⟨hio, hI⟩ := sid_payload hb (Or.inr hid)
      have hnn : b.n = b.m := by simp only [Obj.n, Obj.m, hio]
      have hI1 : b.dat.get 0 = 1 := by
        have := hb.pl; simp only [PayloadIs, hid] at this; exact this.2.1
      refine ha.congr (fun i j _ hj => ?_)
      rw [matMul_sid_right a.n Da Db 1 (fun i j hi hj => by
        rw [hI i j (by omega) (by omega), hI1]) i j hj]
      ring
    · split at h
      · -- MatrixOperator: product of the arrays
        rename_i hcb
        injection h with h; subst h
        obtain ⟨hB, _⟩ := mat_payload hb hcb
        refine mkMat_sound _ _ _ _ _ (fun i j hi hj => ?_) (rt_mode ha.mode hb.mode)
        unfold matMul
        apply sumTo_congr; intro l hl
        rw [hA i l hi hl, hB l j (hk ▸ hl) hj]
      · -- generic LinearOperator: closure composition, adjoint by transposition
        dsimp only at h
        generalize hI : (if cfg.matCall = true then b.md.inDt else a.md.inDt) = inDt at h
        split at h
        · cases h
        · rename_i outDt hout
          injection h with h; subst h
          refine mkLinAuto_sound _ _ _ _ _ _ _ ?_ (fun x => ha.evSz _) ?_
          · intro x i
            rw [ha.ev (b.eval x) i]
            by_cases hi : i < a.m
            · simp only [hi, if_true]
              rw [← mulVec_mulVec]
              apply mulVec_congr_right
              intro j hj
              rw [hb.ev x j]
              simp [hk ▸ hj]
            · simp [hi]
          · rcases Mode.both ha.mode hb.mode with h | ⟨h1, h2⟩
            · exact Or.inl h
            · refine Or.inr ⟨?_, ?_⟩
              · rw [← hI]; split
                · exact h2.inC
                · exact h1.inC
              · -- the inferred output dtype is result_type(A.dtype, ·): complex
                simp only [hAdt] at hout
                cases hbe : b.evalDt inDt with
                | error e => simp [hbe, bind, Except.bind] at hout
                | ok d =>
                  simp only [hbe, bind, Except.bind] at hout
                  injection hout with hout
                  rw [← hout]
                  exact rt_complex_left h1.inC
  · cases h

end
end Scico.OpAlg
