/-
  Adjoint engine: the views `.H`, `.T`, `.conj()` in matrix form, and the recorded behaviour of the pinned tree
  (`.T` of a complex operator, `DiagonalStack._adj`) as proved negations.
-/
import Scico.Proofs.AdjointLeaves

namespace Scico.Adjoint
open Finset

variable {K : Type} [Field K] [StarRing K]

/-- `.H` applies the conjugate transpose of the operator's matrix -/
theorem herm_matrix {A : Op K} {M : Nat → Nat → K} (hA : IsAdj A) (hM : IsMat A M) :
    ∀ y, ∀ j < A.nin, (Op.herm A).eval y j = ∑ i ∈ range A.nout, star (M i j) * y i :=
  adj_unique hA hM

/-- `.T` (complex branch) applies the plain, unconjugated transpose -/
theorem tr_matrix {A : Op K} {M : Nat → Nat → K} (hA : IsAdj A) (hM : IsMat A M) :
    ∀ y, ∀ j < A.nin, (Op.tr true A).eval y j = ∑ i ∈ range A.nout, M i j * y i := by
  intro y j hj
  simp only [Op.tr, if_true, vconj, conj_eq_star]
  rw [adj_unique hA hM _ j hj, star_sum]
  apply Finset.sum_congr rfl
  intro i _
  simp [star_mul', vconj, conj_eq_star]

/-- `.conj()` applies the entrywise conjugate matrix -/
theorem cj_matrix {A : Op K} {M : Nat → Nat → K} (hM : IsMat A M) :
    ∀ x, ∀ i < A.nout, (Op.cj A).eval x i = ∑ j ∈ range A.nin, star (M i j) * x j := by
  intro x i hi
  simp only [Op.cj, vconj, conj_eq_star]
  rw [hM _ i hi, star_sum]
  apply Finset.sum_congr rfl
  intro j _
  simp [star_mul', vconj, conj_eq_star]

/-- for a real matrix the transpose view (either dtype branch) coincides with the Hermitian view -/
theorem real_tr_eq_herm {A : Op K} {M : Nat → Nat → K} (hA : IsAdj A) (hM : IsMat A M)
    (hreal : ∀ i j, star (M i j) = M i j) (c : Bool) :
    ∀ y, ∀ j < A.nin, (Op.tr c A).eval y j = (Op.herm A).eval y j := by
  intro y j hj
  cases c with
  | false => simp [Op.tr]
  | true =>
    rw [tr_matrix hA hM y j hj, herm_matrix hA hM y j hj]
    simp [hreal]

/-! ### the pinned `.T`: `adj_fn = self.__call__` -/

/-- `trPinned` is an adjoint pair iff `A` commutes with conjugation in the pairing (i.e. its matrix is real) -/
theorem trPinned_isAdj_of_real {A : Op K} (hA : IsAdj A)
    (hreal : ∀ x, A.eval (vconj x) = vconj (A.eval x)) : IsAdj (Op.trPinned A) := by
  have h := tr_isAdjW test_id ((isAdj_iff A).mp hA) true
  intro x y
  have := h x y
  simp only [Op.tr, if_true, id] at this
  simp only [Op.trPinned]
  rw [this, hreal]
  congr 1
  funext i
  simp [vconj, conj_eq_star]

/-- witness: the 1×1 operator "multiply by `c`" with `star c ≠ c`: the pinned `.T` violates the adjoint identity -/
theorem trPinned_not_adjoint (c : K) (hc : star c ≠ c) :
    ¬ IsAdj (Op.trPinned (Op.mat 1 1 (fun _ _ => c))) := by
  intro h
  have := h (basis 0) (basis 0)
  simp [Op.trPinned, Op.mat, ip, sumTo, vconj, basis, conj_eq_star] at this
  exact hc this.symm

/-! ### the pinned `DiagonalStack._adj`: `op.T @ y_n` -/

theorem dconsPinned_not_adjoint (c : K) (hc : star c ≠ c) :
    ¬ IsAdj (Op.dconsPinned true (Op.mat 1 1 (fun _ _ => c)) Op.dnil) := by
  intro h
  have := h (basis 0) (basis 0)
  simp [Op.dconsPinned, Op.tr, Op.mat, Op.dnil, ip, sumTo, vconj, vappend, vzero, basis, conj_eq_star] at this
  exact hc this.symm

/-! ### the pinned `DiagonalReplicated`: adjoint mapped with `in_axes=input_axis, out_axes=output_axis` -/

/-- witness: `A = [[0,1],[0,0]]`, two replicates, input axis 0 (`Qi = 2`), output axis 1 (`Qo = 1`) -/
theorem drepPinned_not_adjoint :
    ¬ IsAdj (Op.drepPinned 2 2 1 (Op.mat 2 2 (fun i j => if i = 0 ∧ j = 1 then (1 : K) else 0))) := by
  intro h
  have := h (basis 1) (basis 0)
  simp [Op.drepPinned, Op.mat, Op.slab, Op.repIx, Op.repR, Op.repJ, ip, sumTo, basis, conj_eq_star] at this

end Scico.Adjoint
