/-
  Expressions over plain (non-block) shapes: every object scico builds has plain shapes, hence the side
  condition `PlainDiagProducts` of the main theorem holds automatically (`plainShapes_products`).
-/
import Scico.Proofs.OpAlgMain
import Scico.Proofs.OpAlgDt

namespace Scico.OpAlg
open Scico.DType
attribute [local instance] starConj
set_option linter.unusedSectionVars false

section
variable {K : Type} [Field K] [StarRing K] [HasRe K]

def Shape.isPlain : Shape → Prop
  | .plain _ => True
  | .nested _ => False

/-- all declared shapes of the object are plain -/
structure PS (o : Obj K) : Prop where
  inP : o.md.inShape.isPlain
  outP : o.md.outShape.isPlain
  datP : o.md.datShape.isPlain

theorem isPlain_iff {s : Shape} : s.isPlain ↔ ∃ d, s = .plain d := by
  cases s with
  | plain d => exact ⟨fun _ => ⟨d, rfl⟩, fun _ => trivial⟩
  | nested b => exact ⟨fun h => h.elim, fun ⟨d, h⟩ => by cases h⟩

theorem bshapeS_isPlain {a b out : Shape} (ha : a.isPlain) (hb : b.isPlain)
    (h : bshapeS a b = .ok out) : out.isPlain := by
  obtain ⟨da, rfl⟩ := isPlain_iff.mp ha
  obtain ⟨db, rfl⟩ := isPlain_iff.mp hb
  obtain ⟨r, hr, _⟩ := bshapeS_plain h
  rw [hr]; trivial

theorem mkMat_ps (m n : Nat) (dt : DT) (A : Mx K) : PS (mkMat m n dt A) := ⟨trivial, trivial, trivial⟩

theorem mkDiag_ps {d : V K} {dsh : Shape} {ddt : DT} {inSh : Shape} {inDt : DT} {o : Obj K}
    (h1 : dsh.isPlain) (h2 : inSh.isPlain) (h : mkDiag Cfg.fixed d dsh ddt inSh inDt = .ok o) : PS o := by
  unfold mkDiag at h
  split at h
  · cases h
  · rename_i outSh hout
    injection h with h; subst h
    exact ⟨h2, bshapeS_isPlain h2 h1 hout, h1⟩

theorem rediag_ps {d : V K} {dsh : Shape} {ddt : DT} {inSh : Shape} {inDt? : Option DT} {o : Obj K}
    (h1 : dsh.isPlain) (h2 : inSh.isPlain) (h : rediag Cfg.fixed d dsh ddt inSh inDt? = .ok o) : PS o := by
  unfold rediag at h
  exact mkDiag_ps h1 h2 h

theorem mkSid_ps (c : K) (sk : SK) (sh : Shape) (dt : DT) (h : sh.isPlain) :
    PS (mkSid Cfg.fixed c sk sh dt) := ⟨h, h, h⟩

theorem mkLin_ps (cls : Cls) (inSh outSh : Shape) (a b : DT) (ev ad : Vc K → Vc K) (f g : DtFn)
    (h1 : inSh.isPlain) (h2 : outSh.isPlain) : PS (mkLin cls inSh outSh a b ev ad f g) := ⟨h1, h2, h1⟩

theorem mkOp_ps (inSh outSh : Shape) (a b : DT) (ev : Vc K → Vc K) (f : DtFn)
    (h1 : inSh.isPlain) (h2 : outSh.isPlain) : PS (mkOp inSh outSh a b ev f) := ⟨h1, h2, h1⟩

theorem diagonal_ps {a : Obj K} (ha : PS a) : a.diagonal.2.1.isPlain := by
  unfold Obj.diagonal
  split
  · exact ha.inP
  · exact ha.inP
  · exact ha.datP

theorem PS.plainObj {a : Obj K} (ha : PS a) : PlainObj a := by
  obtain ⟨i, hi⟩ := isPlain_iff.mp ha.inP
  obtain ⟨d, hd⟩ := isPlain_iff.mp (diagonal_ps ha)
  exact ⟨i, d, hi, hd⟩

theorem opAddSub_ps (sub : Bool) {a b o : Obj K} (ha : PS a) (h : opAddSub sub a b = .ok o) : PS o := by
  unfold opAddSub at h
  split at h
  · injection h with h; subst h; exact mkOp_ps _ _ _ _ _ _ ha.inP ha.outP
  · cases h

theorem linAddSub_ps (sub : Bool) {a b : Obj K} (ha : PS a) : PS (linAddSub sub a b) :=
  mkLin_ps _ _ _ _ _ _ _ _ _ ha.inP ha.outP

theorem matAddSub_ps (sub : Bool) {a b o : Obj K} (ha : PS a) (h : matAddSub sub a b = .ok o) : PS o := by
  unfold matAddSub at h
  split at h
  · split at h
    · injection h with h; subst h; exact mkMat_ps _ _ _ _
    · cases h
  · split at h
    · cases h
    · split at h
      · injection h with h; subst h; exact linAddSub_ps sub ha
      · exact opAddSub_ps sub ha h

theorem addSub_ps (sub : Bool) {a b o : Obj K} (ha : PS a) (hb : PS b)
    (h : addSub Cfg.fixed sub a b = .ok o) : PS o := by
  unfold addSub at h
  split at h
  · split at h
    · exact matAddSub_ps false (mkMat_ps _ _ _ _) h
    · exact matAddSub_ps false hb h
  · split at h
    · exact opAddSub_ps sub ha h
    · exact matAddSub_ps sub ha h
    · unfold wrapAddSub at h
      split at h
      · cases h
      · have key : ∀ c, addSubOf Cfg.fixed c sub a b = .ok o → PS o := by
          intro c hc
          unfold addSubOf at hc
          split at hc
          · exact opAddSub_ps sub ha hc
          · unfold diagAddSub at hc
            simp only at hc
            split at hc
            · exact rediag_ps (diagonal_ps ha) ha.inP hc
            · cases hc
          · unfold sidAddSub at hc
            split at hc
            · injection hc with hc; subst hc; exact mkSid_ps _ _ _ _ ha.inP
            · cases hc
          · exact matAddSub_ps sub ha hc
          · injection hc with hc; subst hc; exact linAddSub_ps sub ha
        split at h
        · exact key _ h
        · split at h
          · exact key _ h
          · split at h
            · injection h with h; subst h; exact linAddSub_ps sub ha
            · exact opAddSub_ps sub ha h

theorem smul_ps {a o : Obj K} (c : Scal K) (ha : PS a) (h : smul Cfg.fixed a c = .ok o) : PS o := by
  unfold smul at h
  split at h
  · unfold opMul at h
    split at h
    · injection h with h; subst h; exact mkOp_ps _ _ _ _ _ _ ha.inP ha.outP
    · cases h
  · unfold diagMul at h
    split at h
    · exact rediag_ps (diagonal_ps ha) ha.inP h
    · cases h
  · unfold sidMul at h
    split at h
    · injection h with h; subst h; exact mkSid_ps _ _ _ _ ha.inP
    · cases h
  · unfold matMulS at h
    split at h
    · cases h
    · split at h
      · injection h with h; subst h; exact mkMat_ps _ _ _ _
      · split at h <;> cases h
  · unfold linMul at h
    split at h
    · injection h with h; subst h; exact mkLin_ps _ _ _ _ _ _ _ _ _ ha.inP ha.outP
    · cases h

theorem sdiv_ps {a o : Obj K} (c : Scal K) (ha : PS a) (h : sdiv Cfg.fixed a c = .ok o) : PS o := by
  unfold sdiv at h
  split at h
  · unfold opDiv at h
    split at h
    · injection h with h; subst h; exact mkOp_ps _ _ _ _ _ _ ha.inP ha.outP
    · cases h
  · unfold diagDiv at h
    split at h
    · exact rediag_ps (diagonal_ps ha) ha.inP h
    · cases h
  · unfold sidDiv at h
    split at h
    · injection h with h; subst h; exact mkSid_ps _ _ _ _ ha.inP
    · cases h
  · unfold matDivS at h
    split at h
    · cases h
    · split at h
      · injection h with h; subst h; exact mkMat_ps _ _ _ _
      · split at h <;> cases h
  · unfold linDiv at h
    split at h
    · injection h with h; subst h; exact mkLin_ps _ _ _ _ _ _ _ _ _ ha.inP ha.outP
    · cases h

theorem neg_ps {a o : Obj K} (ha : PS a) (h : neg Cfg.fixed a = .ok o) : PS o := by
  unfold neg at h
  split at h
  · injection h with h; subst h; exact mkMat_ps _ _ _ _
  · exact smul_ps _ ha h

theorem opComp_ps {a b o : Obj K} (ha : PS a) (hb : PS b) (h : opComp Cfg.fixed a b = .ok o) : PS o := by
  unfold opComp at h
  split at h
  · injection h with h; subst h; exact mkOp_ps _ _ _ _ _ _ hb.inP ha.outP
  · cases h

theorem linCall_ps {a b o : Obj K} (ha : PS a) (hb : PS b) (h : linCall Cfg.fixed a b = .ok o) : PS o := by
  unfold linCall at h
  split at h
  · unfold linComp at h
    split at h
    · cases h
    · split at h
      · cases h
      · injection h with h; subst h; exact mkLin_ps _ _ _ _ _ _ _ _ _ hb.inP ha.outP
  · exact opComp_ps ha hb h

theorem call_ps {a b o : Obj K} (ha : PS a) (hb : PS b) (h : call Cfg.fixed a b = .ok o) : PS o := by
  unfold call at h
  split at h
  · exact opComp_ps ha hb h
  · unfold matCall at h
    split at h
    · split at h
      · split at h
        · injection h with h; subst h; exact ha
        · split at h
          · injection h with h; subst h; exact mkMat_ps _ _ _ _
          · dsimp only at h
            split at h
            · cases h
            · injection h with h; subst h
              exact mkLin_ps _ _ _ _ _ _ _ _ _ hb.inP ha.outP
      · cases h
    · simp only [Cfg.fixed, if_true] at h
      exact opComp_ps ha hb h
  · exact linCall_ps ha hb h

theorem matmul_ps {a b o : Obj K} (ha : PS a) (hb : PS b) (h : matmul Cfg.fixed a b = .ok o) : PS o := by
  unfold matmul at h
  split at h
  · split at h
    · split at h
      · cases h
      · injection h with h; subst h; exact ha
    · split at h <;> cases h
  · split at h
    · split at h
      · cases h
      · injection h with h; subst h; exact ha
    · split at h
      · split at h
        · cases h
        · injection h with h; subst h; exact hb
      · unfold sidMatmul at h
        simp only [show Cfg.fixed.diagKeep = true from rfl, if_true] at h
        split at h
        · split at h
          · cases h
          · split at h
            · injection h with h; subst h; exact mkSid_ps _ _ _ _ ha.inP
            · exact rediag_ps (diagonal_ps hb) hb.inP h
        · exact linCall_ps ha hb h
      · unfold diagMatmul at h
        simp only [show Cfg.fixed.diagKeep = true from rfl, if_true] at h
        split at h
        · split at h
          · split at h
            · cases h
            · rename_i sh hsh
              exact rediag_ps (bshapeS_isPlain (diagonal_ps ha) (diagonal_ps hb) hsh) hb.inP h
          · cases h
        · exact linCall_ps ha hb h
      · exact call_ps ha hb h

theorem linT_ps {a : Obj K} (ha : PS a) : PS (linT a) := by
  unfold linT; split <;> exact mkLin_ps _ _ _ _ _ _ _ _ _ ha.outP ha.inP

theorem linH_ps {a : Obj K} (ha : PS a) : PS (linH a) := mkLin_ps _ _ _ _ _ _ _ _ _ ha.outP ha.inP
theorem linConj_ps {a : Obj K} (ha : PS a) : PS (linConj a) := mkLin_ps _ _ _ _ _ _ _ _ _ ha.inP ha.outP
theorem linGram_ps {a : Obj K} (ha : PS a) : PS (linGram Cfg.fixed a) :=
  mkLin_ps _ _ _ _ _ _ _ _ _ ha.inP ha.inP

theorem diagConj_ps {a o : Obj K} (ha : PS a) (h : diagConj Cfg.fixed a = .ok o) : PS o := by
  unfold diagConj at h
  split at h
  · injection h with h; subst h; exact ha
  · injection h with h; subst h; exact mkSid_ps _ _ _ _ ha.inP
  · exact rediag_ps (diagonal_ps ha) ha.inP h

theorem diagGram_ps {a o : Obj K} (ha : PS a) (h : diagGram Cfg.fixed a = .ok o) : PS o := by
  unfold diagGram at h
  split at h
  · injection h with h; subst h; exact ha
  · injection h with h; subst h; exact mkSid_ps _ _ _ _ ha.inP
  · split at h
    · injection h with h; subst h; exact linGram_ps ha
    · exact rediag_ps (diagonal_ps ha) ha.inP h

theorem opT_ps {a o : Obj K} (ha : PS a) (h : opT Cfg.fixed a = .ok o) : PS o := by
  have hd : PS (diagT Cfg.fixed a) := by
    unfold diagT; split
    · exact linT_ps ha
    · exact ha
  unfold opT at h
  split at h
  · cases h
  · injection h with h; subst h; exact mkMat_ps _ _ _ _
  · injection h with h; subst h; exact hd
  · injection h with h; subst h; exact hd
  · injection h with h; subst h; exact hd
  · injection h with h; subst h; exact linT_ps ha

theorem opH_ps {a o : Obj K} (ha : PS a) (h : opH Cfg.fixed a = .ok o) : PS o := by
  have hd : ∀ o, diagH Cfg.fixed a = .ok o → PS o := by
    intro o h
    unfold diagH at h
    split at h
    · injection h with h; subst h; exact linH_ps ha
    · exact diagConj_ps ha h
  unfold opH at h
  split at h
  · cases h
  · injection h with h; subst h; exact mkMat_ps _ _ _ _
  · exact hd o h
  · exact hd o h
  · exact hd o h
  · injection h with h; subst h; exact linH_ps ha

theorem opConj_ps {a o : Obj K} (ha : PS a) (h : opConj Cfg.fixed a = .ok o) : PS o := by
  unfold opConj at h
  split at h
  · cases h
  · injection h with h; subst h; exact mkMat_ps _ _ _ _
  · exact diagConj_ps ha h
  · exact diagConj_ps ha h
  · exact diagConj_ps ha h
  · injection h with h; subst h; exact linConj_ps ha

theorem opGram_ps {a o : Obj K} (ha : PS a) (h : opGram Cfg.fixed a = .ok o) : PS o := by
  unfold opGram at h
  split at h
  · cases h
  · injection h with h; subst h; exact mkMat_ps _ _ _ _
  · exact diagGram_ps ha h
  · exact diagGram_ps ha h
  · exact diagGram_ps ha h
  · injection h with h; subst h; exact linGram_ps ha

/-- every leaf has plain (non-block) shapes -/
def PlainShapes : LExpr K → Prop
  | .mat _ _ _ _ => True
  | .diag dsh _ inSh? _ _ => dsh.isPlain ∧ ∀ s, inSh? = some s → s.isPlain
  | .scaledId _ _ sh _ => sh.isPlain
  | .ident sh _ => sh.isPlain
  | .lin inSh outSh _ _ _ _ => inSh.isPlain ∧ outSh.isPlain
  | .nonlin inSh outSh _ _ _ => inSh.isPlain ∧ outSh.isPlain
  | .add a b | .sub a b | .had _ a b | .comp a b | .matmul a b => PlainShapes a ∧ PlainShapes b
  | .neg a | .smulL _ a | .smulR a _ | .sdiv a _ | .rdiv _ a | .addS _ _ a _
  | .T a | .H a | .conj a | .gram a => PlainShapes a

theorem build_ps : ∀ (e : LExpr K) (o : Obj K), PlainShapes e → build e = .ok o → PS o := by
  intro e
  induction e with
  | mat m n dt A =>
    intro o _ h; simp only [build, buildC] at h; injection h with h; subst h; exact mkMat_ps _ _ _ _
  | diag dsh ddt inSh? inDt? d =>
    intro o hp h; simp only [build, buildC] at h
    refine mkDiag_ps hp.1 ?_ h
    cases inSh? with
    | none => exact hp.1
    | some s => exact hp.2 s rfl
  | scaledId c ck sh dt =>
    intro o hp h; simp only [build, buildC] at h; injection h with h; subst h; exact mkSid_ps _ _ _ _ hp
  | ident sh dt =>
    intro o hp h; simp only [build, buildC] at h; injection h with h; subst h; exact ⟨hp, hp, hp⟩
  | lin inSh outSh inDt gDt hasAdj G =>
    intro o hp h; simp only [build, buildC] at h; injection h with h; subst h
    unfold mkLinLeaf
    split
    · exact mkLin_ps _ _ _ _ _ _ _ _ _ hp.1 hp.2
    · exact mkLin_ps _ _ _ _ _ _ _ _ _ hp.1 hp.2
  | nonlin inSh outSh inDt gDt G =>
    intro o hp h; simp only [build, buildC] at h; injection h with h; subst h
    exact mkOp_ps _ _ _ _ _ _ hp.1 hp.2
  | add a b iha ihb =>
    intro o hp h
    simp only [build, buildC] at h
    obtain ⟨oa, ha, h⟩ := bind_ok h
    obtain ⟨ob, hb, h⟩ := bind_ok h
    exact addSub_ps false (iha oa hp.1 ha) (ihb ob hp.2 hb) h
  | sub a b iha ihb =>
    intro o hp h
    simp only [build, buildC] at h
    obtain ⟨oa, ha, h⟩ := bind_ok h
    obtain ⟨ob, hb, h⟩ := bind_ok h
    exact addSub_ps true (iha oa hp.1 ha) (ihb ob hp.2 hb) h
  | neg a iha =>
    intro o hp h
    simp only [build, buildC] at h
    obtain ⟨oa, ha, h⟩ := bind_ok h
    exact neg_ps (iha oa hp ha) h
  | smulL c a iha =>
    intro o hp h
    simp only [build, buildC] at h
    obtain ⟨oa, ha, h⟩ := bind_ok h
    exact smul_ps c (iha oa hp ha) h
  | smulR a c iha =>
    intro o hp h
    simp only [build, buildC] at h
    obtain ⟨oa, ha, h⟩ := bind_ok h
    exact smul_ps c (iha oa hp ha) h
  | sdiv a c iha =>
    intro o hp h
    simp only [build, buildC] at h
    obtain ⟨oa, ha, h⟩ := bind_ok h
    exact sdiv_ps c (iha oa hp ha) h
  | rdiv c a iha =>
    intro o hp h
    simp only [build, buildC] at h
    obtain ⟨oa, ha, h⟩ := bind_ok h
    split at h
    · unfold matRDivS at h
      split at h
      · cases h
      · split at h
        · injection h with h; subst h; exact mkMat_ps _ _ _ _
        · split at h <;> cases h
    · cases h
  | addS sub rev a c iha =>
    intro o hp h
    simp only [build, buildC] at h
    obtain ⟨oa, ha, h⟩ := bind_ok h
    split at h
    · unfold matAddSubS at h
      split at h
      · cases h
      · split at h
        · injection h with h; subst h; exact mkMat_ps _ _ _ _
        · split at h <;> cases h
    · cases h
  | had div a b iha ihb =>
    intro o hp h
    simp only [build, buildC] at h
    obtain ⟨oa, ha, h⟩ := bind_ok h
    obtain ⟨ob, hb, h⟩ := bind_ok h
    split at h
    · unfold matHadamard at h
      split at h
      · split at h
        · injection h with h; subst h; exact mkMat_ps _ _ _ _
        · cases h
      · cases h
    · cases h
  | comp a b iha ihb =>
    intro o hp h
    simp only [build, buildC] at h
    obtain ⟨oa, ha, h⟩ := bind_ok h
    obtain ⟨ob, hb, h⟩ := bind_ok h
    exact call_ps (iha oa hp.1 ha) (ihb ob hp.2 hb) h
  | matmul a b iha ihb =>
    intro o hp h
    simp only [build, buildC] at h
    obtain ⟨oa, ha, h⟩ := bind_ok h
    obtain ⟨ob, hb, h⟩ := bind_ok h
    exact matmul_ps (iha oa hp.1 ha) (ihb ob hp.2 hb) h
  | T a iha =>
    intro o hp h
    simp only [build, buildC] at h
    obtain ⟨oa, ha, h⟩ := bind_ok h
    exact opT_ps (iha oa hp ha) h
  | H a iha =>
    intro o hp h
    simp only [build, buildC] at h
    obtain ⟨oa, ha, h⟩ := bind_ok h
    exact opH_ps (iha oa hp ha) h
  | conj a iha =>
    intro o hp h
    simp only [build, buildC] at h
    obtain ⟨oa, ha, h⟩ := bind_ok h
    exact opConj_ps (iha oa hp ha) h
  | gram a iha =>
    intro o hp h
    simp only [build, buildC] at h
    obtain ⟨oa, ha, h⟩ := bind_ok h
    exact opGram_ps (iha oa hp ha) h

/-- over plain shapes the side condition on `Diagonal @ Diagonal` products holds automatically -/
theorem plainShapes_products : ∀ (e : LExpr K), PlainShapes e → PlainDiagProducts e := by
  intro e
  induction e with
  | matmul a b iha ihb =>
    intro hp
    refine ⟨iha hp.1, ihb hp.2, ?_⟩
    intro oa ob ha hb _ _
    exact Or.inl ⟨(build_ps a oa hp.1 ha).plainObj, (build_ps b ob hp.2 hb).plainObj⟩
  | add a b iha ihb => intro hp; exact ⟨iha hp.1, ihb hp.2⟩
  | sub a b iha ihb => intro hp; exact ⟨iha hp.1, ihb hp.2⟩
  | had d a b iha ihb => intro hp; exact ⟨iha hp.1, ihb hp.2⟩
  | comp a b iha ihb => intro hp; exact ⟨iha hp.1, ihb hp.2⟩
  | neg a ih => intro hp; exact ih hp
  | smulL c a ih => intro hp; exact ih hp
  | smulR a c ih => intro hp; exact ih hp
  | sdiv a c ih => intro hp; exact ih hp
  | rdiv c a ih => intro hp; exact ih hp
  | addS s r a c ih => intro hp; exact ih hp
  | T a ih => intro hp; exact ih hp
  | H a ih => intro hp; exact ih hp
  | conj a ih => intro hp; exact ih hp
  | gram a ih => intro hp; exact ih hp
  | mat _ _ _ _ => intro _; trivial
  | diag _ _ _ _ _ => intro _; trivial
  | scaledId _ _ _ _ => intro _; trivial
  | ident _ _ => intro _; trivial
  | lin _ _ _ _ _ _ => intro _; trivial
  | nonlin _ _ _ _ _ => intro _; trivial

end
end Scico.OpAlg
