/-
  `DiagonalReplicated`: axis normalisation, declared shapes, and the documented block formula
  `H(x)_k = A(x_k)` through the index maps of the replicate axes (after repo commit 9420b1a).
-/
import Mathlib.Tactic.Ring
import Scico.Model.OpAlg
namespace Scico.OpAlg
open Scico.DType
set_option linter.unusedSectionVars false

/-! ### index arithmetic of the replicate axis -/

theorem joinIdx_div (N P k r : Nat) (hP : 0 < P) : joinIdx N P k r / P = (r / P) * N + k := by
  unfold joinIdx
  rw [Nat.add_comm, Nat.add_mul_div_right _ _ hP, Nat.div_eq_of_lt (Nat.mod_lt _ hP), Nat.zero_add]

theorem repK_joinIdx (N P k r : Nat) (hP : 0 < P) (hk : k < N) : repK N P (joinIdx N P k r) = k := by
  unfold repK
  rw [joinIdx_div N P k r hP, Nat.add_comm, Nat.add_mul_mod_self_right, Nat.mod_eq_of_lt hk]

theorem repRest_joinIdx (N P k r : Nat) (hP : 0 < P) (hk : k < N) :
    repRest N P (joinIdx N P k r) = r := by
  have hN : 0 < N := Nat.lt_of_le_of_lt (Nat.zero_le _) hk
  unfold repRest
  have h1 : joinIdx N P k r / (N * P) = r / P := by
    rw [Nat.mul_comm N P, ← Nat.div_div_eq_div_mul, joinIdx_div N P k r hP, Nat.add_comm,
      Nat.add_mul_div_right _ _ hN, Nat.div_eq_of_lt hk, Nat.zero_add]
  have h2 : joinIdx N P k r % P = r % P := by
    unfold joinIdx
    rw [Nat.add_comm, Nat.add_mul_mod_self_right, Nat.mod_mod]
  rw [h1, h2]
  exact Nat.div_add_mod' r P

theorem joinIdx_lt (N P A k r : Nat) (hP : 0 < P) (hk : k < N) (hr : r < A * P) :
    joinIdx N P k r < N * (A * P) := by
  unfold joinIdx
  have hq : r / P < A := by rw [Nat.div_lt_iff_lt_mul hP]; exact hr
  have h1 : (r / P) * N + k < A * N := by
    calc (r / P) * N + k < (r / P) * N + N := Nat.add_lt_add_left hk _
      _ = (r / P + 1) * N := by rw [Nat.succ_mul]
      _ ≤ A * N := Nat.mul_le_mul_right _ hq
  have h2 : r % P < P := Nat.mod_lt _ hP
  calc ((r / P) * N + k) * P + r % P < ((r / P) * N + k) * P + P := Nat.add_lt_add_left h2 _
    _ = ((r / P) * N + k + 1) * P := by rw [Nat.succ_mul]
    _ ≤ (A * N) * P := Nat.mul_le_mul_right _ h1
    _ = N * (A * P) := by rw [Nat.mul_comm A N, Nat.mul_assoc]

/-- every flat index of the replicated array is entry `repRest t` of replicate `repK t` -/
theorem joinIdx_repK_repRest (N P t : Nat) (hP : 0 < P) (hN : 0 < N) :
    joinIdx N P (repK N P t) (repRest N P t) = t := by
  unfold joinIdx repK repRest
  have hr : t % P < P := Nat.mod_lt _ hP
  have h1 : (t / (N * P) * P + t % P) / P = t / (N * P) := by
    rw [Nat.add_comm, Nat.add_mul_div_right _ _ hP, Nat.div_eq_of_lt hr, Nat.zero_add]
  have h2 : (t / (N * P) * P + t % P) % P = t % P := by
    rw [Nat.add_comm, Nat.add_mul_mod_self_right, Nat.mod_mod]
  rw [h1, h2]
  have h3 : t / (N * P) = t / P / N := by rw [Nat.mul_comm N P, Nat.div_div_eq_div_mul]
  rw [h3, Nat.div_add_mod' (t / P) N]
  exact Nat.div_add_mod' t P

/-! ### axes and shapes -/

theorem normAxis_spec (d : Nat) (ax : Int) (a : Nat) :
    normAxis d ax = some a ↔ (-(d : Int) - 1 ≤ ax ∧ ax ≤ d ∧ (a : Int) = if ax < 0 then (d : Int) + 1 + ax else ax) := by
  unfold normAxis
  by_cases hneg : ax < 0
  · simp only [hneg, if_true]
    by_cases h : (d : Int) + 1 + ax < 0 ∨ (d : Int) + 1 + ax > d
    · rw [if_pos h]
      constructor
      · intro h'; cases h'
      · intro ⟨h1, h2, _⟩; omega
    · rw [if_neg h]
      simp only [Option.some.injEq]
      constructor
      · intro hp; subst hp; exact ⟨by omega, by omega, by omega⟩
      · intro ⟨_, _, hp⟩; omega
  · simp only [hneg, if_false, false_or]
    by_cases h : ax > (d : Int)
    · rw [if_pos h]
      constructor
      · intro h'; cases h'
      · intro ⟨h1, h2, _⟩; omega
    · rw [if_neg h]
      simp only [Option.some.injEq]
      constructor
      · intro hp; subst hp; exact ⟨by omega, by omega, by omega⟩
      · intro ⟨_, _, hp⟩; omega

theorem normAxis_le {d : Nat} {ax : Int} {a : Nat} (h : normAxis d ax = some a) : a ≤ d := by
  obtain ⟨h1, h2, h3⟩ := (normAxis_spec d ax a).mp h
  split at h3 <;> omega

/-- a negative axis counts from the end (of the shape WITH the replicate axis) -/
theorem normAxis_neg (d : Nat) (ax : Int) (h1 : -(d : Int) - 1 ≤ ax) (h2 : ax < 0) :
    normAxis d ax = normAxis d ((d : Int) + 1 + ax) := by
  have e1 : normAxis d ax = some ((d : Int) + 1 + ax).toNat :=
    (normAxis_spec d ax _).mpr ⟨h1, by omega, by simp only [h2, if_true]; omega⟩
  have e2 : normAxis d ((d : Int) + 1 + ax) = some ((d : Int) + 1 + ax).toNat :=
    (normAxis_spec d _ _).mpr ⟨by omega, by omega, by
      have : ¬ ((d : Int) + 1 + ax < 0) := by omega
      simp only [this, if_false]; omega⟩
  rw [e1, e2]

theorem prodL_append' (l1 l2 : List Nat) : prodL (l1 ++ l2) = prodL l1 * prodL l2 := by
  induction l1 with
  | nil => simp [prodL]
  | cons a l ih =>
    show a * prodL (l ++ l2) = a * prodL l * prodL l2
    rw [ih, Nat.mul_assoc]

theorem prodL_cons' (a : Nat) (l : List Nat) : prodL (a :: l) = a * prodL l := rfl

theorem prodL_take_drop (dims : List Nat) (a : Nat) : prodL (dims.take a) * prodL (dims.drop a) = prodL dims := by
  rw [← prodL_append', List.take_append_drop]

/-- the shape with the replicate axis has `N` times as many elements -/
theorem prodL_insertDim (dims : List Nat) (a N : Nat) : prodL (insertDim dims a N) = N * prodL dims := by
  unfold insertDim
  rw [prodL_append', prodL_cons', ← prodL_take_drop dims a]
  ring

section
variable {α : Type} [Add α] [Sub α] [Mul α] [Div α] [Neg α] [Zero α] [One α] [HasConj α] [HasRe α]

theorem getD_map_range {β : Type} (N k : Nat) (f : Nat → β) (d : β) (hk : k < N) :
    ((List.range N).map f).getD k d = f k := by
  simp [List.getD, hk]

theorem vgather_get (tot N P : Nat) (ys : List (Vc α)) (t : Nat) :
    (vgather tot N P ys).get t = if t < tot then (ys.getD (repK N P t) zeroV).get (repRest N P t) else 0 := rfl

theorem vtake_get (n N P k : Nat) (x : Vc α) (j : Nat) :
    (vtake n N P k x).get j = if j < n then x.get (joinIdx N P k j) else 0 := rfl

/-- what `drep` builds (both axes resolved to positions `a`, `b`) -/
theorem drep_spec (lin : Bool) (o : Obj α) (N : Nat) (ia : Int) (oa : Option Int) (r : Obj α)
    (h : drep lin o N ia oa = .ok r) :
    ∃ din dout a b, o.md.inShape = .plain din ∧ o.md.outShape = .plain dout
      ∧ normAxis din.length ia = some a
      ∧ (match oa with | none => a ≤ dout.length ∧ b = a | some ax => normAxis dout.length ax = some b)
      ∧ r.md.inShape = .plain (insertDim din a N) ∧ r.md.outShape = .plain (insertDim dout b N)
      ∧ r.md.inDt = o.md.inDt ∧ r.md.outDt = o.md.outDt
      ∧ r.md.inShape.size = N * o.md.inShape.size ∧ r.md.outShape.size = N * o.md.outShape.size
      ∧ (∀ x, r.eval x = vgather (N * o.m) N (prodL (dout.drop b))
            ((List.range N).map (fun k => o.eval (vtake o.n N (prodL (din.drop a)) k x))))
      ∧ (lin = true → ∀ y, r.adj y = vgather (N * o.n) N (prodL (din.drop a))
            ((List.range N).map (fun k => o.adj (vtake o.m N (prodL (dout.drop b)) k y)))) := by
  unfold drep at h
  split at h
  · cases h
  · cases hia : normAxis (axesOf o.md.inShape) ia with
    | none => simp [hia] at h
    | some a =>
      simp only [hia] at h
      cases hin : o.md.inShape with
      | nested bs => simp [hin] at h
      | plain din =>
        cases hout : o.md.outShape with
        | nested bs => simp [hin, hout] at h
        | plain dout =>
          simp only [hin, hout] at h
          rw [hin] at hia
          cases oa with
          | none =>
            simp only at h
            by_cases hgt : a > dout.length
            · simp [hgt] at h
            · simp only [hgt, if_false] at h
              refine ⟨din, dout, a, a, rfl, rfl, hia, ⟨by omega, rfl⟩, ?_⟩
              cases lin
              · simp only [Bool.false_eq_true, if_false] at h
                injection h with h; subst h
                refine ⟨rfl, rfl, rfl, rfl, ?_, ?_, fun _ => rfl, fun hl => by cases hl⟩
                · show prodL (insertDim din a N) = N * prodL din; exact prodL_insertDim _ _ _
                · show prodL (insertDim dout a N) = N * prodL dout; exact prodL_insertDim _ _ _
              · simp only [if_true] at h
                injection h with h; subst h
                refine ⟨rfl, rfl, rfl, rfl, ?_, ?_, fun _ => rfl, fun _ _ => rfl⟩
                · show prodL (insertDim din a N) = N * prodL din; exact prodL_insertDim _ _ _
                · show prodL (insertDim dout a N) = N * prodL dout; exact prodL_insertDim _ _ _
          | some ax =>
            simp only at h
            cases hb : normAxis dout.length ax with
            | none => simp [hb] at h
            | some b =>
              simp only [hb] at h
              refine ⟨din, dout, a, b, rfl, rfl, hia, hb, ?_⟩
              cases lin
              · simp only [Bool.false_eq_true, if_false] at h
                injection h with h; subst h
                refine ⟨rfl, rfl, rfl, rfl, ?_, ?_, fun _ => rfl, fun hl => by cases hl⟩
                · show prodL (insertDim din a N) = N * prodL din; exact prodL_insertDim _ _ _
                · show prodL (insertDim dout b N) = N * prodL dout; exact prodL_insertDim _ _ _
              · simp only [if_true] at h
                injection h with h; subst h
                refine ⟨rfl, rfl, rfl, rfl, ?_, ?_, fun _ => rfl, fun _ _ => rfl⟩
                · show prodL (insertDim din a N) = N * prodL din; exact prodL_insertDim _ _ _
                · show prodL (insertDim dout b N) = N * prodL dout; exact prodL_insertDim _ _ _

/-- **the documented block formula** `H(x)_k = A(x_k)`: entry `r` of replicate `k` of the output is entry
    `r` of `A` applied to replicate `k` of the input, both addressed through the replicate axes -/
theorem vgather_block (N P A m : Nat) (hm : m = A * P) (hP : 0 < P) (f : Nat → Vc α) (k r : Nat)
    (hk : k < N) (hr : r < m) :
    (vgather (N * m) N P ((List.range N).map f)).get (joinIdx N P k r) = (f k).get r := by
  rw [vgather_get]
  have hlt : joinIdx N P k r < N * m := by rw [hm]; exact joinIdx_lt N P A k r hP hk (hm ▸ hr)
  simp only [hlt, if_true]
  rw [repK_joinIdx N P k r hP hk, repRest_joinIdx N P k r hP hk, getD_map_range N k f zeroV hk]

/-- a negative `output_axis` is the axis counted from the end (the defect repaired by 9420b1a) -/
theorem drep_neg_output_axis (lin : Bool) (o : Obj α) (N : Nat) (ia : Int) (dout : List Nat)
    (hout : o.md.outShape = .plain dout) (ax : Int) (h1 : -(dout.length : Int) - 1 ≤ ax) (h2 : ax < 0) :
    drep lin o N ia (some ax) = drep lin o N ia (some ((dout.length : Int) + 1 + ax)) := by
  unfold drep
  by_cases hc : (lin && decide (o.md.cls = .op)) = true
  · rw [if_pos hc, if_pos hc]
  · rw [if_neg hc, if_neg hc]
    cases normAxis (axesOf o.md.inShape) ia with
    | none => rfl
    | some a =>
      cases hin : o.md.inShape with
      | nested bs => simp only [hout]
      | plain din => simp only [hout, normAxis_neg dout.length ax h1 h2]

/-- an `output_axis` outside `[-(d+1), d]` is rejected -/
theorem drep_reject_output_axis (lin : Bool) (o : Obj α) (N : Nat) (ia : Int) (dout : List Nat)
    (hout : o.md.outShape = .plain dout) (ax : Int) (h : ax < -(dout.length : Int) - 1 ∨ (dout.length : Int) < ax) :
    ∃ e, drep lin o N ia (some ax) = .error e := by
  have hn : normAxis dout.length ax = none := by
    cases hq : normAxis dout.length ax with
    | none => rfl
    | some b =>
      obtain ⟨q1, q2, _⟩ := (normAxis_spec _ _ _).mp hq
      omega
  unfold drep
  split
  · exact ⟨_, rfl⟩
  · cases normAxis (axesOf o.md.inShape) ia with
    | none => exact ⟨_, rfl⟩
    | some a =>
      cases hin : o.md.inShape with
      | nested bs => exact ⟨_, rfl⟩
      | plain din => simp only [hout, hn]; exact ⟨_, rfl⟩

end
end Scico.OpAlg
