/-
  Proofs/StepsFixed — property C03, part 1: a primal–dual optimal (KKT) point of the documented
  problem is left unchanged by the documented iteration (`…SpecStep`, which equals `step()` by C11).

  KKT conditions are in sub-gradient form (`Fn.Subgrad`), proximal maps satisfy the certificate
  contract `IsProx` (equivalent to the argmin definition for convex functionals, `isProx_iff_argmin`),
  the ADMM x-update satisfies its stationarity contract.  Operators enter only through the values the
  equations use, so non-linear `C` / `H` are covered through their Jacobian products.
-/
import Scico.Model.Steps
import Scico.Proofs.StepsConvex
import Mathlib.Analysis.Real.Sqrt
import Mathlib.Tactic.Abel

set_option linter.unusedSectionVars false

namespace Scico.Steps

/-- `√` on ℝ for the executable model's `HasSqrt` -/
@[reducible] noncomputable def realHasSqrt : HasSqrt ℝ := ⟨Real.sqrt⟩

variable {X Z U : Type} [NormedAddCommGroup X] [InnerProductSpace ℝ X]
  [NormedAddCommGroup Z] [InnerProductSpace ℝ Z] [NormedAddCommGroup U] [InnerProductSpace ℝ U]

theorem IsProx.fixed' {E : Type} [NormedAddCommGroup E] [InnerProductSpace ℝ E] {F : Fn E}
    {prox : ℝ → E → E} (hp : IsProx F prox) {lam : ℝ} (hlam : 0 < lam) {x g v : E}
    (h : F.Subgrad x g) (hv : v = x + lam • g) : prox lam v = x := by
  rw [hv]; exact hp.fixed hlam h

/-! ### Linearized ADMM:  min f(x) + g(Cx);  KKT with scaled multiplier `u* = ν y*` -/

theorem ladmm_fixed (p : LADMMParams ℝ X Z) (F : Fn X) (G : Fn Z)
    (hf : IsProx F p.proxf) (hg : IsProx G p.proxg) (hmu : 0 < p.mu) (hnu : 0 < p.nu)
    (xs : X) (us : Z)
    (h1 : F.Subgrad xs (-((1 / p.nu) • p.Cadj us))) (h2 : G.Subgrad (p.C xs) ((1 / p.nu) • us)) :
    ladmmSpecStep p { x := xs, z := p.C xs, zOld := p.C xs, u := us }
      = { x := xs, z := p.C xs, zOld := p.C xs, u := us } := by
  have hx : p.proxf p.mu (xs - (p.mu / p.nu) • p.Cadj (p.C xs - p.C xs + us)) = xs := by
    apply hf.fixed' hmu h1
    rw [sub_self, zero_add, smul_neg, smul_smul, sub_eq_add_neg]
    congr 3
    field_simp
  have hz : p.proxg p.nu (p.C xs + us) = p.C xs := by
    apply hg.fixed' hnu h2
    rw [smul_smul]
    have : p.nu * (1 / p.nu) = 1 := by field_simp
    rw [this, one_smul]
  unfold ladmmSpecStep
  simp only [hx, hz]
  congr 1
  abel

/-! ### Proximal ADMM:  min f(x) + g(z)  s.t.  Ax + Bz = c;  multiplier `y* = ρ u*` -/

theorem padmm_fixed (p : PADMMParams ℝ X Z U) (F : Fn X) (G : Fn Z)
    (hf : IsProx F p.proxf) (hg : IsProx G p.proxg)
    (hrho : 0 < p.rho) (hmu : 0 < p.mu) (hnu : 0 < p.nu)
    (xs : X) (zs : Z) (us : U)
    (hfeas : p.A xs + p.B zs = p.c)
    (h1 : F.Subgrad xs (-(p.rho • p.AH us))) (h2 : G.Subgrad zs (-(p.rho • p.BH us))) :
    padmmSpecStep p { x := xs, z := zs, zOld := zs, u := us, uOld := us }
      = { x := xs, z := zs, zOld := zs, u := us, uOld := us } := by
  have e2 : (2 : ℝ) • us - us = us := by rw [two_smul]; abel
  have hx : p.proxf (p.rho⁻¹ * p.mu⁻¹) (xs - p.mu⁻¹ • p.AH ((2 : ℝ) • us - us)) = xs := by
    apply hf.fixed' (by positivity) h1
    rw [e2, smul_neg, smul_smul, sub_eq_add_neg]
    congr 3
    field_simp
  have hz : p.proxg (p.rho⁻¹ * p.nu⁻¹) (zs - p.nu⁻¹ • p.BH (p.A xs + p.B zs - p.c + us)) = zs := by
    apply hg.fixed' (by positivity) h2
    rw [hfeas, sub_self, zero_add, smul_neg, smul_smul, sub_eq_add_neg]
    congr 3
    field_simp
  unfold padmmSpecStep
  simp only [hx, hz]
  congr 1
  rw [add_assoc, hfeas]
  abel

/-- default `B = −I`, `c = 0`: the KKT point of `min f(x) + g(Ax)` -/
theorem padmm_fixed_default (p : PADMMParams ℝ X U U) (F : Fn X) (G : Fn U)
    (hf : IsProx F p.proxf) (hg : IsProx G p.proxg)
    (hrho : 0 < p.rho) (hmu : 0 < p.mu) (hnu : 0 < p.nu)
    (hB : p.B = padmmDefaultB.1) (hBH : p.BH = padmmDefaultB.2) (hc : p.c = padmmC none)
    (xs : X) (us : U)
    (h1 : F.Subgrad xs (-(p.rho • p.AH us))) (h2 : G.Subgrad (p.A xs) (p.rho • us)) :
    padmmSpecStep p { x := xs, z := p.A xs, zOld := p.A xs, u := us, uOld := us }
      = { x := xs, z := p.A xs, zOld := p.A xs, u := us, uOld := us } := by
  apply padmm_fixed p F G hf hg hrho hmu hnu
  · rw [hB, hc]; simp [padmmDefaultB, padmmC]
  · exact h1
  · rw [hBH]; simpa [padmmDefaultB] using h2

/-! ### Non-linear proximal ADMM:  min f(x) + g(z)  s.t.  H(x,z) = 0, through the Jacobians at the point -/

theorem nlpadmm_fixed (p : NLPADMMParams ℝ X Z U) (F : Fn X) (G : Fn Z)
    (hf : IsProx F p.proxf) (hg : IsProx G p.proxg)
    (hrho : 0 < p.rho) (hmu : 0 < p.mu) (hnu : 0 < p.nu)
    (xs : X) (zs : Z) (us : U)
    (hfeas : p.H xs zs = 0)
    (h1 : F.Subgrad xs (-(p.rho • p.JxH xs zs us))) (h2 : G.Subgrad zs (-(p.rho • p.JzH xs zs us))) :
    nlpadmmSpecStep p { x := xs, z := zs, zOld := zs, u := us, uOld := us }
      = { x := xs, z := zs, zOld := zs, u := us, uOld := us } := by
  have e2 : (2 : ℝ) • us - us = us := by rw [two_smul]; abel
  have hx : p.proxf (p.rho⁻¹ * p.mu⁻¹) (xs - p.mu⁻¹ • p.JxH xs zs ((2 : ℝ) • us - us)) = xs := by
    apply hf.fixed' (by positivity) h1
    rw [e2, smul_neg, smul_smul, sub_eq_add_neg]
    congr 3
    field_simp
  have hz : p.proxg (p.rho⁻¹ * p.nu⁻¹) (zs - p.nu⁻¹ • p.JzH xs zs (p.H xs zs + us)) = zs := by
    apply hg.fixed' (by positivity) h2
    rw [hfeas, zero_add, smul_neg, smul_smul, sub_eq_add_neg]
    congr 3
    field_simp
  rw [hfeas, zero_add] at hz
  unfold nlpadmmSpecStep
  simp only [hx, hfeas, zero_add, hz, add_zero]

/-! ### PDHG:  min f(x) + g(Cx);  saddle point `−Cᵀz* ∈ ∂f(x*)`, `Cx* ∈ ∂g*(z*)` -/

/-- contract form: `proxgConj` is the proximal map of the conjugate `Gc = g*` -/
theorem pdhg_fixed (p : PDHGParams ℝ X Z) (F : Fn X) (Gc : Fn Z)
    (hf : IsProx F p.proxf) (hg : IsProx Gc p.proxgConj) (htau : 0 < p.tau) (hsig : 0 < p.sigma)
    (xs : X) (zs : Z)
    (h1 : F.Subgrad xs (-(match p.linear with
      | true => p.Cadj zs
      | false => p.JCadj xs zs)))
    (h2 : Gc.Subgrad zs (p.C xs)) :
    pdhgSpecStep p { x := xs, xOld := xs, z := zs, zOld := zs }
      = { x := xs, xOld := xs, z := zs, zOld := zs } := by
  have ex : (1 + p.alpha) • xs - p.alpha • xs = xs := by
    rw [add_smul, one_smul]; abel
  have hz : p.proxgConj p.sigma (zs + p.sigma • p.C xs) = zs := hg.fixed hsig h2
  unfold pdhgSpecStep
  cases hl : p.linear
  · simp only [hl] at h1
    have hx : p.proxf p.tau (xs - p.tau • p.JCadj xs zs) = xs := by
      apply hf.fixed' htau h1
      rw [smul_neg, sub_eq_add_neg]
    simp only [hx, ex, hz]
  · simp only [hl] at h1
    have hx : p.proxf p.tau (xs - p.tau • p.Cadj zs) = xs := by
      apply hf.fixed' htau h1
      rw [smul_neg, sub_eq_add_neg]
    simp only [hx, ex, hz]

/-- `Functional.conj_prox` as the code computes it (extended Moreau decomposition) maps
    `z* + σ Cx*` to `z*` whenever `z* ∈ ∂g(Cx*)` -/
theorem conjProx_fixed {G : Fn Z} {proxg : ℝ → Z → Z} (hg : IsProx G proxg) {sigma : ℝ}
    (hsig : 0 < sigma) {w zs : Z} (h : G.Subgrad w zs) :
    (zs + sigma • w) - sigma • proxg (1 / sigma) ((1 / sigma) • (zs + sigma • w)) = zs := by
  have : proxg (1 / sigma) ((1 / sigma) • (zs + sigma • w)) = w := by
    apply hg.fixed' (by positivity) h
    rw [smul_add, smul_smul, add_comm]
    have : 1 / sigma * sigma = 1 := by field_simp
    rw [this, one_smul]
  rw [this]
  abel

/-- PDHG with `conj_prox` computed through `g.prox` (the code path), KKT in terms of `g` itself:
    `−Cᵀz* ∈ ∂f(x*)`, `z* ∈ ∂g(Cx*)` -/
theorem pdhg_fixed_moreau (p : PDHGParams ℝ X Z) (F : Fn X) (G : Fn Z) (proxg : ℝ → Z → Z)
    (hf : IsProx F p.proxf) (hg : IsProx G proxg)
    (hconj : ∀ lam v, p.proxgConj lam v = v - lam • proxg (1 / lam) ((1 / lam) • v))
    (htau : 0 < p.tau) (hsig : 0 < p.sigma) (xs : X) (zs : Z)
    (h1 : F.Subgrad xs (-(match p.linear with
      | true => p.Cadj zs
      | false => p.JCadj xs zs)))
    (h2 : G.Subgrad (p.C xs) zs) :
    pdhgSpecStep p { x := xs, xOld := xs, z := zs, zOld := zs }
      = { x := xs, xOld := xs, z := zs, zOld := zs } := by
  have ex : (1 + p.alpha) • xs - p.alpha • xs = xs := by
    rw [add_smul, one_smul]; abel
  have hz : p.proxgConj p.sigma (zs + p.sigma • p.C xs) = zs := by
    rw [hconj]; exact conjProx_fixed hg hsig h2
  unfold pdhgSpecStep
  cases hl : p.linear
  · simp only [hl] at h1
    have hx : p.proxf p.tau (xs - p.tau • p.JCadj xs zs) = xs := by
      apply hf.fixed' htau h1
      rw [smul_neg, sub_eq_add_neg]
    simp only [hx, ex, hz]
  · simp only [hl] at h1
    have hx : p.proxf p.tau (xs - p.tau • p.Cadj zs) = xs := by
      apply hf.fixed' htau h1
      rw [smul_neg, sub_eq_add_neg]
    simp only [hx, ex, hz]

/-! ### PGM / accelerated PGM:  min f(x) + g(x);  `−∇f(x*) ∈ ∂g(x*)` -/

theorem pgm_fixed {σ : Type} (p : PGMParams σ ℝ X) (G : Fn X) (hg : IsProx G p.proxg)
    (hnorm : p.normX = fun v => ‖v‖) (s : PGMState σ ℝ X)
    (hL : 0 < (p.pol.update s.mem s.L s.x s.x).1)
    (h : G.Subgrad s.x (-(p.gradf s.x))) :
    (pgmSpecStep p s).x = s.x ∧ (pgmSpecStep p s).fpr = 0 := by
  have hx : p.proxg (p.pol.update s.mem s.L s.x s.x).1⁻¹
      (s.x - (p.pol.update s.mem s.L s.x s.x).1⁻¹ • p.gradf s.x) = s.x := by
    apply hg.fixed' (by positivity) h
    rw [smul_neg, sub_eq_add_neg]
  unfold pgmSpecStep
  simp only [hx, hnorm, sub_self, norm_zero, and_self]

/-- with the base step-size object the whole state except the residual is unchanged -/
theorem pgm_fixed_base (p : PGMParams Unit ℝ X) (G : Fn X) (hg : IsProx G p.proxg)
    (hnorm : p.normX = fun v => ‖v‖) (z0 : X) (hpol : p.pol = basePolicy z0) (s : PGMState Unit ℝ X)
    (hL : 0 < s.L) (h : G.Subgrad s.x (-(p.gradf s.x))) :
    pgmSpecStep p s = { s with fpr := 0 } := by
  have hu : p.pol.update s.mem s.L s.x s.x = (s.L, s.mem) := by rw [hpol]; rfl
  obtain ⟨h1, h2⟩ := pgm_fixed p G hg hnorm s (by rw [hu]; exact hL) h
  have h3 : (pgmSpecStep p s).L = s.L := by unfold pgmSpecStep; simp only [hu]
  have h4 : (pgmSpecStep p s).mem = s.mem := by unfold pgmSpecStep; simp only [hu]
  cases hs : pgmSpecStep p s
  simp_all

attribute [local instance] realHasSqrt

/-- FISTA started at `x = v = x*` stays there (only the momentum counter `t` advances) -/
theorem apgm_fixed {σ : Type} (p : PGMParams σ ℝ X) (G : Fn X) (hg : IsProx G p.proxg)
    (hnorm : p.normX = fun v => ‖v‖) (s : APGMState σ ℝ X) (hv : s.v = s.x)
    (hk : p.pol.kind ≠ .robust)
    (hL : ∀ a, 0 < (p.pol.update s.mem s.L s.x a).1)
    (h : G.Subgrad s.x (-(p.gradf s.x))) :
    (apgmSpecStep p s).x = s.x ∧ (apgmSpecStep p s).v = s.x ∧ (apgmSpecStep p s).fpr = 0 := by
  have hx : ∀ L : ℝ, 0 < L → p.proxg L⁻¹ (s.x - L⁻¹ • p.gradf s.x) = s.x := by
    intro L hL
    apply hg.fixed' (by positivity) h
    rw [smul_neg, sub_eq_add_neg]
  unfold apgmSpecStep
  cases hkk : p.pol.kind <;> simp_all

/-! ### ADMM with `N` constraints:  min f(x) + Σ g_i(C_i x) -/

/-- one constraint of an ADMM problem -/
structure Con (X Z : Type) where
  rho : ℝ
  C : X → Z
  Cadj : Z → X
  G : Fn Z
  g : Z → ℝ
  prox : ℝ → Z → Z

def admmOfCons (f : Option (X → ℝ)) (alpha : ℝ) (solveX : List Z → List Z → X → X) (cons : List (Con X Z)) :
    ADMMParams ℝ X Z :=
  { f := f, g := cons.map (·.g), proxg := cons.map (·.prox), C := cons.map (·.C), Cadj := cons.map (·.Cadj),
    rho := cons.map (·.rho), alpha := alpha, solveX := solveX, normX := fun v => ‖v‖, normZ := fun v => ‖v‖ }

/-- `Σ_i ρ_i C_iᵀ (z_i − u_i − C_i x)` : minus the gradient of the quadratic part of the x-sub-problem -/
def xGrad (cons : List (Con X Z)) (z u : List Z) (x : X) : X :=
  ((cons.zip (z.zip u)).map (fun t => t.1.rho • t.1.Cadj (t.2.1 - t.2.2 - t.1.C x))).sum

/-- contract of the x-update: the returned point is stationary for
    `f(x) + Σ ρ_i/2 ‖z_i − u_i − C_i x‖²` (for convex `f`: it is a minimiser), and the sub-problem
    has at most one stationary point (strict convexity) -/
structure XSolver (F : Fn X) (cons : List (Con X Z)) (solveX : List Z → List Z → X → X) : Prop where
  stationary : ∀ z u x0, F.Subgrad (solveX z u x0) (xGrad cons z u (solveX z u x0))
  unique : ∀ z u x x', F.Subgrad x (xGrad cons z u x) → F.Subgrad x' (xGrad cons z u x') → x = x'

theorem admmSpecZU_fixed (alpha : ℝ) (xs : X) :
    ∀ (cons : List (Con X Z)) (us : List Z),
      List.Forall₂ (fun (c : Con X Z) u => 0 < c.rho ∧ IsProx c.G c.prox ∧ c.G.Subgrad (c.C xs) (c.rho • u)) cons us →
      admmSpecZU alpha xs (cons.map (·.rho)) (cons.map (·.prox)) (cons.map (·.C)) (cons.map (fun c => c.C xs)) us
        = (cons.map (fun c => c.C xs)).zip us := by
  intro cons us h
  induction h with
  | nil => simp [admmSpecZU]
  | @cons c u cs us hcu _ ih =>
    obtain ⟨hrho, hprox, hsub⟩ := hcu
    simp only [List.map_cons, admmSpecZU, List.zip_cons_cons]
    have e1 : alpha • c.C xs + (1 - alpha) • c.C xs = c.C xs := by
      rw [← add_smul]; simp
    have hz : c.prox (1 / c.rho) (c.C xs + u) = c.C xs := by
      apply hprox.fixed' (by positivity) hsub
      rw [smul_smul]
      have : 1 / c.rho * c.rho = 1 := by field_simp
      rw [this, one_smul]
    rw [e1, hz, ih]
    congr 2
    abel

/-- KKT point of the ADMM problem: `z_i* = C_i x*`, `ρ_i u_i* ∈ ∂g_i(z_i*)`, `x*` stationary for the
    x-sub-problem at `(z*, u*)` (i.e. `−Σ ρ_i C_iᵀ u_i* ∈ ∂f(x*)` for linear `C_i`) -/
theorem admm_fixed (f : Option (X → ℝ)) (alpha : ℝ) (solveX : List Z → List Z → X → X)
    (cons : List (Con X Z)) (F : Fn X) (hsolve : XSolver F cons solveX)
    (xs : X) (us : List Z)
    (hkkt : List.Forall₂ (fun (c : Con X Z) u => 0 < c.rho ∧ IsProx c.G c.prox ∧ c.G.Subgrad (c.C xs) (c.rho • u)) cons us)
    (hx : F.Subgrad xs (xGrad cons (cons.map (fun c => c.C xs)) us xs)) (zOld : List Z) :
    admmSpecStep (admmOfCons f alpha solveX cons)
        { x := xs, z := cons.map (fun c => c.C xs), zOld := zOld, u := us }
      = { x := xs, z := cons.map (fun c => c.C xs), zOld := cons.map (fun c => c.C xs), u := us } := by
  have hxs : solveX (cons.map (fun c => c.C xs)) us xs = xs :=
    hsolve.unique _ _ _ _ (hsolve.stationary _ _ _) hx
  have hlen : (cons.map (fun c => c.C xs)).length = us.length := by
    rw [List.length_map]; exact hkkt.length_eq
  unfold admmSpecStep admmOfCons
  simp only [hxs]
  rw [admmSpecZU_fixed alpha xs cons us hkkt]
  congr 1
  · exact List.map_fst_zip (le_of_eq hlen)
  · exact List.map_snd_zip (le_of_eq hlen.symm)

/-! ### a KKT point minimises the documented objective -/

/-- `−Cᵀy ∈ ∂f(x*)`, `y ∈ ∂g(Cx*)` ⇒ `x*` minimises `f(x) + g(Cx)` (C additive with adjoint `Cadj`) -/
theorem kkt_isMin (F : Fn X) (G : Fn Z) (C : X → Z) (Cadj : Z → X)
    (hC : ∀ x y, C (x - y) = C x - C y) (hadj : ∀ w x, inner ℝ (Cadj w) x = inner ℝ w (C x))
    (xs : X) (y : Z) (h1 : F.Subgrad xs (-(Cadj y))) (h2 : G.Subgrad (C xs) y) :
    ∀ x ∈ F.dom, C x ∈ G.dom → F.val xs + G.val (C xs) ≤ F.val x + G.val (C x) := by
  intro x hx hcx
  have a := h1.2 x hx
  have b := h2.2 (C x) hcx
  rw [inner_neg_left, hadj, hC] at a
  linarith

/-! ### concrete proximal maps satisfying the contract (used for non-vacuity) -/

theorem isProx_zero : IsProx (Fn.ofReal (fun _ : X => (0 : ℝ))) (fun _ v => v) := by
  intro lam _ v
  refine ⟨trivial, fun y _ => ?_⟩
  simp [Fn.ofReal]

/-- `f = ½‖· − y0‖²` with `prox_{λf}(v) = (v + λ y0)/(1 + λ)` -/
theorem isProx_halfsq (y0 : X) :
    IsProx (Fn.ofReal (fun x : X => 1 / 2 * ‖x - y0‖ ^ 2)) (fun lam v => (1 / (1 + lam)) • (v + lam • y0)) := by
  intro lam hlam v
  refine ⟨trivial, fun y _ => ?_⟩
  simp only [Fn.ofReal]
  set p := (1 / (1 + lam)) • (v + lam • y0) with hp
  have h1 : (1 / lam) • (v - p) = p - y0 := by
    have hl : (1 + lam) ≠ 0 := by positivity
    have hv : v = (1 + lam) • p - lam • y0 := by
      rw [hp, smul_smul]
      have : (1 + lam) * (1 / (1 + lam)) = 1 := by field_simp
      rw [this, one_smul]; abel
    conv_lhs => rw [hv]
    rw [add_smul, one_smul]
    have : p + lam • p - lam • y0 - p = lam • (p - y0) := by rw [smul_sub]; abel
    rw [this, smul_smul]
    have : 1 / lam * lam = 1 := by field_simp
    rw [this, one_smul]
  rw [h1]
  have e : y - y0 = (p - y0) + (y - p) := by abel
  rw [e, norm_add_sq_real]
  have : 0 ≤ ‖y - p‖ ^ 2 := by positivity
  linarith

end Scico.Steps
