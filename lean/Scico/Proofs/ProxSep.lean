/-
  One-entry certificates for the remaining coordinate-wise convex functionals:
  non-negative indicator, weighted squared-L2 loss with a diagonal operator (real and complex),
  soft threshold of non-negative numbers (nuclear norm on the singular values).
-/
import Scico.Proofs.ProxConvex

set_option linter.unusedSectionVars false

namespace Scico.ProxSep

open Scico Scico.Prox Scico.ProxSpec Scico.ProxBridge Scico.ProxConvex WithLp

/-- `NonNegativeIndicator.prox` on one entry: `max v 0` -/
theorem nonneg_1d {lam : ℝ} (hlam : 0 < lam) (v : ℝ) :
    nonnegProx1 v ∈ Set.Ici (0 : ℝ) ∧
      ∀ z ∈ Set.Ici (0 : ℝ), (0 : ℝ) + (v - nonnegProx1 v) / lam * (z - nonnegProx1 v) ≤ 0 := by
  unfold nonnegProx1
  rw [maxP_eq]
  refine ⟨Set.mem_Ici.mpr (le_max_right _ _), fun z hz => ?_⟩
  have hz' : (0 : ℝ) ≤ z := hz
  rcases le_total v 0 with h | h
  · rw [max_eq_right h, zero_add, sub_zero, sub_zero]
    exact mul_nonpos_of_nonpos_of_nonneg (div_nonpos_of_nonpos_of_nonneg h hlam.le) hz'
  · rw [max_eq_left h]; simp

/-- `SquaredL2Loss.prox`, diagonal operator, one real entry: `φ(x) = scale·w·(y - a x)²` -/
theorem sqL2loss_1d {lam scale w : ℝ} (hlam : 0 < lam) (hs : 0 ≤ scale) (hw : 0 ≤ w) (a y v z : ℝ) :
    scale * (w * (y - a * sqL2LossDiagProx1 scale w a y v lam) ^ 2)
        + (v - sqL2LossDiagProx1 scale w a y v lam) / lam * (z - sqL2LossDiagProx1 scale w a y v lam)
      ≤ scale * (w * (y - a * z) ^ 2) := by
  unfold sqL2LossDiagProx1
  simp only []
  set c := 2 * scale * lam with hc
  have hden : 0 < c * a * w * a + 1 := by
    have : 0 ≤ c * a * w * a := by
      have : c * a * w * a = c * w * a ^ 2 := by ring
      rw [this]; positivity
    linarith
  set p := (c * a * w * y + v) / (c * a * w * a + 1) with hp
  have hpe : p * (c * a * w * a + 1) = c * a * w * y + v := by rw [hp, div_mul_cancel₀ _ hden.ne']
  have hv : v = p * (c * a * w * a + 1) - c * a * w * y := by linarith
  have hg : (v - p) / lam = -(2 * scale * w * a * (y - a * p)) := by
    rw [hv, hc]; field_simp; ring
  rw [hg]
  have : scale * (w * (y - a * z) ^ 2) - scale * (w * (y - a * p) ^ 2)
      + 2 * scale * w * a * (y - a * p) * (z - p) = scale * w * a ^ 2 * (z - p) ^ 2 := by ring
  have h0 : 0 ≤ scale * w * a ^ 2 * (z - p) ^ 2 := by positivity
  linarith

/-- squared modulus of `y - a x` for complex `a, x, y` -/
theorem sqL2loss_1d_complex {lam scale w : ℝ} (hlam : 0 < lam) (hs : 0 ≤ scale) (hw : 0 ≤ w)
    (a y v : ℝ × ℝ) :
    Cert Set.univ (fun x : ℂ => scale * (w * ‖toC y - toC a * x‖ ^ 2)) lam (toC v)
      (toC (sqL2LossDiagProxC1 scale w a y v lam)) := by
  refine ⟨trivial, fun z _ => ?_⟩
  rw [real_inner_smul_left]
  unfold sqL2LossDiagProxC1
  simp only []
  set c := 2 * scale * lam with hc
  set den := c * w * (a.1 * a.1 + a.2 * a.2) + 1 with hden
  have hdpos : 0 < den := by
    have : 0 ≤ c * w * (a.1 * a.1 + a.2 * a.2) := by
      have : 0 ≤ a.1 * a.1 + a.2 * a.2 := by nlinarith [sq_nonneg a.1, sq_nonneg a.2]
      positivity
    linarith
  -- the point p = num / den, by coordinates
  set n1 := c * w * (a.1 * y.1 + a.2 * y.2) + v.1 with hn1
  set n2 := c * w * (a.1 * y.2 - a.2 * y.1) + v.2 with hn2
  have hp : toC (cdivr (cadd (cscale (c * w) (cmul (cconj a) y)) v) den) = ⟨n1 / den, n2 / den⟩ := by
    apply Complex.ext
    · simp [cdivr, cadd, cscale, cmul, cconj, hn1]
    · simp [cdivr, cadd, cscale, cmul, cconj, hn2]; ring
  rw [hp]
  set p1 := n1 / den with hp1
  set p2 := n2 / den with hp2
  have e1 : p1 * den = n1 := by rw [hp1]; field_simp
  have e2 : p2 * den = n2 := by rw [hp2]; field_simp
  have hv1 : v.1 = p1 * den - c * w * (a.1 * y.1 + a.2 * y.2) := by rw [e1, hn1]; ring
  have hv2 : v.2 = p2 * den - c * w * (a.1 * y.2 - a.2 * y.1) := by rw [e2, hn2]; ring
  -- expand norms and the real inner product on ℂ by coordinates
  have hnorm : ∀ x : ℂ, ‖toC y - toC a * x‖ ^ 2
      = (y.1 - (a.1 * x.re - a.2 * x.im)) ^ 2 + (y.2 - (a.1 * x.im + a.2 * x.re)) ^ 2 := by
    intro x
    rw [Complex.sq_norm, Complex.normSq_apply]
    simp [toC]; ring
  have hin : inner ℝ (toC v - (⟨p1, p2⟩ : ℂ)) (z - (⟨p1, p2⟩ : ℂ))
      = (v.1 - p1) * (z.re - p1) + (v.2 - p2) * (z.im - p2) := by
    rw [Complex.inner]
    simp [toC]; ring
  rw [hnorm, hnorm, hin]
  simp only []
  -- gradient identity:  (v - p)/lam = -2 scale w conj(a) (y - a p)
  have g1 : (v.1 - p1) = lam * (2 * scale * w * ((a.1 * a.1 + a.2 * a.2) * p1 - (a.1 * y.1 + a.2 * y.2))) := by
    rw [hv1, hden, hc]; ring
  have g2 : (v.2 - p2) = lam * (2 * scale * w * ((a.1 * a.1 + a.2 * a.2) * p2 - (a.1 * y.2 - a.2 * y.1))) := by
    rw [hv2, hden, hc]; ring
  rw [g1, g2]
  have hcancel : ∀ X Y : ℝ, 1 / lam * (lam * X * (z.re - p1) + lam * Y * (z.im - p2)) = X * (z.re - p1) + Y * (z.im - p2) := by
    intro X Y; field_simp
  rw [hcancel]
  have key : scale * (w * ((y.1 - (a.1 * z.re - a.2 * z.im)) ^ 2 + (y.2 - (a.1 * z.im + a.2 * z.re)) ^ 2))
      - scale * (w * ((y.1 - (a.1 * p1 - a.2 * p2)) ^ 2 + (y.2 - (a.1 * p2 + a.2 * p1)) ^ 2))
      - (2 * scale * w * ((a.1 * a.1 + a.2 * a.2) * p1 - (a.1 * y.1 + a.2 * y.2)) * (z.re - p1)
        + 2 * scale * w * ((a.1 * a.1 + a.2 * a.2) * p2 - (a.1 * y.2 - a.2 * y.1)) * (z.im - p2))
      = scale * w * (a.1 * a.1 + a.2 * a.2) * ((z.re - p1) ^ 2 + (z.im - p2) ^ 2) := by ring
  have h0 : 0 ≤ scale * w * (a.1 * a.1 + a.2 * a.2) * ((z.re - p1) ^ 2 + (z.im - p2) ^ 2) := by
    have : 0 ≤ a.1 * a.1 + a.2 * a.2 := by nlinarith [sq_nonneg a.1, sq_nonneg a.2]
    positivity
  linarith

/-- on non-negative input, `maximum(0, s - lam)` IS the soft threshold -/
theorem nuclearSv_eq_l1 {lam : ℝ} (hlam : 0 < lam) (s : ℝ) (hs : 0 ≤ s) : maxP 0 (s - lam) = l1Prox1 s lam := by
  unfold l1Prox1
  rw [maxP_eq, posPart_eq, hasAbs_abs, abs_of_nonneg hs, max_comm]
  unfold sign
  rcases eq_or_lt_of_le hs with h | h
  · rw [← h]; simp
    exact hlam.le
  · rw [if_pos h, one_mul]

end Scico.ProxSep
