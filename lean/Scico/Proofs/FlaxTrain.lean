/-
  Helper lemmas for the trainer bookkeeping of `Scico.Model.Flax` §6 (sessions, chains of sessions,
  counting of logged steps).
-/
import Scico.Proofs.FlaxCkpt

namespace Scico.Flax

/-! ### counting the steps at which something periodic happens -/

/-- number of `s ∈ [a, a+n)` with `L ∣ s+1` -/
theorem count_periodic (L : Nat) (hL : 1 ≤ L) (a n : Nat) :
    ((List.range' a n).filter (fun s => (s + 1) % L == 0)).length = (a + n) / L - a / L := by
  have _ := hL
  induction n with
  | zero => simp
  | succ n ih =>
    rw [List.range'_1_concat, List.filter_append, List.length_append, ih]
    have hmono : a / L ≤ (a + n) / L := Nat.div_le_div_right (Nat.le_add_right a n)
    by_cases hm : (a + n + 1) % L = 0
    · have hsucc : (a + (n + 1)) / L = (a + n) / L + 1 := by
        rw [← Nat.add_assoc]; exact Nat.succ_div_of_mod_eq_zero hm
      rw [hsucc]
      simp [hm]; omega
    · have hsucc : (a + (n + 1)) / L = (a + n) / L := by
        rw [← Nat.add_assoc]; exact Nat.succ_div_of_mod_ne_zero hm
      rw [hsucc]
      simp [hm]

/-! ### one session -/

/-- a configuration for which no `ZeroDivisionError` can occur and the constructor restores -/
structure TrainCfg.Resuming (c : TrainCfg) : Prop where
  bs : 0 < c.batchSize
  ck : c.checkpointing = true
  nv : c.hasVars0 = false
  lg : 1 ≤ c.logEvery
  sp : 1 ≤ c.spc

theorem sessionLoop_ok (c : TrainCfg) (offset : Nat) (h : (1 ≤ c.logEvery ∧ 1 ≤ c.spc) ∨ c.numSteps ≤ offset) :
    ∃ evs, sessionLoop c offset = .ok evs ∧ evs.map (·.step) = List.range' offset (c.numSteps - offset) ∧
      (evs.filter (·.logged)).length =
        ((List.range' offset (c.numSteps - offset)).filter (fun s => (s + 1) % c.logEvery == 0)).length ∧
      ∀ x ∈ (evs.filter (·.ckpt)).map (·.step + 1), x ≤ max offset c.numSteps := by
  have hcond : ¬ (offset < c.numSteps ∧ (c.logEvery = 0 ∨ c.spc = 0)) := by
    rintro ⟨h1, h2⟩
    rcases h with ⟨h3, h4⟩ | h3
    · rcases h2 with h2 | h2 <;> omega
    · omega
  refine ⟨(List.range' offset (c.numSteps - offset)).map (fun step =>
    { step := step, batch := step - offset, logged := (step + 1) % c.logEvery == 0, epoch := step / c.spe,
      ckpt := (step + 1) % c.spc == 0 || step + 1 == c.numSteps }), by simp only [sessionLoop, hcond, if_false], ?_, ?_, ?_⟩
  · simp [Function.comp_def]
  · rw [List.filter_map, List.length_map]
    rfl
  · intro x hx
    simp only [List.mem_map, List.mem_filter, List.mem_range'_1] at hx
    obtain ⟨ev, ⟨⟨y, hy, rfl⟩, _⟩, rfl⟩ := hx
    simp only
    omega

/-- one resuming session on a coherent directory -/
theorem trainSession_spec (k : Nat) (hk : 1 ≤ k) (c : TrainCfg) (hc : c.Resuming) (d : Dir Nat) (hd : Coh d) :
    ∃ o, trainSession k c d = .ok o ∧ o.offset = stepOf (latestD d) ∧
      o.events.map (·.step) = List.range' o.offset (c.numSteps - o.offset) ∧
      (o.events.filter (·.logged)).length =
        ((List.range' o.offset (c.numSteps - o.offset)).filter (fun s => (s + 1) % c.logEvery == 0)).length ∧
      Coh o.dir ∧ latestD o.dir = some (max o.offset c.numSteps) := by
  obtain ⟨evs, hloop, hsteps, hlog, hle⟩ := sessionLoop_ok c (stepOf (latestD d)) (Or.inl ⟨hc.lg, hc.sp⟩)
  have hb : c.batchSize ≠ 0 := by have := hc.bs; omega
  have hoff : sessionOffset c d = .ok (stepOf (latestD d)) := by
    simp only [sessionOffset, hc.ck, hc.nv, Bool.not_false, Bool.and_self, if_true]
    exact restore_coh d hd
  refine ⟨⟨stepOf (latestD d), evs,
      if c.logflag then c.stepsPerEval * (evs.filter (fun e : StepEv => e.logged)).length else 0,
      saveAll k d ((((evs.filter (fun e : StepEv => e.ckpt)).map (fun e : StepEv => e.step + 1)) ++
        [max (stepOf (latestD d)) c.numSteps]).map (fun s => (s, s)))⟩,
    by simp only [trainSession, hb, if_false, hoff, hloop, hc.ck, if_true], rfl, hsteps, hlog, ?_, ?_⟩
  · exact coh_saveAll k _ d hd
  · simp only
    rw [latestD_saveAll k hk, List.foldl_map]
    exact foldl_omax_last _ (latestD d) _ (Nat.le_max_left _ _) hle

/-- saves at steps that do not exceed the latest step present are all skipped -/
theorem saveAll_skipped {σ : Type} (k : Nat) (l : List (Nat × σ)) (m : Nat) (hl : latest l = some m) :
    ∀ ps : List (Nat × σ), (∀ p ∈ ps, p.1 ≤ m) → saveAll k (some l) ps = some l := by
  intro ps
  induction ps with
  | nil => intro _; rfl
  | cons p ps ih =>
    intro h
    have hp : ¬ m < p.1 := by have := h p List.mem_cons_self; omega
    simp only [saveAll, save_some, hl, hp, decide_false, Bool.false_eq_true, if_false]
    exact ih (fun q hq => h q (List.mem_cons_of_mem _ hq))

/-- a second `train()` on the same trainer object after a resuming session: same steps, directory unchanged -/
theorem trainAgain_spec (k : Nat) (hk : 1 ≤ k) (c : TrainCfg) (hc : c.Resuming) (d : Dir Nat) (hd : Coh d) :
    ∃ o o', trainSession k c d = .ok o ∧ trainAgain k c o = .ok o' ∧
      o'.events = o.events.map (fun e => { e with batch := e.batch + o.events.length }) ∧ o'.dir = o.dir := by
  obtain ⟨evs, hloop, hsteps, hlog, hle⟩ := sessionLoop_ok c (stepOf (latestD d)) (Or.inl ⟨hc.lg, hc.sp⟩)
  obtain ⟨o, ho, hoff, _, _, hcoh, hlat⟩ := trainSession_spec k hk c hc d hd
  have hb : c.batchSize ≠ 0 := by have := hc.bs; omega
  have hoffs : sessionOffset c d = .ok (stepOf (latestD d)) := by
    simp only [sessionOffset, hc.ck, hc.nv, Bool.not_false, Bool.and_self, if_true]
    exact restore_coh d hd
  have hoev : o.events = evs := by
    simp only [trainSession, hb, if_false, hoffs, hloop, hc.ck, if_true] at ho
    cases ho; rfl
  rw [hoff] at hlat
  obtain ⟨l, hl⟩ : ∃ l, o.dir = some l := by
    cases hod : o.dir with
    | none => rw [hod] at hlat; simp [latestD] at hlat
    | some l => exact ⟨l, rfl⟩
  have hlatl : latest l = some (max (stepOf (latestD d)) c.numSteps) := by rw [hl] at hlat; exact hlat
  have hfl : ∀ (n : Nat), ((evs.map (fun e : StepEv => { e with batch := e.batch + n })).filter (fun e : StepEv => e.logged)).length
      = (evs.filter (fun e : StepEv => e.logged)).length := by
    intro n; rw [List.filter_map, List.length_map]; rfl
  have hfc : ∀ (n : Nat), ((evs.map (fun e : StepEv => { e with batch := e.batch + n })).filter (fun e : StepEv => e.ckpt)).map
      (fun e : StepEv => e.step + 1) = (evs.filter (fun e : StepEv => e.ckpt)).map (fun e : StepEv => e.step + 1) := by
    intro n; rw [List.filter_map, List.map_map]; rfl
  refine ⟨o, ⟨o.offset, evs.map (fun e => { e with batch := e.batch + o.events.length }),
      if c.logflag then c.stepsPerEval * (evs.filter (fun e : StepEv => e.logged)).length else 0, o.dir⟩,
    ho, ?_, by rw [hoev], rfl⟩
  simp only [trainAgain, hoff, hloop, hc.ck, if_true, hfl, hfc]
  congr 2
  rw [hl]
  apply saveAll_skipped k l _ hlatl
  intro p hp
  simp only [List.mem_map, List.mem_append, List.mem_singleton] at hp
  obtain ⟨x, hx, rfl⟩ := hp
  rcases hx with hx | rfl
  · exact hle x (List.mem_map.mpr (by simpa using hx))
  · exact Nat.le_refl _

/-! ### chains of sessions -/

theorem specChain_flatten (ns : List Nat) : ∀ s, (specChain s ns).flatten = List.range' s (ns.foldl max s - s) := by
  induction ns with
  | nil => intro s; simp [specChain]
  | cons n ns ih =>
    intro s
    simp only [specChain, List.flatten_cons, List.foldl_cons, ih]
    have hM : max s n ≤ ns.foldl max (max s n) := foldl_max_ge' ns _
    rcases Nat.le_total n s with hns | hsn
    · rw [Nat.max_eq_left hns, Nat.sub_eq_zero_of_le hns]; simp
    · rw [Nat.max_eq_right hsn] at hM ⊢
      have : ns.foldl max n - s = (n - s) + (ns.foldl max n - n) := by omega
      rw [this, ← List.range'_append_1]
      congr 2
      omega

theorem trainChain_spec (k : Nat) (hk : 1 ≤ k) (cs : List TrainCfg) (hcs : ∀ c ∈ cs, c.Resuming) :
    ∀ d : Dir Nat, Coh d →
      ∃ d', trainChain k d cs = .ok (specChain (stepOf (latestD d)) (cs.map (·.numSteps)), d') ∧ Coh d' ∧
        stepOf (latestD d') = (cs.map (·.numSteps)).foldl max (stepOf (latestD d)) := by
  induction cs with
  | nil => intro d hd; exact ⟨d, rfl, hd, rfl⟩
  | cons c cs ih =>
    intro d hd
    obtain ⟨o, ho, hoff, hsteps, _, hcoh, hlat⟩ := trainSession_spec k hk c (hcs c List.mem_cons_self) d hd
    obtain ⟨d', hch, hcoh', hlat'⟩ := ih (fun c' hc' => hcs c' (List.mem_cons_of_mem _ hc')) o.dir hcoh
    have hs : stepOf (latestD o.dir) = max (stepOf (latestD d)) c.numSteps := by rw [hlat, hoff]; rfl
    refine ⟨d', ?_, hcoh', ?_⟩
    · simp only [trainChain, ho, hch, List.map_cons, specChain, hsteps, hoff, hs]
    · rw [hlat', hs]; rfl

end Scico.Flax
