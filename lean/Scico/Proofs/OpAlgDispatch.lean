/-
  Soundness of the class-directed dispatch (`_wrap_add_sub`, `_wrap_add_sub_matrix`,
  `_wrap_mul_div_scalar`, `__matmul__`/`__rmatmul__` priorities, `__call__`) on the repaired tree.
-/
import Scico.Proofs.OpAlgDiag2

namespace Scico.OpAlg
open Scico.DType
attribute [local instance] starConj
set_option linter.unusedSectionVars false

section
variable {K : Type} [Field K] [StarRing K] [HasRe K]

/-- `o` denotes `D`, an `m × n` matrix -/
def SoundD (o : Obj K) (D : Mx K) (m n : Nat) : Prop := Sound o D ∧ o.m = m ∧ o.n = n

theorem arith_diag (c : Cls) : c.arith = .diag ↔ c = .diag := by cases c <;> simp [Cls.arith]
theorem arith_sid (c : Cls) : c.arith = .scaledId ↔ (c = .scaledId ∨ c = .ident) := by
  cases c <;> simp [Cls.arith]
theorem arith_matrix (c : Cls) : c.arith = .matrix ↔ c = .matrix := by cases c <;> simp [Cls.arith]
theorem arith_op (c : Cls) : c.arith = .op ↔ c = .op := by cases c <;> simp [Cls.arith]

theorem isSub_matrix (c : Cls) : c.isSub .matrix = true ↔ c = .matrix := by
  cases c <;> simp [Cls.isSub]
theorem isSub_ident (c : Cls) : c.isSub .ident = true ↔ c = .ident := by
  cases c <;> simp [Cls.isSub]

theorem Sound.isLinop {a : Obj K} {Da : Mx K} (ha : Sound a Da) : a.cls.isLinop = true := by
  have := ha.lin
  simp only [Obj.cls, Cls.isLinop, bne_iff_ne, ne_eq]; exact this

theorem opAddSub_absurd {a b o : Obj K} (sub : Bool) (h : opAddSub sub a b = .ok o) :
    o.md.cls = .op := by
  unfold opAddSub at h
  split at h
  · injection h with h; subst h; rfl
  · cases h

/-- the unwrapped method of class `c`, where `c` is the class of one operand and the other
    operand is an instance of it -/
theorem addSubOf_sound (c : Cls) (sub : Bool) {a b o : Obj K} {Da Db : Mx K}
    (ha : Sound a Da) (hb : Sound b Db) (hs : a.sameShape b = true)
    (hna : a.md.cls ≠ .matrix)
    (hc : (c = a.md.cls ∧ b.md.cls.isSub a.md.cls = true) ∨ (c = b.md.cls ∧ a.md.cls.isSub b.md.cls = true))
    (h : addSubOf Cfg.fixed c sub a b = .ok o) :
    SoundD o (fun i j => pm sub (Da i j) (Db i j)) a.m a.n := by
  unfold addSubOf at h
  have hself : ∀ d : Cls, d.isSub d = true := by intro d; cases d <;> simp [Cls.isSub]
  split at h
  · -- Operator.__add__: impossible for linear operands
    rename_i hcc
    rw [arith_op] at hcc
    rcases hc with ⟨h1, _⟩ | ⟨h1, _⟩
    · exact absurd (h1 ▸ hcc) ha.lin
    · exact absurd (h1 ▸ hcc) hb.lin
  · rename_i hcc
    rw [arith_diag] at hcc
    have hab : IsDiagCls a.md.cls ∧ IsDiagCls b.md.cls := by
      rcases hc with ⟨h1, h2⟩ | ⟨h1, h2⟩
      · rw [← h1, hcc] at h2
        exact ⟨Or.inl (h1 ▸ hcc), (isSub_diag_iff _).mp h2⟩
      · rw [← h1, hcc] at h2
        exact ⟨(isSub_diag_iff _).mp h2, Or.inl (h1 ▸ hcc)⟩
    have hS := diagAddSub_sound sub ha hb hab.1 hab.2 hs h
    -- sizes: the rebuilt Diagonal has the shapes of `a`
    obtain ⟨hsa, _, hma, _⟩ := diagonal_spec ha hab.1
    unfold diagAddSub at h
    rcases hda : a.diagonal with ⟨da, sa, ta⟩
    rcases hdb : b.diagonal with ⟨db, sb, tb⟩
    simp only [hda, hdb] at h hsa
    split at h
    · rw [rediag_fixed] at h
      obtain ⟨_, _, hi', _, hbo, _, _⟩ := mkDiag_sound _ _ _ _ _ _ h (by
        rcases ha.mode with h | h
        · exact Or.inl h
        · rcases hma with h' | h'
          · exact Or.inl h'
          · rw [hda] at h'; exact Or.inr ⟨rt_complex_left h', rt_complex_left h'⟩)
      have hoo : o.md.outShape = a.md.outShape := by
        rw [hsa] at hbo; injection hbo with hbo; exact hbo.symm
      exact ⟨hS, by simp only [Obj.m, hoo], by simp only [Obj.n, hi']⟩
    · cases h
  · rename_i hcc
    rw [arith_sid] at hcc
    have hab : (a.md.cls = .scaledId ∨ a.md.cls = .ident) ∧ (b.md.cls = .scaledId ∨ b.md.cls = .ident) := by
      rcases hc with ⟨h1, h2⟩ | ⟨h1, h2⟩
      · rw [h1] at hcc
        refine ⟨hcc, ?_⟩
        rcases hcc with h3 | h3
        · rw [h3] at h2; exact (isSub_sid_iff _).mp h2
        · rw [h3] at h2; exact Or.inr ((isSub_ident _).mp h2)
      · rw [h1] at hcc
        refine ⟨?_, hcc⟩
        rcases hcc with h3 | h3
        · rw [h3] at h2; exact (isSub_sid_iff _).mp h2
        · rw [h3] at h2; exact Or.inr ((isSub_ident _).mp h2)
    obtain ⟨hS, hi, ho⟩ := sidAddSub_sound sub ha hb hab.1 hab.2 hs h
    obtain ⟨hom, hon⟩ := sizes_of_shapes hi ho
    exact ⟨hS, hom, hon⟩
  · rename_i hcc
    rw [arith_matrix] at hcc
    rcases hc with ⟨h1, _⟩ | ⟨h1, h2⟩
    · exact absurd (h1 ▸ hcc) hna
    · rw [← h1, hcc] at h2
      exact absurd ((isSub_matrix _).mp h2) hna
  · injection h with h; subst h
    exact ⟨linAddSub_sound sub ha hb hs, rfl, rfl⟩

/-- `_wrap_add_sub` -/
theorem wrapAddSub_sound (sub : Bool) {a b o : Obj K} {Da Db : Mx K}
    (ha : Sound a Da) (hb : Sound b Db) (hna : a.md.cls ≠ .matrix)
    (h : wrapAddSub Cfg.fixed sub a b = .ok o) :
    SoundD o (fun i j => pm sub (Da i j) (Db i j)) a.m a.n := by
  unfold wrapAddSub at h
  split at h
  · cases h
  · rename_i hs
    have hs' : a.sameShape b = true := by simpa using hs
    split at h
    · rename_i h1
      exact addSubOf_sound _ sub ha hb hs' hna (Or.inl ⟨rfl, h1⟩) h
    · split at h
      · rename_i h2
        exact addSubOf_sound _ sub ha hb hs' hna (Or.inr ⟨rfl, h2⟩) h
      · split at h
        · injection h with h; subst h
          exact ⟨linAddSub_sound sub ha hb hs', rfl, rfl⟩
        · rename_i hl
          exact absurd hb.isLinop hl

theorem matAddSub_sizes (sub : Bool) {a b o : Obj K} {Da Db : Mx K} (ha : Sound a Da)
    (hb : Sound b Db) (hc : a.md.cls = .matrix) (h : matAddSub sub a b = .ok o) :
    SoundD o (fun i j => pm sub (Da i j) (Db i j)) a.m a.n := by
  refine ⟨matAddSub_sound sub ha hb hc h, ?_⟩
  unfold matAddSub at h
  split at h
  · split at h
    · injection h with h; subst h; simp [rematrix]
    · cases h
  · split at h
    · cases h
    · split at h
      · injection h with h; subst h; exact ⟨rfl, rfl⟩
      · rename_i hl; exact absurd hb.isLinop (by simpa [Obj.cls] using hl)

/-- `a + b`, `a - b` -/
theorem addSub_sound (sub : Bool) {a b o : Obj K} {Da Db : Mx K}
    (ha : Sound a Da) (hb : Sound b Db) (h : addSub Cfg.fixed sub a b = .ok o) :
    SoundD o (fun i j => pm sub (Da i j) (Db i j)) a.m a.n := by
  unfold addSub at h
  split at h
  · -- reflected method of MatrixOperator on the right
    rename_i hpri
    simp only [Bool.and_eq_true, Bool.or_eq_true, decide_eq_true_eq] at hpri
    have hcb : b.md.cls = .matrix := hpri.1
    split at h
    · rename_i hsub
      have hnb : Sound (matNeg b) (fun i j => - Db i j) := matNeg_sound hb hcb
      obtain ⟨hS, hm, hn⟩ := matAddSub_sizes false hnb ha rfl h
      have hbm : (matNeg b).m = b.m := by simp [matNeg, rematrix]
      have hbn : (matNeg b).n = b.n := by simp [matNeg, rematrix]
      -- successful `MatrixOperator + a` means equal shapes
      have hsz : b.m = a.m ∧ b.n = a.n := by
        unfold matAddSub at h
        have : (matNeg b).md.cls = .matrix := rfl
        have hacls : a.md.cls ≠ .matrix := by
          rcases hpri.2 with h' | h' <;> simp [Obj.cls] at h' <;> simp [h']
        simp only [hacls, if_false] at h
        split at h
        · cases h
        · rename_i hs
          have hs' : (matNeg b).sameShape a = true := by simpa using hs
          exact ⟨by rw [← hbm]; exact sameShape_m hs', by rw [← hbn]; exact sameShape_n hs'⟩
      refine ⟨hS.congr (fun i j _ _ => by simp only [pm, hsub, if_true, Bool.false_eq_true, if_false]; ring), by rw [hm, hbm, hsz.1], by rw [hn, hbn, hsz.2]⟩
    · rename_i hsub
      obtain ⟨hS, hm, hn⟩ := matAddSub_sizes false hb ha hcb h
      have hsz : b.m = a.m ∧ b.n = a.n := by
        unfold matAddSub at h
        have hacls : a.md.cls ≠ .matrix := by
          rcases hpri.2 with h' | h' <;> simp [Obj.cls] at h' <;> simp [h']
        simp only [hacls, if_false] at h
        split at h
        · cases h
        · rename_i hs
          have hs' : b.sameShape a = true := by simpa using hs
          exact ⟨sameShape_m hs', sameShape_n hs'⟩
      refine ⟨hS.congr (fun i j _ _ => by simp only [pm, hsub, Bool.false_eq_true, if_false]; ring), by rw [hm, hsz.1], by rw [hn, hsz.2]⟩
  · split at h
    · rename_i hop
      exact absurd hop ha.lin
    · rename_i hmat
      exact matAddSub_sizes sub ha hb hmat h
    · rename_i hn1 hn2
      exact wrapAddSub_sound sub ha hb (by simpa [Obj.cls] using hn2) h


theorem opMul_cls {a o : Obj K} (c : Scal K) (h : opMul a c = .ok o) : o.md.cls = .op := by
  unfold opMul at h; split at h
  · injection h with h; subst h; rfl
  · cases h

/-- `a * c`, `c * a` -/
theorem smul_sound {a o : Obj K} {Da : Mx K} (c : Scal K) (ha : Sound a Da)
    (h : smul Cfg.fixed a c = .ok o) : SoundD o (fun i j => c.val * Da i j) a.m a.n := by
  unfold smul at h
  split at h
  · rename_i hcc; rw [Obj.cls, arith_op] at hcc; exact absurd hcc ha.lin
  · rename_i hcc; rw [Obj.cls, arith_diag] at hcc
    obtain ⟨hS, hi, ho⟩ := diagMul_sound c ha (Or.inl hcc) h
    obtain ⟨hom, hon⟩ := sizes_of_shapes hi ho
    exact ⟨hS, hom, hon⟩
  · rename_i hcc; rw [Obj.cls, arith_sid] at hcc
    obtain ⟨hS, hi, ho⟩ := sidMul_sound c ha hcc h
    obtain ⟨hom, hon⟩ := sizes_of_shapes hi ho
    exact ⟨hS, hom, hon⟩
  · rename_i hcc; rw [Obj.cls, arith_matrix] at hcc
    refine ⟨matMulS_sound c ha hcc h, ?_⟩
    unfold matMulS at h
    split at h
    · cases h
    · split at h
      · injection h with h; subst h; simp [rematrix]
      · split at h <;> cases h
  · refine ⟨linMul_sound c ha h, ?_⟩
    unfold linMul at h; split at h
    · injection h with h; subst h; exact ⟨rfl, rfl⟩
    · cases h

/-- `a / c` -/
theorem sdiv_sound {a o : Obj K} {Da : Mx K} (c : Scal K) (ha : Sound a Da)
    (h : sdiv Cfg.fixed a c = .ok o) : SoundD o (fun i j => Da i j / c.val) a.m a.n := by
  unfold sdiv at h
  split at h
  · rename_i hcc; rw [Obj.cls, arith_op] at hcc; exact absurd hcc ha.lin
  · rename_i hcc; rw [Obj.cls, arith_diag] at hcc
    obtain ⟨hS, hi, ho⟩ := diagDiv_sound c ha (Or.inl hcc) h
    obtain ⟨hom, hon⟩ := sizes_of_shapes hi ho
    exact ⟨hS, hom, hon⟩
  · rename_i hcc; rw [Obj.cls, arith_sid] at hcc
    obtain ⟨hS, hi, ho⟩ := sidDiv_sound c ha hcc h
    obtain ⟨hom, hon⟩ := sizes_of_shapes hi ho
    exact ⟨hS, hom, hon⟩
  · rename_i hcc; rw [Obj.cls, arith_matrix] at hcc
    refine ⟨matDivS_sound c ha hcc h, ?_⟩
    unfold matDivS at h
    split at h
    · cases h
    · split at h
      · injection h with h; subst h; simp [rematrix]
      · split at h <;> cases h
  · refine ⟨linDiv_sound c ha h, ?_⟩
    unfold linDiv at h; split at h
    · injection h with h; subst h; exact ⟨rfl, rfl⟩
    · cases h

/-- `-a` -/
theorem neg_sound {a o : Obj K} {Da : Mx K} (ha : Sound a Da) (h : neg Cfg.fixed a = .ok o) :
    SoundD o (fun i j => - Da i j) a.m a.n := by
  unfold neg at h
  split at h
  · rename_i hc
    injection h with h; subst h
    exact ⟨matNeg_sound ha (by simpa [Obj.cls] using hc), by simp [matNeg, rematrix], by simp [matNeg, rematrix]⟩
  · obtain ⟨hS, hm, hn⟩ := smul_sound _ ha h
    exact ⟨hS.congr (fun i j _ _ => by ring), hm, hn⟩

/-- `a(b)` -/
theorem call_sound {a b o : Obj K} {Da Db : Mx K} (ha : Sound a Da) (hb : Sound b Db)
    (h : call Cfg.fixed a b = .ok o) : SoundD o (matMul a.n Da Db) a.m b.n := by
  unfold call at h
  split at h
  · rename_i hop; exact absurd hop ha.lin
  · rename_i hmat
    refine ⟨matCall_sound _ ha hb hmat h, ?_⟩
    unfold matCall at h
    have hbl : b.md.cls.isLinop = true := hb.isLinop
    rw [if_pos hbl] at h
    split at h
    · rename_i hsh
      split at h
      · rename_i hid
        injection h with h; subst h
        obtain ⟨hio, _⟩ := sid_payload hb (Or.inr hid)
        refine ⟨rfl, ?_⟩
        simp only [Obj.n, hsh, hio]
      · split at h
        · injection h with h; subst h; simp [rematrix]
        · dsimp only at h
          split at h
          · cases h
          · injection h with h; subst h; exact ⟨rfl, rfl⟩
    · cases h
  · obtain ⟨hS, hi, ho⟩ := linCall_sound _ ha hb h
    exact ⟨hS, by simp only [Obj.m, ho], by simp only [Obj.n, hi]⟩

/-- a `Diagonal @ Diagonal-family` product on BlockArray shapes is free of broadcasting between the two
    diagonals (see `DiagProductOk`; nothing is required when the shapes are plain) -/
def MatmulPlain (a b : Obj K) : Prop :=
  a.md.cls = .diag → IsDiagCls b.md.cls → DiagProductOk a b

/-- `a @ b` -/
theorem matmul_sound {a b o : Obj K} {Da Db : Mx K} (ha : Sound a Da) (hb : Sound b Db)
    (hR : MatmulPlain a b) (h : matmul Cfg.fixed a b = .ok o) :
    SoundD o (matMul a.n Da Db) a.m b.n := by
  unfold matmul at h
  split at h
  · rename_i hop; exact absurd (by simpa [Obj.cls] using hop) ha.lin
  · split at h
    · -- Identity.__rmatmul__ (tried first): the left operand itself
      rename_i hpri
      simp only [Bool.and_eq_true, Bool.or_eq_true, decide_eq_true_eq] at hpri
      have hid : b.md.cls = .ident := hpri.1
      simp only [Cfg.fixed, Bool.true_and] at h
      split at h
      · cases h
      · rename_i hsh
        have hsh' : a.md.inShape = b.md.outShape := by simpa using hsh
        injection h with h; subst h
        obtain ⟨hio, hI⟩ := sid_payload hb (Or.inr hid)
        have hI1 : b.dat.get 0 = 1 := by
          have := hb.pl; simp only [PayloadIs, hid] at this; exact this.2.1
        have hk : a.n = b.n := by simp only [Obj.n, hsh', hio]
        refine ⟨ha.congr (fun i j _ hj => ?_), rfl, hk⟩
        rw [matMul_sid_right a.n Da Db 1 (fun i j hi hj => by
          rw [hI i j (hk ▸ hi) (hk ▸ hj), hI1]) i j hj]
        ring
    · split at h
      · -- Identity.__matmul__: the right operand itself
        rename_i hid
        simp only [Cfg.fixed, Bool.true_and] at h
        split at h
        · cases h
        · rename_i hsh
          have hsh' : a.md.inShape = b.md.outShape := by simpa using hsh
          injection h with h; subst h
          have hid' : a.md.cls = .ident := by simpa [Obj.cls] using hid
          obtain ⟨hio, hI⟩ := sid_payload ha (Or.inr hid')
          have hI1 : a.dat.get 0 = 1 := by
            have := ha.pl; simp only [PayloadIs, hid'] at this; exact this.2.1
          have hk : a.n = b.m := by simp only [Obj.n, Obj.m, hsh']
          have hm : b.m = a.m := by simp only [Obj.m, ← hsh', hio]
          refine ⟨hb.congr (fun i j hi _ => ?_), hm, rfl⟩
          rw [matMul_sid_left a.n Da Db 1 (fun i j hi hj => by rw [hI i j hi hj, hI1]) i j (hk ▸ hi)]
          ring
      · rename_i hsid
        obtain ⟨hS, hi, ho⟩ := sidMatmul_sound ha hb (Or.inl (by simpa [Obj.cls] using hsid)) h
        exact ⟨hS, by simp only [Obj.m, ho], by simp only [Obj.n, hi]⟩
      · rename_i hdiag
        have hd : a.md.cls = .diag := by simpa [Obj.cls] using hdiag
        obtain ⟨hS, hi, ho⟩ := diagMatmul_sound' ha hb (Or.inl hd) h (hR hd)
        exact ⟨hS, by simp only [Obj.m, ho], by simp only [Obj.n, hi]⟩
      · exact call_sound ha hb h

theorem cls_cases_diag {c : Cls} (h : c = .diag ∨ c = .scaledId ∨ c = .ident) : IsDiagCls c := h

/-- `.T` -/
theorem opT_sound {a o : Obj K} {Da : Mx K} (ha : Sound a Da) (h : opT Cfg.fixed a = .ok o) :
    SoundD o (matT Da) a.n a.m := by
  have fam : IsDiagCls a.md.cls → opT Cfg.fixed a = .ok (diagT Cfg.fixed a) := by
    intro hc; unfold opT
    rcases hc with hc | hc | hc <;> simp [Obj.cls, hc]
  by_cases hd : IsDiagCls a.md.cls
  · rw [fam hd] at h; injection h with h; subst h
    obtain ⟨hS, hi, ho⟩ := diagT_sound ha hd
    exact ⟨hS, by simp only [Obj.m, Obj.n, ho], by simp only [Obj.m, Obj.n, hi]⟩
  · unfold opT at h
    split at h
    · rename_i hop; exact absurd (by simpa [Obj.cls] using hop) ha.lin
    · rename_i hc; injection h with h; subst h
      exact ⟨matTop_sound ha (by simpa [Obj.cls] using hc), by simp [matTop, rematrix], by simp [matTop, rematrix]⟩
    · rename_i hc; exact absurd (Or.inl (by simpa [Obj.cls] using hc)) hd
    · rename_i hc; exact absurd (Or.inr (Or.inl (by simpa [Obj.cls] using hc))) hd
    · rename_i hc; exact absurd (Or.inr (Or.inr (by simpa [Obj.cls] using hc))) hd
    · injection h with h; subst h
      exact ⟨linT_sound ha, by unfold linT; split <;> rfl, by unfold linT; split <;> rfl⟩

/-- `.H` -/
theorem opH_sound {a o : Obj K} {Da : Mx K} (ha : Sound a Da) (h : opH Cfg.fixed a = .ok o) :
    SoundD o (matH Da) a.n a.m := by
  have fam : IsDiagCls a.md.cls → opH Cfg.fixed a = diagH Cfg.fixed a := by
    intro hc; unfold opH
    rcases hc with hc | hc | hc <;> simp [Obj.cls, hc]
  by_cases hd : IsDiagCls a.md.cls
  · rw [fam hd] at h
    obtain ⟨hS, hi, ho⟩ := diagH_sound ha hd h
    exact ⟨hS, by simp only [Obj.m, Obj.n, ho], by simp only [Obj.m, Obj.n, hi]⟩
  · unfold opH at h
    split at h
    · rename_i hop; exact absurd (by simpa [Obj.cls] using hop) ha.lin
    · rename_i hc; injection h with h; subst h
      exact ⟨matHop_sound ha (by simpa [Obj.cls] using hc), by simp [matHop, rematrix], by simp [matHop, rematrix]⟩
    · rename_i hc; exact absurd (Or.inl (by simpa [Obj.cls] using hc)) hd
    · rename_i hc; exact absurd (Or.inr (Or.inl (by simpa [Obj.cls] using hc))) hd
    · rename_i hc; exact absurd (Or.inr (Or.inr (by simpa [Obj.cls] using hc))) hd
    · injection h with h; subst h
      exact ⟨linH_sound ha, rfl, rfl⟩

/-- `.conj()` -/
theorem opConj_sound {a o : Obj K} {Da : Mx K} (ha : Sound a Da) (h : opConj Cfg.fixed a = .ok o) :
    SoundD o (matConj Da) a.m a.n := by
  have fam : IsDiagCls a.md.cls → opConj Cfg.fixed a = diagConj Cfg.fixed a := by
    intro hc; unfold opConj
    rcases hc with hc | hc | hc <;> simp [Obj.cls, hc]
  by_cases hd : IsDiagCls a.md.cls
  · rw [fam hd] at h
    obtain ⟨hS, hi, ho⟩ := diagConj_sound ha hd h
    obtain ⟨hom, hon⟩ := sizes_of_shapes hi ho
    exact ⟨hS, hom, hon⟩
  · unfold opConj at h
    split at h
    · rename_i hop; exact absurd (by simpa [Obj.cls] using hop) ha.lin
    · rename_i hc; injection h with h; subst h
      exact ⟨matConjOp_sound ha (by simpa [Obj.cls] using hc), by simp [matConjOp, rematrix], by simp [matConjOp, rematrix]⟩
    · rename_i hc; exact absurd (Or.inl (by simpa [Obj.cls] using hc)) hd
    · rename_i hc; exact absurd (Or.inr (Or.inl (by simpa [Obj.cls] using hc))) hd
    · rename_i hc; exact absurd (Or.inr (Or.inr (by simpa [Obj.cls] using hc))) hd
    · injection h with h; subst h
      exact ⟨linConj_sound ha, rfl, rfl⟩

/-- `.gram_op` -/
theorem opGram_sound {a o : Obj K} {Da : Mx K} (ha : Sound a Da) (h : opGram Cfg.fixed a = .ok o) :
    SoundD o (matMul a.m (matH Da) Da) a.n a.n := by
  have fam : IsDiagCls a.md.cls → opGram Cfg.fixed a = diagGram Cfg.fixed a := by
    intro hc; unfold opGram
    rcases hc with hc | hc | hc <;> simp [Obj.cls, hc]
  by_cases hd : IsDiagCls a.md.cls
  · rw [fam hd] at h
    obtain ⟨hS, hi, ho⟩ := diagGram_sound ha hd h
    exact ⟨hS, by simp only [Obj.m, Obj.n, ho], by simp only [Obj.m, Obj.n, hi]⟩
  · unfold opGram at h
    split at h
    · rename_i hop; exact absurd (by simpa [Obj.cls] using hop) ha.lin
    · rename_i hc; injection h with h; subst h
      exact ⟨matGram_sound ha (by simpa [Obj.cls] using hc), by simp [matGram, rematrix], by simp [matGram, rematrix]⟩
    · rename_i hc; exact absurd (Or.inl (by simpa [Obj.cls] using hc)) hd
    · rename_i hc; exact absurd (Or.inr (Or.inl (by simpa [Obj.cls] using hc))) hd
    · rename_i hc; exact absurd (Or.inr (Or.inr (by simpa [Obj.cls] using hc))) hd
    · injection h with h; subst h
      exact ⟨linGram_sound _ ha, rfl, rfl⟩

end
end Scico.OpAlg
