/-
  Proofs/StepsPDHG — PDHG (Chambolle–Pock; the form implemented is the variant of Pock–Chambolle 2011)
  with linear `C` and `alpha = 1`, as a proximal-point iteration in the metric

      M(a, b) = ‖a‖²/τ − 2⟪C a, b⟫ + ‖b‖²/σ        (a ∈ X primal, b ∈ Z dual).

  One documented iteration from ANY state `(x, z)` satisfies, for every saddle point `(x*, z*)`,

      M(x⁺ − x*, z⁺ − z*) + M(x − x⁺, z − z⁺) ≤ M(x − x*, z − z*)            (Fejér monotonicity)

  and, when `τ σ ‖C‖² ≤ θ² ≤ 1`,  `M(a,b) ≥ (1−θ)(‖a‖²/τ + ‖b‖²/σ) ≥ 0`.  Hence, for the documented
  parameter range `τ σ ‖C‖² < 1`: the `M`-distance to every saddle point never increases, the
  iterates stay bounded, `Σ_k ‖x_{k+1} − x_k‖²/τ + ‖z_{k+1} − z_k‖²/σ < ∞`, and the residuals reported by
  `norm_primal_residual()` / `norm_dual_residual()` tend to `0` — from every start.
-/
import Scico.Model.Steps
import Scico.Proofs.StepsConvex
import Scico.Proofs.StepsFixed
import Scico.Proofs.StepsRelax
import Mathlib.Tactic.Abel

set_option linter.unusedSectionVars false

namespace Scico.Steps

variable {X Z : Type} [NormedAddCommGroup X] [InnerProductSpace ℝ X]
  [NormedAddCommGroup Z] [InnerProductSpace ℝ Z]

local notation "⟪" x ", " y "⟫" => inner ℝ x y

/-- the squared `M`-norm of a primal–dual pair -/
noncomputable def pdM (C : X → Z) (tau sigma : ℝ) (a : X) (b : Z) : ℝ :=
  ‖a‖ ^ 2 / tau - 2 * ⟪C a, b⟫ + ‖b‖ ^ 2 / sigma

/-- `M(a'+da, b'+db) = M(a',b') + M(da,db) + 2(⟪a',da⟫/τ + ⟪b',db⟫/σ − ⟪Ca',db⟫ − ⟪C da,b'⟫)` -/
theorem pdM_add (C : X → Z) (hadd : ∀ x y, C (x + y) = C x + C y) (tau sigma : ℝ) (a' da : X) (b' db : Z) :
    pdM C tau sigma (a' + da) (b' + db)
      = pdM C tau sigma a' b' + pdM C tau sigma da db
        + 2 * (⟪a', da⟫ / tau + ⟪b', db⟫ / sigma - ⟪C a', db⟫ - ⟪C da, b'⟫) := by
  unfold pdM
  rw [norm_add_sq_real, norm_add_sq_real, hadd, inner_add_left, inner_add_right, inner_add_right]
  ring

/-- lower bound of the metric: `τ σ L² ≤ θ²`, `‖C a‖ ≤ L ‖a‖` ⇒ `M(a,b) ≥ (1−θ)(‖a‖²/τ + ‖b‖²/σ)` -/
theorem pdM_lower (C : X → Z) {tau sigma Lc theta : ℝ} (ht : 0 < tau) (hs : 0 < sigma) (hL : 0 ≤ Lc)
    (hth : 0 ≤ theta) (hbd : ∀ a, ‖C a‖ ≤ Lc * ‖a‖) (hts : tau * sigma * Lc ^ 2 ≤ theta ^ 2) (a : X) (b : Z) :
    (1 - theta) * (‖a‖ ^ 2 / tau + ‖b‖ ^ 2 / sigma) ≤ pdM C tau sigma a b := by
  have hA : 0 ≤ ‖a‖ ^ 2 / tau := by positivity
  have hB : 0 ≤ ‖b‖ ^ 2 / sigma := by positivity
  have hcs : ⟪C a, b⟫ ≤ ‖C a‖ * ‖b‖ := real_inner_le_norm _ _
  have h1 : ‖C a‖ * ‖b‖ ≤ Lc * ‖a‖ * ‖b‖ := mul_le_mul_of_nonneg_right (hbd a) (norm_nonneg _)
  -- (Lc‖a‖‖b‖)² = Lc² τσ · A · B ≤ θ² A B ≤ (θ (A+B)/2)²
  have hsq : (Lc * ‖a‖ * ‖b‖) ^ 2 ≤ (theta * ((‖a‖ ^ 2 / tau + ‖b‖ ^ 2 / sigma) / 2)) ^ 2 := by
    have e1 : (Lc * ‖a‖ * ‖b‖) ^ 2 = (tau * sigma * Lc ^ 2) * ((‖a‖ ^ 2 / tau) * (‖b‖ ^ 2 / sigma)) := by
      field_simp
    have hAB : 0 ≤ (‖a‖ ^ 2 / tau) * (‖b‖ ^ 2 / sigma) := mul_nonneg hA hB
    have e2 : (tau * sigma * Lc ^ 2) * ((‖a‖ ^ 2 / tau) * (‖b‖ ^ 2 / sigma))
        ≤ theta ^ 2 * ((‖a‖ ^ 2 / tau) * (‖b‖ ^ 2 / sigma)) := mul_le_mul_of_nonneg_right hts hAB
    have e3 : (‖a‖ ^ 2 / tau) * (‖b‖ ^ 2 / sigma) ≤ ((‖a‖ ^ 2 / tau + ‖b‖ ^ 2 / sigma) / 2) ^ 2 := by
      nlinarith [sq_nonneg (‖a‖ ^ 2 / tau - ‖b‖ ^ 2 / sigma)]
    have e4 : theta ^ 2 * ((‖a‖ ^ 2 / tau) * (‖b‖ ^ 2 / sigma))
        ≤ theta ^ 2 * ((‖a‖ ^ 2 / tau + ‖b‖ ^ 2 / sigma) / 2) ^ 2 :=
      mul_le_mul_of_nonneg_left e3 (by positivity)
    rw [e1, mul_pow]
    linarith
  have h2 : Lc * ‖a‖ * ‖b‖ ≤ theta * ((‖a‖ ^ 2 / tau + ‖b‖ ^ 2 / sigma) / 2) := by
    have hx : 0 ≤ Lc * ‖a‖ * ‖b‖ := by positivity
    have hy : 0 ≤ theta * ((‖a‖ ^ 2 / tau + ‖b‖ ^ 2 / sigma) / 2) := by positivity
    exact (pow_le_pow_iff_left₀ hx hy two_ne_zero).1 hsq
  unfold pdM
  nlinarith

/-- the two sub-gradient inequalities of one iteration give Fejér monotonicity in the `M`-metric -/
theorem pdhg_fejer_core (C : X → Z) (Cadj : Z → X) (hadd : ∀ x y, C (x + y) = C x + C y)
    (hadj : ∀ w x, ⟪Cadj w, x⟫ = ⟪w, C x⟫) {tau sigma : ℝ} (ht : 0 < tau) (hs : 0 < sigma)
    (x xn xs : X) (z zn zs : Z)
    (hA : 0 ≤ ⟪(1 / tau) • (x - tau • Cadj z - xn) - (-(Cadj zs)), xn - xs⟫)
    (hB : 0 ≤ ⟪zn - zs, (1 / sigma) • (z + sigma • C ((1 + 1 : ℝ) • xn - (1 : ℝ) • x) - zn) - C xs⟫) :
    pdM C tau sigma (xn - xs) (zn - zs) + pdM C tau sigma (x - xn) (z - zn) ≤ pdM C tau sigma (x - xs) (z - zs) := by
  have hsub : ∀ u v, C (u - v) = C u - C v := by
    intro u v
    have := hadd (u - v) v
    rw [sub_add_cancel] at this
    rw [this]; abel
  set a' := xn - xs with ha'
  set b' := zn - zs with hb'
  set da := x - xn with hda
  set db := z - zn with hdb
  have ea : x - xs = a' + da := by simp only [ha', hda]; abel
  have eb : z - zs = b' + db := by simp only [hb', hdb]; abel
  rw [ea, eb, pdM_add C hadd]
  -- (A): 0 ≤ ⟪da,a'⟫/τ − ⟪z − zs, C a'⟫
  have hA' : 0 ≤ ⟪da, a'⟫ / tau - ⟪b' + db, C a'⟫ := by
    have e : (1 / tau) • (x - tau • Cadj z - xn) - (-(Cadj zs)) = (1 / tau) • da - Cadj z + Cadj zs := by
      have : x - tau • Cadj z - xn = da - tau • Cadj z := by simp only [hda]; abel
      rw [this, smul_sub, smul_smul]
      have : 1 / tau * tau = 1 := by field_simp
      rw [this, one_smul]; abel
    rw [e, inner_add_left, inner_sub_left, inner_smul_left, hadj, hadj] at hA
    simp only [RCLike.conj_to_real] at hA
    have : ⟪b' + db, C a'⟫ = ⟪z, C a'⟫ - ⟪zs, C a'⟫ := by rw [← eb, inner_sub_left]
    rw [this]
    have e2 : 1 / tau * ⟪da, a'⟫ = ⟪da, a'⟫ / tau := by ring
    linarith
  -- (B): 0 ≤ ⟪b',db⟫/σ + ⟪b', C a'⟫ − ⟪b', C da⟫
  have hB' : 0 ≤ ⟪b', db⟫ / sigma + ⟪b', C a'⟫ - ⟪b', C da⟫ := by
    have e : (1 / sigma) • (z + sigma • C ((1 + 1 : ℝ) • xn - (1 : ℝ) • x) - zn) - C xs
        = (1 / sigma) • db + (C a' - C da) := by
      have h1 : z + sigma • C ((1 + 1 : ℝ) • xn - (1 : ℝ) • x) - zn = db + sigma • C ((1 + 1 : ℝ) • xn - (1 : ℝ) • x) := by
        simp only [hdb]; abel
      rw [h1, smul_add, smul_smul]
      have : 1 / sigma * sigma = 1 := by field_simp
      rw [this, one_smul]
      have h2 : (1 + 1 : ℝ) • xn - (1 : ℝ) • x - xs = a' - da := by
        simp only [ha', hda, add_smul, one_smul]; abel
      have h3 : C ((1 + 1 : ℝ) • xn - (1 : ℝ) • x) - C xs = C a' - C da := by
        rw [← hsub, h2, hsub]
      rw [add_sub_assoc, h3]
    rw [e, inner_add_right, inner_smul_right] at hB
    have e2 : 1 / sigma * ⟪b', db⟫ = ⟪b', db⟫ / sigma := by ring
    have e3 : ⟪b', C a' - C da⟫ = ⟪b', C a'⟫ - ⟪b', C da⟫ := inner_sub_right _ _ _
    linarith
  rw [inner_add_left] at hA'
  have c1 : ⟪a', da⟫ = ⟪da, a'⟫ := real_inner_comm _ _
  have c2 : ⟪C a', db⟫ = ⟪db, C a'⟫ := real_inner_comm _ _
  have c3 : ⟪C da, b'⟫ = ⟪b', C da⟫ := real_inner_comm _ _
  have c4 : ⟪b', C a'⟫ = ⟪b', C a'⟫ := rfl
  rw [c1, c2, c3]
  linarith

/-- hypotheses of the PDHG theorems (documented problem class and parameter range, `alpha = 1`, linear `C`) -/
structure PDHGHyp (p : PDHGParams ℝ X Z) (F : Fn X) (xs : X) (zs : Z) : Prop where
  lin : p.linear = true
  alpha1 : p.alpha = 1
  tau : 0 < p.tau
  sigma : 0 < p.sigma
  add : ∀ x y, p.C (x + y) = p.C x + p.C y
  adj : ∀ w x, ⟪p.Cadj w, x⟫ = ⟪w, p.C x⟫
  proxf : IsProx F p.proxf
  /-- `−Cᵀz* ∈ ∂f(x*)` -/
  kktx : F.Subgrad xs (-(p.Cadj zs))
  /-- the dual proximal step is a resolvent of a monotone relation containing `(z*, Cx*)`:
      `⟪prox_{σg*}(v) − z*, (v − prox_{σg*}(v))/σ − Cx*⟫ ≥ 0` (see `pdhg_dual_of_conj`, `pdhg_dual_of_moreau`) -/
  dual : ∀ lam, 0 < lam → ∀ v, 0 ≤ ⟪p.proxgConj lam v - zs, (1 / lam) • (v - p.proxgConj lam v) - p.C xs⟫

/-- contract on the conjugate: `proxgConj` is the proximal map of `Gc = g*`, `Cx* ∈ ∂g*(z*)` -/
theorem pdhg_dual_of_conj (p : PDHGParams ℝ X Z) (Gc : Fn Z) (hg : IsProx Gc p.proxgConj) (xs : X) (zs : Z)
    (h2 : Gc.Subgrad zs (p.C xs)) :
    ∀ lam, 0 < lam → ∀ v, 0 ≤ ⟪p.proxgConj lam v - zs, (1 / lam) • (v - p.proxgConj lam v) - p.C xs⟫ := by
  intro lam hl v
  have := Fn.subgrad_monotone (hg lam hl v) h2
  rw [real_inner_comm] at this
  exact this

/-- the code path: `conj_prox` computed from `g.prox` by the extended Moreau decomposition, `z* ∈ ∂g(Cx*)` -/
theorem pdhg_dual_of_moreau (p : PDHGParams ℝ X Z) (G : Fn Z) (proxg : ℝ → Z → Z) (hg : IsProx G proxg)
    (hconj : ∀ lam v, p.proxgConj lam v = v - lam • proxg (1 / lam) ((1 / lam) • v)) (xs : X) (zs : Z)
    (h2 : G.Subgrad (p.C xs) zs) :
    ∀ lam, 0 < lam → ∀ v, 0 ≤ ⟪p.proxgConj lam v - zs, (1 / lam) • (v - p.proxgConj lam v) - p.C xs⟫ := by
  intro lam hl v
  set w := proxg (1 / lam) ((1 / lam) • v) with hw
  have hc := hg (1 / lam) (by positivity) ((1 / lam) • v)
  rw [one_div_one_div, ← hw] at hc
  -- hc : lam • ((1/lam) • v − w) ∈ ∂G(w), and that vector is proxgConj lam v
  have e1 : lam • ((1 / lam) • v - w) = p.proxgConj lam v := by
    rw [hconj, smul_sub, smul_smul]
    have : lam * (1 / lam) = 1 := by field_simp
    rw [this, one_smul]
  rw [e1] at hc
  have e2 : (1 / lam) • (v - p.proxgConj lam v) = w := by
    rw [hconj]
    have : v - (v - lam • w) = lam • w := by abel
    rw [this, smul_smul]
    have : 1 / lam * lam = 1 := by field_simp
    rw [this, one_smul]
  rw [e2]
  exact Fn.subgrad_monotone hc h2

/-- one documented PDHG iteration from any state: Fejér monotonicity w.r.t. every saddle point -/
theorem pdhg_fejer_step (p : PDHGParams ℝ X Z) (F : Fn X) (xs : X) (zs : Z) (H : PDHGHyp p F xs zs)
    (s : PDHGState X Z) :
    (pdhgSpecStep p s).xOld = s.x ∧ (pdhgSpecStep p s).zOld = s.z ∧
    pdM p.C p.tau p.sigma ((pdhgSpecStep p s).x - xs) ((pdhgSpecStep p s).z - zs)
        + pdM p.C p.tau p.sigma (s.x - (pdhgSpecStep p s).x) (s.z - (pdhgSpecStep p s).z)
      ≤ pdM p.C p.tau p.sigma (s.x - xs) (s.z - zs) := by
  have hx : (pdhgSpecStep p s).x = p.proxf p.tau (s.x - p.tau • p.Cadj s.z) := by
    unfold pdhgSpecStep; simp only [H.lin]
  have hz : (pdhgSpecStep p s).z
      = p.proxgConj p.sigma (s.z + p.sigma • p.C ((1 + 1 : ℝ) • (pdhgSpecStep p s).x - (1 : ℝ) • s.x)) := by
    unfold pdhgSpecStep; simp only [H.lin, H.alpha1]
  refine ⟨rfl, rfl, ?_⟩
  set xn := (pdhgSpecStep p s).x with hxn
  set zn := (pdhgSpecStep p s).z with hzn
  apply pdhg_fejer_core p.C p.Cadj H.add H.adj H.tau H.sigma s.x xn xs s.z zn zs
  · have h1 := H.proxf p.tau H.tau (s.x - p.tau • p.Cadj s.z)
    rw [← hx] at h1
    exact Fn.subgrad_monotone h1 H.kktx
  · have h2 := H.dual p.sigma H.sigma (s.z + p.sigma • p.C ((1 + 1 : ℝ) • xn - (1 : ℝ) • s.x))
    rw [← hz] at h2
    exact h2

/-- along whole trajectories: `M_k + Σ_{j<k} M(w_j − w_{j+1}) ≤ M_0` -/
theorem pdhg_fejer_sum (p : PDHGParams ℝ X Z) (F : Fn X) (xs : X) (zs : Z) (H : PDHGHyp p F xs zs)
    (s : PDHGState X Z) (k : Nat) :
    (∑ j ∈ Finset.range k,
        pdM p.C p.tau p.sigma ((iter (pdhgSpecStep p) j s).x - (iter (pdhgSpecStep p) (j + 1) s).x)
          ((iter (pdhgSpecStep p) j s).z - (iter (pdhgSpecStep p) (j + 1) s).z))
      + pdM p.C p.tau p.sigma ((iter (pdhgSpecStep p) k s).x - xs) ((iter (pdhgSpecStep p) k s).z - zs)
    ≤ pdM p.C p.tau p.sigma (s.x - xs) (s.z - zs) := by
  induction k with
  | zero => simp [iter]
  | succ k ih =>
    rw [Finset.sum_range_succ]
    have h := (pdhg_fejer_step p F xs zs H (iter (pdhgSpecStep p) k s)).2.2
    rw [← iter_succ' (pdhgSpecStep p) k s] at h
    linarith

/-- the documented parameter range `τσ‖C‖² ≤ θ² < 1` (with `‖C a‖ ≤ L‖a‖`) -/
structure PDHGRange (p : PDHGParams ℝ X Z) (Lc theta : ℝ) : Prop where
  L0 : 0 ≤ Lc
  th0 : 0 ≤ theta
  th1 : theta < 1
  bd : ∀ a, ‖p.C a‖ ≤ Lc * ‖a‖
  ts : p.tau * p.sigma * Lc ^ 2 ≤ theta ^ 2

/-- `‖x_{k+1} − x_k‖²/τ + ‖z_{k+1} − z_k‖²/σ → 0` -/
theorem pdhg_increments_tendsto (p : PDHGParams ℝ X Z) (F : Fn X) (xs : X) (zs : Z) (H : PDHGHyp p F xs zs)
    {Lc theta : ℝ} (R : PDHGRange p Lc theta) (s : PDHGState X Z) :
    Filter.Tendsto (fun k =>
        ‖(iter (pdhgSpecStep p) k s).x - (iter (pdhgSpecStep p) (k + 1) s).x‖ ^ 2 / p.tau
          + ‖(iter (pdhgSpecStep p) k s).z - (iter (pdhgSpecStep p) (k + 1) s).z‖ ^ 2 / p.sigma)
      Filter.atTop (nhds 0) := by
  have hth : 0 < 1 - theta := by linarith [R.th1]
  have low := fun (a : X) (b : Z) => pdM_lower p.C H.tau H.sigma R.L0 R.th0 R.bd R.ts a b
  have hM : Filter.Tendsto (fun k =>
      pdM p.C p.tau p.sigma ((iter (pdhgSpecStep p) k s).x - (iter (pdhgSpecStep p) (k + 1) s).x)
        ((iter (pdhgSpecStep p) k s).z - (iter (pdhgSpecStep p) (k + 1) s).z)) Filter.atTop (nhds 0) := by
    apply tendsto_zero_of_partial_sums_le (c := pdM p.C p.tau p.sigma (s.x - xs) (s.z - zs))
    · intro n
      have := low ((iter (pdhgSpecStep p) n s).x - (iter (pdhgSpecStep p) (n + 1) s).x)
        ((iter (pdhgSpecStep p) n s).z - (iter (pdhgSpecStep p) (n + 1) s).z)
      have h0 : 0 ≤ ‖(iter (pdhgSpecStep p) n s).x - (iter (pdhgSpecStep p) (n + 1) s).x‖ ^ 2 / p.tau
          + ‖(iter (pdhgSpecStep p) n s).z - (iter (pdhgSpecStep p) (n + 1) s).z‖ ^ 2 / p.sigma := by
        have := H.tau; have := H.sigma; positivity
      have := mul_nonneg hth.le h0
      linarith
    · intro n
      have h1 := pdhg_fejer_sum p F xs zs H s n
      have h2 := low ((iter (pdhgSpecStep p) n s).x - xs) ((iter (pdhgSpecStep p) n s).z - zs)
      have h0 : 0 ≤ ‖(iter (pdhgSpecStep p) n s).x - xs‖ ^ 2 / p.tau + ‖(iter (pdhgSpecStep p) n s).z - zs‖ ^ 2 / p.sigma := by
        have := H.tau; have := H.sigma; positivity
      have := mul_nonneg hth.le h0
      linarith
  have hD := hM.const_mul (1 - theta)⁻¹
  rw [mul_zero] at hD
  refine squeeze_zero (fun k => ?_) (fun k => ?_) hD
  · have := H.tau; have := H.sigma; positivity
  · rw [inv_mul_eq_div, le_div_iff₀ hth]
    have := low ((iter (pdhgSpecStep p) k s).x - (iter (pdhgSpecStep p) (k + 1) s).x)
      ((iter (pdhgSpecStep p) k s).z - (iter (pdhgSpecStep p) (k + 1) s).z)
    linarith

/-- the residuals reported by `norm_primal_residual()` / `norm_dual_residual()` tend to `0` along every
    trajectory of the documented iteration -/
theorem pdhg_residuals_tendsto (p : PDHGParams ℝ X Z) (F : Fn X) (xs : X) (zs : Z) (H : PDHGHyp p F xs zs)
    {Lc theta : ℝ} (R : PDHGRange p Lc theta) (hnx : p.normX = fun v => ‖v‖) (hnz : p.normZ = fun v => ‖v‖)
    (s : PDHGState X Z) :
    Filter.Tendsto (fun k => pdhgNormPrimalImpl p (iter (pdhgSpecStep p) (k + 1) s)) Filter.atTop (nhds 0) ∧
    Filter.Tendsto (fun k => pdhgNormDualImpl p (iter (pdhgSpecStep p) (k + 1) s)) Filter.atTop (nhds 0) := by
  have hI := pdhg_increments_tendsto p F xs zs H R s
  have ht := H.tau
  have hs := H.sigma
  have hxo : ∀ k, (iter (pdhgSpecStep p) (k + 1) s).xOld = (iter (pdhgSpecStep p) k s).x := by
    intro k; rw [iter_succ']; rfl
  have hzo : ∀ k, (iter (pdhgSpecStep p) (k + 1) s).zOld = (iter (pdhgSpecStep p) k s).z := by
    intro k; rw [iter_succ']; rfl
  constructor
  · have hb := hI.const_mul (1 / p.tau)
    rw [mul_zero] at hb
    refine tendsto_zero_of_sq_le (fun k => ?_) (fun k => ?_) hb
    · unfold pdhgNormPrimalImpl; rw [hnx]; positivity
    · unfold pdhgNormPrimalImpl
      rw [hnx, hxo k]
      have e : ‖(iter (pdhgSpecStep p) (k + 1) s).x - (iter (pdhgSpecStep p) k s).x‖
          = ‖(iter (pdhgSpecStep p) k s).x - (iter (pdhgSpecStep p) (k + 1) s).x‖ := norm_sub_rev _ _
      simp only [e]
      have h0 : 0 ≤ ‖(iter (pdhgSpecStep p) k s).z - (iter (pdhgSpecStep p) (k + 1) s).z‖ ^ 2 / p.sigma := by positivity
      have e2 : (‖(iter (pdhgSpecStep p) k s).x - (iter (pdhgSpecStep p) (k + 1) s).x‖ / p.tau) ^ 2
          = 1 / p.tau * (‖(iter (pdhgSpecStep p) k s).x - (iter (pdhgSpecStep p) (k + 1) s).x‖ ^ 2 / p.tau) := by
        field_simp
      rw [e2]
      have : 0 ≤ 1 / p.tau := by positivity
      nlinarith
  · have hb := hI.const_mul (1 / p.sigma)
    rw [mul_zero] at hb
    refine tendsto_zero_of_sq_le (fun k => ?_) (fun k => ?_) hb
    · unfold pdhgNormDualImpl; rw [hnz]; positivity
    · unfold pdhgNormDualImpl
      rw [hnz, hzo k]
      have e : ‖(iter (pdhgSpecStep p) (k + 1) s).z - (iter (pdhgSpecStep p) k s).z‖
          = ‖(iter (pdhgSpecStep p) k s).z - (iter (pdhgSpecStep p) (k + 1) s).z‖ := norm_sub_rev _ _
      simp only [e]
      have h0 : 0 ≤ ‖(iter (pdhgSpecStep p) k s).x - (iter (pdhgSpecStep p) (k + 1) s).x‖ ^ 2 / p.tau := by positivity
      have e2 : (‖(iter (pdhgSpecStep p) k s).z - (iter (pdhgSpecStep p) (k + 1) s).z‖ / p.sigma) ^ 2
          = 1 / p.sigma * (‖(iter (pdhgSpecStep p) k s).z - (iter (pdhgSpecStep p) (k + 1) s).z‖ ^ 2 / p.sigma) := by
        field_simp
      rw [e2]
      have : 0 ≤ 1 / p.sigma := by positivity
      nlinarith

/-- the `M`-distance to every saddle point is non-increasing, and it bounds the Euclidean distances -/
theorem pdhg_fejer_traj (p : PDHGParams ℝ X Z) (F : Fn X) (xs : X) (zs : Z) (H : PDHGHyp p F xs zs)
    {Lc theta : ℝ} (R : PDHGRange p Lc theta) (s : PDHGState X Z) (k : Nat) :
    pdM p.C p.tau p.sigma ((iter (pdhgSpecStep p) (k + 1) s).x - xs) ((iter (pdhgSpecStep p) (k + 1) s).z - zs)
      ≤ pdM p.C p.tau p.sigma ((iter (pdhgSpecStep p) k s).x - xs) ((iter (pdhgSpecStep p) k s).z - zs) ∧
    (1 - theta) * (‖(iter (pdhgSpecStep p) k s).x - xs‖ ^ 2 / p.tau + ‖(iter (pdhgSpecStep p) k s).z - zs‖ ^ 2 / p.sigma)
      ≤ pdM p.C p.tau p.sigma (s.x - xs) (s.z - zs) := by
  have low := fun (a : X) (b : Z) => pdM_lower p.C H.tau H.sigma R.L0 R.th0 R.bd R.ts a b
  have hth : 0 < 1 - theta := by linarith [R.th1]
  constructor
  · have h := (pdhg_fejer_step p F xs zs H (iter (pdhgSpecStep p) k s)).2.2
    rw [← iter_succ' (pdhgSpecStep p) k s] at h
    have h2 := low ((iter (pdhgSpecStep p) k s).x - (iter (pdhgSpecStep p) (k + 1) s).x)
      ((iter (pdhgSpecStep p) k s).z - (iter (pdhgSpecStep p) (k + 1) s).z)
    have h0 : 0 ≤ ‖(iter (pdhgSpecStep p) k s).x - (iter (pdhgSpecStep p) (k + 1) s).x‖ ^ 2 / p.tau
        + ‖(iter (pdhgSpecStep p) k s).z - (iter (pdhgSpecStep p) (k + 1) s).z‖ ^ 2 / p.sigma := by
      have := H.tau; have := H.sigma; positivity
    have := mul_nonneg hth.le h0
    linarith
  · have h1 := pdhg_fejer_sum p F xs zs H s k
    have h2 := low ((iter (pdhgSpecStep p) k s).x - xs) ((iter (pdhgSpecStep p) k s).z - zs)
    have h3 : 0 ≤ ∑ j ∈ Finset.range k,
        pdM p.C p.tau p.sigma ((iter (pdhgSpecStep p) j s).x - (iter (pdhgSpecStep p) (j + 1) s).x)
          ((iter (pdhgSpecStep p) j s).z - (iter (pdhgSpecStep p) (j + 1) s).z) := by
      apply Finset.sum_nonneg
      intro j _
      have h2 := low ((iter (pdhgSpecStep p) j s).x - (iter (pdhgSpecStep p) (j + 1) s).x)
        ((iter (pdhgSpecStep p) j s).z - (iter (pdhgSpecStep p) (j + 1) s).z)
      have h0 : 0 ≤ ‖(iter (pdhgSpecStep p) j s).x - (iter (pdhgSpecStep p) (j + 1) s).x‖ ^ 2 / p.tau
          + ‖(iter (pdhgSpecStep p) j s).z - (iter (pdhgSpecStep p) (j + 1) s).z‖ ^ 2 / p.sigma := by
        have := H.tau; have := H.sigma; positivity
      have := mul_nonneg hth.le h0
      linarith
    linarith

end Scico.Steps
