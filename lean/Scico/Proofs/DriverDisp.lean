/-
  C15: the display of `IterationStats` — closed form of what `k` insertions print, which records
  end a display cycle, and what remains visible on an ideal terminal (`"\r"` = the next output
  replaces the line, `"\n"` = the line is committed) after one `solve()` call.
-/
import Scico.Proofs.DriverSolve

set_option linter.unusedSimpArgs false
set_option linter.unusedVariables false

namespace Scico.Driver

/-- what the insertion that makes the history `len` records long prints for its record -/
def rowEvent (o : DisplayOpts) (n : Nat) : List PrintEv :=
  if o.overwrite then [.row n (cycleEnd o (n + 1))]
  else if cycleEnd o (n + 1) then [.row n true] else []

theorem dispInsert_off (o : DisplayOpts) (s : Disp) (h : o.display = false) :
    dispInsert o s = { s with len := s.len + 1 } := by
  simp [dispInsert, h]

theorem dispInsert_on (o : DisplayOpts) (s : Disp) (h : o.display = true) :
    dispInsert o s = ⟨s.len + 1, false, s.out ++ (if s.hdrPending then [.header] else []) ++ rowEvent o s.len⟩ := by
  simp only [dispInsert, h, Bool.not_true, Bool.false_eq_true, if_false, rowEvent]
  cases s.hdrPending <;> cases o.overwrite <;> cases cycleEnd o (s.len + 1) <;> simp

/-- closed form of `k` insertions with the display on -/
theorem dispInserts_on (o : DisplayOpts) (h : o.display = true) (k : Nat) (s : Disp) :
    dispInserts o k s =
      ⟨s.len + k, s.hdrPending && decide (k = 0),
        s.out ++ (if s.hdrPending && decide (0 < k) then [.header] else []) ++
          (List.range k).flatMap (fun n => rowEvent o (s.len + n))⟩ := by
  induction k generalizing s with
  | zero => cases s; simp [dispInserts]
  | succ k ih =>
    rw [dispInserts, ih, dispInsert_on o s h]
    simp only [Bool.false_and, Bool.false_eq_true, if_false, List.append_nil, Nat.add_assoc]
    have hr : (List.range (k + 1)).flatMap (fun n => rowEvent o (s.len + n)) =
        rowEvent o s.len ++ (List.range k).flatMap (fun n => rowEvent o (s.len + (1 + n))) := by
      rw [List.range_succ_eq_map, List.flatMap_cons, List.flatMap_map]
      simp [Nat.add_comm 1]
    rw [hr]
    cases s.hdrPending <;> simp [Nat.add_comm 1 k]

theorem dispInserts_off (o : DisplayOpts) (h : o.display = false) (k : Nat) (s : Disp) :
    dispInserts o k s = { s with len := s.len + k } := by
  induction k generalizing s with
  | zero => rfl
  | succ k ih =>
    rw [dispInserts, ih, dispInsert_off o s h]
    simp [Nat.add_assoc, Nat.add_comm 1 k]

/-- cycle ends, spelled out: with `shift_cycles` the records at positions `0, p, 2p, …` end a
    cycle, without it those at positions `p-1, 2p-1, …` -/
theorem cycleEnd_iff (o : DisplayOpts) (hp : 0 < o.period) (n : Nat) :
    cycleEnd o (n + 1) = true ↔ (if o.shiftCycles then n % o.period = 0 else (n + 1) % o.period = 0) := by
  unfold cycleEnd DisplayOpts.offset
  cases o.shiftCycles with
  | true =>
    simp only [if_true, beq_iff_eq]
    have : ((n + 1 : Nat) : Int) - ((1 : Nat) : Int) = (n : Int) := by omega
    rw [this]
    norm_cast
  | false =>
    simp only [Bool.false_eq_true, if_false, beq_iff_eq]
    have : ((n + 1 : Nat) : Int) - ((0 : Nat) : Int) = ((n + 1 : Nat) : Int) := by simp
    rw [this]
    norm_cast

/-! ### what stays visible on an ideal terminal -/

/-- a line of the terminal -/
inductive Line where
  | header
  | row (n : Nat)
  | blank
deriving Repr, DecidableEq

/-- ideal terminal: committed lines and the content of the line the cursor is on; `"\r"` returns
    to the start of the line so that the next output replaces it, `"\n"` commits it -/
structure Screen where
  lines : List Line
  cur : Option Nat
deriving Repr, DecidableEq

def Screen.step (s : Screen) : PrintEv → Screen
  | .header => ⟨s.lines ++ [.header], none⟩
  | .row n true => ⟨s.lines ++ [.row n], none⟩
  | .row n false => ⟨s.lines, some n⟩
  | .newline => ⟨s.lines ++ [match s.cur with | some n => .row n | none => .blank], none⟩

def Screen.run (s : Screen) (evs : List PrintEv) : Screen := evs.foldl Screen.step s

/-- everything one sees afterwards -/
def Screen.visible (s : Screen) : List Line :=
  s.lines ++ (match s.cur with | some n => [.row n] | none => [])

theorem Screen.run_append (s : Screen) (a b : List PrintEv) : s.run (a ++ b) = (s.run a).run b := by
  simp [Screen.run, List.foldl_append]

theorem flatMap_single {α β : Type} (f : α → β) (l : List α) : l.flatMap (fun x => [f x]) = l.map f := by
  induction l with
  | nil => rfl
  | cons a l ih => simp [List.flatMap_cons, ih]

/-- the rows of an overwrite-mode display, fed to the terminal one after the other -/
theorem screen_overwrite_rows (o : DisplayOpts) (k : Nat) (ls : List Line) :
    (Screen.mk ls none).run ((List.range k).map (fun n => PrintEv.row n (cycleEnd o (n + 1)))) =
      ⟨ls ++ ((List.range k).filter (fun n => cycleEnd o (n + 1))).map Line.row,
        if k = 0 then none else if cycleEnd o k then none else some (k - 1)⟩ := by
  induction k with
  | zero => simp [Screen.run]
  | succ k ih =>
    rw [List.range_succ, List.map_append, Screen.run_append, ih]
    simp only [List.map_cons, List.map_nil, Screen.run, List.foldl_cons, List.foldl_nil, List.filter_append,
      List.filter_cons, List.filter_nil, List.map_append, Nat.add_sub_cancel]
    cases hc : cycleEnd o (k + 1) <;> simp [Screen.step, hc]

theorem cycleEnd_period_one (o : DisplayOpts) (h : o.period = 1) (len : Nat) : cycleEnd o len = true := by
  simp [cycleEnd, h]

/-- **one call, overwrite mode**: `k ≥ 1` insertions and `end()` on a fresh displaying object
    leave on the terminal the header, the records that end a cycle, and the last record -/
theorem visible_overwrite (o : DisplayOpts) (hd : o.display = true) (ho : o.overwrite = true)
    (hp : 0 < o.period) (k : Nat) (hk : 0 < k) :
    ((Screen.mk [] none).run (dispEnd o (dispInserts o k (Disp.init o))).out).visible =
      Line.header :: ((List.range k).filter (fun n => cycleEnd o (n + 1) || decide (n + 1 = k))).map Line.row := by
  rw [dispInserts_on o hd]
  have hk0 : decide (0 < k) = true := by simpa using hk
  have hrow1 : ∀ n, rowEvent o n = [PrintEv.row n (cycleEnd o (n + 1))] := by
    intro n; simp [rowEvent, ho]
  simp only [Disp.init, hd, hk0, Bool.true_and, if_true, List.nil_append, Nat.zero_add, hrow1, flatMap_single]
  obtain ⟨j, rfl⟩ : ∃ j, k = j + 1 := ⟨k - 1, by omega⟩
  -- the records kept because they end a cycle, and the last one
  have hfilter : (List.range (j + 1)).filter (fun n => cycleEnd o (n + 1) || decide (n + 1 = j + 1)) =
      (List.range j).filter (fun n => cycleEnd o (n + 1)) ++ [j] := by
    rw [List.range_succ, List.filter_append]
    have h1 : (List.range j).filter (fun n => cycleEnd o (n + 1) || decide (n + 1 = j + 1)) =
        (List.range j).filter (fun n => cycleEnd o (n + 1)) := by
      apply List.filter_congr
      intro n hn
      have : n < j := List.mem_range.mp hn
      have : n ≠ j := by omega
      simp [this]
    rw [h1]
    simp
  rw [hfilter]
  unfold dispEnd
  simp only [hd, ho, Bool.true_and]
  by_cases hc : cycleEnd o (j + 1) = true
  · -- the last record ended a cycle: printed with "\n", `end()` prints nothing
    simp only [hc, Bool.not_true, Bool.and_false, Bool.false_eq_true, if_false]
    rw [Screen.run_append]
    have h0 : (Screen.mk [] none).run [PrintEv.header] = ⟨[Line.header], none⟩ := rfl
    rw [h0, screen_overwrite_rows]
    simp only [Nat.add_one_ne_zero, if_false, hc, if_true, Screen.visible, List.append_nil]
    rw [List.range_succ, List.filter_append]
    simp [hc]
  · have hc' : cycleEnd o (j + 1) = false := by simpa using hc
    have hp1 : 1 < o.period := by
      by_cases h1 : o.period = 1
      · rw [cycleEnd_period_one o h1] at hc'; cases hc'
      · omega
    simp only [hc', Bool.not_false, Bool.and_true, decide_eq_true_eq, hp1, if_true]
    rw [Screen.run_append, Screen.run_append]
    have h0 : (Screen.mk [] none).run [PrintEv.header] = ⟨[Line.header], none⟩ := rfl
    rw [h0, screen_overwrite_rows]
    simp only [Nat.add_one_ne_zero, if_false, hc', Bool.false_eq_true, Nat.add_sub_cancel]
    simp only [Screen.run, List.foldl_cons, List.foldl_nil, Screen.step, Screen.visible, List.append_nil]
    rw [List.range_succ, List.filter_append]
    simp [hc']

/-- **one call, no overwriting**: only the records that end a cycle are printed, after the
    header; `end()` prints nothing -/
theorem visible_plain (o : DisplayOpts) (hd : o.display = true) (ho : o.overwrite = false) (k : Nat)
    (hk : 0 < k) :
    (dispEnd o (dispInserts o k (Disp.init o))).out =
      PrintEv.header :: ((List.range k).filter (fun n => cycleEnd o (n + 1))).map (fun n => PrintEv.row n true) := by
  rw [dispInserts_on o hd]
  have hk0 : decide (0 < k) = true := by simpa using hk
  simp only [dispEnd, hd, ho, Bool.true_and, Bool.false_and, Bool.false_eq_true, if_false, Disp.init, hk0, if_true,
    List.nil_append, Nat.zero_add, List.singleton_append, List.cons.injEq, true_and]
  clear hk hk0
  induction k with
  | zero => rfl
  | succ k ih =>
    rw [List.range_succ, List.flatMap_append, ih, List.filter_append, List.map_append]
    congr 1
    cases hc : cycleEnd o (k + 1) <;> simp [rowEvent, ho, hc]

/-! ### several calls -/

/-- the lines one call (`k` insertions then `end()`) adds to an ideal terminal in overwrite mode,
    when `L` records exist already: the header if it is still pending and something is inserted,
    the records that end a cycle, the last record of the call, and — for a call that inserts
    nothing while the last record did not end a cycle — the blank line `end()` prints -/
def callLines (o : DisplayOpts) (L : Nat) (pending : Bool) (k : Nat) : List Line :=
  (if pending && decide (0 < k) then [Line.header] else []) ++
    ((List.range k).filter (fun n => cycleEnd o (L + n + 1) || decide (n + 1 = k))).map (fun n => Line.row (L + n)) ++
    (if decide (k = 0) && decide (o.period > 1) && !(cycleEnd o L) then [Line.blank] else [])

/-- all calls -/
def callsLines (o : DisplayOpts) : Nat → Bool → List Nat → List Line
  | _, _, [] => []
  | L, pending, k :: ks => callLines o L pending k ++ callsLines o (L + k) (pending && decide (k = 0)) ks

theorem dispEnd_len (o : DisplayOpts) (s : Disp) : (dispEnd o s).len = s.len := by
  unfold dispEnd; split <;> rfl

theorem dispEnd_pending (o : DisplayOpts) (s : Disp) : (dispEnd o s).hdrPending = s.hdrPending := by
  unfold dispEnd; split <;> rfl

theorem screen_overwrite_rows_from (o : DisplayOpts) (L k : Nat) (ls : List Line) :
    (Screen.mk ls none).run ((List.range k).map (fun n => PrintEv.row (L + n) (cycleEnd o (L + n + 1)))) =
      ⟨ls ++ ((List.range k).filter (fun n => cycleEnd o (L + n + 1))).map (fun n => Line.row (L + n)),
        if k = 0 then none else if cycleEnd o (L + k) then none else some (L + k - 1)⟩ := by
  induction k with
  | zero => simp [Screen.run]
  | succ k ih =>
    rw [List.range_succ, List.map_append, Screen.run_append, ih]
    simp only [List.map_cons, List.map_nil, Screen.run, List.foldl_cons, List.foldl_nil, List.filter_append,
      List.filter_cons, List.filter_nil, List.map_append]
    have e1 : L + (k + 1) = L + k + 1 := by omega
    have e2 : L + k + 1 - 1 = L + k := by omega
    cases hc : cycleEnd o (L + k + 1) <;> simp [Screen.step, hc, e1, e2]

/-- one call in overwrite mode, from any state whose output left the cursor on a fresh line -/
theorem screen_call_overwrite (o : DisplayOpts) (hd : o.display = true) (ho : o.overwrite = true)
    (hp : 0 < o.period) (k : Nat) (s : Disp) (ls : List Line)
    (hs : (Screen.mk [] none).run s.out = ⟨ls, none⟩) :
    (Screen.mk [] none).run (dispEnd o (dispInserts o k s)).out =
        ⟨ls ++ callLines o s.len s.hdrPending k, none⟩ ∧
      (dispEnd o (dispInserts o k s)).len = s.len + k ∧
      (dispEnd o (dispInserts o k s)).hdrPending = (s.hdrPending && decide (k = 0)) := by
  have hrow1 : ∀ n, rowEvent o n = [PrintEv.row n (cycleEnd o (n + 1))] := by
    intro n; simp [rowEvent, ho]
  have hlen : (dispEnd o (dispInserts o k s)).len = s.len + k := by
    rw [dispEnd_len, dispInserts_on o hd]
  have hpend : (dispEnd o (dispInserts o k s)).hdrPending = (s.hdrPending && decide (k = 0)) := by
    rw [dispEnd_pending, dispInserts_on o hd]
  refine ⟨?_, hlen, hpend⟩
  rw [dispInserts_on o hd]
  simp only [hrow1, flatMap_single]
  unfold dispEnd
  simp only [hd, ho, Bool.true_and]
  -- the screen after the header (if any)
  have hhdr : ((Screen.mk [] none).run (s.out ++ (if (s.hdrPending && decide (0 < k)) = true then [PrintEv.header] else []))) =
      ⟨ls ++ (if (s.hdrPending && decide (0 < k)) = true then [Line.header] else []), none⟩ := by
    rw [Screen.run_append, hs]
    split <;> simp [Screen.run, Screen.step]
  by_cases hk : k = 0
  · subst hk
    simp only [Nat.lt_irrefl, decide_false, Bool.and_false, Bool.false_eq_true, if_false, List.append_nil,
      List.range_zero, List.map_nil, Nat.add_zero, callLines, List.filter_nil, decide_true, Bool.true_and]
    by_cases hc : (decide (o.period > 1) && !cycleEnd o s.len) = true
    · simp only [hc, if_true, Screen.run_append, hs]
      simp [Screen.run, Screen.step]
    · simp only [hc, Bool.false_eq_true, if_false, hs, List.append_nil]
  · obtain ⟨j, rfl⟩ : ∃ j, k = j + 1 := ⟨k - 1, by omega⟩
    have hfilter : (List.range (j + 1)).filter (fun n => cycleEnd o (s.len + n + 1) || decide (n + 1 = j + 1)) =
        (List.range j).filter (fun n => cycleEnd o (s.len + n + 1)) ++ [j] := by
      rw [List.range_succ, List.filter_append]
      have h1 : (List.range j).filter (fun n => cycleEnd o (s.len + n + 1) || decide (n + 1 = j + 1)) =
          (List.range j).filter (fun n => cycleEnd o (s.len + n + 1)) := by
        apply List.filter_congr
        intro n hn
        have : n < j := List.mem_range.mp hn
        have : n ≠ j := by omega
        simp [this]
      rw [h1]
      simp
    have hnz : decide (j + 1 = 0) = false := by simp
    simp only [callLines, hfilter, hnz, Bool.false_and, Bool.false_eq_true, if_false, List.append_nil]
    by_cases hc : cycleEnd o (s.len + (j + 1)) = true
    · simp only [hc, Bool.not_true, Bool.and_false, Bool.false_eq_true, if_false, List.append_nil]
      rw [Screen.run_append, hhdr, screen_overwrite_rows_from]
      simp only [Nat.add_one_ne_zero, if_false, hc, if_true]
      rw [List.range_succ, List.filter_append]
      have hc' : cycleEnd o (s.len + j + 1) = true := by rw [← hc]; congr 1
      simp [hc', List.append_assoc]
    · have hc' : cycleEnd o (s.len + (j + 1)) = false := by simpa using hc
      have hp1 : 1 < o.period := by
        by_cases h1 : o.period = 1
        · rw [cycleEnd_period_one o h1] at hc'; cases hc'
        · omega
      simp only [hc', Bool.not_false, Bool.and_true, decide_eq_true_eq, hp1, if_true]
      rw [Screen.run_append, Screen.run_append, hhdr, screen_overwrite_rows_from]
      simp only [Nat.add_one_ne_zero, if_false, hc', Bool.false_eq_true]
      have hc'' : cycleEnd o (s.len + j + 1) = false := by rw [← hc']; congr 1
      have e2 : s.len + (j + 1) - 1 = s.len + j := by omega
      simp only [Screen.run, List.foldl_cons, List.foldl_nil, Screen.step, e2]
      rw [List.range_succ, List.filter_append]
      simp [hc'', List.append_assoc]

/-- **any number of calls, overwrite mode** -/
theorem screen_calls_overwrite (o : DisplayOpts) (hd : o.display = true) (ho : o.overwrite = true)
    (hp : 0 < o.period) (ks : List Nat) (s : Disp) (ls : List Line)
    (hs : (Screen.mk [] none).run s.out = ⟨ls, none⟩) :
    (Screen.mk [] none).run (dispCalls o ks s).out = ⟨ls ++ callsLines o s.len s.hdrPending ks, none⟩ := by
  induction ks generalizing s ls with
  | nil => simp [dispCalls, callsLines, hs]
  | cons k ks ih =>
    obtain ⟨h1, h2, h3⟩ := screen_call_overwrite o hd ho hp k s ls hs
    rw [dispCalls, ih _ _ h1, h2, h3]
    simp [callsLines, List.append_assoc]

end Scico.Driver
