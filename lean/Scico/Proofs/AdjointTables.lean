/-
  Pinned tables of the Adjoint engine (C01) for the translator `harness/adjoint_translate.py`: the DATA of the scico source that
  the hand-written model (`Scico/Model/Adjoint.lean`, `Scico/Model/AdjointTy.lean`), the driver and the harness follow.
  `Scico/Generated/AdjointTables.lean` (rewritten from the working tree on every run) proves
  `checkOverrides / checkClosures / checkBranches / checkBodies … = true` by `decide`; a change of the source that the model does
  not follow breaks one of these obligations deterministically instead of relying on sampling.           Mathlib-free.

  How the tables are used:
  * `expectedOverrides`, `expectedFactories` : which LinearOperator classes define their own `_adj`/`adj`, views and arithmetic.
      `handWritten` lists the classes whose adjoint is CODE (not `linear_adjoint`) with the model definition (or "per configuration")
      that covers each; `checkOverrides` also demands that the set of such classes in the source is exactly this list.
      The harness decides from the same facts where the generic constructions apply (MatrixOperator / Diagonal family /
      (Circular)Convolve override `+ − * / @ .T .H`: `adjoint_types.py` uses them only as leaves; `closed-form` stream).
  * `expectedClosures` : `eval_fn` / `adj_fn` and declared metadata of the derived constructors of `_linop.py`, with `closureModel`
      naming the `Op.*` (values) and `TOp.*` (dtypes/shapes) constructor that models each.
  * `expectedBranches` : `scico.linear_adjoint`; `branchConj` is READ OFF this table and `linearAdjoint_table` proves that the
      model's `linearAdjoint` is exactly the table.
  * `expectedBodies`   : digests of the normalised statements of the methods the model follows line by line (the generated
      module carries the statements themselves in a comment, so a diff is readable).  To re-pin after a deliberate change of the
      model: `python harness/adjoint_translate.py pin`.
-/
import Scico.Model.Adjoint

namespace Scico.AdjointTables
open Scico.Adjoint

def expectedOverrides : List (String × String × String × String × String) := [
  ("linop/_linop.py", "LinearOperator", "Operator", "adj T H conj gram_op gram __call__ __add__ __sub__ __mul__ __rmul__ __truediv__ __matmul__ __rmatmul__", "method"),
  ("linop/_linop.py", "ComposedLinearOperator", "LinearOperator", "", "adj_fn"),
  ("linop/_matrix.py", "MatrixOperator", "LinearOperator", "adj T H conj gram_op gram _eval __call__ __add__ __sub__ __radd__ __rsub__ __mul__ __rmul__ __truediv__ __rtruediv__ __neg__", "method"),
  ("linop/_diag.py", "Diagonal", "LinearOperator", "T H conj gram_op _eval __add__ __sub__ __mul__ __truediv__ __matmul__", "derived"),
  ("linop/_diag.py", "ScaledIdentity", "Diagonal", "conj gram_op __add__ __sub__ __mul__ __truediv__ __matmul__", "derived"),
  ("linop/_diag.py", "Identity", "ScaledIdentity", "conj gram_op _eval __matmul__ __rmatmul__", "derived"),
  ("linop/_stack.py", "VerticalStack", "VerticalStackOperator LinearOperator", "_adj", "method"),
  ("linop/_stack.py", "DiagonalStack", "DiagonalStackOperator LinearOperator", "_adj", "method"),
  ("linop/_stack.py", "DiagonalReplicated", "DiagonalReplicatedOperator LinearOperator", "", "assign"),
  ("linop/_circconv.py", "CircularConvolve", "LinearOperator", "_adj _eval __add__ __sub__ __mul__ __truediv__", "method"),
  ("linop/_convolve.py", "Convolve", "LinearOperator", "_eval __add__ __sub__ __mul__ __truediv__", "derived"),
  ("linop/_convolve.py", "ConvolveByX", "LinearOperator", "_eval __add__ __sub__ __mul__ __truediv__", "derived"),
  ("linop/_dft.py", "DFT", "LinearOperator", "_eval", "derived"),
  ("linop/_diff.py", "FiniteDifference", "VerticalStack", "", "derived"),
  ("linop/_diff.py", "SingleAxisFiniteDifference", "LinearOperator", "_eval", "derived"),
  ("linop/_func.py", "Crop", "LinearOperator", "", "derived"),
  ("linop/_func.py", "Slice", "LinearOperator", "_eval", "derived"),
  ("linop/_grad.py", "ProjectedGradient", "LinearOperator", "_eval", "derived"),
  ("linop/_grad.py", "PolarGradient", "ProjectedGradient", "", "derived"),
  ("linop/_grad.py", "CylindricalGradient", "ProjectedGradient", "", "derived"),
  ("linop/_grad.py", "SphericalGradient", "ProjectedGradient", "", "derived"),
  ("linop/abel.py", "AbelTransform", "LinearOperator", "_adj _eval", "method"),
  ("linop/optics.py", "Propagator", "LinearOperator", "_eval", "derived"),
  ("linop/optics.py", "AngularSpectrumPropagator", "Propagator", "", "derived"),
  ("linop/optics.py", "FresnelPropagator", "Propagator", "", "derived"),
  ("linop/optics.py", "FraunhoferPropagator", "LinearOperator", "_eval", "derived"),
  ("linop/xray/_xray.py", "XRayTransform2D", "LinearOperator", "", "adj_fn"),
  ("linop/xray/_xray.py", "XRayTransform3D", "LinearOperator", "", "adj_fn"),
  ("functional/_tvnorm.py", "SingleAxisFiniteSum", "LinearOperator", "_eval", "derived"),
  ("functional/_tvnorm.py", "FiniteSum", "VerticalStack", "", "derived"),
  ("functional/_tvnorm.py", "SingleAxisHaarTransform", "VerticalStack", "", "derived"),
  ("functional/_tvnorm.py", "HaarTransform", "VerticalStack", "", "derived")]

def expectedFactories : List (String × String × String) := [
  ("_func.py", "Transpose", "snp.transpose"),
  ("_func.py", "Reshape", "snp.reshape"),
  ("_func.py", "Pad", "_linear_pad"),
  ("_func.py", "Sum", "_linear_sum")]

def expectedClosures : List (String × List String) := [
  ("LinearOperator.__add__#0", ["self.input_shape", "self.output_shape", "lambda x: self(x) + other(x)", "lambda x: self.adj(x) + other.adj(x)", "self.input_dtype", "result_type(self.output_dtype, other.output_dtype)"]),
  ("LinearOperator.__sub__#0", ["self.input_shape", "self.output_shape", "lambda x: self(x) - other(x)", "lambda x: self.adj(x) - other.adj(x)", "self.input_dtype", "result_type(self.output_dtype, other.output_dtype)"]),
  ("LinearOperator.__mul__#0", ["self.input_shape", "self.output_shape", "lambda x: other * self(x)", "lambda x: self.adj(self._to_output_space(snp.conj(other) * x))", "self.input_dtype", "result_type(self.output_dtype, other)"]),
  ("LinearOperator.__truediv__#0", ["self.input_shape", "self.output_shape", "lambda x: self(x) / other", "lambda x: self.adj(self._to_output_space(x / snp.conj(other)))", "self.input_dtype", "result_type(self.output_dtype, other)"]),
  ("LinearOperator.T#0", ["self.output_shape", "self.input_shape", "self.adj", "self.__call__", "self.output_dtype", "self.input_dtype"]),
  ("LinearOperator.T#1", ["self.output_shape", "self.input_shape", "lambda x: self.adj(x.conj()).conj()", "lambda x: self(x.conj()).conj()", "self.output_dtype", "self.input_dtype"]),
  ("LinearOperator.H#0", ["self.output_shape", "self.input_shape", "self.adj", "self.__call__", "self.output_dtype", "self.input_dtype"]),
  ("LinearOperator.conj#0", ["self.input_shape", "self.output_shape", "lambda x: self(x.conj()).conj()", "lambda x: self.adj(x.conj()).conj()", "self.input_dtype", "self.output_dtype"]),
  ("LinearOperator.gram_op#0", ["self.input_shape", "self.input_shape", "self.gram", "self.gram", "self.input_dtype", "self.input_dtype"]),
  ("ComposedLinearOperator.__init__", ["self.B.input_shape", "self.A.output_shape", "lambda x: self.A(self.B(x))", "lambda z: self.B.adj(self.A.adj(z))", "self.B.input_dtype", "self.A.output_dtype"]),
  ("ComposedLinearOperator.__init__ tests", ["not isinstance(A, LinearOperator)", "not isinstance(B, LinearOperator)", "A.input_shape != B.output_shape", "A.input_dtype != B.output_dtype", "-", "-"])]

def expectedBranches : List (String × String × String) := [
  ("def conj_fun", "conj_primals = tree_map(jax.numpy.conj, primals) ; return tree_map(jax.numpy.conj, fun(*conj_primals))", ""),
  ("any([jnp.iscomplexobj(_) for _ in primals])", "conj_fun", "tree_map(jax.numpy.conj, primals)"),
  ("jnp.iscomplexobj(fun(*primals))", "conj_fun", "primals"),
  ("else", "fun", "primals"),
  ("return", "jax.linear_transpose(_fun, *_primals)", "")]

def expectedBodies : List (String × Nat × String) := [
  ("linop/_linop.py:LinearOperator.adj", 10, "fb2047651595aabb"),
  ("linop/_linop.py:LinearOperator._set_adjoint", 3, "9e936d976f3ed3f3"),
  ("linop/_linop.py:LinearOperator._to_output_space", 3, "17ec7de1be4cfdf3"),
  ("linop/_linop.py:LinearOperator.__rmatmul__", 5, "0440806c3997624c"),
  ("linop/_linop.py:LinearOperator.__call__", 3, "cc76262c441e8ac5"),
  ("linop/_linop.py:LinearOperator.gram", 4, "cd0e1294cad1b607"),
  ("linop/_linop.py:_wrap_add_sub", 20, "8056ba241e8224cd"),
  ("operator/_operator.py:Operator.__call__", 7, "006f017621bd34a9"),
  ("operator/_operator.py:Operator.__neg__", 1, "f6fe84a674f63653"),
  ("operator/_operator.py:Operator.vjp", 8, "e8b359c0a960e4ec"),
  ("linop/_stack.py:VerticalStack._adj", 1, "858f69f77cacb9f8"),
  ("linop/_stack.py:DiagonalStack._adj", 4, "1763749cb48ce945"),
  ("linop/_stack.py:DiagonalReplicated.__init__", 4, "1fd5e4704b2b6923"),
  ("operator/_stack.py:collapse_shapes", 5, "520612d43e57bec5"),
  ("operator/_stack.py:is_collapsible", 1, "31a9e18194117a7b"),
  ("operator/_stack.py:VerticalStack.check_if_stackable", 13, "6e6a7e5c0aad4082"),
  ("operator/_stack.py:VerticalStack._eval", 3, "afc534c39b7ded6c"),
  ("operator/_stack.py:DiagonalStack.check_if_stackable", 10, "b10d419eb75c2bb3"),
  ("operator/_stack.py:DiagonalStack._eval", 4, "d8355ad6245170e0"),
  ("linop/_matrix.py:MatrixOperator.adj", 3, "75979f28f222076f"),
  ("linop/_matrix.py:MatrixOperator._eval", 1, "72067a1a80db56de"),
  ("linop/_matrix.py:MatrixOperator.__call__", 13, "6d2c314c7781e0c1"),
  ("linop/_matrix.py:MatrixOperator.T", 1, "6a685920794d10fe"),
  ("linop/_matrix.py:MatrixOperator.H", 1, "4f532e03e8854e89"),
  ("linop/_matrix.py:MatrixOperator.conj", 1, "0bfbff13e0dd942a"),
  ("linop/_matrix.py:MatrixOperator.gram_op", 1, "75abd0cd3950136e"),
  ("linop/_matrix.py:_wrap_add_sub_matrix", 22, "2cebbf95ae367161"),
  ("linop/_diag.py:Diagonal._eval", 1, "250bcbae5e52c4e8"),
  ("linop/_diag.py:Diagonal.T", 3, "f0826a2e23b9999a"),
  ("linop/_diag.py:Diagonal.H", 3, "e02d9e0f2853f323"),
  ("linop/_diag.py:Diagonal.conj", 1, "8c3e34cff6d5fa8a"),
  ("linop/_diag.py:Diagonal.gram_op", 3, "eda966c7fcb4f14d"),
  ("linop/_diag.py:Diagonal.__add__", 3, "5d331493dd153587"),
  ("linop/_diag.py:Diagonal.__sub__", 3, "c02a40531b90a2e3"),
  ("linop/_diag.py:Diagonal.__mul__", 1, "d865135fbecaa817"),
  ("linop/_diag.py:Diagonal.__truediv__", 1, "0cc7e0caac0b6f34"),
  ("linop/_diag.py:Diagonal.__matmul__", 6, "5d34c253ed436ae4"),
  ("linop/_diag.py:ScaledIdentity.conj", 1, "401d049213184745"),
  ("linop/_diag.py:ScaledIdentity.gram_op", 1, "a3b18c07591cec88"),
  ("linop/_circconv.py:CircularConvolve._eval", 6, "4c15800d7108ec0b"),
  ("linop/_circconv.py:CircularConvolve._adj", 9, "67539848f63e3537"),
  ("linop/xray/_xray.py:XRayTransform2D._project", 7, "e6eca95eee6ec033"),
  ("linop/xray/_xray.py:XRayTransform2D._back_project", 8, "569ea09e0259a62e"),
  ("linop/xray/_xray.py:XRayTransform3D._project", 8, "64c4f993247b41eb"),
  ("linop/xray/_xray.py:XRayTransform3D._project_single", 10, "0b87e89b928520d0"),
  ("linop/xray/_xray.py:XRayTransform3D._back_project", 12, "c973af47b89f2b27"),
  ("linop/xray/_xray.py:XRayTransform3D._back_project_single", 12, "6ef292a2a9d4cc62"),
  ("linop/_util.py:jacobian", 11, "c2b0492bcabdfb40")]


/-- classes whose adjoint is hand-written code (own `_adj`/`adj`, `adj_fn=` or `self._adj = …`), and what covers each -/
def handWritten : List (String × String) := [
  ("LinearOperator", "guards: TOp.adjC; closures of derived forms: Op.add … Op.gram (C01_derived, C01_adj_total)"),
  ("ComposedLinearOperator", "Op.comp / TOp.comp"),
  ("MatrixOperator", "Op.mat (C01_mat_adj, C01_matrix_overrides); guard := false in the typed layer"),
  ("VerticalStack", "Op.vcons (C01_derived)"),
  ("DiagonalStack", "Op.dcons (C01_derived)"),
  ("DiagonalReplicated", "Op.drep (C01_derived)"),
  ("CircularConvolve", "Op.spectral + wrappers (C01_circ_dft_domain), Op.circBatch"),
  ("AbelTransform", "per configuration: basis pairs + C01_basis"),
  ("XRayTransform2D", "Op.scatFill (C01_xray_backproject, C01_xray_projector)"),
  ("XRayTransform3D", "Op.scatSlabFill (C01_xray3d_slab)")]

/-- which `Op.*` / `TOp.*` constructor models each derived constructor of `_linop.py` -/
def closureModel : List (String × String) := [
  ("LinearOperator.__add__#0", "Op.add / TOp.add"),
  ("LinearOperator.__sub__#0", "Op.sub / TOp.add"),
  ("LinearOperator.__mul__#0", "Op.smul, Op.smulRe / TOp.smul"),
  ("LinearOperator.__truediv__#0", "Op.sdiv / TOp.smul"),
  ("LinearOperator.T#0", "Op.tr false = Op.herm / TOp.tr"),
  ("LinearOperator.T#1", "Op.tr true / TOp.tr"),
  ("LinearOperator.H#0", "Op.herm / TOp.herm"),
  ("LinearOperator.conj#0", "Op.cj / TOp.cj"),
  ("LinearOperator.gram_op#0", "Op.gram / TOp.gram"),
  ("ComposedLinearOperator.__init__", "Op.comp / TOp.comp"),
  ("ComposedLinearOperator.__init__ tests", "wf / wfT (.comp)")]

def checkOverrides (ov : List (String × String × String × String × String)) (fac : List (String × String × String)) : Bool :=
  ov == expectedOverrides && fac == expectedFactories
    && ((ov.filter (fun r => r.2.2.2.2 != "derived")).map (fun r => r.2.1)) == handWritten.map (·.1)

def checkClosures (cl : List (String × List String)) : Bool :=
  cl == expectedClosures && cl.map (·.1) == closureModel.map (·.1)

/-- does the branch transpose the conjugated function? (read off the table) -/
def rowConj (r : String × String × String) : Bool := r.2.1 == "conj_fun"

/-- the branch `linear_adjoint` takes, as the TABLE says: complex primal → row 1, complex output → row 2, else → row 3 -/
def branchConj (pc oc : Bool) : Bool :=
  match expectedBranches with
  | [_, r1, r2, r3, _] => if pc then rowConj r1 else if oc then rowConj r2 else rowConj r3
  | _ => false

def checkBranches (br : List (String × String × String)) : Bool := br == expectedBranches

def checkBodies (b : List (String × Nat × String)) : Bool := b == expectedBodies

/-- the model's `linearAdjoint` is exactly the pinned table of `scico.linear_adjoint` -/
theorem linearAdjoint_table {α : Type} [HasConj α] (jt : Bool → Nat → Nat → (V α → V α) → (V α → V α)) (m n : Nat)
    (pc oc : Bool) (f : V α → V α) :
    linearAdjoint jt m n pc oc f = jt pc m n (if branchConj pc oc then conjFun f else f) := by
  have h : ∀ a b, branchConj a b = (a || b) := by decide
  rw [h]
  cases pc <;> cases oc <;> simp [linearAdjoint]

end Scico.AdjointTables
