/-
  C15: a callback that raises an exception (`solveRaise`): what `solve` leaves behind.
-/
import Scico.Proofs.DriverSeq

set_option linter.unusedSimpArgs false

namespace Scico.Driver
open Scico.Driver.Spec

variable {ω ρ ξ α L : Type} [DecidableEq L]

theorem bodyHead_clean (E : Env ω ρ ξ α) (cb : Option (Callback ω)) (T0 : Timer L) (d0 : Drv ω ρ L)
    (i0 : Int) (e0 : Nat) (n : Nat) (d : Drv ω ρ L) (hda : T0.dflt ≠ T0.all)
    (h : LoopAt E cb T0 d0 i0 e0 n d)
    (hclean : tripsB E d0.nanstop (afterStep E cb d0.world n) = false) :
    (bodyHead E d (i0 + n)).2 = .ok ∧
      (bodyHead E d (i0 + n)).1.world = afterStep E cb d0.world n ∧
      (bodyHead E d (i0 + n)).1.itnum = i0 + n ∧
      (bodyHead E d (i0 + n)).1.clock = d0.clock + stepTime E cb d0.world (n + 1) + cbTime E cb d0.world n ∧
      (bodyHead E d (i0 + n)).1.rows = d0.rows ++ (List.range (n + 1)).map (specRow E cb d0.world i0 e0) ∧
      (bodyHead E d (i0 + n)).1.cblog = d.cblog ∧
      (bodyHead E d (i0 + n)).1.nanstop = d0.nanstop ∧
      StoppedAt T0 (bodyHead E d (i0 + n)).1.timer (e0 + stepTime E cb d0.world (n + 1)) := by
  have hw : E.step d.world = afterStep E cb d0.world n := by rw [h.world]; rfl
  have hrun := h.timer.advance (d.clock + E.stepTicks d.world) (by omega)
  have hread := h.timer.read (d.clock + E.stepTicks d.world) (by omega)
  have hdt : E.stepTicks d.world = E.stepTicks (worldAt E cb d0.world n) := by rw [h.world]
  have hstop := hrun.stop hda
  have hnot : (d.nanstop && !workingVarsFinite E.fin (E.vars (E.step d.world))) = false := by
    have := hclean
    unfold tripsB at this
    rw [h.nanstop, hw]; exact this
  have hrow : (⟨i0 + n, d.timer.elapsedDefault true (d.clock + E.stepTicks d.world),
      E.fields (E.step d.world)⟩ : Row ρ) = specRow E cb d0.world i0 e0 n := by
    rw [hread]
    simp only [specRow, hw, stepTime_succ, hdt]
    congr 1
    omega
  simp only [bodyHead, hnot, Bool.false_eq_true, if_false, Drv.timerStop, hstop.1]
  refine ⟨trivial, hw, trivial, ?_, ?_, trivial, h.nanstop, ?_⟩
  · simp only [h.clock, stepTime_succ, hdt]; omega
  · simp only [statsInsert, hrow, h.rows, List.range_succ, List.map_append, List.map_cons, List.map_nil,
      List.append_assoc]
  · have := hstop.2
    rw [stepTime_succ, ← hdt]
    convert this using 1
    omega

/-- what `solve(callback)` leaves behind when the callback raises in iteration `j` -/
theorem solveRaise_spec (E : Env ω ρ ξ α) (c : Callback ω) (pr : ω → ω) (pt : ω → Nat) (d : Drv ω ρ L)
    (hda : d.timer.dflt ≠ d.timer.all) (hwf : TimerWF d.timer d.clock) (j : Nat) (hj : j < d.maxiter.toNat)
    (hclean : ∀ k ≤ j, tripsB E d.nanstop (afterStep E (some c) d.world k) = false) :
    (solveRaise E c pr pt d j).2 = none ∧
      (solveRaise E c pr pt d j).1.world = pr (afterStep E (some c) d.world j) ∧
      (solveRaise E c pr pt d j).1.itnum = d.itnum + (j : Int) ∧
      (solveRaise E c pr pt d j).1.rows = d.rows ++ (List.range (j + 1)).map
        (specRow E (some c) d.world d.itnum (d.timer.elapsedDefault true d.clock)) ∧
      (solveRaise E c pr pt d j).1.cblog.length = d.cblog.length + (j + 1) ∧
      (solveRaise E c pr pt d j).1.clock = d.clock + stepTime E (some c) d.world (j + 1) +
        cbTime E (some c) d.world j + pt (afterStep E (some c) d.world j) ∧
      StoppedAt (d.timer.start .none d.clock) (solveRaise E c pr pt d j).1.timer
        (d.timer.elapsedDefault true d.clock + stepTime E (some c) d.world (j + 1)) := by
  have hrun := running_after_start d.timer d.clock hwf
  obtain ⟨hok, hat⟩ := loop_clean E (some c) (d.timer.start .none d.clock) d.timerStart d.itnum
    (d.timer.elapsedDefault true d.clock) hda hrun j (fun k hk => hclean k (by omega))
  have hm0 : d.timerStart.maxiter = d.maxiter := rfl
  have hi0 : d.timerStart.itnum = d.itnum := rfl
  have hnle : ¬ d.maxiter.toNat ≤ j := by omega
  unfold solveRaise
  simp only [hm0, hi0, hnle, if_false]
  rcases hl : loop E (some c) j d.itnum d.timerStart with ⟨dj, o⟩
  rw [hl] at hok hat
  simp only at hok hat
  subst hok
  simp only
  obtain ⟨b0, bw, bi, bc, br, bl, _, bt⟩ := bodyHead_clean E (some c) (d.timer.start .none d.clock) d.timerStart
    d.itnum (d.timer.elapsedDefault true d.clock) j dj hda hat (hclean j (Nat.le_refl _))
  rcases hb : bodyHead E dj (d.itnum + j) with ⟨d1, o1⟩
  rw [hb] at b0 bw bi bc br bl bt
  simp only at b0 bw bi bc br bl bt
  subst b0
  simp only
  refine ⟨trivial, by rw [bw]; rfl, bi, br, ?_, ?_, bt⟩
  · rw [List.length_append, bl, hat.cblog]
    simp [Drv.timerStart]; omega
  · rw [bc, bw]; simp only [Drv.timerStart]

/-! ### an `insert` that raises -/

theorem solveInsertRaise_spec (E : Env ω ρ ξ α) (cb : Option (Callback ω)) (d : Drv ω ρ L)
    (hwf : TimerWF d.timer d.clock) (hm : 0 < d.maxiter.toNat)
    (hclean : tripsB E d.nanstop (E.step d.world) = false) :
    (solveInsertRaise E cb d).2 = none ∧
      (solveInsertRaise E cb d).1.world = E.step d.world ∧
      (solveInsertRaise E cb d).1.itnum = d.itnum ∧
      (solveInsertRaise E cb d).1.rows = d.rows ++
        [⟨d.itnum, d.timer.elapsedDefault true d.clock + E.stepTicks d.world, E.fields (E.step d.world)⟩] ∧
      (solveInsertRaise E cb d).1.cblog = d.cblog ∧
      (solveInsertRaise E cb d).1.clock = d.clock + E.stepTicks d.world ∧
      RunningAt (d.timer.start .none d.clock) (solveInsertRaise E cb d).1.timer (solveInsertRaise E cb d).1.clock
        (d.timer.elapsedDefault true d.clock + E.stepTicks d.world) := by
  have hrun := running_after_start d.timer d.clock hwf
  have hadv := hrun.advance (d.clock + E.stepTicks d.world) (by omega)
  have hread := hrun.read (d.clock + E.stepTicks d.world) (by omega)
  have hne : ¬ d.timerStart.maxiter.toNat = 0 := by
    show ¬ d.maxiter.toNat = 0; omega
  have hnot : (d.nanstop && !workingVarsFinite E.fin (E.vars (E.step d.world))) = false := by
    unfold tripsB at hclean; exact hclean
  unfold solveInsertRaise
  have hne' : ¬ d.maxiter.toNat = 0 := by omega
  simp only [bodyInsertRaise, Drv.timerStart, hne', hnot, if_false, Bool.false_eq_true]
  have he : (d.timer.start Arg.none d.clock).elapsedDefault true (d.clock + E.stepTicks d.world) =
      d.timer.elapsedDefault true d.clock + E.stepTicks d.world := by
    rw [hread]; omega
  refine ⟨trivial, trivial, trivial, ?_, trivial, trivial, ?_⟩
  · simp only [statsInsert, he]
  · convert hadv using 1
    omega

end Scico.Driver
