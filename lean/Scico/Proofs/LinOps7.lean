/-
  Helper lemmas for `Scico.Model.LinOps`, part 7 (round 2): non-constant pad modes as index maps,
  projected gradients, X-ray views at the documented angles.
-/
import Scico.Proofs.LinOps2
import Mathlib.Algebra.Order.Field.Basic
import Mathlib.Algebra.Order.Ring.Abs
import Mathlib.Tactic.FieldSimp
import Mathlib.Algebra.BigOperators.Field

namespace Scico.LinOps
open Finset
set_option linter.unusedSectionVars false


/-! ### pad modes -/
section PadModes
variable {K : Type} [CommRing K]

theorem padSrc_range (mode : PadMode) (n : Nat) (hn : 0 < n) (t : Int) :
    0 ≤ padSrc mode n t ∧ padSrc mode n t < n := by
  have hn' : (0 : Int) < n := by exact_mod_cast hn
  cases mode <;> simp only [padSrc]
  · split
    · omega
    · split <;> omega
  · exact ⟨Int.emod_nonneg _ (by omega), Int.emod_lt_of_pos _ hn'⟩
  · split
    · omega
    · rename_i h1
      have h2 : (0 : Int) < 2 * (n : Int) - 2 := by omega
      have := Int.emod_nonneg t (by omega : 2 * (n : Int) - 2 ≠ 0)
      have := Int.emod_lt_of_pos t h2
      split <;> omega
  · have h2 : (0 : Int) < 2 * (n : Int) := by omega
    have := Int.emod_nonneg t (by omega : 2 * (n : Int) ≠ 0)
    have := Int.emod_lt_of_pos t h2
    split <;> omega

/-- inside the array every mode is the identity -/
theorem padSrc_interior (mode : PadMode) (n : Nat) (t : Int) (h0 : 0 ≤ t) (h1 : t < n) : padSrc mode n t = t := by
  cases mode <;> simp only [padSrc]
  · rw [if_neg (by omega), if_pos h1]
  · exact Int.emod_eq_of_lt h0 h1
  · split
    · omega
    · rw [Int.emod_eq_of_lt h0 (by omega)]; simp [h1]
  · rw [Int.emod_eq_of_lt h0 (by omega)]; simp [h1]


/-- negation of a residue -/
theorem neg_emod_cases (t P : Int) (hP : 0 < P) :
    (t % P = 0 ∧ (-t) % P = 0) ∨ (0 < t % P ∧ (-t) % P = P - t % P) := by
  have h0 := Int.emod_nonneg t (by omega : P ≠ 0)
  have h1 := Int.emod_lt_of_pos t hP
  have ht := Int.mul_ediv_add_emod t P
  rcases (by omega : t % P = 0 ∨ 0 < t % P) with hz | hp
  · left
    refine ⟨hz, ?_⟩
    have : -t = 0 + P * (-(t / P)) := by rw [hz] at ht; linarith
    rw [this, Int.add_mul_emod_self_left]; simp
  · right
    refine ⟨hp, ?_⟩
    have : -t = (P - t % P) + P * (-(t / P) - 1) := by linarith
    rw [this, Int.add_mul_emod_self_left, Int.emod_eq_of_lt (by omega) (by omega)]

/-- documented characterisation of the modes.
    `edge`: constant continuation by the first / last value -/
theorem padSrc_edge (n : Nat) (t : Int) : (t < 0 → padSrc .edge n t = 0) ∧ ((n : Int) ≤ t → padSrc .edge n t = n - 1) := by
  constructor
  · intro h; simp [padSrc, h]
  · intro h; simp only [padSrc]; rw [if_neg (by omega), if_neg (by omega)]

/-- `wrap`: periodic continuation with period `n` -/
theorem padSrc_wrap (n : Nat) (t : Int) : padSrc .wrap n (t + n) = padSrc .wrap n t := by
  simp [padSrc]

/-- `reflect`: mirrored about the first and about the last sample (the edge sample is not repeated) -/
theorem padSrc_reflect (n : Nat) (hn : 2 ≤ n) (t : Int) :
    padSrc .reflect n (-t) = padSrc .reflect n t
    ∧ padSrc .reflect n ((n : Int) - 1 + t) = padSrc .reflect n ((n : Int) - 1 - t) := by
  have hP : (0 : Int) < 2 * (n : Int) - 2 := by omega
  have hn1 : n ≠ 1 := by omega
  have key : ∀ t : Int, padSrc .reflect n (-t) = padSrc .reflect n t := by
    intro t
    simp only [padSrc, if_neg hn1]
    have h0 := Int.emod_nonneg t (by omega : 2 * (n : Int) - 2 ≠ 0)
    have h1 := Int.emod_lt_of_pos t hP
    rcases neg_emod_cases t _ hP with ⟨ha, hb⟩ | ⟨ha, hb⟩
    · rw [ha, hb]
    · rw [hb]; split <;> split <;> omega
  refine ⟨key t, ?_⟩
  -- mirror about the last sample: shift by the period
  have e : (n : Int) - 1 + t = -((n : Int) - 1 - t) + (2 * (n : Int) - 2) * 1 := by ring
  have hper : ∀ u : Int, padSrc .reflect n (u + (2 * (n : Int) - 2) * 1) = padSrc .reflect n u := by
    intro u; simp only [padSrc, if_neg hn1, Int.add_mul_emod_self_left]
  rw [e, hper, key]

/-- `symmetric`: mirrored about the array edges (the edge sample is repeated) -/
theorem padSrc_symmetric (n : Nat) (hn : 0 < n) (t : Int) :
    padSrc .symmetric n (-1 - t) = padSrc .symmetric n t
    ∧ padSrc .symmetric n ((n : Int) + t) = padSrc .symmetric n ((n : Int) - 1 - t) := by
  have hP : (0 : Int) < 2 * (n : Int) := by omega
  have key : ∀ t : Int, padSrc .symmetric n (-1 - t) = padSrc .symmetric n t := by
    intro t
    simp only [padSrc]
    have h0 := Int.emod_nonneg t (by omega : 2 * (n : Int) ≠ 0)
    have h1 := Int.emod_lt_of_pos t hP
    have ht := Int.mul_ediv_add_emod t (2 * (n : Int))
    have : -1 - t = (2 * (n : Int) - 1 - t % (2 * (n : Int))) + (2 * (n : Int)) * (-(t / (2 * (n : Int))) - 1) := by
      linarith
    rw [this, Int.add_mul_emod_self_left, Int.emod_eq_of_lt (by omega) (by omega)]
    split <;> split <;> omega
  refine ⟨key t, ?_⟩
  have e : (n : Int) + t = (-1 - ((n : Int) - 1 - t)) + (2 * (n : Int)) * 1 := by ring
  have hper : ∀ u : Int, padSrc .symmetric n (u + (2 * (n : Int)) * 1) = padSrc .symmetric n u := by
    intro u; simp only [padSrc, Int.add_mul_emod_self_left]
  rw [e, hper, key]

theorem padModeEval_eq_mulVec (mode : PadMode) (lo n : Nat) (hn : 0 < n) (x : V K) (i : Nat) :
    padModeEval mode lo n x i = mulVec (padModeMatrix mode lo n) n x i := by
  obtain ⟨h0, h1⟩ := padSrc_range mode n hn ((i : Int) - lo)
  unfold padModeEval mulVec padModeMatrix
  rw [sumTo_eq_sum, sum_eq_single_of_mem (padSrc mode n ((i : Int) - lo)).toNat (mem_range.mpr (by omega))]
  · rw [if_pos (by omega), one_mul]
  · intro j _ hne
    rw [if_neg (by omega), zero_mul]

/-- `Crop` is a left inverse of every pad mode -/
theorem crop_padMode (mode : PadMode) (lo n : Nat) (x : V K) (i : Nat) (hi : i < n) :
    cropEval lo (padModeEval mode lo n x) i = x i := by
  unfold cropEval padModeEval
  rw [padSrc_interior mode n _ (by omega) (by omega)]
  congr 1; omega

end PadModes

section Mean
variable {K : Type} [Field K]

theorem padMeanEval_eq_mulVec (lo n : Nat) (x : V K) (i : Nat) :
    padMeanEval (fun m => (m : K)) lo n x i = mulVec (padMeanMatrix (fun m => (m : K)) lo n) n x i := by
  unfold padMeanEval mulVec padMeanMatrix
  split
  · rename_i h
    rw [sumTo_eq_sum, sum_eq_single_of_mem (i - lo) (mem_range.mpr (by omega))]
    · rw [if_pos (by omega), one_mul]
    · intro j _ hne; rw [if_neg (by omega), zero_mul]
  · rw [sumTo_eq_sum, sumTo_eq_sum, sum_div]
    exact sum_congr rfl (fun j _ => by ring)

end Mean

/-! ### projected gradients -/
section Proj
variable {K : Type} [CommRing K]

theorem projEvalAux_eq (acc : K) : ∀ (l : List (V K × V K)) (i : Nat),
    projEval.projEvalAux acc l i = acc + (l.map (fun cg => cg.1 i * cg.2 i)).sum
  | [], i => by simp [projEval.projEvalAux]
  | (c, g) :: rest, i => by
      simp only [projEval.projEvalAux, projEvalAux_eq _ rest i, List.map_cons, List.sum_cons]; ring

theorem projEval_eq_sum (l : List (V K × V K)) (i : Nat) :
    projEval l i = (l.map (fun cg => cg.1 i * cg.2 i)).sum := by
  cases l with
  | nil => simp [projEval]
  | cons a rest =>
    obtain ⟨c, g⟩ := a
    simp only [projEval, projEvalAux_eq, List.map_cons, List.sum_cons]; ring

/-- the projection on a local axis of the stacked differences `g_m = G_m x` is `(Σ_m diag(c_m) G_m) x` -/
theorem projEval_eq_mulVec (n : Nat) (x : V K) (i : Nat) : ∀ (l : List (V K × M K)),
    projEval (l.map (fun cG => (cG.1, mulVec cG.2 n x))) i = mulVec (projMatrix l) n x i
  | [] => by simp [projEval, projMatrix, mulVec, sumTo_eq_sum]
  | (c, G) :: rest => by
      have ih := projEval_eq_mulVec n x i rest
      rw [projEval_eq_sum] at ih ⊢
      simp only [List.map_cons, List.sum_cons, List.map_map] at ih ⊢
      rw [ih]
      simp only [mulVec, projMatrix, sumTo_eq_sum, mul_sum, ← sum_add_distrib]
      exact sum_congr rfl (fun j _ => by ring)

end Proj

section CDiff
variable {K : Type} [Field K]

theorem cdiffEval_eq_mulVec (n : Nat) (hn : 2 ≤ n) (x : V K) (i : Nat) (hi : i < n) :
    cdiffEval (2 : K) n x i = mulVec (cdiffMatrix (2 : K) n) n x i := by
  unfold cdiffEval mulVec cdiffMatrix
  rw [sumTo_eq_sum]
  split
  · simp only [sub_mul, sum_sub_distrib, ite_mul, one_mul, zero_mul]
    rw [sum_ite_eq' (range n) 1, sum_ite_eq' (range n) 0]
    simp [show 1 < n by omega, show 0 < n by omega]
  · split
    · simp only [sub_mul, sum_sub_distrib, ite_mul, one_mul, zero_mul]
      rw [sum_ite_eq' (range n) (n - 1), sum_ite_eq' (range n) (n - 2)]
      simp [show n - 1 < n by omega, show n - 2 < n by omega]
    · simp only [div_mul_eq_mul_div, ← sum_div, sub_mul, sum_sub_distrib, ite_mul, one_mul, zero_mul]
      rw [sum_ite_eq' (range n) (i + 1), sum_ite_eq' (range n) (i - 1)]
      simp [show i + 1 < n by omega, show i - 1 < n by omega]

end CDiff

/-! ### local polar axes -/
section Polar
variable {K : Type} [Field K]

/-- with `(s, c) = (sin θ, cos θ)`, `s² + c² = 1`, the documented local axes `angular = (−c, s)`,
    `radial = (s, c)` form an orthonormal frame: the projected gradient is a rotation of the Cartesian one -/
theorem polar_rotation (s c g0 g1 : K) (h : s * s + c * c = 1) :
    let ang := -c * g0 + s * g1
    let rad := s * g0 + c * g1
    ang * ang + rad * rad = g0 * g0 + g1 * g1 ∧ g0 = -c * ang + s * rad ∧ g1 = s * ang + c * rad := by
  refine ⟨?_, ?_, ?_⟩
  · calc _ = (s * s + c * c) * (g0 * g0 + g1 * g1) := by ring
      _ = _ := by rw [h, one_mul]
  · calc g0 = (s * s + c * c) * g0 := by rw [h, one_mul]
      _ = _ := by ring
  · calc g1 = (s * s + c * c) * g1 := by rw [h, one_mul]
      _ = _ := by ring

/-- with `sin θ = p0/r`, `cos θ = p1/r` (`θ = arctan2(p0, p1)`, `r² = p0² + p1² ≠ 0`) the radial component is the
    derivative along the position vector: `(p0 g0 + p1 g1)/r` -/
theorem polar_radial (p0 p1 r g0 g1 : K) (hr : r ≠ 0) :
    (p0 / r) * g0 + (p1 / r) * g1 = (p0 * g0 + p1 * g1) / r := by
  field_simp

end Polar

end Scico.LinOps
