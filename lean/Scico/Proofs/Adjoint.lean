/-
  Adjoint engine, core lemmas: sums, the pairing `ip`, and the induction over derivation trees
  (every derived operator's `adj` closure is the adjoint of its `eval` closure if this holds for the leaves).

  Scalars: a field `K` with a ring involution (`StarRing K`): `ℝ` (trivial involution) and `ℂ`.
  All statements are for arbitrary sizes and arbitrary (size-erased) vectors.
-/
import Mathlib.Algebra.BigOperators.Group.Finset.Basic
import Mathlib.Algebra.BigOperators.Ring.Finset
import Mathlib.Algebra.Star.BigOperators
import Mathlib.Algebra.Field.Basic
import Mathlib.Tactic.Ring
import Scico.Model.Adjoint

namespace Scico.Adjoint
open Finset

/-- in the proofs conjugation is the involution of the star ring -/
scoped instance (priority := 100) starConj {K : Type} [Star K] : HasConj K := ⟨star⟩

theorem conj_eq_star {K : Type} [Star K] (a : K) : conj a = star a := rfl

section sums
variable {M : Type} [AddCommMonoid M]

theorem sumTo_eq (n : Nat) (f : Nat → M) : sumTo n f = ∑ i ∈ range n, f i := by
  induction n with
  | zero => simp [sumTo]
  | succ n ih => simp [sumTo, ih, Finset.sum_range_succ]

end sums

section field
variable {K : Type} [Field K] [StarRing K]

theorem ip_eq (n : Nat) (u w : V K) : ip n u w = ∑ i ∈ range n, u i * star (w i) := by
  simp [ip, sumTo_eq, conj_eq_star]

omit [StarRing K] in
theorem bp_eq (n : Nat) (u w : V K) : bp n u w = ∑ i ∈ range n, u i * w i := by
  simp [bp, sumTo_eq]

theorem ip_add_left (n : Nat) (u u' w : V K) : ip n (vadd u u') w = ip n u w + ip n u' w := by
  simp [ip_eq, vadd, add_mul, Finset.sum_add_distrib]

theorem ip_add_right (n : Nat) (u w w' : V K) : ip n u (vadd w w') = ip n u w + ip n u w' := by
  simp [ip_eq, vadd, mul_add, Finset.sum_add_distrib]

theorem ip_sub_left (n : Nat) (u u' w : V K) : ip n (vsub u u') w = ip n u w - ip n u' w := by
  simp [ip_eq, vsub, sub_mul, Finset.sum_sub_distrib]

theorem ip_sub_right (n : Nat) (u w w' : V K) : ip n u (vsub w w') = ip n u w - ip n u w' := by
  simp [ip_eq, vsub, mul_sub, Finset.sum_sub_distrib]

theorem ip_smul_left (n : Nat) (c : K) (u w : V K) : ip n (vsmul c u) w = c * ip n u w := by
  simp [ip_eq, vsmul, Finset.mul_sum, mul_assoc]

theorem ip_smul_right (n : Nat) (c : K) (u w : V K) : ip n u (vsmul (star c) w) = c * ip n u w := by
  simp only [ip_eq, vsmul, Finset.mul_sum, star_mul', star_star]
  apply Finset.sum_congr rfl
  intro i _
  ring

theorem ip_conj (n : Nat) (u w : V K) : ip n (vconj u) w = star (ip n u (vconj w)) := by
  simp [ip_eq, vconj, star_sum, conj_eq_star]

theorem ip_conj' (n : Nat) (u w : V K) : ip n u (vconj w) = star (ip n (vconj u) w) := by
  simp [ip_eq, vconj, star_sum, conj_eq_star]

theorem ip_zero_dim (u w : V K) : ip 0 u w = 0 := by simp [ip_eq]

theorem ip_vzero_left (n : Nat) (w : V K) : ip n vzero w = 0 := by simp [ip_eq, vzero]

theorem ip_vzero_right (n : Nat) (u : V K) : ip n u vzero = 0 := by simp [ip_eq, vzero]

theorem ip_vappend_left (a b : Nat) (u u' y : V K) :
    ip (a + b) (vappend a u u') y = ip a u y + ip b u' (vdrop a y) := by
  simp only [ip_eq, Finset.sum_range_add, vappend, vdrop]
  congr 1
  · apply Finset.sum_congr rfl
    intro i hi
    simp [Finset.mem_range.mp hi]
  · apply Finset.sum_congr rfl
    intro i _
    simp

theorem ip_vappend_right (a b : Nat) (x v v' : V K) :
    ip (a + b) x (vappend a v v') = ip a x v + ip b (vdrop a x) v' := by
  simp only [ip_eq, Finset.sum_range_add, vappend, vdrop]
  congr 1
  · apply Finset.sum_congr rfl
    intro i hi
    simp [Finset.mem_range.mp hi]
  · apply Finset.sum_congr rfl
    intro i _
    simp

/-- the pairing only reads the first `n` entries -/
theorem ip_congr (n : Nat) {u u' w w' : V K} (hu : ∀ i < n, u i = u' i) (hw : ∀ i < n, w i = w' i) :
    ip n u w = ip n u' w' := by
  simp only [ip_eq]
  apply Finset.sum_congr rfl
  intro i hi
  rw [hu i (Finset.mem_range.mp hi), hw i (Finset.mem_range.mp hi)]

/-! ### the adjoint identity, relative to a test functional `ρ`

`ρ = id` gives the complex identity `⟪Ax,y⟫ = ⟪x,A^H y⟫`; `ρ z = z + star z` (= `2 Re z` on `ℂ`) gives the
real-inner-product identity used for operators from a real into a complex space. -/

/-- what is needed of the test functional -/
structure Test (ρ : K → K) : Prop where
  add : ∀ a b, ρ (a + b) = ρ a + ρ b
  star : ∀ a, ρ (star a) = star (ρ a)

/-- a scalar that can be pulled out of `ρ` (every scalar for `ρ = id`; the self-adjoint = real ones for `2 Re`) -/
def ScalOK (ρ : K → K) (c : K) : Prop := ∀ z, ρ (c * z) = c * ρ z

def IsAdjW (ρ : K → K) (A : Op K) : Prop :=
  ∀ x y, ρ (ip A.nout (A.eval x) y) = ρ (ip A.nin x (A.adj y))

/-- the adjoint identity of property C01 -/
def IsAdj (A : Op K) : Prop := ∀ x y, ip A.nout (A.eval x) y = ip A.nin x (A.adj y)

/-- the identity in the real inner product `Re⟪·,·⟫` (stated as `z + star z`, i.e. `2 Re z`) -/
def reTest (z : K) : K := z + star z

def IsAdjRe (A : Op K) : Prop := IsAdjW reTest A

theorem isAdj_iff (A : Op K) : IsAdj A ↔ IsAdjW id A := Iff.rfl

theorem test_id : Test (id : K → K) := ⟨fun _ _ => rfl, fun _ => rfl⟩

theorem test_re : Test (reTest : K → K) :=
  ⟨fun a b => by simp [reTest, star_add]; ring, fun a => by simp [reTest, star_add, add_comm]⟩

omit [StarRing K] in
theorem scalOK_id (c : K) : ScalOK id c := fun _ => rfl

theorem scalOK_re {c : K} (hc : star c = c) : ScalOK reTest c := by
  intro z
  simp [reTest, star_mul', hc, mul_add]

namespace Test
variable {ρ : K → K} (h : Test ρ)
include h

theorem zero : ρ 0 = 0 := by
  have := h.add 0 0
  simp at this
  exact this

theorem neg (a : K) : ρ (-a) = -ρ a := by
  have := h.add a (-a)
  rw [add_neg_cancel, h.zero] at this
  exact (neg_eq_of_add_eq_zero_right this.symm).symm

theorem sub (a b : K) : ρ (a - b) = ρ a - ρ b := by
  rw [sub_eq_add_neg, h.add, h.neg, ← sub_eq_add_neg]

theorem sum (s : Finset Nat) (f : Nat → K) : ρ (∑ i ∈ s, f i) = ∑ i ∈ s, ρ (f i) := by
  classical
  induction s using Finset.induction_on with
  | empty => simp [h.zero]
  | insert a s ha ih => rw [Finset.sum_insert ha, Finset.sum_insert ha, h.add, ih]

theorem scal_neg_one : ScalOK ρ (-1) := by
  intro z
  simp [h.neg]

end Test

/-! ### one lemma per construction of `_linop.py` / `_stack.py` -/

section constructions
variable {ρ : K → K} (hρ : Test ρ)
include hρ

theorem add_isAdjW {A B : Op K} (hA : IsAdjW ρ A) (hB : IsAdjW ρ B) (hi : A.nin = B.nin) (ho : A.nout = B.nout) :
    IsAdjW ρ (Op.add A B) := by
  intro x y
  simp only [Op.add, ip_add_left, ip_add_right, hρ.add]
  rw [hA x y, ho, hi, hB x y]

theorem sub_isAdjW {A B : Op K} (hA : IsAdjW ρ A) (hB : IsAdjW ρ B) (hi : A.nin = B.nin) (ho : A.nout = B.nout) :
    IsAdjW ρ (Op.sub A B) := by
  intro x y
  simp only [Op.sub, ip_sub_left, ip_sub_right, hρ.sub]
  rw [hA x y, ho, hi, hB x y]

omit hρ in
/-- scalar multiples: NO condition on the scalar (the code applies `conj c` before the operand's adjoint, so the
    scalar never has to be pulled out of the test functional) -/
theorem smul_isAdjW {A : Op K} (hA : IsAdjW ρ A) (c : K) : IsAdjW ρ (Op.smul c A) := by
  intro x y
  simp only [Op.smul, conj_eq_star]
  rw [← hA x (vsmul (star c) y), ip_smul_left, ip_smul_right]

omit hρ in
theorem neg_isAdjW {A : Op K} (hA : IsAdjW ρ A) : IsAdjW ρ (Op.neg A) :=
  smul_isAdjW hA (-1)

omit hρ in
theorem sdiv_eq_smul (c : K) (A : Op K) : Op.sdiv c A = Op.smul c⁻¹ A := by
  have e : ∀ y : V K, vsdiv y (conj c) = vsmul (conj c⁻¹) y := by
    intro y; funext i; simp [vsdiv, vsmul, conj_eq_star, star_inv₀, div_eq_inv_mul]
  unfold Op.sdiv Op.smul
  congr 1
  · funext x i; simp [vsdiv, vsmul, div_eq_inv_mul]
  · funext y; rw [e]

omit hρ in
theorem sdiv_isAdjW {A : Op K} (hA : IsAdjW ρ A) (c : K) : IsAdjW ρ (Op.sdiv c A) := by
  rw [sdiv_eq_smul]
  exact smul_isAdjW hA _

omit hρ in
theorem comp_isAdjW {A B : Op K} (hA : IsAdjW ρ A) (hB : IsAdjW ρ B) (h : A.nin = B.nout) :
    IsAdjW ρ (Op.comp A B) := by
  intro x y
  simp only [Op.comp]
  rw [hA (B.eval x) y, h, hB x (A.adj y)]

theorem herm_isAdjW {A : Op K} (hA : IsAdjW ρ A) : IsAdjW ρ (Op.herm A) := by
  intro y x
  simp only [Op.herm]
  -- ⟪A^H y, x⟫ = star ⟪x, A^H y⟫ = star ⟪A x, y⟫ = ⟪y, A x⟫
  have e1 : ip A.nin (A.adj y) x = star (ip A.nin x (A.adj y)) := by
    simp [ip_eq, star_sum, mul_comm]
  have e2 : ip A.nout y (A.eval x) = star (ip A.nout (A.eval x) y) := by
    simp [ip_eq, star_sum, mul_comm]
  rw [e1, e2, hρ.star, hρ.star, hA x y]

theorem cj_isAdjW {A : Op K} (hA : IsAdjW ρ A) : IsAdjW ρ (Op.cj A) := by
  intro x y
  simp only [Op.cj]
  rw [ip_conj, ip_conj' A.nin x, hρ.star, hρ.star, hA (vconj x) (vconj y)]

theorem tr_isAdjW {A : Op K} (hA : IsAdjW ρ A) (c : Bool) : IsAdjW ρ (Op.tr c A) := by
  cases c with
  | false => simpa [Op.tr] using herm_isAdjW hρ hA
  | true =>
    have h := herm_isAdjW hρ (cj_isAdjW hρ hA)
    intro x y
    have := h x y
    simpa [Op.tr, Op.herm, Op.cj] using this

theorem gram_isAdjW {A : Op K} (hA : IsAdjW ρ A) : IsAdjW ρ (Op.gram A) := by
  intro x y
  simp only [Op.gram]
  -- ⟪A^H A x, y⟫ = ⟪A x, A y⟫ = ⟪x, A^H A y⟫   (the first step is the identity of `A.H`)
  have h2 := herm_isAdjW hρ hA (A.eval x) y
  simp only [Op.herm] at h2
  rw [h2, hA x (A.eval y)]

omit hρ in
theorem vnil_isAdjW (n : Nat) : IsAdjW ρ (Op.vnil n : Op K) := by
  intro x y
  simp [Op.vnil, ip_zero_dim, ip_vzero_right]

omit hρ in
theorem dnil_isAdjW : IsAdjW ρ (Op.dnil : Op K) := by
  intro x y
  simp [Op.dnil, ip_zero_dim]

theorem vcons_isAdjW {A S : Op K} (hA : IsAdjW ρ A) (hS : IsAdjW ρ S) (h : A.nin = S.nin) :
    IsAdjW ρ (Op.vcons A S) := by
  intro x y
  simp only [Op.vcons, ip_vappend_left, ip_add_right, hρ.add]
  rw [hA x y, hS x (vdrop A.nout y), h]

theorem dcons_isAdjW {A S : Op K} (hA : IsAdjW ρ A) (hS : IsAdjW ρ S) : IsAdjW ρ (Op.dcons A S) := by
  intro x y
  simp only [Op.dcons, ip_vappend_left, ip_vappend_right, hρ.add]
  rw [hA x y, hS (vdrop A.nin x) (vdrop A.nout y)]

end constructions

end field

end Scico.Adjoint
