/-
  Broadcast index calculus used by `Diagonal`: a shape broadcast against itself is itself and the
  broadcast index map is then the identity.
-/
import Scico.Model.OpAlg

namespace Scico.OpAlg

theorem prodL_nil : prodL [] = 1 := rfl
theorem prodL_cons (a : Nat) (l : List Nat) : prodL (a :: l) = a * prodL l := rfl

theorem prodL_append (l1 l2 : List Nat) : prodL (l1 ++ l2) = prodL l1 * prodL l2 := by
  induction l1 with
  | nil => simp [prodL_nil]
  | cons a l ih => simp only [List.cons_append, prodL_cons, ih, Nat.mul_assoc]

theorem prodL_reverse (l : List Nat) : prodL l.reverse = prodL l := by
  induction l with
  | nil => rfl
  | cons a l ih =>
    rw [List.reverse_cons, prodL_append, ih, prodL_cons, prodL_cons, prodL_nil, Nat.mul_one,
      Nat.mul_comm]

theorem bshapeRev_self (l : List Nat) : bshapeRev l l = some l := by
  induction l with
  | nil => rfl
  | cons a l ih => simp [bshapeRev, ih]

theorem bshape_self (l : List Nat) : bshape l l = some l := by
  simp [bshape, bshapeRev_self]

theorem bidxRev_self (l : List Nat) : ∀ k, k < prodL l → bidxRev l l k = k := by
  induction l with
  | nil => intro k hk; simp [prodL_nil] at hk; subst hk; rfl
  | cons a l ih =>
    intro k hk
    rw [prodL_cons] at hk
    have ha : 0 < a := by
      rcases Nat.eq_zero_or_pos a with h | h
      · subst h; simp at hk
      · exact h
    have hdiv : k / a < prodL l := by
      rw [Nat.div_lt_iff_lt_mul ha, Nat.mul_comm]; exact hk
    simp only [bidxRev]
    rw [ih _ hdiv]
    by_cases h1 : a = 1
    · subst h1; simp
    · simp only [h1, if_false]
      exact Nat.mod_add_div k a

theorem bidx_self (l : List Nat) (k : Nat) (hk : k < prodL l) : bidx l l k = k := by
  unfold bidx
  exact bidxRev_self _ k (by rw [prodL_reverse]; exact hk)

theorem bidxBlocks_self (bs : List (List Nat)) :
    ∀ k, k < (bs.map prodL).foldr (· + ·) 0 → bidxBlocks bs bs k = k := by
  induction bs with
  | nil => intro k hk; simp at hk
  | cons b bs ih =>
    intro k hk
    simp only [List.map_cons, List.foldr_cons] at hk
    simp only [bidxBlocks]
    by_cases h : k < prodL b
    · simp only [h, if_true]; exact bidx_self b k h
    · simp only [h, if_false]
      rw [ih (k - prodL b) (by omega)]
      omega

theorem bidxS_self (sh : Shape) (k : Nat) (hk : k < sh.size) : bidxS sh sh k = k := by
  cases sh with
  | plain d => exact bidx_self d k hk
  | nested bs => exact bidxBlocks_self bs k hk

theorem zipWith_bshape_self (bs : List (List Nat)) :
    List.zipWith bshape bs bs = bs.map some := by
  induction bs with
  | nil => rfl
  | cons b bs ih => simp [List.zipWith, bshape_self, ih]

theorem bshapeS_self (sh : Shape) : bshapeS sh sh = .ok sh := by
  cases sh with
  | plain d => simp [bshapeS, bshape_self]
  | nested bs =>
    simp only [bshapeS, zipWith_bshape_self]
    have h1 : (bs.map some).all Option.isSome = true := by
      induction bs with
      | nil => rfl
      | cons b bs ih => simp [List.all_cons]
    have h2 : (bs.map some).filterMap id = bs := by
      induction bs with
      | nil => rfl
      | cons b bs ih => simp [List.filterMap_cons, ih]
    simp [h1, h2]

end Scico.OpAlg
