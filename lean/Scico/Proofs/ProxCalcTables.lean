/-
  Round 4: checker for the tables that `harness/proxcalc_translate.py` extracts from the scico source with `ast`
  (`lean/Scico/Generated/ProxCalcTables.lean`, rewritten on every run).  The generated module states `decide`-able
  obligations "extracted table = what the hand-written model assumes":

  * the capability-flag logic of every wrapper constructor and loss class, as a tiny statement language
    (`Stmt`: assignments to `has_eval` / `has_prox`, `if`, `try … except: pass`, `super().__init__`) that is *executed*
    on every valuation of its atoms and compared with the model's `hasEval` / `hasProx` / `scaledHasProxOf` /
    `lossClsFlags`;
  * the call sites that forward `**kwargs` and the argument expressions they pass (`kwPlan`, `prox`);
  * constructor defaults the model / harness rely on; the functions of `scico.metric` with the reductions they call;
    the exception classes raised by the modelled argument checks.
  Mathlib-free (core `decide` only).
-/
import Scico.Model.ProxCalc

namespace Scico.ProxCalc.Tables
open Scico Scico.FuncEval Scico.ProxCalc

/-- atomic conditions the constructors test -/
inductive Atom where
  | innerEval | innerProx          -- `functional.has_eval`, `functional.has_prox` (ScaledFunctional)
  | allEval | allProx              -- `all(fi.has_eval …)`, `all(fi.has_prox …)` (SeparableFunctional)
  | f1Eval | f2Eval                -- FunctionalSum
  | scaleReal | scalePos | tracer  -- `snp.isrealobj(scale)`, `bool(scale > 0)` (raises for a tracer)
  | fGiven | fEval | fProx         -- `self.f is not None`, `bool(self.f.has_eval)`, `self.f.has_prox`
  | aIdentity | aLinear            -- `isinstance(self.A, linop.Identity | linop.LinearOperator)`
  | yNonneg                        -- `snp.all(y >= 0)`
  | callOverridden                 -- `type(self).__call__ is not Loss.__call__`
  deriving DecidableEq, Repr

abbrev Val := Atom → Bool

/-- boolean expressions of the constructors (python `and` / `or` short-circuit; `none` = an exception) -/
inductive BExp where
  | tt | ff
  | atom (a : Atom)
  | and (a b : BExp) | or (a b : BExp) | not (a : BExp)
  | unknown (src : String)         -- an expression the translator does not know: never equal to the model
  deriving Repr

def BExp.eval (v : Val) : BExp → Option Bool
  | .tt => some true
  | .ff => some false
  | .atom .scalePos => if v .tracer then none else some (v .scalePos)   -- `bool(tracer)` raises
  | .atom a => some (v a)
  | .and a b => match a.eval v with
    | some true => b.eval v
    | r => r
  | .or a b => match a.eval v with
    | some false => b.eval v
    | r => r
  | .not a => (a.eval v).map (!·)
  | .unknown _ => none

inductive Flag where | hasEval | hasProx deriving DecidableEq, Repr

/-- `(has_eval, has_prox)`; `none` = not assigned (the class attribute `None` of `Functional`) -/
abbrev St := Option Bool × Option Bool

def St.set (s : St) : Flag → Bool → St
  | .hasEval, b => (some b, s.2)
  | .hasProx, b => (s.1, some b)

inductive Stmt where
  | assign (f : Flag) (e : BExp)
  | ite (c : BExp) (t e : List Stmt)
  | tryPass (body : List Stmt)               -- `try: body  except Exception: pass`
  | superLoss (overrides : Bool)             -- `super().__init__(y=y, A=A, scale=scale)` of a Loss subclass (`f=None`)
  deriving Repr

mutual
/-- run a constructor body; `none` = an exception escapes -/
def exec (lossInit : List Stmt) (v : Val) : Nat → List Stmt → St → Option St
  | 0, _, _ => none
  | _ + 1, [], s => some s
  | n + 1, st :: rest, s => match execOne lossInit v n st s with
    | some s' => exec lossInit v n rest s'
    | none => none
def execOne (lossInit : List Stmt) (v : Val) : Nat → Stmt → St → Option St
  | 0, _, _ => none
  | _ + 1, .assign f e, s => (e.eval v).map (s.set f)
  | n + 1, .ite c t e, s => match c.eval v with
    | some true => exec lossInit v n t s
    | some false => exec lossInit v n e s
    | none => none
  | n + 1, .tryPass body, s => match exec lossInit v n body s with
    | some s' => some s'
    | none => some s                          -- assignments made before the exception are kept by python, see note
  | n + 1, .superLoss ov, s =>
    exec lossInit (fun a => if a = .fGiven then false else if a = .callOverridden then ov else v a) n lossInit s
end

/-- all valuations of the listed atoms (the others false) -/
def valsOn : List Atom → List Val
  | [] => [fun _ => false]
  | a :: as => (valsOn as).flatMap (fun v => [v, fun b => if b = a then true else v b])

/-- `valsOn` enumerates **every** valuation of the listed atoms: any valuation that is false outside the list agrees
    everywhere with a member of the enumeration (so a `checkFlags … = true` obligation covers all cases) -/
theorem valsOn_complete : ∀ (atoms : List Atom) (v : Val), (∀ a, a ∉ atoms → v a = false) →
    ∃ w ∈ valsOn atoms, ∀ a, w a = v a
  | [], v, h => ⟨fun _ => false, by simp [valsOn], fun a => (h a (by simp)).symm⟩
  | a :: as, v, h => by
    -- the valuation with `a` switched off (unless it occurs again in `as`) is covered by the induction hypothesis
    let v' : Val := fun b => if b = a ∧ a ∉ as then false else v b
    have hv' : ∀ b, b ∉ as → v' b = false := by
      intro b hb
      by_cases hba : b = a
      · subst hba; simp [v', hb]
      · have : b ∉ a :: as := by simp [hba, hb]
        simp [v', hba, h b this]
    obtain ⟨w, hw, hwv⟩ := valsOn_complete as v' hv'
    by_cases hva : v a = true
    · refine ⟨fun b => if b = a then true else w b, ?_, ?_⟩
      · simp only [valsOn, List.mem_flatMap]
        exact ⟨w, hw, by simp⟩
      · intro b
        by_cases hba : b = a
        · subst hba; simp [hva]
        · simp [hba, hwv b, v']
    · refine ⟨w, ?_, ?_⟩
      · simp only [valsOn, List.mem_flatMap]
        exact ⟨w, hw, by simp⟩
      · intro b
        rw [hwv b]
        by_cases hba : b = a
        · subst hba
          have : v b = false := by simpa using hva
          simp [v', this]
        · simp [v', hba]

def fuel : Nat := 64

def run (lossInit body : List Stmt) (v : Val) : Option St := exec lossInit v fuel body (none, none)

/-! ### what the model assumes -/

def scaleKindOf (v : Val) : ScaleKind :=
  if v .scaleReal then (if v .tracer then .tracedReal else if v .scalePos then .posReal else .nonposReal)
  else (if v .tracer then .tracedComplex else .complex)

/-- `ScaledFunctional.__init__` against `scaledHasProxOf` (and `hasEval (.scaled c f) = hasEval f`) -/
def expectScaled (v : Val) : Option St := some (some (v .innerEval), some (scaledHasProxOf (v .innerProx) (scaleKindOf v)))

def expectSep (v : Val) : Option St := some (some (v .allEval), some (v .allProx))
def expectSum (v : Val) : Option St := some (some (v .f1Eval && v .f2Eval), some false)

/-- a two-leaf environment carrying the flags of `self.f` -/
def envOf (v : Val) : Env Nat where
  hasEval := fun _ => v .fEval
  hasProx := fun _ => v .fProx
  eval := fun _ _ => 0
  prox := fun _ x _ => x
  opEval := fun _ x => x
  solve := fun _ _ _ _ x => x
  cplx := false

/-- generic `Loss.__init__` against the model's `hasEval` / `hasProx` of `Fn.loss` / `Fn.lossNone`
    (`A = none` is the Identity; for `f = None` a derived class that overrides `__call__` can be evaluated) -/
def expectLoss (v : Val) : Option St :=
  let A : Option Nat := if v .aIdentity then none else some 0
  if v .fGiven then some (some (hasEval (envOf v) (.loss (.arr []) A (.leaf 0) 1)), some (hasProx (envOf v) (.loss (.arr []) A (.leaf 0) 1)))
  else some (some (v .callOverridden || hasEval (envOf v) (.lossNone (.arr []) A 1)), some (hasProx (envOf v) (.lossNone (.arr []) A 1)))

def opClsOf (v : Val) : OpCls :=
  if v .aIdentity then .identity else if v .aLinear then .linear else .nonlinear

/-- derived loss classes against `lossClsFlags` (valuations respecting `Identity ⊂ LinearOperator`) -/
def expectCls (c : LossCls) (v : Val) : Option St :=
  let fl := lossClsFlags c (opClsOf v) (v .yNonneg)
  some (some fl.1, some fl.2)

def consistent (v : Val) : Bool := !(v .aIdentity) || v .aLinear

def checkFlags (lossInit body : List Stmt) (atoms : List Atom) (expect : Val → Option St) : Bool :=
  (valsOn atoms).all (fun v => !consistent v || run lossInit body v == expect v)

/-- meaning of a discharged flag obligation: on every consistent valuation of the tested conditions the constructor body
    computes the flags the model assumes -/
theorem checkFlags_sound (lossInit body : List Stmt) (atoms : List Atom) (expect : Val → Option St)
    (h : checkFlags lossInit body atoms expect = true) :
    ∀ w ∈ valsOn atoms, consistent w = true → run lossInit body w = expect w := by
  intro w hw hc
  have := List.all_eq_true.mp h w hw
  simp only [hc, Bool.not_true, Bool.false_or, beq_iff_eq] at this
  exact this

/-! ### call sites, defaults, metric functions, exceptions: plain tables -/

/-- a call `callee(args…, **kwargs?)` found in a method -/
structure CallSite where
  method : String
  callee : String
  args : List String
  kwargs : Bool
  deriving DecidableEq, Repr

/-- the forwarding sites the model (`prox`, `conjProx`, `kwPlan`) transcribes -/
def expectedCalls : List CallSite :=
  [⟨"Functional.conj_prox", "self.prox", ["v / lam", "1.0 / lam"], true⟩,
   ⟨"ScaledFunctional.prox", "self.functional.prox", ["v", "lam * self.scale"], true⟩,
   ⟨"SeparableFunctional.prox", "fi.prox", ["vi", "lam"], true⟩,
   ⟨"Loss.prox", "self.f.prox", ["v - self.y", "self.scale * lam"], true⟩,
   ⟨"SquaredL2Loss.prox", "cg", ["lhs", "rhs", "x0"], true⟩]

/-- defaults the model / harness assume: `(qualified function, parameter, default as source text)` -/
def expectedDefaults : List (String × String × String) :=
  [("Loss.__init__", "scale", "1.0"), ("Loss.__init__", "A", "None"), ("Loss.__init__", "f", "None"),
   ("SquaredL2Loss.__init__", "scale", "0.5"), ("SquaredL2Loss.__init__", "W", "None"), ("SquaredL2Loss.__init__", "prox_kwargs", "None"),
   ("SquaredL2Loss.default_prox_kwargs", "maxiter", "100"), ("SquaredL2Loss.default_prox_kwargs", "tol", "1e-05"),
   ("SquaredL2AbsLoss.__init__", "scale", "0.5"), ("SquaredL2SquaredAbsLoss.__init__", "scale", "0.5"), ("PoissonLoss.__init__", "scale", "0.5"),
   ("Functional.prox", "lam", "1.0"), ("Functional.conj_prox", "lam", "1.0"), ("ScaledFunctional.prox", "lam", "1.0"),
   ("SeparableFunctional.prox", "lam", "1.0"), ("Loss.prox", "lam", "1"), ("SquaredL2Loss.prox", "lam", "1.0"),
   ("L21Norm.__init__", "l2_axis", "0"), ("HuberNorm.__init__", "delta", "1.0"), ("HuberNorm.__init__", "separable", "True"),
   ("L1MinusL2Norm.__init__", "beta", "1.0"), ("L2BallIndicator.__init__", "radius", "1"),
   ("TVNorm.__init__", "circular", "True"), ("TVNorm.__init__", "axes", "None"),
   ("ProximalAverage.__init__", "alpha_list", "None"), ("ProximalAverage.__init__", "no_inf_eval", "True"),
   ("metric.psnr", "signal_range", "None")]

/-- public functions of `scico.metric` with the `snp.*` / builtin reductions they call (sorted) -/
def expectedMetrics : List (String × List String) :=
  [("mae", ["_flatten", "snp.abs", "snp.mean"]), ("mse", ["_flatten", "snp.abs", "snp.mean"]),
   ("snr", ["_flatten", "mse", "snp.log10", "snp.var"]),
   ("psnr", ["_flatten", "mse", "snp.abs", "snp.log10", "snp.max", "snp.min"]),
   ("isnr", ["mse", "snp.log10"]), ("bsnr", ["_flatten", "snp.log10", "snp.var"]),
   ("rel_res", ["max", "snp.linalg.norm"])]

/-- exception classes raised by the argument checks the model transcribes, in source order -/
def expectedRaises : List (String × List String) :=
  [("Functional.__call__", ["NotImplementedError"]), ("Functional.prox", ["NotImplementedError"]),
   ("SeparableFunctional.__call__", ["ValueError"]), ("SeparableFunctional.prox", ["ValueError"]),
   ("Loss.__call__", ["NotImplementedError"]), ("Loss.prox", ["NotImplementedError"]),
   ("SquaredL2Loss.__init__", ["ValueError", "TypeError"]), ("SquaredL2Loss.prox", ["NotImplementedError"]),
   ("SquaredL2Loss.hessian", ["NotImplementedError"]),
   ("SquaredL2AbsLoss.__init__", ["ValueError", "TypeError"]), ("SquaredL2AbsLoss.prox", ["NotImplementedError"]),
   ("SquaredL2SquaredAbsLoss.__init__", ["ValueError", "TypeError"]), ("SquaredL2SquaredAbsLoss.prox", ["NotImplementedError"]),
   ("L21Norm.__call__", ["ValueError"]), ("NuclearNorm.__call__", ["ValueError"]),
   ("ProximalAverage.__init__", ["ValueError", "ValueError"]), ("ProximalAverage.__call__", ["ValueError"])]

/-- every expected entry occurs in the extracted table -/
def subsetOf {β : Type} [DecidableEq β] (expected got : List β) : Bool := expected.all (fun e => got.contains e)

/-- the wrapper classes whose `prox` the model gives a rule for are exactly the classes of `_functional.py` / `loss.py`
    that define `prox` (a new wrapper class with its own `prox` would be outside the model) -/
def expectedProxClasses : List String :=
  ["Functional", "ScaledFunctional", "SeparableFunctional", "ZeroFunctional", "Loss", "SquaredL2Loss", "SquaredL2AbsLoss",
   "SquaredL2SquaredAbsLoss"]

/-- classes of `loss.py` deriving from `Loss` (the model's `LossCls`) -/
def expectedLossClasses : List String := ["SquaredL2Loss", "PoissonLoss", "SquaredL2AbsLoss", "SquaredL2SquaredAbsLoss"]

/-- `return` expressions of the evaluation methods (and of the wrapper / loss / runnable leaf `prox` methods) the model
    transcribes, as source text (`ast.unparse`): `eval`, `prox`, `conjProx` of `Model/ProxCalc`, the formulas of `Model/FuncEval`,
    the metrics.  (Proximal maps of the other base functionals belong to property C02.) -/
def expectedReturns : List (String × List String) :=
  [("Functional.conj_prox", ["v - lam * self.prox(v / lam, 1.0 / lam, **kwargs)"]),
   ("ScaledFunctional.__call__", ["self.scale * self.functional(x)"]),
   ("ScaledFunctional.prox", ["self.functional.prox(v, lam * self.scale, **kwargs)"]),
   ("SeparableFunctional.__call__", ["snp.sum(snp.array([fi(xi) for fi, xi in zip(self.functional_list, x)]))"]),
   ("SeparableFunctional.prox", ["snp.blockarray([fi.prox(vi, lam, **kwargs) for fi, vi in zip(self.functional_list, v)])"]),
   ("FunctionalSum.__call__", ["self.functional1(x) + self.functional2(x)"]),
   ("ZeroFunctional.__call__", ["0.0"]),
   ("ZeroFunctional.prox", ["v"]),
   ("Loss.__call__", ["self.scale * self.f(self.A(x) - self.y)"]),
   ("Loss.prox", ["self.f.prox(v - self.y, self.scale * lam, **kwargs) + self.y"]),
   ("SquaredL2Loss.__call__", ["self.scale * snp.sum(self.W.diagonal * snp.abs(self.y - self.A(x)) ** 2)"]),
   ("SquaredL2Loss.prox", ["lhs / (ATWA + 1.0)", "x"]),
   ("PoissonLoss.__call__", ["self.scale * snp.sum(Ax - self.y * snp.log(Ax) + self.const)"]),
   ("SquaredL2AbsLoss.__call__", ["self.scale * snp.sum(self.W.diagonal * snp.abs(self.y - snp.abs(self.A(x))) ** 2)"]),
   ("SquaredL2SquaredAbsLoss.__call__", ["self.scale * snp.sum(self.W.diagonal * snp.abs(self.y - snp.abs(self.A(x)) ** 2) ** 2)"]),
   ("L0Norm.__call__", ["count_nonzero(x)"]),
   ("L1Norm.__call__", ["snp.sum(snp.abs(x))"]),
   ("SquaredL2Norm.__call__", ["snp.sum(snp.abs(x) ** 2)"]),
   ("SquaredL2Norm.prox", ["v / (1.0 + 2.0 * lam)"]),
   ("L2Norm.__call__", ["norm(x)"]),
   ("L2Norm.prox", ["snp.where(norm_v == 0, 0 * v, snp.maximum(1 - lam / norm_v, 0) * v)"]),
   ("L21Norm._l2norm", ["snp.where(nz, snp.sqrt(snp.where(nz, l2sq, 1.0)), 0.0)"]),
   ("L21Norm.__call__", ["snp.sum(snp.abs(l2))"]),
   ("L1MinusL2Norm.__call__", ["snp.sum(snp.abs(x)) - self.beta * norm(x)"]),
   ("HuberNorm._call_sep", ["snp.sum(hx)"]),
   ("HuberNorm._call_nonsep", ["lax.cond(snp.sqrt(xl2sq) <= self.delta, self._call_lt_branch, self._call_gt_branch, xl2sq, snp.asarray(self.delta, dtype=xl2sq.dtype))"]),
   ("HuberNorm.__call__", ["self._call(x)"]),
   ("NuclearNorm.__call__", ["snp.sum(snp.linalg.svd(x, full_matrices=False, compute_uv=False))"]),
   ("NonNegativeIndicator.__call__", ["jax.lax.cond(snp.any(x < 0), lambda x: snp.inf, lambda x: 0.0, None)"]),
   ("NonNegativeIndicator.prox", ["snp.maximum(v, 0)"]),
   ("L2BallIndicator.__call__", ["jax.lax.cond(norm(x) > self.radius, lambda x: snp.inf, lambda x: 0.0, None)"]),
   ("SetDistance.__call__", ["snp.where(nz, snp.sqrt(snp.where(nz, dsq, 1.0)), 0.0)"]),
   ("SquaredSetDistance.__call__", ["0.5 * snp.sum(snp.abs(x - y) ** 2)"]),
   ("TVNorm.__call__", ["self.norm(self.G @ x)"]),
   ("ProximalAverage.__call__", ["sum(weight_func_vals)"]),
   ("ProximalAverage.prox", ["sum([alpha * f.prox(v, lam, **kwargs) for alpha, f in zip(self.alpha_list, self.func_list)])"]),
   ("metric.mae", ["snp.mean(snp.abs(_flatten(reference - comparison)))"]),
   ("metric.mse", ["snp.mean(snp.abs(_flatten(reference - comparison)) ** 2)"]),
   ("metric.snr", ["10.0 * snp.log10(rt)"]),
   ("metric.psnr", ["10.0 * snp.log10(rt)"]),
   ("metric.isnr", ["10.0 * snp.log10(rt)"]),
   ("metric.bsnr", ["10.0 * snp.log10(rt)"]),
   ("metric.rel_res", ["0.0", "snp.linalg.norm((b - ax).ravel()) / nrm"])]

/-- local formulas of `SquaredL2Loss.prox` (both branches) and of `hessian` (`sqL2DiagProx`, `sqL2Lhs`, `sqL2Rhs`, `sqL2X0`) -/
def expectedAssigns : List (String × String × String) :=
  [("SquaredL2Loss.prox", "c", "2.0 * self.scale * lam"),
   ("SquaredL2Loss.prox", "A", "self.A.diagonal"),
   ("SquaredL2Loss.prox", "W", "self.W.diagonal"),
   ("SquaredL2Loss.prox", "lhs", "c * A.conj() * W * self.y + v"),
   ("SquaredL2Loss.prox", "ATWA", "c * A.conj() * W * A"),
   ("SquaredL2Loss.prox", "W", "self.W"),
   ("SquaredL2Loss.prox", "A", "self.A"),
   ("SquaredL2Loss.prox", "α", "self.scale"),
   ("SquaredL2Loss.prox", "y", "self.y"),
   ("SquaredL2Loss.prox", "x0", "kwargs['x0']"),
   ("SquaredL2Loss.prox", "x0", "snp.zeros_like(v)"),
   ("SquaredL2Loss.prox", "hessian", "self.hessian"),
   ("SquaredL2Loss.prox", "lhs", "linop.Identity(v.shape) + lam * hessian"),
   ("SquaredL2Loss.prox", "rhs", "v + 2 * lam * α * A.adj(W(y))"),
   ("SquaredL2Loss.hessian", "A", "self.A"),
   ("SquaredL2Loss.hessian", "W", "self.W"),
   ("SquaredL2Loss.hessian", "eval_fn", "lambda x: 2 * self.scale * A.adj(W(A(x)))"),
   ("SquaredL2Loss.hessian", "adj_fn", "lambda x: 2 * self.scale * A.adj(W(A(x)))")]

/-- decorator lists of the evaluation / prox methods, as in the source -/
def expectedDecorators : List (String × List String) :=
  [("Functional.__call__", []),
   ("Functional.prox", []),
   ("Functional.conj_prox", []),
   ("ScaledFunctional.__call__", []),
   ("ScaledFunctional.prox", []),
   ("SeparableFunctional.__call__", []),
   ("SeparableFunctional.prox", []),
   ("FunctionalSum.__call__", []),
   ("ZeroFunctional.__call__", []),
   ("ZeroFunctional.prox", []),
   ("Loss.__call__", []),
   ("Loss.prox", []),
   ("SquaredL2Loss.__call__", []),
   ("SquaredL2Loss.prox", []),
   ("PoissonLoss.__call__", []),
   ("SquaredL2AbsLoss.__call__", []),
   ("SquaredL2AbsLoss.prox", []),
   ("SquaredL2SquaredAbsLoss.__call__", []),
   ("SquaredL2SquaredAbsLoss.prox", []),
   ("L0Norm.__call__", []),
   ("L0Norm.prox", ["staticmethod", "jit"]),
   ("L1Norm.__call__", []),
   ("L1Norm.prox", ["staticmethod"]),
   ("SquaredL2Norm.__call__", []),
   ("SquaredL2Norm.prox", []),
   ("L2Norm.__call__", []),
   ("L2Norm.prox", []),
   ("L21Norm.__call__", []),
   ("L21Norm.prox", []),
   ("L1MinusL2Norm.__call__", []),
   ("L1MinusL2Norm._prox_vamx_ge_thresh", ["staticmethod"]),
   ("L1MinusL2Norm._prox_vamx_le_alpha", ["staticmethod"]),
   ("L1MinusL2Norm._prox_vamx_gt_alpha", ["staticmethod"]),
   ("L1MinusL2Norm._prox_vamx_gt_0", ["staticmethod"]),
   ("L1MinusL2Norm.prox", []),
   ("HuberNorm._call_sep", []),
   ("HuberNorm._call_nonsep", []),
   ("HuberNorm.__call__", []),
   ("HuberNorm._prox_sep", []),
   ("HuberNorm._prox_nonsep", []),
   ("HuberNorm.prox", []),
   ("NuclearNorm.__call__", []),
   ("NuclearNorm.prox", []),
   ("NonNegativeIndicator.__call__", []),
   ("NonNegativeIndicator.prox", []),
   ("L2BallIndicator.__call__", []),
   ("L2BallIndicator.prox", []),
   ("SetDistance.__call__", []),
   ("SetDistance.prox", []),
   ("SquaredSetDistance.__call__", []),
   ("SquaredSetDistance.prox", []),
   ("TVNorm._call_operator", []),
   ("TVNorm.__call__", []),
   ("TVNorm._prox_operators", []),
   ("TVNorm._prox_core", ["staticmethod", "partial(jax.jit, static_argnums=(0, 1, 2, 4))"]),
   ("TVNorm.prox", []),
   ("ProximalAverage.__call__", []),
   ("ProximalAverage.prox", [])]

end Scico.ProxCalc.Tables
