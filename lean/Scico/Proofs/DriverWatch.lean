/-
  C15, part 1 of the timer refinement: the accumulators `(t0, td)` of ONE label compute the
  history-based stop-watch specification (`specTotal`, `specCurrent`) — by induction over the
  label's event history, appending events at the end.
-/
import Scico.Proofs.DriverSpec
import Mathlib.Data.List.Induction

namespace Scico.Driver
open Scico.Driver.Spec

/-- the per-label state machine of the implementation, driven by events -/
def mach (e : Entry) (ev : Nat × Op) : Entry :=
  match ev.2 with
  | .start => startEntry e ev.1
  | .stop => stopEntry e ev.1
  | .reset => resetEntry e

/-- state of a label after its event history, starting from the zero entry -/
def machFold (es : List (Nat × Op)) : Entry := es.foldl mach Entry.fresh

theorem machFold_snoc (es : List (Nat × Op)) (ev : Nat × Op) :
    machFold (es ++ [ev]) = mach (machFold es) ev := by
  simp [machFold, List.foldl_append]

/-! ### the specification under appending one event -/

theorem lastBefore_snoc_lt (es : List (Nat × Op)) (t : Nat) (k : Op) (s : Nat) (h : s < t) :
    lastBefore (es ++ [(t, k)]) s = lastBefore es s := by
  have : ¬ t ≤ s := by omega
  simp [lastBefore, List.filter_append, this]

theorem lastBefore_snoc_ge (es : List (Nat × Op)) (t : Nat) (k : Op) (s : Nat) (h : t ≤ s) :
    lastBefore (es ++ [(t, k)]) s = some k := by
  simp [lastBefore, List.filter_append, h]

theorem lastResetTime_snoc (es : List (Nat × Op)) (t : Nat) (k : Op) :
    lastResetTime (es ++ [(t, k)]) = if k = .reset then t else lastResetTime es := by
  unfold lastResetTime
  cases k <;> simp [List.filter_append]

theorem lastResetTime_le (es : List (Nat × Op)) (T : Nat) (h : ∀ e ∈ es, e.1 ≤ T) :
    lastResetTime es ≤ T := by
  unfold lastResetTime
  split
  · next e he =>
    have := List.mem_of_getLast? he
    exact h e (List.mem_filter.mp this).1
  · omega

theorem countP_range_split (p : Nat → Bool) (t now : Nat) (h : t ≤ now) :
    (List.range now).countP p =
      (List.range t).countP p + (List.range (now - t)).countP (fun s => p (t + s)) := by
  have hn : now = t + (now - t) := by omega
  conv => lhs; rw [hn, List.range_add, List.countP_append, List.countP_map]
  rfl

theorem specTotal_snoc (es : List (Nat × Op)) (t : Nat) (k : Op) (now : Nat)
    (hes : ∀ e ∈ es, e.1 ≤ t) (ht : t ≤ now) :
    specTotal (es ++ [(t, k)]) now =
      (if k = .reset then 0 else specTotal es t) + (if k = .start then now - t else 0) := by
  unfold specTotal
  rw [countP_range_split _ t now ht]
  congr 1
  · -- ticks before `t`
    by_cases hk : k = .reset
    · simp only [hk, if_true]
      rw [List.countP_eq_zero]
      intro s hs
      have hs' : s < t := List.mem_range.mp hs
      simp only [counted, lastResetTime_snoc, if_true]
      have : ¬ t ≤ s := by omega
      simp [this]
    · simp only [hk, if_false]
      apply List.countP_congr
      intro s hs
      have hs' : s < t := List.mem_range.mp hs
      simp only [counted, runningAt, lastResetTime_snoc, hk, if_false, lastBefore_snoc_lt es t k s hs']
  · -- ticks from `t` on
    have hl : lastResetTime (es ++ [(t, k)]) ≤ t := by
      rw [lastResetTime_snoc]
      split
      · omega
      · exact lastResetTime_le es t hes
    have hc : ∀ s, counted (es ++ [(t, k)]) (t + s) = (k == .start) := by
      intro s
      have h1 : lastResetTime (es ++ [(t, k)]) ≤ t + s := by omega
      simp only [counted, runningAt, lastBefore_snoc_ge es t k (t + s) (by omega), h1, decide_true,
        Bool.true_and]
      cases k <;> rfl
    simp only [hc]
    cases k <;> simp

theorem trailingStarts_snoc (es : List (Nat × Op)) (t : Nat) (k : Op) :
    trailingStarts (es ++ [(t, k)]) =
      if k = .start then trailingStarts es ++ [(t, k)] else [] := by
  unfold trailingStarts
  cases k <;> simp

/-! ### the refinement for one label -/

/-- reading of an entry at time `T` (the two branches of `Timer.elapsed`) -/
theorem elapsedEntry_total (e : Entry) (T : Nat) :
    elapsedEntry e true T = (match e.t0 with | some s => T - s | none => 0) + e.td := by
  unfold elapsedEntry; cases e.t0 <;> simp

theorem elapsedEntry_current (e : Entry) (T : Nat) :
    elapsedEntry e false T = (match e.t0 with | some s => T - s | none => 0) := by
  unfold elapsedEntry; cases e.t0 <;> simp

/-- Invariant linking the implementation's accumulators to the history:
    * `t0` is the time of the first `start` of the trailing run of `start` events;
    * for every later time `T`, `td + (T - t0)` is the number of counted ticks before `T`. -/
structure Refines (es : List (Nat × Op)) (e : Entry) : Prop where
  t0_eq : e.t0 = (trailingStarts es).head?.map (·.1)
  t0_mem : ∀ s, e.t0 = some s → ∃ ev ∈ es, ev.1 = s
  total : ∀ T, (∀ ev ∈ es, ev.1 ≤ T) → specTotal es T = elapsedEntry e true T

theorem refines_nil : Refines [] Entry.fresh := by
  refine ⟨by simp [trailingStarts, Entry.fresh], by simp [Entry.fresh], ?_⟩
  intro T _
  have : ∀ s, counted [] s = false := by intro s; simp [counted, runningAt, lastBefore]
  simp [specTotal, this, elapsedEntry, Entry.fresh]

theorem refines_snoc (es : List (Nat × Op)) (e : Entry) (t : Nat) (k : Op)
    (hes : ∀ ev ∈ es, ev.1 ≤ t) (h : Refines es e) : Refines (es ++ [(t, k)]) (mach e (t, k)) := by
  obtain ⟨h0, hm, htot⟩ := h
  have hI := htot t hes
  cases k with
  | start =>
    cases ht0 : e.t0 with
    | none =>
      have hts : trailingStarts es = [] := by
        rw [ht0] at h0
        cases hh : trailingStarts es with
        | nil => rfl
        | cons a l => simp [hh] at h0
      refine ⟨?_, ?_, ?_⟩
      · simp [mach, startEntry, ht0, trailingStarts_snoc, hts]
      · intro s hs
        simp [mach, startEntry, ht0] at hs
        exact ⟨(t, .start), by simp, hs⟩
      · intro T hT
        have htT : t ≤ T := hT (t, .start) (by simp)
        rw [specTotal_snoc es t .start T hes htT, hI]
        simp [mach, startEntry, ht0, elapsedEntry]
        omega
    | some s0 =>
      obtain ⟨ev0, hev0, hs0⟩ := hm s0 ht0
      have hs0t : s0 ≤ t := by rw [← hs0]; exact hes ev0 hev0
      refine ⟨?_, ?_, ?_⟩
      · rw [ht0] at h0
        cases hh : trailingStarts es with
        | nil => simp [hh] at h0
        | cons a l =>
          simp [hh] at h0
          simp [mach, startEntry, ht0, trailingStarts_snoc, hh, h0]
      · intro s hs
        simp [mach, startEntry, ht0] at hs
        exact ⟨ev0, by simp [hev0], by omega⟩
      · intro T hT
        have htT : t ≤ T := hT (t, .start) (by simp)
        rw [specTotal_snoc es t .start T hes htT, hI]
        simp [mach, startEntry, ht0, elapsedEntry]
        omega
  | stop =>
    refine ⟨?_, ?_, ?_⟩
    · cases ht0 : e.t0 <;> simp [mach, stopEntry, ht0, trailingStarts_snoc]
    · intro s hs
      cases ht0 : e.t0 <;> simp [mach, stopEntry, ht0] at hs
    · intro T hT
      have htT : t ≤ T := hT (t, .stop) (by simp)
      rw [specTotal_snoc es t .stop T hes htT, hI]
      cases ht0 : e.t0 with
      | none => simp [mach, stopEntry, ht0, elapsedEntry]
      | some s0 => simp [mach, stopEntry, ht0, elapsedEntry]; omega
  | reset =>
    refine ⟨?_, ?_, ?_⟩
    · simp [mach, resetEntry, trailingStarts_snoc]
    · intro s hs
      simp [mach, resetEntry] at hs
    · intro T hT
      have htT : t ≤ T := hT (t, .reset) (by simp)
      rw [specTotal_snoc es t .reset T hes htT]
      simp [mach, resetEntry, elapsedEntry]

/-- every time-ordered event history of a label is refined by the implementation's machine -/
theorem refines_machFold (es : List (Nat × Op)) (hs : es.Pairwise (fun a b => a.1 ≤ b.1)) :
    Refines es (machFold es) := by
  induction es using List.reverseRecOn with
  | nil => exact refines_nil
  | append_singleton es ev ih =>
    rw [List.pairwise_append] at hs
    obtain ⟨h1, _, h3⟩ := hs
    rw [machFold_snoc]
    obtain ⟨t, k⟩ := ev
    exact refines_snoc es (machFold es) t k (fun e he => h3 e he (t, k) (by simp)) (ih h1)

/-- **single-label refinement**: what `elapsed` reads from the accumulators is what the
    history-based stop-watch says, for both values of `total` -/
theorem elapsedEntry_machFold (es : List (Nat × Op)) (hs : es.Pairwise (fun a b => a.1 ≤ b.1))
    (T : Nat) (hT : ∀ ev ∈ es, ev.1 ≤ T) (total : Bool) :
    elapsedEntry (machFold es) total T = if total then specTotal es T else specCurrent es T := by
  have h := refines_machFold es hs
  cases total with
  | true => simp [h.total T hT]
  | false =>
    simp only [Bool.false_eq_true, if_false, elapsedEntry_current, specCurrent, h.t0_eq]
    cases (trailingStarts es).head? <;> simp

end Scico.Driver
