/-
  C10 round 3:
  * `set_scale` on the loss after the ADMM object was built — the system the precomputing solvers work with
    (`staleScaleSystem`) and the exact condition under which its solution still satisfies the documented normal equations;
  * `G0BlockCircularConvolveSolver`: the system it solves characterises the minimisers of the objective written in its own
    docstring (`ρ₁ ω ‖C₁ x − v₁‖² + Σ_{i≥2} ρ_i/2 ‖C_i x − v_i‖²`) — the other side of the recorded finding `g0-scale`.
-/
import Scico.Proofs.LinSolveADMM

set_option linter.unusedSectionVars false

namespace Scico.LinSolve
open RCLike

section Stale
variable {S M U Y' : Type} [Field S] [AddCommGroup M] [Module S M] [AddCommGroup U]

/-- the system after `set_scale(s1)`: operator with the old scale, right-hand side with the new one -/
theorem staleScale_spec (f : SqL2 S M Y') (s1 : S) (terms : List (Term S M U)) (hne : terms ≠ []) :
    ∃ lhs rhs, staleScaleSystem 0 f s1 terms = some (lhs, rhs) ∧
      (∀ x, lhs x = lhsSpec (some f) terms x) ∧ rhs = rhsSpec (some (f.withScale s1)) terms := by
  obtain ⟨lhs, h1, h2⟩ := linearLhs_spec (some f) terms hne
  refine ⟨lhs, _, ?_, h2, linearRhs_spec _ _⟩
  simp [staleScaleSystem, h1]

/-- **exact condition**: a solution of the stale system satisfies the documented normal equations (for the current scale `s1`)
    iff `2 (s1 − s0) · Aᴴ W A x = 0` -/
theorem staleScale_exact (f : SqL2 S M Y') (s1 : S) (terms : List (Term S M U)) (x : M)
    (hsys : lhsSpec (some f) terms x = rhsSpec (some (f.withScale s1)) terms) :
    lhsSpec (some (f.withScale s1)) terms x = rhsSpec (some (f.withScale s1)) terms ↔
      (2 * (s1 - f.scale)) • f.A.adj (f.W (f.A.eval x)) = 0 := by
  have e : lhsSpec (some (f.withScale s1)) terms x
      = lhsSpec (some f) terms x + (2 * (s1 - f.scale)) • f.A.adj (f.W (f.A.eval x)) := by
    simp only [lhsSpec, SqL2.withScale]
    rw [add_assoc, ← add_smul]
    congr 2
    ring
  rw [e, hsys]
  constructor
  · intro h
    have := congrArg (fun v => v - rhsSpec (some (f.withScale s1)) terms) h
    simpa using this
  · intro h; rw [h, add_zero]

end Stale

section G0Doc
variable {𝕜 V Y : Type} [RCLike 𝕜] [NormedAddCommGroup V] [InnerProductSpace 𝕜 V]
  [NormedAddCommGroup Y] [InnerProductSpace 𝕜 Y]
  {ι : Type} [Fintype ι] {U : ι → Type} [∀ i, NormedAddCommGroup (U i)] [∀ i, InnerProductSpace 𝕜 (U i)]

/-- the objective written in the docstring of `G0BlockCircularConvolveSolver` -/
noncomputable def g0DocObj (C1 : V →ₗ[𝕜] Y) (C : ∀ i, V →ₗ[𝕜] U i) (ω ρ1 : ℝ) (ρ : ι → ℝ) (v1 : Y) (v : ∀ i, U i) (x : V) : ℝ :=
  ρ1 * ω * ‖C1 x - v1‖ ^ 2 + ∑ i, ρ i / 2 * ‖v i - C i x‖ ^ 2

theorem g0DocObj_eq (C1 : V →ₗ[𝕜] Y) (C : ∀ i, V →ₗ[𝕜] U i) (ω ρ1 : ℝ) (ρ : ι → ℝ) (v1 : Y) (v : ∀ i, U i) (x : V) :
    g0DocObj C1 C ω ρ1 ρ v1 v x = xstepObj C1 LinearMap.id C (ω * ρ1) ρ v1 v x := by
  unfold g0DocObj xstepObj
  congr 1
  rw [LinearMap.id_apply, inner_self_eq_norm_sq_to_K]
  norm_cast
  ring

/-- **G0 solves its own documented step**: for `ω ≥ 0`, `ρ ≥ 0`, `x` satisfies the system the solver assembles,
    `2ωρ₁ C₁ᴴC₁ x + Σ_{i≥2} ρ_i C_iᴴC_i x = 2ωρ₁ C₁ᴴ v₁ + Σ_{i≥2} ρ_i C_iᴴ v_i`, iff it minimises the docstring objective
    `ρ₁ ω ‖C₁ x − v₁‖² + Σ_{i≥2} ρ_i/2 ‖C_i x − v_i‖²`.  (The ADMM x-step itself has `ρ₁/2` in place of `ρ₁ ω`.) -/
theorem g0_solves_docstring (C1 : V →ₗ[𝕜] Y) (C1H : Y →ₗ[𝕜] V) (hC1 : ∀ x y, inner 𝕜 (C1 x) y = inner 𝕜 x (C1H y))
    (C : ∀ i, V →ₗ[𝕜] U i) (CH : ∀ i, U i →ₗ[𝕜] V) (hC : ∀ i x y, inner 𝕜 (C i x) y = inner 𝕜 x (CH i y))
    (ω ρ1 : ℝ) (hω : 0 ≤ ω) (hρ1 : 0 ≤ ρ1) (ρ : ι → ℝ) (hρ : ∀ i, 0 ≤ ρ i) (v1 : Y) (v : ∀ i, U i) (x : V) :
    (((2 * (ω * ρ1) : ℝ) : 𝕜) • C1H (C1 x) + ∑ i, ((ρ i : ℝ) : 𝕜) • CH i (C i x)
        = ((2 * (ω * ρ1) : ℝ) : 𝕜) • C1H v1 + ∑ i, ((ρ i : ℝ) : 𝕜) • CH i (v i))
      ↔ ∀ x', g0DocObj C1 C ω ρ1 ρ v1 v x ≤ g0DocObj C1 C ω ρ1 ρ v1 v x' := by
  have h := normal_eq_iff_argmin (𝕜 := 𝕜) C1 C1H hC1 LinearMap.id (fun _ _ => rfl)
    (fun u => by rw [LinearMap.id_apply, inner_self_eq_norm_sq_to_K]; norm_cast; positivity)
    C CH hC (ω * ρ1) (mul_nonneg hω hρ1) ρ hρ v1 v x
  simp only [LinearMap.id_apply] at h
  rw [h]
  simp only [g0DocObj_eq]

end G0Doc

end Scico.LinSolve
