/-
  Proofs/StepsPDHGStrong — PDHG with extrapolation `alpha ∈ [0,1]` (the whole documented range, `alpha = 0` is Arrow–Hurwicz)
  and an `m`-STRONGLY CONVEX `f`.

  `Proofs/StepsPDHGAlpha` shows that for `alpha = 0` and merely convex `f` the iteration need not converge inside the documented
  range `τσ‖C‖² < 1`.  With strong convexity it does, under one more explicit step-size condition:

      metric      M_α(a,b) = ‖a‖²/τ − 2α⟪Ca,b⟫ + ‖b‖²/σ          (α = 1: the metric of `StepsPDHG`; α = 0: the plain one)
      one step    M_α(w⁺−w*) + M_α(w−w⁺) + 2m‖x⁺−x*‖² + 2(1−α)⟪C(x⁺−x*), z−z⁺⟫ ≤ M_α(w−w*)
      Young       −2(1−α)⟪C(x⁺−x*), z−z⁺⟫ ≤ (1−α)(σL²‖x⁺−x*‖² + ‖z−z⁺‖²/σ),   M_α(da,db) ≥ (1/τ − ασL²)‖da‖² + (1−α)‖db‖²/σ

  hence, for `‖Ca‖ ≤ L‖a‖`, `τσL² ≤ 1`, `0 ≤ α ≤ 1`:

      M_α(w⁺−w*) + (2m − (1−α)σL²) ‖x⁺−x*‖² ≤ M_α(w−w*) ,

  i.e. Fejér monotonicity in `M_α` when `(1−α)σL² ≤ 2m`, and `x_k → x*` from every start when `(1−α)σL² < 2m`
  (`alpha = 1`: any `m > 0`, the statement of `StepsStrong`; `alpha = 0`: `σ‖C‖² < 2m`, no condition on `τ` beyond `τσ‖C‖² ≤ 1`).
-/
import Scico.Model.Steps
import Scico.Proofs.StepsConvex
import Scico.Proofs.StepsFixed
import Scico.Proofs.StepsRelax
import Scico.Proofs.StepsPDHG
import Scico.Proofs.StepsPDHGAlpha
import Scico.Proofs.StepsExamples
import Mathlib.Tactic.Abel
import Mathlib.Tactic.NormNum

set_option linter.unusedSectionVars false

namespace Scico.Steps

variable {X Z : Type} [NormedAddCommGroup X] [InnerProductSpace ℝ X]
  [NormedAddCommGroup Z] [InnerProductSpace ℝ Z]

local notation "⟪" x ", " y "⟫" => inner ℝ x y

/-- the metric with extrapolation weight `alpha` -/
noncomputable def pdMA (C : X → Z) (tau sigma alpha : ℝ) (a : X) (b : Z) : ℝ :=
  ‖a‖ ^ 2 / tau - 2 * alpha * ⟪C a, b⟫ + ‖b‖ ^ 2 / sigma

theorem pdMA_add (C : X → Z) (hadd : ∀ x y, C (x + y) = C x + C y) (tau sigma alpha : ℝ) (a' da : X) (b' db : Z) :
    pdMA C tau sigma alpha (a' + da) (b' + db)
      = pdMA C tau sigma alpha a' b' + pdMA C tau sigma alpha da db
        + 2 * (⟪a', da⟫ / tau + ⟪b', db⟫ / sigma - alpha * (⟪C a', db⟫ + ⟪C da, b'⟫)) := by
  unfold pdMA
  rw [norm_add_sq_real, norm_add_sq_real, hadd, inner_add_left, inner_add_right, inner_add_right]
  ring

/-- Young's inequality in the form used twice: `2⟪Ca, b⟫ ≤ σL²‖a‖² + ‖b‖²/σ` -/
theorem young_C (C : X → Z) {sigma Lc : ℝ} (hs : 0 < sigma) (_hL : 0 ≤ Lc) (hbd : ∀ a, ‖C a‖ ≤ Lc * ‖a‖) (a : X) (b : Z) :
    2 * |⟪C a, b⟫| ≤ sigma * Lc ^ 2 * ‖a‖ ^ 2 + ‖b‖ ^ 2 / sigma := by
  have hcs : |⟪C a, b⟫| ≤ ‖C a‖ * ‖b‖ := abs_real_inner_le_norm _ _
  have hsq : ‖C a‖ ^ 2 ≤ Lc ^ 2 * ‖a‖ ^ 2 := by
    have := pow_le_pow_left₀ (norm_nonneg _) (hbd a) 2
    rwa [mul_pow] at this
  have key : 2 * (‖C a‖ * ‖b‖) ≤ sigma * ‖C a‖ ^ 2 + ‖b‖ ^ 2 / sigma := by
    rw [← sub_nonneg]
    have e : sigma * ‖C a‖ ^ 2 + ‖b‖ ^ 2 / sigma - 2 * (‖C a‖ * ‖b‖) = (sigma * ‖C a‖ - ‖b‖) ^ 2 / sigma := by
      field_simp; ring
    rw [e]; positivity
  have h3 : sigma * ‖C a‖ ^ 2 ≤ sigma * (Lc ^ 2 * ‖a‖ ^ 2) := mul_le_mul_of_nonneg_left hsq hs.le
  nlinarith

/-- lower bound of the metric: `M_α(a,b) ≥ (1/τ − ασL²)‖a‖² + (1−α)‖b‖²/σ` for `α ≥ 0` -/
theorem pdMA_lower (C : X → Z) {tau sigma alpha Lc : ℝ} (hs : 0 < sigma) (hL : 0 ≤ Lc) (ha : 0 ≤ alpha)
    (hbd : ∀ a, ‖C a‖ ≤ Lc * ‖a‖) (a : X) (b : Z) :
    (1 / tau - alpha * (sigma * Lc ^ 2)) * ‖a‖ ^ 2 + (1 - alpha) * (‖b‖ ^ 2 / sigma) ≤ pdMA C tau sigma alpha a b := by
  have hy := young_C C hs hL hbd a b
  have h1 : ⟪C a, b⟫ ≤ |⟪C a, b⟫| := le_abs_self _
  have h2 : alpha * (2 * ⟪C a, b⟫) ≤ alpha * (sigma * Lc ^ 2 * ‖a‖ ^ 2 + ‖b‖ ^ 2 / sigma) :=
    mul_le_mul_of_nonneg_left (by linarith) ha
  unfold pdMA
  have e : ‖a‖ ^ 2 / tau = 1 / tau * ‖a‖ ^ 2 := by ring
  rw [e]
  nlinarith

/-- the two sub-gradient inequalities of one iteration (strongly monotone `∂f`, extrapolation `alpha`) in the metric `M_α` -/
theorem pdhg_core_alpha_strong (C : X → Z) (Cadj : Z → X) (hadd : ∀ x y, C (x + y) = C x + C y)
    (hsm : ∀ (c : ℝ) x, C (c • x) = c • C x)
    (hadj : ∀ w x, ⟪Cadj w, x⟫ = ⟪w, C x⟫) {tau sigma alpha m : ℝ} (ht : 0 < tau) (hs : 0 < sigma)
    (x xn xs : X) (z zn zs : Z)
    (hA : m * ‖xn - xs‖ ^ 2 ≤ ⟪(1 / tau) • (x - tau • Cadj z - xn) - (-(Cadj zs)), xn - xs⟫)
    (hB : 0 ≤ ⟪zn - zs, (1 / sigma) • (z + sigma • C ((1 + alpha) • xn - alpha • x) - zn) - C xs⟫) :
    pdMA C tau sigma alpha (xn - xs) (zn - zs) + pdMA C tau sigma alpha (x - xn) (z - zn) + 2 * (m * ‖xn - xs‖ ^ 2)
        + 2 * (1 - alpha) * ⟪C (xn - xs), z - zn⟫
      ≤ pdMA C tau sigma alpha (x - xs) (z - zs) := by
  have hsub : ∀ u v, C (u - v) = C u - C v := by
    intro u v
    have := hadd (u - v) v
    rw [sub_add_cancel] at this
    rw [this]; abel
  set a' := xn - xs with ha'
  set b' := zn - zs with hb'
  set da := x - xn with hda
  set db := z - zn with hdb
  clear_value a' b' da db
  have ea : x - xs = a' + da := by rw [ha', hda]; abel
  have eb : z - zs = b' + db := by rw [hb', hdb]; abel
  rw [ea, eb, pdMA_add C hadd]
  have hA' : m * ‖a'‖ ^ 2 ≤ ⟪da, a'⟫ / tau - ⟪b' + db, C a'⟫ := by
    have e : (1 / tau) • (x - tau • Cadj z - xn) - (-(Cadj zs)) = (1 / tau) • da - Cadj z + Cadj zs := by
      have : x - tau • Cadj z - xn = da - tau • Cadj z := by rw [hda]; abel
      rw [this, smul_sub, smul_smul]
      have : 1 / tau * tau = 1 := by field_simp
      rw [this, one_smul]; abel
    rw [e, inner_add_left, inner_sub_left, inner_smul_left, hadj, hadj] at hA
    simp only [RCLike.conj_to_real] at hA
    have : ⟪b' + db, C a'⟫ = ⟪z, C a'⟫ - ⟪zs, C a'⟫ := by rw [← eb, inner_sub_left]
    rw [this]
    have e2 : 1 / tau * ⟪da, a'⟫ = ⟪da, a'⟫ / tau := by ring
    linarith
  have hB' : 0 ≤ ⟪b', db⟫ / sigma + ⟪b', C a'⟫ - alpha * ⟪b', C da⟫ := by
    have e : (1 / sigma) • (z + sigma • C ((1 + alpha) • xn - alpha • x) - zn) - C xs
        = (1 / sigma) • db + (C a' - alpha • C da) := by
      have h1 : z + sigma • C ((1 + alpha) • xn - alpha • x) - zn = db + sigma • C ((1 + alpha) • xn - alpha • x) := by
        rw [hdb]; abel
      rw [h1, smul_add, smul_smul]
      have : 1 / sigma * sigma = 1 := by field_simp
      rw [this, one_smul]
      have h2 : (1 + alpha) • xn - alpha • x - xs = a' - alpha • da := by
        rw [ha', hda]; simp only [add_smul, one_smul, smul_sub]; abel
      have h3 : C ((1 + alpha) • xn - alpha • x) - C xs = C a' - alpha • C da := by
        rw [← hsub, h2, hsub, hsm]
      rw [add_sub_assoc, h3]
    rw [e, inner_add_right, inner_smul_right] at hB
    have e2 : 1 / sigma * ⟪b', db⟫ = ⟪b', db⟫ / sigma := by ring
    have e3 : ⟪b', C a' - alpha • C da⟫ = ⟪b', C a'⟫ - alpha * ⟪b', C da⟫ := by
      rw [inner_sub_right, inner_smul_right]
    linarith
  rw [inner_add_left] at hA'
  have c1 : ⟪a', da⟫ = ⟪da, a'⟫ := real_inner_comm _ _
  have c2 : ⟪C a', db⟫ = ⟪db, C a'⟫ := real_inner_comm _ _
  have c3 : ⟪C da, b'⟫ = ⟪b', C da⟫ := real_inner_comm _ _
  rw [c1, c2, c3]
  nlinarith

/-- the parameter range: `‖Ca‖ ≤ L‖a‖`, `τσL² ≤ 1` (documented), `alpha ∈ [0,1]` (documented) and `(1−α)σL² ≤ 2m − gap` -/
structure PDHGRangeA (p : PDHGParams ℝ X Z) (Lc m gap : ℝ) : Prop where
  L0 : 0 ≤ Lc
  bd : ∀ a, ‖p.C a‖ ≤ Lc * ‖a‖
  a0 : 0 ≤ p.alpha
  a1 : p.alpha ≤ 1
  ts : p.tau * p.sigma * Lc ^ 2 ≤ 1
  gap : (1 - p.alpha) * (p.sigma * Lc ^ 2) + gap ≤ 2 * m

theorem pdMA_nonneg (p : PDHGParams ℝ X Z) {Lc m gap : ℝ} (ht : 0 < p.tau) (hs : 0 < p.sigma) (R : PDHGRangeA p Lc m gap)
    (a : X) (b : Z) : 0 ≤ pdMA p.C p.tau p.sigma p.alpha a b := by
  have low := pdMA_lower p.C (tau := p.tau) hs R.L0 R.a0 R.bd a b
  have hc : 0 ≤ 1 / p.tau - p.alpha * (p.sigma * Lc ^ 2) := by
    have h1 : p.alpha * (p.tau * p.sigma * Lc ^ 2) ≤ 1 := by
      have h0 : 0 ≤ p.tau * p.sigma * Lc ^ 2 := by positivity
      nlinarith [R.a1, R.ts, R.a0]
    have e : 1 / p.tau - p.alpha * (p.sigma * Lc ^ 2) = (1 - p.alpha * (p.tau * p.sigma * Lc ^ 2)) / p.tau := by
      field_simp
    rw [e]
    exact div_nonneg (by linarith) ht.le
  have h2 : 0 ≤ (1 - p.alpha) * (‖b‖ ^ 2 / p.sigma) := mul_nonneg (by linarith [R.a1]) (by positivity)
  have h3 : 0 ≤ (1 / p.tau - p.alpha * (p.sigma * Lc ^ 2)) * ‖a‖ ^ 2 := mul_nonneg hc (by positivity)
  linarith

/-- one documented PDHG iteration, `alpha ∈ [0,1]`, `m`-strongly convex `f`: Fejér inequality in `M_α` with the gain
    `gap · ‖x⁺ − x*‖²`, `gap = 2m − (1−α)σL²` -/
theorem pdhg_fejer_step_alpha_strong (p : PDHGParams ℝ X Z) (F : Fn X) (xs : X) (zs : Z) (H : PDHGHypA p F xs zs)
    {Lc m gap : ℝ} (R : PDHGRangeA p Lc m gap) (hsm : StrongSub F m) (s : PDHGState X Z) :
    pdMA p.C p.tau p.sigma p.alpha ((pdhgSpecStep p s).x - xs) ((pdhgSpecStep p s).z - zs)
        + gap * ‖(pdhgSpecStep p s).x - xs‖ ^ 2
      ≤ pdMA p.C p.tau p.sigma p.alpha (s.x - xs) (s.z - zs) := by
  have hx : (pdhgSpecStep p s).x = p.proxf p.tau (s.x - p.tau • p.Cadj s.z) := by
    unfold pdhgSpecStep; simp only [H.lin]
  have hz : (pdhgSpecStep p s).z
      = p.proxgConj p.sigma (s.z + p.sigma • p.C ((1 + p.alpha) • (pdhgSpecStep p s).x - p.alpha • s.x)) := by
    unfold pdhgSpecStep; simp only [H.lin]
  set xn := (pdhgSpecStep p s).x with hxn
  set zn := (pdhgSpecStep p s).z with hzn
  have core := pdhg_core_alpha_strong p.C p.Cadj H.add H.smul H.adj (alpha := p.alpha) (m := m) H.tau H.sigma
    s.x xn xs s.z zn zs
    (by
      have h1 := H.proxf p.tau H.tau (s.x - p.tau • p.Cadj s.z)
      rw [← hx] at h1
      exact hsm _ _ _ _ h1 H.kktx)
    (by
      have h2 := H.dual p.sigma H.sigma (s.z + p.sigma • p.C ((1 + p.alpha) • xn - p.alpha • s.x))
      rw [← hz] at h2
      exact h2)
  -- absorb the cross term and the increment metric
  have hy := young_C p.C H.sigma R.L0 R.bd (xn - xs) (s.z - zn)
  have hab : -|⟪p.C (xn - xs), s.z - zn⟫| ≤ ⟪p.C (xn - xs), s.z - zn⟫ := neg_abs_le _
  have h1a : 0 ≤ 1 - p.alpha := by linarith [R.a1]
  have hcross : -((1 - p.alpha) * (p.sigma * Lc ^ 2 * ‖xn - xs‖ ^ 2 + ‖s.z - zn‖ ^ 2 / p.sigma))
      ≤ 2 * (1 - p.alpha) * ⟪p.C (xn - xs), s.z - zn⟫ := by
    have := mul_le_mul_of_nonneg_left hy h1a
    nlinarith
  have low := pdMA_lower p.C (tau := p.tau) H.sigma R.L0 R.a0 R.bd (s.x - xn) (s.z - zn)
  have hc : 0 ≤ (1 / p.tau - p.alpha * (p.sigma * Lc ^ 2)) * ‖s.x - xn‖ ^ 2 := by
    have h1 : p.alpha * (p.tau * p.sigma * Lc ^ 2) ≤ 1 := by
      have h0 : 0 ≤ p.tau * p.sigma * Lc ^ 2 := by have := H.tau; have := H.sigma; positivity
      nlinarith [R.a1, R.ts, R.a0]
    have e : 1 / p.tau - p.alpha * (p.sigma * Lc ^ 2) = (1 - p.alpha * (p.tau * p.sigma * Lc ^ 2)) / p.tau := by
      have := H.tau
      field_simp
    rw [e]
    exact mul_nonneg (div_nonneg (by linarith) H.tau.le) (by positivity)
  have hg := mul_le_mul_of_nonneg_right R.gap (sq_nonneg ‖xn - xs‖)
  nlinarith

/-- strongly convex `f`, `alpha ∈ [0,1]`, `(1−α)σL² < 2m`: from every start the PDHG iterates `x_k` converge to the minimiser -/
theorem pdhg_x_tendsto_alpha (p : PDHGParams ℝ X Z) (F : Fn X) (xs : X) (zs : Z) (H : PDHGHypA p F xs zs)
    {Lc m gap : ℝ} (R : PDHGRangeA p Lc m gap) (hgap : 0 < gap) (hsm : StrongSub F m) (s : PDHGState X Z) :
    Filter.Tendsto (fun k => (iter (pdhgSpecStep p) k s).x) Filter.atTop (nhds xs) := by
  have hMnn := pdMA_nonneg p H.tau H.sigma R
  have hsum : ∀ k, (∑ j ∈ Finset.range k, gap * ‖(iter (pdhgSpecStep p) (j + 1) s).x - xs‖ ^ 2)
      + pdMA p.C p.tau p.sigma p.alpha ((iter (pdhgSpecStep p) k s).x - xs) ((iter (pdhgSpecStep p) k s).z - zs)
      ≤ pdMA p.C p.tau p.sigma p.alpha (s.x - xs) (s.z - zs) := by
    intro k
    induction k with
    | zero => simp [iter]
    | succ k ih =>
      rw [Finset.sum_range_succ]
      have h := pdhg_fejer_step_alpha_strong p F xs zs H R hsm (iter (pdhgSpecStep p) k s)
      rw [← iter_succ' (pdhgSpecStep p) k s] at h
      linarith
  have hT : Filter.Tendsto (fun k => gap * ‖(iter (pdhgSpecStep p) (k + 1) s).x - xs‖ ^ 2) Filter.atTop (nhds 0) := by
    apply tendsto_zero_of_partial_sums_le (c := pdMA p.C p.tau p.sigma p.alpha (s.x - xs) (s.z - zs))
    · intro n; positivity
    · intro n
      have := hsum n
      have := hMnn ((iter (pdhgSpecStep p) n s).x - xs) ((iter (pdhgSpecStep p) n s).z - zs)
      linarith
  have hb := hT.const_mul (1 / gap)
  rw [mul_zero] at hb
  rw [← Filter.tendsto_add_atTop_iff_nat 1, tendsto_iff_norm_sub_tendsto_zero]
  refine tendsto_zero_of_sq_le (fun k => norm_nonneg _) (fun k => ?_) hb
  have : 1 / gap * (gap * ‖(iter (pdhgSpecStep p) (k + 1) s).x - xs‖ ^ 2)
      = ‖(iter (pdhgSpecStep p) (k + 1) s).x - xs‖ ^ 2 := by field_simp
  rw [this]

/-! ### instance (non-vacuity): `f = ½‖· − y0‖²` (`m = 1`), `g = 0`, `C = I`, `τ = σ = ½`, ANY `alpha ∈ [0,1]` — in particular
    Arrow–Hurwicz `alpha = 0`, for which the merely convex instance of `StepsPDHGAlpha` does not converge -/

variable {E : Type} [NormedAddCommGroup E] [InnerProductSpace ℝ E]

noncomputable def exPDHGA (y0 : E) (alpha : ℝ) : PDHGParams ℝ E E := { exPDHG y0 with alpha := alpha }

theorem exPDHGA_hyp (y0 : E) (alpha : ℝ) : PDHGHypA (exPDHGA y0 alpha) (halfSq y0) y0 0 := by
  have h := exPDHG_hyp y0
  exact ⟨h.lin, h.tau, h.sigma, h.add, fun _ _ => rfl, h.adj, h.proxf, h.kktx, h.dual⟩

theorem exPDHGA_range (y0 : E) {alpha : ℝ} (h0 : 0 ≤ alpha) (h1 : alpha ≤ 1) : PDHGRangeA (exPDHGA y0 alpha) 1 1 (3 / 2) := by
  refine ⟨by norm_num, fun a => by simp [exPDHGA, exPDHG], h0, h1, by norm_num [exPDHGA, exPDHG], ?_⟩
  simp only [exPDHGA, exPDHG]
  nlinarith

end Scico.Steps
