/-
  Proofs/StepsFISTA2 — the ITERATES of the accelerated proximal gradient method (`AcceleratedPGM` = FISTA with the classic
  rule `t⁺ = (1 + √(1 + 4t²))/2`, base step-size object) for a MERELY CONVEX smooth term.

  Convergence of the whole sequence `x_k` for this rule is an open problem of the literature (Chambolle–Dossal 2015 prove it
  for the modified rule `t_k = (k + a − 1)/a`, `a > 2`, which the library does not use).  What the potential of
  `Proofs/StepsFISTA` does give, and what is proved here for the documented iteration `apgmSpecStep`:

  * `fista_ball`            every iterate stays in the closed ball of radius `‖x_0 − x*‖` around EVERY minimiser `x*`:
                            `u_{k+1} = t_{k+1} v_{k+1} − (t_{k+1} − 1) x_{k+1} = t_k x_{k+1} − (t_k − 1) x_k`, so
                            `x_{k+1} = (1/t_k) u_{k+1} + (1 − 1/t_k) x_k` is a convex combination of two points of the ball;
  * `fista_cluster_min`     (closed sub-level sets) every cluster point of `(x_k)` is a minimiser;
  * `fista_subseq`          (finite dimension) a subsequence converges to a minimiser;
  * `fista_unique_tendsto`  (finite dimension) if the minimiser is unique the whole sequence converges to it — no strong
                            convexity of `f` or `g` needed.
-/
import Scico.Proofs.StepsFISTA
import Scico.Proofs.StepsStrong
import Scico.Proofs.StepsExamples
import Mathlib.Topology.Sequences
import Mathlib.Topology.MetricSpace.Sequences
import Mathlib.Analysis.Normed.Group.Bounded
import Mathlib.Topology.MetricSpace.ProperSpace

set_option linter.unusedSectionVars false

namespace Scico.Steps

variable {E : Type} [NormedAddCommGroup E] [InnerProductSpace ℝ E]

local notation "⟪" x ", " y "⟫" => inner ℝ x y

attribute [local instance] realHasSqrt

/-- `xb` minimises `F = f + g` over `dom g` -/
def IsMinOn (f : E → ℝ) (G : Fn E) (xb : E) : Prop := xb ∈ G.dom ∧ ∀ y ∈ G.dom, f xb + G.val xb ≤ f y + G.val y

/-- the invariant carried along the trajectory -/
structure FistaInv (p : PGMParams Unit ℝ E) (G : Fn E) (L R : ℝ) (xb : E) (s : APGMState Unit ℝ E) : Prop where
  hL : s.L = L
  ht : 1 ≤ s.t
  hdom : s.x ∈ G.dom ∨ s.t = 1
  hE : fistaE p G L xb s ≤ L * R ^ 2
  hx : ‖s.x - xb‖ ≤ R

theorem fistaInv_step (p : PGMParams Unit ℝ E) {G : Fn E} {L R : ℝ} (h : FISTAHyp p G L) {xb : E}
    (hmin : IsMinOn p.f G xb) (hR : 0 ≤ R) (s : APGMState Unit ℝ E) (hs : FistaInv p G L R xb s) :
    FistaInv p G L R xb (apgmSpecStep p s) := by
  obtain ⟨hE', hd', ht', hL'⟩ := fista_potential_step p h xb hmin.1 s hs.hL hs.ht hs.hdom
  obtain ⟨_, _, htn, hv⟩ := apgmSpec_base p h s hs.hL
  have hLpos := h.Lpos
  have hEn : fistaE p G L xb (apgmSpecStep p s) ≤ L * R ^ 2 := le_trans hE' hs.hE
  refine ⟨hL', ht', Or.inl hd', hEn, ?_⟩
  set xn := (apgmSpecStep p s).x with hxn
  set tn := (apgmSpecStep p s).t with htn'
  have htn0 : tn ≠ 0 := by linarith
  have ht0 : 0 < s.t := by linarith [hs.ht]
  -- u' = t' v' − (t' − 1) x' = t x' − (t − 1) x
  have hu : tn • (apgmSpecStep p s).v - (tn - 1) • xn - xb = s.t • (xn - xb) - (s.t - 1) • (s.x - xb) := by
    rw [hv, ← htn, smul_add, smul_smul]
    have : tn * ((s.t - 1) / tn) = s.t - 1 := by field_simp
    rw [this]
    simp only [sub_smul, one_smul, smul_sub]
    abel
  -- ‖u' − x̄‖ ≤ R from the potential (the objective part is non-negative at a minimiser)
  have hgap : 0 ≤ (p.f xn + G.val xn) - (p.f xb + G.val xb) := by linarith [hmin.2 xn hd']
  have hnorm : ‖s.t • (xn - xb) - (s.t - 1) • (s.x - xb)‖ ≤ R := by
    unfold fistaE at hEn
    rw [hu] at hEn
    have h1 : 0 ≤ 2 * (tn * (tn - 1)) * ((p.f xn + G.val xn) - (p.f xb + G.val xb)) := by
      have : 0 ≤ tn * (tn - 1) := mul_nonneg (by linarith) (by linarith)
      positivity
    have h2 : L * ‖s.t • (xn - xb) - (s.t - 1) • (s.x - xb)‖ ^ 2 ≤ L * R ^ 2 := by linarith
    have h3 : ‖s.t • (xn - xb) - (s.t - 1) • (s.x - xb)‖ ^ 2 ≤ R ^ 2 := le_of_mul_le_mul_left h2 hLpos
    exact abs_le_of_sq_le_sq' h3 hR |>.2 |> fun h => by simpa [abs_of_nonneg (norm_nonneg _)] using h
  -- x' − x̄ = (1/t)(u' − x̄) + (1 − 1/t)(x − x̄)
  have hdec : xn - xb = (1 / s.t) • (s.t • (xn - xb) - (s.t - 1) • (s.x - xb)) + ((s.t - 1) / s.t) • (s.x - xb) := by
    rw [smul_sub, smul_smul, smul_smul]
    have e1 : 1 / s.t * s.t = 1 := by field_simp
    have e2 : 1 / s.t * (s.t - 1) = (s.t - 1) / s.t := by ring
    rw [e1, e2, one_smul]
    abel
  calc ‖xn - xb‖ = ‖(1 / s.t) • (s.t • (xn - xb) - (s.t - 1) • (s.x - xb)) + ((s.t - 1) / s.t) • (s.x - xb)‖ := by rw [← hdec]
    _ ≤ ‖(1 / s.t) • (s.t • (xn - xb) - (s.t - 1) • (s.x - xb))‖ + ‖((s.t - 1) / s.t) • (s.x - xb)‖ := norm_add_le _ _
    _ = (1 / s.t) * ‖s.t • (xn - xb) - (s.t - 1) • (s.x - xb)‖ + ((s.t - 1) / s.t) * ‖s.x - xb‖ := by
        rw [norm_smul, norm_smul, Real.norm_of_nonneg (by positivity),
          Real.norm_of_nonneg (div_nonneg (by linarith [hs.ht]) ht0.le)]
    _ ≤ (1 / s.t) * R + ((s.t - 1) / s.t) * R := by
        have a1 : 0 ≤ 1 / s.t := by positivity
        have a2 : 0 ≤ (s.t - 1) / s.t := div_nonneg (by linarith [hs.ht]) ht0.le
        exact add_le_add (mul_le_mul_of_nonneg_left hnorm a1) (mul_le_mul_of_nonneg_left hs.hx a2)
    _ = R := by field_simp; ring

theorem fistaInv_traj (p : PGMParams Unit ℝ E) {G : Fn E} {L R : ℝ} (h : FISTAHyp p G L) {xb : E}
    (hmin : IsMinOn p.f G xb) (hR : 0 ≤ R) (k : Nat) :
    ∀ s : APGMState Unit ℝ E, FistaInv p G L R xb s → FistaInv p G L R xb (iter (apgmSpecStep p) k s) := by
  induction k with
  | zero => intro s hs; exact hs
  | succ k ih => intro s hs; exact ih _ (fistaInv_step p h hmin hR s hs)

theorem fistaInv_init (p : PGMParams Unit ℝ E) {G : Fn E} {L : ℝ} (_h : FISTAHyp p G L) (xb : E)
    (s : APGMState Unit ℝ E) (hsL : s.L = L) (ht : s.t = 1) (hv : s.v = s.x) :
    FistaInv p G L ‖s.x - xb‖ xb s := by
  refine ⟨hsL, by rw [ht], Or.inr ht, ?_, le_refl _⟩
  unfold fistaE
  rw [ht, hv]
  simp

/-- FISTA, merely convex `f`: from the constructor state every iterate lies in the closed ball of radius `‖x_0 − x*‖`
    around every minimiser `x*` -/
theorem fista_ball (p : PGMParams Unit ℝ E) {G : Fn E} {L : ℝ} (h : FISTAHyp p G L) {xb : E}
    (hmin : IsMinOn p.f G xb) (s : APGMState Unit ℝ E) (hsL : s.L = L) (ht : s.t = 1) (hv : s.v = s.x) (k : Nat) :
    ‖(iter (apgmSpecStep p) k s).x - xb‖ ≤ ‖s.x - xb‖ :=
  (fistaInv_traj p h hmin (norm_nonneg _) k s (fistaInv_init p h xb s hsL ht hv)).hx

/-- the iterates after the first step are in `dom g` -/
theorem fista_dom (p : PGMParams Unit ℝ E) {G : Fn E} {L : ℝ} (h : FISTAHyp p G L) {xb : E}
    (hmin : IsMinOn p.f G xb) (s : APGMState Unit ℝ E) (hsL : s.L = L) (ht : s.t = 1) (hv : s.v = s.x) (k : Nat) :
    (iter (apgmSpecStep p) (k + 1) s).x ∈ G.dom := by
  have hk := fistaInv_traj p h hmin (norm_nonneg _) k s (fistaInv_init p h xb s hsL ht hv)
  rw [iter_succ' (apgmSpecStep p) k s]
  obtain ⟨_, hd', _, _⟩ := fista_potential_step p h xb hmin.1 _ hk.hL hk.ht hk.hdom
  exact hd'

/-- closed sub-level sets of `F = f + g` on `dom g` (lower semicontinuity of the closed function `F`) -/
def ClosedSublevels (f : E → ℝ) (G : Fn E) : Prop := ∀ c : ℝ, IsClosed {x : E | x ∈ G.dom ∧ f x + G.val x ≤ c}

/-- FISTA, merely convex `f`: every cluster point of the iterates is a minimiser -/
theorem fista_cluster_min (p : PGMParams Unit ℝ E) {G : Fn E} {L : ℝ} (h : FISTAHyp p G L) {xb : E}
    (hmin : IsMinOn p.f G xb) (hcl : ClosedSublevels p.f G)
    (s : APGMState Unit ℝ E) (hsL : s.L = L) (ht : s.t = 1) (hv : s.v = s.x)
    (φ : ℕ → ℕ) (hφ : StrictMono φ) (xc : E)
    (hlim : Filter.Tendsto (fun k => (iter (apgmSpecStep p) (φ k) s).x) Filter.atTop (nhds xc)) :
    IsMinOn p.f G xc := by
  have hL := h.Lpos
  -- F(x_{k+1}) − F* ≤ 2 L R² / (k+2)² → 0
  have hrate := fun k => fista_rate p h xb hmin.1 s hsL ht hv k
  have hb : Filter.Tendsto (fun k : ℕ => 2 * L * ‖s.x - xb‖ ^ 2 / ((k : ℝ) + 2) ^ 2) Filter.atTop (nhds 0) := by
    have h1 : Filter.Tendsto (fun k : ℕ => ((k : ℝ) + 2)) Filter.atTop Filter.atTop :=
      Filter.tendsto_atTop_add_const_right _ _ tendsto_natCast_atTop_atTop
    have h2 : Filter.Tendsto (fun k : ℕ => ((k : ℝ) + 2) ^ 2) Filter.atTop Filter.atTop :=
      (Filter.tendsto_pow_atTop two_ne_zero).comp h1
    exact h2.const_div_atTop _
  have hsub : ∀ ε : ℝ, 0 < ε → xc ∈ {x : E | x ∈ G.dom ∧ p.f x + G.val x ≤ (p.f xb + G.val xb) + ε} := by
    intro ε hε
    apply (hcl _).mem_of_tendsto hlim
    have hev : ∀ᶠ k : ℕ in Filter.atTop, 2 * L * ‖s.x - xb‖ ^ 2 / ((k : ℝ) + 2) ^ 2 < ε :=
      (hb.eventually (gt_mem_nhds hε))
    obtain ⟨K, hK⟩ := Filter.eventually_atTop.1 hev
    refine Filter.eventually_atTop.2 ⟨K + 1, fun k hk => ?_⟩
    have hφk : K + 1 ≤ φ k := le_trans hk (hφ.id_le k)
    obtain ⟨j, hj⟩ : ∃ j, φ k = j + 1 := ⟨φ k - 1, by omega⟩
    have hjK : K ≤ j := by omega
    constructor
    · show (iter (apgmSpecStep p) (φ k) s).x ∈ G.dom
      rw [hj]; exact fista_dom p h hmin s hsL ht hv j
    · show p.f (iter (apgmSpecStep p) (φ k) s).x + G.val (iter (apgmSpecStep p) (φ k) s).x ≤ _
      rw [hj]
      have := hrate j
      have := hK j hjK
      linarith
  refine ⟨(hsub 1 one_pos).1, fun y hy => ?_⟩
  have hle : p.f xc + G.val xc ≤ p.f xb + G.val xb := by
    apply le_of_forall_pos_le_add
    intro ε hε
    exact (hsub ε hε).2
  exact le_trans hle (hmin.2 y hy)

/-- FISTA, merely convex `f`, finite dimension: a subsequence of the iterates converges to a minimiser -/
theorem fista_subseq [ProperSpace E] (p : PGMParams Unit ℝ E) {G : Fn E} {L : ℝ} (h : FISTAHyp p G L) {xb : E}
    (hmin : IsMinOn p.f G xb) (hcl : ClosedSublevels p.f G)
    (s : APGMState Unit ℝ E) (hsL : s.L = L) (ht : s.t = 1) (hv : s.v = s.x) :
    ∃ xc, IsMinOn p.f G xc ∧ ∃ φ : ℕ → ℕ, StrictMono φ ∧
      Filter.Tendsto (fun k => (iter (apgmSpecStep p) (φ k) s).x) Filter.atTop (nhds xc) := by
  have hbdd : Bornology.IsBounded (Set.range fun k => (iter (apgmSpecStep p) k s).x) := by
    apply (Metric.isBounded_iff_subset_closedBall xb).2
    refine ⟨‖s.x - xb‖, ?_⟩
    rintro _ ⟨k, rfl⟩
    rw [Metric.mem_closedBall, dist_eq_norm]
    exact fista_ball p h hmin s hsL ht hv k
  obtain ⟨xc, _, φ, hφ, hlim⟩ := tendsto_subseq_of_bounded hbdd (fun k => Set.mem_range_self k)
  exact ⟨xc, fista_cluster_min p h hmin hcl s hsL ht hv φ hφ xc hlim, φ, hφ, hlim⟩

/-- FISTA, merely convex `f`, finite dimension, UNIQUE minimiser: the whole sequence of iterates converges to it -/
theorem fista_unique_tendsto [ProperSpace E] (p : PGMParams Unit ℝ E) {G : Fn E} {L : ℝ} (h : FISTAHyp p G L) {xb : E}
    (hmin : IsMinOn p.f G xb) (huniq : ∀ y, IsMinOn p.f G y → y = xb) (hcl : ClosedSublevels p.f G)
    (s : APGMState Unit ℝ E) (hsL : s.L = L) (ht : s.t = 1) (hv : s.v = s.x) :
    Filter.Tendsto (fun k => (iter (apgmSpecStep p) k s).x) Filter.atTop (nhds xb) := by
  have hcomp : IsCompact (Metric.closedBall xb ‖s.x - xb‖) := isCompact_closedBall _ _
  apply hcomp.tendsto_nhds_of_unique_mapClusterPt
  · exact Filter.Eventually.of_forall (fun k => by
      rw [Metric.mem_closedBall, dist_eq_norm]; exact fista_ball p h hmin s hsL ht hv k)
  · intro y _ hy
    obtain ⟨φ, hφ, hlim⟩ := hy.tendsto_subseq
    exact huniq y (fista_cluster_min p h hmin hcl s hsL ht hv φ hφ y hlim)

/-! ### instance (non-vacuity): `f = ½‖· − y0‖²`, `g = 0`, `L = 1` -/

theorem exPGM_isMin (y0 : E) : IsMinOn (exPGM y0).f (zeroFn : Fn E) y0 := by
  refine ⟨trivial, fun y _ => ?_⟩
  simp only [exPGM, zeroFn, Fn.ofReal, sub_self, norm_zero]
  have : 0 ≤ ‖y - y0‖ ^ 2 := by positivity
  nlinarith

theorem exPGM_unique (y0 y : E) (hy : IsMinOn (exPGM y0).f (zeroFn : Fn E) y) : y = y0 := by
  have := hy.2 y0 trivial
  simp only [exPGM, zeroFn, Fn.ofReal, sub_self, norm_zero] at this
  have h0 : ‖y - y0‖ ^ 2 ≤ 0 := by nlinarith
  have : ‖y - y0‖ = 0 := by nlinarith [norm_nonneg (y - y0)]
  exact sub_eq_zero.1 (norm_eq_zero.1 this)

theorem exPGM_closed (y0 : E) : ClosedSublevels (exPGM y0).f (zeroFn : Fn E) := by
  intro c
  have : {x : E | x ∈ (zeroFn : Fn E).dom ∧ (exPGM y0).f x + (zeroFn : Fn E).val x ≤ c}
      = {x : E | 1 / 2 * ‖x - y0‖ ^ 2 + 0 ≤ c} := by
    ext x; simp [exPGM, zeroFn, Fn.ofReal]
  rw [this]
  exact isClosed_le (by fun_prop) continuous_const

end Scico.Steps
