/-
  NaN in the comparisons and sums of the IEEE-extended scalars (used for losses evaluated outside their domain).
-/
import Scico.Proofs.StepSize

set_option linter.unusedSectionVars false

namespace Scico.StepSize

open XR

variable {K : Type} [Field K] [LinearOrder K] [IsStrictOrderedRing K]

theorem xr_add_nan_left (a : XR K) : (nan : XR K) + a = nan := by
  show XR.add nan a = nan
  cases a <;> rfl

theorem xr_not_nan_le (a : XR K) : ¬ ((nan : XR K) ≤ a) := by
  show ¬ (XR.le nan a = true)
  cases a <;> simp [XR.le]

theorem xr_not_le_nan (a : XR K) : ¬ (a ≤ (nan : XR K)) := by
  show ¬ (XR.le a nan = true)
  cases a <;> simp [XR.le]

end Scico.StepSize
