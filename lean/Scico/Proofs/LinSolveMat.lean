/-
  Proofs about the dense-matrix models of `Scico.Model.LinSolve` (C14):
  `MatrixATADSolver` (direct and Woodbury path, vector and matrix right-hand sides, `accuracy`) and the
  per-frequency Sherman–Morrison formula of `ConvATADSolver`.  Over an arbitrary field `K`; the
  conjugation `conj` is an arbitrary map (the identities do not depend on its properties), so the
  theorems hold for real data (`conj = id`) and complex data alike.
-/
import Mathlib.Data.Matrix.Mul
import Mathlib.Algebra.BigOperators.Fin
import Mathlib.Tactic.Ring
import Mathlib.Tactic.Abel
import Mathlib.Tactic.FieldSimp
import Scico.Model.LinSolve

namespace Scico.LinSolve
open Matrix

variable {K : Type} [Field K] [HasConj K] [HasIsZero K]

/-- the zero test of the scalar type is exact (true of `Float ==`-style tests on a field) -/
def LawfulIsZero (K : Type) [Zero K] [HasIsZero K] : Prop := ∀ x : K, isZ x = true ↔ x = 0

theorem allNonzero_iff (hz : LawfulIsZero K) {m : Nat} (W : Vec K m) : allNonzero W = true ↔ ∀ i, W i ≠ 0 := by
  simp only [allNonzero, List.all_eq_true, List.mem_ofFn]
  constructor
  · intro h i hi
    have := h _ ⟨i, rfl⟩
    simp [(hz (W i)).2 hi] at this
  · rintro h _ ⟨i, rfl⟩
    have : isZ (W i) = false := by
      cases hb : isZ (W i) with
      | false => rfl
      | true => exact absurd ((hz (W i)).1 hb) (h i)
    simp [this]

theorem vsum_eq {n : Nat} (v : Fin n → K) : Vec.sum v = ∑ i, v i := by
  simp [Vec.sum, List.sum_ofFn]

theorem mulVec_eq {m n : Nat} (A : Mat K m n) (x : Vec K n) :
    mulVec A x = (Matrix.of A) *ᵥ x := by
  funext i
  simp [mulVec, vsum_eq, Matrix.mulVec, dotProduct]

theorem matMul_eq {m n k : Nat} (A : Mat K m n) (B : Mat K n k) :
    matMul A B = (Matrix.of A * Matrix.of B : Matrix (Fin m) (Fin k) K) := by
  funext i l
  simp [matMul, vsum_eq, Matrix.mul_apply]

/-- **specification**: the documented system matrix `Aᴴ W A + D` -/
def specLhs {m n : Nat} (s : ATAD K m n) : Matrix (Fin n) (Fin n) K :=
  Matrix.of (conjT s.A) * Matrix.diagonal s.W * Matrix.of s.A + Matrix.of s.D.entry

theorem entry_diag {n : Nat} (d : Vec K n) : Matrix.of (DMat.diag d).entry = Matrix.diagonal d := by
  ext i j
  simp [DMat.entry, Matrix.diagonal_apply]

theorem ahwa_entry {m n : Nat} (A : Mat K m n) (W : Vec K m) (i j : Fin n) :
    (∑ k, conj (A k i) * (W k * A k j)) = (Matrix.of (conjT A) * Matrix.diagonal W * Matrix.of A) i j := by
  rw [Matrix.mul_apply]
  simp only [Matrix.mul_diagonal, Matrix.of_apply, conjT]
  apply Finset.sum_congr rfl
  intro k _
  ring

theorem gDirect_eq_spec {m n : Nat} (s : ATAD K m n) :
    (Matrix.of (gDirect s.A s.D s.W) : Matrix (Fin n) (Fin n) K) = specLhs s := by
  ext i j
  simp only [specLhs, Matrix.add_apply, Matrix.of_apply, gDirect, vsum_eq]
  rw [ahwa_entry]

/-- `accuracy`'s left-hand side `Aᴴ (W A) x + D x` is the documented `(Aᴴ W A + D) x` -/
theorem lhsApply_eq_spec {m n : Nat} (s : ATAD K m n) (x : Vec K n) :
    s.lhsApply x = specLhs s *ᵥ x := by
  obtain ⟨A, D, W⟩ := s
  funext i
  rw [specLhs, Matrix.add_mulVec, Pi.add_apply]
  simp only [ATAD.lhsApply, mulVec, matMul, vsum_eq, Matrix.mulVec, dotProduct, conjT]
  congr 1
  · apply Finset.sum_congr rfl
    intro j _
    rw [ahwa_entry]
  · cases D with
    | diag d => simp [DMat.entry]
    | full D => simp [DMat.entry, mulVec, vsum_eq]

theorem lhsApplyM_eq_spec {m n k : Nat} (s : ATAD K m n) (x : Mat K n k) :
    s.lhsApplyM x = (specLhs s * Matrix.of x : Matrix (Fin n) (Fin k) K) := by
  obtain ⟨A, D, W⟩ := s
  funext i l
  rw [specLhs, Matrix.add_mul, Matrix.add_apply]
  rw [show ((Matrix.of (conjT A) * Matrix.diagonal W * Matrix.of A) * Matrix.of x) i l
      = ∑ j, (Matrix.of (conjT A) * Matrix.diagonal W * Matrix.of A) i j * x j l from Matrix.mul_apply]
  simp only [ATAD.lhsApplyM, matMul, vsum_eq, conjT]
  congr 1
  · apply Finset.sum_congr rfl
    intro j _
    rw [ahwa_entry]
  · cases D with
    | diag d => simp [DMat.entry, Matrix.mul_apply]
    | full D => simp [DMat.entry, Matrix.mul_apply, matMul, vsum_eq]

/-! ### the two paths of `MatrixATADSolver.solve` -/

theorem gWoodbury_eq {m n : Nat} (A : Mat K m n) (d : Vec K n) (W : Vec K m) :
    (Matrix.of (gWoodbury A d W) : Matrix (Fin m) (Fin m) K) =
      Matrix.diagonal (fun i => 1 / W i) + Matrix.of A * (Matrix.diagonal (fun k => (d k)⁻¹) * Matrix.of (conjT A)) := by
  ext i j
  rw [Matrix.add_apply, Matrix.mul_apply]
  simp only [gWoodbury, vsum_eq, Matrix.of_apply, Matrix.diagonal_apply, Matrix.diagonal_mul, conjT]
  congr 1
  apply Finset.sum_congr rfl
  intro k _
  rw [div_eq_mul_inv]; ring

/-- algebraic core of the Woodbury path, vector right-hand side -/
theorem woodbury_core_vec {m n : Nat} (Am : Matrix (Fin m) (Fin n) K) (B : Matrix (Fin n) (Fin m) K)
    (d : Fin n → K) (W : Fin m → K) (hd : ∀ k, d k ≠ 0) (hW : ∀ i, W i ≠ 0) (b : Fin n → K) (w : Fin m → K)
    (hw : (Matrix.diagonal (fun i => 1 / W i) + Am * (Matrix.diagonal (fun k => (d k)⁻¹) * B)) *ᵥ w
        = Am *ᵥ (Matrix.diagonal (fun k => (d k)⁻¹) *ᵥ b)) :
    (B * Matrix.diagonal W * Am + Matrix.diagonal d) *ᵥ (Matrix.diagonal (fun k => (d k)⁻¹) *ᵥ (b - B *ᵥ w)) = b := by
  have hDD : Matrix.diagonal d * Matrix.diagonal (fun k => (d k)⁻¹) = (1 : Matrix (Fin n) (Fin n) K) := by
    rw [Matrix.diagonal_mul_diagonal, ← Matrix.diagonal_one]
    congr 1; funext k; exact mul_inv_cancel₀ (hd k)
  have hWW : Matrix.diagonal W * Matrix.diagonal (fun i => 1 / W i) = (1 : Matrix (Fin m) (Fin m) K) := by
    rw [Matrix.diagonal_mul_diagonal, ← Matrix.diagonal_one]
    congr 1; funext i; rw [one_div]; exact mul_inv_cancel₀ (hW i)
  -- A D⁻¹ (b − B w) = W⁻¹ w
  have h1 : Am *ᵥ (Matrix.diagonal (fun k => (d k)⁻¹) *ᵥ (b - B *ᵥ w)) = Matrix.diagonal (fun i => 1 / W i) *ᵥ w := by
    rw [Matrix.mulVec_sub, Matrix.mulVec_sub, ← hw, Matrix.add_mulVec]
    simp only [Matrix.mulVec_mulVec]
    abel
  rw [Matrix.add_mulVec, ← Matrix.mulVec_mulVec, ← Matrix.mulVec_mulVec, h1, Matrix.mulVec_mulVec (M := Matrix.diagonal W),
    hWW, Matrix.one_mulVec, Matrix.mulVec_mulVec (M := Matrix.diagonal d), hDD, Matrix.one_mulVec]
  abel

/-- algebraic core of the Woodbury path, matrix right-hand side -/
theorem woodbury_core_mat {m n k : Nat} (Am : Matrix (Fin m) (Fin n) K) (B : Matrix (Fin n) (Fin m) K)
    (d : Fin n → K) (W : Fin m → K) (hd : ∀ k, d k ≠ 0) (hW : ∀ i, W i ≠ 0) (b : Matrix (Fin n) (Fin k) K)
    (w : Matrix (Fin m) (Fin k) K)
    (hw : (Matrix.diagonal (fun i => 1 / W i) + Am * (Matrix.diagonal (fun k => (d k)⁻¹) * B)) * w
        = Am * (Matrix.diagonal (fun k => (d k)⁻¹) * b)) :
    (B * Matrix.diagonal W * Am + Matrix.diagonal d) * (Matrix.diagonal (fun k => (d k)⁻¹) * (b - B * w)) = b := by
  have hDD : Matrix.diagonal d * Matrix.diagonal (fun k => (d k)⁻¹) = (1 : Matrix (Fin n) (Fin n) K) := by
    rw [Matrix.diagonal_mul_diagonal, ← Matrix.diagonal_one]
    congr 1; funext k; exact mul_inv_cancel₀ (hd k)
  have hWW : Matrix.diagonal W * Matrix.diagonal (fun i => 1 / W i) = (1 : Matrix (Fin m) (Fin m) K) := by
    rw [Matrix.diagonal_mul_diagonal, ← Matrix.diagonal_one]
    congr 1; funext i; rw [one_div]; exact mul_inv_cancel₀ (hW i)
  have h1 : Am * (Matrix.diagonal (fun k => (d k)⁻¹) * (b - B * w)) = Matrix.diagonal (fun i => 1 / W i) * w := by
    rw [Matrix.mul_sub, Matrix.mul_sub, ← hw, Matrix.add_mul]
    simp only [Matrix.mul_assoc]
    abel
  rw [Matrix.add_mul, Matrix.mul_assoc (B * Matrix.diagonal W), h1, Matrix.mul_assoc B, ← Matrix.mul_assoc (Matrix.diagonal W),
    hWW, Matrix.one_mul, ← Matrix.mul_assoc (Matrix.diagonal d), hDD, Matrix.one_mul]
  abel

theorem diag_inv_mulVec {n : Nat} (d u : Fin n → K) :
    (fun k => u k / d k) = Matrix.diagonal (fun k => (d k)⁻¹) *ᵥ u := by
  funext k
  rw [Matrix.mulVec_diagonal, div_eq_mul_inv, mul_comm]

/-- **`MatrixATADSolver.solve`, vector right-hand side**: on whichever path the code takes, the returned
    `x` solves the documented system `(Aᴴ W A + D) x = b`, given the contract of the factorisation
    (`fsW`/`fsD` invert the matrix that was factorised) and, on the Woodbury path, non-zero `D`, `W`. -/
theorem atad_solve_spec (hz : LawfulIsZero K) {m n : Nat} (s : ATAD K m n) (fsW : Vec K m → Vec K m) (fsD : Vec K n → Vec K n) (b : Vec K n)
    (hfsW : ∀ d, s.D = .diag d → ∀ c, mulVec (gWoodbury s.A d s.W) (fsW c) = c)
    (hfsD : ∀ c, mulVec (gDirect s.A s.D s.W) (fsD c) = c)
    (hnz : ∀ d, s.D = .diag d → s.useWoodbury = true → ∀ k, d k ≠ 0) :
    specLhs s *ᵥ (s.solve fsW fsD b) = b := by
  have hdirect : specLhs s *ᵥ fsD b = b := by
    rw [← gDirect_eq_spec, ← mulVec_eq]; exact hfsD b
  obtain ⟨A, D, W⟩ := s
  cases D with
  | full D => exact hdirect
  | diag d =>
    simp only [ATAD.solve]
    split
    · rename_i hwb
      have hd := hnz d rfl hwb
      have hW : ∀ i, W i ≠ 0 := by
        have : allNonzero W = true := by
          simp only [ATAD.useWoodbury, Bool.and_eq_true] at hwb; exact hwb.2
        exact (allNonzero_iff hz W).1 this
      set w := fsW (mulVec A fun k => b k / d k) with hw
      have hc := hfsW d rfl (mulVec A fun k => b k / d k)
      dsimp only at hc
      rw [← hw, mulVec_eq, mulVec_eq, gWoodbury_eq, diag_inv_mulVec d b] at hc
      have hx : (fun k => (b k - mulVec (conjT A) w k) / d k)
          = Matrix.diagonal (fun k => (d k)⁻¹) *ᵥ (b - Matrix.of (conjT A) *ᵥ w) := by
        rw [← diag_inv_mulVec, mulVec_eq]; rfl
      rw [hx, specLhs, entry_diag]
      exact woodbury_core_vec (Matrix.of A) (Matrix.of (conjT A)) d W hd hW b w hc
    · exact hdirect

theorem diag_inv_mul {n k : Nat} (d : Fin n → K) (u : Matrix (Fin n) (Fin k) K) :
    (Matrix.of fun i l => u i l / d i) = Matrix.diagonal (fun k => (d k)⁻¹) * u := by
  ext i l
  rw [Matrix.diagonal_mul, Matrix.of_apply, div_eq_mul_inv, mul_comm]

/-- **`MatrixATADSolver.solve`, 2-D right-hand side** -/
theorem atad_solveM_spec (hz : LawfulIsZero K) {m n k : Nat} (s : ATAD K m n) (fsW : Mat K m k → Mat K m k) (fsD : Mat K n k → Mat K n k)
    (b : Mat K n k)
    (hfsW : ∀ d, s.D = .diag d → ∀ c, matMul (gWoodbury s.A d s.W) (fsW c) = c)
    (hfsD : ∀ c, matMul (gDirect s.A s.D s.W) (fsD c) = c)
    (hnz : ∀ d, s.D = .diag d → s.useWoodbury = true → ∀ k, d k ≠ 0) :
    (specLhs s * Matrix.of (s.solveM fsW fsD b) : Matrix (Fin n) (Fin k) K) = Matrix.of b := by
  have hdirect : (specLhs s * Matrix.of (fsD b) : Matrix (Fin n) (Fin k) K) = Matrix.of b := by
    rw [← gDirect_eq_spec, ← matMul_eq]; exact hfsD b
  obtain ⟨A, D, W⟩ := s
  cases D with
  | full D => exact hdirect
  | diag d =>
    simp only [ATAD.solveM]
    split
    · rename_i hwb
      have hd := hnz d rfl hwb
      have hW : ∀ i, W i ≠ 0 := by
        have : allNonzero W = true := by
          simp only [ATAD.useWoodbury, Bool.and_eq_true] at hwb; exact hwb.2
        exact (allNonzero_iff hz W).1 this
      set w := fsW (matMul A fun i l => b i l / d i) with hw
      have hc := hfsW d rfl (matMul A fun i l => b i l / d i)
      dsimp only at hc
      rw [← hw, matMul_eq, matMul_eq, gWoodbury_eq] at hc
      have hbd : (Matrix.of fun i l => b i l / d i) = Matrix.diagonal (fun k => (d k)⁻¹) * Matrix.of b :=
        diag_inv_mul d (Matrix.of b)
      rw [hbd] at hc
      have hx : (Matrix.of fun i l => (b i l - matMul (conjT A) w i l) / d i)
          = Matrix.diagonal (fun k => (d k)⁻¹) * (Matrix.of b - Matrix.of (conjT A) * Matrix.of w) := by
        rw [← diag_inv_mul, matMul_eq]; rfl
      rw [hx, specLhs, entry_diag]
      exact woodbury_core_mat (Matrix.of A) (Matrix.of (conjT A)) d W hd hW (Matrix.of b) (Matrix.of w) hc
    · exact hdirect

/-! ### `ConvATADSolver`: Sherman–Morrison at one frequency -/

/-- For every frequency `w`: if `D̂` has no zero and `1 + Σ_k Â_k conj(Â_k) / D̂_k ≠ 0`, the `x̂` computed by
    `solve` satisfies the documented system `conj(Â_j) Σ_k Â_k x̂_k + D̂_j x̂_j = b̂_j` for every filter `j`. -/
theorem conv_solve_spec {Kf N : Nat} (Ahat Dhat bhat : Mat K Kf N) (w : Fin N)
    (hD : ∀ k, Dhat k w ≠ 0)
    (hE : 1 + ∑ k, Ahat k w * (conj (Ahat k w) / Dhat k w) ≠ 0) (j : Fin Kf) :
    convLhsHat Ahat Dhat (convSolveHat Ahat Dhat bhat) j w = bhat j w := by
  simp only [convLhsHat, convSolveHat, convAHEinv, vsum_eq]
  set S1 := ∑ k, Ahat k w * (conj (Ahat k w) / Dhat k w) with hS1
  set S2 := ∑ k, Ahat k w * bhat k w / Dhat k w with hS2
  have hsum : ∑ k, Ahat k w * ((bhat k w - conj (Ahat k w) / (1 + S1) * S2) / Dhat k w) = S2 / (1 + S1) := by
    have : ∀ k, Ahat k w * ((bhat k w - conj (Ahat k w) / (1 + S1) * S2) / Dhat k w)
        = Ahat k w * bhat k w / Dhat k w - (S2 / (1 + S1)) * (Ahat k w * (conj (Ahat k w) / Dhat k w)) := by
      intro k
      have := hD k
      field_simp
    rw [Finset.sum_congr rfl (fun k _ => this k), Finset.sum_sub_distrib, ← Finset.mul_sum, ← hS1, ← hS2]
    field_simp
    ring
  rw [hsum]
  have := hD j
  field_simp
  ring

end Scico.LinSolve
