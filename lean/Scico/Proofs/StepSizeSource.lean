/-
  Links between the source tables (`Model/StepSizeSource.lean`, kept equal to the scico source by the generated
  obligations of `Generated/StepSizeTables.lean`) and the model functions the theorems are about.
-/
import Scico.Model.StepSizeSource
import Scico.Proofs.StepSize
import Mathlib.Tactic.NormNum

set_option linter.unusedSectionVars false

namespace Scico.StepSize

open XR

/-- `Policy.isBB` (the model's test in `apgmPoint`) is `isinstance(step_size, <classes of the first test>)` for the class
    hierarchy and the class tuple read from the source -/
theorem isBB_eq_dispatch {S : Type} (pol : Policy S) :
    pol.isBB = isInstanceOf policyClasses pol.className dispatch.apgmArgClasses := by
  cases pol <;> (simp only [Policy.isBB, Policy.className]; decide +kernel)

/-- the model's robust branch (`match pol with | .rls .. => take Z`) is `isinstance(step_size, <classes of the second test>)` -/
theorem isRls_eq_dispatch {S : Type} (pol : Policy S) :
    (match pol with | .rls _ _ _ => true | _ => false) =
      isInstanceOf policyClasses pol.className dispatch.apgmZClasses := by
  cases pol <;> (simp only [Policy.className]; decide +kernel)

/-- the arguments: `PGM.step` passes `self.x`; `AcceleratedPGM.step` passes `self.x` to the BB classes, `self.v` otherwise, and
    takes `self.step_size.Z` in the robust branch — what `pgmStep`, `apgmPoint`, `apgmStep` transcribe -/
theorem dispatch_args :
    dispatch.pgmArg = "self.x" ∧ dispatch.apgmArgThen = "self.x" ∧ dispatch.apgmArgElse = "self.v" ∧
      dispatch.apgmZThen = "self.step_size.Z" := by decide +kernel

section defaults
variable {K : Type} [Field K]

/-- the number a literal denotes -/
def PyLit.toField : PyLit → Option K
  | .int n => some (n : K)
  | .dec m e => some ((m : K) / 10 ^ e)
  | _ => Option.none

def PyLit.toNat? : PyLit → Option Nat
  | .int n => if 0 ≤ n then some n.toNat else Option.none
  | _ => Option.none

def param (ps : List (String × PyLit)) (name : String) : Option PyLit := (ps.find? (fun p => p.1 == name)).map (·.2)

/-- the policy object `Cls()` constructed with all defaults, from a row of the class table -/
def policyOfDefaults (cls : String) (ps : List (String × PyLit)) : Option (Policy (XR K)) :=
  if cls = "PGMStepSize" then some .base
  else if cls = "BBStepSize" then some .bb
  else if cls = "AdaptiveBBStepSize" then
    ((param ps "kappa").bind PyLit.toField).map (fun k => Policy.abb (fin k))
  else if cls = "LineSearchStepSize" then
    match (param ps "gamma_u").bind PyLit.toField, (param ps "maxiter").bind PyLit.toNat? with
    | some g, some m => some (.ls (fin g) m)
    | _, _ => none
  else if cls = "RobustLineSearchStepSize" then
    match (param ps "gamma_d").bind PyLit.toField, (param ps "gamma_u").bind PyLit.toField, (param ps "maxiter").bind PyLit.toNat? with
    | some d, some g, some m => some (.rls (fin d) (fin g) m)
    | _, _, _ => none
  else none

end defaults


/-- **The constructor defaults satisfy the hypotheses of the positivity theorems** (`PolOK`: `γ_u, γ_d` finite and positive):
    every class of the table yields, with all defaults, an admissible policy — `κ = 1/2`, `γ_u = 6/5`, `maxiter = 50`;
    `γ_d = 9/10`, `γ_u = 2`, `maxiter = 50`. -/
theorem defaults_ok :
    policyOfDefaults (K := ℚ) "PGMStepSize" [] = some .base ∧
    policyOfDefaults (K := ℚ) "BBStepSize" [] = some .bb ∧
    (∀ r ∈ policyClasses, ∃ pol : Policy (XR ℚ), policyOfDefaults r.1 r.2.2 = some pol ∧ PolOK pol ∧ pol.className = r.1) := by
  refine ⟨rfl, rfl, ?_⟩
  intro r hr
  simp only [policyClasses, List.mem_cons, List.not_mem_nil, or_false] at hr
  rcases hr with rfl | rfl | rfl | rfl | rfl
  · exact ⟨.base, rfl, trivial, rfl⟩
  · exact ⟨.bb, rfl, trivial, rfl⟩
  · exact ⟨.abb (fin ((5 : ℚ) / 10 ^ 1)), by simp [policyOfDefaults, param, PyLit.toField], trivial, rfl⟩
  · refine ⟨.ls (fin ((12 : ℚ) / 10 ^ 1)) 50, by simp [policyOfDefaults, param, PyLit.toField, PyLit.toNat?], ?_, rfl⟩
    exact ⟨_, rfl, by norm_num⟩
  · refine ⟨.rls (fin ((9 : ℚ) / 10 ^ 1)) (fin ((20 : ℚ) / 10 ^ 1)) 50,
      by simp [policyOfDefaults, param, PyLit.toField, PyLit.toNat?], ?_, rfl⟩
    exact ⟨⟨_, rfl, by norm_num⟩, ⟨_, rfl, by norm_num⟩⟩

end Scico.StepSize
