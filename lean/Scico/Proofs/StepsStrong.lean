/-
  Proofs/StepsStrong — strongly convex `f`: the ITERATES of PDHG (`alpha = 1`, linear `C`) and of AcceleratedPGM converge
  to the unique minimiser from every start.

  * PDHG: with `∂f` `m`-strongly monotone the Fejér inequality gains `2m‖x⁺ − x*‖²`:
      `M(w⁺ − w*) + M(w − w⁺) + 2m‖x⁺ − x*‖² ≤ M(w − w*)`, so `Σ_k ‖x_k − x*‖² < ∞`.
  * FISTA: `(m/2)‖x − x*‖² ≤ F(x) − F(x*)` for `m`-strongly convex `f`, combined with the `O(1/k²)` bound:
      `‖x_{k+1} − x*‖² ≤ 4L‖x_0 − x*‖² / (m (k+2)²)`.
-/
import Scico.Model.Steps
import Scico.Proofs.StepsConvex
import Scico.Proofs.StepsFixed
import Scico.Proofs.StepsPGM
import Scico.Proofs.StepsRelax
import Scico.Proofs.StepsPDHG
import Scico.Proofs.StepsFISTA
import Mathlib.Tactic.Abel

set_option linter.unusedSectionVars false

namespace Scico.Steps

variable {X Z : Type} [NormedAddCommGroup X] [InnerProductSpace ℝ X]
  [NormedAddCommGroup Z] [InnerProductSpace ℝ Z]

local notation "⟪" x ", " y "⟫" => inner ℝ x y

/-! ### PDHG -/

/-- the Fejér step with the strong-monotonicity gain: same algebra as `pdhg_fejer_core`, with
    `m‖x⁺ − x*‖² ≤ ⟪…⟫` in place of `0 ≤ ⟪…⟫` for the primal inclusion -/
theorem pdhg_fejer_core_strong (C : X → Z) (Cadj : Z → X) (hadd : ∀ x y, C (x + y) = C x + C y)
    (hadj : ∀ w x, ⟪Cadj w, x⟫ = ⟪w, C x⟫) {tau sigma m : ℝ} (ht : 0 < tau) (hs : 0 < sigma)
    (x xn xs : X) (z zn zs : Z)
    (hA : m * ‖xn - xs‖ ^ 2 ≤ ⟪(1 / tau) • (x - tau • Cadj z - xn) - (-(Cadj zs)), xn - xs⟫)
    (hB : 0 ≤ ⟪zn - zs, (1 / sigma) • (z + sigma • C ((1 + 1 : ℝ) • xn - (1 : ℝ) • x) - zn) - C xs⟫) :
    pdM C tau sigma (xn - xs) (zn - zs) + pdM C tau sigma (x - xn) (z - zn) + 2 * (m * ‖xn - xs‖ ^ 2)
      ≤ pdM C tau sigma (x - xs) (z - zs) := by
  -- reduce to the monotone case for the shifted first inclusion: the core lemma is linear in `hA`
  have hsub : ∀ u v, C (u - v) = C u - C v := by
    intro u v
    have := hadd (u - v) v
    rw [sub_add_cancel] at this
    rw [this]; abel
  set a' := xn - xs with ha'
  set b' := zn - zs with hb'
  set da := x - xn with hda
  set db := z - zn with hdb
  clear_value a' b' da db
  have ea : x - xs = a' + da := by rw [ha', hda]; abel
  have eb : z - zs = b' + db := by rw [hb', hdb]; abel
  rw [ea, eb, pdM_add C hadd]
  have hA' : m * ‖a'‖ ^ 2 ≤ ⟪da, a'⟫ / tau - ⟪b' + db, C a'⟫ := by
    have e : (1 / tau) • (x - tau • Cadj z - xn) - (-(Cadj zs)) = (1 / tau) • da - Cadj z + Cadj zs := by
      have : x - tau • Cadj z - xn = da - tau • Cadj z := by rw [hda]; abel
      rw [this, smul_sub, smul_smul]
      have : 1 / tau * tau = 1 := by field_simp
      rw [this, one_smul]; abel
    rw [e, inner_add_left, inner_sub_left, inner_smul_left, hadj, hadj] at hA
    simp only [RCLike.conj_to_real] at hA
    have : ⟪b' + db, C a'⟫ = ⟪z, C a'⟫ - ⟪zs, C a'⟫ := by rw [← eb, inner_sub_left]
    rw [this]
    have e2 : 1 / tau * ⟪da, a'⟫ = ⟪da, a'⟫ / tau := by ring
    linarith
  have hB' : 0 ≤ ⟪b', db⟫ / sigma + ⟪b', C a'⟫ - ⟪b', C da⟫ := by
    have e : (1 / sigma) • (z + sigma • C ((1 + 1 : ℝ) • xn - (1 : ℝ) • x) - zn) - C xs
        = (1 / sigma) • db + (C a' - C da) := by
      have h1 : z + sigma • C ((1 + 1 : ℝ) • xn - (1 : ℝ) • x) - zn = db + sigma • C ((1 + 1 : ℝ) • xn - (1 : ℝ) • x) := by
        rw [hdb]; abel
      rw [h1, smul_add, smul_smul]
      have : 1 / sigma * sigma = 1 := by field_simp
      rw [this, one_smul]
      have h2 : (1 + 1 : ℝ) • xn - (1 : ℝ) • x - xs = a' - da := by
        rw [ha', hda]; simp only [add_smul, one_smul]; abel
      have h3 : C ((1 + 1 : ℝ) • xn - (1 : ℝ) • x) - C xs = C a' - C da := by
        rw [← hsub, h2, hsub]
      rw [add_sub_assoc, h3]
    rw [e, inner_add_right, inner_smul_right] at hB
    have e2 : 1 / sigma * ⟪b', db⟫ = ⟪b', db⟫ / sigma := by ring
    have e3 : ⟪b', C a' - C da⟫ = ⟪b', C a'⟫ - ⟪b', C da⟫ := inner_sub_right _ _ _
    linarith
  rw [inner_add_left] at hA'
  have c1 : ⟪a', da⟫ = ⟪da, a'⟫ := real_inner_comm _ _
  have c2 : ⟪C a', db⟫ = ⟪db, C a'⟫ := real_inner_comm _ _
  have c3 : ⟪C da, b'⟫ = ⟪b', C da⟫ := real_inner_comm _ _
  rw [c1, c2, c3]
  linarith

theorem pdhg_fejer_step_strong (p : PDHGParams ℝ X Z) (F : Fn X) (xs : X) (zs : Z) (H : PDHGHyp p F xs zs)
    {m : ℝ} (hsm : StrongSub F m) (s : PDHGState X Z) :
    pdM p.C p.tau p.sigma ((pdhgSpecStep p s).x - xs) ((pdhgSpecStep p s).z - zs)
        + pdM p.C p.tau p.sigma (s.x - (pdhgSpecStep p s).x) (s.z - (pdhgSpecStep p s).z)
        + 2 * (m * ‖(pdhgSpecStep p s).x - xs‖ ^ 2)
      ≤ pdM p.C p.tau p.sigma (s.x - xs) (s.z - zs) := by
  have hx : (pdhgSpecStep p s).x = p.proxf p.tau (s.x - p.tau • p.Cadj s.z) := by
    unfold pdhgSpecStep; simp only [H.lin]
  have hz : (pdhgSpecStep p s).z
      = p.proxgConj p.sigma (s.z + p.sigma • p.C ((1 + 1 : ℝ) • (pdhgSpecStep p s).x - (1 : ℝ) • s.x)) := by
    unfold pdhgSpecStep; simp only [H.lin, H.alpha1]
  set xn := (pdhgSpecStep p s).x with hxn
  set zn := (pdhgSpecStep p s).z with hzn
  apply pdhg_fejer_core_strong p.C p.Cadj H.add H.adj H.tau H.sigma s.x xn xs s.z zn zs
  · have h1 := H.proxf p.tau H.tau (s.x - p.tau • p.Cadj s.z)
    rw [← hx] at h1
    exact hsm _ _ _ _ h1 H.kktx
  · have h2 := H.dual p.sigma H.sigma (s.z + p.sigma • p.C ((1 + 1 : ℝ) • xn - (1 : ℝ) • s.x))
    rw [← hz] at h2
    exact h2

/-- strongly convex `f`, `τσ‖C‖² ≤ θ² ≤ 1`: from every start the PDHG iterates `x_k` converge to the minimiser -/
theorem pdhg_x_tendsto (p : PDHGParams ℝ X Z) (F : Fn X) (xs : X) (zs : Z) (H : PDHGHyp p F xs zs)
    {Lc theta : ℝ} (R : PDHGRange p Lc theta) {m : ℝ} (hm : 0 < m) (hsm : StrongSub F m) (s : PDHGState X Z) :
    Filter.Tendsto (fun k => (iter (pdhgSpecStep p) k s).x) Filter.atTop (nhds xs) := by
  have hth : 0 ≤ 1 - theta := by linarith [R.th1]
  have low := fun (a : X) (b : Z) => pdM_lower p.C H.tau H.sigma R.L0 R.th0 R.bd R.ts a b
  have hMnn : ∀ (a : X) (b : Z), 0 ≤ pdM p.C p.tau p.sigma a b := by
    intro a b
    have h0 : 0 ≤ ‖a‖ ^ 2 / p.tau + ‖b‖ ^ 2 / p.sigma := by have := H.tau; have := H.sigma; positivity
    have := mul_nonneg hth h0
    linarith [low a b]
  -- telescoped: 2m Σ_{j<k} ‖x_{j+1} − x*‖² + M_k ≤ M_0
  have hsum : ∀ k, (∑ j ∈ Finset.range k, 2 * (m * ‖(iter (pdhgSpecStep p) (j + 1) s).x - xs‖ ^ 2))
      + pdM p.C p.tau p.sigma ((iter (pdhgSpecStep p) k s).x - xs) ((iter (pdhgSpecStep p) k s).z - zs)
      ≤ pdM p.C p.tau p.sigma (s.x - xs) (s.z - zs) := by
    intro k
    induction k with
    | zero => simp [iter]
    | succ k ih =>
      rw [Finset.sum_range_succ]
      have h := pdhg_fejer_step_strong p F xs zs H hsm (iter (pdhgSpecStep p) k s)
      rw [← iter_succ' (pdhgSpecStep p) k s] at h
      have := hMnn ((iter (pdhgSpecStep p) k s).x - (iter (pdhgSpecStep p) (k + 1) s).x)
        ((iter (pdhgSpecStep p) k s).z - (iter (pdhgSpecStep p) (k + 1) s).z)
      linarith
  have hT : Filter.Tendsto (fun k => 2 * (m * ‖(iter (pdhgSpecStep p) (k + 1) s).x - xs‖ ^ 2)) Filter.atTop (nhds 0) := by
    apply tendsto_zero_of_partial_sums_le (c := pdM p.C p.tau p.sigma (s.x - xs) (s.z - zs))
    · intro n; positivity
    · intro n
      have := hsum n
      have := hMnn ((iter (pdhgSpecStep p) n s).x - xs) ((iter (pdhgSpecStep p) n s).z - zs)
      linarith
  have hb := hT.const_mul (1 / (2 * m))
  rw [mul_zero] at hb
  rw [← Filter.tendsto_add_atTop_iff_nat 1, tendsto_iff_norm_sub_tendsto_zero]
  refine tendsto_zero_of_sq_le (fun k => norm_nonneg _) (fun k => ?_) hb
  have : 1 / (2 * m) * (2 * (m * ‖(iter (pdhgSpecStep p) (k + 1) s).x - xs‖ ^ 2))
      = ‖(iter (pdhgSpecStep p) (k + 1) s).x - xs‖ ^ 2 := by field_simp
  rw [this]

/-! ### FISTA -/

variable {E : Type} [NormedAddCommGroup E] [InnerProductSpace ℝ E]

/-- strong convexity of a differentiable `f` in function form -/
def GradStrongConvex (f : E → ℝ) (grad : E → E) (m : ℝ) : Prop :=
  ∀ x y, f x + inner ℝ (grad x) (y - x) + m / 2 * ‖y - x‖ ^ 2 ≤ f y

/-- `(m/2)‖x − x*‖² ≤ F(x) − F(x*)` at a KKT point -/
theorem strong_gap {f : E → ℝ} {grad : E → E} {G : Fn E} {m : ℝ} (hs : GradStrongConvex f grad m) {xs : E}
    (hk : G.Subgrad xs (-(grad xs))) (x : E) (hx : x ∈ G.dom) :
    m / 2 * ‖x - xs‖ ^ 2 ≤ (f x + G.val x) - (f xs + G.val xs) := by
  have h1 := hs xs x
  have h2 := hk.2 x hx
  rw [inner_neg_left] at h2
  linarith

/-- quadratics with `m ≤ H` are `m`-strongly convex in function form -/
theorem quad_gradStrong (H : E → E) (b : E) (hadd : ∀ x y, H (x + y) = H x + H y)
    (hsym : ∀ x y, inner ℝ (H x) y = inner ℝ x (H y)) {m : ℝ} (hlb : ∀ x, m * ‖x‖ ^ 2 ≤ inner ℝ (H x) x) :
    GradStrongConvex (fun x => 1 / 2 * inner ℝ (H x) x - inner ℝ b x) (fun x => H x - b) m := by
  intro x y
  have hy : y = x + (y - x) := by abel
  set d := y - x
  have e1 : H y = H x + H d := by rw [hy, hadd]
  have hb := hlb d
  simp only
  rw [e1]
  conv_rhs => rw [hy]
  rw [inner_add_left, inner_add_right, inner_add_right, inner_add_right, inner_sub_left]
  have e2 : inner ℝ (H d) x = inner ℝ (H x) d := by rw [hsym, real_inner_comm]
  rw [e2]
  nlinarith

attribute [local instance] realHasSqrt

/-- FISTA, `m`-strongly convex `f`: `‖x_{k+1} − x*‖² ≤ 4L‖x_0 − x*‖²/(m (k+2)²)`, hence `x_k → x*` from every start -/
theorem fista_x_rate (p : PGMParams Unit ℝ E) {G : Fn E} {L m : ℝ} (h : FISTAHyp p G L) (hm : 0 < m)
    (hs : GradStrongConvex p.f p.gradf m) {xs : E} (hk : G.Subgrad xs (-(p.gradf xs)))
    (s : APGMState Unit ℝ E) (hsL : s.L = L) (ht : s.t = 1) (hv : s.v = s.x) (k : Nat) :
    ‖(iter (apgmSpecStep p) (k + 1) s).x - xs‖ ^ 2 ≤ 4 * L * ‖s.x - xs‖ ^ 2 / (m * ((k : ℝ) + 2) ^ 2) := by
  have hrate := fista_rate p h xs hk.1 s hsL ht hv k
  obtain ⟨_, _, _, hdom⟩ := fista_potential_traj p h xs hk.1 (k + 1) s hsL (by rw [ht]) (Or.inr ht)
  have hd : (iter (apgmSpecStep p) (k + 1) s).x ∈ G.dom := by
    rcases hdom with hd | h1
    · exact hd
    · -- t_{k+1} ≥ 3/2 > 1, so this case is impossible
      exfalso
      obtain ⟨z0, hz⟩ := h.pol
      have hkind : p.pol.kind ≠ .robust := by rw [hz]; simp [basePolicy]
      have := apgm_t_lower p hkind (k + 1) s (by rw [ht]; norm_num)
      rw [ht, h1] at this
      have hk0 : (0 : ℝ) ≤ (k : ℝ) := Nat.cast_nonneg k
      push_cast at this
      linarith
  have hgap := strong_gap hs hk _ hd
  have hpos : (0 : ℝ) < m * ((k : ℝ) + 2) ^ 2 := by positivity
  have hpos2 : (0 : ℝ) < ((k : ℝ) + 2) ^ 2 := by positivity
  rw [le_div_iff₀ hpos]
  rw [le_div_iff₀ hpos2] at hrate
  nlinarith

theorem fista_x_tendsto (p : PGMParams Unit ℝ E) {G : Fn E} {L m : ℝ} (h : FISTAHyp p G L) (hm : 0 < m)
    (hs : GradStrongConvex p.f p.gradf m) {xs : E} (hk : G.Subgrad xs (-(p.gradf xs)))
    (s : APGMState Unit ℝ E) (hsL : s.L = L) (ht : s.t = 1) (hv : s.v = s.x) :
    Filter.Tendsto (fun k => (iter (apgmSpecStep p) k s).x) Filter.atTop (nhds xs) := by
  have hL := h.Lpos
  rw [← Filter.tendsto_add_atTop_iff_nat 1, tendsto_iff_norm_sub_tendsto_zero]
  have hb : Filter.Tendsto (fun k : ℕ => 4 * L * ‖s.x - xs‖ ^ 2 / (m * ((k : ℝ) + 2) ^ 2)) Filter.atTop (nhds 0) := by
    have h1 : Filter.Tendsto (fun k : ℕ => ((k : ℝ) + 2)) Filter.atTop Filter.atTop :=
      Filter.tendsto_atTop_add_const_right _ _ tendsto_natCast_atTop_atTop
    have h2 : Filter.Tendsto (fun k : ℕ => m * ((k : ℝ) + 2) ^ 2) Filter.atTop Filter.atTop := by
      apply Filter.Tendsto.const_mul_atTop hm
      exact (Filter.tendsto_pow_atTop two_ne_zero).comp h1
    exact h2.const_div_atTop _ |>.congr (fun _ => rfl) |> fun h3 => by simpa using h3
  exact tendsto_zero_of_sq_le (fun k => norm_nonneg _) (fun k => fista_x_rate p h hm hs hk s hsL ht hv k) hb

end Scico.Steps
