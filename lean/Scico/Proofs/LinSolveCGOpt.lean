/-
  Optimality of the conjugate-gradient iterates (C14, round 2): `x_k` minimises the `A`-norm of the error over the
  affine space `x_k + span{p_0, …, p_{k-1}}` (= `x_0 +` the Krylov space), for Hermitian positive-definite `A` and Hermitian `M`.
-/
import Mathlib.Analysis.InnerProductSpace.Basic
import Mathlib.LinearAlgebra.Span.Defs
import Scico.Proofs.LinSolveCGConj

namespace Scico.LinSolve
open RCLike

variable {𝕜 V : Type} [RCLike 𝕜] [NormedAddCommGroup V] [InnerProductSpace 𝕜 V]

/-- anything in the span of vectors orthogonal to `w` is orthogonal to `w` -/
theorem inner_span_zero {ι : Type} (w : V) (p : ι → V) (h : ∀ j, inner 𝕜 w (p j) = 0) (v : V)
    (hv : v ∈ Submodule.span 𝕜 (Set.range p)) : inner 𝕜 w v = 0 := by
  induction hv using Submodule.span_induction with
  | mem x hx => obtain ⟨j, rfl⟩ := hx; exact h j
  | zero => simp
  | add x y _ _ hx hy => rw [inner_add_right, hx, hy, add_zero]
  | smul c x _ hx => rw [inner_smul_right, hx, mul_zero]

/-- **CG is optimal**: with `A x⋆ = b`, for every `v` in the span of the search directions used so far,
    `‖x⋆ − x_k‖_A ≤ ‖x⋆ − (x_k + v)‖_A`; more precisely `‖x⋆ − (x_k + v)‖²_A = ‖x⋆ − x_k‖²_A + ‖v‖²_A`. -/
theorem cg_optimal (A : V →ₗ[𝕜] V) (M : V → V) (b x0 xs : V) (hxs : A xs = b)
    (hAs : ∀ x y, inner 𝕜 (A x) y = inner 𝕜 x (A y)) (hAp : ∀ x, x ≠ 0 → 0 < re (inner 𝕜 x (A x)))
    (hM : ∀ x y, inner 𝕜 (M x) y = inner 𝕜 x (M y)) (k : ℕ)
    (hrun : ∀ j < k, (cgSeq (𝕜 := 𝕜) (⇑A) M b x0 j).num ≠ 0) (v : V)
    (hv : v ∈ Submodule.span 𝕜 (Set.range fun j : Fin k => (cgSeq (𝕜 := 𝕜) (⇑A) M b x0 j.val).p)) :
    let xk := (cgSeq (𝕜 := 𝕜) (⇑A) M b x0 k).x
    re (inner 𝕜 (xs - (xk + v)) (A (xs - (xk + v)))) = re (inner 𝕜 (xs - xk) (A (xs - xk))) + re (inner 𝕜 v (A v)) ∧
      re (inner 𝕜 (xs - xk) (A (xs - xk))) ≤ re (inner 𝕜 (xs - (xk + v)) (A (xs - (xk + v)))) := by
  intro xk
  have hC := cgConj (A := A) (M := M) (b := b) (x0 := x0) hAs hAp hM k hrun
  have hinv := hC.inv k le_rfl
  have hAe : A (xs - xk) = (cgSeq (𝕜 := 𝕜) (⇑A) M b x0 k).r := by rw [map_sub, hxs, hinv.res]
  have hrv : inner 𝕜 (cgSeq (𝕜 := 𝕜) (⇑A) M b x0 k).r v = 0 :=
    inner_span_zero _ (fun j : Fin k => (cgSeq (𝕜 := 𝕜) (⇑A) M b x0 j.val).p) (fun j => hC.rp k j.val j.isLt le_rfl) v hv
  have hvr : inner 𝕜 v (cgSeq (𝕜 := 𝕜) (⇑A) M b x0 k).r = 0 := by
    rw [← inner_conj_symm, hrv, map_zero]
  have e : xs - (xk + v) = (xs - xk) - v := by abel
  have hexp : re (inner 𝕜 (xs - (xk + v)) (A (xs - (xk + v)))) = re (inner 𝕜 (xs - xk) (A (xs - xk))) + re (inner 𝕜 v (A v)) := by
    rw [e, map_sub, inner_sub_left, inner_sub_right, inner_sub_right, hAe, ← hAs (xs - xk) v, hAe, hrv, hvr]
    simp
  refine ⟨hexp, ?_⟩
  rw [hexp]
  have : 0 ≤ re (inner 𝕜 v (A v)) := by
    by_cases hv0 : v = 0
    · rw [hv0]; simp
    · exact (hAp v hv0).le
  linarith

end Scico.LinSolve
