/-
  Soundness of the structural linearity checker `Scico.Jaxpr.check`  (DESIGN §5.6, property C06).

  Setting: scalars `R → K` (`ℝ → ℂ` for complex operators, `ℝ → ℝ` for real ones; `K` carries a
  conjugation `star` that fixes the image of `R`), values in any `K`-module `V` (which is then also an
  `R`-module, `IsScalarTower R K V`).  An interpretation `I` of the primitives is *sound*
  (`Interp.Sound`) when every primitive has the algebraic property its class promises – this is the
  trusted per-primitive table, stated as explicit hypotheses.

  Main result (`progTags_holds`, `run_linC`, `run_linR`, `run_antiC'`, `run_const`): for every program
  the denotation `run I p` has the property named by `check p` – constant / `K`-linear /
  conjugate-linear / `R`-linear – by induction over the equation list (any length).

  All three kinds of linearity are instances of one notion, `SemiLin σ v`:
  `v` is additive and `v (s • x) = σ s • v x`, with `σ = id`, `star`, `algebraMap R K`.
-/
import Scico.Model.Jaxpr
import Mathlib.Algebra.Module.LinearMap.Defs
import Mathlib.Algebra.Module.Pi
import Mathlib.Algebra.Algebra.Basic
import Mathlib.Algebra.Star.Basic
import Mathlib.Tactic.DefEqTransformations

set_option linter.unusedSectionVars false

namespace Scico.Jaxpr

/-- pointwise sum of two operand lists -/
def ladd {V : Type} [Add V] (xs ys : List V) : List V := List.zipWith (· + ·) xs ys

/-- pointwise scaling of an operand list -/
def lsmul {S V : Type} [SMul S V] (c : S) (xs : List V) : List V := xs.map (c • ·)

section
variable (R K : Type) {V : Type} [CommSemiring R] [CommSemiring K] [StarRing K] [Algebra R K]
  [AddCommMonoid V] [Module R V] [Module K V] [IsScalarTower R K V]

/-- The per-class facts about the primitives (the trusted table, as hypotheses).
    `ps` are the values of the parameter operands, which are held fixed. -/
structure Interp.Sound (I : Interp V) : Prop where
  /-- the conjugation of `K` fixes the scalars coming from `R` (real numbers inside ℂ) -/
  star_real : ∀ r : R, star (algebraMap R K r) = algebraMap R K r
  /-- a literal flagged zero denotes zero -/
  lit_zero : ∀ p ps, I.den (.lit true) p ps [] = 0
  /-- `linAll` primitives are jointly additive in their data operands -/
  lin_add : ∀ p ps xs ys, xs.length = ys.length →
    I.den .linAll p ps (ladd xs ys) = I.den .linAll p ps xs + I.den .linAll p ps ys
  /-- `linAll` primitives are jointly homogeneous over the full scalar field -/
  lin_smul : ∀ p ps (c : K) xs, I.den .linAll p ps (lsmul c xs) = c • I.den .linAll p ps xs
  bil_add_left : ∀ p ps u u' v,
    I.den .bilinear p ps [u + u', v] = I.den .bilinear p ps [u, v] + I.den .bilinear p ps [u', v]
  bil_smul_left : ∀ p ps (c : K) u v, I.den .bilinear p ps [c • u, v] = c • I.den .bilinear p ps [u, v]
  bil_add_right : ∀ p ps u v v',
    I.den .bilinear p ps [u, v + v'] = I.den .bilinear p ps [u, v] + I.den .bilinear p ps [u, v']
  bil_smul_right : ∀ p ps (c : K) u v, I.den .bilinear p ps [u, c • v] = c • I.den .bilinear p ps [u, v]
  /-- division is linear in the numerator for a fixed denominator -/
  div_add : ∀ p ps u u' d,
    I.den .divLike p ps [u + u', d] = I.den .divLike p ps [u, d] + I.den .divLike p ps [u', d]
  div_smul : ∀ p ps (c : K) u d, I.den .divLike p ps [c • u, d] = c • I.den .divLike p ps [u, d]
  /-- `real`/`imag` are additive and homogeneous for scalars of the sub-field only -/
  re_add : ∀ p ps u u', I.den .realPart p ps [u + u'] = I.den .realPart p ps [u] + I.den .realPart p ps [u']
  re_smul : ∀ p ps (r : R) u, I.den .realPart p ps [r • u] = r • I.den .realPart p ps [u]
  /-- `conj` is additive and conjugate-homogeneous -/
  conj_add : ∀ p ps u u', I.den .conj p ps [u + u'] = I.den .conj p ps [u] + I.den .conj p ps [u']
  conj_smul : ∀ p ps (c : K) u, I.den .conj p ps [c • u] = star c • I.den .conj p ps [u]

end

section
variable {K V X : Type} [CommSemiring K] [AddCommMonoid V] [Module K V] [AddCommMonoid X]

/-- `v` is additive and `σ`-semilinear: `v (s • x) = σ s • v x` -/
def SemiLin {S : Type} [SMul S X] (σ : S → K) (v : X → V) : Prop :=
  (∀ x y, v (x + y) = v x + v y) ∧ ∀ (s : S) (x : X), v (s • x) = σ s • v x

theorem SemiLin.of_zero {S : Type} [SMul S X] (σ : S → K) {v : X → V} (h : ∀ x, v x = 0) : SemiLin σ v :=
  ⟨fun x y => by simp [h], fun s x => by simp [h]⟩

theorem SemiLin.congr {S : Type} [SMul S X] {σ τ : S → K} {v : X → V} (h : SemiLin σ v)
    (hστ : ∀ s, σ s = τ s) : SemiLin τ v :=
  ⟨h.1, fun s x => by rw [h.2, hστ]⟩

end

section
variable (R K : Type) {V : Type} [CommSemiring R] [CommSemiring K] [StarRing K] [Algebra R K]
  [AddCommMonoid V] [Module R V] [Module K V]
variable {X : Type} [AddCommMonoid X] [Module R X] [Module K X]

/-- what a tag claims about a variable, seen as a function of the program input -/
def Holds : Tag → (X → V) → Prop
  | .const z, v => (∀ x, v x = v 0) ∧ (z = true → ∀ x, v x = 0)
  | .linC, v => SemiLin (fun c : K => c) v
  | .antiC, v => SemiLin (fun c : K => star c) v
  | .linR, v => SemiLin (fun r : R => algebraMap R K r) v
  | .bad, _ => True

end

section
variable {R K : Type} {V : Type} [CommSemiring R] [CommSemiring K] [StarRing K] [Algebra R K]
  [AddCommMonoid V] [Module R V] [Module K V] [IsScalarTower R K V]
variable {X : Type} [AddCommMonoid X] [Module R X] [Module K X] [IsScalarTower R K X]

/-! ### conversions between `SemiLin` and Mathlib's `IsLinearMap` -/

theorem SemiLin.isLinearMap {v : X → V} (h : SemiLin (fun c : K => c) v) : IsLinearMap K v := ⟨h.1, h.2⟩

theorem SemiLin.isLinearMap_real {v : X → V} (h : SemiLin (fun r : R => algebraMap R K r) v) :
    IsLinearMap R v :=
  ⟨h.1, fun r x => by rw [h.2, algebraMap_smul]⟩

/-- `K`-linear ⇒ `R`-linear -/
theorem SemiLin.restrict {v : X → V} (h : SemiLin (fun c : K => c) v) :
    SemiLin (fun r : R => algebraMap R K r) v :=
  ⟨h.1, fun r x => by rw [← algebraMap_smul K r x, h.2]⟩

/-- conjugate-linear ⇒ `R`-linear (the conjugation fixes `R`) -/
theorem SemiLin.restrict_anti (hs : ∀ r : R, star (algebraMap R K r) = algebraMap R K r) {v : X → V}
    (h : SemiLin (fun c : K => star c) v) : SemiLin (fun r : R => algebraMap R K r) v :=
  ⟨h.1, fun r x => by rw [← algebraMap_smul K r x, h.2]; beta_reduce; rw [hs]⟩

theorem isLinearMap_zero_at {S : Type} [Semiring S] [Module S V] [Module S X] {v : X → V}
    (h : IsLinearMap S v) : v 0 = 0 := by
  have := h.map_smul 0 0
  simpa using this

/-! ### which tags guarantee which kind of linearity -/

def Tag.isLinC : Tag → Prop
  | .linC => True
  | .const true => True
  | _ => False

def Tag.isAntiC : Tag → Prop
  | .antiC => True
  | .const true => True
  | _ => False

def Tag.isLinR : Tag → Prop
  | .linC => True
  | .antiC => True
  | .linR => True
  | .const true => True
  | _ => False

theorem Holds.linC_of {t : Tag} {v : X → V} (ht : t.isLinC) (h : Holds R K t v) :
    SemiLin (fun c : K => c) v := by
  rcases t with ⟨_ | _⟩ | _ | _ | _ | _ <;> simp [Tag.isLinC] at ht
  · exact SemiLin.of_zero _ (h.2 rfl)
  · exact h

theorem Holds.antiC_of {t : Tag} {v : X → V} (ht : t.isAntiC) (h : Holds R K t v) :
    SemiLin (fun c : K => star c) v := by
  rcases t with ⟨_ | _⟩ | _ | _ | _ | _ <;> simp [Tag.isAntiC] at ht
  · exact SemiLin.of_zero _ (h.2 rfl)
  · exact h

theorem Holds.linR_of (hs : ∀ r : R, star (algebraMap R K r) = algebraMap R K r) {t : Tag} {v : X → V}
    (ht : t.isLinR) (h : Holds R K t v) : SemiLin (fun r : R => algebraMap R K r) v := by
  rcases t with ⟨_ | _⟩ | _ | _ | _ | _ <;> simp [Tag.isLinR] at ht
  · exact SemiLin.of_zero _ (h.2 rfl)
  · exact SemiLin.restrict h
  · exact SemiLin.restrict_anti hs h
  · exact h

/-! ### truth tables of the tag operations -/

theorem join_linC {a b : Tag} (h : a.join b = .linC) : a.isLinC ∧ b.isLinC := by
  rcases a with ⟨_ | _⟩ | _ | _ | _ | _ <;> rcases b with ⟨_ | _⟩ | _ | _ | _ | _ <;>
    simp [Tag.join, Tag.isLinC] at h ⊢

theorem join_antiC {a b : Tag} (h : a.join b = .antiC) : a.isAntiC ∧ b.isAntiC := by
  rcases a with ⟨_ | _⟩ | _ | _ | _ | _ <;> rcases b with ⟨_ | _⟩ | _ | _ | _ | _ <;>
    simp [Tag.join, Tag.isAntiC] at h ⊢

theorem join_linR {a b : Tag} (h : a.join b = .linR) : a.isLinR ∧ b.isLinR := by
  rcases a with ⟨_ | _⟩ | _ | _ | _ | _ <;> rcases b with ⟨_ | _⟩ | _ | _ | _ | _ <;>
    simp [Tag.join, Tag.isLinR] at h ⊢

theorem join_const {a b : Tag} {z : Bool} (h : a.join b = .const z) :
    ∃ za zb, a = .const za ∧ b = .const zb ∧ z = (za && zb) := by
  rcases a with ⟨_ | _⟩ | _ | _ | _ | _ <;> rcases b with ⟨_ | _⟩ | _ | _ | _ | _ <;>
    simp [Tag.join] at h ⊢ <;> exact h

theorem joinAll_const {ts : List Tag} {z : Bool} (h : joinAll ts = .const z) :
    ∀ t ∈ ts, ∃ z', t = .const z' ∧ (z = true → z' = true) := by
  induction ts generalizing z with
  | nil => simp
  | cons t ts ih =>
    intro u hu
    obtain ⟨za, zb, rfl, hb, hz⟩ := join_const (a := t) (b := joinAll ts) h
    rcases List.mem_cons.mp hu with rfl | hu
    · exact ⟨za, rfl, fun hzt => by subst hz; cases za <;> simp_all⟩
    · obtain ⟨z', hz', himp⟩ := ih hb u hu
      exact ⟨z', hz', fun hzt => himp (by subst hz; cases za <;> cases zb <;> simp_all)⟩

theorem isLinC_isLinR {t : Tag} (h : t.isLinC) : t.isLinR := by
  rcases t with ⟨_ | _⟩ | _ | _ | _ | _ <;> simp [Tag.isLinC, Tag.isLinR] at h ⊢

theorem isAntiC_isLinR {t : Tag} (h : t.isAntiC) : t.isLinR := by
  rcases t with ⟨_ | _⟩ | _ | _ | _ | _ <;> simp [Tag.isAntiC, Tag.isLinR] at h ⊢

theorem joinAll_linC {ts : List Tag} (h : joinAll ts = .linC) : ∀ t ∈ ts, t.isLinC := by
  induction ts with
  | nil => simp
  | cons t ts ih =>
    intro u hu
    have h' := join_linC (a := t) (b := joinAll ts) h
    rcases List.mem_cons.mp hu with rfl | hu
    · exact h'.1
    · cases hj : joinAll ts with
      | linC => exact ih hj u hu
      | const z =>
        obtain ⟨z', rfl, himp⟩ := joinAll_const hj u hu
        rw [hj] at h'
        cases z <;> simp [Tag.isLinC] at h'
        simp [himp rfl, Tag.isLinC]
      | antiC => rw [hj] at h'; simp [Tag.isLinC] at h'
      | linR => rw [hj] at h'; simp [Tag.isLinC] at h'
      | bad => rw [hj] at h'; simp [Tag.isLinC] at h'

theorem joinAll_antiC {ts : List Tag} (h : joinAll ts = .antiC) : ∀ t ∈ ts, t.isAntiC := by
  induction ts with
  | nil => simp
  | cons t ts ih =>
    intro u hu
    have h' := join_antiC (a := t) (b := joinAll ts) h
    rcases List.mem_cons.mp hu with rfl | hu
    · exact h'.1
    · cases hj : joinAll ts with
      | antiC => exact ih hj u hu
      | const z =>
        obtain ⟨z', rfl, himp⟩ := joinAll_const hj u hu
        rw [hj] at h'
        cases z <;> simp [Tag.isAntiC] at h'
        simp [himp rfl, Tag.isAntiC]
      | linC => rw [hj] at h'; simp [Tag.isAntiC] at h'
      | linR => rw [hj] at h'; simp [Tag.isAntiC] at h'
      | bad => rw [hj] at h'; simp [Tag.isAntiC] at h'

theorem joinAll_linR {ts : List Tag} (h : joinAll ts = .linR) : ∀ t ∈ ts, t.isLinR := by
  induction ts with
  | nil => simp
  | cons t ts ih =>
    intro u hu
    have h' := join_linR (a := t) (b := joinAll ts) h
    rcases List.mem_cons.mp hu with rfl | hu
    · exact h'.1
    · cases hj : joinAll ts with
      | linR => exact ih hj u hu
      | linC => exact isLinC_isLinR (joinAll_linC hj u hu)
      | antiC => exact isAntiC_isLinR (joinAll_antiC hj u hu)
      | const z =>
        obtain ⟨z', rfl, himp⟩ := joinAll_const hj u hu
        rw [hj] at h'
        cases z <;> simp [Tag.isLinR] at h'
        simp [himp rfl, Tag.isLinR]
      | bad => rw [hj] at h'; simp [Tag.isLinR] at h'

/-! ### joint semilinearity of a list-valued operand vector -/

theorem map_add_eq_ladd (l : List Nat) (f g : Nat → V) :
    l.map (fun a => f a + g a) = ladd (l.map f) (l.map g) := by
  induction l with
  | nil => rfl
  | cons a l ih => simp [ladd] at ih ⊢

/-- a jointly additive and `K`-homogeneous list function composed with `σ`-semilinear operands -/
theorem SemiLin.joint {S : Type} [SMul S X] (σ : S → K)
    (f : List V → V)
    (fadd : ∀ xs ys, xs.length = ys.length → f (ladd xs ys) = f xs + f ys)
    (fsmul : ∀ (c : K) xs, f (lsmul c xs) = c • f xs)
    (args : List Nat) (g : X → Nat → V) (hg : ∀ a ∈ args, SemiLin σ (fun x => g x a)) :
    SemiLin σ (fun x => f (args.map (g x))) := by
  constructor
  · intro x y
    have : args.map (g (x + y)) = ladd (args.map (g x)) (args.map (g y)) := by
      rw [← map_add_eq_ladd]
      exact List.map_congr_left fun a ha => (hg a ha).1 x y
    beta_reduce
    rw [this, fadd _ _ (by simp)]
  · intro c x
    have : args.map (g (c • x)) = lsmul (σ c) (args.map (g x)) := by
      simp only [lsmul, List.map_map]
      exact List.map_congr_left fun a ha => (hg a ha).2 c x
    beta_reduce
    rw [this, fsmul]

/-! ### the invariant and the step lemma -/

/-- environment invariant: lengths agree and every variable satisfies what its tag claims -/
def Inv (R K : Type) {V X : Type} [CommSemiring R] [CommSemiring K] [StarRing K] [Algebra R K]
    [AddCommMonoid V] [Module R V] [Module K V] [AddCommMonoid X] [Module R X] [Module K X]
    (tags : List Tag) (E : X → List V) : Prop :=
  (∀ x, (E x).length = tags.length) ∧ ∀ i, Holds R K (tagOf tags i) (fun x => valOf (E x) i)

theorem valOf_append (env : List V) (v : V) (i : Nat) :
    valOf (env ++ [v]) i = if i < env.length then valOf env i else if i = env.length then v else 0 := by
  unfold valOf
  by_cases h : i < env.length
  · simp [h, List.getElem?_append_left h]
  · by_cases h2 : i = env.length
    · subst h2; simp
    · have : env.length + 1 ≤ i := by omega
      simp [h, h2, this]

theorem tagOf_append (tags : List Tag) (t : Tag) (i : Nat) :
    tagOf (tags ++ [t]) i = if i < tags.length then tagOf tags i else if i = tags.length then t else .bad := by
  unfold tagOf
  by_cases h : i < tags.length
  · simp [h, List.getElem?_append_left h]
  · by_cases h2 : i = tags.length
    · subst h2; simp
    · have : tags.length + 1 ≤ i := by omega
      simp [h, h2, this]

theorem Inv.const_params {tags : List Tag} {E : X → List V} (h : Inv R K tags E) (ps : List Nat)
    (hp : (ps.all fun i => (tagOf tags i).isConst) = true) (x : X) :
    ps.map (valOf (E x)) = ps.map (valOf (E 0)) := by
  apply List.map_congr_left
  intro a ha
  have hc := List.all_eq_true.mp hp a ha
  have hh := h.2 a
  cases ht : tagOf tags a with
  | const z => rw [ht] at hh; exact hh.1 x
  | linC => simp [ht, Tag.isConst] at hc
  | antiC => simp [ht, Tag.isConst] at hc
  | linR => simp [ht, Tag.isConst] at hc
  | bad => simp [ht, Tag.isConst] at hc

/-- all operands constant ⇒ the operand vector does not depend on the input -/
theorem Inv.const_args {tags : List Tag} {E : X → List V} (h : Inv R K tags E) (as : List Nat)
    (hc : ∀ a ∈ as, ∃ z, tagOf tags a = .const z) (x : X) :
    as.map (valOf (E x)) = as.map (valOf (E 0)) := by
  apply List.map_congr_left
  intro a ha
  obtain ⟨z, hz⟩ := hc a ha
  have hh := h.2 a
  rw [hz] at hh
  exact hh.1 x

theorem Inv.zero_args {tags : List Tag} {E : X → List V} (h : Inv R K tags E) (as : List Nat)
    (hc : ∀ a ∈ as, tagOf tags a = .const true) (x : X) :
    as.map (valOf (E x)) = lsmul (0 : K) (as.map (valOf (E x))) := by
  simp only [lsmul, List.map_map]
  apply List.map_congr_left
  intro a ha
  have hh := h.2 a
  rw [hc a ha] at hh
  simp [hh.2 rfl x]

/-! ### per-class lemmas on plain functions -/

theorem Holds.const_dest {z : Bool} {v : X → V} (h : Holds R K (.const z) v) :
    (∀ x, v x = v 0) ∧ (z = true → ∀ x, v x = 0) := h

/-- `f` additive and `K`-homogeneous in its first argument, second operand constant -/
theorem SemiLin.left {S : Type} [SMul S X] {σ : S → K} {f : V → V → V}
    (fadd : ∀ u u' d, f (u + u') d = f u d + f u' d) (fsmul : ∀ (c : K) u d, f (c • u) d = c • f u d)
    {va vb : X → V} (ha : SemiLin σ va) (hb : ∀ x, vb x = vb 0) :
    SemiLin σ (fun x => f (va x) (vb x)) :=
  ⟨fun x y => by beta_reduce; rw [hb x, hb y, hb (x + y), ha.1, fadd],
    fun c x => by beta_reduce; rw [hb x, hb (c • x), ha.2, fsmul]⟩

theorem holds_left {f : V → V → V}
    (fadd : ∀ u u' d, f (u + u') d = f u d + f u' d) (fsmul : ∀ (c : K) u d, f (c • u) d = c • f u d)
    {ta : Tag} {zb : Bool} {va vb : X → V} (ha : Holds R K ta va) (hb : Holds R K (.const zb) vb) :
    Holds R K (ta.div (.const zb)) (fun x => f (va x) (vb x)) := by
  obtain ⟨hb1, -⟩ := hb.const_dest
  have f0 : ∀ d, f 0 d = 0 := fun d => by simpa using fsmul 0 0 d
  rcases ta with za | _ | _ | _ | _
  · obtain ⟨ha1, ha2⟩ := ha.const_dest
    refine ⟨fun x => ?_, fun hz x => ?_⟩
    · beta_reduce; rw [ha1 x, hb1 x]
    · beta_reduce; rw [ha2 hz x, f0]
  · exact SemiLin.left fadd fsmul ha hb1
  · exact SemiLin.left fadd fsmul ha hb1
  · exact SemiLin.left fadd fsmul ha hb1
  · trivial

theorem holds_div {f : V → V → V}
    (fadd : ∀ u u' d, f (u + u') d = f u d + f u' d) (fsmul : ∀ (c : K) u d, f (c • u) d = c • f u d)
    {ta tb : Tag} {va vb : X → V} (ha : Holds R K ta va) (hb : Holds R K tb vb) :
    Holds R K (ta.div tb) (fun x => f (va x) (vb x)) := by
  rcases tb with zb | _ | _ | _ | _
  · exact holds_left fadd fsmul ha hb
  all_goals rcases ta with _ | _ | _ | _ | _ <;> trivial

theorem bil_eq_div_or (ta tb : Tag) :
    (∃ zb, tb = .const zb ∧ (∀ za, ta ≠ .const za) ∧ ta.bil tb = ta.div tb) ∨
    (∃ za, ta = .const za ∧ (∀ zb, tb ≠ .const zb) ∧ ta.bil tb = tb.div ta) ∨
    (∃ za zb, ta = .const za ∧ tb = .const zb) ∨ ta.bil tb = .bad := by
  rcases ta with za | _ | _ | _ | _ <;> rcases tb with zb | _ | _ | _ | _ <;> simp [Tag.bil, Tag.div]

theorem holds_bil {f : V → V → V}
    (faddl : ∀ u u' d, f (u + u') d = f u d + f u' d) (fsmull : ∀ (c : K) u d, f (c • u) d = c • f u d)
    (faddr : ∀ d u u', f d (u + u') = f d u + f d u') (fsmulr : ∀ (c : K) d u, f d (c • u) = c • f d u)
    {ta tb : Tag} {va vb : X → V} (ha : Holds R K ta va) (hb : Holds R K tb vb) :
    Holds R K (ta.bil tb) (fun x => f (va x) (vb x)) := by
  rcases bil_eq_div_or ta tb with ⟨zb, rfl, -, h⟩ | ⟨za, rfl, -, h⟩ | ⟨za, zb, rfl, rfl⟩ | h
  · rw [h]; exact holds_left faddl fsmull ha hb
  · rw [h]
    exact holds_left (f := fun u d => f d u) (fun u u' d => faddr d u u') (fun c u d => fsmulr c d u) hb ha
  · obtain ⟨ha1, ha2⟩ := ha.const_dest
    obtain ⟨hb1, hb2⟩ := hb.const_dest
    have f0l : ∀ d, f 0 d = 0 := fun d => by simpa using fsmull 0 0 d
    have f0r : ∀ d, f d 0 = 0 := fun d => by simpa using fsmulr 0 d 0
    refine ⟨fun x => ?_, fun hz x => ?_⟩
    · beta_reduce; rw [ha1 x, hb1 x]
    · beta_reduce
      rcases (Bool.or_eq_true _ _).mp hz with hza | hzb
      · rw [ha2 hza x, f0l]
      · rw [hb2 hzb x, f0r]
  · rw [h]; trivial

theorem SemiLin.real {f : V → V}
    (fadd : ∀ u u', f (u + u') = f u + f u') (fsmul : ∀ (r : R) u, f (r • u) = r • f u)
    {va : X → V} (ha : SemiLin (fun r : R => algebraMap R K r) va) :
    SemiLin (fun r : R => algebraMap R K r) (fun x => f (va x)) :=
  ⟨fun x y => by beta_reduce; rw [ha.1, fadd],
    fun r x => by beta_reduce; rw [ha.2, algebraMap_smul, fsmul, algebraMap_smul]⟩

theorem holds_re (hs : ∀ r : R, star (algebraMap R K r) = algebraMap R K r) {f : V → V}
    (fadd : ∀ u u', f (u + u') = f u + f u') (fsmul : ∀ (r : R) u, f (r • u) = r • f u)
    {ta : Tag} {va : X → V} (ha : Holds R K ta va) : Holds R K ta.re (fun x => f (va x)) := by
  rcases ta with za | _ | _ | _ | _
  · obtain ⟨ha1, ha2⟩ := ha.const_dest
    refine ⟨fun x => ?_, fun hz x => ?_⟩
    · beta_reduce; rw [ha1 x]
    · beta_reduce; rw [ha2 hz x]; simpa using fsmul 0 0
  · exact SemiLin.real fadd fsmul (SemiLin.restrict ha)
  · exact SemiLin.real fadd fsmul (SemiLin.restrict_anti hs ha)
  · exact SemiLin.real fadd fsmul ha
  · trivial

theorem SemiLin.conj {S : Type} [SMul S X] {σ : S → K} {f : V → V}
    (fadd : ∀ u u', f (u + u') = f u + f u') (fsmul : ∀ (c : K) u, f (c • u) = star c • f u)
    {va : X → V} (ha : SemiLin σ va) : SemiLin (fun s => star (σ s)) (fun x => f (va x)) :=
  ⟨fun x y => by beta_reduce; rw [ha.1, fadd], fun s x => by beta_reduce; rw [ha.2, fsmul]⟩

theorem holds_conj (hs : ∀ r : R, star (algebraMap R K r) = algebraMap R K r) {f : V → V}
    (fadd : ∀ u u', f (u + u') = f u + f u') (fsmul : ∀ (c : K) u, f (c • u) = star c • f u)
    {ta : Tag} {va : X → V} (ha : Holds R K ta va) : Holds R K ta.cj (fun x => f (va x)) := by
  rcases ta with za | _ | _ | _ | _
  · obtain ⟨ha1, ha2⟩ := ha.const_dest
    refine ⟨fun x => ?_, fun hz x => ?_⟩
    · beta_reduce; rw [ha1 x]
    · beta_reduce; rw [ha2 hz x]; simpa using fsmul 0 0
  · exact SemiLin.conj fadd fsmul ha
  · exact (SemiLin.conj fadd fsmul ha).congr fun c => star_star c
  · exact (SemiLin.conj fadd fsmul ha).congr hs
  · trivial

variable {I : Interp V}

/-- one equation preserves the invariant's claim: the new variable satisfies its tag -/
theorem step_holds (hI : I.Sound R K) {tags : List Tag} {E : X → List V} (h : Inv R K tags E) (e : Eqn) :
    Holds R K (stepTag tags e) (fun x => stepVal I (E x) e) := by
  obtain ⟨cls, prim, params, args⟩ := e
  unfold stepTag
  by_cases hp : (params.all fun i => (tagOf tags i).isConst) = true
  swap
  · simp [hp, Holds]
  simp only [hp, if_true]
  have hps : ∀ x, params.map (valOf (E x)) = params.map (valOf (E 0)) := h.const_params params hp
  unfold stepVal
  simp only [hps]
  generalize params.map (valOf (E 0)) = ps
  cases cls with
  | lit z =>
    cases args with
    | nil =>
      simp only [List.map_nil]
      refine ⟨fun _ => rfl, fun hz _ => ?_⟩
      subst hz
      exact hI.lit_zero prim ps
    | cons a as => simp [Holds]
  | linAll =>
    simp only
    cases hj : joinAll (args.map (tagOf tags)) with
    | bad => trivial
    | linC =>
      have hall := joinAll_linC hj
      exact SemiLin.joint _ (I.den .linAll prim ps) (hI.lin_add prim ps) (hI.lin_smul prim ps) args
        (fun x => valOf (E x))
        (fun a ha => (h.2 a).linC_of (hall _ (List.mem_map_of_mem ha)))
    | antiC =>
      have hall := joinAll_antiC hj
      exact SemiLin.joint _ (I.den .linAll prim ps) (hI.lin_add prim ps) (hI.lin_smul prim ps) args
        (fun x => valOf (E x))
        (fun a ha => (h.2 a).antiC_of (hall _ (List.mem_map_of_mem ha)))
    | linR =>
      have hall := joinAll_linR hj
      exact SemiLin.joint _ (I.den .linAll prim ps) (hI.lin_add prim ps) (hI.lin_smul prim ps) args
        (fun x => valOf (E x))
        (fun a ha => (h.2 a).linR_of hI.star_real (hall _ (List.mem_map_of_mem ha)))
    | const z =>
      have hall := joinAll_const hj
      have hconst : ∀ a ∈ args, ∃ z, tagOf tags a = .const z := fun a ha => by
        obtain ⟨z', hz', _⟩ := hall _ (List.mem_map_of_mem ha)
        exact ⟨z', hz'⟩
      refine ⟨fun x => by simp only [h.const_args args hconst x], fun hz x => ?_⟩
      have hzero : ∀ a ∈ args, tagOf tags a = .const true := fun a ha => by
        obtain ⟨z', hz', himp⟩ := hall _ (List.mem_map_of_mem ha)
        rw [hz', himp hz]
      show I.den .linAll prim ps (args.map (valOf (E x))) = 0
      rw [h.zero_args args hzero x, hI.lin_smul, zero_smul]
  | bilinear =>
    match args with
    | [] => simp [Holds]
    | [_] => simp [Holds]
    | _ :: _ :: _ :: _ => simp [Holds]
    | [a, b] =>
      simp only [List.map_cons, List.map_nil]
      exact holds_bil (f := fun u v => I.den .bilinear prim ps [u, v])
        (hI.bil_add_left prim ps) (hI.bil_smul_left prim ps)
        (fun d u u' => hI.bil_add_right prim ps d u u') (fun c d u => hI.bil_smul_right prim ps c d u)
        (h.2 a) (h.2 b)
  | divLike =>
    match args with
    | [] => simp [Holds]
    | [_] => simp [Holds]
    | _ :: _ :: _ :: _ => simp [Holds]
    | [a, b] =>
      simp only [List.map_cons, List.map_nil]
      exact holds_div (f := fun u v => I.den .divLike prim ps [u, v])
        (hI.div_add prim ps) (hI.div_smul prim ps) (h.2 a) (h.2 b)
  | realPart =>
    match args with
    | [] => simp [Holds]
    | _ :: _ :: _ => simp [Holds]
    | [a] =>
      simp only [List.map_cons, List.map_nil]
      exact holds_re hI.star_real (f := fun u => I.den .realPart prim ps [u])
        (hI.re_add prim ps) (hI.re_smul prim ps) (h.2 a)
  | conj =>
    match args with
    | [] => simp [Holds]
    | _ :: _ :: _ => simp [Holds]
    | [a] =>
      simp only [List.map_cons, List.map_nil]
      exact holds_conj hI.star_real (f := fun u => I.den .conj prim ps [u])
        (hI.conj_add prim ps) (hI.conj_smul prim ps) (h.2 a)
  | nonlin =>
    simp only
    by_cases hc : ((args.map (tagOf tags)).all Tag.isConst) = true
    · simp only [hc, if_true]
      have hconst : ∀ a ∈ args, ∃ z, tagOf tags a = .const z := fun a ha => by
        have := List.all_eq_true.mp hc _ (List.mem_map_of_mem ha)
        cases ht : tagOf tags a <;> simp [ht, Tag.isConst] at this
        exact ⟨_, rfl⟩
      exact ⟨fun x => by simp only [h.const_args args hconst x], fun hz => by simp at hz⟩
    · simp [hc, Holds]

/-- extending the environment by one equation preserves the invariant -/
theorem Inv.step (hI : I.Sound R K) {tags : List Tag} {E : X → List V} (h : Inv R K tags E) (e : Eqn) :
    Inv R K (tags ++ [stepTag tags e]) (fun x => E x ++ [stepVal I (E x) e]) := by
  refine ⟨fun x => by simp [h.1 x], fun i => ?_⟩
  have hs := step_holds hI h e
  simp only [valOf_append, tagOf_append, h.1]
  by_cases h1 : i < tags.length
  · simp only [h1, if_true]; exact h.2 i
  · by_cases h2 : i = tags.length
    · simp only [h2, if_true]
      subst h2
      simpa using hs
    · simp only [h1, h2, if_false]; trivial

/-- the invariant is carried through any equation list (induction; no bound on the length) -/
theorem Inv.eqns (hI : I.Sound R K) (es : List Eqn) {tags : List Tag} {E : X → List V} (h : Inv R K tags E) :
    Inv R K (checkEqns es tags) (fun x => evalEqns I es (E x)) := by
  induction es generalizing tags E with
  | nil => exact h
  | cons e es ih => exact ih (h.step hI e)

/-- initially every input leaf is the identity of that leaf: `K`-linear -/
theorem Inv.init (n : Nat) :
    Inv R K (List.replicate n .linC) (fun x : Fin n → V => List.ofFn x) := by
  refine ⟨fun x => by simp, fun i => ?_⟩
  by_cases hi : i < n
  · have : tagOf (List.replicate n Tag.linC) i = .linC := by simp [tagOf, hi]
    rw [this]
    have hv : ∀ x : Fin n → V, valOf (List.ofFn x) i = x ⟨i, hi⟩ := fun x => by simp [valOf, hi]
    simp only [Holds, hv]
    exact ⟨fun x y => rfl, fun c x => rfl⟩
  · have : tagOf (List.replicate n Tag.linC) i = .bad := by simp [tagOf, hi]
    rw [this]; trivial

/-- every variable of a program satisfies what its tag claims -/
theorem progTags_holds (hI : I.Sound R K) (p : Prog) :
    Inv R K (progTags p) (fun x : Fin p.nin → V => finalEnv I p x) :=
  Inv.eqns hI p.eqns (Inv.init p.nin)

/-! ### from variables to the program's output vector -/

theorem semiLin_pi {S : Type} {Y : Type} [AddCommMonoid Y] [SMul S Y] (σ : S → K)
    {n : Nat} (f : Y → Fin n → V) (h : ∀ j, SemiLin σ (fun x => f x j)) : SemiLin σ f :=
  ⟨fun x y => funext fun j => (h j).1 x y, fun c x => funext fun j => (h j).2 c x⟩

theorem run_linC' (hI : I.Sound R K) (p : Prog) (h : check p = .linC) :
    SemiLin (fun c : K => c) (run I p) := by
  have inv := progTags_holds (R := R) (K := K) hI p
  have hall := joinAll_linC h
  refine semiLin_pi _ (run I p) fun j => ?_
  exact (inv.2 (p.outs.get j)).linC_of (hall _ (List.mem_map_of_mem (List.get_mem _ _)))

theorem run_antiC' (hI : I.Sound R K) (p : Prog) (h : check p = .antiC) :
    SemiLin (fun c : K => star c) (run I p) := by
  have inv := progTags_holds (R := R) (K := K) hI p
  have hall := joinAll_antiC h
  refine semiLin_pi _ (run I p) fun j => ?_
  exact (inv.2 (p.outs.get j)).antiC_of (hall _ (List.mem_map_of_mem (List.get_mem _ _)))

theorem run_linR' (hI : I.Sound R K) (p : Prog) (h : check p = .linR) :
    SemiLin (fun r : R => algebraMap R K r) (run I p) := by
  have inv := progTags_holds (R := R) (K := K) hI p
  have hall := joinAll_linR h
  refine semiLin_pi _ (run I p) fun j => ?_
  exact (inv.2 (p.outs.get j)).linR_of hI.star_real (hall _ (List.mem_map_of_mem (List.get_mem _ _)))

theorem run_linC (hI : I.Sound R K) (p : Prog) (h : check p = .linC) : IsLinearMap K (run I p) :=
  (run_linC' hI p h).isLinearMap

theorem run_linR (hI : I.Sound R K) (p : Prog) (h : check p = .linR) : IsLinearMap R (run I p) :=
  (run_linR' hI p h).isLinearMap_real

theorem run_const (hI : I.Sound R K) (p : Prog) (z : Bool) (h : check p = .const z) :
    (∀ x, run I p x = run I p 0) ∧ (z = true → ∀ x, run I p x = 0) := by
  have inv := progTags_holds (R := R) (K := K) hI p
  have hall := joinAll_const h
  constructor
  · intro x; funext j
    obtain ⟨z', hz', _⟩ := hall _ (List.mem_map_of_mem (List.get_mem p.outs j))
    have hh := inv.2 (p.outs.get j)
    rw [hz'] at hh
    exact hh.1 x
  · intro hz x; funext j
    obtain ⟨z', hz', himp⟩ := hall _ (List.mem_map_of_mem (List.get_mem p.outs j))
    have hh := inv.2 (p.outs.get j)
    rw [hz', himp hz] at hh
    exact hh.2 rfl x

end


/-! ### `checkFast` computes `check` -/

section
theorem Tag.force_eq {α : Sort _} (t : Tag) (k : Tag → α) : t.force k = k t := by
  rcases t with ⟨_ | _⟩ | _ | _ | _ | _ <;> rfl

theorem tagOfR_eq (tags : List Tag) (i : Nat) : tagOfR tags.length tags.reverse i = tagOf tags i := by
  unfold tagOfR tagOf
  by_cases h : i < tags.length
  · simp only [h, if_true]
    rw [List.getElem?_reverse (by omega)]
    congr 2
    omega
  · simp only [h, if_false]
    rw [List.getElem?_eq_none (by omega)]
    rfl

theorem stepTagR_eq (tags : List Tag) (e : Eqn) : stepTagR tags.length tags.reverse e = stepTag tags e := by
  have h : tagOfR tags.length tags.reverse = tagOf tags := funext (tagOfR_eq tags)
  unfold stepTagR stepTag
  rw [h]

theorem checkEqnsR_eq (es : List Eqn) (tags : List Tag) :
    checkEqnsR es tags.length tags.reverse = ((checkEqns es tags).length, (checkEqns es tags).reverse) := by
  induction es generalizing tags with
  | nil => rfl
  | cons e es ih =>
    unfold checkEqnsR checkEqns
    rw [Tag.force_eq, stepTagR_eq]
    have := ih (tags ++ [stepTag tags e])
    simpa using this

theorem checkFast_eq_check (p : Prog) : checkFast p = check p := by
  unfold checkFast check progTags
  have := checkEqnsR_eq p.eqns (List.replicate p.nin .linC)
  simp only [List.length_replicate, List.reverse_replicate] at this
  rw [this]
  have h : tagOfR (checkEqns p.eqns (List.replicate p.nin .linC)).length
      (checkEqns p.eqns (List.replicate p.nin .linC)).reverse = tagOf (checkEqns p.eqns (List.replicate p.nin .linC)) :=
    funext (tagOfR_eq _)
  simp only [h]
end

end Scico.Jaxpr
