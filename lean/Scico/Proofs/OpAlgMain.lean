/-
  Main induction over expression trees: what scico builds for a linear expression denotes the
  dense matrix obtained by the same construction on the operands' matrices.
-/
import Scico.Proofs.OpAlgDispatch

namespace Scico.OpAlg
open Scico.DType
attribute [local instance] starConj
set_option linter.unusedSectionVars false

section
variable {K : Type} [Field K] [StarRing K] [HasRe K]

/-- no non-linear leaf (`Operator(eval_fn)`) -/
def Lin : LExpr K → Prop
  | .nonlin _ _ _ _ _ => False
  | .mat _ _ _ _ | .diag _ _ _ _ _ | .scaledId _ _ _ _ | .ident _ _ | .lin _ _ _ _ _ _ => True
  | .add a b | .sub a b | .had _ a b | .comp a b | .matmul a b => Lin a ∧ Lin b
  | .neg a | .smulL _ a | .smulR a _ | .sdiv a _ | .rdiv _ a | .addS _ _ a _
  | .T a | .H a | .conj a | .gram a => Lin a

/-- every leaf is declared with complex dtypes -/
def AllC : LExpr K → Prop
  | .mat _ _ dt _ => dt.isComplex = true
  | .diag _ ddt _ inDt? _ => ddt.isComplex = true ∧ ∀ t, inDt? = some t → t.isComplex = true
  | .scaledId _ _ _ dt => dt.isComplex = true
  | .ident _ dt => dt.isComplex = true
  | .lin _ _ inDt _ _ _ => inDt.isComplex = true
  | .nonlin _ _ _ _ _ => True
  | .add a b | .sub a b | .had _ a b | .comp a b | .matmul a b => AllC a ∧ AllC b
  | .neg a | .smulL _ a | .smulR a _ | .sdiv a _ | .rdiv _ a | .addS _ _ a _
  | .T a | .H a | .conj a | .gram a => AllC a

/-- at every `a @ b` whose operands are built as a `Diagonal` and a member of the `Diagonal`
    family **on BlockArray shapes** there is no broadcasting between the two diagonal arrays
    (`DiagProductOk`: nothing is required when all shapes are plain — any numpy broadcasting between
    the two diagonals is covered by `diagMatmul_sound_plain`) -/
def PlainDiagProducts : LExpr K → Prop
  | .matmul a b =>
    PlainDiagProducts a ∧ PlainDiagProducts b
      ∧ ∀ oa ob, build a = .ok oa → build b = .ok ob → MatmulPlain oa ob
  | .add a b | .sub a b | .had _ a b | .comp a b => PlainDiagProducts a ∧ PlainDiagProducts b
  | .neg a | .smulL _ a | .smulR a _ | .sdiv a _ | .rdiv _ a | .addS _ _ a _
  | .T a | .H a | .conj a | .gram a => PlainDiagProducts a
  | _ => True

theorem bind_ok {ε α β : Type} {x : Except ε α} {f : α → Except ε β} {b : β}
    (h : (x >>= f) = .ok b) : ∃ a, x = .ok a ∧ f a = .ok b := by
  cases x with
  | error e => simp [bind, Except.bind] at h
  | ok a => exact ⟨a, rfl, by simpa [bind, Except.bind] using h⟩

/-- leaf `LinearOperator(eval_fn, adj_fn)` -/
theorem mkLinLeaf_sound (inSh outSh : Shape) (inDt gDt : DT) (hasAdj : Bool) (G : Mx K)
    (hmode : RealK K ∨ inDt.isComplex = true) :
    SoundD (mkLinLeaf inSh outSh inDt gDt hasAdj G) (truncM outSh.size inSh.size G).get
      outSh.size inSh.size := by
  have hev : ∀ (x : Vc K) (i : Nat),
      (vmulVec outSh.size inSh.size (truncM outSh.size inSh.size G) (vtrunc inSh.size x)).get i
        = if i < outSh.size then mulVec inSh.size (truncM outSh.size inSh.size G).get x.get i else 0 := by
    intro x i
    simp only [vmulVec_get]
    by_cases hi : i < outSh.size
    · simp only [hi, if_true]
      apply mulVec_congr_right; intro j hj; simp [hj]
    · simp [hi]
  have hmode' : RealK K ∨ (inDt.isComplex = true ∧ (resultType gDt inDt).isComplex = true) :=
    hmode.imp id (fun h => ⟨h, rt_complex_right h⟩)
  unfold mkLinLeaf
  by_cases hA : hasAdj = true
  · simp only [hA, if_true]
    refine ⟨?_, rfl, rfl⟩
    exact
    { lin := by simp
      evSz := by szt
      adSz := fun y => by simp only [mkLin_adj, mkLin_n]; split <;> rfl
      pl := by simp [PayloadIs, mkLin]
      ev := hev
      ad := by
        intro y j
        simp only [mkLin_adj, mkLin_m, mkLin_n]
        have hH : ∀ j, j < inSh.size →
            mulVecH outSh.size (truncM outSh.size inSh.size G).get (vtrunc outSh.size y).get j
              = mulVecH outSh.size (truncM outSh.size inSh.size G).get y.get j := by
          intro j _
          apply mulVecH_congr_right; intro i hi; simp [hi]
        by_cases hj : j < inSh.size
        · split
          · simp [hj, hH j hj]
          · rename_i hc
            have hR : RealK K := by
              rcases hmode with h | h
              · exact h
              · exact absurd h hc
            simp [hj, hH j hj, (hR _).2]
        · split <;> simp [hj]
      mode := by
        rcases hmode' with h | h
        · exact Or.inl h
        · exact Or.inr ⟨h.1, h.2, h.1⟩ }
  · simp only [hA, Bool.false_eq_true, if_false]
    exact ⟨mkLinAuto_sound _ _ _ _ _ _ _ hev (fun x => rfl) hmode', rfl, rfl⟩

theorem matRDivS_sizes {a o : Obj K} (c : Scal K) (h : matRDivS a c = .ok o) : o.m = a.m ∧ o.n = a.n := by
  unfold matRDivS at h
  split at h
  · cases h
  · split at h
    · injection h with h; subst h; simp [rematrix]
    · split at h <;> cases h

theorem matAddSubS_sizes {a o : Obj K} (sub rev : Bool) (c : Scal K) (h : matAddSubS sub rev a c = .ok o) :
    o.m = a.m ∧ o.n = a.n := by
  unfold matAddSubS at h
  split at h
  · cases h
  · split at h
    · injection h with h; subst h; simp [rematrix]
    · split at h <;> cases h

theorem matHadamard_sizes {a b o : Obj K} (div : Bool) (h : matHadamard div a b = .ok o) :
    o.m = a.m ∧ o.n = a.n := by
  unfold matHadamard at h
  split at h
  · split at h
    · injection h with h; subst h; simp [rematrix]
    · cases h
  · cases h

/-- **Main lemma.**  On the repaired tree, whatever scico builds for a linear expression denotes
    `den e`, a `dims e` matrix. -/
theorem build_sound : ∀ (e : LExpr K) (o : Obj K),
    Lin e → PlainDiagProducts e → (RealK K ∨ AllC e) → build e = .ok o →
    SoundD o (den e) (dims e).1 (dims e).2 := by
  intro e
  induction e with
  | mat m n dt A =>
    intro o _ _ hM h
    simp only [build, buildC] at h
    injection h with h; subst h
    refine ⟨mkMat_sound _ _ _ _ _ (fun i j hi hj => by simp [den, hi, hj]) hM, ?_, ?_⟩ <;> simp [dims]
  | diag dsh ddt inSh? inDt? d =>
    intro o _ _ hM h
    simp only [build, buildC] at h
    obtain ⟨hS, _, hi, _, hbo, _, _⟩ := mkDiag_sound _ _ _ _ _ _ h (by
      rcases hM with h' | h'
      · exact Or.inl h'
      · refine Or.inr ⟨?_, h'.1⟩
        cases inDt? with
        | none => exact h'.1
        | some t => exact h'.2 t rfl)
    have hm : o.m = (dims (LExpr.diag dsh ddt inSh? inDt? d)).1 := by
      simp only [dims, hbo, Obj.m]
    have hn : o.n = (dims (LExpr.diag dsh ddt inSh? inDt? d)).2 := by
      simp only [dims, hbo, Obj.n, hi]
    refine ⟨hS.congr (fun i j hi' hj' => ?_), hm, hn⟩
    simp only [den, hbo, diagMx]
    have h1 : i < o.md.outShape.size := hi'
    have h2 : j < (inSh?.getD dsh).size := by rw [← hi]; exact hj'
    simp [h1, h2]
  | scaledId c ck sh dt =>
    intro o _ _ hM h
    simp only [build, buildC] at h
    injection h with h; subst h
    refine ⟨(mkSid_sound _ _ _ _ _ hM).congr (fun i j hi _ => ?_), rfl, rfl⟩
    have : i < sh.size := hi
    simp [den, this]
  | ident sh dt =>
    intro o _ _ hM h
    simp only [build, buildC] at h
    injection h with h; subst h
    refine ⟨(mkIdent_sound _ _ hM).congr (fun i j hi _ => ?_), rfl, rfl⟩
    have : i < sh.size := hi
    simp [den, this]
  | lin inSh outSh inDt gDt hasAdj G =>
    intro o _ _ hM h
    simp only [build, buildC] at h
    injection h with h; subst h
    exact mkLinLeaf_sound _ _ _ _ _ _ hM
  | nonlin inSh outSh inDt gDt G => intro o hl; exact absurd hl (by simp [Lin])
  | add a b iha ihb =>
    intro o hl hp hM h
    simp only [build, buildC] at h
    obtain ⟨oa, ha, h⟩ := bind_ok h
    obtain ⟨ob, hb, h⟩ := bind_ok h
    obtain ⟨hSa, hma, hna⟩ := iha oa hl.1 hp.1 (hM.imp id (·.1)) ha
    obtain ⟨hSb, _, _⟩ := ihb ob hl.2 hp.2 (hM.imp id (·.2)) hb
    obtain ⟨hS, hm, hn⟩ := addSub_sound false hSa hSb h
    exact ⟨hS.congr (fun i j _ _ => by simp [den, pm]), by rw [hm, hma]; rfl, by rw [hn, hna]; rfl⟩
  | sub a b iha ihb =>
    intro o hl hp hM h
    simp only [build, buildC] at h
    obtain ⟨oa, ha, h⟩ := bind_ok h
    obtain ⟨ob, hb, h⟩ := bind_ok h
    obtain ⟨hSa, hma, hna⟩ := iha oa hl.1 hp.1 (hM.imp id (·.1)) ha
    obtain ⟨hSb, _, _⟩ := ihb ob hl.2 hp.2 (hM.imp id (·.2)) hb
    obtain ⟨hS, hm, hn⟩ := addSub_sound true hSa hSb h
    exact ⟨hS.congr (fun i j _ _ => by simp [den, pm]), by rw [hm, hma]; rfl, by rw [hn, hna]; rfl⟩
  | neg a iha =>
    intro o hl hp hM h
    simp only [build, buildC] at h
    obtain ⟨oa, ha, h⟩ := bind_ok h
    obtain ⟨hSa, hma, hna⟩ := iha oa hl hp hM ha
    obtain ⟨hS, hm, hn⟩ := neg_sound hSa h
    exact ⟨hS, by rw [hm, hma]; rfl, by rw [hn, hna]; rfl⟩
  | smulL c a iha =>
    intro o hl hp hM h
    simp only [build, buildC] at h
    obtain ⟨oa, ha, h⟩ := bind_ok h
    obtain ⟨hSa, hma, hna⟩ := iha oa hl hp hM ha
    obtain ⟨hS, hm, hn⟩ := smul_sound c hSa h
    exact ⟨hS, by rw [hm, hma]; rfl, by rw [hn, hna]; rfl⟩
  | smulR a c iha =>
    intro o hl hp hM h
    simp only [build, buildC] at h
    obtain ⟨oa, ha, h⟩ := bind_ok h
    obtain ⟨hSa, hma, hna⟩ := iha oa hl hp hM ha
    obtain ⟨hS, hm, hn⟩ := smul_sound c hSa h
    exact ⟨hS, by rw [hm, hma]; rfl, by rw [hn, hna]; rfl⟩
  | sdiv a c iha =>
    intro o hl hp hM h
    simp only [build, buildC] at h
    obtain ⟨oa, ha, h⟩ := bind_ok h
    obtain ⟨hSa, hma, hna⟩ := iha oa hl hp hM ha
    obtain ⟨hS, hm, hn⟩ := sdiv_sound c hSa h
    exact ⟨hS, by rw [hm, hma]; rfl, by rw [hn, hna]; rfl⟩
  | rdiv c a iha =>
    intro o hl hp hM h
    simp only [build, buildC] at h
    obtain ⟨oa, ha, h⟩ := bind_ok h
    obtain ⟨hSa, hma, hna⟩ := iha oa hl hp hM ha
    split at h
    · rename_i hc
      have hS := matRDivS_sound c hSa (by simpa [Obj.cls] using hc) h
      obtain ⟨hm, hn⟩ := matRDivS_sizes c h
      refine ⟨?_, by rw [hm, hma]; rfl, by rw [hn, hna]; rfl⟩
      simp only [den]; rw [← hma, ← hna]; exact hS
    · cases h
  | addS sub rev a c iha =>
    intro o hl hp hM h
    simp only [build, buildC] at h
    obtain ⟨oa, ha, h⟩ := bind_ok h
    obtain ⟨hSa, hma, hna⟩ := iha oa hl hp hM ha
    split at h
    · rename_i hc
      have hS := matAddSubS_sound sub rev c hSa (by simpa [Obj.cls] using hc) h
      obtain ⟨hm, hn⟩ := matAddSubS_sizes sub rev c h
      refine ⟨?_, by rw [hm, hma]; rfl, by rw [hn, hna]; rfl⟩
      simp only [den]; rw [← hma, ← hna]; exact hS
    · cases h
  | had div a b iha ihb =>
    intro o hl hp hM h
    simp only [build, buildC] at h
    obtain ⟨oa, ha, h⟩ := bind_ok h
    obtain ⟨ob, hb, h⟩ := bind_ok h
    obtain ⟨hSa, hma, hna⟩ := iha oa hl.1 hp.1 (hM.imp id (·.1)) ha
    obtain ⟨hSb, _, _⟩ := ihb ob hl.2 hp.2 (hM.imp id (·.2)) hb
    split at h
    · rename_i hc
      have hS := matHadamard_sound div hSa hSb (by simpa [Obj.cls] using hc) h
      obtain ⟨hm, hn⟩ := matHadamard_sizes div h
      exact ⟨hS, by rw [hm, hma]; rfl, by rw [hn, hna]; rfl⟩
    · cases h
  | comp a b iha ihb =>
    intro o hl hp hM h
    simp only [build, buildC] at h
    obtain ⟨oa, ha, h⟩ := bind_ok h
    obtain ⟨ob, hb, h⟩ := bind_ok h
    obtain ⟨hSa, hma, hna⟩ := iha oa hl.1 hp.1 (hM.imp id (·.1)) ha
    obtain ⟨hSb, _, hnb⟩ := ihb ob hl.2 hp.2 (hM.imp id (·.2)) hb
    obtain ⟨hS, hm, hn⟩ := call_sound hSa hSb h
    refine ⟨?_, by rw [hm, hma]; rfl, by rw [hn, hnb]; rfl⟩
    simp only [den]; rw [← hna]; exact hS
  | matmul a b iha ihb =>
    intro o hl hp hM h
    simp only [build, buildC] at h
    obtain ⟨oa, ha, h⟩ := bind_ok h
    obtain ⟨ob, hb, h⟩ := bind_ok h
    obtain ⟨hSa, hma, hna⟩ := iha oa hl.1 hp.1 (hM.imp id (·.1)) ha
    obtain ⟨hSb, _, hnb⟩ := ihb ob hl.2 hp.2.1 (hM.imp id (·.2)) hb
    obtain ⟨hS, hm, hn⟩ := matmul_sound hSa hSb (hp.2.2 oa ob ha hb) h
    refine ⟨?_, by rw [hm, hma]; rfl, by rw [hn, hnb]; rfl⟩
    simp only [den]; rw [← hna]; exact hS
  | T a iha =>
    intro o hl hp hM h
    simp only [build, buildC] at h
    obtain ⟨oa, ha, h⟩ := bind_ok h
    obtain ⟨hSa, hma, hna⟩ := iha oa hl hp hM ha
    obtain ⟨hS, hm, hn⟩ := opT_sound hSa h
    exact ⟨hS, by rw [hm, hna]; rfl, by rw [hn, hma]; rfl⟩
  | H a iha =>
    intro o hl hp hM h
    simp only [build, buildC] at h
    obtain ⟨oa, ha, h⟩ := bind_ok h
    obtain ⟨hSa, hma, hna⟩ := iha oa hl hp hM ha
    obtain ⟨hS, hm, hn⟩ := opH_sound hSa h
    exact ⟨hS, by rw [hm, hna]; rfl, by rw [hn, hma]; rfl⟩
  | conj a iha =>
    intro o hl hp hM h
    simp only [build, buildC] at h
    obtain ⟨oa, ha, h⟩ := bind_ok h
    obtain ⟨hSa, hma, hna⟩ := iha oa hl hp hM ha
    obtain ⟨hS, hm, hn⟩ := opConj_sound hSa h
    exact ⟨hS, by rw [hm, hma]; rfl, by rw [hn, hna]; rfl⟩
  | gram a iha =>
    intro o hl hp hM h
    simp only [build, buildC] at h
    obtain ⟨oa, ha, h⟩ := bind_ok h
    obtain ⟨hSa, hma, hna⟩ := iha oa hl hp hM ha
    obtain ⟨hS, hm, hn⟩ := opGram_sound hSa h
    refine ⟨?_, by rw [hm, hna]; rfl, by rw [hn, hna]; rfl⟩
    simp only [den]; rw [← hma]; exact hS

end
end Scico.OpAlg
