/-
  `NuclearNorm.prox` without any assumption on the existence of singular value decompositions.

  The nuclear norm is specified as the DUAL of the operator norm, `nucDual Z = sup { ⟪G, Z⟫ : G ∈ opBall }`, where
  `opBall = { G : ⟪G, x yᴴ⟫ ≤ 1 for all unit x, y }` (no operators, no SVD in the definition).
  * `nucDual_eq_sum_sv` : on every matrix that HAS a thin SVD, `nucDual` is the sum of its singular values — i.e. what
    `NuclearNorm.__call__` computes (`sum(svd(x, compute_uv=False))`);
  * `cert_nuclear_dual` : `Σ max(0, s_i - lam) u_i w_iᴴ` carries the sub-gradient certificate of `nucDual` at `V = Σ s_i u_i w_iᴴ`;
    the only hypothesis about SVDs is that `(u, s, w)` is one of `V` (what `svd(v)` returned — checked numerically by the tie);
  * `bddAbove_matE`, `bddAbove_matC` : the ball is bounded for real / complex matrices (so the supremum is a real number);
  * `cert_nuclear_matrix_dual`, `cert_nuclear_matrixC_dual` : the matrix instances.
-/
import Scico.Proofs.ProxNuclear
import Mathlib.Order.ConditionallyCompleteLattice.Basic
import Mathlib.Topology.Order.Real

set_option linter.unusedSectionVars false

namespace Scico.ProxNuclear
open Scico.ProxSpec Finset

variable {𝕜 : Type*} [RCLike 𝕜] {E H₁ H₂ : Type*} [NormedAddCommGroup E] [InnerProductSpace ℝ E]
  [NormedAddCommGroup H₁] [InnerProductSpace 𝕜 H₁] [NormedAddCommGroup H₂] [InnerProductSpace 𝕜 H₂]

local notation "⟪" x ", " y "⟫" => inner ℝ x y

/-- the unit ball of the operator norm, written without operators: `G` pairs to at most `1` with every unit rank-one element -/
def opBall (𝕜 : Type*) [RCLike 𝕜] {E H₁ H₂ : Type*} [NormedAddCommGroup E] [InnerProductSpace ℝ E]
    [NormedAddCommGroup H₁] [InnerProductSpace 𝕜 H₁] [NormedAddCommGroup H₂] [InnerProductSpace 𝕜 H₂]
    (outer : H₁ → H₂ → E) : Set E :=
  {G | ∀ (x : H₁) (y : H₂), ‖x‖ = 1 → ‖y‖ = 1 → inner ℝ G (outer x y) ≤ 1}

/-- SPEC (no SVD needed): the nuclear norm as the dual of the operator norm, `sup { ⟪G, Z⟫ : ‖G‖_op ≤ 1 }` -/
noncomputable def nucDual (𝕜 : Type*) [RCLike 𝕜] {E H₁ H₂ : Type*} [NormedAddCommGroup E] [InnerProductSpace ℝ E]
    [NormedAddCommGroup H₁] [InnerProductSpace 𝕜 H₁] [NormedAddCommGroup H₂] [InnerProductSpace 𝕜 H₂]
    (outer : H₁ → H₂ → E) (Z : E) : ℝ :=
  sSup {r | ∃ G ∈ opBall 𝕜 outer, r = inner ℝ G Z}

theorem zero_mem_opBall (outer : H₁ → H₂ → E) : (0 : E) ∈ opBall 𝕜 outer := by
  intro x y _ _; simp

/-- `Σ g_i u_i w_iᴴ` with `g ∈ [0,1]` lies in the operator-norm ball -/
theorem sum_outer_mem_opBall {outer : H₁ → H₂ → E} (hO : IsOuter 𝕜 outer) {k : ℕ} {u : Fin k → H₁} {w : Fin k → H₂}
    (hu : Orthonormal 𝕜 u) (hw : Orthonormal 𝕜 w) {g : Fin k → ℝ} (hg0 : ∀ i, 0 ≤ g i) (hg1 : ∀ i, g i ≤ 1) :
    (∑ i, g i • outer (u i) (w i)) ∈ opBall 𝕜 outer := by
  intro x y hx hy
  rw [sum_inner]
  have : ∀ i, ⟪g i • outer (u i) (w i), outer x y⟫ = g i * RCLike.re (inner 𝕜 (u i) x * (starRingEnd 𝕜) (inner 𝕜 (w i) y)) := by
    intro i; rw [real_inner_smul_left, hO]
  simp only [this]
  exact bilinear_le_one hu hw hg0 hg1 hx hy

/-- on a matrix with a thin SVD every element of the ball pairs to at most the sum of the singular values -/
theorem inner_le_sum_sv_of_mem {outer : H₁ → H₂ → E} {k : ℕ} {Z : E} {u : Fin k → H₁} {s : Fin k → ℝ} {w : Fin k → H₂}
    (hZ : IsSVD 𝕜 outer Z u s w) {G : E} (hG : G ∈ opBall 𝕜 outer) : ⟪G, Z⟫ ≤ ∑ j, s j := by
  rw [hZ.eq, inner_sum]
  refine sum_le_sum fun j _ => ?_
  rw [real_inner_smul_right]
  have := hG (u j) (w j) (hZ.ou.1 j) (hZ.ow.1 j)
  have h := mul_le_mul_of_nonneg_left this (hZ.nonneg j)
  simpa using h

/-- **the dual norm IS the sum of the singular values** of any thin SVD (so `nucDual` is what `NuclearNorm.__call__`
    computes, `sum(svd(x, compute_uv=False))`, on every matrix for which `svd` delivers a decomposition) -/
theorem nucDual_eq_sum_sv {outer : H₁ → H₂ → E} (hO : IsOuter 𝕜 outer) {k : ℕ} {Z : E} {u : Fin k → H₁} {s : Fin k → ℝ}
    {w : Fin k → H₂} (hZ : IsSVD 𝕜 outer Z u s w) : nucDual 𝕜 outer Z = ∑ j, s j := by
  unfold nucDual
  apply le_antisymm
  · refine csSup_le ⟨inner ℝ (0 : E) Z, 0, zero_mem_opBall outer, rfl⟩ ?_
    rintro r ⟨G, hG, rfl⟩
    exact inner_le_sum_sv_of_mem hZ hG
  · apply le_csSup
    · exact ⟨∑ j, s j, by rintro r ⟨G, hG, rfl⟩; exact inner_le_sum_sv_of_mem hZ hG⟩
    · refine ⟨∑ i, (1 : ℝ) • outer (u i) (w i), ?_, (inner_partial_isometry hO hZ).symm⟩
      exact sum_outer_mem_opBall hO hZ.ou hZ.ow (fun _ => zero_le_one) (fun _ => le_refl _)

/-- **`NuclearNorm.prox` is the prox of the dual norm — NO assumption on the existence of decompositions of other
    matrices**: only the factors of `V` itself (`hV`) and boundedness of the ball (`hbdd`, automatic for matrices) -/
theorem cert_nuclear_dual {outer : H₁ → H₂ → E} (hO : IsOuter 𝕜 outer)
    (hbdd : ∀ Z : E, BddAbove {r | ∃ G ∈ opBall 𝕜 outer, r = inner ℝ G Z})
    {lam : ℝ} (hlam : 0 < lam) {k : ℕ} {V : E} {u : Fin k → H₁} {s : Fin k → ℝ} {w : Fin k → H₂}
    (hV : IsSVD 𝕜 outer V u s w) :
    Cert Set.univ (nucDual 𝕜 outer) lam V (∑ i, max 0 (s i - lam) • outer (u i) (w i)) := by
  refine ⟨trivial, fun z _ => ?_⟩
  set t : Fin k → ℝ := fun i => max 0 (s i - lam) with ht
  have ht0 : ∀ i, 0 ≤ t i := fun i => le_max_left _ _
  have hP : IsSVD 𝕜 outer (∑ i, t i • outer (u i) (w i)) u t w := ⟨hV.ou, hV.ow, ht0, rfl⟩
  rw [nucDual_eq_sum_sv hO hP]
  set g : Fin k → ℝ := fun i => (s i - t i) / lam with hg
  have hG : (1 / lam) • (V - ∑ i, t i • outer (u i) (w i)) = ∑ i, g i • outer (u i) (w i) := by
    rw [hV.eq, ← sum_sub_distrib, smul_sum]
    refine sum_congr rfl fun i _ => ?_
    rw [← sub_smul, smul_smul, hg]
    congr 1; ring
  have hg0 : ∀ i, 0 ≤ g i := fun i => by
    rw [hg]; apply div_nonneg _ hlam.le
    simp only [ht]; rcases le_total 0 (s i - lam) with h | h
    · rw [max_eq_right h]; linarith
    · rw [max_eq_left h]; linarith [hV.nonneg i]
  have hg1 : ∀ i, g i ≤ 1 := fun i => by
    rw [hg, div_le_one hlam]
    simp only [ht]; rcases le_total 0 (s i - lam) with h | h
    · rw [max_eq_right h]; linarith
    · rw [max_eq_left h]; linarith
  have hgt : ∀ i, g i * t i = t i := fun i => by
    simp only [hg, ht]; rcases le_total 0 (s i - lam) with h | h
    · rw [max_eq_right h]; field_simp; ring
    · rw [max_eq_left h]; ring
  rw [hG, inner_sub_right]
  have hGP : ⟪∑ i, g i • outer (u i) (w i), ∑ i, t i • outer (u i) (w i)⟫ = ∑ i, t i := by
    rw [inner_sum_outer hO]
    refine sum_congr rfl fun j _ => ?_
    have : ∑ i, g i * RCLike.re (inner 𝕜 (u i) (u j) * (starRingEnd 𝕜) (inner 𝕜 (w i) (w j))) = g j := by
      classical
      rw [sum_eq_single j]
      · rw [(orthonormal_iff_ite.mp hV.ou) j j, (orthonormal_iff_ite.mp hV.ow) j j]; simp
      · intro i _ hij
        rw [(orthonormal_iff_ite.mp hV.ou) i j, if_neg hij]; simp
      · intro h; exact absurd (mem_univ j) h
    rw [this, mul_comm, hgt]
  have hmem := sum_outer_mem_opBall hO hV.ou hV.ow hg0 hg1
  have hGz : ⟪∑ i, g i • outer (u i) (w i), z⟫ ≤ nucDual 𝕜 outer z :=
    le_csSup (hbdd z) ⟨_, hmem, rfl⟩
  rw [hGP]
  linarith


/-! ### boundedness of the ball for matrices (so that the supremum is a real number) -/

section MatrixBdd
open WithLp
variable {m n : ℕ}

theorem entry_le_one_of_mem {G : MatE m n} (hG : G ∈ opBall ℝ (outerM (m := m) (n := n))) (a : Fin m) (b : Fin n) :
    |G (a, b)| ≤ 1 := by
  have key : ∀ c : ℝ, ‖c‖ = 1 → c * G (a, b) ≤ 1 := by
    intro c hc
    have h := hG (EuclideanSpace.single a c) (EuclideanSpace.single b 1) (by simp [hc]) (by simp)
    rw [PiLp.inner_apply, Fintype.sum_prod_type] at h
    rw [Finset.sum_eq_single a, Finset.sum_eq_single b] at h
    · simpa [outerM, mul_comm] using h
    · intro b' _ hb'; simp [outerM, hb']
    · intro hb; exact absurd (mem_univ b) hb
    · intro a' _ ha'
      refine Finset.sum_eq_zero fun b' _ => ?_
      simp [outerM, ha']
    · intro ha; exact absurd (mem_univ a) ha
  have h1 := key 1 (by simp)
  have h2 := key (-1) (by simp)
  rw [abs_le]; constructor <;> linarith

theorem bddAbove_matE (Z : MatE m n) :
    BddAbove {r | ∃ G ∈ opBall ℝ (outerM (m := m) (n := n)), r = inner ℝ G Z} := by
  refine ⟨∑ ab, |Z ab|, ?_⟩
  rintro r ⟨G, hG, rfl⟩
  rw [PiLp.inner_apply]
  refine sum_le_sum fun ab _ => ?_
  obtain ⟨a, b⟩ := ab
  have := entry_le_one_of_mem hG a b
  simp only [RCLike.inner_apply, conj_trivial]
  calc Z (a, b) * G (a, b) ≤ |Z (a, b) * G (a, b)| := le_abs_self _
    _ = |Z (a, b)| * |G (a, b)| := abs_mul _ _
    _ ≤ |Z (a, b)| * 1 := mul_le_mul_of_nonneg_left this (abs_nonneg _)
    _ = |Z (a, b)| := mul_one _

/-- **`NuclearNorm.prox` on real matrices, with the nuclear norm as the dual of the operator norm: no SVD-existence
    assumption** — only that `U`, `s`, `Vh` are a thin SVD of the argument -/
theorem cert_nuclear_matrix_dual {k : ℕ} {lam : ℝ} (hlam : 0 < lam) (U : Fin m → Fin k → ℝ) (s : Fin k → ℝ)
    (Vh : Fin k → Fin n → ℝ) (hU : Orthonormal ℝ (colE U)) (hV : Orthonormal ℝ (rowE Vh)) (hs : ∀ l, 0 ≤ s l) :
    Cert Set.univ (nucDual ℝ (outerM (m := m) (n := n))) lam (matE (fun i j => ∑ l, U i l * s l * Vh l j))
      (matE (fun i j => ∑ l, U i l * max 0 (s l - lam) * Vh l j)) := by
  rw [matE_usv, matE_usv]
  exact cert_nuclear_dual isOuter_outerM bddAbove_matE hlam ⟨hU, hV, hs, rfl⟩

theorem entry_le_one_of_memC {G : MatC m n} (hG : G ∈ opBall ℂ (outerC (m := m) (n := n))) (a : Fin m) (b : Fin n) :
    |(G (a, b)).re| ≤ 1 ∧ |(G (a, b)).im| ≤ 1 := by
  have key : ∀ c : ℂ, ‖c‖ = 1 → inner ℝ (G (a, b)) c ≤ 1 := by
    intro c hc
    have h := hG (EuclideanSpace.single a c) (EuclideanSpace.single b 1) (by simp [hc]) (by simp)
    rw [PiLp.inner_apply, Fintype.sum_prod_type] at h
    rw [Finset.sum_eq_single a, Finset.sum_eq_single b] at h
    · simpa [outerC] using h
    · intro b' _ hb'; simp [outerC, hb']
    · intro hb; exact absurd (mem_univ b) hb
    · intro a' _ ha'
      refine Finset.sum_eq_zero fun b' _ => ?_
      simp [outerC, ha']
    · intro ha; exact absurd (mem_univ a) ha
  have h1 := key 1 (by simp)
  have h2 := key (-1) (by simp)
  have h3 := key Complex.I (by simp)
  have h4 := key (-Complex.I) (by simp)
  simp only [Complex.inner] at h1 h2 h3 h4
  simp at h1 h2 h3 h4
  constructor <;> rw [abs_le] <;> constructor <;> linarith

theorem bddAbove_matC (Z : MatC m n) :
    BddAbove {r | ∃ G ∈ opBall ℂ (outerC (m := m) (n := n)), r = inner ℝ G Z} := by
  refine ⟨∑ ab, (|(Z ab).re| + |(Z ab).im|), ?_⟩
  rintro r ⟨G, hG, rfl⟩
  rw [PiLp.inner_apply]
  refine sum_le_sum fun ab _ => ?_
  obtain ⟨a, b⟩ := ab
  obtain ⟨h1, h2⟩ := entry_le_one_of_memC hG a b
  have e : inner ℝ (G (a, b)) (Z (a, b)) = (G (a, b)).re * (Z (a, b)).re + (G (a, b)).im * (Z (a, b)).im := by
    simp [Complex.inner]; ring
  rw [e]
  have a1 : (G (a, b)).re * (Z (a, b)).re ≤ |(Z (a, b)).re| := by
    calc _ ≤ |(G (a, b)).re * (Z (a, b)).re| := le_abs_self _
      _ = |(G (a, b)).re| * |(Z (a, b)).re| := abs_mul _ _
      _ ≤ 1 * |(Z (a, b)).re| := mul_le_mul_of_nonneg_right h1 (abs_nonneg _)
      _ = _ := one_mul _
  have a2 : (G (a, b)).im * (Z (a, b)).im ≤ |(Z (a, b)).im| := by
    calc _ ≤ |(G (a, b)).im * (Z (a, b)).im| := le_abs_self _
      _ = |(G (a, b)).im| * |(Z (a, b)).im| := abs_mul _ _
      _ ≤ 1 * |(Z (a, b)).im| := mul_le_mul_of_nonneg_right h2 (abs_nonneg _)
      _ = _ := one_mul _
  linarith

/-- the same for complex matrices -/
theorem cert_nuclear_matrixC_dual {k : ℕ} {lam : ℝ} (hlam : 0 < lam) (U : Fin m → Fin k → ℂ) (s : Fin k → ℝ)
    (Vh : Fin k → Fin n → ℂ) (hU : Orthonormal ℂ (colC U)) (hV : Orthonormal ℂ (rowConjC Vh)) (hs : ∀ l, 0 ≤ s l) :
    Cert Set.univ (nucDual ℂ (outerC (m := m) (n := n))) lam (matC (fun i j => ∑ l, (s l : ℂ) * (U i l * Vh l j)))
      (matC (fun i j => ∑ l, ((max 0 (s l - lam) : ℝ) : ℂ) * (U i l * Vh l j))) := by
  rw [matC_usv, matC_usv]
  exact cert_nuclear_dual isOuter_outerC bddAbove_matC hlam ⟨hU, hV, hs, rfl⟩

end MatrixBdd

end Scico.ProxNuclear
