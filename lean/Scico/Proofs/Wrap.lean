/-
  Helper lemmas for `Scico.Model.Wrap`: the specification side (`chunks`, well-formedness) and
  the characterisation of the code-shaped `cumsum`/`split` against it.
-/
import Scico.Model.Wrap
import Mathlib.Algebra.BigOperators.Group.List.Basic

namespace Scico.Wrap

variable {α β : Type}

/-- specification: consecutive pieces of the given sizes -/
def chunks : List Nat → List α → List (List α)
  | [], _ => []
  | s :: ss, v => v.take s :: chunks ss (v.drop s)

/-- data length matches the shape -/
def Arr.WF (a : Arr α) : Prop := a.data.length = sizeOf a.shape

def Val.WF : Val α → Prop
  | .arr a => a.WF
  | .blk bs => ∀ b ∈ bs, b.WF

/-- number of scalars of a (possibly nested) shape -/
def total : Shape → Nat
  | .flat s => sizeOf s
  | .nested ss => (ss.map sizeOf).sum

/-- Python's `()` is the 0-d shape, not a nested shape: a block shape has at least one block -/
def Shape.Valid : Shape → Prop
  | .nested [] => False
  | _ => True

instance : DecidablePred (Shape.Valid) := fun sh => by
  cases sh with
  | flat s => exact isTrue trivial
  | nested ss => cases ss with
    | nil => exact isFalse (fun h => h)
    | cons _ _ => exact isTrue trivial

theorem unravel_nested_of_ne (v : List α) (ss : List (List Nat)) (hne : ss ≠ []) :
    unravel v (.nested ss) =
      (mapO (fun (p : List α × List Nat) => reshape p.1 p.2)
        (List.zip (splitIdx 0 (cumsumFrom 0 (ss.map sizeOf)).dropLast v) ss)).map Val.blk := by
  cases ss with
  | nil => exact absurd rfl hne
  | cons _ _ => rfl

theorem cumsumFrom_ne_nil (acc : Nat) {l : List Nat} (h : l ≠ []) : cumsumFrom acc l ≠ [] := by
  cases l with
  | nil => exact absurd rfl h
  | cons s ss => simp [cumsumFrom]

/-- `jnp.split` at the cumulative sizes (last index dropped) = consecutive pieces of those sizes -/
theorem splitIdx_cumsum : ∀ (sizes : List Nat) (start : Nat) (v : List α), sizes ≠ [] →
    v.length = sizes.sum → splitIdx start (cumsumFrom start sizes).dropLast v = chunks sizes v
  | [], _, _, h, _ => absurd rfl h
  | [s], start, v, _, hv => by
    simp at hv
    simp [cumsumFrom, splitIdx, chunks, List.take_of_length_le (Nat.le_of_eq hv)]
  | s :: s' :: ss, start, v, _, hv => by
    have hne : cumsumFrom (start + s) (s' :: ss) ≠ [] := cumsumFrom_ne_nil _ (by simp)
    have hd : (cumsumFrom start (s :: s' :: ss)).dropLast
        = (start + s) :: (cumsumFrom (start + s) (s' :: ss)).dropLast := by
      show ((start + s) :: cumsumFrom (start + s) (s' :: ss)).dropLast = _
      exact List.dropLast_cons_of_ne_nil hne
    rw [hd]
    simp only [splitIdx, Nat.add_sub_cancel_left, chunks]
    congr 1
    have hv' : (v.drop s).length = (s' :: ss).sum := by
      simp only [List.sum_cons] at hv ⊢
      rw [List.length_drop]; omega
    have := splitIdx_cumsum (s' :: ss) (start + s) (v.drop s) (by simp) hv'
    simpa [chunks] using this

theorem chunks_flatten : ∀ (bs : List (List α)), chunks (bs.map List.length) bs.flatten = bs
  | [] => rfl
  | b :: rest => by
    simp only [List.map_cons, List.flatten_cons, chunks, List.take_left', List.drop_left']
    rw [chunks_flatten rest]

theorem flatten_chunks : ∀ (sizes : List Nat) (v : List α), v.length = sizes.sum →
    (chunks sizes v).flatten = v
  | [], v, h => by
    have : v = [] := by simpa using h
    subst this; rfl
  | s :: ss, v, h => by
    have hv' : (v.drop s).length = ss.sum := by
      simp only [List.sum_cons] at h
      rw [List.length_drop]; omega
    simp only [chunks, List.flatten_cons, flatten_chunks ss (v.drop s) hv', List.take_append_drop]

theorem chunks_length : ∀ (sizes : List Nat) (v : List α), (chunks sizes v).length = sizes.length
  | [], _ => rfl
  | s :: ss, v => by simp [chunks, chunks_length ss]

theorem chunks_get_length : ∀ (sizes : List Nat) (v : List α), v.length = sizes.sum →
    ∀ (i : Nat) (h1 : i < (chunks sizes v).length) (h2 : i < sizes.length),
      ((chunks sizes v)[i]).length = sizes[i]
  | [], _, _, i, h1, _ => by simp [chunks] at h1
  | s :: ss, v, h, i, h1, h2 => by
    have hv' : (v.drop s).length = ss.sum := by
      simp only [List.sum_cons] at h
      rw [List.length_drop]; omega
    cases i with
    | zero =>
      simp only [chunks, List.getElem_cons_zero, List.length_take]
      simp only [List.sum_cons] at h; omega
    | succ j =>
      simp only [chunks, List.getElem_cons_succ]
      exact chunks_get_length ss (v.drop s) hv' j (by simpa [chunks] using h1) (by simpa using h2)

theorem zip_map_eq_zipWith' {γ δ ε : Type} (f : γ → δ → ε) : ∀ (l : List γ) (l' : List δ),
    (l.zip l').map (fun p => f p.1 p.2) = List.zipWith f l l'
  | [], _ => by simp
  | _ :: _, [] => by simp
  | x :: xs, y :: ys => by simp [zip_map_eq_zipWith' f xs ys]

/-! ### `mapO` -/

theorem mapO_some_of_forall {g : α → Option β} {h : α → β} : ∀ {l : List α},
    (∀ x ∈ l, g x = some (h x)) → mapO g l = some (l.map h)
  | [], _ => rfl
  | x :: xs, hall => by
    have hx := hall x (by simp)
    have hxs := mapO_some_of_forall (g := g) (h := h) (l := xs) (fun y hy => hall y (by simp [hy]))
    simp [mapO, hx, hxs]

theorem mapO_zip_reshape : ∀ (bs : List (Arr α)), (∀ b ∈ bs, b.WF) →
    mapO (fun (p : List α × List Nat) => reshape p.1 p.2)
      (List.zip (bs.map Arr.data) (bs.map Arr.shape)) = some bs
  | [], _ => rfl
  | b :: rest, h => by
    have hb : b.WF := h b (by simp)
    have hr := mapO_zip_reshape rest (fun x hx => h x (by simp [hx]))
    unfold Arr.WF at hb
    have hb' : reshape b.data b.shape = some b := by
      cases b
      simp [reshape] at hb ⊢
      exact hb
    simp only [List.map_cons, List.zip_cons_cons, mapO, hb', hr]

theorem mapO_length {g : α → Option β} : ∀ {l : List α} {r : List β}, mapO g l = some r → r.length = l.length
  | [], r, h => by simp [mapO] at h; subst h; rfl
  | x :: xs, r, h => by
    unfold mapO at h
    cases hx : g x with
    | none => simp [hx] at h
    | some y =>
      cases hxs : mapO g xs with
      | none => simp [hx, hxs] at h
      | some ys =>
        simp [hx, hxs] at h
        subst h
        simp [mapO_length hxs]

/-! ### ravel / unravel -/

theorem sizes_eq_lengths (bs : List (Arr α)) (h : ∀ b ∈ bs, b.WF) :
    (bs.map Arr.shape).map sizeOf = (bs.map Arr.data).map List.length := by
  induction bs with
  | nil => rfl
  | cons b rest ih =>
    have hb : b.WF := h b (by simp)
    unfold Arr.WF at hb
    simp only [List.map_cons, hb]
    rw [ih (fun x hx => h x (by simp [hx]))]

/-- `_unravel(_ravel(x), x.shape) = x` -/
theorem unravel_ravel (x : Val α) (h : x.WF) (hv : (shapeOf x).Valid) :
    unravel (ravel x) (shapeOf x) = some x := by
  cases x with
  | arr a =>
    unfold Val.WF Arr.WF at h
    simp [unravel, ravel, shapeOf, reshape, h]
  | blk bs =>
    unfold Val.WF at h
    cases hbs : bs with
    | nil => subst hbs; exact absurd hv (by simp [shapeOf, Shape.Valid])
    | cons b rest =>
      rw [← hbs]
      have hne : bs.map Arr.shape ≠ [] := by simp [hbs]
      have hsz := sizes_eq_lengths bs h
      have hlen : ((bs.map Arr.data).flatten).length = ((bs.map Arr.shape).map sizeOf).sum := by
        rw [hsz, List.length_flatten]
      simp only [ravel, shapeOf]
      rw [unravel_nested_of_ne _ _ hne, splitIdx_cumsum _ 0 _ (by simpa using hne) hlen, hsz, chunks_flatten,
        mapO_zip_reshape bs h]
      rfl

/-- `_ravel(_unravel(v, shape)) = v` and the result has the requested shape -/
theorem ravel_unravel (v : List α) (sh : Shape) (hvalid : sh.Valid) (h : v.length = total sh) :
    ∃ x, unravel v sh = some x ∧ ravel x = v ∧ shapeOf x = sh ∧ x.WF := by
  cases sh with
  | flat s =>
    refine ⟨.arr ⟨s, v⟩, ?_, rfl, rfl, ?_⟩
    · simp [unravel, reshape, total] at h ⊢; exact h
    · simpa [Val.WF, Arr.WF, total] using h
  | nested ss =>
    simp only [total] at h
    cases hss : ss with
    | nil => subst hss; exact absurd hvalid (by simp [Shape.Valid])
    | cons s0 rest =>
      rw [← hss]
      have hne0 : ss ≠ [] := by simp [hss]
      have hne : ss.map sizeOf ≠ [] := by simp [hss]
      have hch := splitIdx_cumsum (ss.map sizeOf) 0 v hne h
      -- the pieces, reshaped
      let pieces := chunks (ss.map sizeOf) v
      have hpl : pieces.length = ss.length := by simp [pieces, chunks_length]
      let bs : List (Arr α) := List.zipWith (fun p s => (⟨s, p⟩ : Arr α)) pieces ss
      have hmap : mapO (fun (p : List α × List Nat) => reshape p.1 p.2) (List.zip pieces ss) = some bs := by
        have : bs = (List.zip pieces ss).map (fun p => (⟨p.2, p.1⟩ : Arr α)) :=
          (zip_map_eq_zipWith' (fun p s => (⟨s, p⟩ : Arr α)) pieces ss).symm
        rw [this]
        apply mapO_some_of_forall
        intro p hp
        obtain ⟨i, hi, rfl⟩ := List.getElem_of_mem hp
        have hi1 : i < pieces.length := by simp at hi; omega
        have hi2 : i < ss.length := by simp at hi; omega
        have hl := chunks_get_length (ss.map sizeOf) v h i hi1 (by simpa using hi2)
        simp only [List.getElem_zip, reshape]
        simp only [List.getElem_map] at hl
        simp [pieces, hl]
      have hdata : bs.map Arr.data = pieces := by
        apply List.ext_getElem
        · simp [bs, hpl]
        · intro i h1 h2
          simp [bs]
      have hshape : bs.map Arr.shape = ss := by
        apply List.ext_getElem
        · simp [bs, hpl]
        · intro i h1 h2
          simp [bs]
      refine ⟨.blk bs, ?_, ?_, ?_, ?_⟩
      · rw [unravel_nested_of_ne _ _ hne0, hch, hmap]; rfl
      · simp only [ravel, hdata]
        exact flatten_chunks _ v h
      · simp [shapeOf, hshape]
      · intro b hb
        obtain ⟨i, hi, rfl⟩ := List.getElem_of_mem hb
        have hi1 : i < pieces.length := by simp [bs] at hi; omega
        have hi2 : i < ss.length := by simp [bs] at hi; omega
        have hl := chunks_get_length (ss.map sizeOf) v h i hi1 (by simpa using hi2)
        simp only [List.getElem_map] at hl
        simp [bs, Arr.WF, pieces, hl]

/-! ### split / join -/

theorem zipWith_re_im (d : List (Cx α)) : List.zipWith Cx.mk (d.map Cx.re) (d.map Cx.im) = d := by
  induction d with
  | nil => rfl
  | cons x xs ih => simp [ih]

theorem map_re_zipWith : ∀ (a b : List α), a.length = b.length →
    (List.zipWith Cx.mk a b).map Cx.re = a ∧ (List.zipWith Cx.mk a b).map Cx.im = b
  | [], [], _ => ⟨rfl, rfl⟩
  | [], _ :: _, h => by simp at h
  | _ :: _, [], h => by simp at h
  | x :: xs, y :: ys, h => by
    obtain ⟨h1, h2⟩ := map_re_zipWith xs ys (by simpa using h)
    simp [h1, h2]

theorem joinArr_splitArr (a : Arr (Cx α)) (h : a.WF) : joinArr (splitArr a) = some a := by
  unfold Arr.WF at h
  have h1 : (a.data.map Cx.re).length = sizeOf a.shape := by simpa using h
  have h2 : (a.data.map Cx.im).length = sizeOf a.shape := by simpa using h
  simp only [joinArr, splitArr, show ¬ (2 < 2) by omega, if_false]
  rw [List.take_left' h1, List.drop_left' h1, List.take_of_length_le (Nat.le_of_eq h2), zipWith_re_im]

theorem splitArr_joinArr (r : Arr α) (s : List Nat) (hs : r.shape = 2 :: s)
    (hd : r.data.length = 2 * sizeOf s) :
    ∃ z, joinArr r = some z ∧ splitArr z = r ∧ z.WF ∧ z.shape = s := by
  obtain ⟨sh, d⟩ := r
  simp only at hs hd
  subst hs
  refine ⟨⟨s, List.zipWith Cx.mk (d.take (sizeOf s)) ((d.drop (sizeOf s)).take (sizeOf s))⟩, ?_, ?_, ?_, rfl⟩
  · simp [joinArr]
  · have hl : (d.take (sizeOf s)).length = ((d.drop (sizeOf s)).take (sizeOf s)).length := by
      simp only [List.length_take, List.length_drop]; omega
    obtain ⟨e1, e2⟩ := map_re_zipWith _ _ hl
    simp only [splitArr, e1, e2]
    have : (d.drop (sizeOf s)).take (sizeOf s) = d.drop (sizeOf s) :=
      List.take_of_length_le (by simp only [List.length_drop]; omega)
    rw [this, List.take_append_drop]
  · simp only [Arr.WF, List.length_zipWith, List.length_take, List.length_drop]; omega

theorem mapO_join_split : ∀ (bs : List (Arr (Cx α))), (∀ b ∈ bs, b.WF) →
    mapO joinArr (bs.map splitArr) = some bs
  | [], _ => rfl
  | b :: rest, h => by
    have := mapO_join_split rest (fun x hx => h x (by simp [hx]))
    simp [mapO, joinArr_splitArr b (h b (by simp)), this]

theorem joinVal_splitVal (x : Val (Cx α)) (h : x.WF) : joinVal (splitVal x) = some x := by
  cases x with
  | arr a => simp [joinVal, splitVal, joinArr_splitArr a h]
  | blk bs => simp [joinVal, splitVal, mapO_join_split bs h]

theorem mapO_split_join : ∀ (rs : List (Arr α)) (zs : List (Arr (Cx α))),
    (∀ r ∈ rs, ∃ s, r.shape = 2 :: s ∧ r.data.length = 2 * sizeOf s) →
    mapO joinArr rs = some zs → zs.map splitArr = rs ∧ ∀ z ∈ zs, z.WF
  | [], zs, _, h => by simp [mapO] at h; subst h; simp
  | r :: rest, zs, hall, h => by
    obtain ⟨s, hs, hd⟩ := hall r (by simp)
    obtain ⟨z, hz, hsz, hwf, _⟩ := splitArr_joinArr r s hs hd
    unfold mapO at h
    rw [hz] at h
    cases hr : mapO joinArr rest with
    | none => simp [hr] at h
    | some zs' =>
      simp [hr] at h
      subst h
      obtain ⟨e, w⟩ := mapO_split_join rest zs' (fun x hx => hall x (by simp [hx])) hr
      refine ⟨by simp [hsz, e], ?_⟩
      intro y hy
      rcases List.mem_cons.1 hy with rfl | hy
      · exact hwf
      · exact w y hy

/-- shapes of a split container: every array has a leading axis 2 -/
def SplitShaped : Val α → Prop
  | .arr r => ∃ s, r.shape = 2 :: s ∧ r.data.length = 2 * sizeOf s
  | .blk rs => ∀ r ∈ rs, ∃ s, r.shape = 2 :: s ∧ r.data.length = 2 * sizeOf s

theorem splitVal_joinVal (r : Val α) (h : SplitShaped r) :
    ∃ z, joinVal r = some z ∧ splitVal z = r ∧ z.WF := by
  cases r with
  | arr a =>
    obtain ⟨s, hs, hd⟩ := h
    obtain ⟨z, hz, hsz, hwf, _⟩ := splitArr_joinArr a s hs hd
    exact ⟨.arr z, by simp [joinVal, hz], by simp [splitVal, hsz], hwf⟩
  | blk rs =>
    have hex : ∃ zs, mapO joinArr rs = some zs := by
      induction rs with
      | nil => exact ⟨[], rfl⟩
      | cons r rest ih =>
        obtain ⟨s, hs, hd⟩ := h r (by simp)
        obtain ⟨z, hz, _⟩ := splitArr_joinArr r s hs hd
        obtain ⟨zs, hzs⟩ := ih (fun x hx => h x (by simp [hx]))
        exact ⟨z :: zs, by simp [mapO, hz, hzs]⟩
    obtain ⟨zs, hzs⟩ := hex
    obtain ⟨e, w⟩ := mapO_split_join rs zs h hzs
    exact ⟨.blk zs, by simp [joinVal, hzs], by simp [splitVal, e], w⟩

theorem splitVal_wf (x : Val (Cx α)) (h : x.WF) : (splitVal x).WF ∧ SplitShaped (splitVal x) := by
  have key : ∀ a : Arr (Cx α), a.WF → (splitArr a).WF ∧
      ∃ s, (splitArr a).shape = 2 :: s ∧ (splitArr a).data.length = 2 * sizeOf s := by
    intro a ha
    unfold Arr.WF at ha
    refine ⟨?_, a.shape, rfl, ?_⟩
    · simp [Arr.WF, splitArr, sizeOf, ha]; omega
    · simp [splitArr, ha]; omega
  cases x with
  | arr a => exact ⟨(key a h).1, (key a h).2⟩
  | blk bs =>
    constructor
    · intro b hb
      obtain ⟨a, ha, rfl⟩ := List.mem_map.1 hb
      exact (key a (h a ha)).1
    · intro b hb
      obtain ⟨a, ha, rfl⟩ := List.mem_map.1 hb
      exact (key a (h a ha)).2

/-! ### containers -/

def Container.WF : Container α → Prop
  | .real x => x.WF
  | .cplx x => x.WF

/-- same kind (real/complex) and same work shape -/
def SameForm (c c0 : Container α) : Prop :=
  workShape c = workShape c0 ∧
  match c, c0 with
  | .real _, .real _ => True
  | .cplx _, .cplx _ => True
  | _, _ => False

theorem result_x0flat (c c0 : Container α) (hwf : c.WF) (hf : SameForm c c0)
    (hv : (workShape c0).Valid) : result c0 (x0flat c) = some c := by
  obtain ⟨hs, hk⟩ := hf
  rw [← hs] at hv
  cases c with
  | real x =>
    cases c0 with
    | real x0 =>
      simp only [result, x0flat, prepare] at *
      rw [← hs]
      simp [workShape, prepare, unravel_ravel x hwf (by simpa [workShape, prepare] using hv)]
    | cplx _ => exact absurd hk (by simp)
  | cplx x =>
    cases c0 with
    | real _ => exact absurd hk (by simp)
    | cplx x0 =>
      simp only [result, x0flat, prepare] at *
      rw [← hs]
      have := (splitVal_wf x hwf).1
      simp [workShape, prepare, unravel_ravel (splitVal x) this (by simpa [workShape, prepare] using hv),
        joinVal_splitVal x hwf]

end Scico.Wrap

namespace Scico.Wrap

variable {α : Type}

theorem sizeOf_cons (k : Nat) (s : List Nat) : sizeOf (k :: s) = k * sizeOf s := rfl

theorem splitShaped_of_shape (r : Val α) (x0 : Val (Cx α)) (hwf : r.WF)
    (hs : shapeOf r = shapeOf (splitVal x0)) : SplitShaped r := by
  cases r with
  | arr a =>
    cases x0 with
    | arr a0 =>
      simp only [shapeOf, splitVal, splitArr, Shape.flat.injEq] at hs
      refine ⟨a0.shape, hs, ?_⟩
      have : a.data.length = sizeOf a.shape := hwf
      rw [this, hs, sizeOf_cons]
    | blk _ => simp [shapeOf, splitVal] at hs
  | blk rs =>
    cases x0 with
    | arr _ => simp [shapeOf, splitVal] at hs
    | blk bs =>
      simp only [shapeOf, splitVal, Shape.nested.injEq, List.map_map] at hs
      intro r hr
      obtain ⟨i, hi, rfl⟩ := List.getElem_of_mem hr
      have hlen : rs.length = bs.length := by
        have := congrArg List.length hs
        simpa using this
      have hi' : i < bs.length := by omega
      have hsh : rs[i].shape = 2 :: bs[i].shape := by
        have h1 : (rs.map Arr.shape)[i]'(by simpa using hi) = (bs.map (Arr.shape ∘ splitArr))[i]'(by simpa using hi') := by
          simp only [hs]
        simpa [splitArr] using h1
      refine ⟨bs[i].shape, hsh, ?_⟩
      have : rs[i].data.length = sizeOf rs[i].shape := hwf _ hr
      rw [this, hsh, sizeOf_cons]

/-- what scipy returns is mapped to a well-formed container of the form of `x0` whose
    flattening is exactly scipy's vector -/
theorem x0flat_result (c0 : Container α) (hwf0 : c0.WF) (hvalid : (workShape c0).Valid) (v : List α)
    (hv : v.length = total (workShape c0)) :
    ∃ c, result c0 v = some c ∧ x0flat c = v ∧ c.WF ∧ SameForm c c0 := by
  obtain ⟨x, hx, hr, hsh, hxwf⟩ := ravel_unravel v (workShape c0) hvalid hv
  cases c0 with
  | real x0 =>
    refine ⟨.real x, by simp [result, hx], by simpa [x0flat, prepare] using hr, hxwf, ?_, trivial⟩
    simpa [workShape, prepare] using hsh
  | cplx x0 =>
    have hss : SplitShaped x := splitShaped_of_shape x x0 hxwf (by simpa [workShape, prepare] using hsh)
    obtain ⟨z, hz, hsz, hzwf⟩ := splitVal_joinVal x hss
    refine ⟨.cplx z, by simp [result, hx, hz], by simp [x0flat, prepare, hsz, hr], hzwf, ?_, trivial⟩
    simp [workShape, prepare, hsz, hsh]

theorem total_workShape_eq (c : Container α) (h : c.WF) : (x0flat c).length = total (workShape c) := by
  have key : ∀ x : Val α, x.WF → (ravel x).length = total (shapeOf x) := by
    intro x hx
    cases x with
    | arr a => exact hx
    | blk bs =>
      simp only [ravel, shapeOf, total, List.length_flatten]
      rw [sizes_eq_lengths bs hx]
  cases c with
  | real x => exact key x h
  | cplx x => exact key _ (splitVal_wf x h).1

end Scico.Wrap
