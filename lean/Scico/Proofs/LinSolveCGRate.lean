/-
  A convergence *rate* for `scico.solver.cg` without preconditioner (C14, round 3): if `m ‖v‖² ≤ ⟪v, A v⟫ ≤ L ‖v‖²`
  (`0 < m`), every executed body contracts the squared `A`-norm of the error by at least `1 − m/L`:
  `‖x⋆ − x_{k+1}‖²_A ≤ (1 − m/L) ‖x⋆ − x_k‖²_A`, hence `‖x⋆ − x_k‖_A ≤ (1 − 1/κ)^{k/2} ‖x⋆ − x_0‖_A`.
  Proof: `x_k + t r_k` lies in `x_{k+1} + span{p_0 … p_k}`, so by optimality (`cg_optimal`) the CG iterate is at least as good
  as the exact-line-search steepest-descent step, whose gain is `‖r‖⁴/⟪r, A r⟫ ≥ (m/L) ‖e‖²_A`.
-/
import Scico.Proofs.LinSolveCGOpt
import Mathlib.Tactic.Linarith
import Mathlib.Tactic.Positivity
import Mathlib.Tactic.FieldSimp

namespace Scico.LinSolve
open RCLike

variable {𝕜 V : Type} [RCLike 𝕜] [NormedAddCommGroup V] [InnerProductSpace 𝕜 V]

/-- without preconditioner `z = r`, so `r_k` lies in the span of `p_0 … p_k` -/
theorem cg_r_mem_span (A : V → V) (b x0 : V) (k : ℕ) :
    (cgSeq (𝕜 := 𝕜) A (fun v => v) b x0 k).r ∈
      Submodule.span 𝕜 (Set.range fun j : Fin (k + 1) => (cgSeq (𝕜 := 𝕜) A (fun v => v) b x0 j.val).p) := by
  have hmem : ∀ j, j < k + 1 → (cgSeq (𝕜 := 𝕜) A (fun v => v) b x0 j).p ∈
      Submodule.span 𝕜 (Set.range fun j : Fin (k + 1) => (cgSeq (𝕜 := 𝕜) A (fun v => v) b x0 j.val).p) :=
    fun j hj => Submodule.subset_span ⟨⟨j, hj⟩, rfl⟩
  cases k with
  | zero =>
    have : (cgSeq (𝕜 := 𝕜) A (fun v => v) b x0 0).r = (cgSeq (𝕜 := 𝕜) A (fun v => v) b x0 0).p := rfl
    rw [this]; exact hmem 0 (by omega)
  | succ k =>
    have hp := cgStep_p (𝕜 := 𝕜) A (fun v => v) (cgSeq (𝕜 := 𝕜) A (fun v => v) b x0 k)
    rw [← cgSeq_succ] at hp
    have hz : (cgSeq (𝕜 := 𝕜) A (fun v => v) b x0 (k + 1)).z = (cgSeq (𝕜 := 𝕜) A (fun v => v) b x0 (k + 1)).r := by
      rw [cgSeq_succ]; rfl
    have hr : (cgSeq (𝕜 := 𝕜) A (fun v => v) b x0 (k + 1)).r = (cgSeq (𝕜 := 𝕜) A (fun v => v) b x0 (k + 1)).p
        - ((cgSeq (𝕜 := 𝕜) A (fun v => v) b x0 (k + 1)).num / (cgSeq (𝕜 := 𝕜) A (fun v => v) b x0 k).num) •
          (cgSeq (𝕜 := 𝕜) A (fun v => v) b x0 k).p := by
      rw [← hz, hp]; abel
    rw [hr]
    exact Submodule.sub_mem _ (hmem (k + 1) (by omega)) (Submodule.smul_mem _ _ (hmem k (by omega)))

/-- the exact-line-search steepest-descent step from `x` with residual `r = A (x⋆ − x) ≠ 0` -/
theorem steepest_gain (A : V →ₗ[𝕜] V) (hAs : ∀ x y, inner 𝕜 (A x) y = inner 𝕜 x (A y)) (xs x r : V) (hr : A (xs - x) = r)
    (t : ℝ) :
    re (inner 𝕜 (xs - (x + (t : 𝕜) • r)) (A (xs - (x + (t : 𝕜) • r))))
      = re (inner 𝕜 (xs - x) (A (xs - x))) - 2 * t * ‖r‖ ^ 2 + t ^ 2 * re (inner 𝕜 r (A r)) := by
  have e : xs - (x + (t : 𝕜) • r) = (xs - x) - (t : 𝕜) • r := by abel
  obtain ⟨ev, hev⟩ : ∃ ev, ev = xs - x := ⟨_, rfl⟩
  rw [e]
  rw [← hev] at hr ⊢
  rw [map_sub, map_smul, hr]
  have h1 : inner 𝕜 ev (A r) = inner 𝕜 r r := by rw [← hAs, hr]
  simp only [inner_sub_left, inner_sub_right, inner_smul_left, inner_smul_right, h1, conj_ofReal]
  have hrr : inner 𝕜 r r = ((‖r‖ ^ 2 : ℝ) : 𝕜) := by rw [inner_self_eq_norm_sq_to_K]; norm_cast
  rw [hrr]
  simp only [map_sub, RCLike.mul_re, RCLike.ofReal_re, RCLike.ofReal_im, zero_mul, sub_zero]
  ring

/-- **one body contracts the squared `A`-norm error by `1 − m/L`** -/
theorem cg_rate_step (A : V →ₗ[𝕜] V) (b x0 xs : V) (hxs : A xs = b)
    (hAs : ∀ x y, inner 𝕜 (A x) y = inner 𝕜 x (A y)) (m L : ℝ) (hm : 0 < m)
    (hlo : ∀ v, m * ‖v‖ ^ 2 ≤ re (inner 𝕜 v (A v))) (hhi : ∀ v, re (inner 𝕜 v (A v)) ≤ L * ‖v‖ ^ 2) (k : ℕ)
    (hrun : ∀ j ≤ k, (cgSeq (𝕜 := 𝕜) (⇑A) (fun v => v) b x0 j).num ≠ 0) :
    re (inner 𝕜 (xs - (cgSeq (𝕜 := 𝕜) (⇑A) (fun v => v) b x0 (k + 1)).x) (A (xs - (cgSeq (𝕜 := 𝕜) (⇑A) (fun v => v) b x0 (k + 1)).x)))
      ≤ (1 - m / L) * re (inner 𝕜 (xs - (cgSeq (𝕜 := 𝕜) (⇑A) (fun v => v) b x0 k).x) (A (xs - (cgSeq (𝕜 := 𝕜) (⇑A) (fun v => v) b x0 k).x))) := by
  have hAp : ∀ x : V, x ≠ 0 → 0 < re (inner 𝕜 x (A x)) := fun x hx =>
    lt_of_lt_of_le (mul_pos hm (by positivity)) (hlo x)
  have hM : ∀ x y : V, inner 𝕜 ((fun v : V => v) x) y = inner 𝕜 x ((fun v : V => v) y) := fun _ _ => rfl
  set s := cgSeq (𝕜 := 𝕜) (⇑A) (fun v => v) b x0 k with hs
  set s1 := cgSeq (𝕜 := 𝕜) (⇑A) (fun v => v) b x0 (k + 1) with hs1
  have hC := cgConj (A := A) (M := fun v => v) (b := b) (x0 := x0) hAs hAp hM k (fun j hj => hrun j (by omega))
  have hinv := hC.inv k le_rfl
  have hAe : A (xs - s.x) = s.r := by rw [map_sub, hxs, hinv.res]
  -- r ≠ 0
  have hr0 : s.r ≠ 0 := by
    intro h0
    apply hrun k le_rfl
    rw [hinv.num, hinv.pre, h0]; simp
  have hrpos : 0 < ‖s.r‖ := norm_pos_iff.2 hr0
  set d := re (inner 𝕜 s.r (A s.r)) with hd
  have hdpos : 0 < d := hAp s.r hr0
  have hLpos : 0 < L := by
    have := hhi s.r
    have h2 : 0 < ‖s.r‖ ^ 2 := by positivity
    by_contra hL
    push Not at hL
    nlinarith
  -- the steepest-descent competitor is in the affine space of iterate k+1
  set t : ℝ := ‖s.r‖ ^ 2 / d with ht
  have hx1 : s1.x = s.x + cgAlpha (⇑A) s • s.p := by rw [hs1, cgSeq_succ]; rfl
  have hv : ((t : 𝕜) • s.r - cgAlpha (⇑A) s • s.p) ∈
      Submodule.span 𝕜 (Set.range fun j : Fin (k + 1) => (cgSeq (𝕜 := 𝕜) (⇑A) (fun v => v) b x0 j.val).p) :=
    Submodule.sub_mem _ (Submodule.smul_mem _ _ (cg_r_mem_span (⇑A) b x0 k))
      (Submodule.smul_mem _ _ (Submodule.subset_span ⟨⟨k, by omega⟩, rfl⟩))
  have hopt := (cg_optimal A (fun v => v) b x0 xs hxs hAs hAp hM (k + 1) (fun j hj => hrun j (by omega)) _ hv).2
  have hcomp : s1.x + ((t : 𝕜) • s.r - cgAlpha (⇑A) s • s.p) = s.x + (t : 𝕜) • s.r := by rw [hx1]; abel
  rw [← hs1, hcomp, steepest_gain A hAs xs s.x s.r hAe t] at hopt
  -- gain of the steepest-descent step
  set E := re (inner 𝕜 (xs - s.x) (A (xs - s.x))) with hE
  have hgain : E - 2 * t * ‖s.r‖ ^ 2 + t ^ 2 * d = E - (‖s.r‖ ^ 2) ^ 2 / d := by
    rw [ht]; field_simp; ring
  -- ‖r‖² ≥ m E
  have hEr : m * E ≤ ‖s.r‖ ^ 2 := by
    have h1 : E ≤ ‖xs - s.x‖ * ‖s.r‖ := by
      rw [hE, hAe]; exact re_inner_le_norm _ _
    have h2 : m * ‖xs - s.x‖ ^ 2 ≤ E := hlo _
    have hE0 : 0 ≤ E := le_trans (by positivity) h2
    nlinarith [norm_nonneg (xs - s.x), norm_nonneg s.r, sq_nonneg (m * ‖xs - s.x‖ - ‖s.r‖)]
  have hdL : d ≤ L * ‖s.r‖ ^ 2 := hhi _
  have hq : (m / L) * E ≤ (‖s.r‖ ^ 2) ^ 2 / d := by
    rw [le_div_iff₀ hdpos]
    have h3 : m / L * E * d ≤ m / L * E * (L * ‖s.r‖ ^ 2) := by
      have hE0 : 0 ≤ E := le_trans (by positivity) (hlo (xs - s.x))
      exact mul_le_mul_of_nonneg_left hdL (by positivity)
    have h4 : m / L * E * (L * ‖s.r‖ ^ 2) = (m * E) * ‖s.r‖ ^ 2 := by field_simp
    rw [h4] at h3
    have h5 : m * E * ‖s.r‖ ^ 2 ≤ ‖s.r‖ ^ 2 * ‖s.r‖ ^ 2 := mul_le_mul_of_nonneg_right hEr (by positivity)
    calc m / L * E * d ≤ m * E * ‖s.r‖ ^ 2 := h3
      _ ≤ ‖s.r‖ ^ 2 * ‖s.r‖ ^ 2 := h5
      _ = (‖s.r‖ ^ 2) ^ 2 := by ring
  rw [hgain] at hopt
  calc re (inner 𝕜 (xs - s1.x) (A (xs - s1.x))) ≤ E - (‖s.r‖ ^ 2) ^ 2 / d := hopt
    _ ≤ E - m / L * E := by linarith
    _ = (1 - m / L) * E := by ring

/-- **geometric convergence**: `‖x⋆ − x_k‖²_A ≤ (1 − m/L)^k ‖x⋆ − x_0‖²_A` while the loop runs -/
theorem cg_rate (A : V →ₗ[𝕜] V) (b x0 xs : V) (hxs : A xs = b)
    (hAs : ∀ x y, inner 𝕜 (A x) y = inner 𝕜 x (A y)) (m L : ℝ) (hm : 0 < m) (hmL : m ≤ L)
    (hlo : ∀ v, m * ‖v‖ ^ 2 ≤ re (inner 𝕜 v (A v))) (hhi : ∀ v, re (inner 𝕜 v (A v)) ≤ L * ‖v‖ ^ 2) (k : ℕ)
    (hrun : ∀ j < k, (cgSeq (𝕜 := 𝕜) (⇑A) (fun v => v) b x0 j).num ≠ 0) :
    re (inner 𝕜 (xs - (cgSeq (𝕜 := 𝕜) (⇑A) (fun v => v) b x0 k).x) (A (xs - (cgSeq (𝕜 := 𝕜) (⇑A) (fun v => v) b x0 k).x)))
      ≤ (1 - m / L) ^ k * re (inner 𝕜 (xs - x0) (A (xs - x0))) := by
  have hfac : 0 ≤ 1 - m / L := by
    have : m / L ≤ 1 := (div_le_one (lt_of_lt_of_le hm hmL)).2 hmL
    linarith
  induction k with
  | zero => simp [cgSeq, cgInit]
  | succ k ih =>
    have h1 := cg_rate_step A b x0 xs hxs hAs m L hm hlo hhi k (fun j hj => hrun j (by omega))
    have h2 := ih (fun j hj => hrun j (by omega))
    calc _ ≤ (1 - m / L) * _ := h1
      _ ≤ (1 - m / L) * ((1 - m / L) ^ k * re (inner 𝕜 (xs - x0) (A (xs - x0)))) := mul_le_mul_of_nonneg_left h2 hfac
      _ = (1 - m / L) ^ (k + 1) * re (inner 𝕜 (xs - x0) (A (xs - x0))) := by ring

end Scico.LinSolve
