/-
  Adjoint engine: `scico.linear_adjoint` returns the conjugate-transpose map, GIVEN the contract of
  `jax.linear_transpose` (hypothesis `JaxTranspose`, exercised on the real code by the correspondence run:
  every `Generic` configuration of the grid has its adjoint derived through this function).
-/
import Scico.Proofs.AdjointSignal

set_option linter.unusedSectionVars false

namespace Scico.Adjoint
open Finset

variable {K : Type} [Field K] [StarRing K]

/-- Contract of `jax.linear_transpose(g, primal)` for `g = (x ↦ M x)`, primal of size `n`, output of size `m`:
    * complex primal: the returned function applies the plain transpose `Mᵀ`;
    * real primal and real `M` (everything real): likewise.
    (The remaining case — real primal, complex `M` — returns the real part of `Mᵀ ct`; see AdjointComplex.) -/
structure JaxTranspose (jt : Bool → Nat → Nat → (V K → V K) → V K → V K) : Prop where
  cplx : ∀ (m n : Nat) (M : Nat → Nat → K) (y : V K), ∀ j < n,
    jt true m n (mulVec n M) y j = ∑ i ∈ range m, M i j * y i
  real : ∀ (m n : Nat) (M : Nat → Nat → K), (∀ i j, star (M i j) = M i j) → ∀ (y : V K), ∀ j < n,
    jt false m n (mulVec n M) y j = ∑ i ∈ range m, M i j * y i

/-- a function that meets the contract: transpose by probing with basis vectors (non-vacuity of `JaxTranspose`) -/
def probeTranspose : Bool → Nat → Nat → (V K → V K) → V K → V K :=
  fun _ m _ g y j => ∑ i ∈ range m, g (basis j) i * y i

theorem mulVec_basis (n : Nat) (M : Nat → Nat → K) (j : Nat) (hj : j < n) (i : Nat) :
    mulVec n M (basis j) i = M i j := by
  simp only [mulVec, sumTo_eq]
  exact sum_mul_basis n j hj (fun t => M i t)

theorem probeTranspose_ok : JaxTranspose (probeTranspose : Bool → Nat → Nat → (V K → V K) → V K → V K) := by
  constructor
  · intro m n M y j hj
    simp only [probeTranspose]
    apply Finset.sum_congr rfl
    intro i _
    rw [mulVec_basis n M j hj]
  · intro m n M _ y j hj
    simp only [probeTranspose]
    apply Finset.sum_congr rfl
    intro i _
    rw [mulVec_basis n M j hj]

theorem conjFun_mulVec (n : Nat) (M : Nat → Nat → K) :
    conjFun (mulVec n M) = mulVec n (fun i j => star (M i j)) := by
  funext x i
  simp only [conjFun, mulVec, vconj, sumTo_eq, conj_eq_star, star_sum, star_mul', star_star]

/-- branch 1 (complex primal): `linear_adjoint` returns `y ↦ Mᴴ y` -/
theorem linearAdjoint_complex {jt} (hjt : JaxTranspose (K := K) jt) (m n : Nat) (oc : Bool) (M : Nat → Nat → K)
    (y : V K) (j : Nat) (hj : j < n) :
    linearAdjoint jt m n true oc (mulVec n M) y j = ∑ i ∈ range m, star (M i j) * y i := by
  simp only [linearAdjoint, if_true]
  rw [conjFun_mulVec, hjt.cplx m n _ y j hj]

/-- branch 3 (real primal, real output, real matrix): `linear_adjoint` returns `y ↦ Mᵀ y = Mᴴ y` -/
theorem linearAdjoint_real {jt} (hjt : JaxTranspose (K := K) jt) (m n : Nat) (M : Nat → Nat → K)
    (hM : ∀ i j, star (M i j) = M i j) (y : V K) (j : Nat) (hj : j < n) :
    linearAdjoint jt m n false false (mulVec n M) y j = ∑ i ∈ range m, star (M i j) * y i := by
  simp only [linearAdjoint, Bool.false_eq_true, if_false]
  rw [hjt.real m n M hM y j hj]
  simp [hM]

/-- the operator `LinearOperator(eval_fn = x ↦ M x)` with its automatically derived adjoint (`_set_adjoint`) -/
def autoOp (jt : Bool → Nat → Nat → (V K → V K) → V K → V K) (m n : Nat) (pc oc : Bool) (M : Nat → Nat → K) : Op K where
  nin := n
  nout := m
  eval := mulVec n M
  adj := linearAdjoint jt m n pc oc (mulVec n M)

theorem autoOp_complex_isAdj {jt} (hjt : JaxTranspose (K := K) jt) (m n : Nat) (oc : Bool) (M : Nat → Nat → K) :
    IsAdj (autoOp jt m n true oc M) := by
  intro x y
  have h : ip m (mulVec n M x) y = ip n x ((Op.mat m n M).adj y) := mat_isAdj m n M x y
  show ip m (mulVec n M x) y = ip n x (linearAdjoint jt m n true oc (mulVec n M) y)
  rw [h]
  apply ip_congr
  · intro _ _; rfl
  · intro j hj
    rw [linearAdjoint_complex hjt m n oc M y j hj]
    simp [Op.mat, sumTo_eq, conj_eq_star]

theorem autoOp_real_isAdj {jt} (hjt : JaxTranspose (K := K) jt) (m n : Nat) (M : Nat → Nat → K)
    (hM : ∀ i j, star (M i j) = M i j) : IsAdj (autoOp jt m n false false M) := by
  intro x y
  have h : ip m (mulVec n M x) y = ip n x ((Op.mat m n M).adj y) := mat_isAdj m n M x y
  show ip m (mulVec n M x) y = ip n x (linearAdjoint jt m n false false (mulVec n M) y)
  rw [h]
  apply ip_congr
  · intro _ _; rfl
  · intro j hj
    rw [linearAdjoint_real hjt m n M hM y j hj]
    simp [Op.mat, sumTo_eq, conj_eq_star]


/-! ### `linop.jacobian` -/

/-- given the contract of `jax.jvp` / `jax.vjp` at the point `u` (push-forward `v ↦ J v`, pull-back `ct ↦ Jᵀ ct` for the
    Jacobian matrix `J`), the Jacobian operator with its conjugated pull-back is an adjoint pair -/
theorem jacobian_isAdj (m n : Nat) (J : Nat → Nat → K) (jvp G : V K → V K)
    (hj : ∀ v, ∀ i < m, jvp v i = ∑ j ∈ range n, J i j * v j)
    (hG : ∀ ct, ∀ j < n, G ct j = ∑ i ∈ range m, J i j * ct i) : IsAdj (Op.jacobian m n jvp G) := by
  intro x y
  have h := mat_isAdj m n J x y
  have e1 : ip m (jvp x) y = ip m ((Op.mat m n J).eval x) y :=
    ip_congr m (fun i hi => by rw [hj x i hi]; simp [Op.mat, sumTo_eq]) (fun _ _ => rfl)
  have e2 : ip n x (conjFun G y) = ip n x ((Op.mat m n J).adj y) :=
    ip_congr n (fun _ _ => rfl) (fun j hj' => by
      simp only [conjFun, vconj, Op.mat, sumTo_eq, conj_eq_star]
      rw [hG _ j hj', star_sum]
      apply Finset.sum_congr rfl
      intro i _
      simp [star_mul', vconj, conj_eq_star])
  show ip m (jvp x) y = ip n x (conjFun G y)
  rw [e1, e2]
  exact h

end Scico.Adjoint
