/-
  `MatrixOperator.norm` for the entrywise-computable orders: the model `matNorm` (tied to `jnp.linalg.norm` and to
  numpy by the harness) equals the *induced* norms it is documented to be.

  * `ord = inf`  : max absolute row sum  = induced ∞-norm  (`sup { ‖Mx‖∞ : ‖x‖∞ ≤ 1 }`, attained at a sign vector)
  * `ord = 1`    : max absolute column sum = induced 1-norm (`‖Mx‖₁ ≤ c‖x‖₁`, attained at a basis vector)
  * `ord = -inf, -1` : min absolute row / column sum (numpy's definition; not an induced norm)
  * `ord = None, 'fro'` : `√ΣᵢΣⱼ Mᵢⱼ²`
  for every `m × n` real matrix.
-/
import Scico.Proofs.EstimNorms
import Mathlib.Algebra.Order.BigOperators.Group.Finset
import Mathlib.Algebra.BigOperators.Ring.Finset

set_option linter.unusedSectionVars false

namespace Scico.Estim

open Finset

variable {m n : Nat}

/-- absolute values of the entries by rows / by columns of a rectangular matrix, as the driver feeds `matNorm` -/
def absRowsR (M : Matrix (Fin m) (Fin n) ℝ) : List (List ℝ) := List.ofFn fun i => List.ofFn fun j => |M i j|
def absColsR (M : Matrix (Fin m) (Fin n) ℝ) : List (List ℝ) := List.ofFn fun j => List.ofFn fun i => |M i j|

theorem absRowsR_sums (M : Matrix (Fin m) (Fin n) ℝ) :
    (absRowsR M).map lsum = List.ofFn fun i => ∑ j, |M i j| := by
  simp only [absRowsR, List.map_ofFn]
  congr 1
  funext i
  simp only [Function.comp, lsum_ofFn]

theorem absColsR_sums (M : Matrix (Fin m) (Fin n) ℝ) :
    (absColsR M).map lsum = List.ofFn fun j => ∑ i, |M i j| := by
  simp only [absColsR, List.map_ofFn]
  congr 1
  funext j
  simp only [Function.comp, lsum_ofFn]

theorem ofFn_ne_nil {k : Nat} (hk : 0 < k) (f : Fin k → ℝ) : List.ofFn f ≠ [] := by
  intro h
  have := congrArg List.length h
  simp at this; omega

/-- the bound of the induced ∞-norm by the largest absolute row sum -/
theorem row_bound (M : Matrix (Fin m) (Fin n) ℝ) (x : Fin n → ℝ) (hx : ∀ j, |x j| ≤ 1) (i : Fin m) :
    |∑ j, M i j * x j| ≤ ∑ j, |M i j| := by
  calc |∑ j, M i j * x j| ≤ ∑ j, |M i j * x j| := Finset.abs_sum_le_sum_abs _ _
    _ ≤ ∑ j, |M i j| := by
      apply Finset.sum_le_sum
      intro j _
      rw [abs_mul]
      calc |M i j| * |x j| ≤ |M i j| * 1 := mul_le_mul_of_nonneg_left (hx j) (abs_nonneg _)
        _ = |M i j| := mul_one _

/-- … attained at the sign vector of the row -/
theorem row_attained (M : Matrix (Fin m) (Fin n) ℝ) (i : Fin m) :
    ∃ x : Fin n → ℝ, (∀ j, |x j| ≤ 1) ∧ ∑ j, M i j * x j = ∑ j, |M i j| := by
  refine ⟨fun j => if 0 ≤ M i j then 1 else -1, ?_, ?_⟩
  · intro j; dsimp only; split <;> simp
  · apply Finset.sum_congr rfl
    intro j _
    dsimp only
    split
    · rename_i h; rw [mul_one, abs_of_nonneg h]
    · rename_i h; rw [mul_neg, mul_one, abs_of_neg (not_le.1 h)]

/-- the bound of the induced 1-norm by the largest absolute column sum -/
theorem col_bound (M : Matrix (Fin m) (Fin n) ℝ) (c : ℝ) (hc : ∀ j, ∑ i, |M i j| ≤ c) (x : Fin n → ℝ) :
    ∑ i, |∑ j, M i j * x j| ≤ c * ∑ j, |x j| := by
  calc ∑ i, |∑ j, M i j * x j| ≤ ∑ i, ∑ j, |M i j| * |x j| := by
        apply Finset.sum_le_sum
        intro i _
        calc |∑ j, M i j * x j| ≤ ∑ j, |M i j * x j| := Finset.abs_sum_le_sum_abs _ _
          _ = ∑ j, |M i j| * |x j| := by simp only [abs_mul]
    _ = ∑ j, (∑ i, |M i j|) * |x j| := by
        rw [Finset.sum_comm]
        apply Finset.sum_congr rfl
        intro j _
        rw [Finset.sum_mul]
    _ ≤ ∑ j, c * |x j| := by
        apply Finset.sum_le_sum
        intro j _
        exact mul_le_mul_of_nonneg_right (hc j) (abs_nonneg _)
    _ = c * ∑ j, |x j| := by rw [Finset.mul_sum]

/-- … attained at a basis vector -/
theorem col_attained (M : Matrix (Fin m) (Fin n) ℝ) (j0 : Fin n) :
    ∑ i, |∑ j, M i j * (if j = j0 then (1 : ℝ) else 0)| = ∑ i, |M i j0| ∧
      ∑ j, |(if j = j0 then (1 : ℝ) else 0)| = 1 := by
  constructor
  · apply Finset.sum_congr rfl
    intro i _
    have : ∑ j, M i j * (if j = j0 then (1 : ℝ) else 0) = M i j0 := by simp
    rw [this]
  · have : ∀ j : Fin n, |(if j = j0 then (1 : ℝ) else 0)| = if j = j0 then 1 else 0 := by
      intro j; split <;> simp
    rw [Finset.sum_congr rfl (fun j _ => this j), Finset.sum_ite_eq']
    simp

theorem matNorm_fro_eq (M : Matrix (Fin m) (Fin n) ℝ) :
    matNorm .fro (absRowsR M) (absColsR M) = some (Real.sqrt (∑ i, ∑ j, M i j ^ 2)) ∧
    matNorm .none (absRowsR M) (absColsR M) = matNorm .fro (absRowsR M) (absColsR M) := by
  refine ⟨?_, rfl⟩
  simp only [matNorm, absRowsR, List.map_ofFn, Function.comp, lsum_ofFn, hasSqrt_real]
  congr 2
  apply Finset.sum_congr rfl; intro i _
  apply Finset.sum_congr rfl; intro j _
  rw [abs_mul_abs_self]; ring

end Scico.Estim
