/-
  Lemmas about the evaluation model `Scico.Model.FuncEval` (property C09).
-/
import Scico.Model.FuncEval
import Mathlib.Tactic.Ring
import Mathlib.Tactic.Linarith
import Mathlib.Tactic.Positivity
import Mathlib.Tactic.FieldSimp
import Mathlib.Algebra.BigOperators.Group.List.Basic
import Mathlib.Algebra.Order.BigOperators.Group.List
import Mathlib.Analysis.SpecialFunctions.Log.Base

namespace Scico.FuncEval

/-- the scalar operations of the model at `ℝ` -/
noncomputable scoped instance instSqrtReal : HasSqrt ℝ := ⟨Real.sqrt⟩
noncomputable scoped instance instLog10Real : HasLog10 ℝ := ⟨Real.logb 10⟩
noncomputable scoped instance instLogReal : HasLog ℝ := ⟨Real.log⟩

/-! ### block argument = concatenation -/
section blocks
variable {K : Type} [Field K] [LinearOrder K] [IsStrictOrderedRing K]

theorem sqmags_real_flatten (bs : List (List K)) :
    sqmags false bs.flatten = (bs.map (sqmags false)).flatten := by
  have e : sqmags (α := K) false = List.map (fun x => x * x) := by funext v; simp [sqmags]
  rw [e, List.map_flatten]

theorem pairs_append : ∀ (a b : List K), a.length % 2 = 0 → pairs (a ++ b) = pairs a ++ pairs b
  | [], b, _ => by simp [pairs]
  | [_], _, h => by simp at h
  | x :: y :: r, b, h => by
    have h' : r.length % 2 = 0 := by
      have : (x :: y :: r).length = r.length + 2 := rfl
      omega
    simp [pairs, pairs_append r b h']

theorem pairs_flatten : ∀ (bs : List (List K)), (∀ b ∈ bs, b.length % 2 = 0) →
    pairs bs.flatten = (bs.map pairs).flatten
  | [], _ => by simp [pairs]
  | b :: bs, h => by
    simp only [List.flatten_cons, List.map_cons]
    rw [pairs_append b _ (h b (by simp)), pairs_flatten bs (fun c hc => h c (by simp [hc]))]

theorem sqmags_flatten (cplx : Bool) (bs : List (List K)) (h : cplx = true → ∀ b ∈ bs, b.length % 2 = 0) :
    sqmags cplx bs.flatten = (bs.map (sqmags cplx)).flatten := by
  cases cplx with
  | false => exact sqmags_real_flatten bs
  | true =>
    simp only [sqmags, if_true]
    rw [pairs_flatten bs (h rfl), List.map_flatten, List.map_map]
    rfl

/-- squared ℓ² norm: the value on a block array is the sum of the values on the blocks -/
theorem sql2_block (cplx : Bool) (bs : List (List K)) [HasSqrt K]
    (h : cplx = true → ∀ b ∈ bs, b.length % 2 = 0) :
    sql2 cplx (.blk bs) = (bs.map (fun b => sql2 cplx (.arr b))).sum := by
  simp only [sql2, Arg.flat]
  rw [sqmags_flatten cplx bs h, List.sum_flatten, List.map_map]
  rfl

theorem lcount_eq_length (l : List K) : lcount l = (l.length : K) := by
  unfold lcount
  have : ∀ (l : List K) (a : K), l.foldl (fun acc _ => acc + 1) a = a + (l.length : K) := by
    intro l
    induction l with
    | nil => intro a; simp
    | cons x xs ih => intro a; simp only [List.foldl_cons, ih, List.length_cons, Nat.cast_add, Nat.cast_one]; ring
  simpa using this l 0

/-- `count_nonzero`: the count on a block array is the sum of the counts on the blocks -/
theorem l0_block (cplx : Bool) (bs : List (List K)) [HasSqrt K]
    (h : cplx = true → ∀ b ∈ bs, b.length % 2 = 0) :
    l0 cplx (.blk bs) = (bs.map (fun b => l0 cplx (.arr b))).sum := by
  simp only [l0, Arg.flat, lcount_eq_length]
  rw [sqmags_flatten cplx bs h, List.filter_flatten, List.length_flatten, List.map_map, List.map_map]
  clear h
  induction bs with
  | nil => simp
  | cons b bs ih => simp only [List.map_cons, List.sum_cons, Nat.cast_add, Function.comp] at ih ⊢; rw [ih]

end blocks

section realblocks

theorem mags_real_flatten (bs : List (List ℝ)) : mags false bs.flatten = (bs.map (mags false)).flatten := by
  have e : mags (α := ℝ) false = List.map absR := by funext v; simp [mags]
  rw [e, List.map_flatten]

theorem mags_flatten (cplx : Bool) (bs : List (List ℝ)) (h : cplx = true → ∀ b ∈ bs, b.length % 2 = 0) :
    mags cplx bs.flatten = (bs.map (mags cplx)).flatten := by
  cases cplx with
  | false => exact mags_real_flatten bs
  | true =>
    simp only [mags, if_true]
    rw [pairs_flatten bs (h rfl), List.map_flatten, List.map_map]
    rfl

/-- ℓ¹ norm (real or complex data): block value = sum over the blocks -/
theorem l1_block (cplx : Bool) (bs : List (List ℝ)) (h : cplx = true → ∀ b ∈ bs, b.length % 2 = 0) :
    l1 cplx (.blk bs) = (bs.map (fun b => l1 cplx (.arr b))).sum := by
  simp only [l1, Arg.flat]
  rw [mags_flatten cplx bs h, List.sum_flatten, List.map_map]
  rfl

/-- separable Huber norm: block value = sum over the blocks -/
theorem huberSep_block (cplx : Bool) (delta : ℝ) (bs : List (List ℝ))
    (h : cplx = true → ∀ b ∈ bs, b.length % 2 = 0) :
    huberSep cplx delta (.blk bs) = (bs.map (fun b => huberSep cplx delta (.arr b))).sum := by
  simp only [huberSep, Arg.flat]
  rw [mags_flatten cplx bs h, List.map_flatten, List.sum_flatten, List.map_map, List.map_map]
  rfl

theorem sqmags_nonneg (cplx : Bool) (v : List ℝ) : ∀ s ∈ sqmags cplx v, 0 ≤ s := by
  intro s hs
  cases cplx with
  | false =>
    simp only [sqmags, Bool.false_eq_true, if_false, List.mem_map] at hs
    obtain ⟨x, _, rfl⟩ := hs; exact mul_self_nonneg x
  | true =>
    simp only [sqmags, if_true, List.mem_map] at hs
    obtain ⟨p, _, rfl⟩ := hs
    nlinarith [mul_self_nonneg p.1, mul_self_nonneg p.2]

theorem sum_sqmags_nonneg (cplx : Bool) (v : List ℝ) : 0 ≤ (sqmags cplx v).sum :=
  List.sum_nonneg (sqmags_nonneg cplx v)

/-- ℓ² norm: the norm of a block array is the root of the sum of the squared block norms -/
theorem l2_block (cplx : Bool) (bs : List (List ℝ)) (h : cplx = true → ∀ b ∈ bs, b.length % 2 = 0) :
    l2 cplx (.blk bs) = Real.sqrt ((bs.map (fun b => (l2 cplx (.arr b)) ^ 2)).sum) := by
  have hs := sql2_block (K := ℝ) cplx bs h
  simp only [sql2, Arg.flat] at hs
  simp only [l2, Arg.flat, HasSqrt.sqrt]
  rw [hs]
  congr 2
  apply List.map_congr_left
  intro b _
  rw [Real.sq_sqrt (sum_sqmags_nonneg cplx b)]

/-- documented block-wise rule of `L21Norm(l2_axis=None)`: the sum of the ℓ² norms of the blocks -/
theorem l21None_block (cplx : Bool) (bs : List (List ℝ)) :
    l21None cplx (.blk bs) = (bs.map (fun b => l2 cplx (.arr b))).sum := by
  simp only [l21None, Arg.blocks, l2, Arg.flat]
  congr 1
  apply List.map_congr_left
  intro b _
  have : 0 ≤ Real.sqrt ((sqmags cplx b).sum) := Real.sqrt_nonneg _
  simp only [absR, HasSqrt.sqrt]
  rw [if_neg (not_lt.mpr this)]

end realblocks

/-- the non-separable Huber norm (evaluated by the code through the *squared* norm) is the Huber
    function of the ℓ² norm -/
theorem huberNonsep_eq (cplx : Bool) (delta : ℝ) (x : Arg ℝ) :
    huberNonsep cplx delta x = huber1 delta (l2 cplx x) := by
  have hs := sum_sqmags_nonneg cplx x.flat
  simp only [huberNonsep, huber1, l2, HasSqrt.sqrt]
  rw [Real.mul_self_sqrt hs]
  rfl

/-! ### indicators -/
section ind
variable {K : Type} [Field K] [LinearOrder K] [IsStrictOrderedRing K]

theorem nonnegInd_range (x : Arg K) : nonnegInd x = .fin 0 ∨ nonnegInd x = .top := by
  unfold nonnegInd; split <;> simp

theorem nonnegInd_eq_zero_iff (x : Arg K) : nonnegInd x = .fin 0 ↔ ∀ a ∈ x.flat, 0 ≤ a := by
  unfold nonnegInd
  by_cases h : x.flat.any (fun a => decide (a < 0)) = true
  · rw [if_pos h]
    simp only [List.any_eq_true, decide_eq_true_eq] at h
    obtain ⟨a, ha, hlt⟩ := h
    constructor
    · intro hc; cases hc
    · intro hall; exact absurd (hall a ha) (not_le.mpr hlt)
  · rw [if_neg h]
    simp only [List.any_eq_true, decide_eq_true_eq, not_exists, not_and, not_lt] at h
    exact ⟨fun _ => h, fun _ => rfl⟩

theorem l2ballInd_range [HasSqrt K] (cplx : Bool) (r : K) (x : Arg K) :
    l2ballInd cplx r x = .fin 0 ∨ l2ballInd cplx r x = .top := by
  unfold l2ballInd; split <;> simp

theorem l2ballInd_eq_zero_iff [HasSqrt K] (cplx : Bool) (r : K) (x : Arg K) :
    l2ballInd cplx r x = .fin 0 ↔ l2 cplx x ≤ r := by
  unfold l2ballInd
  by_cases h : r < l2 cplx x
  · rw [if_pos h]
    constructor
    · intro hc; cases hc
    · intro hle; exact absurd h (not_lt.mpr hle)
  · rw [if_neg h]; exact ⟨fun _ => not_lt.mp h, fun _ => rfl⟩

/-! ### Huber -/

/-- the two branches of the Huber function agree at the threshold `|x| = δ` -/
theorem huber_branches_agree (delta : K) :
    (1 / (1 + 1)) * (delta * delta) = delta * (delta - delta / (1 + 1)) := by
  have : (1 + 1 : K) ≠ 0 := by norm_num
  field_simp
  ring

/-- so `huber1` is given by either formula at the tie, and it is non-negative -/
theorem huber1_at_delta (delta : K) : huber1 delta delta = delta * (delta - delta / (1 + 1)) := by
  simp only [huber1, leR, lt_irrefl, decide_false, Bool.not_false, if_true]
  exact huber_branches_agree delta

theorem huber1_nonneg {delta a : K} (hd : 0 ≤ delta) : 0 ≤ huber1 delta a := by
  unfold huber1 leR
  by_cases h : delta < a
  · simp only [h, decide_true, Bool.not_true, Bool.false_eq_true, if_false]
    have : delta / (1 + 1) ≤ delta := by
      rw [div_le_iff₀ (by norm_num)]; linarith
    exact mul_nonneg hd (by linarith)
  · simp only [h, decide_false, Bool.not_false, if_true]
    have : 0 ≤ a * a := mul_self_nonneg a
    positivity

end ind

/-! ### finite differences behind the TV norms -/
section fd
variable {K : Type} [Field K]

theorem diffList_length : ∀ l : List K, (diffList l).length = l.length - 1
  | [] => rfl
  | [_] => rfl
  | a :: b :: r => by
    simp only [diffList, List.length_cons]
    rw [diffList_length (b :: r)]
    simp

theorem diffList_getD : ∀ (l : List K) (i : Nat), i + 1 < l.length →
    (diffList l).getD i 0 = l.getD (i + 1) 0 - l.getD i 0
  | [], i, h => by simp at h
  | [_], i, h => by simp at h
  | a :: b :: r, 0, _ => by simp [diffList]
  | a :: b :: r, i + 1, h => by
    simp only [diffList, List.getD_cons_succ]
    have : i + 1 < (b :: r).length := by simpa using h
    rw [diffList_getD (b :: r) i this]
    simp

/-- the code-shaped difference (append a copy of the last / first entry, then `diff`) has the
    documented rows: `x_{i+1} − x_i` for `i < n−1`, and in the last row `0` (append=0) or
    `x_0 − x_{n−1}` (circular) -/
theorem getD_append_left' (l l' : List K) (i : Nat) (h : i < l.length) :
    (l ++ l').getD i 0 = l.getD i 0 := by
  simp [List.getD_eq_getElem?_getD, List.getElem?_append_left h]

theorem getD_append_last (l : List K) (e : K) : (l ++ [e]).getD l.length 0 = e := by
  simp [List.getD_eq_getElem?_getD]

theorem diffAppend_getD (circular : Bool) (x : List K) (i : Nat) (hi : i < x.length) :
    (diffAppend circular x).getD i 0 =
      if i + 1 < x.length then x.getD (i + 1) 0 - x.getD i 0
      else if circular then x.getD 0 0 - x.getD i 0 else 0 := by
  cases x with
  | nil => simp at hi
  | cons a r =>
    simp only [diffAppend]
    generalize he : (if circular then a else (a :: r).getLastD a) = e
    have hlen : i + 1 < ((a :: r) ++ [e]).length := by
      simp only [List.length_append, List.length_cons, List.length_nil] at hi ⊢; omega
    rw [diffList_getD _ i hlen, getD_append_left' _ _ _ hi]
    by_cases h1 : i + 1 < (a :: r).length
    · rw [if_pos h1, getD_append_left' _ _ _ h1]
    · rw [if_neg h1]
      have hlast : i + 1 = (a :: r).length := by omega
      rw [hlast, getD_append_last, ← he]
      cases circular with
      | true => simp
      | false =>
        simp only [Bool.false_eq_true, if_false]
        have : (a :: r).getLastD a = (a :: r).getD i 0 := by
          have hi2 : i = r.length := by simp only [List.length_cons] at hlast; omega
          subst hi2
          simp [List.getLastD, List.getD_eq_getElem?_getD, List.getLast_eq_getElem]
        rw [this]; ring

theorem diffAppend_length (circular : Bool) (x : List K) : (diffAppend circular x).length = x.length := by
  cases x with
  | nil => rfl
  | cons a r => simp [diffAppend, diffList_length]

/-- on a 1-D array the N-d index formula used by the TV model is the code-shaped difference -/
theorem fdAxis_1d (circular : Bool) (x : List K) :
    fdAxis circular [x.length] 0 x = diffAppend circular x := by
  apply List.ext_getElem
  · simp [fdAxis, size, diffAppend_length]
  · intro i h1 h2
    have hi : i < x.length := by simpa [diffAppend_length] using h2
    have hR : (diffAppend circular x)[i] = (diffAppend circular x).getD i 0 := by
      simp [List.getD_eq_getElem?_getD, h2]
    rw [hR, diffAppend_getD circular x i hi]
    simp only [fdAxis, size, List.getElem_map, List.getElem_range, List.getD_cons_zero, List.drop_succ_cons,
      List.drop_zero, List.foldl_nil, Nat.div_one, Nat.mod_eq_of_lt hi, Nat.mul_one, Nat.sub_self]

end fd

/-! ### metrics -/
section metrics

theorem mean_nonneg (l : List ℝ) (h : ∀ a ∈ l, 0 ≤ a) : 0 ≤ mean l := by
  unfold mean
  rw [lcount_eq_length]
  exact div_nonneg (List.sum_nonneg h) (Nat.cast_nonneg _)

theorem mse_nonneg (cplx : Bool) (r c : List ℝ) : 0 ≤ mse cplx r c :=
  mean_nonneg _ (sqmags_nonneg cplx _)

theorem var_nonneg_real (x : List ℝ) : 0 ≤ var false x := by
  simp only [var, Bool.false_eq_true, if_false]
  apply mean_nonneg
  intro a ha
  simp only [List.mem_map] at ha
  obtain ⟨b, _, rfl⟩ := ha
  exact mul_self_nonneg _

/-- `isnr = snr(reference, restored) − snr(reference, degraded)` whenever the quantities are positive -/
theorem isnr_eq_snr_sub (cplx : Bool) (r d s : List ℝ) (hv : 0 < var cplx r) (hd : 0 < mse cplx r d)
    (hs : 0 < mse cplx r s) : isnr cplx r d s = snr cplx r s - snr cplx r d := by
  simp only [isnr, snr, db, HasLog10.log10]
  rw [Real.logb_div hd.ne' hs.ne', Real.logb_div hv.ne' hs.ne', Real.logb_div hv.ne' hd.ne']
  ring

/-- `psnr = snr + 10·log₁₀(range² / var(reference))` -/
theorem psnr_eq_snr_add (r c : List ℝ) (range : ℝ) (hr : range ≠ 0) (hv : 0 < var false r)
    (hm : 0 < mse false r c) :
    psnr r c (some range) = snr false r c + db (range * range / var false r) := by
  simp only [psnr, snr, db, HasLog10.log10]
  have h2 : range * range ≠ 0 := mul_ne_zero hr hr
  rw [Real.logb_div h2 hm.ne', Real.logb_div hv.ne' hm.ne', Real.logb_div h2 hv.ne']
  ring

/-- `rel_res` returns `0` when both `‖Ax‖` and `‖b‖` vanish (no division is performed) -/
theorem relRes_zero_den (cplx : Bool) (ax b : List ℝ) (ha : (sqmags cplx ax).sum = 0) (hb : (sqmags cplx b).sum = 0) :
    relRes cplx ax b = 0 := by
  simp [relRes, ha, hb, HasSqrt.sqrt, maxR, isZero]

/-- otherwise it is `‖b − Ax‖ / max(‖Ax‖, ‖b‖)` -/
theorem relRes_eq (cplx : Bool) (ax b : List ℝ)
    (h : 0 < max (Real.sqrt (sqmags cplx ax).sum) (Real.sqrt (sqmags cplx b).sum)) :
    relRes cplx ax b = Real.sqrt (sqmags cplx (List.zipWith (· - ·) b ax)).sum /
      max (Real.sqrt (sqmags cplx ax).sum) (Real.sqrt (sqmags cplx b).sum) := by
  have hm : maxR (Real.sqrt (sqmags cplx b).sum) (Real.sqrt (sqmags cplx ax).sum)
      = max (Real.sqrt (sqmags cplx ax).sum) (Real.sqrt (sqmags cplx b).sum) := by
    unfold maxR
    split
    · rw [max_eq_left (le_of_lt ‹_›)]
    · rw [max_eq_right (not_lt.mp ‹_›)]
  simp only [relRes, HasSqrt.sqrt]
  rw [hm]
  have : isZero (max (Real.sqrt (sqmags cplx ax).sum) (Real.sqrt (sqmags cplx b).sum)) = false := by
    simp [isZero, h]
  rw [this]
  simp

/-- in particular the standard relative residual `‖b − Ax‖/‖b‖` when `‖Ax‖ ≤ ‖b‖ ≠ 0` -/
theorem relRes_standard (cplx : Bool) (ax b : List ℝ) (hb : 0 < Real.sqrt (sqmags cplx b).sum)
    (hle : Real.sqrt (sqmags cplx ax).sum ≤ Real.sqrt (sqmags cplx b).sum) :
    relRes cplx ax b = Real.sqrt (sqmags cplx (List.zipWith (· - ·) b ax)).sum / Real.sqrt (sqmags cplx b).sum := by
  rw [relRes_eq cplx ax b (lt_of_lt_of_le hb (le_max_right _ _)), max_eq_right hle]

end metrics

end Scico.FuncEval
