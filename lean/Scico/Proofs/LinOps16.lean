/-
  Helper lemmas for `Scico.Model.LinOps`, part 16 (round 3): N-d circular convolution with a filter that is longer
  than some axes (cropped by `fftn(h, s=dims)`).
-/
import Scico.Proofs.LinOps11
import Scico.Proofs.LinOps14

namespace Scico.LinOps
open Finset
set_option linter.unusedSectionVars false

theorem padNd_congr {K : Type} [Zero K] : ∀ (ks ds : List Nat) (g g' : V K) (p : Nat),
    (∀ q, q < prodL ks → g q = g' q) → ks.length = ds.length → (∀ n ∈ ds, 0 < n) → p < prodL ds →
    padNd ks ds g p = padNd ks ds g' p
  | [], [], g, g', p, h, _, _, hp => by
      have : p = 0 := by simpa [prodL] using hp
      subst this; simpa [padNd] using h 0 (by simp [prodL])
  | [], _ :: _, _, _, _, _, hl, _, _ => by simp at hl
  | _ :: _, [], _, _, _, _, hl, _, _ => by simp at hl
  | k :: ks, n :: ds, g, g', p, h, hl, hpos, hp => by
      have hds : ∀ m ∈ ds, 0 < m := fun m hm => hpos m (by simp [hm])
      have hR : 0 < prodL ds := prodL_pos_of_forall ds hds
      simp only [padNd]
      split
      · rename_i hj
        apply padNd_congr ks ds _ _ _ _ (by simpa using hl) hds (Nat.mod_lt _ hR)
        intro q hq
        simp only [slab]
        apply h
        calc p / prodL ds * prodL ks + q < p / prodL ds * prodL ks + prodL ks := by omega
          _ = (p / prodL ds + 1) * prodL ks := by ring
          _ ≤ k * prodL ks := Nat.mul_le_mul_right _ hj
      · rfl

theorem minShape_length : ∀ (ks ds : List Nat), ks.length = ds.length → (minShape ks ds).length = ds.length
  | [], [], _ => rfl
  | [], _ :: _, h => by simp at h
  | _ :: _, [], h => by simp at h
  | k :: ks, n :: ds, h => by simp [minShape, minShape_length ks ds (by simpa using h)]

/-- `fftn(h, s=dims)` sees only the cropped filter -/
theorem padNd_crop {K : Type} [Zero K] : ∀ (ks ds : List Nat) (h : V K) (p : Nat), ks.length = ds.length →
    (∀ n ∈ ds, 0 < n) → p < prodL ds → padNd ks ds h p = padNd (minShape ks ds) ds (cropFilter ks ds h) p
  | [], [], h, p, _, _, hp => by
      have : p = 0 := by simpa [prodL] using hp
      subst this; simp [padNd, minShape, cropFilter, embedIdx]
  | [], _ :: _, _, _, hl, _, _ => by simp at hl
  | _ :: _, [], _, _, hl, _, _ => by simp at hl
  | k :: ks, n :: ds, h, p, hl, hpos, hp => by
      have hn : 0 < n := hpos n (by simp)
      have hds : ∀ m ∈ ds, 0 < m := fun m hm => hpos m (by simp [hm])
      have hR : 0 < prodL ds := prodL_pos_of_forall ds hds
      have hj : p / prodL ds < n := by rw [Nat.div_lt_iff_lt_mul hR]; simpa [prodL] using hp
      have hl' : ks.length = ds.length := by simpa using hl
      have hlm : (minShape ks ds).length = ds.length := minShape_length ks ds hl'
      simp only [padNd, minShape]
      by_cases hjk : p / prodL ds < k
      · rw [if_pos hjk, if_pos (lt_min hjk hj)]
        rw [padNd_crop ks ds _ _ hl' hds (Nat.mod_lt _ hR)]
        apply padNd_congr (minShape ks ds) ds _ _ _ _ hlm hds (Nat.mod_lt _ hR)
        intro q hq
        have hK : 0 < prodL (minShape ks ds) := by omega
        simp only [cropFilter, slab, minShape, embedIdx, idx_div hK _ q hq, idx_mod _ q hq]
      · rw [if_neg hjk, if_neg (fun h' => hjk (lt_of_lt_of_le h' (min_le_left _ _)))]


theorem fitsIn_min : ∀ (ks ds cs : List Nat), ks.length = ds.length → cs.length = ds.length → FitsIn (minShape ks ds) ds cs
  | [], [], [], _, _ => trivial
  | k :: ks, n :: ds, c :: cs, h1, h2 => ⟨min_le_right _ _, fitsIn_min ks ds cs (by simpa using h1) (by simpa using h2)⟩
  | [], [], _ :: _, _, h => by simp at h
  | [], _ :: _, _, h, _ => by simp at h
  | _ :: _, [], _, h, _ => by simp at h
  | _ :: _, _ :: _, [], _, h => by simp at h

section Crop
variable {K : Type} [Field K]

/-- N-d convolution theorem for a filter of ANY shape: axes on which it is longer than the signal are cropped -/
theorem circNd_fft_crop (dims : List Nat) (ws : List K) (ks cs : List Nat) (s : K) (h x : V K) (p : Nat)
    (hr : Roots dims ws) (hk : ks.length = dims.length) (hc : cs.length = dims.length)
    (hs : s * (prodL dims : K) = 1) (hp : p < prodL dims) :
    circNdSpecEval dims ws (ws.map (·⁻¹)) s
        (fun f => dftNd dims ws (padNd ks dims h) f * phaseNd dims (ws.map (·⁻¹)) cs f) x p
      = circNd (minShape ks dims) dims cs (cropFilter ks dims h) x p := by
  have hpos := roots_pos dims ws hr
  rw [← circNd_fft_eq dims ws (minShape ks dims) cs s (cropFilter ks dims h) x p hr (fitsIn_min ks dims cs hk hc) hs hp]
  unfold circNdSpecEval
  congr 1
  apply dftNd_congr dims _ _ _ p _ hp
  intro q hq
  beta_reduce
  rw [dftNd_congr dims ws _ _ q (fun r hr' => padNd_crop ks dims h r hk hpos hr') hq]

end Crop

end Scico.LinOps
