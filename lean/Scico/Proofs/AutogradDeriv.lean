/-
  C07, analytic layer: the gradient returned by the model is the true derivative.

  `JaxContract f x jg`  : JAX's convention for a real-valued function of (complex) arguments,
                          `d/dt f(x + t d)|₀ = Re Σ jgᵢ dᵢ` for every direction `d`
  `IsGradAt f x g`      : the property C07 asks for, `d/dt f(x + t d)|₀ = Re⟪g, d⟫` for every `d`

  Main result `Fn.jaxContract`: by induction over the functional expression (any nesting of
  scaling, sums, separable blocks, losses composed with operators) the transcription `Fn.jaxGrad`
  of JAX's rules satisfies the contract at every point of the smoothness domain `Fn.Smooth`,
  hence (`conj_grad`) `Fn.grad` is the gradient.
-/
import Scico.Proofs.AutogradWrap
import Mathlib.Analysis.SpecialFunctions.Sqrt
import Mathlib.Analysis.Calculus.Deriv.Add
import Mathlib.Analysis.Calculus.Deriv.Mul
import Mathlib.Analysis.Calculus.Deriv.Comp
import Mathlib.Algebra.BigOperators.Field

namespace Scico.Autograd
open Scico
open scoped Topology

noncomputable instance instHasSqrtReal : HasSqrt ℝ := ⟨Real.sqrt⟩

theorem hasSqrt_real (r : ℝ) : (HasSqrt.sqrt r : ℝ) = Real.sqrt r := rfl

variable {n m k : Nat}

/-- JAX's contract for `jax.grad` of a real-valued function -/
def JaxContract (f : CVec ℝ n → ℝ) (x jg : CVec ℝ n) : Prop :=
  ∀ d : CVec ℝ n, HasDerivAt (fun t : ℝ => f (along x d t)) (reBdot jg d) 0

/-- `g` is the gradient of `f` at `x` in the sense of property C07 -/
def IsGradAt (f : CVec ℝ n → ℝ) (x g : CVec ℝ n) : Prop :=
  ∀ d : CVec ℝ n, HasDerivAt (fun t : ℝ => f (along x d t)) (reInner g d) 0

/-- conjugating JAX's gradient gives the gradient -/
theorem conj_grad (f : CVec ℝ n → ℝ) (x jg : CVec ℝ n) (h : JaxContract f x jg) :
    IsGradAt f x (scicoGrad jg) := by
  intro d
  unfold scicoGrad
  rw [reInner_conjVec]
  exact h d

/-- and without the conjugate the pairing `Re⟪·,·⟫` would be wrong by the sign of the imaginary parts -/
theorem reInner_sub_reBdot (jg d : CVec ℝ n) :
    reInner jg d - reBdot jg d = 2 * ∑ i, (jg i).im * (d i).im := by
  rw [reInner_eq, reBdot_eq, ← Finset.sum_sub_distrib, Finset.mul_sum]
  exact Finset.sum_congr rfl (fun i _ => by ring)

/-! ### one-dimensional building blocks -/

/-- change the function pointwise and the derivative value -/
theorem HasDerivAt.congr' {f g : ℝ → ℝ} {f' g' x : ℝ} (h : HasDerivAt f f' x) (hf : ∀ t, g t = f t)
    (hd : f' = g') : HasDerivAt g g' x := by
  have : g = f := funext hf
  rw [this]; exact h.congr_deriv hd

theorem hasDerivAt_lin (a b : ℝ) : HasDerivAt (fun t : ℝ => a + t * b) b 0 :=
  HasDerivAt.congr' (((hasDerivAt_id (0 : ℝ)).mul_const b).const_add a) (fun _ => rfl) (one_mul b)

theorem along_re (x d : CVec ℝ n) (t : ℝ) (i : Fin n) : (along x d t i).re = (x i).re + t * (d i).re := rfl
theorem along_im (x d : CVec ℝ n) (t : ℝ) (i : Fin n) : (along x d t i).im = (x i).im + t * (d i).im := rfl

/-- `d/dt |z + t e|² = 2 Re(conj z · e)` -/
theorem hasDerivAt_abs2 (z e : Cx ℝ) :
    HasDerivAt (fun t : ℝ => Cx.abs2 (z + Cx.smul t e)) (2 * (z.re * e.re + z.im * e.im)) 0 := by
  have h1 := (hasDerivAt_lin z.re e.re).mul (hasDerivAt_lin z.re e.re)
  have h2 := (hasDerivAt_lin z.im e.im).mul (hasDerivAt_lin z.im e.im)
  have h := h1.add h2
  refine HasDerivAt.congr' h (fun _ => rfl) ?_
  ring

theorem hasDerivAt_abs2_along (x d : CVec ℝ n) (i : Fin n) :
    HasDerivAt (fun t : ℝ => Cx.abs2 (along x d t i))
      (2 * ((x i).re * (d i).re + (x i).im * (d i).im)) 0 :=
  hasDerivAt_abs2 (x i) (d i)

theorem abs2_nonneg (z : Cx ℝ) : 0 ≤ Cx.abs2 z := by
  unfold Cx.abs2; nlinarith [mul_self_nonneg z.re, mul_self_nonneg z.im]

theorem along_zero (x d : CVec ℝ n) : along x d 0 = x := by
  funext i; apply Cx.ext' <;> simp [along]

/-- `d/dt Σ|xᵢ + t dᵢ|²` -/
theorem hasDerivAt_sumAbs2 (x d : CVec ℝ n) :
    HasDerivAt (fun t : ℝ => sumAbs2 (along x d t))
      (∑ i, 2 * ((x i).re * (d i).re + (x i).im * (d i).im)) 0 := by
  simp only [sumAbs2_eq]
  exact HasDerivAt.fun_sum (fun i _ => hasDerivAt_abs2_along x d i)

theorem sumAbs2_nonneg (x : CVec ℝ n) : 0 ≤ sumAbs2 x := by
  rw [sumAbs2_eq]; exact Finset.sum_nonneg (fun i _ => abs2_nonneg _)

theorem groupAbs2_eq {k : Nat} (grp : Fin n → Fin k) (x : CVec ℝ n) (g : Fin k) :
    groupAbs2 grp x g = ∑ i, if grp i = g then Cx.abs2 (x i) else 0 := vsum_eq _

theorem hasDerivAt_groupAbs2 {k : Nat} (grp : Fin n → Fin k) (x d : CVec ℝ n) (g : Fin k) :
    HasDerivAt (fun t : ℝ => groupAbs2 grp (along x d t) g)
      (∑ i, if grp i = g then 2 * ((x i).re * (d i).re + (x i).im * (d i).im) else 0) 0 := by
  simp only [groupAbs2_eq]
  refine HasDerivAt.fun_sum (fun i _ => ?_)
  by_cases h : grp i = g
  · simp only [h, if_true]; exact hasDerivAt_abs2_along x d i
  · simp only [h, if_false]; exact hasDerivAt_const _ _

/-! ### the Huber function of the modulus, including the kink -/

theorem huberOf_real (δ r : ℝ) :
    huberOf δ r = if δ < r then δ * (r - δ / 2) else (1 / 2) * (r * r) := by
  unfold huberOf; rw [two_eq]

/-- `s ↦ huber_δ(√s)` is differentiable at the kink `s₀ = δ²` with derivative `1/2` -/
theorem hasDerivAt_huber_kink {δ : ℝ} (hδ : 0 < δ) :
    HasDerivAt (fun s : ℝ => huberOf δ (Real.sqrt s)) (1 / 2) (δ * δ) := by
  have hs0 : 0 < δ * δ := mul_pos hδ hδ
  have hsq : Real.sqrt (δ * δ) = δ := Real.sqrt_mul_self hδ.le
  -- left of the kink the function is s/2
  have hleft : HasDerivWithinAt (fun s : ℝ => huberOf δ (Real.sqrt s)) (1 / 2) (Set.Iic (δ * δ)) (δ * δ) := by
    have h0 : HasDerivWithinAt (fun s : ℝ => (1 / 2 : ℝ) * s) (1 / 2) (Set.Iic (δ * δ)) (δ * δ) := by
      have := ((hasDerivAt_id (δ * δ)).const_mul (1 / 2 : ℝ)).hasDerivWithinAt (s := Set.Iic (δ * δ))
      simpa using this
    refine h0.congr_of_eventuallyEq ?_ ?_
    · have hpos : ∀ᶠ s in 𝓝[Set.Iic (δ * δ)] (δ * δ), 0 < s :=
        nhdsWithin_le_nhds (lt_mem_nhds hs0)
      filter_upwards [hpos, self_mem_nhdsWithin] with s hs hle
      have hle' : Real.sqrt s ≤ δ := by
        rw [← hsq]; exact Real.sqrt_le_sqrt hle
      rw [huberOf_real, if_neg (not_lt.mpr hle'), Real.mul_self_sqrt hs.le]
    · rw [huberOf_real, hsq, if_neg (lt_irrefl _)]
  -- right of the kink it is δ(√s − δ/2)
  have hright : HasDerivWithinAt (fun s : ℝ => huberOf δ (Real.sqrt s)) (1 / 2) (Set.Ici (δ * δ)) (δ * δ) := by
    have h0 : HasDerivAt (fun s : ℝ => δ * (Real.sqrt s - δ / 2)) (1 / 2) (δ * δ) := by
      have h1 := ((hasDerivAt_id (δ * δ)).sqrt (by simpa using hs0.ne')).sub_const (δ / 2)
      have h2 := h1.const_mul δ
      refine HasDerivAt.congr' h2 (fun _ => rfl) ?_
      show δ * (1 / (2 * Real.sqrt (δ * δ))) = 1 / 2
      rw [hsq]
      field_simp
    refine h0.hasDerivWithinAt.congr_of_eventuallyEq ?_ ?_
    · filter_upwards [self_mem_nhdsWithin] with s hge
      have hge' : δ ≤ Real.sqrt s := by
        rw [← hsq]; exact Real.sqrt_le_sqrt hge
      rw [huberOf_real]
      rcases hge'.lt_or_eq with h | h
      · rw [if_pos h]
      · rw [if_neg (by rw [← h]; exact lt_irrefl _), ← h]; ring
    · rw [huberOf_real, hsq, if_neg (lt_irrefl _)]; ring
  have := hleft.union hright
  rwa [Set.Iic_union_Ici, hasDerivWithinAt_univ] at this

/-- chain rule for `t ↦ huber_δ(√S(t))` with `S ≥ 0`: at every point, also where `√S(0) = δ`,
    and also where `S(0) = 0` -/
theorem hasDerivAt_huber_comp {δ : ℝ} (hδ : 0 < δ) {S : ℝ → ℝ} {S' : ℝ} (hS : HasDerivAt S S' 0)
    (hpos : ∀ t, 0 ≤ S t) :
    HasDerivAt (fun t : ℝ => huberOf δ (Real.sqrt (S t)))
      ((if δ < Real.sqrt (S 0) then δ / (2 * Real.sqrt (S 0)) else 1 / 2) * S') 0 := by
  have hcont : ContinuousAt (fun t => Real.sqrt (S t)) 0 :=
    Real.continuous_sqrt.continuousAt.comp hS.continuousAt
  rcases lt_trichotomy (Real.sqrt (S 0)) δ with hlt | heq | hgt
  · -- inside: eventually ½ S(t)
    rw [if_neg (not_lt.mpr hlt.le)]
    have hev : ∀ᶠ t in 𝓝 (0 : ℝ), Real.sqrt (S t) < δ := hcont.eventually (gt_mem_nhds hlt)
    have h0 : HasDerivAt (fun t => (1 / 2 : ℝ) * S t) (1 / 2 * S') 0 := hS.const_mul _
    refine h0.congr_of_eventuallyEq ?_
    filter_upwards [hev] with t ht
    rw [huberOf_real, if_neg (not_lt.mpr ht.le), Real.mul_self_sqrt (hpos t)]
  · -- on the kink
    rw [if_neg (by rw [heq]; exact lt_irrefl _)]
    have hS0 : S 0 = δ * δ := by
      rw [← heq, Real.mul_self_sqrt (hpos 0)]
    have hk := hasDerivAt_huber_kink hδ
    rw [← hS0] at hk
    exact hk.comp (0 : ℝ) hS
  · -- outside: eventually δ(√S − δ/2)
    rw [if_pos hgt]
    have hS0 : S 0 ≠ 0 := by
      intro h0
      rw [h0, Real.sqrt_zero] at hgt
      exact absurd hgt (not_lt.mpr hδ.le)
    have hev : ∀ᶠ t in 𝓝 (0 : ℝ), δ < Real.sqrt (S t) := hcont.eventually (lt_mem_nhds hgt)
    have h0 : HasDerivAt (fun t => δ * (Real.sqrt (S t) - δ / 2)) (δ * (S' / (2 * Real.sqrt (S 0)))) 0 :=
      ((hS.sqrt hS0).sub_const _).const_mul _
    have h1 : HasDerivAt (fun t => huberOf δ (Real.sqrt (S t))) (δ * (S' / (2 * Real.sqrt (S 0)))) 0 := by
      refine h0.congr_of_eventuallyEq ?_
      filter_upwards [hev] with t ht
      rw [huberOf_real, if_pos ht]
    exact h1.congr_deriv (by ring)

/-! ### the smoothness domain -/

/-- where the functional is differentiable *and* JAX's rules produce finite numbers -/
def Fn.Smooth : {n : Nat} → Fn ℝ n → CVec ℝ n → Prop
  | _, .zero, _ => True
  | _, .sqL2, _ => True
  | _, .l2, x => sumAbs2 x ≠ 0
  | _, .l1, x => ∀ i, Cx.abs2 (x i) ≠ 0
  | _, .huber δ true, _ => 0 < δ
  | _, .huber δ false, _ => 0 < δ
  | _, .l1ml2 _, x => (∀ i, Cx.abs2 (x i) ≠ 0) ∧ sumAbs2 x ≠ 0
  | _, .l21 _ grp, x => ∀ g, groupAbs2 grp x g ≠ 0
  | _, .scaled _ f, x => f.Smooth x
  | _, .add f g, x => f.Smooth x ∧ g.Smooth x
  | _, .sep f g, x => f.Smooth (vleft x) ∧ g.Smooth (vright x)
  | _, .loss _ A y f, x => f.Smooth (vsub (mulVec A x) y)
  | _, .sqL2Loss _ _ _ _, _ => True
  | _, .sqL2SqAbsLoss _ _ _ _, _ => True

/-! ### base cases -/

theorem contract_zero (x : CVec ℝ n) : JaxContract (Fn.zero : Fn ℝ n).eval x ((Fn.zero : Fn ℝ n).jaxGrad x) := by
  intro d
  simp only [Fn.eval, Fn.jaxGrad]
  have : reBdot (fun _ => (0 : Cx ℝ)) d = 0 := by rw [reBdot_eq]; simp
  rw [this]
  exact hasDerivAt_const _ _

theorem contract_sqL2 (x : CVec ℝ n) : JaxContract (Fn.sqL2 : Fn ℝ n).eval x ((Fn.sqL2 : Fn ℝ n).jaxGrad x) := by
  intro d
  simp only [Fn.eval, Fn.jaxGrad]
  refine (hasDerivAt_sumAbs2 x d).congr_deriv ?_
  rw [reBdot_eq]
  refine Finset.sum_congr rfl (fun i _ => ?_)
  simp [two_eq]; ring

theorem hasDerivAt_norm2 (x d : CVec ℝ n) (hx : sumAbs2 x ≠ 0) :
    HasDerivAt (fun t : ℝ => norm2 (along x d t))
      ((∑ i, 2 * ((x i).re * (d i).re + (x i).im * (d i).im)) / (2 * norm2 x)) 0 := by
  have h := (hasDerivAt_sumAbs2 x d).sqrt (by rw [along_zero]; exact hx)
  rw [along_zero] at h
  exact h

theorem norm2_ne_zero (x : CVec ℝ n) (hx : sumAbs2 x ≠ 0) : norm2 x ≠ 0 := by
  unfold norm2
  rw [hasSqrt_real]
  exact (Real.sqrt_ne_zero (sumAbs2_nonneg x)).mpr hx

theorem coord_div (a b c e r : ℝ) : a / r * c - -b / r * e = 2 * (a * c + b * e) / (2 * r) := by
  rw [mul_div_mul_left _ _ (two_ne_zero)]
  ring

theorem reBdot_l2 (x d : CVec ℝ n) :
    reBdot (fun i => Cx.divr (x i).conj (norm2 x)) d =
      (∑ i, 2 * ((x i).re * (d i).re + (x i).im * (d i).im)) / (2 * norm2 x) := by
  rw [reBdot_eq, Finset.sum_div]
  refine Finset.sum_congr rfl (fun i _ => ?_)
  simp only [Cx.divr_re, Cx.divr_im, Cx.conj_re, Cx.conj_im]
  exact coord_div _ _ _ _ _

theorem reBdot_sub_smul (β : ℝ) (g h d : CVec ℝ n) :
    reBdot (fun i => g i - Cx.smul β (h i)) d = reBdot g d - β * reBdot h d := by
  rw [reBdot_eq, reBdot_eq, reBdot_eq, Finset.mul_sum, ← Finset.sum_sub_distrib]
  refine Finset.sum_congr rfl (fun i _ => ?_)
  simp
  ring

theorem contract_l2 (x : CVec ℝ n) (hx : sumAbs2 x ≠ 0) :
    JaxContract (Fn.l2 : Fn ℝ n).eval x ((Fn.l2 : Fn ℝ n).jaxGrad x) := by
  intro d
  simp only [Fn.eval, Fn.jaxGrad]
  rw [reBdot_l2]
  exact hasDerivAt_norm2 x d hx

theorem hasDerivAt_abs_along (x d : CVec ℝ n) (i : Fin n) (hx : Cx.abs2 (x i) ≠ 0) :
    HasDerivAt (fun t : ℝ => Cx.abs (along x d t i))
      ((2 * ((x i).re * (d i).re + (x i).im * (d i).im)) / (2 * Cx.abs (x i))) 0 := by
  have h := (hasDerivAt_abs2_along x d i).sqrt (by rw [along_zero]; exact hx)
  rw [along_zero] at h
  exact h

theorem reBdot_l1 (x d : CVec ℝ n) :
    reBdot (fun i => Cx.divr (x i).conj (Cx.abs (x i))) d =
      ∑ i, (2 * ((x i).re * (d i).re + (x i).im * (d i).im)) / (2 * Cx.abs (x i)) := by
  rw [reBdot_eq]
  refine Finset.sum_congr rfl (fun i _ => ?_)
  simp only [Cx.divr_re, Cx.divr_im, Cx.conj_re, Cx.conj_im]
  exact coord_div _ _ _ _ _

theorem hasDerivAt_l1 (x d : CVec ℝ n) (hx : ∀ i, Cx.abs2 (x i) ≠ 0) :
    HasDerivAt (fun t : ℝ => Vec.sum (fun i => Cx.abs (along x d t i)))
      (∑ i, (2 * ((x i).re * (d i).re + (x i).im * (d i).im)) / (2 * Cx.abs (x i))) 0 := by
  simp only [vsum_eq]
  exact HasDerivAt.fun_sum (fun i _ => hasDerivAt_abs_along x d i (hx i))

theorem contract_l1 (x : CVec ℝ n) (hx : ∀ i, Cx.abs2 (x i) ≠ 0) :
    JaxContract (Fn.l1 : Fn ℝ n).eval x ((Fn.l1 : Fn ℝ n).jaxGrad x) := by
  intro d
  simp only [Fn.eval, Fn.jaxGrad]
  rw [reBdot_l1]
  exact hasDerivAt_l1 x d hx

theorem contract_l1ml2 (β : ℝ) (x : CVec ℝ n) (hx : ∀ i, Cx.abs2 (x i) ≠ 0) (hx2 : sumAbs2 x ≠ 0) :
    JaxContract (Fn.l1ml2 β : Fn ℝ n).eval x ((Fn.l1ml2 β : Fn ℝ n).jaxGrad x) := by
  intro d
  simp only [Fn.eval, Fn.jaxGrad]
  have h := (hasDerivAt_l1 x d hx).sub ((hasDerivAt_norm2 x d hx2).const_mul β)
  refine HasDerivAt.congr' h (fun _ => rfl) ?_
  rw [← reBdot_l1, ← reBdot_l2, reBdot_sub_smul]

theorem contract_huber_sep (δ : ℝ) (hδ : 0 < δ) (x : CVec ℝ n) :
    JaxContract (Fn.huber δ true : Fn ℝ n).eval x ((Fn.huber δ true : Fn ℝ n).jaxGrad x) := by
  intro d
  simp only [Fn.eval, Fn.jaxGrad, vsum_eq]
  have hi : ∀ i : Fin n, HasDerivAt (fun t : ℝ => huberOf δ (Cx.abs (along x d t i)))
      ((if δ < Cx.abs (x i) then δ / (2 * Cx.abs (x i)) else 1 / 2)
        * (2 * ((x i).re * (d i).re + (x i).im * (d i).im))) 0 := by
    intro i
    have h := hasDerivAt_huber_comp hδ (hasDerivAt_abs2_along x d i) (fun t => abs2_nonneg _)
    rw [along_zero] at h
    exact h
  refine HasDerivAt.congr' (HasDerivAt.fun_sum (fun i _ => hi i)) (fun _ => rfl) ?_
  rw [reBdot_eq]
  refine Finset.sum_congr rfl (fun i _ => ?_)
  by_cases hc : δ < Cx.abs (x i)
  · simp only [hc, if_true, Cx.smul_re, Cx.smul_im, Cx.divr_re, Cx.divr_im, Cx.conj_re, Cx.conj_im]
    have hne : Cx.abs (x i) ≠ 0 := (lt_trans hδ hc).ne'
    field_simp
    ring
  · simp only [hc, if_false, Cx.conj_re, Cx.conj_im]
    ring

theorem huberNonsepOf_eq (δ s : ℝ) (hs : 0 ≤ s) : huberNonsepOf δ s = huberOf δ (Real.sqrt s) := by
  unfold huberNonsepOf
  rw [huberOf_real, two_eq, hasSqrt_real, Real.mul_self_sqrt hs]

/-- non-separable Huber norm (code after the repair): JAX's rules give the gradient at EVERY point,
    `‖x‖ = δ` and `x = 0` included -/
theorem contract_huber_nonsep (δ : ℝ) (hδ : 0 < δ) (x : CVec ℝ n) :
    JaxContract (Fn.huber δ false : Fn ℝ n).eval x ((Fn.huber δ false : Fn ℝ n).jaxGrad x) := by
  intro d
  simp only [Fn.eval, Fn.jaxGrad]
  have h := hasDerivAt_huber_comp hδ (hasDerivAt_sumAbs2 x d) (fun t => sumAbs2_nonneg _)
  rw [along_zero] at h
  refine HasDerivAt.congr' h (fun t => huberNonsepOf_eq δ _ (sumAbs2_nonneg _)) ?_
  rw [reBdot_eq, Finset.mul_sum]
  refine Finset.sum_congr rfl (fun i _ => ?_)
  show (if δ < norm2 x then δ / (2 * norm2 x) else 1 / 2) * _ = _
  by_cases hc : δ < norm2 x
  · have hn : norm2 x ≠ 0 := (lt_trans hδ hc).ne'
    simp only [hc, if_true, Cx.smul_re, Cx.smul_im, Cx.divr_re, Cx.divr_im, Cx.conj_re, Cx.conj_im]
    field_simp
    ring
  · simp only [hc, if_false, Cx.conj_re, Cx.conj_im]
    ring

/-- the formula of the code before the repair agrees with it away from the origin -/
theorem huberNonsepOld_eq (δ : ℝ) (x : CVec ℝ n) (hx : sumAbs2 x ≠ 0) :
    huberNonsepOldJaxGrad δ x = (Fn.huber δ false : Fn ℝ n).jaxGrad x := by
  have hn := norm2_ne_zero x hx
  funext i
  simp only [Fn.jaxGrad, huberNonsepOldJaxGrad]
  by_cases hc : δ < norm2 x
  · simp only [hc, if_true]
  · simp only [hc, if_false]
    apply Cx.ext' <;> simp <;> field_simp

theorem contract_l21 {k : Nat} (grp : Fin n → Fin k) (x : CVec ℝ n) (hx : ∀ g, groupAbs2 grp x g ≠ 0) :
    JaxContract (Fn.l21 k grp : Fn ℝ n).eval x ((Fn.l21 k grp : Fn ℝ n).jaxGrad x) := by
  intro d
  simp only [Fn.eval, Fn.jaxGrad, vsum_eq]
  have hg : ∀ g : Fin k, HasDerivAt (fun t : ℝ => Real.sqrt (groupAbs2 grp (along x d t) g))
      ((∑ i, if grp i = g then 2 * ((x i).re * (d i).re + (x i).im * (d i).im) else 0)
        / (2 * Real.sqrt (groupAbs2 grp x g))) 0 := by
    intro g
    have h := (hasDerivAt_groupAbs2 grp x d g).sqrt (by rw [along_zero]; exact hx g)
    rw [along_zero] at h
    exact h
  refine HasDerivAt.congr' (HasDerivAt.fun_sum (fun g _ => hg g)) (fun _ => rfl) ?_
  rw [reBdot_eq]
  simp only [Finset.sum_div]
  rw [Finset.sum_comm]
  refine Finset.sum_congr rfl (fun i _ => ?_)
  rw [Finset.sum_eq_single (grp i)]
  · simp only [if_true, Cx.divr_re, Cx.divr_im, Cx.conj_re, Cx.conj_im, hasSqrt_real]
    exact (coord_div _ _ _ _ _).symm
  · intro g _ hne
    simp [Ne.symm hne]
  · intro h; exact absurd (Finset.mem_univ _) h

theorem contract_sqL2Loss (s : ℝ) (A : Mat ℝ m n) (y : CVec ℝ m) (w : Vec ℝ m) (x : CVec ℝ n) :
    JaxContract (Fn.sqL2Loss s A y w).eval x ((Fn.sqL2Loss s A y w).jaxGrad x) := by
  intro d
  simp only [Fn.eval, Fn.jaxGrad, vsum_eq]
  have hi : ∀ i : Fin m, HasDerivAt (fun t : ℝ => w i * Cx.abs2 (y i - mulVec A (along x d t) i))
      (w i * (2 * ((y i - mulVec A x i).re * (-(mulVec A d i)).re
                    + (y i - mulVec A x i).im * (-(mulVec A d i)).im))) 0 := by
    intro i
    have h := (hasDerivAt_abs2 (y i - mulVec A x i) (-(mulVec A d i))).const_mul (w i)
    refine HasDerivAt.congr' h (fun t => ?_) rfl
    have e : y i - mulVec A (along x d t) i = (y i - mulVec A x i) + Cx.smul t (-(mulVec A d i)) := by
      rw [mulVec_along]
      apply Cx.ext' <;> simp [along] <;> ring
    rw [e]
  have h := (HasDerivAt.fun_sum (u := Finset.univ) (fun i _ => hi i)).const_mul s
  refine HasDerivAt.congr' h (fun _ => rfl) ?_
  rw [reBdot_vsmul_left, reBdot_transpose, reBdot_eq]
  congr 1
  refine Finset.sum_congr rfl (fun i _ => ?_)
  simp [two_eq]; ring

theorem contract_sqL2SqAbsLoss (s : ℝ) (A : Mat ℝ m n) (y : Vec ℝ m) (w : Vec ℝ m) (x : CVec ℝ n) :
    JaxContract (Fn.sqL2SqAbsLoss s A y w).eval x ((Fn.sqL2SqAbsLoss s A y w).jaxGrad x) := by
  intro d
  simp only [Fn.eval, Fn.jaxGrad, vsum_eq]
  have hi : ∀ i : Fin m, HasDerivAt
      (fun t : ℝ => w i * ((y i - Cx.abs2 (mulVec A (along x d t) i)) * (y i - Cx.abs2 (mulVec A (along x d t) i))))
      (w i * (2 * (y i - Cx.abs2 (mulVec A x i)) *
        (-(2 * ((mulVec A x i).re * (mulVec A d i).re + (mulVec A x i).im * (mulVec A d i).im))))) 0 := by
    intro i
    have ha : HasDerivAt (fun t : ℝ => Cx.abs2 (mulVec A (along x d t) i))
        (2 * ((mulVec A x i).re * (mulVec A d i).re + (mulVec A x i).im * (mulVec A d i).im)) 0 := by
      have h := hasDerivAt_abs2 (mulVec A x i) (mulVec A d i)
      refine HasDerivAt.congr' h (fun t => ?_) rfl
      rw [mulVec_along]
      rfl
    have hb := ha.const_sub (y i)
    have hc := (hb.mul hb).const_mul (w i)
    refine HasDerivAt.congr' hc (fun _ => rfl) ?_
    have h0 : mulVec A (along x d 0) = mulVec A x := by rw [along_zero]
    simp only [h0]
    ring
  have h := (HasDerivAt.fun_sum (u := Finset.univ) (fun i _ => hi i)).const_mul s
  refine HasDerivAt.congr' h (fun _ => rfl) ?_
  rw [reBdot_vsmul_left, reBdot_transpose, reBdot_eq]
  congr 1
  refine Finset.sum_congr rfl (fun i _ => ?_)
  simp [two_eq]; ring

/-! ### combinators -/

theorem contract_scaled (c : ℝ) (f : CVec ℝ n → ℝ) (x jg : CVec ℝ n) (h : JaxContract f x jg) :
    JaxContract (fun z => c * f z) x (vsmul c jg) := by
  intro d
  rw [reBdot_vsmul_left]
  exact (h d).const_mul c

theorem contract_add (f g : CVec ℝ n → ℝ) (x jf jg : CVec ℝ n) (hf : JaxContract f x jf)
    (hg : JaxContract g x jg) : JaxContract (fun z => f z + g z) x (vadd jf jg) := by
  intro d
  rw [reBdot_vadd_left]
  exact (hf d).add (hg d)

theorem contract_sep (f : CVec ℝ n → ℝ) (g : CVec ℝ k → ℝ) (x : CVec ℝ (n + k)) (jf : CVec ℝ n)
    (jg : CVec ℝ k) (hf : JaxContract f (vleft x) jf) (hg : JaxContract g (vright x) jg) :
    JaxContract (fun z => f (vleft z) + g (vright z)) x (vappend jf jg) := by
  intro d
  rw [reBdot_split, vleft_vappend, vright_vappend]
  exact (hf (vleft d)).add (hg (vright d))

/-- chain rule through an affine operator `x ↦ A x − y`: JAX pulls the cotangent back with the
    plain transpose -/
theorem contract_affine (s : ℝ) (A : Mat ℝ m n) (y : CVec ℝ m) (f : CVec ℝ m → ℝ) (x : CVec ℝ n)
    (jg : CVec ℝ m) (h : JaxContract f (vsub (mulVec A x) y) jg) :
    JaxContract (fun z => s * f (vsub (mulVec A z) y)) x (vsmul s (mulVec (transpose A) jg)) := by
  intro d
  rw [reBdot_vsmul_left, reBdot_transpose]
  have h1 := (h (mulVec A d)).const_mul s
  refine HasDerivAt.congr' h1 (fun t => ?_) rfl
  have e : vsub (mulVec A (along x d t)) y = along (vsub (mulVec A x) y) (mulVec A d) t := by
    rw [mulVec_along]
    funext i
    apply Cx.ext' <;> simp [vsub, along] <;> ring
  show s * f (vsub (mulVec A (along x d t)) y) = s * f (along (vsub (mulVec A x) y) (mulVec A d) t)
  rw [e]

/-! ### the induction -/

/-- **Every** functional expression: JAX's rules satisfy JAX's contract on the smoothness domain. -/
theorem Fn.jaxContract : ∀ {n : Nat} (f : Fn ℝ n) (x : CVec ℝ n), f.Smooth x →
    JaxContract f.eval x (f.jaxGrad x) := by
  intro n f
  induction f with
  | zero => intro x _; exact contract_zero x
  | sqL2 => intro x _; exact contract_sqL2 x
  | l2 => intro x h; exact contract_l2 x h
  | l1 => intro x h; exact contract_l1 x h
  | huber δ sep =>
    intro x h
    cases sep with
    | true => exact contract_huber_sep δ h x
    | false => exact contract_huber_nonsep δ h x
  | l1ml2 β => intro x h; exact contract_l1ml2 β x h.1 h.2
  | l21 k grp => intro x h; exact contract_l21 grp x h
  | scaled c f ih =>
    intro x h
    exact contract_scaled c f.eval x (f.jaxGrad x) (ih x h)
  | add f g ihf ihg =>
    intro x h
    exact contract_add f.eval g.eval x _ _ (ihf x h.1) (ihg x h.2)
  | sep f g ihf ihg =>
    intro x h
    exact contract_sep f.eval g.eval x _ _ (ihf _ h.1) (ihg _ h.2)
  | loss s A y f ih =>
    intro x h
    exact contract_affine s A y f.eval x _ (ih _ h)
  | sqL2Loss s A y w => intro x _; exact contract_sqL2Loss s A y w x
  | sqL2SqAbsLoss s A y w => intro x _; exact contract_sqL2SqAbsLoss s A y w x

/-- hence `f.grad(x)` is the gradient in the sense of C07 -/
theorem Fn.isGradAt {n : Nat} (f : Fn ℝ n) (x : CVec ℝ n) (h : f.Smooth x) :
    IsGradAt f.eval x (f.grad x) :=
  conj_grad f.eval x (f.jaxGrad x) (f.jaxContract x h)

/-! ### block arguments: the blocks of the gradient are the partial gradients -/

theorem isGradAt_left (f : CVec ℝ (n + k) → ℝ) (x g : CVec ℝ (n + k)) (h : IsGradAt f x g) :
    IsGradAt (fun u => f (vappend u (vright x))) (vleft x) (vleft g) := by
  intro d
  have h1 := h (vappend d (fun _ => 0))
  have e1 : reInner g (vappend d (fun _ => 0)) = reInner (vleft g) d := by
    rw [reInner_split, vleft_vappend, vright_vappend]
    have : reInner (vright g) (fun _ => (0 : Cx ℝ)) = 0 := by rw [reInner_eq]; simp
    rw [this, add_zero]
  rw [e1] at h1
  refine HasDerivAt.congr' h1 (fun t => ?_) rfl
  have e : along x (vappend d fun _ => 0) t = vappend (along (vleft x) d t) (vright x) := by
    conv_lhs => rw [← vappend_left_right (along x (vappend d fun _ => 0) t)]
    congr 1
    · rw [along_vleft, vleft_vappend]
    · rw [along_vright, vright_vappend]
      funext i
      apply Cx.ext' <;> simp [along]
  rw [e]

theorem isGradAt_right (f : CVec ℝ (n + k) → ℝ) (x g : CVec ℝ (n + k)) (h : IsGradAt f x g) :
    IsGradAt (fun u => f (vappend (vleft x) u)) (vright x) (vright g) := by
  intro d
  have h1 := h (vappend (fun _ => 0) d)
  have e1 : reInner g (vappend (fun _ => 0) d) = reInner (vright g) d := by
    rw [reInner_split, vleft_vappend, vright_vappend]
    have : reInner (vleft g) (fun _ => (0 : Cx ℝ)) = 0 := by rw [reInner_eq]; simp
    rw [this, zero_add]
  rw [e1] at h1
  refine HasDerivAt.congr' h1 (fun t => ?_) rfl
  have e : along x (vappend (fun _ => 0) d) t = vappend (vleft x) (along (vright x) d t) := by
    conv_lhs => rw [← vappend_left_right (along x (vappend (fun _ => 0) d) t)]
    congr 1
    · rw [along_vleft, vleft_vappend]
      funext i
      apply Cx.ext' <;> simp [along]
    · rw [along_vright, vright_vappend]
  rw [e]

/-! ### real argument, complex operators -/

theorem reInner_realPart_conj (jg d : CVec ℝ n) (hd : ∀ i, (d i).im = 0) :
    reInner (scicoGrad (realPart jg)) d = reBdot jg d := by
  unfold scicoGrad
  rw [reInner_conjVec, reBdot_eq, reBdot_eq]
  refine Finset.sum_congr rfl (fun i _ => ?_)
  simp [realPart, hd i]

/-- for a real argument only real directions exist; the real part of the gradient is then the gradient -/
theorem Fn.isGradAt_realArg {n : Nat} (f : Fn ℝ n) (x : CVec ℝ n) (h : f.Smooth x) (d : CVec ℝ n)
    (hd : ∀ i, (d i).im = 0) :
    HasDerivAt (fun t : ℝ => f.eval (along x d t)) (reInner (f.gradRealArg x) d) 0 := by
  unfold Fn.gradRealArg
  rw [reInner_realPart_conj _ _ hd]
  exact f.jaxContract x h d

/-! ### uniqueness of the gradient -/

/-- unit direction `z·eᵢ` -/
def single (i : Fin n) (z : Cx ℝ) : CVec ℝ n := fun j => if j = i then z else 0

theorem reInner_single (g : CVec ℝ n) (i : Fin n) (z : Cx ℝ) :
    reInner g (single i z) = (g i).re * z.re + (g i).im * z.im := by
  rw [reInner_eq, Finset.sum_eq_single i]
  · simp [single]
  · intro j _ hj
    simp [single, hj]
  · intro h; exact absurd (Finset.mem_univ _) h

/-- the gradient in the sense of C07 is unique: `Re⟪g,d⟫ = Re⟪g',d⟫` for all `d` forces `g = g'` -/
theorem isGradAt_unique (f : CVec ℝ n → ℝ) (x g g' : CVec ℝ n) (h : IsGradAt f x g) (h' : IsGradAt f x g') :
    g = g' := by
  have key : ∀ d, reInner g d = reInner g' d := fun d => (h d).unique (h' d)
  funext i
  have h1 := key (single i ⟨1, 0⟩)
  have h2 := key (single i ⟨0, 1⟩)
  rw [reInner_single, reInner_single] at h1 h2
  simp at h1 h2
  exact Cx.ext' h1 h2


/-! ### second derivative of the squared-l2 loss along a line -/

theorem sqL2Loss_along (s : ℝ) (A : Mat ℝ m n) (y : CVec ℝ m) (w : Vec ℝ m) (x d : CVec ℝ n) (t : ℝ) :
    (Fn.sqL2Loss s A y w).eval (along x d t) =
      (Fn.sqL2Loss s A y w).eval x + t * reInner ((Fn.sqL2Loss s A y w).grad x) d
        + t ^ 2 * ((1 / 2) * reInner (hessianApply s A w d) d) := by
  have h : along x d t = vadd x (vsmul t d) := rfl
  rw [h, sqL2Loss_expansion]
  have h2 : hessianApply s A w (vsmul t d) = vsmul t (hessianApply s A w d) := by
    unfold hessianApply
    rw [mulVec_vsmul]
    have : (fun i => Cx.smul (w i) (vsmul t (mulVec A d) i)) =
        vsmul t (fun i => Cx.smul (w i) (mulVec A d i)) := by
      funext i; apply Cx.ext' <;> simp [vsmul] <;> ring
    rw [this, mulVec_vsmul]
    funext i; apply Cx.ext' <;> simp [vsmul] <;> ring
  rw [h2, reInner_vsmul_left]
  have h3 : ∀ g : CVec ℝ n, reInner g (vsmul t d) = t * reInner g d := by
    intro g; rw [reInner_comm, reInner_vsmul_left, reInner_comm]
  rw [h3, h3]
  ring

end Scico.Autograd
