/-
  C07, analytic layer, part 2: the gradient returned by the model is the true derivative.

  `JaxContract f x jg`   : JAX's convention for a real-valued function of (complex) arguments,
                           `d/dt f(x + t d)|₀ = Re Σ jgᵢ dᵢ` for every direction `d`
  `IsGradAt f x g`       : the property C07 asks for, `d/dt f(x + t d)|₀ = Re⟪g, d⟫` for every `d`
  `CurveContract f x jg` : the same along every differentiable curve through `x` (what a chain rule
                           through a nonlinear operator needs)

  Main result `Fn.curveContract`: by induction over the functional expression (any nesting of
  scaling, sums, separable blocks, losses composed with linear *and nonlinear* operators) the
  transcription `Fn.jaxGrad` of JAX's rules gives the derivative along every curve on which the
  expression is smooth (`Fn.SmoothOn`); `Fn.jaxContract`/`Fn.isGradAt` are the special case of lines
  at a point of the pointwise smoothness domain `Fn.Smooth`.
-/
import Scico.Proofs.AutogradCurve

namespace Scico.Autograd
open Scico
open scoped Topology

variable {n m k : Nat}

/-- JAX's contract for `jax.grad` of a real-valued function -/
def JaxContract (f : CVec ℝ n → ℝ) (x jg : CVec ℝ n) : Prop :=
  ∀ d : CVec ℝ n, HasDerivAt (fun t : ℝ => f (along x d t)) (reBdot jg d) 0

/-- `g` is the gradient of `f` at `x` in the sense of property C07 -/
def IsGradAt (f : CVec ℝ n → ℝ) (x g : CVec ℝ n) : Prop :=
  ∀ d : CVec ℝ n, HasDerivAt (fun t : ℝ => f (along x d t)) (reInner g d) 0

/-- the contract along every differentiable curve through `x` -/
def CurveContract (f : CVec ℝ n → ℝ) (x jg : CVec ℝ n) : Prop :=
  ∀ (c : ℝ → CVec ℝ n) (d : CVec ℝ n), c 0 = x → Tangent c d →
    HasDerivAt (fun t : ℝ => f (c t)) (reBdot jg d) 0

/-- `g` is the gradient of `f` at `x` along every differentiable curve through `x` -/
def IsCurveGradAt (f : CVec ℝ n → ℝ) (x g : CVec ℝ n) : Prop :=
  ∀ (c : ℝ → CVec ℝ n) (d : CVec ℝ n), c 0 = x → Tangent c d →
    HasDerivAt (fun t : ℝ => f (c t)) (reInner g d) 0

theorem CurveContract.jaxContract {f : CVec ℝ n → ℝ} {x jg : CVec ℝ n} (h : CurveContract f x jg) :
    JaxContract f x jg :=
  fun d => h (fun t => along x d t) d (along_zero x d) (tangent_along x d)

theorem IsCurveGradAt.isGradAt {f : CVec ℝ n → ℝ} {x g : CVec ℝ n} (h : IsCurveGradAt f x g) :
    IsGradAt f x g :=
  fun d => h (fun t => along x d t) d (along_zero x d) (tangent_along x d)

/-- conjugating JAX's gradient gives the gradient -/
theorem conj_grad (f : CVec ℝ n → ℝ) (x jg : CVec ℝ n) (h : JaxContract f x jg) :
    IsGradAt f x (scicoGrad jg) := by
  intro d
  unfold scicoGrad
  rw [reInner_conjVec]
  exact h d

theorem conj_grad_curve (f : CVec ℝ n → ℝ) (x jg : CVec ℝ n) (h : CurveContract f x jg) :
    IsCurveGradAt f x (scicoGrad jg) := by
  intro c d h0 hc
  unfold scicoGrad
  rw [reInner_conjVec]
  exact h c d h0 hc

/-- and without the conjugate the pairing `Re⟪·,·⟫` would be wrong by the sign of the imaginary parts -/
theorem reInner_sub_reBdot (jg d : CVec ℝ n) :
    reInner jg d - reBdot jg d = 2 * ∑ i, (jg i).im * (d i).im := by
  rw [reInner_eq, reBdot_eq, ← Finset.sum_sub_distrib, Finset.mul_sum]
  exact Finset.sum_congr rfl (fun i _ => by ring)

/-! ### one-dimensional building blocks -/

/-- the pairing `2 Re(conj z · e)` that every derivative below is made of -/
def pair2 (z e : Cx ℝ) : ℝ := 2 * (z.re * e.re + z.im * e.im)

theorem hasDerivAt_abs2 (z e : Cx ℝ) :
    HasDerivAt (fun t : ℝ => Cx.abs2 (z + Cx.smul t e)) (2 * (z.re * e.re + z.im * e.im)) 0 := by
  have hz : CTangent (fun t => z + Cx.smul t e) e :=
    ⟨hasDerivAt_lin z.re e.re, hasDerivAt_lin z.im e.im⟩
  have h := hz.abs2
  refine HasDerivAt.congr' h (fun _ => rfl) ?_
  simp

theorem abs2_nonneg (z : Cx ℝ) : 0 ≤ Cx.abs2 z := by
  unfold Cx.abs2; nlinarith [mul_self_nonneg z.re, mul_self_nonneg z.im]

theorem hasDerivAt_abs2_curve {c : ℝ → CVec ℝ n} {d : CVec ℝ n} (hc : Tangent c d) (i : Fin n) :
    HasDerivAt (fun t : ℝ => Cx.abs2 (c t i))
      (2 * ((c 0 i).re * (d i).re + (c 0 i).im * (d i).im)) 0 :=
  (hc i).abs2

/-- `d/dt Σ|cᵢ(t)|²` -/
theorem hasDerivAt_sumAbs2 {c : ℝ → CVec ℝ n} {d : CVec ℝ n} (hc : Tangent c d) :
    HasDerivAt (fun t : ℝ => sumAbs2 (c t))
      (∑ i, 2 * ((c 0 i).re * (d i).re + (c 0 i).im * (d i).im)) 0 := by
  simp only [sumAbs2_eq]
  exact HasDerivAt.fun_sum (fun i _ => hasDerivAt_abs2_curve hc i)

theorem sumAbs2_nonneg (x : CVec ℝ n) : 0 ≤ sumAbs2 x := by
  rw [sumAbs2_eq]; exact Finset.sum_nonneg (fun i _ => abs2_nonneg _)

theorem groupAbs2_eq {k : Nat} (grp : Fin n → Fin k) (x : CVec ℝ n) (g : Fin k) :
    groupAbs2 grp x g = ∑ i, if grp i = g then Cx.abs2 (x i) else 0 := vsum_eq _

theorem groupAbs2_nonneg {k : Nat} (grp : Fin n → Fin k) (x : CVec ℝ n) (g : Fin k) :
    0 ≤ groupAbs2 grp x g := by
  rw [groupAbs2_eq]
  exact Finset.sum_nonneg (fun i _ => by split <;> [exact abs2_nonneg _; exact le_refl _])

theorem hasDerivAt_groupAbs2 {k : Nat} (grp : Fin n → Fin k) {c : ℝ → CVec ℝ n} {d : CVec ℝ n}
    (hc : Tangent c d) (g : Fin k) :
    HasDerivAt (fun t : ℝ => groupAbs2 grp (c t) g)
      (∑ i, if grp i = g then 2 * ((c 0 i).re * (d i).re + (c 0 i).im * (d i).im) else 0) 0 := by
  simp only [groupAbs2_eq]
  refine HasDerivAt.fun_sum (fun i _ => ?_)
  by_cases h : grp i = g
  · simp only [h, if_true]; exact hasDerivAt_abs2_curve hc i
  · simp only [h, if_false]; exact hasDerivAt_const _ _

/-! ### the Huber function of the modulus, including the kink -/

theorem huberOf_real (δ r : ℝ) :
    huberOf δ r = if δ < r then δ * (r - δ / 2) else (1 / 2) * (r * r) := by
  unfold huberOf; rw [two_eq]

/-- `s ↦ huber_δ(√s)` is differentiable at the kink `s₀ = δ²` with derivative `1/2` -/
theorem hasDerivAt_huber_kink {δ : ℝ} (hδ : 0 < δ) :
    HasDerivAt (fun s : ℝ => huberOf δ (Real.sqrt s)) (1 / 2) (δ * δ) := by
  have hs0 : 0 < δ * δ := mul_pos hδ hδ
  have hsq : Real.sqrt (δ * δ) = δ := Real.sqrt_mul_self hδ.le
  -- left of the kink the function is s/2
  have hleft : HasDerivWithinAt (fun s : ℝ => huberOf δ (Real.sqrt s)) (1 / 2) (Set.Iic (δ * δ)) (δ * δ) := by
    have h0 : HasDerivWithinAt (fun s : ℝ => (1 / 2 : ℝ) * s) (1 / 2) (Set.Iic (δ * δ)) (δ * δ) := by
      have := ((hasDerivAt_id (δ * δ)).const_mul (1 / 2 : ℝ)).hasDerivWithinAt (s := Set.Iic (δ * δ))
      simpa using this
    refine h0.congr_of_eventuallyEq ?_ ?_
    · have hpos : ∀ᶠ s in 𝓝[Set.Iic (δ * δ)] (δ * δ), 0 < s :=
        nhdsWithin_le_nhds (lt_mem_nhds hs0)
      filter_upwards [hpos, self_mem_nhdsWithin] with s hs hle
      have hle' : Real.sqrt s ≤ δ := by
        rw [← hsq]; exact Real.sqrt_le_sqrt hle
      rw [huberOf_real, if_neg (not_lt.mpr hle'), Real.mul_self_sqrt hs.le]
    · rw [huberOf_real, hsq, if_neg (lt_irrefl _)]
  -- right of the kink it is δ(√s − δ/2)
  have hright : HasDerivWithinAt (fun s : ℝ => huberOf δ (Real.sqrt s)) (1 / 2) (Set.Ici (δ * δ)) (δ * δ) := by
    have h0 : HasDerivAt (fun s : ℝ => δ * (Real.sqrt s - δ / 2)) (1 / 2) (δ * δ) := by
      have h1 := ((hasDerivAt_id (δ * δ)).sqrt (by simpa using hs0.ne')).sub_const (δ / 2)
      have h2 := h1.const_mul δ
      refine HasDerivAt.congr' h2 (fun _ => rfl) ?_
      show δ * (1 / (2 * Real.sqrt (δ * δ))) = 1 / 2
      rw [hsq]
      field_simp
    refine h0.hasDerivWithinAt.congr_of_eventuallyEq ?_ ?_
    · filter_upwards [self_mem_nhdsWithin] with s hge
      have hge' : δ ≤ Real.sqrt s := by
        rw [← hsq]; exact Real.sqrt_le_sqrt hge
      rw [huberOf_real]
      rcases hge'.lt_or_eq with h | h
      · rw [if_pos h]
      · rw [if_neg (by rw [← h]; exact lt_irrefl _), ← h]; ring
    · rw [huberOf_real, hsq, if_neg (lt_irrefl _)]; ring
  have := hleft.union hright
  rwa [Set.Iic_union_Ici, hasDerivWithinAt_univ] at this

/-- chain rule for `t ↦ huber_δ(√S(t))` with `S ≥ 0`: at every point, also where `√S(0) = δ`,
    and also where `S(0) = 0` -/
theorem hasDerivAt_huber_comp {δ : ℝ} (hδ : 0 < δ) {S : ℝ → ℝ} {S' : ℝ} (hS : HasDerivAt S S' 0)
    (hpos : ∀ t, 0 ≤ S t) :
    HasDerivAt (fun t : ℝ => huberOf δ (Real.sqrt (S t)))
      ((if δ < Real.sqrt (S 0) then δ / (2 * Real.sqrt (S 0)) else 1 / 2) * S') 0 := by
  have hcont : ContinuousAt (fun t => Real.sqrt (S t)) 0 :=
    Real.continuous_sqrt.continuousAt.comp hS.continuousAt
  rcases lt_trichotomy (Real.sqrt (S 0)) δ with hlt | heq | hgt
  · -- inside: eventually ½ S(t)
    rw [if_neg (not_lt.mpr hlt.le)]
    have hev : ∀ᶠ t in 𝓝 (0 : ℝ), Real.sqrt (S t) < δ := hcont.eventually (gt_mem_nhds hlt)
    have h0 : HasDerivAt (fun t => (1 / 2 : ℝ) * S t) (1 / 2 * S') 0 := hS.const_mul _
    refine h0.congr_of_eventuallyEq ?_
    filter_upwards [hev] with t ht
    rw [huberOf_real, if_neg (not_lt.mpr ht.le), Real.mul_self_sqrt (hpos t)]
  · -- on the kink
    rw [if_neg (by rw [heq]; exact lt_irrefl _)]
    have hS0 : S 0 = δ * δ := by
      rw [← heq, Real.mul_self_sqrt (hpos 0)]
    have hk := hasDerivAt_huber_kink hδ
    rw [← hS0] at hk
    exact hk.comp (0 : ℝ) hS
  · -- outside: eventually δ(√S − δ/2)
    rw [if_pos hgt]
    have hS0 : S 0 ≠ 0 := by
      intro h0
      rw [h0, Real.sqrt_zero] at hgt
      exact absurd hgt (not_lt.mpr hδ.le)
    have hev : ∀ᶠ t in 𝓝 (0 : ℝ), δ < Real.sqrt (S t) := hcont.eventually (lt_mem_nhds hgt)
    have h0 : HasDerivAt (fun t => δ * (Real.sqrt (S t) - δ / 2)) (δ * (S' / (2 * Real.sqrt (S 0)))) 0 :=
      ((hS.sqrt hS0).sub_const _).const_mul _
    have h1 : HasDerivAt (fun t => huberOf δ (Real.sqrt (S t))) (δ * (S' / (2 * Real.sqrt (S 0)))) 0 := by
      refine h0.congr_of_eventuallyEq ?_
      filter_upwards [hev] with t ht
      rw [huberOf_real, if_pos ht]
    exact h1.congr_deriv (by ring)

/-! ### the smoothness domains -/

/-- where the functional is differentiable *and* JAX's rules produce finite numbers (pointwise) -/
def Fn.Smooth : {n : Nat} → Fn ℝ n → CVec ℝ n → Prop
  | _, .zero, _ => True
  | _, .sqL2, _ => True
  | _, .l2, x => sumAbs2 x ≠ 0
  | _, .l1, x => ∀ i, Cx.abs2 (x i) ≠ 0
  | _, .huber δ _, _ => 0 < δ
  | _, .l1ml2 _, x => (∀ i, Cx.abs2 (x i) ≠ 0) ∧ sumAbs2 x ≠ 0
  | _, .l21 _ grp, x => ∀ g, groupAbs2 grp x g ≠ 0
  | _, .scaled _ f, x => f.Smooth x
  | _, .add f g, x => f.Smooth x ∧ g.Smooth x
  | _, .sep f g, x => f.Smooth (vleft x) ∧ g.Smooth (vright x)
  | _, .loss _ A y f, x => f.Smooth (vsub (mulVec A x) y)
  | _, .sqL2Loss _ _ _ _, _ => True
  | _, .sqL2SqAbsLoss _ _ _ _, _ => True
  | _, .sqL2AbsLoss _ A _ _, x => ∀ i, Cx.abs2 (mulVec A x i) ≠ 0
  | _, .poisson _ A _ _, x => ∀ i, 0 < (mulVec A x i).re
  | _, .lossOp _ F y f, x => f.Smooth (vsub (F.eval x) y)
  | _, .sqL2LossOp _ _ _ _, _ => True

/-- smoothness *along a curve*: the pointwise conditions at `c 0`, except that a group of the
    `L21Norm` may vanish at `c 0` provided it vanishes identically along the curve (structural
    zeros, e.g. the zero-padded boundary differences of a non-circular TV norm — there the guarded
    `_l2norm` contributes the constant 0 and a zero gradient) -/
def Fn.SmoothOn : {n : Nat} → Fn ℝ n → (ℝ → CVec ℝ n) → Prop
  | _, .zero, _ => True
  | _, .sqL2, _ => True
  | _, .l2, c => sumAbs2 (c 0) ≠ 0
  | _, .l1, c => ∀ i, Cx.abs2 (c 0 i) ≠ 0 ∨ ∀ t, Cx.abs2 (c t i) = 0
  | _, .huber δ _, _ => 0 < δ
  | _, .l1ml2 _, c => (∀ i, Cx.abs2 (c 0 i) ≠ 0) ∧ sumAbs2 (c 0) ≠ 0
  | _, .l21 _ grp, c => ∀ g, groupAbs2 grp (c 0) g ≠ 0 ∨ ∀ t, groupAbs2 grp (c t) g = 0
  | _, .scaled _ f, c => f.SmoothOn c
  | _, .add f g, c => f.SmoothOn c ∧ g.SmoothOn c
  | _, .sep f g, c => f.SmoothOn (fun t => vleft (c t)) ∧ g.SmoothOn (fun t => vright (c t))
  | _, .loss _ A y f, c => f.SmoothOn (fun t => vsub (mulVec A (c t)) y)
  | _, .sqL2Loss _ _ _ _, _ => True
  | _, .sqL2SqAbsLoss _ _ _ _, _ => True
  | _, .sqL2AbsLoss _ A _ _, c => ∀ i, Cx.abs2 (mulVec A (c 0) i) ≠ 0
  | _, .poisson _ A _ _, c => ∀ i, 0 < (mulVec A (c 0) i).re
  | _, .lossOp _ F y f, c => f.SmoothOn (fun t => vsub (F.eval (c t)) y)
  | _, .sqL2LossOp _ _ _ _, _ => True

/-- a point of the pointwise domain is smooth along every curve through it -/
theorem Fn.smoothOn_of_smooth : ∀ {n : Nat} (f : Fn ℝ n) (c : ℝ → CVec ℝ n), f.Smooth (c 0) → f.SmoothOn c := by
  intro n f
  induction f with
  | zero => intro c h; trivial
  | sqL2 => intro c h; trivial
  | l2 => intro c h; exact h
  | l1 => intro c h i; exact Or.inl (h i)
  | huber δ sep => intro c h; exact h
  | l1ml2 β => intro c h; exact h
  | l21 k grp => intro c h g; exact Or.inl (h g)
  | scaled a f ih => intro c h; exact ih c h
  | add f g ihf ihg => intro c h; exact ⟨ihf c h.1, ihg c h.2⟩
  | sep f g ihf ihg => intro c h; exact ⟨ihf _ h.1, ihg _ h.2⟩
  | loss s A y f ih => intro c h; exact ih _ h
  | sqL2Loss s A y w => intro c h; trivial
  | sqL2SqAbsLoss s A y w => intro c h; trivial
  | sqL2AbsLoss s A y w => intro c h; exact h
  | poisson s A y cst => intro c h; exact h
  | lossOp s F y f ih => intro c h; exact ih _ h
  | sqL2LossOp s F y w => intro c h; trivial


/-! ### base cases (along curves) -/

/-- the statement proved for every constructor: derivative along a curve -/
def DerivOn (f : CVec ℝ n → ℝ) (jg : CVec ℝ n → CVec ℝ n) (c : ℝ → CVec ℝ n) (d : CVec ℝ n) : Prop :=
  HasDerivAt (fun t : ℝ => f (c t)) (reBdot (jg (c 0)) d) 0

theorem deriv_zero {c : ℝ → CVec ℝ n} {d : CVec ℝ n} :
    DerivOn (Fn.zero : Fn ℝ n).eval (Fn.zero : Fn ℝ n).jaxGrad c d := by
  unfold DerivOn
  simp only [Fn.eval, Fn.jaxGrad]
  have : reBdot (fun _ => (0 : Cx ℝ)) d = 0 := by rw [reBdot_eq]; simp
  rw [this]
  exact hasDerivAt_const _ _

theorem deriv_sqL2 {c : ℝ → CVec ℝ n} {d : CVec ℝ n} (hc : Tangent c d) :
    DerivOn (Fn.sqL2 : Fn ℝ n).eval (Fn.sqL2 : Fn ℝ n).jaxGrad c d := by
  unfold DerivOn
  simp only [Fn.eval, Fn.jaxGrad]
  refine (hasDerivAt_sumAbs2 hc).congr_deriv ?_
  rw [reBdot_eq]
  refine Finset.sum_congr rfl (fun i _ => ?_)
  simp [two_eq]; ring

theorem hasDerivAt_norm2 {c : ℝ → CVec ℝ n} {d : CVec ℝ n} (hc : Tangent c d) (hx : sumAbs2 (c 0) ≠ 0) :
    HasDerivAt (fun t : ℝ => norm2 (c t))
      ((∑ i, 2 * ((c 0 i).re * (d i).re + (c 0 i).im * (d i).im)) / (2 * norm2 (c 0))) 0 :=
  (hasDerivAt_sumAbs2 hc).sqrt hx

theorem norm2_ne_zero (x : CVec ℝ n) (hx : sumAbs2 x ≠ 0) : norm2 x ≠ 0 := by
  unfold norm2
  rw [hasSqrt_real]
  exact (Real.sqrt_ne_zero (sumAbs2_nonneg x)).mpr hx

theorem coord_div (a b c e r : ℝ) : a / r * c - -b / r * e = 2 * (a * c + b * e) / (2 * r) := by
  rw [mul_div_mul_left _ _ (two_ne_zero)]
  ring

theorem reBdot_l2 (x d : CVec ℝ n) :
    reBdot (fun i => Cx.divr (x i).conj (norm2 x)) d =
      (∑ i, 2 * ((x i).re * (d i).re + (x i).im * (d i).im)) / (2 * norm2 x) := by
  rw [reBdot_eq, Finset.sum_div]
  refine Finset.sum_congr rfl (fun i _ => ?_)
  simp only [Cx.divr_re, Cx.divr_im, Cx.conj_re, Cx.conj_im]
  exact coord_div _ _ _ _ _

theorem reBdot_sub_smul (β : ℝ) (g h d : CVec ℝ n) :
    reBdot (fun i => g i - Cx.smul β (h i)) d = reBdot g d - β * reBdot h d := by
  rw [reBdot_eq, reBdot_eq, reBdot_eq, Finset.mul_sum, ← Finset.sum_sub_distrib]
  refine Finset.sum_congr rfl (fun i _ => ?_)
  simp
  ring

theorem deriv_l2 {c : ℝ → CVec ℝ n} {d : CVec ℝ n} (hc : Tangent c d) (hx : sumAbs2 (c 0) ≠ 0) :
    DerivOn (Fn.l2 : Fn ℝ n).eval (Fn.l2 : Fn ℝ n).jaxGrad c d := by
  unfold DerivOn
  simp only [Fn.eval, Fn.jaxGrad]
  rw [reBdot_l2]
  exact hasDerivAt_norm2 hc hx

theorem abs_pos_of_abs2 (z : Cx ℝ) (h : Cx.abs2 z ≠ 0) : 0 < Cx.abs z := by
  unfold Cx.abs; rw [hasSqrt_real]
  exact Real.sqrt_pos.mpr (lt_of_le_of_ne (abs2_nonneg z) (Ne.symm h))

theorem absGrad_of_ne (z : Cx ℝ) (h : Cx.abs2 z ≠ 0) : absGrad z = Cx.divr z.conj (Cx.abs z) := by
  unfold absGrad; rw [if_pos (abs_pos_of_abs2 z h)]

theorem absGrad_of_zero (z : Cx ℝ) (h : Cx.abs2 z = 0) : absGrad z = 0 := by
  unfold absGrad Cx.abs; rw [h, hasSqrt_real, Real.sqrt_zero, if_neg (lt_irrefl _)]

/-- `|cᵢ(t)|` where `cᵢ(0) ≠ 0`, or where the entry vanishes identically along the curve -/
theorem hasDerivAt_abs_curve {c : ℝ → CVec ℝ n} {d : CVec ℝ n} (hc : Tangent c d) (i : Fin n)
    (hx : Cx.abs2 (c 0 i) ≠ 0 ∨ ∀ t, Cx.abs2 (c t i) = 0) :
    HasDerivAt (fun t : ℝ => Cx.abs (c t i))
      ((absGrad (c 0 i)).re * (d i).re - (absGrad (c 0 i)).im * (d i).im) 0 := by
  rcases hx with hne | hz
  · have h := (hasDerivAt_abs2_curve hc i).sqrt hne
    refine HasDerivAt.congr' h (fun _ => rfl) ?_
    rw [absGrad_of_ne _ hne]
    simp only [Cx.divr_re, Cx.divr_im, Cx.conj_re, Cx.conj_im]
    exact (coord_div _ _ _ _ _).symm
  · rw [absGrad_of_zero _ (hz 0)]
    have : (fun t : ℝ => Cx.abs (c t i)) = fun _ => 0 := by
      funext t; unfold Cx.abs; rw [hz t, hasSqrt_real, Real.sqrt_zero]
    rw [this]
    simp only [Cx.zero_re, Cx.zero_im, zero_mul, sub_zero]
    exact hasDerivAt_const _ _

theorem hasDerivAt_l1 {c : ℝ → CVec ℝ n} {d : CVec ℝ n} (hc : Tangent c d)
    (hx : ∀ i, Cx.abs2 (c 0 i) ≠ 0 ∨ ∀ t, Cx.abs2 (c t i) = 0) :
    HasDerivAt (fun t : ℝ => Vec.sum (fun i => Cx.abs (c t i)))
      (reBdot (fun i => absGrad (c 0 i)) d) 0 := by
  simp only [vsum_eq]
  rw [reBdot_eq]
  exact HasDerivAt.fun_sum (fun i _ => hasDerivAt_abs_curve hc i (hx i))

theorem deriv_l1 {c : ℝ → CVec ℝ n} {d : CVec ℝ n} (hc : Tangent c d)
    (hx : ∀ i, Cx.abs2 (c 0 i) ≠ 0 ∨ ∀ t, Cx.abs2 (c t i) = 0) :
    DerivOn (Fn.l1 : Fn ℝ n).eval (Fn.l1 : Fn ℝ n).jaxGrad c d := by
  unfold DerivOn
  simp only [Fn.eval, Fn.jaxGrad]
  exact hasDerivAt_l1 hc hx

theorem deriv_l1ml2 (β : ℝ) {c : ℝ → CVec ℝ n} {d : CVec ℝ n} (hc : Tangent c d)
    (hx : ∀ i, Cx.abs2 (c 0 i) ≠ 0) (hx2 : sumAbs2 (c 0) ≠ 0) :
    DerivOn (Fn.l1ml2 β : Fn ℝ n).eval (Fn.l1ml2 β : Fn ℝ n).jaxGrad c d := by
  unfold DerivOn
  simp only [Fn.eval, Fn.jaxGrad]
  have h := (hasDerivAt_l1 hc (fun i => Or.inl (hx i))).sub ((hasDerivAt_norm2 hc hx2).const_mul β)
  refine HasDerivAt.congr' h (fun _ => rfl) ?_
  rw [← reBdot_l2, reBdot_sub_smul]

theorem deriv_huber_sep (δ : ℝ) (hδ : 0 < δ) {c : ℝ → CVec ℝ n} {d : CVec ℝ n} (hc : Tangent c d) :
    DerivOn (Fn.huber δ true : Fn ℝ n).eval (Fn.huber δ true : Fn ℝ n).jaxGrad c d := by
  unfold DerivOn
  simp only [Fn.eval, Fn.jaxGrad, vsum_eq]
  have hi : ∀ i : Fin n, HasDerivAt (fun t : ℝ => huberOf δ (Cx.abs (c t i)))
      ((if δ < Cx.abs (c 0 i) then δ / (2 * Cx.abs (c 0 i)) else 1 / 2)
        * (2 * ((c 0 i).re * (d i).re + (c 0 i).im * (d i).im))) 0 := fun i =>
    hasDerivAt_huber_comp hδ (hasDerivAt_abs2_curve hc i) (fun t => abs2_nonneg _)
  refine HasDerivAt.congr' (HasDerivAt.fun_sum (fun i _ => hi i)) (fun _ => rfl) ?_
  rw [reBdot_eq]
  refine Finset.sum_congr rfl (fun i _ => ?_)
  by_cases hcd : δ < Cx.abs (c 0 i)
  · simp only [hcd, if_true, Cx.smul_re, Cx.smul_im, Cx.divr_re, Cx.divr_im, Cx.conj_re, Cx.conj_im]
    have hne : Cx.abs (c 0 i) ≠ 0 := (lt_trans hδ hcd).ne'
    field_simp
    ring
  · simp only [hcd, if_false, Cx.conj_re, Cx.conj_im]
    ring

theorem huberNonsepOf_eq (δ s : ℝ) (hs : 0 ≤ s) : huberNonsepOf δ s = huberOf δ (Real.sqrt s) := by
  unfold huberNonsepOf
  rw [huberOf_real, two_eq, hasSqrt_real, Real.mul_self_sqrt hs]

/-- non-separable Huber norm (code after the repair): JAX's rules give the gradient at EVERY point,
    `‖x‖ = δ` and `x = 0` included -/
theorem deriv_huber_nonsep (δ : ℝ) (hδ : 0 < δ) {c : ℝ → CVec ℝ n} {d : CVec ℝ n} (hc : Tangent c d) :
    DerivOn (Fn.huber δ false : Fn ℝ n).eval (Fn.huber δ false : Fn ℝ n).jaxGrad c d := by
  unfold DerivOn
  simp only [Fn.eval, Fn.jaxGrad]
  have h := hasDerivAt_huber_comp hδ (hasDerivAt_sumAbs2 hc) (fun t => sumAbs2_nonneg _)
  refine HasDerivAt.congr' h (fun t => huberNonsepOf_eq δ _ (sumAbs2_nonneg _)) ?_
  rw [reBdot_eq, Finset.mul_sum]
  refine Finset.sum_congr rfl (fun i _ => ?_)
  show (if δ < norm2 (c 0) then δ / (2 * norm2 (c 0)) else 1 / 2) * _ = _
  by_cases hcd : δ < norm2 (c 0)
  · have hn : norm2 (c 0) ≠ 0 := (lt_trans hδ hcd).ne'
    simp only [hcd, if_true, Cx.smul_re, Cx.smul_im, Cx.divr_re, Cx.divr_im, Cx.conj_re, Cx.conj_im]
    field_simp
    ring
  · simp only [hcd, if_false, Cx.conj_re, Cx.conj_im]
    ring

/-- the formula of the code before the repair agrees with it away from the origin -/
theorem huberNonsepOld_eq (δ : ℝ) (x : CVec ℝ n) (hx : sumAbs2 x ≠ 0) :
    huberNonsepOldJaxGrad δ x = (Fn.huber δ false : Fn ℝ n).jaxGrad x := by
  have hn := norm2_ne_zero x hx
  funext i
  simp only [Fn.jaxGrad, huberNonsepOldJaxGrad]
  by_cases hc : δ < norm2 x
  · simp only [hc, if_true]
  · simp only [hc, if_false]
    apply Cx.ext' <;> simp <;> field_simp

theorem l2normGuarded_eq (s : ℝ) (hs : 0 ≤ s) : l2normGuarded s = Real.sqrt s := by
  unfold l2normGuarded
  by_cases h : 0 < s
  · simp [h, hasSqrt_real]
  · have : s = 0 := le_antisymm (not_lt.mp h) hs
    simp [this]

/-- `L21Norm` with the guarded `_l2norm`: every group is either non-zero at `c 0`, or identically
    zero along the curve (then it contributes the constant 0 and the gradient entries are 0) -/
theorem deriv_l21 {k : Nat} (grp : Fin n → Fin k) {c : ℝ → CVec ℝ n} {d : CVec ℝ n} (hc : Tangent c d)
    (hx : ∀ g, groupAbs2 grp (c 0) g ≠ 0 ∨ ∀ t, groupAbs2 grp (c t) g = 0) :
    DerivOn (Fn.l21 k grp : Fn ℝ n).eval (Fn.l21 k grp : Fn ℝ n).jaxGrad c d := by
  unfold DerivOn
  simp only [Fn.eval, Fn.jaxGrad, vsum_eq]
  have hg : ∀ g : Fin k, HasDerivAt (fun t : ℝ => l2normGuarded (groupAbs2 grp (c t) g))
      (if 0 < groupAbs2 grp (c 0) g then
        (∑ i, if grp i = g then 2 * ((c 0 i).re * (d i).re + (c 0 i).im * (d i).im) else 0)
          / (2 * Real.sqrt (groupAbs2 grp (c 0) g)) else 0) 0 := by
    intro g
    rcases hx g with hne | hz
    · have hpos : 0 < groupAbs2 grp (c 0) g := lt_of_le_of_ne (groupAbs2_nonneg _ _ _) (Ne.symm hne)
      rw [if_pos hpos]
      have h := (hasDerivAt_groupAbs2 grp hc g).sqrt hne
      exact HasDerivAt.congr' h (fun t => l2normGuarded_eq _ (groupAbs2_nonneg _ _ _)) rfl
    · rw [if_neg (by rw [hz 0]; exact lt_irrefl _)]
      have : (fun t : ℝ => l2normGuarded (groupAbs2 grp (c t) g)) = fun _ => 0 := by
        funext t; rw [hz t]; simp [l2normGuarded]
      rw [this]
      exact hasDerivAt_const _ _
  refine HasDerivAt.congr' (HasDerivAt.fun_sum (fun g _ => hg g)) (fun _ => rfl) ?_
  rw [reBdot_eq]
  have hsum : ∀ g : Fin k, (if 0 < groupAbs2 grp (c 0) g then
        (∑ i, if grp i = g then 2 * ((c 0 i).re * (d i).re + (c 0 i).im * (d i).im) else 0)
          / (2 * Real.sqrt (groupAbs2 grp (c 0) g)) else 0) =
      ∑ i, if grp i = g then (if 0 < groupAbs2 grp (c 0) g then
        2 * ((c 0 i).re * (d i).re + (c 0 i).im * (d i).im) / (2 * Real.sqrt (groupAbs2 grp (c 0) g))
        else 0) else 0 := by
    intro g
    by_cases hp : 0 < groupAbs2 grp (c 0) g
    · simp only [hp, if_true, Finset.sum_div]
      exact Finset.sum_congr rfl (fun i _ => by split <;> simp)
    · simp [hp]
  simp only [hsum]
  rw [Finset.sum_comm]
  refine Finset.sum_congr rfl (fun i _ => ?_)
  rw [Finset.sum_eq_single (grp i)]
  · simp only [if_true]
    by_cases hp : 0 < groupAbs2 grp (c 0) (grp i)
    · simp only [hp, if_true, Cx.divr_re, Cx.divr_im, Cx.conj_re, Cx.conj_im, hasSqrt_real]
      exact (coord_div _ _ _ _ _).symm
    · simp [hp]
  · intro g _ hne
    simp [Ne.symm hne]
  · intro h; exact absurd (Finset.mem_univ _) h


/-! ### losses with their own `__call__` -/

/-- `Σ wᵢ |yᵢ − zᵢ(t)|²` along a curve `z` with velocity `e` -/
theorem hasDerivAt_wsq {z : ℝ → CVec ℝ m} {e : CVec ℝ m} (hz : Tangent z e) (y : CVec ℝ m) (w : Vec ℝ m) :
    HasDerivAt (fun t : ℝ => ∑ i, w i * Cx.abs2 (y i - z t i))
      (reBdot (fun i => Cx.smul (two * w i) (z 0 i - y i).conj) e) 0 := by
  have hi : ∀ i : Fin m, HasDerivAt (fun t : ℝ => w i * Cx.abs2 (y i - z t i))
      (w i * (2 * ((y i - z 0 i).re * (-(e i)).re + (y i - z 0 i).im * (-(e i)).im))) 0 := by
    intro i
    have h1 : CTangent (fun t => y i - z t i) (-(e i)) :=
      ((CTangent.const (y i)).sub (hz i)).congr (fun _ => rfl) (by apply Cx.ext' <;> simp)
    exact h1.abs2.const_mul (w i)
  refine HasDerivAt.congr' (HasDerivAt.fun_sum (u := Finset.univ) (fun i _ => hi i)) (fun _ => rfl) ?_
  rw [reBdot_eq]
  refine Finset.sum_congr rfl (fun i _ => ?_)
  simp [two_eq]; ring

theorem deriv_sqL2Loss (s : ℝ) (A : Mat ℝ m n) (y : CVec ℝ m) (w : Vec ℝ m) {c : ℝ → CVec ℝ n}
    {d : CVec ℝ n} (hc : Tangent c d) :
    DerivOn (Fn.sqL2Loss s A y w).eval (Fn.sqL2Loss s A y w).jaxGrad c d := by
  unfold DerivOn
  simp only [Fn.eval, Fn.jaxGrad, vsum_eq]
  have h := (hasDerivAt_wsq (tangent_mulVec A hc) y w).const_mul s
  refine HasDerivAt.congr' h (fun _ => rfl) ?_
  rw [reBdot_vsmul_left, reBdot_transpose]

theorem deriv_sqL2SqAbsLoss (s : ℝ) (A : Mat ℝ m n) (y : Vec ℝ m) (w : Vec ℝ m) {c : ℝ → CVec ℝ n}
    {d : CVec ℝ n} (hc : Tangent c d) :
    DerivOn (Fn.sqL2SqAbsLoss s A y w).eval (Fn.sqL2SqAbsLoss s A y w).jaxGrad c d := by
  unfold DerivOn
  simp only [Fn.eval, Fn.jaxGrad, vsum_eq]
  have hA := tangent_mulVec A hc
  have hi : ∀ i : Fin m, HasDerivAt
      (fun t : ℝ => w i * ((y i - Cx.abs2 (mulVec A (c t) i)) * (y i - Cx.abs2 (mulVec A (c t) i))))
      (w i * (2 * (y i - Cx.abs2 (mulVec A (c 0) i)) *
        (-(2 * ((mulVec A (c 0) i).re * (mulVec A d i).re + (mulVec A (c 0) i).im * (mulVec A d i).im))))) 0 := by
    intro i
    have hb := (hA i).abs2.const_sub (y i)
    have hc' := (hb.mul hb).const_mul (w i)
    refine HasDerivAt.congr' hc' (fun _ => rfl) ?_
    ring
  have h := (HasDerivAt.fun_sum (u := Finset.univ) (fun i _ => hi i)).const_mul s
  refine HasDerivAt.congr' h (fun _ => rfl) ?_
  rw [reBdot_vsmul_left, reBdot_transpose, reBdot_eq]
  congr 1
  refine Finset.sum_congr rfl (fun i _ => ?_)
  simp [two_eq]; ring

/-- `SquaredL2AbsLoss`, where no entry of `A x` vanishes -/
theorem deriv_sqL2AbsLoss (s : ℝ) (A : Mat ℝ m n) (y : Vec ℝ m) (w : Vec ℝ m) {c : ℝ → CVec ℝ n}
    {d : CVec ℝ n} (hc : Tangent c d) (hx : ∀ i, Cx.abs2 (mulVec A (c 0) i) ≠ 0) :
    DerivOn (Fn.sqL2AbsLoss s A y w).eval (Fn.sqL2AbsLoss s A y w).jaxGrad c d := by
  unfold DerivOn
  simp only [Fn.eval, Fn.jaxGrad, vsum_eq]
  have hA := tangent_mulVec A hc
  have hi : ∀ i : Fin m, HasDerivAt
      (fun t : ℝ => w i * ((y i - Cx.abs (mulVec A (c t) i)) * (y i - Cx.abs (mulVec A (c t) i))))
      (w i * (2 * (y i - Cx.abs (mulVec A (c 0) i)) *
        (-((2 * ((mulVec A (c 0) i).re * (mulVec A d i).re + (mulVec A (c 0) i).im * (mulVec A d i).im))
            / (2 * Cx.abs (mulVec A (c 0) i)))))) 0 := by
    intro i
    have ha : HasDerivAt (fun t : ℝ => Cx.abs (mulVec A (c t) i))
        ((2 * ((mulVec A (c 0) i).re * (mulVec A d i).re + (mulVec A (c 0) i).im * (mulVec A d i).im))
            / (2 * Cx.abs (mulVec A (c 0) i))) 0 := (hA i).abs2.sqrt (hx i)
    have hb := ha.const_sub (y i)
    have hc' := (hb.mul hb).const_mul (w i)
    refine HasDerivAt.congr' hc' (fun _ => rfl) ?_
    ring
  have h := (HasDerivAt.fun_sum (u := Finset.univ) (fun i _ => hi i)).const_mul s
  refine HasDerivAt.congr' h (fun _ => rfl) ?_
  rw [reBdot_vsmul_left, reBdot_transpose, reBdot_eq]
  congr 1
  refine Finset.sum_congr rfl (fun i _ => ?_)
  have hne : Cx.abs (mulVec A (c 0) i) ≠ 0 := by
    unfold Cx.abs; rw [hasSqrt_real]
    exact (Real.sqrt_ne_zero (abs2_nonneg _)).mpr (hx i)
  simp only [Cx.smul_re, Cx.smul_im, Cx.divr_re, Cx.divr_im, Cx.conj_re, Cx.conj_im, two_eq]
  field_simp
  ring

/-- `PoissonLoss`, where every entry of `A x` is positive -/
theorem deriv_poisson (s : ℝ) (A : Mat ℝ m n) (y cst : Vec ℝ m) {c : ℝ → CVec ℝ n}
    {d : CVec ℝ n} (hc : Tangent c d) (hx : ∀ i, 0 < (mulVec A (c 0) i).re) :
    DerivOn (Fn.poisson s A y cst).eval (Fn.poisson s A y cst).jaxGrad c d := by
  unfold DerivOn
  simp only [Fn.eval, Fn.jaxGrad, vsum_eq, hasLog_real]
  have hA := tangent_mulVec A hc
  have hi : ∀ i : Fin m, HasDerivAt
      (fun t : ℝ => (mulVec A (c t) i).re - y i * Real.log (mulVec A (c t) i).re + cst i)
      ((mulVec A d i).re - y i * ((mulVec A d i).re / (mulVec A (c 0) i).re)) 0 := by
    intro i
    have hr := (hA i).1
    have hl := (hr.log (hx i).ne').const_mul (y i)
    exact (hr.sub hl).add_const (cst i)
  have h := (HasDerivAt.fun_sum (u := Finset.univ) (fun i _ => hi i)).const_mul s
  refine HasDerivAt.congr' h (fun _ => rfl) ?_
  rw [reBdot_vsmul_left, reBdot_transpose, reBdot_eq]
  congr 1
  refine Finset.sum_congr rfl (fun i _ => ?_)
  have hne : (mulVec A (c 0) i).re ≠ 0 := (hx i).ne'
  simp only [Cx.ofReal_re, Cx.ofReal_im]
  field_simp
  ring

/-! ### the operator family: transposition contract of `Op.vjpT` -/

/-- `Op.vjpT` is the transpose of `Op.jvp` for the pairing `Re Σ aᵢ bᵢ` — JAX's `vjp` contract, here a
    theorem about the transcribed formulas -/
theorem op_vjpT_transpose (F : Op ℝ n m) (u : CVec ℝ n) (cc : CVec ℝ m) (d : CVec ℝ n) :
    reBdot (F.vjpT u cc) d = reBdot cc (F.jvp u d) := by
  have h1 := reBdot_transpose F.A cc d
  have h2 := reBdot_transpose F.B cc (conjVec d)
  have h3 := reBdot_transpose F.C (fun i => (mulVec F.C u i + mulVec F.C u i) * cc i) d
  rw [reBdot_eq] at h1 h2 h3 ⊢
  rw [reBdot_eq] at h1 h2 h3 ⊢
  have e1 : ∑ i, ((F.vjpT u cc i).re * (d i).re - (F.vjpT u cc i).im * (d i).im) =
      ∑ i, ((mulVec (transpose F.A) cc i).re * (d i).re - (mulVec (transpose F.A) cc i).im * (d i).im)
      + ∑ i, ((mulVec (transpose F.B) cc i).re * (conjVec d i).re - (mulVec (transpose F.B) cc i).im * (conjVec d i).im)
      + ∑ i, ((mulVec (transpose F.C) (fun i => (mulVec F.C u i + mulVec F.C u i) * cc i) i).re * (d i).re
              - (mulVec (transpose F.C) (fun i => (mulVec F.C u i + mulVec F.C u i) * cc i) i).im * (d i).im) := by
    rw [← Finset.sum_add_distrib, ← Finset.sum_add_distrib]
    refine Finset.sum_congr rfl (fun i _ => ?_)
    simp [Op.vjpT, conjVec]; ring
  rw [e1, h1, h2, h3, ← Finset.sum_add_distrib, ← Finset.sum_add_distrib]
  refine Finset.sum_congr rfl (fun i _ => ?_)
  simp [Op.jvp]; ring

/-! ### combinators -/

theorem hasDeriv_scaled (a : ℝ) {f : ℝ → ℝ} {jg d : CVec ℝ n} (h : HasDerivAt f (reBdot jg d) 0) :
    HasDerivAt (fun t => a * f t) (reBdot (vsmul a jg) d) 0 := by
  rw [reBdot_vsmul_left]
  exact h.const_mul a

/-! ### the induction -/

/-- **Every** functional expression, along **every** curve on which it is smooth: JAX's rules
    (`Fn.jaxGrad` at `c 0`) give the derivative of `t ↦ f(c t)` at `0`. -/
theorem Fn.derivOn : ∀ {n : Nat} (f : Fn ℝ n) (c : ℝ → CVec ℝ n) (d : CVec ℝ n), Tangent c d →
    f.SmoothOn c → DerivOn f.eval f.jaxGrad c d := by
  intro n f
  induction f with
  | zero => intro c d _ _; exact deriv_zero
  | sqL2 => intro c d hc _; exact deriv_sqL2 hc
  | l2 => intro c d hc h; exact deriv_l2 hc h
  | l1 => intro c d hc h; exact deriv_l1 hc h
  | huber δ sep =>
    intro c d hc h
    cases sep with
    | true => exact deriv_huber_sep δ h hc
    | false => exact deriv_huber_nonsep δ h hc
  | l1ml2 β => intro c d hc h; exact deriv_l1ml2 β hc h.1 h.2
  | l21 k grp => intro c d hc h; exact deriv_l21 grp hc h
  | scaled a f ih =>
    intro c d hc h
    exact hasDeriv_scaled a (ih c d hc h)
  | add f g ihf ihg =>
    intro c d hc h
    unfold DerivOn
    simp only [Fn.eval, Fn.jaxGrad]
    rw [reBdot_vadd_left]
    exact (ihf c d hc h.1).add (ihg c d hc h.2)
  | sep f g ihf ihg =>
    intro c d hc h
    unfold DerivOn
    simp only [Fn.eval, Fn.jaxGrad]
    rw [reBdot_split, vleft_vappend, vright_vappend]
    exact (ihf _ _ (tangent_vleft hc) h.1).add (ihg _ _ (tangent_vright hc) h.2)
  | loss s A y f ih =>
    intro c d hc h
    unfold DerivOn
    simp only [Fn.eval, Fn.jaxGrad]
    rw [reBdot_vsmul_left, reBdot_transpose]
    exact (ih _ _ (tangent_vsub_const (tangent_mulVec A hc) y) h).const_mul s
  | sqL2Loss s A y w => intro c d hc _; exact deriv_sqL2Loss s A y w hc
  | sqL2SqAbsLoss s A y w => intro c d hc _; exact deriv_sqL2SqAbsLoss s A y w hc
  | sqL2AbsLoss s A y w => intro c d hc h; exact deriv_sqL2AbsLoss s A y w hc h
  | poisson s A y cst => intro c d hc h; exact deriv_poisson s A y cst hc h
  | lossOp s F y f ih =>
    intro c d hc h
    unfold DerivOn
    simp only [Fn.eval, Fn.jaxGrad]
    rw [reBdot_vsmul_left, op_vjpT_transpose]
    exact (ih _ _ (tangent_vsub_const (tangent_op F hc) y) h).const_mul s
  | sqL2LossOp s F y w =>
    intro c d hc _
    unfold DerivOn
    simp only [Fn.eval, Fn.jaxGrad, vsum_eq]
    rw [reBdot_vsmul_left, op_vjpT_transpose]
    exact (hasDerivAt_wsq (tangent_op F hc) y w).const_mul s

/-- on the pointwise smoothness domain: the contract along every curve through `x` -/
theorem Fn.curveContract {n : Nat} (f : Fn ℝ n) (x : CVec ℝ n) (h : f.Smooth x) :
    CurveContract f.eval x (f.jaxGrad x) := by
  intro c d h0 hc
  have := f.derivOn c d hc (f.smoothOn_of_smooth c (by rw [h0]; exact h))
  unfold DerivOn at this
  rwa [h0] at this

/-- **Every** functional expression: JAX's rules satisfy JAX's contract on the smoothness domain. -/
theorem Fn.jaxContract {n : Nat} (f : Fn ℝ n) (x : CVec ℝ n) (h : f.Smooth x) :
    JaxContract f.eval x (f.jaxGrad x) :=
  (f.curveContract x h).jaxContract

/-- hence `f.grad(x)` is the gradient in the sense of C07 -/
theorem Fn.isGradAt {n : Nat} (f : Fn ℝ n) (x : CVec ℝ n) (h : f.Smooth x) :
    IsGradAt f.eval x (f.grad x) :=
  conj_grad f.eval x (f.jaxGrad x) (f.jaxContract x h)

/-- and along every differentiable curve through `x` -/
theorem Fn.isCurveGradAt {n : Nat} (f : Fn ℝ n) (x : CVec ℝ n) (h : f.Smooth x) :
    IsCurveGradAt f.eval x (f.grad x) :=
  conj_grad_curve f.eval x (f.jaxGrad x) (f.curveContract x h)

/-- smooth along every *line* through `x` (weaker than `Smooth x`: structural zero groups allowed) -/
def Fn.SmoothLines {n : Nat} (f : Fn ℝ n) (x : CVec ℝ n) : Prop :=
  ∀ d : CVec ℝ n, f.SmoothOn (fun t => along x d t)

theorem Fn.isGradAt_of_lines {n : Nat} (f : Fn ℝ n) (x : CVec ℝ n) (h : f.SmoothLines x) :
    IsGradAt f.eval x (f.grad x) := by
  intro d
  have := f.derivOn (fun t => along x d t) d (tangent_along x d) (h d)
  unfold DerivOn at this
  simp only [along_zero] at this
  unfold Fn.grad scicoGrad
  rw [reInner_conjVec]
  exact this

/-! ### block arguments: the blocks of the gradient are the partial gradients -/

theorem isGradAt_left (f : CVec ℝ (n + k) → ℝ) (x g : CVec ℝ (n + k)) (h : IsGradAt f x g) :
    IsGradAt (fun u => f (vappend u (vright x))) (vleft x) (vleft g) := by
  intro d
  have h1 := h (vappend d (fun _ => 0))
  have e1 : reInner g (vappend d (fun _ => 0)) = reInner (vleft g) d := by
    rw [reInner_split, vleft_vappend, vright_vappend]
    have : reInner (vright g) (fun _ => (0 : Cx ℝ)) = 0 := by rw [reInner_eq]; simp
    rw [this, add_zero]
  rw [e1] at h1
  refine HasDerivAt.congr' h1 (fun t => ?_) rfl
  have e : along x (vappend d fun _ => 0) t = vappend (along (vleft x) d t) (vright x) := by
    conv_lhs => rw [← vappend_left_right (along x (vappend d fun _ => 0) t)]
    congr 1
    · rw [along_vleft, vleft_vappend]
    · rw [along_vright, vright_vappend]
      funext i
      apply Cx.ext' <;> simp [along]
  rw [e]

theorem isGradAt_right (f : CVec ℝ (n + k) → ℝ) (x g : CVec ℝ (n + k)) (h : IsGradAt f x g) :
    IsGradAt (fun u => f (vappend (vleft x) u)) (vright x) (vright g) := by
  intro d
  have h1 := h (vappend (fun _ => 0) d)
  have e1 : reInner g (vappend (fun _ => 0) d) = reInner (vright g) d := by
    rw [reInner_split, vleft_vappend, vright_vappend]
    have : reInner (vleft g) (fun _ => (0 : Cx ℝ)) = 0 := by rw [reInner_eq]; simp
    rw [this, zero_add]
  rw [e1] at h1
  refine HasDerivAt.congr' h1 (fun t => ?_) rfl
  have e : along x (vappend (fun _ => 0) d) t = vappend (vleft x) (along (vright x) d t) := by
    conv_lhs => rw [← vappend_left_right (along x (vappend (fun _ => 0) d) t)]
    congr 1
    · rw [along_vleft, vleft_vappend]
      funext i
      apply Cx.ext' <;> simp [along]
    · rw [along_vright, vright_vappend]
  rw [e]

/-! ### real argument, complex operators -/

theorem reInner_realPart_conj (jg d : CVec ℝ n) (hd : ∀ i, (d i).im = 0) :
    reInner (scicoGrad (realPart jg)) d = reBdot jg d := by
  unfold scicoGrad
  rw [reInner_conjVec, reBdot_eq, reBdot_eq]
  refine Finset.sum_congr rfl (fun i _ => ?_)
  simp [realPart, hd i]

/-- for a real argument only real directions exist; the real part of the gradient is then the gradient -/
theorem Fn.isGradAt_realArg {n : Nat} (f : Fn ℝ n) (x : CVec ℝ n) (h : f.Smooth x) (d : CVec ℝ n)
    (hd : ∀ i, (d i).im = 0) :
    HasDerivAt (fun t : ℝ => f.eval (along x d t)) (reInner (f.gradRealArg x) d) 0 := by
  unfold Fn.gradRealArg
  rw [reInner_realPart_conj _ _ hd]
  exact f.jaxContract x h d

/-! ### uniqueness of the gradient -/

/-- unit direction `z·eᵢ` -/
def single (i : Fin n) (z : Cx ℝ) : CVec ℝ n := fun j => if j = i then z else 0

theorem reInner_single (g : CVec ℝ n) (i : Fin n) (z : Cx ℝ) :
    reInner g (single i z) = (g i).re * z.re + (g i).im * z.im := by
  rw [reInner_eq, Finset.sum_eq_single i]
  · simp [single]
  · intro j _ hj
    simp [single, hj]
  · intro h; exact absurd (Finset.mem_univ _) h

/-- the gradient in the sense of C07 is unique: `Re⟪g,d⟫ = Re⟪g',d⟫` for all `d` forces `g = g'` -/
theorem isGradAt_unique (f : CVec ℝ n → ℝ) (x g g' : CVec ℝ n) (h : IsGradAt f x g) (h' : IsGradAt f x g') :
    g = g' := by
  have key : ∀ d, reInner g d = reInner g' d := fun d => (h d).unique (h' d)
  funext i
  have h1 := key (single i ⟨1, 0⟩)
  have h2 := key (single i ⟨0, 1⟩)
  rw [reInner_single, reInner_single] at h1 h2
  simp at h1 h2
  exact Cx.ext' h1 h2


/-! ### second derivative of the squared-l2 loss along a line -/

theorem sqL2Loss_along (s : ℝ) (A : Mat ℝ m n) (y : CVec ℝ m) (w : Vec ℝ m) (x d : CVec ℝ n) (t : ℝ) :
    (Fn.sqL2Loss s A y w).eval (along x d t) =
      (Fn.sqL2Loss s A y w).eval x + t * reInner ((Fn.sqL2Loss s A y w).grad x) d
        + t ^ 2 * ((1 / 2) * reInner (hessianApply s A w d) d) := by
  have h : along x d t = vadd x (vsmul t d) := rfl
  rw [h, sqL2Loss_expansion]
  have h2 : hessianApply s A w (vsmul t d) = vsmul t (hessianApply s A w d) := by
    unfold hessianApply
    rw [mulVec_vsmul]
    have : (fun i => Cx.smul (w i) (vsmul t (mulVec A d) i)) =
        vsmul t (fun i => Cx.smul (w i) (mulVec A d i)) := by
      funext i; apply Cx.ext' <;> simp [vsmul] <;> ring
    rw [this, mulVec_vsmul]
    funext i; apply Cx.ext' <;> simp [vsmul] <;> ring
  rw [h2, reInner_vsmul_left]
  have h3 : ∀ g : CVec ℝ n, reInner g (vsmul t d) = t * reInner g d := by
    intro g; rw [reInner_comm, reInner_vsmul_left, reInner_comm]
  rw [h3, h3]
  ring

end Scico.Autograd
