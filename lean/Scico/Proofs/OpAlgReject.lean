/-
  Rejection: which combinations scico refuses (repaired tree).
-/
import Scico.Proofs.OpAlgMain

namespace Scico.OpAlg
open Scico.DType
attribute [local instance] starConj
set_option linter.unusedSectionVars false

section
variable {K : Type} [Field K] [StarRing K] [HasRe K]

/-- a factor that is not scalar-equivalent is rejected by every class, with `TypeError` except for
    `MatrixOperator` and an array factor (shape comparison: `ValueError`) -/
theorem smul_reject_nonscalar (cfg : Cfg) (a : Obj K) (c : Scal K)
    (hc : c.kind.isScalarEquiv = false) :
    smul cfg a c = .error .type ∨ (a.cls = .matrix ∧ c.kind = .arr ∧ smul cfg a c = .error .shape) := by
  have hk : c.kind = .arr ∨ c.kind = .str := by
    cases hkk : c.kind <;> simp_all [ScalKind.isScalarEquiv]
  unfold smul
  by_cases hm : a.cls = .matrix
  · simp only [hm, Cls.arith, matMulS]
    rcases hk with hk | hk
    · right; simp [hk, ScalKind.npIsScalar, ScalKind.isArray]
    · left; simp [hk]
  · left
    cases hcl : a.cls <;> simp_all [Cls.arith, opMul, linMul, diagMul, sidMul]

theorem sdiv_reject_nonscalar (cfg : Cfg) (a : Obj K) (c : Scal K)
    (hc : c.kind.isScalarEquiv = false) :
    sdiv cfg a c = .error .type ∨ (a.cls = .matrix ∧ c.kind = .arr ∧ sdiv cfg a c = .error .shape) := by
  have hk : c.kind = .arr ∨ c.kind = .str := by
    cases hkk : c.kind <;> simp_all [ScalKind.isScalarEquiv]
  unfold sdiv
  by_cases hm : a.cls = .matrix
  · simp only [hm, Cls.arith, matDivS]
    rcases hk with hk | hk
    · right; simp [hk, ScalKind.npIsScalar, ScalKind.isArray]
    · left; simp [hk]
  · left
    cases hcl : a.cls <;> simp_all [Cls.arith, opDiv, linDiv, diagDiv, sidDiv]

/-- a scalar-equivalent factor is accepted by every `LinearOperator` class other than
    `MatrixOperator` (which requires `numpy.isscalar`) -/
theorem smul_accepts_scalar (a : Obj K) (c : Scal K) (hc : c.kind.isScalarEquiv = true)
    (hcls : a.cls = .linop ∨ a.cls = .composed ∨ a.cls = .op ∨ a.cls = .scaledId ∨ a.cls = .ident) :
    ∃ o, smul Cfg.fixed a c = .ok o := by
  unfold smul
  rcases hcls with h | h | h | h | h <;>
    simp [h, Cls.arith, linMul, opMul, sidMul, hc]

/-- `a + b` / `a - b` succeeds only for operators of the same shape -/
theorem addSub_ok_sameShape (sub : Bool) {a b o : Obj K} {Da Db : Mx K} (ha : Sound a Da)
    (hb : Sound b Db) (h : addSub Cfg.fixed sub a b = .ok o) :
    a.md.inShape = b.md.inShape ∧ a.md.outShape = b.md.outShape := by
  unfold addSub at h
  split at h
  · rename_i hpri
    simp only [Bool.and_eq_true, Bool.or_eq_true, decide_eq_true_eq] at hpri
    have hcb : b.md.cls = .matrix := hpri.1
    have hacls : a.md.cls ≠ .matrix := by
      rcases hpri.2 with h' | h' <;> simp [Obj.cls] at h' <;> simp [h']
    obtain ⟨_, hbi, hbo, _⟩ := mat_payload hb hcb
    split at h
    · unfold matAddSub at h
      simp only [hacls, if_false] at h
      split at h
      · cases h
      · rename_i hs
        have hs' : (matNeg b).sameShape a = true := by simpa using hs
        obtain ⟨h1, h2⟩ := sameShape_iff hs'
        constructor
        · rw [← h1, hbi]; rfl
        · rw [← h2, hbo]; rfl
    · unfold matAddSub at h
      simp only [hacls, if_false] at h
      split at h
      · cases h
      · rename_i hs
        have hs' : b.sameShape a = true := by simpa using hs
        obtain ⟨h1, h2⟩ := sameShape_iff hs'
        exact ⟨h1.symm, h2.symm⟩
  · split at h
    · rename_i hop; exact absurd hop ha.lin
    · unfold matAddSub at h
      split at h
      · split at h
        · rename_i hs; exact sameShape_iff hs
        · cases h
      · split at h
        · cases h
        · rename_i hs; exact sameShape_iff (by simpa using hs)
    · unfold wrapAddSub at h
      split at h
      · cases h
      · rename_i hs; exact sameShape_iff (by simpa using hs)

/-- `a(b)` succeeds only when `b`'s output shape is `a`'s input shape -/
theorem call_ok_conform {a b o : Obj K} {Da Db : Mx K} (ha : Sound a Da) (hb : Sound b Db)
    (h : call Cfg.fixed a b = .ok o) : a.md.inShape = b.md.outShape := by
  unfold call at h
  split at h
  · rename_i hop; exact absurd hop ha.lin
  · unfold matCall at h
    have hbl : b.md.cls.isLinop = true := hb.isLinop
    rw [if_pos hbl] at h
    split at h
    · rename_i hsh; exact hsh
    · cases h
  · unfold linCall at h
    rw [if_pos hb.isLinop] at h
    unfold linComp at h
    split at h
    · cases h
    · rename_i hsh; simpa using hsh

/-- … and, for two generic `LinearOperator`s, exactly when moreover the dtypes chain -/
theorem linComp_ok_iff (a b : Obj K) :
    (∃ o, linComp a b = .ok o) ↔ (a.md.inShape = b.md.outShape ∧ a.md.inDt = b.md.outDt) := by
  unfold linComp
  by_cases h1 : a.md.inShape = b.md.outShape
  · by_cases h2 : a.md.inDt = b.md.outDt
    · simp [h1, h2]
    · simp [h1, h2]
  · simp [h1]

/-- two generic `LinearOperator`s of equal shape can always be added -/
theorem addSub_accepts_generic (sub : Bool) (a b : Obj K)
    (hca : a.cls = .linop ∨ a.cls = .composed) (hcb : b.cls = .linop ∨ b.cls = .composed)
    (hs : a.sameShape b = true) : addSub Cfg.fixed sub a b = .ok (linAddSub sub a b) := by
  unfold addSub wrapAddSub addSubOf
  rcases hca with h1 | h1 <;> rcases hcb with h2 | h2 <;>
    simp [h1, h2, hs, Cls.isSub, Cls.arith, Cls.isLinop]

/-- unpacking of `infer e = ok m` -/
theorem of_infer {e : LExpr K} {m : Meta} (hm : infer e = .ok m) :
    ∃ o, build e = .ok o ∧ o.md = m ∧ run e = o.impl := by
  unfold infer inferC at hm
  unfold run runC build
  cases hb : buildC Cfg.fixed e with
  | error k => simp [hb, Except.map] at hm
  | ok o =>
    simp only [hb, Except.map] at hm
    injection hm with hm
    exact ⟨o, rfl, hm, rfl⟩



/-! ### plain (non-linear) `Operator`s: the generic closures are the pointwise construction -/

/-- `Operator.__add__/__sub__`: the generic closure is the pointwise sum / difference -/
theorem opAddSub_pointwise (sub : Bool) {a b o : Obj K} (h : opAddSub sub a b = .ok o) (x : Vc K) (i : Nat) :
    o.md.cls = .op ∧ o.md.inShape = a.md.inShape ∧ o.md.outShape = a.md.outShape
    ∧ (o.eval x).get i = if i < a.m then pm sub ((a.eval x).get i) ((b.eval x).get i) else 0 := by
  unfold opAddSub at h
  split at h
  · injection h with h; subst h
    exact ⟨rfl, rfl, rfl, rfl⟩
  · cases h

/-- `Operator.__mul__/__rmul__/__truediv__`: pointwise scalar multiple -/
theorem opMul_pointwise {a o : Obj K} (c : Scal K) (h : opMul a c = .ok o) (x : Vc K) (i : Nat) :
    (o.eval x).get i = if i < a.m then c.val * (a.eval x).get i else 0 := by
  unfold opMul at h
  split at h
  · injection h with h; subst h; rfl
  · cases h

theorem opDiv_pointwise {a o : Obj K} (c : Scal K) (h : opDiv a c = .ok o) (x : Vc K) (i : Nat) :
    (o.eval x).get i = if i < a.m then (a.eval x).get i / c.val else 0 := by
  unfold opDiv at h
  split at h
  · injection h with h; subst h; rfl
  · cases h

/-- `Operator.__call__(Operator)`: composition of the closures -/
theorem opComp_pointwise (cfg : Cfg) {a b o : Obj K} (h : opComp cfg a b = .ok o) (x : Vc K) :
    o.eval x = a.eval (b.eval x) ∧ a.md.inShape = b.md.outShape := by
  unfold opComp at h
  split at h
  · rename_i hs
    injection h with h; subst h
    exact ⟨rfl, hs⟩
  · cases h

/-- whenever the right operand is a plain (non-linear) `Operator`, `+`/`-` dispatch to
    `Operator.__add__/__sub__`, whatever the class of the left operand -/
theorem addSub_with_operator (sub : Bool) (a b : Obj K) (hb : b.cls = .op) :
    addSub Cfg.fixed sub a b = (if a.sameShape b then opAddSub sub a b else .error .shape) := by
  have hb' : b.md.cls = .op := hb
  unfold addSub
  simp only [hb, Bool.false_and, Bool.false_eq_true, if_false, decide_eq_false_iff_not]
  have hne : ¬ (Cls.op = Cls.matrix) := by decide
  simp only [show (decide (Cls.op = Cls.matrix)) = false from by decide, Bool.false_and, Bool.false_eq_true, if_false]
  by_cases hs : a.sameShape b = true
  · cases hca : a.cls <;>
      simp [hca, hs, matAddSub, wrapAddSub, addSubOf, opAddSub, hb, hb', Cls.isSub, Cls.arith, Cls.isLinop,
        show a.md.cls = _ from hca]
  · have hs' : a.sameShape b = false := by simpa using hs
    cases hca : a.cls <;>
      simp [hca, hs', matAddSub, wrapAddSub, opAddSub, hb, hb', Cls.isLinop, show a.md.cls = _ from hca]

end
end Scico.OpAlg
