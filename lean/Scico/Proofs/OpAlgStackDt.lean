/-
  Dtype soundness of the stacks: since the constructors check that all operands declare the same
  input and output dtypes (repo commit d500f6a), a stack of dtype-sound operands is dtype-sound with
  no further hypothesis; and a stack of operands with different declared dtypes is rejected.
-/
import Scico.Proofs.OpAlgDt

namespace Scico.OpAlg
open Scico.DType
set_option linter.unusedSectionVars false

section
variable {α : Type} [Add α] [Sub α] [Mul α] [Div α] [Neg α] [Zero α] [One α] [HasConj α] [HasRe α]

theorem joinDts_const (stacked : Bool) (d : DT) :
    ∀ (l : List (Except Err DT)), l ≠ [] → (∀ r ∈ l, r = .ok d) → joinDts stacked l = .ok d := by
  intro l
  induction l with
  | nil => intro h; exact absurd rfl h
  | cons r rest ih =>
    intro _ hall
    have hr : r = .ok d := hall r (by simp)
    cases rest with
    | nil => simp [joinDts, hr]
    | cons r2 rest2 =>
      have := ih (by simp) (fun r' hr' => hall r' (by simp [hr']))
      rw [joinDts]
      · rw [hr, this]
        cases stacked
        · simp [bind, Except.bind, pure, Except.pure]
        · simp [bind, Except.bind, pure, Except.pure, rt_idem]
      · intro h'; cases h'

theorem sumDts_const (d : DT) :
    ∀ (l : List (Except Err DT)), l ≠ [] → (∀ r ∈ l, r = .ok d) → sumDts l = .ok d := by
  intro l
  induction l with
  | nil => intro h; exact absurd rfl h
  | cons r rest ih =>
    intro _ hall
    have hr : r = .ok d := hall r (by simp)
    cases rest with
    | nil => simp [sumDts, hr]
    | cons r2 rest2 =>
      have := ih (by simp) (fun r' hr' => hall r' (by simp [hr']))
      rw [sumDts]
      · rw [hr, this]
        simp [bind, Except.bind, pure, Except.pure, rt_idem]
      · intro h'; cases h'

theorem all_of_not_not {β : Type} {l : List β} {p : β → Bool} (h : ¬ ((!l.all p) = true)) :
    ∀ x ∈ l, p x = true := by
  have : l.all p = true := by simpa using h
  exact fun x hx => List.all_eq_true.mp this x hx

theorem any_false' {β : Type} {l : List β} {p : β → Bool} (h : ¬ (l.any p = true)) :
    ∀ x ∈ l, p x = false := by
  intro x hx
  cases hp : p x with
  | false => rfl
  | true => exact absurd (List.any_eq_true.mpr ⟨x, hx, hp⟩) h

/-- `VerticalStack` of dtype-sound operands is dtype-sound -/
theorem vstack_dt {ops : List (Obj α)} {o : Obj α} (lin collapse : Bool)
    (hd : ∀ o' ∈ ops, DtOk o') (hb : vstack lin ops collapse = .ok o) : DtOk o := by
  unfold vstack at hb
  cases ops with
  | nil => cases hb
  | cons o0 os =>
    simp only at hb
    split at hb
    · cases hb
    · rename_i hty
      split at hb
      · cases hb
      · split at hb
        · cases hb
        · rename_i hind
          split at hb
          · cases hb
          · split at hb
            · cases hb
            · rename_i houtd
              have hin : ∀ o' ∈ o0 :: os, o'.md.inDt = o0.md.inDt := fun o' ho' => by
                simpa using all_of_not_not hind o' ho'
              have hout : ∀ o' ∈ o0 :: os, o'.md.outDt = o0.md.outDt := fun o' ho' => by
                simpa using all_of_not_not houtd o' ho'
              have hev : ∀ st, joinDts st ((o0 :: os).map (fun o => o.evalDt o0.md.inDt)) = .ok o0.md.outDt := by
                intro st
                apply joinDts_const st _ _ (by simp)
                intro r hr
                obtain ⟨o', ho', rfl⟩ := List.mem_map.mp hr
                rw [← hin o' ho', (hd o' ho').ev, hout o' ho']
              split at hb
              · rename_i hl
                injection hb with hb; subst hb
                refine DtOk.of (hev _) ?_ (by intro h; cases h)
                show sumDts ((o0 :: os).map (fun o => o.adjCallDt o0.md.outDt)) = .ok o0.md.inDt
                apply sumDts_const _ _ (by simp)
                intro r hr
                obtain ⟨o', ho', rfl⟩ := List.mem_map.mp hr
                have hlin : o'.md.cls ≠ .op := by
                  have hty' : ¬ ((o0 :: os).any (fun o => decide (o.md.cls = .op)) = true) := by
                    intro h'; apply hty; simp [hl, h']
                  have := any_false' hty' o' ho'
                  simpa using this
                rw [← hout o' ho', (hd o' ho').ad hlin, hin o' ho']
              · injection hb with hb; subst hb
                exact DtOk.ofOp (hev _) rfl

/-- `DiagonalStack` of dtype-sound operands is dtype-sound -/
theorem dstack_dt {ops : List (Obj α)} {o : Obj α} (lin cIn cOut : Bool)
    (hd : ∀ o' ∈ ops, DtOk o') (hb : dstack lin ops cIn cOut = .ok o) : DtOk o := by
  unfold dstack at hb
  cases ops with
  | nil => cases hb
  | cons o0 os =>
    simp only at hb
    split at hb
    · cases hb
    · rename_i hty
      split at hb
      · cases hb
      · split at hb
        · cases hb
        · rename_i hind
          split at hb
          · cases hb
          · rename_i houtd
            have hin : ∀ o' ∈ o0 :: os, o'.md.inDt = o0.md.inDt := fun o' ho' => by
              simpa using all_of_not_not hind o' ho'
            have hout : ∀ o' ∈ o0 :: os, o'.md.outDt = o0.md.outDt := fun o' ho' => by
              simpa using all_of_not_not houtd o' ho'
            have hev : ∀ st, joinDts st ((o0 :: os).map (fun o => o.evalDt o0.md.inDt)) = .ok o0.md.outDt := by
              intro st
              apply joinDts_const st _ _ (by simp)
              intro r hr
              obtain ⟨o', ho', rfl⟩ := List.mem_map.mp hr
              rw [← hin o' ho', (hd o' ho').ev, hout o' ho']
            split at hb
            · cases hb
            · split at hb
              · cases hb
              · split at hb
                · rename_i hl
                  injection hb with hb; subst hb
                  refine DtOk.of (hev _) ?_ (by intro h; cases h)
                  rename_i cI _ _ _ _ _
                  show joinDts _ ((o0 :: os).map (fun o => o.adjCallDt o0.md.outDt)) = .ok o0.md.inDt
                  apply joinDts_const _ _ _ (by simp)
                  intro r hr
                  obtain ⟨o', ho', rfl⟩ := List.mem_map.mp hr
                  have hlin : o'.md.cls ≠ .op := by
                    have hty' : ¬ ((o0 :: os).any (fun o => decide (o.md.cls = .op)) = true) := by
                      intro h'; apply hty; simp [hl, h']
                    have := any_false' hty' o' ho'
                    simpa using this
                  rw [← hout o' ho', (hd o' ho').ad hlin, hin o' ho']
                · injection hb with hb; subst hb
                  exact DtOk.ofOp (hev _) rfl

/-- operands that declare different dtypes cannot be stacked (either stack, collapsed or not) -/
theorem stack_reject_mixed_dtypes (lin : Bool) (ops : List (Obj α)) (a b : Obj α) (ha : a ∈ ops)
    (hb : b ∈ ops) (hne : a.md.inDt ≠ b.md.inDt ∨ a.md.outDt ≠ b.md.outDt) (c1 c2 : Bool) :
    (∃ k, vstack lin ops c1 = .error k) ∧ (∃ k, dstack lin ops c1 c2 = .error k) := by
  constructor
  · cases hv : vstack lin ops c1 with
    | error k => exact ⟨k, rfl⟩
    | ok o =>
      exfalso
      unfold vstack at hv
      cases ops with
      | nil => cases ha
      | cons o0 os =>
        simp only at hv
        split at hv
        · cases hv
        · split at hv
          · cases hv
          · split at hv
            · cases hv
            · rename_i hind
              split at hv
              · cases hv
              · split at hv
                · cases hv
                · rename_i houtd
                  have hin : ∀ o' ∈ o0 :: os, o'.md.inDt = o0.md.inDt := fun o' ho' => by
                    simpa using all_of_not_not hind o' ho'
                  have hout : ∀ o' ∈ o0 :: os, o'.md.outDt = o0.md.outDt := fun o' ho' => by
                    simpa using all_of_not_not houtd o' ho'
                  rcases hne with h' | h'
                  · exact h' ((hin a ha).trans (hin b hb).symm)
                  · exact h' ((hout a ha).trans (hout b hb).symm)
  · cases hv : dstack lin ops c1 c2 with
    | error k => exact ⟨k, rfl⟩
    | ok o =>
      exfalso
      unfold dstack at hv
      cases ops with
      | nil => cases ha
      | cons o0 os =>
        simp only at hv
        split at hv
        · cases hv
        · split at hv
          · cases hv
          · split at hv
            · cases hv
            · rename_i hind
              split at hv
              · cases hv
              · rename_i houtd
                have hin : ∀ o' ∈ o0 :: os, o'.md.inDt = o0.md.inDt := fun o' ho' => by
                  simpa using all_of_not_not hind o' ho'
                have hout : ∀ o' ∈ o0 :: os, o'.md.outDt = o0.md.outDt := fun o' ho' => by
                  simpa using all_of_not_not houtd o' ho'
                rcases hne with h' | h'
                · exact h' ((hin a ha).trans (hin b hb).symm)
                · exact h' ((hout a ha).trans (hout b hb).symm)

theorem buildAll_dt : ∀ (es : List (LExpr α)) (os : List (Obj α)), (∀ e ∈ es, DtAgrees e) →
    buildAll Cfg.fixed es = .ok os → ∀ o' ∈ os, DtOk o' := by
  intro es
  induction es with
  | nil =>
    intro os _ h o' ho'
    simp only [buildAll] at h
    injection h with h; subst h; cases ho'
  | cons e es ih =>
    intro os hg h
    simp only [buildAll] at h
    obtain ⟨o, ho, h⟩ := bind_ok' h
    obtain ⟨os', hos, h⟩ := bind_ok' h
    simp only [pure, Except.pure] at h
    injection h with h; subst h
    intro o' ho'
    rcases List.mem_cons.mp ho' with h' | h'
    · subst h'; exact build_dt e _ (hg e (by simp)) ho
    · exact ih os' (fun e' he' => hg e' (by simp [he'])) hos o' h'

/-- stacks of expressions: dtype-sound whenever the operands are (no condition on the stack itself) -/
theorem buildVStack_dt (lin : Bool) (es : List (LExpr α)) (collapse : Bool) (o : Obj α)
    (hg : ∀ e ∈ es, DtAgrees e) (h : buildVStack lin es collapse = .ok o) : DtOk o := by
  unfold buildVStack at h
  obtain ⟨os, hos, h⟩ := bind_ok' h
  exact vstack_dt lin collapse (buildAll_dt es os hg hos) h

theorem buildDStack_dt (lin : Bool) (es : List (LExpr α)) (cIn cOut : Bool) (o : Obj α)
    (hg : ∀ e ∈ es, DtAgrees e) (h : buildDStack lin es cIn cOut = .ok o) : DtOk o := by
  unfold buildDStack at h
  obtain ⟨os, hos, h⟩ := bind_ok' h
  exact dstack_dt lin cIn cOut (buildAll_dt es os hg hos) h

end
end Scico.OpAlg
