/-
  Proofs/StepsFISTA — the `O(1/k²)` objective bound of the accelerated proximal gradient method
  (`AcceleratedPGM` = FISTA, Beck–Teboulle 2009, Theorem 4.4) for the documented iteration
  `apgmSpecStep` with the base step-size object (`L` constant, `L ≥` Lipschitz constant of `∇f`).

  Potential (in the variables of the public state `(x, v, t)`):

      E(s) = 2 t (t − 1) (F(x) − F(x̄)) + L ‖t v − (t − 1) x − x̄‖²        (F = f + g, x̄ ∈ dom g arbitrary)

  `E(step s) ≤ E(s)` whenever `t ≥ 1`; with `t_{k+1}(t_{k+1} − 1) = t_k²` and `t_k ≥ 1 + k/2`:

      F(x_{k+1}) − F(x̄) ≤ 2 L ‖x_0 − x̄‖² / (k + 2)²      for every `k` and every start `x_0` (`v_0 = x_0`, `t_0 = 1`).
-/
import Scico.Model.Steps
import Scico.Proofs.StepsConvex
import Scico.Proofs.StepsFixed
import Scico.Proofs.StepsPGM
import Scico.Proofs.StepsRelax
import Mathlib.Tactic.Abel

set_option linter.unusedSectionVars false

namespace Scico.Steps

variable {E : Type} [NormedAddCommGroup E] [InnerProductSpace ℝ E]

local notation "⟪" x ", " y "⟫" => inner ℝ x y

/-- first-order convexity inequality of a differentiable `f` -/
def GradConvex (f : E → ℝ) (grad : E → E) : Prop := ∀ x y, f x + ⟪grad x, y - x⟫ ≤ f y

/-- Beck–Teboulle Lemma 2.3: for every `y` and every `x ∈ dom g`,
    `F(x) − F(p_L(y)) ≥ (L/2)‖p_L(y) − y‖² + L⟪y − x, p_L(y) − y⟫` -/
theorem pgStep_three_point {f : E → ℝ} {grad : E → E} {prox : ℝ → E → E} {G : Fn E} (hp : IsProx G prox)
    {L : ℝ} (hL : 0 < L) (hd : DescentLemma f grad L) (hc : GradConvex f grad) (y x : E) (hx : x ∈ G.dom) :
    L / 2 * ‖pgStep grad prox L y - y‖ ^ 2 + L * ⟪y - x, pgStep grad prox L y - y⟫
      ≤ (f x + G.val x) - (f (pgStep grad prox L y) + G.val (pgStep grad prox L y)) := by
  set pn := pgStep grad prox L y with hpn
  have hs : G.Subgrad pn ((1 / L⁻¹) • (y - L⁻¹ • grad y - pn)) := hp L⁻¹ (inv_pos.2 hL) (y - L⁻¹ • grad y)
  have h1 := hs.2 x hx
  have h2 := hd y pn
  have h3 := hc y x
  rw [one_div, inv_inv, inner_smul_left] at h1
  simp only [RCLike.conj_to_real] at h1
  have e : ⟪y - L⁻¹ • grad y - pn, x - pn⟫ = ⟪y - pn, x - pn⟫ - L⁻¹ * ⟪grad y, x - pn⟫ := by
    have : y - L⁻¹ • grad y - pn = (y - pn) - L⁻¹ • grad y := by abel
    rw [this, inner_sub_left, inner_smul_left]
    simp
  rw [e] at h1
  have e2 : L * (⟪y - pn, x - pn⟫ - L⁻¹ * ⟪grad y, x - pn⟫) = L * ⟪y - pn, x - pn⟫ - ⟪grad y, x - pn⟫ := by
    field_simp
  rw [e2] at h1
  -- ⟪y − pn, x − pn⟫ = ‖pn − y‖² + ⟪y − x, pn − y⟫ ;  ⟪grad y, x − pn⟫ = ⟪grad y, x − y⟫ − ⟪grad y, pn − y⟫
  have e3 : ⟪y - pn, x - pn⟫ = ‖pn - y‖ ^ 2 + ⟪y - x, pn - y⟫ := by
    have a1 : y - pn = -(pn - y) := by abel
    have a2 : x - pn = -(pn - y) - (y - x) := by abel
    rw [a1, a2, inner_neg_left, inner_sub_right, inner_neg_right, real_inner_self_eq_norm_sq, real_inner_comm (y - x)]
    ring
  have e4 : ⟪grad y, x - pn⟫ = ⟪grad y, x - y⟫ - ⟪grad y, pn - y⟫ := by
    rw [← inner_sub_right]; congr 1; abel
  rw [e3, e4] at h1
  linarith

/-- quadratics `½⟪Hx,x⟫ − ⟪b,x⟫` with `H` symmetric positive semi-definite satisfy `GradConvex` -/
theorem quad_gradConvex (H : E → E) (b : E) (hadd : ∀ x y, H (x + y) = H x + H y)
    (hsym : ∀ x y, ⟪H x, y⟫ = ⟪x, H y⟫) (hpsd : ∀ x, 0 ≤ ⟪H x, x⟫) :
    GradConvex (fun x => 1 / 2 * ⟪H x, x⟫ - ⟪b, x⟫) (fun x => H x - b) := by
  intro x y
  have hy : y = x + (y - x) := by abel
  set d := y - x
  have e1 : H y = H x + H d := by rw [hy, hadd]
  have hb := hpsd d
  simp only
  rw [e1]
  conv_rhs => rw [hy]
  rw [inner_add_left, inner_add_right, inner_add_right, inner_add_right, inner_sub_left]
  have e2 : ⟪H d, x⟫ = ⟪H x, d⟫ := by rw [hsym, real_inner_comm]
  rw [e2]
  nlinarith

attribute [local instance] realHasSqrt

/-- hypotheses: base step-size object, proximal-map contract, descent lemma and convexity of `f` -/
structure FISTAHyp (p : PGMParams Unit ℝ E) (G : Fn E) (L : ℝ) : Prop where
  pol : ∃ z0, p.pol = basePolicy z0
  prox : IsProx G p.proxg
  Lpos : 0 < L
  descent : DescentLemma p.f p.gradf L
  convex : GradConvex p.f p.gradf

/-- the potential -/
noncomputable def fistaE (p : PGMParams Unit ℝ E) (G : Fn E) (L : ℝ) (xb : E) (s : APGMState Unit ℝ E) : ℝ :=
  2 * (s.t * (s.t - 1)) * ((p.f s.x + G.val s.x) - (p.f xb + G.val xb))
    + L * ‖s.t • s.v - (s.t - 1) • s.x - xb‖ ^ 2

theorem apgmSpec_base (p : PGMParams Unit ℝ E) {G : Fn E} {L : ℝ} (h : FISTAHyp p G L) (s : APGMState Unit ℝ E)
    (hsL : s.L = L) :
    (apgmSpecStep p s).x = pgStep p.gradf p.proxg L s.v ∧ (apgmSpecStep p s).L = L ∧
    (apgmSpecStep p s).t = fistaTImpl s.t ∧
    (apgmSpecStep p s).v = (apgmSpecStep p s).x + ((s.t - 1) / fistaTImpl s.t) • ((apgmSpecStep p s).x - s.x) := by
  obtain ⟨z0, hz⟩ := h.pol
  have hk : p.pol.kind = .base := by rw [hz]; rfl
  have hu : ∀ a, p.pol.update s.mem s.L s.x a = (s.L, s.mem) := by intro a; rw [hz]; rfl
  subst hsL
  unfold apgmSpecStep pgStep fistaTImpl
  simp [hk, hu]

/-- one documented FISTA iteration does not increase the potential -/
theorem fista_potential_step (p : PGMParams Unit ℝ E) {G : Fn E} {L : ℝ} (h : FISTAHyp p G L) (xb : E)
    (hxb : xb ∈ G.dom) (s : APGMState Unit ℝ E) (hsL : s.L = L) (ht : 1 ≤ s.t)
    (hdom : s.x ∈ G.dom ∨ s.t = 1) :
    fistaE p G L xb (apgmSpecStep p s) ≤ fistaE p G L xb s ∧
    (apgmSpecStep p s).x ∈ G.dom ∧ 1 ≤ (apgmSpecStep p s).t ∧ (apgmSpecStep p s).L = L := by
  obtain ⟨hx, hL', ht', hv⟩ := apgmSpec_base p h s hsL
  have hL := h.Lpos
  set xn := (apgmSpecStep p s).x with hxn
  have hxn_dom : xn ∈ G.dom := by
    rw [hx]; exact (h.prox L⁻¹ (inv_pos.2 hL) _).1
  have ht0 : 0 ≤ s.t := by linarith
  have htn : s.t + 1 / 2 ≤ fistaTImpl s.t := fistaT_ge s.t ht0
  have htn1 : 1 ≤ fistaTImpl s.t := by linarith
  have htnne : fistaTImpl s.t ≠ 0 := by linarith
  refine ⟨?_, hxn_dom, by rw [ht']; exact htn1, hL'⟩
  -- the two three-point inequalities at y = v
  have hii := pgStep_three_point h.prox hL h.descent h.convex s.v xb hxb
  rw [← hx] at hii
  have hi : (s.t - 1) * (L / 2 * ‖xn - s.v‖ ^ 2 + L * ⟪s.v - s.x, xn - s.v⟫)
      ≤ (s.t - 1) * ((p.f s.x + G.val s.x) - (p.f xn + G.val xn)) := by
    rcases hdom with hd | h1
    · have := pgStep_three_point h.prox hL h.descent h.convex s.v s.x hd
      rw [← hx] at this
      exact mul_le_mul_of_nonneg_left this (by linarith)
    · rw [h1]; simp
  -- new potential in terms of old variables
  have hid := fistaT_identity s.t
  have e_t : (apgmSpecStep p s).t * ((apgmSpecStep p s).t - 1) = s.t * s.t := by
    rw [ht']; nlinarith [hid]
  have e_c : (apgmSpecStep p s).t • (apgmSpecStep p s).v - ((apgmSpecStep p s).t - 1) • xn - xb
      = (s.t • s.v - (s.t - 1) • s.x - xb) + s.t • (xn - s.v) := by
    rw [hv, ht', smul_add, smul_smul]
    have : fistaTImpl s.t * ((s.t - 1) / fistaTImpl s.t) = s.t - 1 := by field_simp
    rw [this]
    simp only [sub_smul, one_smul, smul_sub]
    abel
  unfold fistaE
  rw [e_t, e_c, ← hxn]
  set c := s.t • s.v - (s.t - 1) • s.x - xb with hc
  set b := xn - s.v with hb
  have e_in : ⟪c, b⟫ = (s.t - 1) * ⟪s.v - s.x, b⟫ + ⟪s.v - xb, b⟫ := by
    have : c = (s.t - 1) • (s.v - s.x) + (s.v - xb) := by
      rw [hc]; simp only [sub_smul, one_smul, smul_sub]; abel
    rw [this, inner_add_left, inner_smul_left]
    simp
  rw [norm_add_sq_real, inner_smul_right, norm_smul, mul_pow, Real.norm_eq_abs, sq_abs, e_in]
  have h1 := mul_le_mul_of_nonneg_left hi ht0
  have h2 := mul_le_mul_of_nonneg_left hii ht0
  nlinarith [h1, h2]

/-- the potential along the whole trajectory -/
theorem fista_potential_traj (p : PGMParams Unit ℝ E) {G : Fn E} {L : ℝ} (h : FISTAHyp p G L) (xb : E)
    (hxb : xb ∈ G.dom) (k : Nat) :
    ∀ (s : APGMState Unit ℝ E), s.L = L → 1 ≤ s.t → (s.x ∈ G.dom ∨ s.t = 1) →
      fistaE p G L xb (iter (apgmSpecStep p) k s) ≤ fistaE p G L xb s ∧
      (iter (apgmSpecStep p) k s).L = L ∧ 1 ≤ (iter (apgmSpecStep p) k s).t ∧
      ((iter (apgmSpecStep p) k s).x ∈ G.dom ∨ (iter (apgmSpecStep p) k s).t = 1) := by
  induction k with
  | zero => intro s h1 h2 h3; exact ⟨le_refl _, h1, h2, h3⟩
  | succ k ih =>
    intro s h1 h2 h3
    obtain ⟨a1, a2, a3, a4⟩ := fista_potential_step p h xb hxb s h1 h2 h3
    obtain ⟨b1, b2, b3, b4⟩ := ih (apgmSpecStep p s) a4 a3 (Or.inl a2)
    exact ⟨le_trans b1 a1, b2, b3, b4⟩

/-- Beck–Teboulle Theorem 4.4 for the documented iteration: from the constructor state (`v = x_0`, `t = 1`),
    `F(x_{k+1}) − F(x̄) ≤ 2 L ‖x_0 − x̄‖² / (k + 2)²` for every `k` and every comparison point `x̄ ∈ dom g`
    (in particular the minimiser) -/
theorem fista_rate (p : PGMParams Unit ℝ E) {G : Fn E} {L : ℝ} (h : FISTAHyp p G L) (xb : E) (hxb : xb ∈ G.dom)
    (s : APGMState Unit ℝ E) (hsL : s.L = L) (ht : s.t = 1) (hv : s.v = s.x) (k : Nat) :
    (p.f (iter (apgmSpecStep p) (k + 1) s).x + G.val (iter (apgmSpecStep p) (k + 1) s).x) - (p.f xb + G.val xb)
      ≤ 2 * L * ‖s.x - xb‖ ^ 2 / ((k : ℝ) + 2) ^ 2 := by
  have hL := h.Lpos
  obtain ⟨hE, hLk, htk, _⟩ := fista_potential_traj p h xb hxb (k + 1) s hsL (by rw [ht]) (Or.inr ht)
  have hE0 : fistaE p G L xb s = L * ‖s.x - xb‖ ^ 2 := by
    unfold fistaE
    rw [ht, hv]
    simp
  -- t_{k+1}(t_{k+1} − 1) = t_k² ≥ (1 + k/2)²
  obtain ⟨z0, hz⟩ := h.pol
  have hkind : p.pol.kind ≠ .robust := by rw [hz]; simp [basePolicy]
  have hlow := apgm_t_lower p hkind k s (by rw [ht]; norm_num)
  rw [ht] at hlow
  have hstep : (iter (apgmSpecStep p) (k + 1) s).t = fistaTImpl (iter (apgmSpecStep p) k s).t := by
    rw [iter_succ']; exact apgm_t_step p _ hkind
  have hid := fistaT_identity (iter (apgmSpecStep p) k s).t
  have htt : (iter (apgmSpecStep p) (k + 1) s).t * ((iter (apgmSpecStep p) (k + 1) s).t - 1)
      = (iter (apgmSpecStep p) k s).t ^ 2 := by
    rw [hstep]; nlinarith [hid]
  set a := (p.f (iter (apgmSpecStep p) (k + 1) s).x + G.val (iter (apgmSpecStep p) (k + 1) s).x) - (p.f xb + G.val xb)
    with ha
  have hEk : 2 * ((iter (apgmSpecStep p) k s).t ^ 2) * a ≤ L * ‖s.x - xb‖ ^ 2 := by
    have hn : 0 ≤ L * ‖(iter (apgmSpecStep p) (k + 1) s).t • (iter (apgmSpecStep p) (k + 1) s).v
        - ((iter (apgmSpecStep p) (k + 1) s).t - 1) • (iter (apgmSpecStep p) (k + 1) s).x - xb‖ ^ 2 := by positivity
    unfold fistaE at hE
    rw [htt] at hE
    rw [← hE0]
    unfold fistaE
    linarith
  have htk2 : ((k : ℝ) + 2) ^ 2 / 4 ≤ (iter (apgmSpecStep p) k s).t ^ 2 := by
    have h0 : (0 : ℝ) ≤ 1 + (k : ℝ) / 2 := by positivity
    have := pow_le_pow_left₀ h0 hlow 2
    nlinarith
  have hpos : (0 : ℝ) < ((k : ℝ) + 2) ^ 2 := by positivity
  rw [le_div_iff₀ hpos]
  by_cases han : a ≤ 0
  · have : 0 ≤ 2 * L * ‖s.x - xb‖ ^ 2 := by positivity
    nlinarith
  · push Not at han
    nlinarith

end Scico.Steps
