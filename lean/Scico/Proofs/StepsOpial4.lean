/-
  Proofs/StepsOpial4 — ADMM with `N` constraints and relaxation `0 < α < 2` in finite dimension, merely convex problem:
  if a KKT point exists and the x-update depends continuously on `(z, u)`, the iterates converge from every start to a
  KKT point.  Opial's argument on the Douglas–Rachford variable `σ_i = z_i + u_i ∈ Z^N` (`Fin N → Z`): a dual-feasible
  state is determined by `σ` (`z_i = prox_{g_i/ρ_i}(σ_i)`), the iteration is `σ ↦ σ + α (C x⁺(σ) − z(σ))`, and
  `W = Σ ρ_i ‖σ_i − σ_i*‖²` is the Fejér metric (`StepsRelax`).
-/
import Scico.Model.Steps
import Scico.Proofs.StepsConvex
import Scico.Proofs.StepsFixed
import Scico.Proofs.StepsLyapN
import Scico.Proofs.StepsRelax
import Scico.Proofs.StepsOpial
import Scico.Proofs.StepsOpial3
import Mathlib.Tactic.Abel

set_option linter.unusedSectionVars false

namespace Scico.Steps

variable {X Z : Type} [NormedAddCommGroup X] [InnerProductSpace ℝ X]
  [NormedAddCommGroup Z] [InnerProductSpace ℝ Z]

local notation "⟪" x ", " y "⟫" => inner ℝ x y

section defs
variable (cons : List (Con X Z))

/-- `z_i(σ) = prox_{g_i/ρ_i}(σ_i)` -/
noncomputable def Pz (σ : Fin cons.length → Z) (i : Fin cons.length) : Z :=
  (cons.get i).prox (1 / (cons.get i).rho) (σ i)

/-- rows from function-indexed `z`, `u`, `u*` -/
def rowsOf (us zf uf : Fin cons.length → Z) : List (Row X Z) :=
  List.ofFn (fun i => ({ c := cons.get i, z := zf i, u := uf i, us := us i } : Row X Z))

/-- the dual-feasible rows determined by `σ` -/
noncomputable def rowsσ (us σ : Fin cons.length → Z) : List (Row X Z) :=
  rowsOf cons us (Pz cons σ) (fun i => σ i - Pz cons σ i)

theorem rowsOf_c (us zf uf : Fin cons.length → Z) : (rowsOf cons us zf uf).map (·.c) = cons := by
  unfold rowsOf
  rw [List.map_ofFn]
  exact List.ofFn_get cons

theorem rowsOf_z (us zf uf : Fin cons.length → Z) : (rowsOf cons us zf uf).map (·.z) = List.ofFn zf := by
  unfold rowsOf; rw [List.map_ofFn]; rfl
theorem rowsOf_u (us zf uf : Fin cons.length → Z) : (rowsOf cons us zf uf).map (·.u) = List.ofFn uf := by
  unfold rowsOf; rw [List.map_ofFn]; rfl
theorem rowsOf_us (us zf uf : Fin cons.length → Z) : (rowsOf cons us zf uf).map (·.us) = List.ofFn us := by
  unfold rowsOf; rw [List.map_ofFn]; rfl

theorem mem_rowsOf {us zf uf : Fin cons.length → Z} {r : Row X Z} (h : r ∈ rowsOf cons us zf uf) :
    ∃ i, r = { c := cons.get i, z := zf i, u := uf i, us := us i } := by
  unfold rowsOf at h
  rw [List.mem_ofFn] at h
  obtain ⟨i, hi⟩ := h
  exact ⟨i, hi.symm⟩

end defs

section step
variable (cons : List (Con X Z)) (alpha : ℝ) (solveX : List Z → List Z → X → X)

/-- one documented iteration from ANY state given by functions `z, u : Fin N → Z` lands in the σ-form with
    `σ⁺_i = z_i + u_i + α (C_i x⁺ − z_i)` -/
theorem next_rowsOf (us zf uf : Fin cons.length → Z) (x : X) (zo : List Z) :
    let xn := solveX (List.ofFn zf) (List.ofFn uf) x
    (RS.next alpha solveX ⟨rowsOf cons us zf uf, x, zo⟩).rows
        = rowsσ cons us (fun i => zf i + uf i + alpha • ((cons.get i).C xn - zf i)) ∧
    (RS.next alpha solveX ⟨rowsOf cons us zf uf, x, zo⟩).x = xn := by
  intro xn
  have hxn : RS.xn solveX ⟨rowsOf cons us zf uf, x, zo⟩ = xn := by
    show solveX ((rowsOf cons us zf uf).map (·.z)) ((rowsOf cons us zf uf).map (·.u)) x = _
    rw [rowsOf_z, rowsOf_u]
  refine ⟨?_, hxn⟩
  unfold RS.next
  simp only [hxn]
  unfold rowsσ rowsOf
  rw [List.map_ofFn]
  congr 1
  funext i
  simp only [Function.comp]
  have e1 : Row.chat ({ c := cons.get i, z := zf i, u := uf i, us := us i } : Row X Z) alpha xn + uf i
      = zf i + uf i + alpha • ((cons.get i).C xn - zf i) := by
    simp only [Row.chat, sub_smul, one_smul, smul_sub]; abel
  have hz : Row.znA ({ c := cons.get i, z := zf i, u := uf i, us := us i } : Row X Z) alpha xn
      = Pz cons (fun i => zf i + uf i + alpha • ((cons.get i).C xn - zf i)) i := by
    simp only [Row.znA, Pz, e1]
  have hu : Row.unA ({ c := cons.get i, z := zf i, u := uf i, us := us i } : Row X Z) alpha xn
      = (zf i + uf i + alpha • ((cons.get i).C xn - zf i))
        - Pz cons (fun i => zf i + uf i + alpha • ((cons.get i).C xn - zf i)) i := by
    simp only [Row.unA]
    rw [hz, ← e1]
    abel
  rw [hz, hu]

/-- `x⁺(σ)` and the iteration on the Douglas–Rachford variable -/
noncomputable def xplus (x0 : X) (σ : Fin cons.length → Z) : X :=
  solveX (List.ofFn (Pz cons σ)) (List.ofFn (fun i => σ i - Pz cons σ i)) x0

noncomputable def Tσ (x0 : X) (σ : Fin cons.length → Z) : Fin cons.length → Z :=
  fun i => σ i + alpha • ((cons.get i).C (xplus cons solveX x0 σ) - Pz cons σ i)

/-- the row iterates from a σ-form state are the σ-form of the iterates of `Tσ` (the x-update does not depend on its
    warm start) -/
theorem iter_rowsσ (hindep : ∀ z u x x', solveX z u x = solveX z u x') (x0 : X) (us : Fin cons.length → Z) (k : Nat) :
    ∀ (σ : Fin cons.length → Z) (x : X) (zo : List Z),
      (iter (RS.next alpha solveX) k ⟨rowsσ cons us σ, x, zo⟩).rows = rowsσ cons us (iter (Tσ cons alpha solveX x0) k σ) ∧
      (iter (RS.next alpha solveX) (k + 1) ⟨rowsσ cons us σ, x, zo⟩).x
        = xplus cons solveX x0 (iter (Tσ cons alpha solveX x0) k σ) := by
  have hstep : ∀ (σ : Fin cons.length → Z) (x : X) (zo : List Z),
      (RS.next alpha solveX ⟨rowsσ cons us σ, x, zo⟩).rows = rowsσ cons us (Tσ cons alpha solveX x0 σ) ∧
      (RS.next alpha solveX ⟨rowsσ cons us σ, x, zo⟩).x = xplus cons solveX x0 σ := by
    intro σ x zo
    obtain ⟨h1, h2⟩ := next_rowsOf cons alpha solveX us (Pz cons σ) (fun i => σ i - Pz cons σ i) x zo
    have hx : solveX (List.ofFn (Pz cons σ)) (List.ofFn (fun i => σ i - Pz cons σ i)) x = xplus cons solveX x0 σ :=
      hindep _ _ _ _
    simp only [hx] at h1 h2
    refine ⟨?_, h2⟩
    have hσ : (fun i => Pz cons σ i + (σ i - Pz cons σ i) + alpha • ((cons.get i).C (xplus cons solveX x0 σ) - Pz cons σ i))
        = Tσ cons alpha solveX x0 σ := by
      funext i
      unfold Tσ
      rw [add_sub_cancel]
    rw [hσ] at h1
    exact h1
  induction k with
  | zero =>
    intro σ x zo
    exact ⟨rfl, (hstep σ x zo).2⟩
  | succ k ih =>
    intro σ x zo
    obtain ⟨h1, h2⟩ := hstep σ x zo
    have e : RS.next alpha solveX ⟨rowsσ cons us σ, x, zo⟩
        = ⟨rowsσ cons us (Tσ cons alpha solveX x0 σ), (RS.next alpha solveX ⟨rowsσ cons us σ, x, zo⟩).x,
           (RS.next alpha solveX ⟨rowsσ cons us σ, x, zo⟩).zOld⟩ := by
      cases hh : RS.next alpha solveX ⟨rowsσ cons us σ, x, zo⟩ with
      | mk r xx zz => rw [hh] at h1; simp only at h1; rw [h1]
    have := ih (Tσ cons alpha solveX x0 σ) (RS.next alpha solveX ⟨rowsσ cons us σ, x, zo⟩).x
      (RS.next alpha solveX ⟨rowsσ cons us σ, x, zo⟩).zOld
    constructor
    · show (iter (RS.next alpha solveX) k (RS.next alpha solveX ⟨rowsσ cons us σ, x, zo⟩)).rows = _
      rw [e]; exact this.1
    · show (iter (RS.next alpha solveX) (k + 1) (RS.next alpha solveX ⟨rowsσ cons us σ, x, zo⟩)).x = _
      rw [e]; exact this.2

end step

section conv
variable [FiniteDimensional ℝ X] [FiniteDimensional ℝ Z]
variable (cons : List (Con X Z)) (alpha : ℝ) (solveX : List Z → List Z → X → X)

structure ADMMConvHyp (F : Fn X) (x0 : X) (rlo rhi : ℝ) : Prop where
  a0 : 0 < alpha
  a2 : alpha < 2
  add : ∀ c ∈ cons, ∀ x y, c.C (x - y) = c.C x - c.C y
  adj : ∀ c ∈ cons, ∀ w x, ⟪c.Cadj w, x⟫ = ⟪w, c.C x⟫
  prox : ∀ c ∈ cons, IsProx c.G c.prox
  rlo0 : 0 < rlo
  rho_lo : ∀ c ∈ cons, rlo ≤ c.rho
  rho_hi : ∀ c ∈ cons, c.rho ≤ rhi
  Ccont : ∀ c ∈ cons, Continuous c.C
  /-- the x-update returns a stationary point of the x-sub-problem, which has at most one -/
  solve : ∀ z u x, F.Subgrad (solveX z u x) (xGrad cons z u (solveX z u x))
  uniq : ∀ z u x x', F.Subgrad x (xGrad cons z u x) → F.Subgrad x' (xGrad cons z u x') → x = x'
  /-- … and depends continuously on `(z, u)` (through the Douglas–Rachford variable) -/
  xcont : Continuous (xplus cons solveX x0)

/-- KKT point `(x*, u*)` of `min f(x) + Σ g_i(C_i x)` with scaled multipliers -/
def IsAKKT (F : Fn X) (xs : X) (us : Fin cons.length → Z) : Prop :=
  (∀ i, (cons.get i).G.Subgrad ((cons.get i).C xs) ((cons.get i).rho • us i)) ∧
  F.Subgrad xs (xGrad cons (cons.map (fun c => c.C xs)) (List.ofFn us) xs)

variable {cons alpha solveX}

theorem map_eq_ofFn {β : Type} (f : Con X Z → β) : cons.map f = List.ofFn (fun i => f (cons.get i)) := by
  conv_lhs => rw [← List.ofFn_get cons]
  rw [List.map_ofFn]
  rfl

theorem ADMMConvHyp.indep {F : Fn X} {x0 : X} {rlo rhi : ℝ} (H : ADMMConvHyp cons alpha solveX F x0 rlo rhi)
    (z u : List Z) (x x' : X) : solveX z u x = solveX z u x' :=
  H.uniq z u _ _ (H.solve z u x) (H.solve z u x')

theorem ADMMConvHyp.relax {F : Fn X} {x0 : X} {rlo rhi : ℝ} (H : ADMMConvHyp cons alpha solveX F x0 rlo rhi)
    {xs : X} {us : Fin cons.length → Z} (hk : IsAKKT cons F xs us) :
    RelaxHyp alpha 0 cons (List.ofFn us) solveX F xs :=
  ⟨H.a0.le, H.a2.le, le_refl 0, strongSub_zero F, H.solve, hk.2⟩

theorem ADMMConvHyp.pre {F : Fn X} {x0 : X} {rlo rhi : ℝ} (H : ADMMConvHyp cons alpha solveX F x0 rlo rhi)
    (σ : Fin cons.length → Z) (i : Fin cons.length) :
    (cons.get i).G.Subgrad (Pz cons σ i) ((cons.get i).rho • (σ i - Pz cons σ i)) := by
  have hm : cons.get i ∈ cons := List.get_mem cons i
  have hr : 0 < (cons.get i).rho := lt_of_lt_of_le H.rlo0 (H.rho_lo _ hm)
  have := H.prox _ hm (1 / (cons.get i).rho) (by positivity) (σ i)
  rw [one_div_one_div] at this
  exact this

theorem ADMMConvHyp.ok {F : Fn X} {x0 : X} {rlo rhi : ℝ} (H : ADMMConvHyp cons alpha solveX F x0 rlo rhi)
    {xs : X} {us : Fin cons.length → Z} (hk : IsAKKT cons F xs us) (σ : Fin cons.length → Z) (x : X) (zo : List Z) :
    RS.OK xs cons (List.ofFn us) ⟨rowsσ cons us σ, x, zo⟩ := by
  refine ⟨⟨rowsOf_c cons _ _ _, rowsOf_us cons _ _ _, ?_⟩, ?_⟩
  · intro r hr
    obtain ⟨i, rfl⟩ := mem_rowsOf cons hr
    have hm : cons.get i ∈ cons := List.get_mem cons i
    exact ⟨H.add _ hm, H.adj _ hm, lt_of_lt_of_le H.rlo0 (H.rho_lo _ hm), H.prox _ hm, hk.1 i⟩
  · intro r hr
    obtain ⟨i, rfl⟩ := mem_rowsOf cons hr
    exact H.pre σ i

/-- the Fejér metric on the Douglas–Rachford variable -/
noncomputable def admmD (cons : List (Con X Z)) (σ σ' : Fin cons.length → Z) : ℝ :=
  ∑ i, (cons.get i).rho * ‖σ i - σ' i‖ ^ 2

theorem W_rowsσ (xs : X) (us σ : Fin cons.length → Z) (x : X) (zo : List Z) :
    RS.W xs (⟨rowsσ cons us σ, x, zo⟩ : RS X Z) = admmD cons σ (fun i => (cons.get i).C xs + us i) := by
  unfold RS.W rowsW rowsσ rowsOf admmD
  rw [List.map_ofFn, List.sum_ofFn]
  apply Finset.sum_congr rfl
  intro i _
  simp only [Function.comp]
  congr 3
  abel

theorem Q_rowsσ (us σ : Fin cons.length → Z) (xn : X) :
    rowsQ (rowsσ cons us σ) xn = ∑ i, (cons.get i).rho * ‖(cons.get i).C xn - Pz cons σ i‖ ^ 2 := by
  unfold rowsQ rowsσ rowsOf
  rw [List.map_ofFn, List.sum_ofFn]
  rfl

end conv

section main
variable [FiniteDimensional ℝ X] [FiniteDimensional ℝ Z]
variable {cons : List (Con X Z)} {alpha : ℝ} {solveX : List Z → List Z → X → X}

/-- a fixed point of the σ-iteration gives a KKT point `(x⁺(σ), σ − z(σ))` with `σ_i = C_i x* + u_i*` -/
theorem Tσ_fixed_kkt {F : Fn X} {x0 : X} {rlo rhi : ℝ} (H : ADMMConvHyp cons alpha solveX F x0 rlo rhi)
    (σ : Fin cons.length → Z) (h : Tσ cons alpha solveX x0 σ = σ) :
    IsAKKT cons F (xplus cons solveX x0 σ) (fun i => σ i - Pz cons σ i) ∧
    σ = fun i => (cons.get i).C (xplus cons solveX x0 σ) + (σ i - Pz cons σ i) := by
  have hC : ∀ i, (cons.get i).C (xplus cons solveX x0 σ) = Pz cons σ i := by
    intro i
    have hi := congrFun h i
    unfold Tσ at hi
    have : alpha • ((cons.get i).C (xplus cons solveX x0 σ) - Pz cons σ i) = 0 := by
      have e := hi
      rwa [add_eq_left] at e
    have := (smul_eq_zero.1 this).resolve_left H.a0.ne'
    exact sub_eq_zero.1 this
  refine ⟨⟨fun i => ?_, ?_⟩, ?_⟩
  · rw [hC i]; exact H.pre σ i
  · have hs := H.solve (List.ofFn (Pz cons σ)) (List.ofFn (fun i => σ i - Pz cons σ i)) x0
    have e : cons.map (fun c => c.C (xplus cons solveX x0 σ)) = List.ofFn (Pz cons σ) := by
      rw [map_eq_ofFn]
      congr 1
      funext i
      exact hC i
    rw [e]
    exact hs
  · funext i
    rw [hC i]; abel

/-- a KKT point gives a fixed point `σ*_i = C_i x* + u_i*` -/
theorem kkt_Tσ_fixed {F : Fn X} {x0 : X} {rlo rhi : ℝ} (H : ADMMConvHyp cons alpha solveX F x0 rlo rhi)
    {xs : X} {us : Fin cons.length → Z} (hk : IsAKKT cons F xs us) :
    Tσ cons alpha solveX x0 (fun i => (cons.get i).C xs + us i) = fun i => (cons.get i).C xs + us i := by
  set σs : Fin cons.length → Z := fun i => (cons.get i).C xs + us i with hσ
  have hP : ∀ i, Pz cons σs i = (cons.get i).C xs := by
    intro i
    have hm : cons.get i ∈ cons := List.get_mem cons i
    have hr : 0 < (cons.get i).rho := lt_of_lt_of_le H.rlo0 (H.rho_lo _ hm)
    unfold Pz
    apply (H.prox _ hm).fixed' (by positivity) (hk.1 i)
    rw [smul_smul]
    have : 1 / (cons.get i).rho * (cons.get i).rho = 1 := by field_simp
    rw [this, one_smul]
  have hx : xplus cons solveX x0 σs = xs := by
    unfold xplus
    apply H.uniq _ _ _ _ (H.solve _ _ _)
    have e1 : List.ofFn (Pz cons σs) = cons.map (fun c => c.C xs) := by
      rw [map_eq_ofFn]; congr 1; funext i; exact hP i
    have e2 : List.ofFn (fun i => σs i - Pz cons σs i) = List.ofFn us := by
      congr 1; funext i; rw [hP i, hσ]; simp
    rw [e1, e2]
    exact hk.2
  funext i
  unfold Tσ
  rw [hx, hP i, sub_self, smul_zero, add_zero]

theorem Tσ_continuous {F : Fn X} {x0 : X} {rlo rhi : ℝ} (H : ADMMConvHyp cons alpha solveX F x0 rlo rhi) :
    Continuous (Tσ cons alpha solveX x0) := by
  have hx := H.xcont
  apply continuous_pi
  intro i
  have hm : cons.get i ∈ cons := List.get_mem cons i
  have hr : 0 < (cons.get i).rho := lt_of_lt_of_le H.rlo0 (H.rho_lo _ hm)
  have hC := H.Ccont _ hm
  have hp : Continuous ((cons.get i).prox (1 / (cons.get i).rho)) := prox_continuous (H.prox _ hm) (by positivity)
  have hPz : Continuous (fun σ : Fin cons.length → Z => Pz cons σ i) := by
    unfold Pz
    exact hp.comp (continuous_apply i)
  have hi : Continuous (fun σ : Fin cons.length → Z => σ i) := continuous_apply i
  unfold Tσ
  fun_prop

theorem admmD_lower {rlo : ℝ} (hr0 : 0 < rlo) (hlo : ∀ c ∈ cons, rlo ≤ c.rho) (σ σ' : Fin cons.length → Z) :
    rlo * ‖σ - σ'‖ ^ 2 ≤ admmD cons σ σ' := by
  have hD0 : 0 ≤ admmD cons σ σ' := by
    unfold admmD
    apply Finset.sum_nonneg
    intro i _
    have := lt_of_lt_of_le hr0 (hlo _ (List.get_mem cons i))
    positivity
  have hle : ‖σ - σ'‖ ≤ Real.sqrt (admmD cons σ σ' / rlo) := by
    rw [pi_norm_le_iff_of_nonneg (Real.sqrt_nonneg _)]
    intro i
    apply Real.le_sqrt_of_sq_le
    rw [le_div_iff₀ hr0]
    have h1 : (cons.get i).rho * ‖σ i - σ' i‖ ^ 2 ≤ admmD cons σ σ' := by
      unfold admmD
      apply Finset.single_le_sum (f := fun i => (cons.get i).rho * ‖σ i - σ' i‖ ^ 2) _ (Finset.mem_univ i)
      intro j _
      have := lt_of_lt_of_le hr0 (hlo _ (List.get_mem cons j))
      positivity
    have h2 := hlo _ (List.get_mem cons i)
    have h3 : rlo * ‖σ i - σ' i‖ ^ 2 ≤ (cons.get i).rho * ‖σ i - σ' i‖ ^ 2 :=
      mul_le_mul_of_nonneg_right h2 (by positivity)
    simp only [Pi.sub_apply]
    linarith
  have h0 : 0 ≤ ‖σ - σ'‖ := norm_nonneg _
  have := pow_le_pow_left₀ h0 hle 2
  rw [Real.sq_sqrt (div_nonneg hD0 hr0.le), le_div_iff₀ hr0] at this
  linarith

theorem admmD_upper {rhi : ℝ} (hhi : ∀ c ∈ cons, c.rho ≤ rhi) (σ σ' : Fin cons.length → Z) :
    admmD cons σ σ' ≤ (cons.length * max rhi 0) * ‖σ - σ'‖ ^ 2 := by
  unfold admmD
  have hb : ∀ i ∈ (Finset.univ : Finset (Fin cons.length)),
      (cons.get i).rho * ‖σ i - σ' i‖ ^ 2 ≤ max rhi 0 * ‖σ - σ'‖ ^ 2 := by
    intro i _
    have h1 : ‖σ i - σ' i‖ ≤ ‖σ - σ'‖ := norm_le_pi_norm (σ - σ') i
    have h2 : ‖σ i - σ' i‖ ^ 2 ≤ ‖σ - σ'‖ ^ 2 := pow_le_pow_left₀ (norm_nonneg _) h1 2
    have h3 : (cons.get i).rho ≤ max rhi 0 := le_trans (hhi _ (List.get_mem cons i)) (le_max_left _ _)
    have h4 : 0 ≤ max rhi 0 := le_max_right _ _
    calc (cons.get i).rho * ‖σ i - σ' i‖ ^ 2 ≤ max rhi 0 * ‖σ i - σ' i‖ ^ 2 :=
          mul_le_mul_of_nonneg_right h3 (by positivity)
      _ ≤ max rhi 0 * ‖σ - σ'‖ ^ 2 := mul_le_mul_of_nonneg_left h2 h4
  have := Finset.sum_le_sum hb
  simp only [Finset.sum_const, Finset.card_univ, Fintype.card_fin, nsmul_eq_mul] at this
  linarith

end main

section final
variable [FiniteDimensional ℝ X] [FiniteDimensional ℝ Z]
variable {cons : List (Con X Z)} {alpha : ℝ} {solveX : List Z → List Z → X → X}

theorem W_of_rows (xs : X) (us σ : Fin cons.length → Z) (s : RS X Z) (h : s.rows = rowsσ cons us σ) :
    RS.W xs s = admmD cons σ (fun i => (cons.get i).C xs + us i) := by
  have := W_rowsσ (cons := cons) xs us σ s.x s.zOld
  unfold RS.W at this ⊢
  rw [h]
  exact this

theorem RS.eta (s : RS X Z) : s = ⟨s.rows, s.x, s.zOld⟩ := rfl

/-- ADMM, `N` constraints, relaxation `0 < α < 2`, merely convex problem, finite-dimensional variables: if a KKT point
    exists, then from EVERY start (any `x`, any `z, u : Fin N → Z`) the iterates `x_k` converge to the `x*` of a KKT point
    and the Douglas–Rachford variables `z_i^k + u_i^k` to `C_i x* + u_i*` -/
theorem admm_converges_findim {F : Fn X} {x0 : X} {rlo rhi : ℝ} (H : ADMMConvHyp cons alpha solveX F x0 rlo rhi)
    (hk : ∃ xs us, IsAKKT cons F xs us) (us0 zf uf : Fin cons.length → Z) (x : X) (zo : List Z) :
    ∃ (xs : X) (us : Fin cons.length → Z) (σseq : ℕ → Fin cons.length → Z), IsAKKT cons F xs us ∧
      (∀ k, (iter (RS.next alpha solveX) (k + 1) ⟨rowsOf cons us0 zf uf, x, zo⟩).rows = rowsσ cons us0 (σseq k)) ∧
      Filter.Tendsto σseq Filter.atTop (nhds (fun i => (cons.get i).C xs + us i)) ∧
      Filter.Tendsto (fun k => (iter (RS.next alpha solveX) k ⟨rowsOf cons us0 zf uf, x, zo⟩).x) Filter.atTop (nhds xs) := by
  set s0 : RS X Z := ⟨rowsOf cons us0 zf uf, x, zo⟩ with hs0
  obtain ⟨h1r, _⟩ := next_rowsOf cons alpha solveX us0 zf uf x zo
  set σ1 : Fin cons.length → Z :=
    fun i => zf i + uf i + alpha • ((cons.get i).C (solveX (List.ofFn zf) (List.ofFn uf) x) - zf i) with hσ1
  have hs1 : RS.next alpha solveX s0 = ⟨rowsσ cons us0 σ1, (RS.next alpha solveX s0).x, (RS.next alpha solveX s0).zOld⟩ := by
    rw [RS.eta (RS.next alpha solveX s0)]
    simp only
    rw [h1r]
  set T := Tσ cons alpha solveX x0 with hT
  have hind := H.indep
  -- the metric and its bounds
  have hc := H.rlo0
  -- fixed points
  have hfix : ∃ ws, T ws = ws := by
    obtain ⟨xs, us, hkk⟩ := hk
    exact ⟨_, kkt_Tσ_fixed H hkk⟩
  -- Fejér monotonicity w.r.t. every fixed point
  have hfejer : ∀ ws, T ws = ws → ∀ k, admmD cons (iter T (k + 1) σ1) ws ≤ admmD cons (iter T k σ1) ws := by
    intro ws hws k
    obtain ⟨hkk, hwseq⟩ := Tσ_fixed_kkt H ws hws
    set xs' := xplus cons solveX x0 ws
    set us' : Fin cons.length → Z := fun i => ws i - Pz cons ws i
    set s' : RS X Z := ⟨rowsσ cons us' σ1, x0, []⟩
    have hok := H.ok hkk σ1 x0 []
    have hm := RS.W_mono (H.relax hkk) hok k
    have r1 := (iter_rowsσ cons alpha solveX hind x0 us' (k + 1) σ1 x0 []).1
    have r0 := (iter_rowsσ cons alpha solveX hind x0 us' k σ1 x0 []).1
    rw [W_of_rows xs' us' _ _ r1, W_of_rows xs' us' _ _ r0, ← hwseq] at hm
    exact hm
  -- asymptotic regularity
  have hreg : Filter.Tendsto (fun k => ‖iter T k σ1 - T (iter T k σ1)‖) Filter.atTop (nhds 0) := by
    obtain ⟨xs, us, hkk⟩ := hk
    have hok := H.ok hkk σ1 x0 []
    have hQ := RS.Q_tendsto (H.relax hkk) H.a0 H.a2 hok
    have hb := hQ.const_mul (alpha ^ 2 / rlo)
    rw [mul_zero] at hb
    refine tendsto_zero_of_sq_le (fun k => norm_nonneg _) (fun k => ?_) hb
    have r0 := (iter_rowsσ cons alpha solveX hind x0 us k σ1 x0 []).1
    set sk := iter (RS.next alpha solveX) k (⟨rowsσ cons us σ1, x0, []⟩ : RS X Z) with hsk
    set σk := iter T k σ1 with hσk
    have hxn : sk.xn solveX = xplus cons solveX x0 σk := by
      unfold RS.xn xplus
      rw [r0]
      unfold rowsσ
      rw [rowsOf_z, rowsOf_u]
      exact hind _ _ _ _
    rw [r0, hxn, Q_rowsσ]
    have hl := admmD_lower H.rlo0 H.rho_lo σk (T σk)
    have e : admmD cons σk (T σk)
        = alpha ^ 2 * ∑ i, (cons.get i).rho * ‖(cons.get i).C (xplus cons solveX x0 σk) - Pz cons σk i‖ ^ 2 := by
      unfold admmD
      rw [Finset.mul_sum]
      apply Finset.sum_congr rfl
      intro i _
      have : σk i - T σk i = -(alpha • ((cons.get i).C (xplus cons solveX x0 σk) - Pz cons σk i)) := by
        rw [hT]; unfold Tσ; abel
      rw [this, norm_neg, norm_smul, mul_pow, Real.norm_eq_abs, sq_abs]
      ring
    rw [e] at hl
    rw [div_mul_eq_mul_div, le_div_iff₀ H.rlo0]
    linarith
  have hNr : 0 ≤ (cons.length : ℝ) * max rhi 0 := mul_nonneg (Nat.cast_nonneg _) (le_max_right _ _)
  obtain ⟨σb, hσb, hlim⟩ := fejer_converges T (Tσ_continuous H) (admmD cons) rlo (cons.length * max rhi 0) H.rlo0
    (admmD_lower H.rlo0 H.rho_lo) (admmD_upper H.rho_hi) σ1 hfix hfejer hreg
  obtain ⟨hkk, hσeq⟩ := Tσ_fixed_kkt H σb hσb
  refine ⟨xplus cons solveX x0 σb, fun i => σb i - Pz cons σb i, fun k => iter T k σ1, hkk, ?_, ?_, ?_⟩
  · intro k
    show (iter (RS.next alpha solveX) k (RS.next alpha solveX s0)).rows = _
    rw [hs1]
    exact (iter_rowsσ cons alpha solveX hind x0 us0 k σ1 _ _).1
  · rw [← hσeq]; exact hlim
  · rw [← Filter.tendsto_add_atTop_iff_nat 2]
    have hx := (H.xcont.tendsto σb).comp hlim
    refine hx.congr (fun k => ?_)
    simp only [Function.comp]
    show _ = (iter (RS.next alpha solveX) (k + 1) (RS.next alpha solveX s0)).x
    rw [hs1]
    exact ((iter_rowsσ cons alpha solveX hind x0 us0 k σ1 _ _).2).symm

end final

end Scico.Steps
