/-
  Power iteration (`Scico.Model.Estim.powerLoop`) on a real inner-product space:
  Rayleigh quotients are bounded by the operator norm and non-decreasing for a Gram operator.
-/
import Scico.Model.Estim
import Mathlib.Analysis.InnerProductSpace.Basic
import Mathlib.Analysis.Normed.Operator.Basic
import Mathlib.Tactic.Ring
import Mathlib.Tactic.Linarith
import Mathlib.Tactic.Positivity
import Mathlib.Tactic.FieldSimp

set_option linter.unusedSectionVars false

namespace Scico.Estim

variable {E : Type} [NormedAddCommGroup E] [InnerProductSpace ℝ E]

/-- the operations `power_iteration` performs, on a real inner-product space
    (`ℝⁿ`; `ℂⁿ` under `Re⟨·,·⟩`) for a bounded operator `B` -/
noncomputable def opsOf (B : E →L[ℝ] E) : VOps E ℝ where
  apply := fun v => B v
  inner := fun a b => inner ℝ a b
  norm := fun v => ‖v‖
  sdiv := fun v c => c⁻¹ • v

/-- Rayleigh quotient as the code computes it -/
noncomputable def rq (B : E →L[ℝ] E) (v : E) : ℝ := inner ℝ v (B v) / (‖v‖ * ‖v‖)

/-- the next (normalised) iterate -/
noncomputable def nxt (B : E →L[ℝ] E) (v : E) : E := ‖B v‖⁻¹ • B v

theorem powerLoop_succ {V α : Type} [Zero α] [Mul α] [Div α] [LE α] [DecidableLE α] (ops : VOps V α) (k : Nat)
    (mu : Option α) (v : V) :
    powerLoop ops (k + 1) mu v =
      if ops.norm (ops.apply v) ≤ 0 ∧ 0 ≤ ops.norm (ops.apply v) then (some 0, ops.apply v)
      else powerLoop ops k (some (ops.inner v (ops.apply v) / (ops.norm v * ops.norm v)))
        (ops.sdiv (ops.apply v) (ops.norm (ops.apply v))) := rfl

theorem powerLoop_succ_zero (B : E →L[ℝ] E) (k : Nat) (mu : Option ℝ) (v : E) (h : B v = 0) :
    powerLoop (opsOf B) (k + 1) mu v = (some 0, B v) := by
  rw [powerLoop_succ, if_pos]
  · rfl
  · have : (opsOf B).norm ((opsOf B).apply v) = 0 := by show ‖B v‖ = 0; rw [h, norm_zero]
    rw [this]; simp

theorem powerLoop_succ_ne (B : E →L[ℝ] E) (k : Nat) (mu : Option ℝ) (v : E) (h : B v ≠ 0) :
    powerLoop (opsOf B) (k + 1) mu v = powerLoop (opsOf B) k (some (rq B v)) (nxt B v) := by
  have hpos : 0 < (opsOf B).norm ((opsOf B).apply v) := by show 0 < ‖B v‖; exact norm_pos_iff.2 h
  rw [powerLoop_succ, if_neg (fun hh => absurd hh.1 (not_le.2 hpos))]
  rfl

theorem nxt_ne_zero (B : E →L[ℝ] E) (v : E) (h : B v ≠ 0) : nxt B v ≠ 0 := by
  unfold nxt
  exact smul_ne_zero (inv_ne_zero (norm_ne_zero_iff.2 h)) h

/-- a Rayleigh quotient never exceeds the operator norm -/
theorem rq_le_opNorm (B : E →L[ℝ] E) (v : E) (hv : v ≠ 0) : rq B v ≤ ‖B‖ := by
  unfold rq
  have hn : 0 < ‖v‖ := norm_pos_iff.2 hv
  rw [div_le_iff₀ (by positivity)]
  calc inner ℝ v (B v) ≤ ‖v‖ * ‖B v‖ := real_inner_le_norm _ _
    _ ≤ ‖v‖ * (‖B‖ * ‖v‖) := by gcongr; exact B.le_opNorm v
    _ = ‖B‖ * (‖v‖ * ‖v‖) := by ring

/-- every value the loop leaves in `mu` is bounded by `M`, if the incoming one and all Rayleigh quotients are -/
theorem powerLoop_le (B : E →L[ℝ] E) (M : ℝ) (hM0 : 0 ≤ M) (hM : ∀ v, v ≠ 0 → rq B v ≤ M) :
    ∀ (k : Nat) (mu : Option ℝ) (v : E), v ≠ 0 → (∀ m, mu = some m → m ≤ M) →
      ∀ m, (powerLoop (opsOf B) k mu v).1 = some m → m ≤ M := by
  intro k
  induction k with
  | zero => intro mu v _ hmu m hm; exact hmu m (by simpa [powerLoop] using hm)
  | succ k ih =>
    intro mu v hv _ m hm
    by_cases h : B v = 0
    · rw [powerLoop_succ_zero B k mu v h] at hm
      simp only [Option.some.injEq] at hm
      rw [← hm]; exact hM0
    · rw [powerLoop_succ_ne B k mu v h] at hm
      refine ih (some (rq B v)) (nxt B v) (nxt_ne_zero B v h) ?_ m hm
      intro m' hm'
      simp only [Option.some.injEq] at hm'
      rw [← hm']; exact hM v hv

/-- every value the loop leaves in `mu` satisfies `P`, if `0`, the incoming one and all Rayleigh quotients do -/
theorem powerLoop_pred (B : E →L[ℝ] E) (P : ℝ → Prop) (hP0 : P 0) (hP : ∀ v, v ≠ 0 → P (rq B v)) :
    ∀ (k : Nat) (mu : Option ℝ) (v : E), v ≠ 0 → (∀ m, mu = some m → P m) →
      ∀ m, (powerLoop (opsOf B) k mu v).1 = some m → P m := by
  intro k
  induction k with
  | zero => intro mu v _ hmu m hm; exact hmu m (by simpa [powerLoop] using hm)
  | succ k ih =>
    intro mu v hv _ m hm
    by_cases h : B v = 0
    · rw [powerLoop_succ_zero B k mu v h] at hm
      simp only [Option.some.injEq] at hm
      rw [← hm]; exact hP0
    · rw [powerLoop_succ_ne B k mu v h] at hm
      refine ih (some (rq B v)) (nxt B v) (nxt_ne_zero B v h) ?_ m hm
      intro m' hm'
      simp only [Option.some.injEq] at hm'
      rw [← hm']; exact hP v hv

/-- at least one iteration leaves `mu` bound -/
theorem powerLoop_isSome (B : E →L[ℝ] E) (k : Nat) (mu : Option ℝ) (v : E) :
    ∃ m, (powerLoop (opsOf B) (k + 1) mu v).1 = some m := by
  induction k generalizing mu v with
  | zero =>
    by_cases h : B v = 0
    · exact ⟨0, by rw [powerLoop_succ_zero B 0 mu v h]⟩
    · exact ⟨rq B v, by rw [powerLoop_succ_ne B 0 mu v h]; rfl⟩
  | succ k ih =>
    by_cases h : B v = 0
    · exact ⟨0, by rw [powerLoop_succ_zero B _ mu v h]⟩
    · rw [powerLoop_succ_ne B _ mu v h]; exact ih _ _

/-! ### Gram operators `B = AᴴA` -/

section gram

variable {F : Type} [NormedAddCommGroup F] [InnerProductSpace ℝ F]

/-- `B` is the Gram operator of `A` -/
def IsGram (B : E →L[ℝ] E) (A : E →L[ℝ] F) : Prop := ∀ x y, inner ℝ (B x) y = inner ℝ (A x) (A y)

theorem IsGram.inner_self {B : E →L[ℝ] E} {A : E →L[ℝ] F} (h : IsGram B A) (v : E) :
    inner ℝ v (B v) = ‖A v‖ ^ 2 := by
  rw [real_inner_comm, h v v, real_inner_self_eq_norm_sq]

theorem IsGram.rq_le {B : E →L[ℝ] E} {A : E →L[ℝ] F} (h : IsGram B A) (v : E) (hv : v ≠ 0) :
    rq B v ≤ ‖A‖ ^ 2 := by
  unfold rq
  have hn : 0 < ‖v‖ := norm_pos_iff.2 hv
  rw [div_le_iff₀ (by positivity), h.inner_self]
  have := A.le_opNorm v
  have h0 : 0 ≤ ‖A v‖ := norm_nonneg _
  nlinarith [mul_self_le_mul_self h0 this]

theorem IsGram.rq_nonneg {B : E →L[ℝ] E} {A : E →L[ℝ] F} (h : IsGram B A) (v : E) : 0 ≤ rq B v := by
  unfold rq
  rw [h.inner_self]
  positivity

/-- `Bv ≠ 0 → B(Bv) ≠ 0` for a Gram operator: the loop never takes the zero exit after the first iteration -/
theorem IsGram.apply_apply_ne {B : E →L[ℝ] E} {A : E →L[ℝ] F} (h : IsGram B A) (v : E) (hv : B v ≠ 0) :
    B (B v) ≠ 0 := by
  intro h0
  apply hv
  have h1 : inner ℝ (B (B v)) v = 0 := by rw [h0, inner_zero_left]
  rw [h (B v) v] at h1
  have h2 : inner ℝ (B v) (B v) = inner ℝ (A v) (A (B v)) := h v (B v)
  rw [real_inner_comm] at h1
  rw [h1] at h2
  exact inner_self_eq_zero.1 h2

/-- the key inequality: one step of power iteration does not decrease the Rayleigh quotient -/
theorem IsGram.rq_le_rq_apply {B : E →L[ℝ] E} {A : E →L[ℝ] F} (h : IsGram B A) (v : E) (hv : v ≠ 0)
    (hBv : B v ≠ 0) : rq B v ≤ rq B (B v) := by
  unfold rq
  have hn : 0 < ‖v‖ * ‖v‖ := by have := norm_pos_iff.2 hv; positivity
  have hb : 0 < ‖B v‖ * ‖B v‖ := by have := norm_pos_iff.2 hBv; positivity
  rw [div_le_div_iff₀ hn hb]
  -- a = ⟪v,Bv⟫ = ‖Av‖², b = ‖Bv‖², c = ⟪Bv,BBv⟫ = ‖ABv‖², n = ‖v‖²
  set a := inner ℝ v (B v) with ha
  set c := inner ℝ (B v) (B (B v)) with hc
  have ha' : a = ‖A v‖ ^ 2 := h.inner_self v
  have hc' : c = ‖A (B v)‖ ^ 2 := h.inner_self (B v)
  have ha0 : 0 ≤ a := by rw [ha']; positivity
  have hc0 : 0 ≤ c := by rw [hc']; positivity
  -- a ≤ ‖v‖‖Bv‖
  have h1 : a ≤ ‖v‖ * ‖B v‖ := real_inner_le_norm _ _
  -- ‖Bv‖² = ⟪Av, A Bv⟫ ≤ ‖Av‖ ‖ABv‖
  have h2 : ‖B v‖ * ‖B v‖ ≤ ‖A v‖ * ‖A (B v)‖ := by
    have : inner ℝ (B v) (B v) = inner ℝ (A v) (A (B v)) := h v (B v)
    rw [real_inner_self_eq_norm_mul_norm] at this
    rw [this]; exact real_inner_le_norm _ _
  -- squares
  have h1s : a * a ≤ (‖v‖ * ‖v‖) * (‖B v‖ * ‖B v‖) := by
    have := mul_self_le_mul_self ha0 h1
    nlinarith [this]
  have h2s : (‖B v‖ * ‖B v‖) * (‖B v‖ * ‖B v‖) ≤ a * c := by
    have hnn : 0 ≤ ‖B v‖ * ‖B v‖ := le_of_lt hb
    have := mul_self_le_mul_self hnn h2
    rw [ha', hc']; nlinarith [this]
  -- conclude a * b ≤ c * n
  set b := ‖B v‖ * ‖B v‖ with hbdef
  set n := ‖v‖ * ‖v‖ with hndef
  by_contra hcon
  push Not at hcon
  -- hcon : c * n < a * b
  have hab : 0 < a * b := lt_of_le_of_lt (mul_nonneg hc0 (le_of_lt hn)) hcon
  have ha_pos : 0 < a := by
    rcases ha0.lt_or_eq with h' | h'
    · exact h'
    · rw [← h'] at hab; simp at hab
  -- (a b)² ≤ (a a)(b b) ≤ (n b)(a c) = (a b)(c n)
  have : (a * b) * (a * b) ≤ (a * b) * (c * n) := by
    calc (a * b) * (a * b) = (a * a) * (b * b) := by ring
      _ ≤ (n * b) * (a * c) := mul_le_mul h1s h2s (by positivity) (by positivity)
      _ = (a * b) * (c * n) := by ring
  have := le_of_mul_le_mul_left this hab
  linarith

end gram

theorem rq_smul (B : E →L[ℝ] E) (c : ℝ) (hc : c ≠ 0) (w : E) : rq B (c • w) = rq B w := by
  unfold rq
  rw [map_smul, inner_smul_left, inner_smul_right, norm_smul]
  by_cases hw : ‖w‖ = 0
  · simp [hw]
  · have : ‖c‖ ≠ 0 := norm_ne_zero_iff.2 hc
    have hcc : ‖c‖ * ‖c‖ = c * c := by rw [Real.norm_eq_abs, abs_mul_abs_self]
    simp only [conj_trivial]
    rw [show ‖c‖ * ‖w‖ * (‖c‖ * ‖w‖) = (c * c) * (‖w‖ * ‖w‖) by rw [← hcc]; ring]
    field_simp

/-! ### the run of the loop for a Gram operator -/

/-- the iterates `v, nxt v, nxt (nxt v), …` -/
noncomputable def itv (B : E →L[ℝ] E) : E → Nat → E
  | v, 0 => v
  | v, k + 1 => itv B (nxt B v) k

section gramrun

variable {F : Type} [NormedAddCommGroup F] [InnerProductSpace ℝ F]

theorem IsGram.apply_nxt_ne {B : E →L[ℝ] E} {A : E →L[ℝ] F} (h : IsGram B A) (v : E) (hv : B v ≠ 0) :
    B (nxt B v) ≠ 0 := by
  unfold nxt
  rw [map_smul]
  exact smul_ne_zero (inv_ne_zero (norm_ne_zero_iff.2 hv)) (h.apply_apply_ne v hv)

/-- without the zero exit, `k+1` iterations leave the Rayleigh quotient of the `k`-th iterate in `mu` -/
theorem IsGram.powerLoop_run {B : E →L[ℝ] E} {A : E →L[ℝ] F} (h : IsGram B A) :
    ∀ (k : Nat) (mu : Option ℝ) (v : E), B v ≠ 0 →
      (powerLoop (opsOf B) (k + 1) mu v).1 = some (rq B (itv B v k)) := by
  intro k
  induction k with
  | zero => intro mu v hv; rw [powerLoop_succ_ne B 0 mu v hv]; rfl
  | succ k ih =>
    intro mu v hv
    rw [powerLoop_succ_ne B (k + 1) mu v hv, ih _ _ (h.apply_nxt_ne v hv)]
    rfl

theorem IsGram.rq_itv_mono {B : E →L[ℝ] E} {A : E →L[ℝ] F} (h : IsGram B A) :
    ∀ (k : Nat) (v : E), v ≠ 0 → B v ≠ 0 → rq B (itv B v k) ≤ rq B (itv B v (k + 1)) := by
  intro k
  induction k with
  | zero =>
    intro v hv hBv
    show rq B v ≤ rq B (nxt B v)
    unfold nxt
    rw [rq_smul B _ (inv_ne_zero (norm_ne_zero_iff.2 hBv))]
    exact h.rq_le_rq_apply v hv hBv
  | succ k ih =>
    intro v hv hBv
    exact ih (nxt B v) (nxt_ne_zero B v hBv) (h.apply_nxt_ne v hBv)

/-- the estimate after `k+1` iterations does not exceed the estimate after `k+2` -/
theorem IsGram.powerLoop_mono {B : E →L[ℝ] E} {A : E →L[ℝ] F} (h : IsGram B A) (k : Nat) (v : E) (hv : v ≠ 0)
    (m m' : ℝ) (hm : (powerLoop (opsOf B) (k + 1) none v).1 = some m)
    (hm' : (powerLoop (opsOf B) (k + 2) none v).1 = some m') : m ≤ m' := by
  by_cases hBv : B v = 0
  · rw [powerLoop_succ_zero B k none v hBv] at hm
    rw [powerLoop_succ_zero B (k + 1) none v hBv] at hm'
    simp only [Option.some.injEq] at hm hm'
    rw [← hm, ← hm']
  · rw [h.powerLoop_run k none v hBv] at hm
    rw [h.powerLoop_run (k + 1) none v hBv] at hm'
    simp only [Option.some.injEq] at hm hm'
    rw [← hm, ← hm']
    exact h.rq_itv_mono k v hv hBv

end gramrun

/-- what `power_iteration` returns, in terms of the loop (for `maxiter ≥ 1`) -/
theorem powerIteration_ok (B : E →L[ℝ] E) (maxiter : Nat) (v0 : E) (mu : ℝ) (v : E)
    (h : powerIteration (opsOf B) maxiter v0 = .ok (mu, v)) :
    1 ≤ maxiter ∧ (powerLoop (opsOf B) maxiter none (‖v0‖⁻¹ • v0)).1 = some mu := by
  unfold powerIteration at h
  split at h
  · cases h
  · rename_i hlt
    dsimp only at h
    split at h
    · rename_i m v' hp
      simp only [Except.ok.injEq, Prod.mk.injEq] at h
      obtain ⟨rfl, _⟩ := h
      refine ⟨by omega, ?_⟩
      have : (opsOf B).sdiv v0 ((opsOf B).norm v0) = ‖v0‖⁻¹ • v0 := rfl
      rw [← this, hp]
    · cases h

theorem normalize_ne_zero (v0 : E) (h : v0 ≠ 0) : ‖v0‖⁻¹ • v0 ≠ 0 :=
  smul_ne_zero (inv_ne_zero (norm_ne_zero_iff.2 h)) h


/-! ### scale equivariance: the zero test is exact, so no operator is "too small" -/

theorem rq_smul_op (B : E →L[ℝ] E) (s : ℝ) (v : E) : rq (s • B) v = s * rq B v := by
  unfold rq
  rw [ContinuousLinearMap.smul_apply, inner_smul_right, mul_div_assoc]

theorem nxt_smul_op (B : E →L[ℝ] E) (s : ℝ) (hs : 0 < s) (v : E) : nxt (s • B) v = nxt B v := by
  unfold nxt
  rw [ContinuousLinearMap.smul_apply, norm_smul, Real.norm_eq_abs, abs_of_pos hs, smul_smul, mul_inv]
  congr 1
  field_simp

theorem smul_apply_eq_zero_iff (B : E →L[ℝ] E) (s : ℝ) (hs : 0 < s) (v : E) : (s • B) v = 0 ↔ B v = 0 := by
  rw [ContinuousLinearMap.smul_apply, smul_eq_zero]
  constructor
  · rintro (h | h)
    · exact absurd h (ne_of_gt hs)
    · exact h
  · intro h; exact Or.inr h

/-- scaling the operator by `s > 0` scales every estimate by `s` and leaves the returned vector's direction
    unchanged — for *every* `s`, however small (the zero exit tests `‖Bv‖ = 0` exactly) -/
theorem powerLoop_smul_op (B : E →L[ℝ] E) (s : ℝ) (hs : 0 < s) :
    ∀ (k : Nat) (mu : Option ℝ) (v : E),
      (powerLoop (opsOf (s • B)) k (mu.map (s * ·)) v).1 = (powerLoop (opsOf B) k mu v).1.map (s * ·) := by
  intro k
  induction k with
  | zero => intro mu v; rfl
  | succ k ih =>
    intro mu v
    by_cases h : B v = 0
    · rw [powerLoop_succ_zero B k mu v h,
        powerLoop_succ_zero (s • B) k _ v ((smul_apply_eq_zero_iff B s hs v).2 h)]
      simp
    · rw [powerLoop_succ_ne B k mu v h,
        powerLoop_succ_ne (s • B) k _ v (fun h' => h ((smul_apply_eq_zero_iff B s hs v).1 h')),
        rq_smul_op, nxt_smul_op B s hs]
      exact ih (some (rq B v)) (nxt B v)

end Scico.Estim
