/-
  Links between the source tables (`Model/EstimSource.lean`, kept equal to the scico source by `Generated/EstimTables.lean`) and
  the model functions the theorems are about.
-/
import Scico.Model.EstimSource
import Scico.Proofs.EstimNorms

set_option linter.unusedSectionVars false

namespace Scico.Estim

/-- `diagKey` (the model of the remapping in `Diagonal.norm`) is the remapping chain read from the source -/
theorem diagKey_eq_remap (o : Ord) : diagKey o = remapOrd diagRemap o := by
  cases o with
  | int k =>
    by_cases h1 : k = -1
    · subst h1; decide
    by_cases h2 : k = -2
    · subst h2; decide
    by_cases h3 : k = 1
    · subst h3; decide
    by_cases h4 : k = 2
    · subst h4; decide
    have hk : diagKey (.int k) = .int k := by
      unfold diagKey
      split <;> simp_all
    rw [hk]
    simp [remapOrd, diagRemap, List.find?, h1, h2, h3, h4]
  | _ => decide

/-- the orders `Diagonal.norm` accepts after remapping are exactly the keys of `ordfunc`; everything else is a `ValueError` -/
theorem diagNorm_reject_of_not_key (o : Ord) (d : List ℝ)
    (h : (diagOrdFunc.map (·.1)).contains (diagKey o) = false) : diagNorm o d = .error "value" := by
  unfold diagNorm
  generalize hk : diagKey o = key at h
  cases key with
  | int k => rfl
  | other => rfl
  | none => rfl
  | fro => exact absurd h (by decide)
  | nuc => exact absurd h (by decide)
  | pinf => exact absurd h (by decide)
  | ninf => exact absurd h (by decide)

theorem diagNorm_of_key (o : Ord) (d : List ℝ)
    (h : (diagOrdFunc.map (·.1)).contains (diagKey o) = true) : diagNorm o d = absNorm (diagKey o) (d.map HasAbs.abs) := by
  unfold diagNorm
  generalize hk : diagKey o = key at h
  cases key with
  | int k => exact absurd h (by simp [diagOrdFunc])
  | other => exact absurd h (by decide)
  | none => exact absurd h (by decide)
  | fro => rfl
  | nuc => rfl
  | pinf => rfl
  | ninf => rfl

/-- `scaledIdNorm` is the if-chain of `ScaledIdentity.norm` read from the source: the branch listing the order decides
    between `|c|·√N`, `|c|·N`, `|c|`; an order listed nowhere is a `ValueError` -/
theorem scaledIdNorm_eq_branches (o : Ord) (ac sN nN : ℝ) :
    scaledIdNorm o ac sN nN =
      match branchOf sidBranches o with
      | some "snp.abs(scalar) * snp.sqrt(N)" => .ok (ac * sN)
      | some "snp.abs(scalar) * N" => .ok (ac * nN)
      | some "snp.abs(scalar)" => .ok ac
      | _ => .error "value" := by
  cases o with
  | int k =>
    by_cases h1 : k = -1
    · subst h1; rfl
    by_cases h2 : k = -2
    · subst h2; rfl
    by_cases h3 : k = 1
    · subst h3; rfl
    by_cases h4 : k = 2
    · subst h4; rfl
    have hk : scaledIdNorm (.int k) ac sN nN = .error "value" := by
      unfold scaledIdNorm
      split <;> simp_all
    rw [hk]
    have hb : branchOf sidBranches (.int k) = Option.none := by
      simp [branchOf, sidBranches, List.find?, h1, h2, h3, h4]
    rw [hb]
  | _ => rfl

/-- the number a literal denotes -/
noncomputable def PyLit.toReal : PyLit → Option ℝ
  | .int n => some (n : ℝ)
  | .dec m e => some ((m : ℝ) / 10 ^ e)
  | _ => Option.none

/-- the defaults of the three estimators: safety factor `1.01 > 1`, ratio `1.0 > 0`, budget 100 ≥ the smallest accepted
    budget 1; `factor=None` is replaced by exactly `1.0` -/
theorem estimator_defaults :
    (defaultOf estimSignatures "PDHG.estimate_parameters" "factor").bind PyLit.toReal = some (101 / 10 ^ 2 : ℝ) ∧
    (defaultOf estimSignatures "ProximalADMM.estimate_parameters" "factor").bind PyLit.toReal = some (101 / 10 ^ 2 : ℝ) ∧
    (defaultOf estimSignatures "NonLinearPADMM.estimate_parameters" "factor").bind PyLit.toReal = some (101 / 10 ^ 2 : ℝ) ∧
    (defaultOf estimSignatures "PDHG.estimate_parameters" "ratio").bind PyLit.toReal = some (10 / 10 ^ 1 : ℝ) ∧
    pdhgFactorNone.toReal = some (10 / 10 ^ 1 : ℝ) ∧
    powerMinBudget = .int 1 ∧
    (∀ f ∈ ["power_iteration", "operator_norm", "PDHG.estimate_parameters", "ProximalADMM.estimate_parameters",
        "NonLinearPADMM.estimate_parameters"], defaultOf estimSignatures f "maxiter" = some (.int 100)) := by
  refine ⟨?_, ?_, ?_, ?_, ?_, rfl, ?_⟩
  · have : defaultOf estimSignatures "PDHG.estimate_parameters" "factor" = some (.dec 101 2) := by decide +kernel
    rw [this]; simp [PyLit.toReal]
  · have : defaultOf estimSignatures "ProximalADMM.estimate_parameters" "factor" = some (.dec 101 2) := by decide +kernel
    rw [this]; simp [PyLit.toReal]
  · have : defaultOf estimSignatures "NonLinearPADMM.estimate_parameters" "factor" = some (.dec 101 2) := by decide +kernel
    rw [this]; simp [PyLit.toReal]
  · have : defaultOf estimSignatures "PDHG.estimate_parameters" "ratio" = some (.dec 10 1) := by decide +kernel
    rw [this]; simp [PyLit.toReal]
  · simp [pdhgFactorNone, PyLit.toReal]
  · decide +kernel

end Scico.Estim
