/-
  Global minimisers for the NON-CONVEX functionals (C02), proved directly:
  * L0 "norm": exact characterisation of the inputs on which the coded hard threshold `|v| ≥ lam`
    is optimal (`l0_min_iff`), and optimality of the threshold `|v|² ≥ 2 lam` (`l0_spec_min`);
  * `SquaredL2AbsLoss`, `SquaredL2SquaredAbsLoss` per entry, in any real inner-product space
    (`ℝ` for real data, `ℂ` for complex data), by radial reduction to a 1-D problem.
-/
import Scico.Proofs.ProxBridge
import Mathlib.Tactic.Linarith
import Mathlib.Tactic.Positivity

set_option linter.unusedSectionVars false

namespace Scico.ProxNonconvex

open Scico Scico.Prox Scico.ProxSpec Scico.ProxBridge WithLp

variable {E : Type*} [NormedAddCommGroup E] [InnerProductSpace ℝ E]

open Classical in
/-- SPEC: the L0 penalty of one entry (real or complex) -/
noncomputable def l0Fn1 (x : E) : ℝ := if x = 0 then 0 else 1

/-- the input condition under which the CODED threshold is optimal -/
def L0Cond (t lam : ℝ) : Prop := (lam ≤ t → 2 * lam ≤ t ^ 2) ∧ (t < lam → t ^ 2 ≤ 2 * lam)

theorem l0Fn1_zero : l0Fn1 (0 : E) = 0 := by unfold l0Fn1; simp
theorem l0Fn1_ne {x : E} (hx : x ≠ 0) : l0Fn1 x = 1 := by unfold l0Fn1; simp [hx]
theorem l0Fn1_le (x : E) : l0Fn1 x ≤ 1 := by unfold l0Fn1; split_ifs <;> norm_num

/-- **exact characterisation**: keeping `v` iff `‖v‖ ≥ lam` (what `L0Norm.prox` does) is a global
    minimiser of `lam·‖x‖₀ + ½‖x-v‖²` iff `L0Cond ‖v‖ lam`. -/
theorem l0_min_iff {lam : ℝ} (hlam : 0 < lam) (v : E) :
    IsGMin Set.univ (l0Fn1 (E := E)) lam v (if ‖v‖ < lam then 0 else v) ↔ L0Cond ‖v‖ lam := by
  unfold IsGMin L0Cond
  by_cases h : ‖v‖ < lam
  · simp only [if_pos h, Set.mem_univ, true_and, zero_sub, norm_neg, forall_const, l0Fn1_zero, mul_zero, zero_add]
    constructor
    · intro H
      refine ⟨fun h' => absurd h (not_lt.mpr h'), fun _ => ?_⟩
      by_cases hv : v = 0
      · rw [hv, norm_zero]; nlinarith
      · have := H v
        rw [l0Fn1_ne hv, sub_self, norm_zero] at this
        nlinarith
    · rintro ⟨_, H⟩ x
      by_cases hx : x = 0
      · rw [hx, l0Fn1_zero, zero_sub, norm_neg]; linarith
      · rw [l0Fn1_ne hx]; nlinarith [H h, sq_nonneg ‖x - v‖]
  · have hv : v ≠ 0 := fun hv => h (by rw [hv, norm_zero]; exact hlam)
    simp only [if_neg h, l0Fn1_ne hv, Set.mem_univ, true_and, sub_self, norm_zero, forall_const, mul_one]
    push Not at h
    constructor
    · intro H
      refine ⟨fun _ => ?_, fun h' => absurd h (not_le.mpr h')⟩
      have := H 0
      rw [l0Fn1_zero, zero_sub, norm_neg] at this
      nlinarith
    · rintro ⟨H, _⟩ x
      by_cases hx : x = 0
      · rw [hx, l0Fn1_zero, zero_sub, norm_neg]; nlinarith [H h]
      · rw [l0Fn1_ne hx]; nlinarith [sq_nonneg ‖x - v‖]

/-- the threshold `‖v‖² ≥ 2 lam` is always optimal (what the minimiser actually is) -/
theorem l0_spec_min {lam : ℝ} (hlam : 0 < lam) (v : E) :
    IsGMin Set.univ (l0Fn1 (E := E)) lam v (if ‖v‖ ^ 2 < 2 * lam then 0 else v) := by
  unfold IsGMin
  refine ⟨trivial, fun x _ => ?_⟩
  by_cases h : ‖v‖ ^ 2 < 2 * lam
  · simp only [if_pos h, l0Fn1_zero, mul_zero, zero_add, zero_sub, norm_neg]
    by_cases hx : x = 0
    · rw [hx, l0Fn1_zero, zero_sub, norm_neg]; linarith
    · rw [l0Fn1_ne hx]; nlinarith [sq_nonneg ‖x - v‖]
  · have hv : v ≠ 0 := fun hv => h (by rw [hv, norm_zero]; nlinarith)
    simp only [if_neg h, l0Fn1_ne hv, sub_self, norm_zero, mul_one]
    push Not at h
    by_cases hx : x = 0
    · rw [hx, l0Fn1_zero, zero_sub, norm_neg]; nlinarith
    · rw [l0Fn1_ne hx]; nlinarith [sq_nonneg ‖x - v‖]

/-- `L0Norm.prox` on complex input, entry `i`, as a complex number -/
theorem toCn_l0ProxC_apply {n : Nat} {lam : ℝ} (v : Fin n → ℝ × ℝ) (i : Fin n) :
    toCn (l0ProxC v lam) i = if ‖toC (v i)‖ < lam then 0 else toC (v i) := by
  show toC (l0ProxC1 (v i) lam) = _
  unfold l0ProxC1; rw [cabs_eq]; split_ifs <;> rfl

/-! ### phase-retrieval losses per entry -/

/-- `SquaredL2AbsLoss` on one entry: `φ(x) = a (y - ‖x‖)²`, `a = scale·w ≥ 0`, `y ≥ 0`;
    `alpha = 2 lam a`, `b = (alpha y + ‖v‖)/(alpha + 1)`; the prox is `b` in the direction of `v`
    (any unit direction `u` when `v = 0`; the code takes `u = 1`). -/
theorem min_sqL2Abs {lam a y : ℝ} (hlam : 0 < lam) (ha : 0 ≤ a) (hy : 0 ≤ y) (v u : E) (hu : ‖u‖ = 1) :
    IsGMin Set.univ (fun x : E => a * (y - ‖x‖) ^ 2) lam v
      (if 0 < ‖v‖ then (((2 * lam * a) * y + ‖v‖) / (2 * lam * a + 1) / ‖v‖) • v
        else (((2 * lam * a) * y + ‖v‖) / (2 * lam * a + 1)) • u) := by
  set al := 2 * lam * a with hal
  have hal0 : 0 ≤ al := by positivity
  set b := (al * y + ‖v‖) / (al + 1) with hb
  have hb0 : 0 ≤ b := by have := norm_nonneg v; positivity
  have hbe : b * (al + 1) = al * y + ‖v‖ := by rw [hb]; field_simp
  set p : E := if 0 < ‖v‖ then (b / ‖v‖) • v else b • u with hp
  have hnp : ‖p‖ = b := by
    rw [hp]; split_ifs with h
    · rw [norm_smul, Real.norm_eq_abs, abs_of_nonneg (by positivity)]; field_simp
    · rw [norm_smul, Real.norm_eq_abs, abs_of_nonneg hb0, hu, mul_one]
  have hin : inner ℝ v p = ‖v‖ * b := by
    rw [hp]; split_ifs with h
    · rw [real_inner_smul_right, real_inner_self_eq_norm_sq]; field_simp
    · have : v = 0 := norm_eq_zero.mp (le_antisymm (not_lt.mp h) (norm_nonneg v))
      rw [this]; simp
  have := min_radial (R := Set.univ) (φ := fun r => a * (y - r) ^ 2) (lam := lam) (v := v) (p := p) (s := b)
    (Set.mem_univ _) hnp hin (fun r _ _ => by
      -- g(r) - g(b) = (al+1)/2 (r-b)^2
      have key : lam * (a * (y - r) ^ 2) + 1 / 2 * (r - ‖v‖) ^ 2 - (lam * (a * (y - b) ^ 2) + 1 / 2 * (b - ‖v‖) ^ 2)
          = (al + 1) / 2 * (r - b) ^ 2 + (r - b) * (b * (al + 1) - (al * y + ‖v‖)) := by
        rw [hal]; ring
      rw [hbe, sub_self, mul_zero, add_zero] at key
      have : 0 ≤ (al + 1) / 2 * (r - b) ^ 2 := by positivity
      linarith)
  exact this.congr_dom (by ext; simp)

/-- `SquaredL2SquaredAbsLoss` on one entry: `φ(x) = a (y - ‖x‖²)²`, `alpha = 4 lam a > 0`.
    HYPOTHESIS ON THE ROOT (what `_dep_cubic_root` is required to return):
    `r ≥ 0`, `alpha r³ + (1 - alpha y) r - ‖v‖ = 0`, and `r = 0` only if `alpha y ≤ 1`. -/
theorem min_sqL2SqAbs {lam a y r : ℝ} (hlam : 0 < lam) (ha : 0 < a) (v u : E) (hu : ‖u‖ = 1)
    (hr0 : 0 ≤ r) (hroot : (4 * lam * a) * r ^ 3 + (1 - (4 * lam * a) * y) * r - ‖v‖ = 0)
    (hsel : r = 0 → (4 * lam * a) * y ≤ 1) :
    IsGMin Set.univ (fun x : E => a * (y - ‖x‖ ^ 2) ^ 2) lam v
      (if 0 < ‖v‖ then r • ((1 / ‖v‖) • v) else r • u) := by
  set al := 4 * lam * a with hal
  have halpos : 0 < al := by positivity
  set p : E := if 0 < ‖v‖ then r • ((1 / ‖v‖) • v) else r • u with hp
  have hnp : ‖p‖ = r := by
    rw [hp]; split_ifs with h
    · rw [norm_smul, norm_smul, Real.norm_eq_abs, Real.norm_eq_abs, abs_of_nonneg hr0,
        abs_of_nonneg (by positivity)]; field_simp
    · rw [norm_smul, Real.norm_eq_abs, abs_of_nonneg hr0, hu, mul_one]
  have hin : inner ℝ v p = ‖v‖ * r := by
    rw [hp]; split_ifs with h
    · rw [real_inner_smul_right, real_inner_smul_right, real_inner_self_eq_norm_sq]; field_simp
    · have : v = 0 := norm_eq_zero.mp (le_antisymm (not_lt.mp h) (norm_nonneg v))
      rw [this]; simp
  have hβ : ‖v‖ = al * r ^ 3 + (1 - al * y) * r := by linarith
  have := min_radial (R := Set.univ) (φ := fun ρ => a * (y - ρ ^ 2) ^ 2) (lam := lam) (v := v) (p := p) (s := r)
    (Set.mem_univ _) hnp hin (fun ρ _ hρ => by
      have key : lam * (a * (y - ρ ^ 2) ^ 2) + 1 / 2 * (ρ - ‖v‖) ^ 2 - (lam * (a * (y - r ^ 2) ^ 2) + 1 / 2 * (r - ‖v‖) ^ 2)
          = (ρ - r) ^ 2 * (al / 4 * (ρ ^ 2 + 2 * r * ρ + 3 * r ^ 2) + (1 - al * y) / 2) := by
        rw [hβ, hal]; ring
      have hQ : 0 ≤ al / 4 * (ρ ^ 2 + 2 * r * ρ + 3 * r ^ 2) + (1 - al * y) / 2 := by
        rcases eq_or_lt_of_le hr0 with h0 | hpos
        · have := hsel h0.symm
          rw [← h0]
          have : 0 ≤ al / 4 * ρ ^ 2 := by positivity
          nlinarith
        · -- r > 0 :  r * Q(0) = al/4 r^3 + ‖v‖/2 ≥ 0
          have hq0 : 0 ≤ 3 * al / 4 * r ^ 2 + (1 - al * y) / 2 := by
            have h1 : r * (3 * al / 4 * r ^ 2 + (1 - al * y) / 2) = al / 4 * r ^ 3 + ‖v‖ / 2 := by
              rw [hβ]; ring
            have h2 : 0 ≤ al / 4 * r ^ 3 + ‖v‖ / 2 := by have := norm_nonneg v; positivity
            rw [← h1] at h2
            exact nonneg_of_mul_nonneg_right h2 hpos
          have : 0 ≤ al / 4 * (ρ ^ 2 + 2 * r * ρ) := by positivity
          nlinarith
      have : 0 ≤ (ρ - r) ^ 2 * (al / 4 * (ρ ^ 2 + 2 * r * ρ + 3 * r ^ 2) + (1 - al * y) / 2) :=
        mul_nonneg (sq_nonneg _) hQ
      linarith)
  exact this.congr_dom (by ext; simp)

/-- zero weight: the loss term vanishes and `prox v = v` -/
theorem min_zero_weight {lam : ℝ} (v : E) (g : E → ℝ) :
    IsGMin Set.univ (fun x : E => 0 * g x) lam v v :=
  ⟨trivial, fun x _ => by simp only [zero_mul, mul_zero, sub_self, norm_zero]; nlinarith [sq_nonneg ‖x - v‖]⟩

end Scico.ProxNonconvex
