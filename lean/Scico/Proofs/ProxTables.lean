/-
  Expected tables of the Prox engine (C02) for the translator `harness/prox_translate.py`: the DATA of the scico source that the
  hand-written model (`Scico/Model/Prox.lean`), the driver and the harness rely on.  `Scico/Generated/ProxTables.lean` (rewritten from
  the working tree on every run) proves `checkFlags / checkDefaults / checkDispatch / checkBases … = true` by `decide`; a change of the
  source that the model does not follow breaks one of these obligations.  Mathlib-free.

  How the tables are used:
  * `expectedFlags`    : the classes of `_norm.py`, `_indicator.py`, `_dist.py`, `loss.py` (+ `ZeroFunctional`) with the flags they set at
                         class level — the families of the tie; `covered` = classes with a C02 theorem, `excluded` = classes that advertise
                         a prox but are documented approximations (TV norms, denoisers, proximal average) or belong to C08 (wrappers);
  * `expectedDefaults` : default arguments; `dflt` looks one up — the driver serves them (`op defaults`) and the harness uses THESE values for the
                         default-constructor stream, for the band `eps` of `depCubicRoot` and for the `tol` / `maxiter` of the CG stream;
  * `expectedDispatch` : constructor guards and `isinstance` dispatch of the losses — what `wGuard`, `sqL2LossGuard`, `absLossGuard` model
                         (order: `W` type, `W` sign, then `has_prox`; `SquaredL2Loss.prox`: not linear → NotImplementedError, `Diagonal` → closed form, else CG);
  * `expectedBases`    : `Identity < ScaledIdentity < Diagonal`, so `AArg.identity` / `AArg.none` take the `Diagonal` branch.
-/
import Scico.Model.Prox

namespace Scico.ProxTables

def anchoredFiles : List String := ["_norm.py", "_indicator.py", "_dist.py", "loss.py"]

/-- (file, class, bases, class-level has_eval, class-level has_prox) of the anchored files and `ZeroFunctional` -/
def expectedFlags : List (String × String × String × String × String) := [
  ("_norm.py", "L0Norm", "Functional", "True", "True"),
  ("_norm.py", "L1Norm", "Functional", "True", "True"),
  ("_norm.py", "SquaredL2Norm", "Functional", "True", "True"),
  ("_norm.py", "L2Norm", "Functional", "True", "True"),
  ("_norm.py", "L21Norm", "Functional", "True", "True"),
  ("_norm.py", "L1MinusL2Norm", "Functional", "True", "True"),
  ("_norm.py", "HuberNorm", "Functional", "True", "True"),
  ("_norm.py", "NuclearNorm", "Functional", "True", "True"),
  ("_indicator.py", "NonNegativeIndicator", "Functional", "True", "True"),
  ("_indicator.py", "L2BallIndicator", "Functional", "True", "True"),
  ("_dist.py", "SetDistance", "Functional", "True", "True"),
  ("_dist.py", "SquaredSetDistance", "Functional", "True", "True"),
  ("_functional.py", "ZeroFunctional", "Functional", "True", "True"),
  ("loss.py", "Loss", "functional.Functional", "unset", "unset"),
  ("loss.py", "SquaredL2Loss", "Loss", "unset", "unset"),
  ("loss.py", "PoissonLoss", "Loss", "unset", "unset"),
  ("loss.py", "SquaredL2AbsLoss", "Loss", "unset", "unset"),
  ("loss.py", "SquaredL2SquaredAbsLoss", "Loss", "unset", "unset")]

/-- classes whose prox is modelled and proved in `Props/C02.lean` -/
def covered : List String :=
  ["L0Norm", "L1Norm", "SquaredL2Norm", "L2Norm", "L21Norm", "L1MinusL2Norm", "HuberNorm", "NuclearNorm", "NonNegativeIndicator",
   "L2BallIndicator", "SetDistance", "SquaredSetDistance", "ZeroFunctional"]

/-- classes that advertise `has_prox = True` at class level but are excluded by the property (documented approximations / pseudo-functionals) -/
def excluded : List String := ["TVNorm", "BM3D", "BM4D", "DnCNN"]

def isAnchored (r : String × String × String × String × String) : Bool := anchoredFiles.contains r.1 || r.2.1 == "ZeroFunctional"

/-- the anchored rows are exactly the expected ones, and every class-level `has_prox = True` anywhere is covered or excluded -/
def checkFlags (gen : List (String × String × String × String × String)) : Bool :=
  (gen.filter isAnchored == expectedFlags) &&
    gen.all (fun r => r.2.2.2.2 != "True" || covered.contains r.2.1 || excluded.contains r.2.1)

/-- callables whose COMPLETE set of defaulted parameters is pinned -/
def relevantCallables : List String := ["L21Norm.__init__", "L1MinusL2Norm.__init__", "HuberNorm.__init__", "L2BallIndicator.__init__", "SetDistance.__init__", "SquaredSetDistance.__init__", "Loss.__init__", "SquaredL2Loss.__init__", "SquaredL2AbsLoss.__init__", "SquaredL2SquaredAbsLoss.__init__", "PoissonLoss.__init__", "SquaredL2Loss.default_prox_kwargs", "_dep_cubic_root", "solver.cg", "L0Norm.prox", "L1Norm.prox", "SquaredL2Norm.prox", "L2Norm.prox", "L21Norm.prox", "L1MinusL2Norm.prox", "HuberNorm.prox", "NuclearNorm.prox", "NonNegativeIndicator.prox", "L2BallIndicator.prox", "SetDistance.prox", "SquaredSetDistance.prox", "ZeroFunctional.prox", "Loss.prox", "SquaredL2Loss.prox", "SquaredL2AbsLoss.prox", "SquaredL2SquaredAbsLoss.prox"]

/-- (callable, parameter, default as written) -/
def expectedDefaults : List (String × String × String) := [
  ("L0Norm.prox", "lam", "1.0"),
  ("L1Norm.prox", "lam", "1.0"),
  ("SquaredL2Norm.prox", "lam", "1.0"),
  ("L2Norm.prox", "lam", "1.0"),
  ("L21Norm.__init__", "l2_axis", "0"),
  ("L21Norm.prox", "lam", "1.0"),
  ("L1MinusL2Norm.__init__", "beta", "1.0"),
  ("L1MinusL2Norm.prox", "lam", "1.0"),
  ("HuberNorm.__init__", "delta", "1.0"),
  ("HuberNorm.__init__", "separable", "True"),
  ("HuberNorm.prox", "lam", "1.0"),
  ("NuclearNorm.prox", "lam", "1.0"),
  ("NonNegativeIndicator.prox", "lam", "1.0"),
  ("L2BallIndicator.__init__", "radius", "1"),
  ("L2BallIndicator.prox", "lam", "1.0"),
  ("SetDistance.__init__", "args", "()"),
  ("SetDistance.prox", "lam", "1.0"),
  ("SquaredSetDistance.__init__", "args", "()"),
  ("SquaredSetDistance.prox", "lam", "1.0"),
  ("ZeroFunctional.prox", "lam", "1.0"),
  ("Loss.__init__", "A", "None"),
  ("Loss.__init__", "f", "None"),
  ("Loss.__init__", "scale", "1.0"),
  ("Loss.prox", "lam", "1"),
  ("SquaredL2Loss.__init__", "A", "None"),
  ("SquaredL2Loss.__init__", "scale", "0.5"),
  ("SquaredL2Loss.__init__", "W", "None"),
  ("SquaredL2Loss.__init__", "prox_kwargs", "None"),
  ("SquaredL2Loss.prox", "lam", "1.0"),
  ("PoissonLoss.__init__", "A", "None"),
  ("PoissonLoss.__init__", "scale", "0.5"),
  ("SquaredL2AbsLoss.__init__", "A", "None"),
  ("SquaredL2AbsLoss.__init__", "scale", "0.5"),
  ("SquaredL2AbsLoss.__init__", "W", "None"),
  ("SquaredL2AbsLoss.prox", "lam", "1.0"),
  ("SquaredL2SquaredAbsLoss.__init__", "A", "None"),
  ("SquaredL2SquaredAbsLoss.__init__", "scale", "0.5"),
  ("SquaredL2SquaredAbsLoss.__init__", "W", "None"),
  ("SquaredL2SquaredAbsLoss.prox", "lam", "1.0"),
  ("_dep_cubic_root", "band LtE", "1e-07"),
  ("SquaredL2Loss.default_prox_kwargs", "maxiter", "100"),
  ("SquaredL2Loss.default_prox_kwargs", "tol", "1e-05"),
  ("solver.cg", "x0", "None"),
  ("solver.cg", "tol", "1e-05"),
  ("solver.cg", "atol", "0.0"),
  ("solver.cg", "maxiter", "1000"),
  ("solver.cg", "info", "True"),
  ("solver.cg", "M", "None")]

def checkDefaults (gen : List (String × String × String)) : Bool :=
  expectedDefaults.all (fun r => gen.contains r) && gen.all (fun r => !relevantCallables.contains r.1 || expectedDefaults.contains r)

/-- default of `param` of `callable` as written in the source ("" if not recorded) -/
def dflt (callable param : String) : String :=
  match expectedDefaults.find? (fun r => r.1 == callable && r.2.1 == param) with
  | some r => r.2.2
  | none => ""

def expectedDispatch : List (String × String × List String) := [
  ("Loss", "__init__", ["if A is None", "if self.f is not None", "self.has_eval = bool(self.f.has_eval)", "else", "self.has_eval = type(self).__call__ is not Loss.__call__", "if self.f is not None and self.f.has_prox and isinstance(self.A, linop.Identity)", "self.has_prox = True", "else", "self.has_prox = False"]),
  ("Loss", "prox", ["if not self.has_prox", "raise NotImplementedError", "assert self.f is not None"]),
  ("Loss", "__call__", ["if self.f is None", "raise NotImplementedError"]),
  ("SquaredL2Loss", "__init__", ["if W is None", "if isinstance(W, linop.Diagonal)", "if snp.all(W.diagonal >= 0)", "else", "raise ValueError", "else", "raise TypeError", "if prox_kwargs", "if isinstance(self.A, linop.LinearOperator)", "self.has_prox = True"]),
  ("SquaredL2Loss", "prox", ["if not isinstance(self.A, linop.LinearOperator)", "raise NotImplementedError", "if isinstance(self.A, linop.Diagonal)", "if 'x0' in kwargs and kwargs['x0'] is not None", "else"]),
  ("SquaredL2Loss", "__call__", []),
  ("PoissonLoss", "__init__", []),
  ("PoissonLoss", "__call__", []),
  ("SquaredL2AbsLoss", "__init__", ["if W is None", "if isinstance(W, linop.Diagonal)", "if snp.all(W.diagonal >= 0)", "else", "raise ValueError", "else", "raise TypeError", "if isinstance(self.A, linop.Identity) and snp.all(y >= 0)", "self.has_prox = True"]),
  ("SquaredL2AbsLoss", "prox", ["if not self.has_prox", "raise NotImplementedError"]),
  ("SquaredL2AbsLoss", "__call__", []),
  ("SquaredL2SquaredAbsLoss", "__init__", ["if W is None", "if isinstance(W, linop.Diagonal)", "if snp.all(W.diagonal >= 0)", "else", "raise ValueError", "else", "raise TypeError", "if isinstance(self.A, linop.Identity) and snp.all(y >= 0)", "self.has_prox = True"]),
  ("SquaredL2SquaredAbsLoss", "prox", ["if not self.has_prox", "raise NotImplementedError"]),
  ("SquaredL2SquaredAbsLoss", "__call__", [])]

def checkDispatch (gen : List (String × String × List String)) : Bool := gen == expectedDispatch

def expectedBases : List (String × String) := [
  ("Diagonal", "LinearOperator"),
  ("ScaledIdentity", "Diagonal"),
  ("Identity", "ScaledIdentity")]

def checkBases (gen : List (String × String)) : Bool := gen == expectedBases

/-- transcribed helpers: `numpy/util.py::no_nan_divide` — the model `Scico.Prox.noNanDiv` (`if isZero y then 0 else x / y`) transcribes exactly this
    body: the denominator is tested for EXACT zero, nothing "small" is treated as zero -/
def expectedHelpers : List (String × String) := [
  ("no_nan_divide", "return snp.where(y != 0, snp.divide(x, snp.where(y != 0, y, 1)), 0)")]

def checkHelpers (gen : List (String × String)) : Bool := gen == expectedHelpers

-- the values the model side relies on, pinned (a change of the expected table without following it here does not compile)
example : dflt "_dep_cubic_root" "band LtE" = "1e-07" := by decide
example : dflt "SquaredL2Loss.default_prox_kwargs" "tol" = "1e-05" ∧ dflt "SquaredL2Loss.default_prox_kwargs" "maxiter" = "100" := by decide
example : dflt "HuberNorm.__init__" "delta" = "1.0" ∧ dflt "HuberNorm.__init__" "separable" = "True" := by decide
example : dflt "L2BallIndicator.__init__" "radius" = "1" ∧ dflt "L1MinusL2Norm.__init__" "beta" = "1.0" ∧ dflt "L21Norm.__init__" "l2_axis" = "0" := by decide
example : dflt "Loss.__init__" "scale" = "1.0" ∧ dflt "SquaredL2Loss.__init__" "scale" = "0.5" := by decide

end Scico.ProxTables
