/-
  `Cx ℝ` is Mathlib's `ℂ`: ring isomorphism compatible with conjugation and real parts, so the
  pairings of the model are the usual `Re Σ conj(gᵢ) dᵢ` / `Re Σ jgᵢ dᵢ` of complex analysis.
-/
import Scico.Proofs.AutogradAlg
import Mathlib.Data.Complex.BigOperators

namespace Scico.Autograd
open Scico

/-- the identification `Cx ℝ ≃+* ℂ` -/
def cxEquiv : Cx ℝ ≃+* ℂ where
  toFun z := ⟨z.re, z.im⟩
  invFun w := ⟨w.re, w.im⟩
  left_inv z := by cases z; rfl
  right_inv w := by cases w; rfl
  map_mul' a b := by apply Complex.ext <;> simp
  map_add' a b := by apply Complex.ext <;> simp

@[simp] theorem cxEquiv_re (z : Cx ℝ) : (cxEquiv z).re = z.re := rfl
@[simp] theorem cxEquiv_im (z : Cx ℝ) : (cxEquiv z).im = z.im := rfl

theorem cxEquiv_conj (z : Cx ℝ) : cxEquiv z.conj = (starRingEnd ℂ) (cxEquiv z) := by
  apply Complex.ext <;> simp

theorem reInner_complex {n : Nat} (g d : CVec ℝ n) :
    reInner g d = (∑ i, (starRingEnd ℂ) (cxEquiv (g i)) * cxEquiv (d i)).re := by
  rw [reInner_eq, Complex.re_sum]
  refine Finset.sum_congr rfl (fun i _ => ?_)
  simp

theorem reBdot_complex {n : Nat} (jg d : CVec ℝ n) :
    reBdot jg d = (∑ i, cxEquiv (jg i) * cxEquiv (d i)).re := by
  rw [reBdot_eq, Complex.re_sum]
  refine Finset.sum_congr rfl (fun i _ => ?_)
  simp

end Scico.Autograd
