/-
  Invariant of the checkpoint directory under any sequence of saves (`Scico.Model.Flax` §4).
-/
import Scico.Proofs.FlaxCkpt

namespace Scico.Flax

variable {σ : Type}

/-- steps strictly increasing in the order the checkpoints were written, at most `k` of them -/
def DirOk (k : Nat) (l : List (Nat × σ)) : Prop := l.Pairwise (fun a b => a.1 < b.1) ∧ l.length ≤ k

theorem dirOk_save (k : Nat) (hk : 1 ≤ k) (l : List (Nat × σ)) (h : DirOk k l) (step : Nat) (s : σ) :
    ∃ l', save k (some l) step s = some l' ∧ DirOk k l' := by
  have _ := hk
  have acc : (∀ a ∈ l, a.1 < step) → DirOk k (lastK k (l ++ [(step, s)])) := by
    intro hlt
    refine ⟨?_, by rw [lastK_length]; exact Nat.min_le_left _ _⟩
    apply lastK_pairwise
    rw [List.pairwise_append]
    refine ⟨h.1, List.pairwise_singleton _ _, ?_⟩
    intro a ha b hb
    simp only [List.mem_singleton] at hb
    subst hb
    exact hlt a ha
  rw [save_some]
  cases hl : latest l with
  | none =>
    have hnil : l = [] := (latest_eq_none l).mp hl
    exact ⟨_, by simp, acc (by intro a ha; rw [hnil] at ha; cases ha)⟩
  | some m =>
    by_cases hm : m < step
    · exact ⟨_, by simp [hm], acc (fun a ha => Nat.lt_of_le_of_lt (((latest_eq_some l m).mp hl).2 a ha) hm)⟩
    · exact ⟨l, by simp [hm], h⟩

theorem dirOk_saveAll (k : Nat) (hk : 1 ≤ k) (ps : List (Nat × σ)) :
    ∀ l : List (Nat × σ), DirOk k l → ∃ l', saveAll k (some l) ps = some l' ∧ DirOk k l' := by
  induction ps with
  | nil => intro l h; exact ⟨l, rfl, h⟩
  | cons p ps ih =>
    intro l h
    obtain ⟨l1, h1, hok⟩ := dirOk_save k hk l h p.1 p.2
    obtain ⟨l2, h2, hok2⟩ := ih l1 hok
    exact ⟨l2, by simp only [saveAll, h1, h2], hok2⟩

end Scico.Flax
