/-
  `scico.random` wrappers (`_add_seed`): specification of the effective key and the
  characterisation of the code-shaped `addSeed` against it (C13, round 2).
-/
import Scico.Proofs.Block

namespace Scico.Block


/-- which key the draw uses: the given key; else `PRNGKey(seed)`; else `PRNGKey(0)` -/
inductive EffKey {κ σ β : Type} (P : RngPrims κ σ β) : RVal κ σ β → RVal κ σ β → RVal κ σ β → Prop where
  | given (key seed) : key.isNone = false → seed.isNone = true → EffKey P key seed key
  | seeded (key seed k) : key.isNone = true → seed.isNone = false → P.prngKey seed = .ok k →
      EffKey P key seed (.oth (.key k))
  | default (key seed k) : key.isNone = true → seed.isNone = true →
      P.prngKey (.oth (.seed P.seed0)) = .ok k → EffKey P key seed (.oth (.key k))

variable {κ σ β ρ : Type}

theorem addSeed_ok (P : RngPrims κ σ β) (np : Nat)
    (f : RVal κ σ β → List (RVal κ σ β) → List (String × RVal κ σ β) → Res ρ)
    (args : List (RVal κ σ β)) (kwKey kwSeed : RVal κ σ β) (kwargs : List (String × RVal κ σ β))
    (r : ρ) (k' : κ) (h : addSeed P np f args kwKey kwSeed kwargs = .ok (r, k')) :
    ∃ k, EffKey P (keyOf np args kwKey) (seedOf np args kwSeed) k ∧
      f k (args.take (np - 1)) kwargs = .ok r ∧ P.split0 k = .ok k' := by
  unfold addSeed addSeedCore at h
  generalize keyOf np args kwKey = key at h ⊢
  generalize seedOf np args kwSeed = seed at h ⊢
  cases hk : key.isNone <;> cases hs : seed.isNone <;> simp only [hk, hs, Bool.not_false, Bool.not_true,
    Bool.and_self, Bool.and_false, Bool.false_and, if_true, if_false, Bool.false_eq_true] at h
  · cases h
  · -- key given
    cases hf : f key (List.take (np - 1) args) kwargs with
    | error e => simp [hf] at h
    | ok r0 =>
      cases hsp : P.split0 key with
      | error e => simp [hf, hsp] at h
      | ok k0 =>
        simp [hf, hsp] at h
        obtain ⟨rfl, rfl⟩ := h
        exact ⟨key, .given key seed hk hs, hf, hsp⟩
  · cases hp : P.prngKey seed with
    | error e => simp [hp, Except.map] at h
    | ok k0 =>
      simp only [hp, Except.map] at h
      cases hf : f (.oth (.key k0)) (List.take (np - 1) args) kwargs with
      | error e => simp [hf] at h
      | ok r0 =>
        cases hsp : P.split0 (.oth (.key k0)) with
        | error e => simp [hf, hsp] at h
        | ok k1 =>
          simp [hf, hsp] at h
          obtain ⟨rfl, rfl⟩ := h
          exact ⟨_, .seeded key seed k0 hk hs hp, hf, hsp⟩
  · cases hp : P.prngKey (.oth (.seed P.seed0)) with
    | error e => simp [hp, Except.map] at h
    | ok k0 =>
      simp only [hp, Except.map] at h
      cases hf : f (.oth (.key k0)) (List.take (np - 1) args) kwargs with
      | error e => simp [hf] at h
      | ok r0 =>
        cases hsp : P.split0 (.oth (.key k0)) with
        | error e => simp [hf, hsp] at h
        | ok k1 =>
          simp [hf, hsp] at h
          obtain ⟨rfl, rfl⟩ := h
          exact ⟨_, .default key seed k0 hk hs hp, hf, hsp⟩

theorem addSeed_of (P : RngPrims κ σ β) (np : Nat)
    (f : RVal κ σ β → List (RVal κ σ β) → List (String × RVal κ σ β) → Res ρ)
    (args : List (RVal κ σ β)) (kwKey kwSeed : RVal κ σ β) (kwargs : List (String × RVal κ σ β))
    (k : RVal κ σ β) (r : ρ) (k' : κ)
    (hk : EffKey P (keyOf np args kwKey) (seedOf np args kwSeed) k)
    (hf : f k (args.take (np - 1)) kwargs = .ok r) (hs : P.split0 k = .ok k') :
    addSeed P np f args kwKey kwSeed kwargs = .ok (r, k') := by
  unfold addSeed addSeedCore
  generalize keyOf np args kwKey = key at hk ⊢
  generalize seedOf np args kwSeed = seed at hk ⊢
  cases hk with
  | given h1 h2 => simp [h1, h2, hf, hs]
  | seeded k0 h1 h2 h3 => simp [h1, h2, h3, Except.map, hf, hs]
  | default k0 h1 h2 h3 => simp [h1, h2, h3, Except.map, hf, hs]

theorem addSeed_both (P : RngPrims κ σ β) (np : Nat)
    (f : RVal κ σ β → List (RVal κ σ β) → List (String × RVal κ σ β) → Res ρ)
    (args : List (RVal κ σ β)) (kwKey kwSeed : RVal κ σ β) (kwargs : List (String × RVal κ σ β))
    (h1 : (keyOf np args kwKey).isNone = false) (h2 : (seedOf np args kwSeed).isNone = false) :
    addSeed P np f args kwKey kwSeed kwargs = .error .value := by
  unfold addSeed addSeedCore
  simp [h1, h2]


theorem pyIndex_lt {n : Nat} {k : Int} {j : Nat} (h : pyIndex n k = some j) : j < n := by
  unfold pyIndex at h
  by_cases hk : k < 0
  · simp [hk] at h
    omega
  · simp [hk] at h
    omega

theorem mem_set_self {α : Type} {l : List α} {j : Nat} (h : j < l.length) (v : α) : v ∈ l.set j v :=
  List.mem_iff_getElem.2 ⟨j, by simpa using h, List.getElem_set_self _⟩

/-! ### signature binding of the wrapped reductions -/

theorem hasKey_append {γ : Type} (k : String) (a b : List (String × γ)) :
    hasKey k (a ++ b) = (hasKey k a || hasKey k b) := by simp [hasKey, List.any_append]

theorem hasKey_zip {γ : Type} (k : String) : ∀ (ps : List String) (vs : List γ),
    hasKey k (List.zip ps vs) = decide (ps.idxOf k < vs.length ∧ ps.idxOf k < ps.length)
  | [], vs => by simp [hasKey]
  | p :: ps, [] => by simp [hasKey]
  | p :: ps, v :: vs => by
    have ih := hasKey_zip k ps vs
    simp only [hasKey] at ih ⊢
    simp only [List.zip_cons_cons, List.any_cons, ih, List.idxOf_cons]
    by_cases h : p = k
    · subst h; simp
    · have h' : (p == k) = false := by simpa using h
      simp [h']

end Scico.Block
