/-
  Further facts about the structural linearity checker (C06):

  * `accepted_reads_defined` : a variable that is not tagged `bad` is defined by an equation that reads only the inputs
    and earlier variables - so nothing the checker accepts depends on the default value `valOf` returns for an
    undefined variable;
  * `check_accepts_pureLin`  : the checker accepts every well-scoped program built from jointly linear primitives
    (it is not vacuously strict).
-/
import Scico.Proofs.Jaxpr

set_option linter.unusedSectionVars false

namespace Scico.Jaxpr

/-! ### accepted variables read only defined variables
  (`valOf` answers `0` for an undefined variable; nothing the checker accepts depends on that default) -/

theorem tagOf_ne_bad_lt {tags : List Tag} {i : Nat} (h : tagOf tags i ≠ .bad) : i < tags.length := by
  by_contra hlt
  apply h
  unfold tagOf
  rw [List.getElem?_eq_none (by omega)]
  rfl

theorem join_ne_bad {a b : Tag} (h : a.join b ≠ .bad) : a ≠ .bad ∧ b ≠ .bad := by
  rcases a with ⟨_ | _⟩ | _ | _ | _ | _ <;> rcases b with ⟨_ | _⟩ | _ | _ | _ | _ <;>
    simp [Tag.join] at h ⊢

theorem joinAll_ne_bad {ts : List Tag} (h : joinAll ts ≠ .bad) : ∀ t ∈ ts, t ≠ .bad := by
  induction ts with
  | nil => simp
  | cons t ts ih =>
    intro u hu
    have h' := join_ne_bad (a := t) (b := joinAll ts) h
    rcases List.mem_cons.mp hu with rfl | hu
    · exact h'.1
    · exact ih h'.2 u hu

theorem bil_ne_bad {a b : Tag} (h : a.bil b ≠ .bad) : a ≠ .bad ∧ b ≠ .bad := by
  rcases a with ⟨_ | _⟩ | _ | _ | _ | _ <;> rcases b with ⟨_ | _⟩ | _ | _ | _ | _ <;>
    simp [Tag.bil] at h ⊢

theorem div_ne_bad {a b : Tag} (h : a.div b ≠ .bad) : a ≠ .bad ∧ b ≠ .bad := by
  rcases a with ⟨_ | _⟩ | _ | _ | _ | _ <;> rcases b with ⟨_ | _⟩ | _ | _ | _ | _ <;>
    simp [Tag.div] at h ⊢

theorem re_ne_bad {a : Tag} (h : a.re ≠ .bad) : a ≠ .bad := by
  rcases a with ⟨_ | _⟩ | _ | _ | _ | _ <;> simp [Tag.re] at h ⊢

theorem cj_ne_bad {a : Tag} (h : a.cj ≠ .bad) : a ≠ .bad := by
  rcases a with ⟨_ | _⟩ | _ | _ | _ | _ <;> simp [Tag.cj] at h ⊢

theorem isConst_ne_bad {a : Tag} (h : a.isConst = true) : a ≠ .bad := by
  rcases a with ⟨_ | _⟩ | _ | _ | _ | _ <;> simp [Tag.isConst] at h ⊢

/-- an equation whose result is not `bad` reads only variables that are already defined -/
theorem stepTag_reads_defined {tags : List Tag} {e : Eqn} (h : stepTag tags e ≠ .bad) :
    (∀ a ∈ e.params, a < tags.length) ∧ ∀ a ∈ e.args, a < tags.length := by
  obtain ⟨cls, prim, params, args⟩ := e
  unfold stepTag at h
  by_cases hp : (params.all fun i => (tagOf tags i).isConst) = true
  swap
  · simp [hp] at h
  simp only [hp, if_true] at h
  refine ⟨fun a ha => tagOf_ne_bad_lt (isConst_ne_bad (List.all_eq_true.mp hp a ha)), ?_⟩
  have key : (∀ t ∈ args.map (tagOf tags), t ≠ .bad) → ∀ a ∈ args, a < tags.length :=
    fun hall a ha => tagOf_ne_bad_lt (hall _ (List.mem_map_of_mem ha))
  apply key
  cases cls with
  | lit z =>
    cases args with
    | nil => simp
    | cons a as => simp at h
  | linAll => exact joinAll_ne_bad h
  | bilinear =>
    match args, h with
    | [], h => simp at h
    | [_], h => simp at h
    | _ :: _ :: _ :: _, h => simp at h
    | [a, b], h =>
      simp only [List.map_cons, List.map_nil] at h ⊢
      have := bil_ne_bad h
      simp [this.1, this.2]
  | divLike =>
    match args, h with
    | [], h => simp at h
    | [_], h => simp at h
    | _ :: _ :: _ :: _, h => simp at h
    | [a, b], h =>
      simp only [List.map_cons, List.map_nil] at h ⊢
      have := div_ne_bad h
      simp [this.1, this.2]
  | realPart =>
    match args, h with
    | [], h => simp at h
    | _ :: _ :: _, h => simp at h
    | [a], h =>
      simp only [List.map_cons, List.map_nil] at h ⊢
      simp [re_ne_bad h]
  | conj =>
    match args, h with
    | [], h => simp at h
    | _ :: _ :: _, h => simp at h
    | [a], h =>
      simp only [List.map_cons, List.map_nil] at h ⊢
      simp [cj_ne_bad h]
  | nonlin =>
    simp only at h
    by_cases hc : ((args.map (tagOf tags)).all Tag.isConst) = true
    · exact fun t ht => isConst_ne_bad (List.all_eq_true.mp hc t ht)
    · simp [hc] at h

theorem checkEqns_length (es : List Eqn) (tags : List Tag) :
    (checkEqns es tags).length = tags.length + es.length := by
  induction es generalizing tags with
  | nil => simp [checkEqns]
  | cons e es ih => simp [checkEqns, ih]; omega

theorem checkEqns_prefix (es : List Eqn) (tags : List Tag) (i : Nat) (hi : i < tags.length) :
    tagOf (checkEqns es tags) i = tagOf tags i := by
  induction es generalizing tags with
  | nil => rfl
  | cons e es ih =>
    unfold checkEqns
    rw [ih (tags ++ [stepTag tags e]) (by simp; omega), tagOf_append]
    simp [hi]

/-- the tag of the variable defined by equation number `k` is `stepTag` of that equation in the
    environment of the variables defined before it -/
theorem checkEqns_at (es : List Eqn) (tags : List Tag) (k : Nat) (hk : k < es.length) :
    tagOf (checkEqns es tags) (tags.length + k) =
      stepTag (checkEqns (es.take k) tags) es[k] := by
  induction es generalizing tags k with
  | nil => simp at hk
  | cons e es ih =>
    cases k with
    | zero =>
      simp only [checkEqns, List.take_zero, Nat.add_zero, List.getElem_cons_zero]
      rw [checkEqns_prefix es _ _ (by simp), tagOf_append]
      simp
    | succ k =>
      have := ih (tags ++ [stepTag tags e]) k (by simpa using hk)
      simp only [List.length_append, List.length_singleton] at this
      simp only [checkEqns, List.take_succ_cons, List.getElem_cons_succ]
      rw [← this]
      congr 1
      omega

/-- **Well-scopedness of accepted variables.**  If the variable defined by equation `k` of a program is
    not tagged `bad`, that equation reads only the inputs and the variables of earlier equations. -/
theorem accepted_reads_defined (p : Prog) (k : Nat) (hk : k < p.eqns.length)
    (h : tagOf (progTags p) (p.nin + k) ≠ .bad) :
    (∀ a ∈ p.eqns[k].params, a < p.nin + k) ∧ ∀ a ∈ p.eqns[k].args, a < p.nin + k := by
  unfold progTags at h
  have hat := checkEqns_at p.eqns (List.replicate p.nin .linC) k hk
  simp only [List.length_replicate] at hat
  rw [hat] at h
  have := stepTag_reads_defined h
  simpa [checkEqns_length, Nat.min_eq_left (Nat.le_of_lt hk)] using this

/-! ### a class of programs the checker accepts (it is not vacuously strict) -/

/-- every equation is a `linAll` primitive without parameters reading defined variables -/
def PureLin (n : Nat) : List Eqn → Prop
  | [] => True
  | e :: es => e.cls = .linAll ∧ e.params = [] ∧ (∀ a ∈ e.args, a < n) ∧ PureLin (n + 1) es

theorem join_isLinC {a b : Tag} (ha : a.isLinC) (hb : b.isLinC) : (a.join b).isLinC := by
  rcases a with ⟨_ | _⟩ | _ | _ | _ | _ <;> rcases b with ⟨_ | _⟩ | _ | _ | _ | _ <;>
    simp [Tag.join, Tag.isLinC] at ha hb ⊢

theorem joinAll_isLinC {ts : List Tag} (h : ∀ t ∈ ts, t.isLinC) : (joinAll ts).isLinC := by
  induction ts with
  | nil => simp [joinAll, Tag.isLinC]
  | cons t ts ih =>
    exact join_isLinC (h t List.mem_cons_self) (ih fun u hu => h u (List.mem_cons_of_mem _ hu))

theorem checkEqns_pureLin (es : List Eqn) (tags : List Tag)
    (hinv : ∀ i, i < tags.length → (tagOf tags i).isLinC) (h : PureLin tags.length es) :
    ∀ i, i < (checkEqns es tags).length → (tagOf (checkEqns es tags) i).isLinC := by
  induction es generalizing tags with
  | nil => exact hinv
  | cons e es ih =>
    obtain ⟨hc, hp, ha, hrest⟩ := h
    unfold checkEqns
    apply ih
    · intro i hi
      rw [tagOf_append]
      by_cases h1 : i < tags.length
      · simp only [h1, if_true]; exact hinv i h1
      · have h2 : i = tags.length := by simp at hi; omega
        subst h2
        simp only [Nat.lt_irrefl, if_false, if_true]
        obtain ⟨cls, prim, params, args⟩ := e
        simp only at hc hp ha
        subst hc; subst hp
        simp only [stepTag, List.all_nil, if_true]
        exact joinAll_isLinC fun t ht => by
          obtain ⟨a, haa, rfl⟩ := List.mem_map.mp ht
          exact hinv a (ha a haa)
    · simpa using hrest

/-- **The checker accepts every well-scoped program built from jointly linear primitives only**
    (verdict `linC`, or `const true` when no output depends on the input). -/
theorem check_accepts_pureLin (p : Prog) (h : PureLin p.nin p.eqns)
    (houts : ∀ o ∈ p.outs, o < p.nin + p.eqns.length) : (check p).isLinC := by
  unfold check
  apply joinAll_isLinC
  intro t ht
  obtain ⟨o, ho, rfl⟩ := List.mem_map.mp ht
  unfold progTags
  apply checkEqns_pureLin p.eqns (List.replicate p.nin .linC)
  · intro i hi
    have : tagOf (List.replicate p.nin Tag.linC) i = .linC := by
      simp only [List.length_replicate] at hi
      simp [tagOf, hi]
    rw [this]; trivial
  · simpa using h
  · rw [checkEqns_length]; simpa using houts o ho

end Scico.Jaxpr
