/-
  Lemmas about the step-size model (`Scico.Model.StepSize`) at the IEEE-extended scalars `XR K`
  over a linear ordered field `K`.
-/
import Scico.Model.StepSize
import Mathlib.Algebra.Order.Field.Basic
import Mathlib.Tactic.Ring
import Mathlib.Tactic.Linarith
import Mathlib.Tactic.Positivity
import Mathlib.Tactic.FieldSimp

set_option linter.unusedSectionVars false

namespace Scico.StepSize

open XR

variable {K : Type} [Field K] [LinearOrder K] [IsStrictOrderedRing K]

namespace XR

@[simp] theorem zero_def : (0 : XR K) = fin 0 := rfl
@[simp] theorem one_def : (1 : XR K) = fin 1 := rfl
@[simp] theorem div_def (x y : XR K) : x / y = div x y := rfl
@[simp] theorem mul_def (x y : XR K) : x * y = mul x y := rfl
@[simp] theorem le_def (x y : XR K) : (x ≤ y) ↔ le x y = true := Iff.rfl
@[simp] theorem lt_def (x y : XR K) : (x < y) ↔ lt x y = true := Iff.rfl
@[simp] theorem isFinite_fin (a : K) : IEEE.isFinite (fin a) = true := rfl
@[simp] theorem isFinite_pinf : IEEE.isFinite (pinf : XR K) = false := rfl
@[simp] theorem isFinite_ninf : IEEE.isFinite (ninf : XR K) = false := rfl
@[simp] theorem isFinite_nan : IEEE.isFinite (nan : XR K) = false := rfl

theorem posFin_fin {a : K} : PosFin (fin a) ↔ 0 < a := by
  constructor
  · rintro ⟨b, hb, hpos⟩
    cases hb
    exact hpos
  · intro h
    exact ⟨a, rfl, h⟩

@[simp] theorem not_posFin_pinf : ¬ PosFin (pinf : XR K) := by rintro ⟨_, h, _⟩; cases h
@[simp] theorem not_posFin_ninf : ¬ PosFin (ninf : XR K) := by rintro ⟨_, h, _⟩; cases h
@[simp] theorem not_posFin_nan : ¬ PosFin (nan : XR K) := by rintro ⟨_, h, _⟩; cases h

theorem fin_div_fin {a b : K} (hb : b ≠ 0) : div (fin a) (fin b) = fin (a / b) := by
  have : b < 0 ∨ 0 < b := lt_or_gt_of_ne hb
  simp [div, this]

theorem posFin_mul {x y : XR K} (hx : PosFin x) (hy : PosFin y) : PosFin (mul x y) := by
  obtain ⟨a, rfl, ha⟩ := hx
  obtain ⟨b, rfl, hb⟩ := hy
  exact ⟨a * b, rfl, mul_pos ha hb⟩

end XR

/-- the usability test accepts exactly the finite, strictly positive numbers -/
theorem unusable_eq_false_iff (x : XR K) : unusable x = false ↔ PosFin x := by
  cases x with
  | fin a =>
    simp [unusable, XR.le, posFin_fin]
  | pinf => simp [unusable]
  | ninf => simp [unusable]
  | nan => simp [unusable]

theorem unusable_eq_true_iff (x : XR K) : unusable x = true ↔ ¬ PosFin x := by
  rw [← unusable_eq_false_iff]; cases unusable x <;> simp

/-- a quotient of two finite numbers is usable iff both have the same strict sign -/
theorem posFin_div_fin (a b : K) :
    PosFin (div (fin a) (fin b)) ↔ (0 < a ∧ 0 < b) ∨ (a < 0 ∧ b < 0) := by
  by_cases hb : b = 0
  · subst hb
    simp only [div, lt_self_iff_false, or_self, if_false]
    by_cases h1 : 0 < a
    · simp [h1]
    · by_cases h2 : a < 0
      · simp [h1, h2]
      · simp [h1, h2]
  · rw [fin_div_fin hb, posFin_fin, div_pos_iff]

/-! ### Barzilai-Borwein -/

/-- `bbRule` returns the freshly computed ratio when it is finite and positive, the previous value otherwise -/
theorem bbRule_eq (Lprev xg gg : XR K) [Decidable (PosFin (div gg xg))] :
    bbRule Lprev xg gg = if PosFin (div gg xg) then div gg xg else Lprev := by
  unfold bbRule
  simp only [div_def]
  by_cases h : PosFin (div gg xg)
  · rw [if_pos h, (unusable_eq_false_iff _).2 h]; simp
  · rw [if_neg h, (unusable_eq_true_iff _).2 h]; simp

theorem bbRule_posFin {Lprev : XR K} (h : PosFin Lprev) (xg gg : XR K) : PosFin (bbRule Lprev xg gg) := by
  classical
  rw [bbRule_eq]
  split <;> assumption

/-- finite inner products: the ratio is taken iff both have the same strict sign -/
theorem bbRule_fin (Lprev : XR K) (xg gg : K) :
    bbRule Lprev (fin xg) (fin gg) =
      if (0 < gg ∧ 0 < xg) ∨ (gg < 0 ∧ xg < 0) then fin (gg / xg) else Lprev := by
  classical
  rw [bbRule_eq, posFin_div_fin]
  split
  · rename_i h
    have : xg ≠ 0 := by rcases h with h | h <;> [exact ne_of_gt h.2; exact ne_of_lt h.2]
    rw [fin_div_fin this]
  · rfl

/-! ### adaptive Barzilai-Borwein -/

/-- memory update of one ratio: keep the new value if usable, the remembered one otherwise -/
def keep (m : Option (XR K)) (r : XR K) : Option (XR K) := if unusable r then m else some r

/-- the selection between the two (remembered or fresh) estimates -/
def abbSelect (κ Lprev : XR K) : Option (XR K) → Option (XR K) → XR K
  | some a, some b => if (a / b) < κ then b else a
  | _, _ => Lprev

theorem abbRule_eq (κ Lprev : XR K) (m1 m2 : Option (XR K)) (xx xg gg : XR K) :
    abbRule κ Lprev m1 m2 xx xg gg =
      (abbSelect κ Lprev (keep m1 (xg / xx)) (keep m2 (gg / xg)), keep m1 (xg / xx), keep m2 (gg / xg)) := by
  unfold abbRule keep abbSelect
  simp only
  split <;> split <;> simp_all

/-- an option holds only finite positive numbers -/
def OptPos (m : Option (XR K)) : Prop := ∀ a, m = some a → PosFin a

theorem keep_optPos {m : Option (XR K)} (hm : OptPos m) (r : XR K) : OptPos (keep m r) := by
  unfold keep
  by_cases h : unusable r = true
  · simpa [h] using hm
  · have h' : unusable r = false := by simpa using h
    intro a ha
    simp only [h', Bool.false_eq_true, if_false, Option.some.injEq] at ha
    subst ha
    exact (unusable_eq_false_iff _).1 h'

theorem abbSelect_posFin {κ Lprev : XR K} (hL : PosFin Lprev) {l1 l2 : Option (XR K)}
    (h1 : OptPos l1) (h2 : OptPos l2) : PosFin (abbSelect κ Lprev l1 l2) := by
  unfold abbSelect
  cases l1 with
  | none => exact hL
  | some a =>
    cases l2 with
    | none => exact hL
    | some b =>
      simp only
      split
      · exact h2 b rfl
      · exact h1 a rfl

/-- the documented selection rule, in terms of the step sizes `α = 1/L`:
    `α_BB1 = ⟨Δx,Δx⟩/⟨Δx,Δg⟩`, `α_BB2 = ⟨Δx,Δg⟩/⟨Δg,Δg⟩`, `α = α_BB2 if α_BB2/α_BB1 < κ else α_BB1` -/
def abbAlpha (k xx xg gg : K) : K :=
  if (xg / gg) / (xx / xg) < k then xg / gg else xx / xg

theorem abbRule_documented (k : K) (Lprev : XR K) (m1 m2 : Option (XR K)) {xx xg gg : K}
    (hxx : 0 < xx) (hxg : 0 < xg) (hgg : 0 < gg) :
    abbRule (fin k) Lprev m1 m2 (fin xx) (fin xg) (fin gg) =
      (fin (1 / abbAlpha k xx xg gg), some (fin (xg / xx)), some (fin (gg / xg))) := by
  have h1 : keep m1 (fin xg / fin xx) = some (fin (xg / xx)) := by
    have hp : PosFin (fin (xg / xx) : XR K) := posFin_fin.2 (div_pos hxg hxx)
    simp [keep, fin_div_fin (ne_of_gt hxx), (unusable_eq_false_iff _).2 hp]
  have h2 : keep m2 (fin gg / fin xg) = some (fin (gg / xg)) := by
    have hp : PosFin (fin (gg / xg) : XR K) := posFin_fin.2 (div_pos hgg hxg)
    simp [keep, fin_div_fin (ne_of_gt hxg), (unusable_eq_false_iff _).2 hp]
  rw [abbRule_eq, h1, h2]
  have hne : gg / xg ≠ 0 := ne_of_gt (div_pos hgg hxg)
  have hratio : (xg / xx) / (gg / xg) = (xg / gg) / (xx / xg) := by
    field_simp
  simp only [abbSelect, div_def, fin_div_fin hne, lt_def, XR.lt, decide_eq_true_eq, hratio, abbAlpha]
  split
  · congr 2; field_simp
  · congr 2; field_simp

/-- memory after a list of calls, oldest first (`(xx, xg, gg)` per call) -/
def abbMem : Option (XR K) × Option (XR K) → List (XR K × XR K × XR K) → Option (XR K) × Option (XR K)
  | m, [] => m
  | m, (xx, xg, gg) :: t => abbMem (keep m.1 (xg / xx), keep m.2 (gg / xg)) t

/-- specification of the memory: the most recent usable element of a list of ratios (oldest first) -/
def lastUsable : List (XR K) → Option (XR K)
  | [] => none
  | r :: t => match lastUsable t with
    | some v => some v
    | none => if unusable r then none else some r

theorem abbMem_eq (m : Option (XR K) × Option (XR K)) (h : List (XR K × XR K × XR K)) :
    abbMem m h =
      ((lastUsable (h.map fun c => c.2.1 / c.1)).orElse (fun _ => m.1),
       (lastUsable (h.map fun c => c.2.2 / c.2.1)).orElse (fun _ => m.2)) := by
  induction h generalizing m with
  | nil => simp [abbMem, lastUsable]
  | cons c t ih =>
    obtain ⟨xx, xg, gg⟩ := c
    simp only [abbMem, List.map_cons, lastUsable]
    rw [ih]
    congr 1
    · cases lastUsable (t.map fun c => c.2.1 / c.1) with
      | some v => simp
      | none => simp only [Option.orElse_none, keep]; split <;> simp
    · cases lastUsable (t.map fun c => c.2.2 / c.2.1) with
      | some v => simp
      | none => simp only [Option.orElse_none, keep]; split <;> simp

/-! ### the search loop -/

/-- `L·γ·γ·…·γ` (`k` factors), multiplied in the order the loop does -/
def geom {S : Type} [Mul S] (L γ : S) : Nat → S
  | 0 => L
  | k + 1 => geom (L * γ) γ k

theorem searchLoop_spec {S β : Type} [Mul S] (γu : S) (trial : Nat → S → β) (ok : S → β → Bool) :
    ∀ (fuel it : Nat) (L L' : S) (b : β) (n : Nat),
      searchLoop γu trial ok fuel it L = some (L', b, n) →
      ∃ k, k < fuel ∧ n = it + k + 1 ∧ L' = geom L γu k ∧ b = trial (it + k) L' ∧
        (∀ j, j < k → ok (geom L γu j) (trial (it + j) (geom L γu j)) = false) ∧
        (ok L' b = true ∨ k + 1 = fuel) := by
  intro fuel
  induction fuel with
  | zero => intro it L L' b n h; simp [searchLoop] at h
  | succ f ih =>
    intro it L L' b n h
    simp only [searchLoop] at h
    by_cases hok : ok L (trial it L) = true
    · simp only [hok, if_true, Option.some.injEq, Prod.mk.injEq] at h
      obtain ⟨rfl, rfl, rfl⟩ := h
      exact ⟨0, by omega, by omega, rfl, rfl, by intro j hj; omega, Or.inl hok⟩
    · simp only [hok, Bool.false_eq_true, if_false] at h
      cases f with
      | zero =>
        simp only [Option.some.injEq, Prod.mk.injEq] at h
        obtain ⟨rfl, rfl, rfl⟩ := h
        exact ⟨0, by omega, by omega, rfl, rfl, by intro j hj; omega, Or.inr rfl⟩
      | succ f' =>
        simp only at h
        obtain ⟨k, hk, hn, hL, hb, hrej, hlast⟩ := ih (it + 1) (L * γu) L' b n h
        refine ⟨k + 1, by omega, by omega, hL, ?_, ?_, ?_⟩
        · rw [hb]; congr 1; omega
        · intro j hj
          cases j with
          | zero => simpa [geom] using hok
          | succ j' =>
            have := hrej j' (by omega)
            simp only [geom]
            rw [show it + (j' + 1) = it + 1 + j' by omega]
            exact this
        · rcases hlast with h1 | h1
          · exact Or.inl h1
          · exact Or.inr (by omega)

theorem searchLoop_none_iff {S β : Type} [Mul S] (γu : S) (trial : Nat → S → β) (ok : S → β → Bool)
    (fuel it : Nat) (L : S) : searchLoop γu trial ok fuel it L = none ↔ fuel = 0 := by
  induction fuel generalizing it L with
  | zero => simp [searchLoop]
  | succ n ih =>
    simp only [searchLoop]
    split
    · simp
    · cases n with
      | zero => simp
      | succ m => simp [ih]

theorem geom_fin (l g : K) (k : Nat) : geom (fin l : XR K) (fin g) k = fin (l * g ^ k) := by
  induction k generalizing l with
  | zero => simp [geom]
  | succ k ih =>
    simp only [geom, mul_def, XR.mul]
    rw [ih]
    congr 1
    ring

theorem geom_posFin {L γ : XR K} (hL : PosFin L) (hγ : PosFin γ) (k : Nat) : PosFin (geom L γ k) := by
  induction k generalizing L with
  | zero => exact hL
  | succ k ih => exact ih (posFin_mul hL hγ)

theorem searchLoop_posFin {β : Type} {γu L : XR K} (hγ : PosFin γu) (hL : PosFin L)
    (trial : Nat → XR K → β) (ok : XR K → β → Bool) (fuel it : Nat) {L' : XR K} {b : β} {n : Nat}
    (h : searchLoop γu trial ok fuel it L = some (L', b, n)) : PosFin L' := by
  obtain ⟨k, _, _, hL', _⟩ := searchLoop_spec γu trial ok fuel it L L' b n h
  rw [hL']
  exact geom_posFin hL hγ k

/-! ### the policies on an arbitrary environment -/

section env

variable {V : Type} [HasSqrt K]

/-- admissible constructor arguments: `γ_u`, `γ_d` finite and positive (in particular `γ_u > 1`, `0 < γ_d < 1`) -/
def PolOK : Policy (XR K) → Prop
  | .ls γu _ => PosFin γu
  | .rls γd γu _ => PosFin γd ∧ PosFin γu
  | _ => True

theorem update_posFin (env : Env V (XR K)) (pol : Policy (XR K)) (hpol : PolOK pol) (x : V) {L : XR K}
    (ps : PolState V (XR K)) (v : V) (hL : PosFin L) (h1 : OptPos ps.l1) (h2 : OptPos ps.l2)
    {L' : XR K} {ps' : PolState V (XR K)} (h : update env pol x L ps v = some (L', ps')) :
    PosFin L' ∧ OptPos ps'.l1 ∧ OptPos ps'.l2 := by
  cases pol with
  | base =>
    simp only [update, Option.some.injEq, Prod.mk.injEq] at h
    obtain ⟨rfl, rfl⟩ := h
    exact ⟨hL, h1, h2⟩
  | bb =>
    simp only [update] at h
    cases hp : ps.prev with
    | none =>
      simp only [hp, Option.some.injEq, Prod.mk.injEq] at h
      obtain ⟨rfl, rfl⟩ := h
      exact ⟨hL, h1, h2⟩
    | some q =>
      obtain ⟨xp, gp⟩ := q
      simp only [hp, Option.some.injEq, Prod.mk.injEq] at h
      obtain ⟨rfl, rfl⟩ := h
      exact ⟨bbRule_posFin hL _ _, h1, h2⟩
  | abb κ =>
    simp only [update] at h
    cases hp : ps.prev with
    | none =>
      simp only [hp, Option.some.injEq, Prod.mk.injEq] at h
      obtain ⟨rfl, rfl⟩ := h
      exact ⟨hL, h1, h2⟩
    | some q =>
      obtain ⟨xp, gp⟩ := q
      simp only [hp, Option.some.injEq, Prod.mk.injEq] at h
      obtain ⟨rfl, rfl⟩ := h
      simp only [abbRule_eq]
      exact ⟨abbSelect_posFin hL (keep_optPos h1 _) (keep_optPos h2 _), keep_optPos h1 _, keep_optPos h2 _⟩
  | ls γu maxiter =>
    simp only [update] at h
    split at h
    · simp only [Option.some.injEq, Prod.mk.injEq] at h
      obtain ⟨rfl, rfl⟩ := h
      exact ⟨hL, h1, h2⟩
    · rename_i L'' z n hs
      simp only [Option.some.injEq, Prod.mk.injEq] at h
      obtain ⟨rfl, rfl⟩ := h
      exact ⟨searchLoop_posFin hpol hL _ _ _ _ hs, h1, h2⟩
  | rls γd γu maxiter =>
    simp only [update] at h
    split at h
    · cases h
    · rename_i L'' t T y z n hs
      simp only [Option.some.injEq, Prod.mk.injEq] at h
      obtain ⟨rfl, rfl⟩ := h
      exact ⟨searchLoop_posFin hpol.2 (posFin_mul hL hpol.1) _ _ _ _ hs, h1, h2⟩

/-- the invariant carried along a solver run -/
def Inv (s : PGMState V (XR K)) : Prop := PosFin s.L ∧ OptPos s.ps.l1 ∧ OptPos s.ps.l2

theorem pgmStep_inv (env : Env V (XR K)) (pol : Policy (XR K)) (hpol : PolOK pol) {s s' : PGMState V (XR K)}
    (hs : Inv s) (h : pgmStep env pol s = some s') : Inv s' := by
  unfold pgmStep at h
  split at h
  · cases h
  · rename_i L ps hu
    simp only [Option.some.injEq] at h
    subst h
    exact update_posFin env pol hpol _ _ _ hs.1 hs.2.1 hs.2.2 hu

theorem apgmStep_inv (env : Env V (XR K)) (pol : Policy (XR K)) (hpol : PolOK pol) {s s' : PGMState V (XR K)}
    (hs : Inv s) (h : apgmStep env pol s = some s') : Inv s' := by
  unfold apgmStep at h
  simp only at h
  split at h
  · cases h
  · rename_i L ps hu
    have hinv := update_posFin env pol hpol _ _ _ hs.1 hs.2.1 hs.2.2 hu
    split at h
    · split at h
      · cases h
      · simp only [Option.some.injEq] at h
        subst h
        exact hinv
    · simp only [Option.some.injEq] at h
      subst h
      exact hinv

theorem iterate_inv (step : PGMState V (XR K) → Option (PGMState V (XR K)))
    (hstep : ∀ s s', Inv s → step s = some s' → Inv s') :
    ∀ (k : Nat) (s s' : PGMState V (XR K)), Inv s → iterate step k s = some s' → Inv s' := by
  intro k
  induction k with
  | zero => intro s s' hs h; simp only [iterate, Option.some.injEq] at h; subst h; exact hs
  | succ k ih =>
    intro s s' hs h
    simp only [iterate] at h
    split at h
    · cases h
    · rename_i s1 h1
      exact ih s1 s' (hstep s s1 hs h1) h

theorem init_inv (x0 : V) {L0 : XR K} (h : PosFin L0) (inf : XR K) : Inv (PGMState.init x0 L0 inf) := by
  refine ⟨h, ?_, ?_⟩ <;> intro a ha <;> simp [PGMState.init, PolState.init] at ha

end env

end Scico.StepSize
