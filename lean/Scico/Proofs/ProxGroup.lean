/-
  `L21Norm.prox` over an ARBITRARY grouping of the entries (`grp : Fin n → ℕ` labels the groups:
  the index along the non-reduced axes, or the block number for block input).  The certificate on
  `ℝⁿ` is assembled from the norm certificate on each group by masking and Parseval over groups.
-/
import Scico.Proofs.ProxConvex

set_option linter.unusedSectionVars false

namespace Scico.ProxGroup

open Scico Scico.Prox Scico.ProxSpec Scico.ProxBridge Scico.ProxConvex WithLp

variable {n : Nat}

/-- the labels that occur -/
def labels (grp : Fin n → ℕ) : Finset ℕ := Finset.univ.image grp

/-- SPEC: the l2,1 norm for a grouping: sum over groups of the Euclidean norm of the group -/
noncomputable def l21Fn (grp : Fin n → ℕ) (x : EuclideanSpace ℝ (Fin n)) : ℝ :=
  ∑ c ∈ labels grp, √(∑ j ∈ Finset.univ.filter (fun j => grp j = c), x j ^ 2)

/-- keep the entries of group `c`, zero elsewhere -/
noncomputable def mask (grp : Fin n → ℕ) (c : ℕ) (x : EuclideanSpace ℝ (Fin n)) : EuclideanSpace ℝ (Fin n) :=
  toE (fun j => if grp j = c then x j else 0)

@[simp] theorem mask_apply (grp : Fin n → ℕ) (c : ℕ) (x : EuclideanSpace ℝ (Fin n)) (j : Fin n) :
    mask grp c x j = if grp j = c then x j else 0 := rfl

theorem mask_sub (grp : Fin n → ℕ) (c : ℕ) (x y : EuclideanSpace ℝ (Fin n)) :
    mask grp c (x - y) = mask grp c x - mask grp c y := by
  ext j; simp only [mask_apply, PiLp.sub_apply]; split_ifs <;> simp

theorem mask_smul (grp : Fin n → ℕ) (c : ℕ) (k : ℝ) (x : EuclideanSpace ℝ (Fin n)) :
    mask grp c (k • x) = k • mask grp c x := by
  ext j; simp only [mask_apply, PiLp.smul_apply, smul_eq_mul]; split_ifs <;> simp

theorem norm_mask (grp : Fin n → ℕ) (c : ℕ) (x : EuclideanSpace ℝ (Fin n)) :
    ‖mask grp c x‖ = √(∑ j ∈ Finset.univ.filter (fun j => grp j = c), x j ^ 2) := by
  unfold mask
  rw [norm_toE, Finset.sum_filter]
  congr 1
  refine Finset.sum_congr rfl fun j _ => ?_
  split_ifs <;> ring

theorem inner_mask (grp : Fin n → ℕ) (c : ℕ) (a b : EuclideanSpace ℝ (Fin n)) :
    inner ℝ (mask grp c a) (mask grp c b) = ∑ j, if grp j = c then a j * b j else 0 := by
  rw [inner_toE]
  refine Finset.sum_congr rfl fun j _ => ?_
  simp only [mask_apply]; split_ifs <;> ring

/-- Parseval over the groups -/
theorem sum_inner_mask (grp : Fin n → ℕ) (a b : EuclideanSpace ℝ (Fin n)) :
    ∑ c ∈ labels grp, inner ℝ (mask grp c a) (mask grp c b) = inner ℝ a b := by
  simp only [inner_mask]
  rw [Finset.sum_comm, inner_toE]
  refine Finset.sum_congr rfl fun j _ => ?_
  rw [Finset.sum_ite_eq]
  have : grp j ∈ labels grp := Finset.mem_image_of_mem grp (Finset.mem_univ j)
  rw [if_pos this]

theorem l21Fn_eq (grp : Fin n → ℕ) (x : EuclideanSpace ℝ (Fin n)) :
    l21Fn grp x = ∑ c ∈ labels grp, ‖mask grp c x‖ := by
  unfold l21Fn; simp only [norm_mask]

theorem groupLen_eq (grp : Fin n → ℕ) (v : Fin n → ℝ) (i : Fin n) :
    groupLen grp v i = ‖mask grp (grp i) (toE v)‖ := by
  unfold groupLen
  rw [hasSqrt_sqrt, vsum_eq, norm_mask, Finset.sum_filter]
  congr 1
  refine Finset.sum_congr rfl fun j _ => ?_
  simp only [toE_apply]; split_ifs <;> ring

/-- the model prox restricted to a group is the norm prox of the group -/
theorem mask_l21Prox (grp : Fin n → ℕ) (c : ℕ) (v : Fin n → ℝ) {lam : ℝ} (hlam : 0 < lam) :
    mask grp c (toE (l21Prox grp v lam)) =
      (if ‖mask grp c (toE v)‖ = 0 then 0 else max (1 - lam / ‖mask grp c (toE v)‖) 0) • mask grp c (toE v) := by
  ext j
  simp only [mask_apply, PiLp.smul_apply, smul_eq_mul, toE_apply]
  by_cases hj : grp j = c
  · rw [if_pos hj]
    unfold l21Prox
    simp only [groupLen_eq, hj, posPart_eq, noNanDiv_eq]
    set L := ‖mask grp c (toE v)‖ with hL
    obtain ⟨_, _, hs⟩ := l2_coeff (norm_nonneg (mask grp c (toE v))) hlam
    rw [← hL] at hs
    by_cases h0 : L = 0
    · simp [h0]
    · rw [if_neg h0, if_neg h0, hs, if_neg h0]
      field_simp
      simp
  · simp [hj]

/-- **L2,1 over any grouping**: the model prox carries the certificate -/
theorem cert_l21 (grp : Fin n → ℕ) (v : Fin n → ℝ) {lam : ℝ} (hlam : 0 < lam) :
    Cert Set.univ (l21Fn grp) lam (toE v) (toE (l21Prox grp v lam)) := by
  refine ⟨trivial, fun z _ => ?_⟩
  rw [l21Fn_eq, l21Fn_eq, ← sum_inner_mask grp, ← Finset.sum_add_distrib]
  refine Finset.sum_le_sum fun c _ => ?_
  have h := (cert_norm hlam (mask grp c (toE v))).2 (mask grp c z) trivial
  rw [← mask_l21Prox grp c v hlam] at h
  rw [mask_smul, mask_sub, mask_sub]
  exact h

end Scico.ProxGroup
