/-
  Hand-written tables of the LinOps engine (C04): the DATA of the scico source that the model, the driver and the
  configuration grid rely on — constructor defaults, accepted option values, constants, the list of operator classes.
  `harness/linops_translate.py` re-reads the same data from the working tree on every run into
  `Scico/Generated/LinOpsTables.lean` and states `generated = modelTables` there (closed by `decide`), so a change of the
  source that this file does not follow breaks an obligation.  Mathlib-free.
-/
import Scico.Model.LinOps

namespace Scico.LinOpsTables
open Scico.LinOps

structure Tables where
  defaults : List (String × String × String)
  options : List (String × List String)
  constants : List (String × String)
  exported : List String
deriving DecidableEq, Repr

/-- (function, argument, source text of the default) -/
def modelDefaults : List (String × String × String) := [
  ("FiniteDifference.__init__", "input_dtype", "np.float32"),
  ("FiniteDifference.__init__", "axes", "None"),
  ("FiniteDifference.__init__", "prepend", "None"),
  ("FiniteDifference.__init__", "append", "None"),
  ("FiniteDifference.__init__", "circular", "False"),
  ("FiniteDifference.__init__", "jit", "True"),
  ("SingleAxisFiniteDifference.__init__", "input_dtype", "np.float32"),
  ("SingleAxisFiniteDifference.__init__", "axis", "-1"),
  ("SingleAxisFiniteDifference.__init__", "prepend", "None"),
  ("SingleAxisFiniteDifference.__init__", "append", "None"),
  ("SingleAxisFiniteDifference.__init__", "circular", "False"),
  ("SingleAxisFiniteDifference.__init__", "jit", "True"),
  ("DFT.__init__", "axes", "None"),
  ("DFT.__init__", "axes_shape", "None"),
  ("DFT.__init__", "norm", "None"),
  ("DFT.__init__", "jit", "True"),
  ("CircularConvolve.__init__", "ndims", "None"),
  ("CircularConvolve.__init__", "input_dtype", "snp.float32"),
  ("CircularConvolve.__init__", "h_is_dft", "False"),
  ("CircularConvolve.__init__", "h_center", "None"),
  ("CircularConvolve.__init__", "jit", "True"),
  ("CircularConvolve.from_operator", "ndims", "None"),
  ("CircularConvolve.from_operator", "center", "None"),
  ("CircularConvolve.from_operator", "jit", "True"),
  ("Convolve.__init__", "input_dtype", "np.float32"),
  ("Convolve.__init__", "mode", "'full'"),
  ("Convolve.__init__", "jit", "True"),
  ("ConvolveByX.__init__", "input_dtype", "np.float32"),
  ("ConvolveByX.__init__", "mode", "'full'"),
  ("ConvolveByX.__init__", "jit", "True"),
  ("BiConvolve.__init__", "input_dtype", "np.float32"),
  ("BiConvolve.__init__", "mode", "'full'"),
  ("BiConvolve.__init__", "jit", "True"),
  ("linop_from_function.__init__", "input_dtype", "snp.float32"),
  ("linop_from_function.__init__", "output_shape", "None"),
  ("linop_from_function.__init__", "output_dtype", "None"),
  ("linop_from_function.__init__", "jit", "True"),
  ("_linear_pad", "mode", "'constant'"),
  ("Crop.__init__", "input_dtype", "snp.float32"),
  ("Crop.__init__", "jit", "True"),
  ("Slice.__init__", "input_dtype", "snp.float32"),
  ("Slice.__init__", "jit", "True"),
  ("ProjectedGradient.__init__", "axes", "None"),
  ("ProjectedGradient.__init__", "coord", "None"),
  ("ProjectedGradient.__init__", "cdiff", "False"),
  ("ProjectedGradient.__init__", "input_dtype", "np.float32"),
  ("ProjectedGradient.__init__", "jit", "True"),
  ("PolarGradient.__init__", "axes", "None"),
  ("PolarGradient.__init__", "center", "None"),
  ("PolarGradient.__init__", "angular", "True"),
  ("PolarGradient.__init__", "radial", "True"),
  ("PolarGradient.__init__", "cdiff", "False"),
  ("PolarGradient.__init__", "input_dtype", "np.float32"),
  ("PolarGradient.__init__", "jit", "True"),
  ("CylindricalGradient.__init__", "axes", "None"),
  ("CylindricalGradient.__init__", "center", "None"),
  ("CylindricalGradient.__init__", "angular", "True"),
  ("CylindricalGradient.__init__", "radial", "True"),
  ("CylindricalGradient.__init__", "axial", "True"),
  ("CylindricalGradient.__init__", "cdiff", "False"),
  ("CylindricalGradient.__init__", "input_dtype", "np.float32"),
  ("CylindricalGradient.__init__", "jit", "True"),
  ("SphericalGradient.__init__", "axes", "None"),
  ("SphericalGradient.__init__", "center", "None"),
  ("SphericalGradient.__init__", "azimuthal", "True"),
  ("SphericalGradient.__init__", "polar", "True"),
  ("SphericalGradient.__init__", "radial", "True"),
  ("SphericalGradient.__init__", "cdiff", "False"),
  ("SphericalGradient.__init__", "input_dtype", "np.float32"),
  ("SphericalGradient.__init__", "jit", "True"),
  ("VerticalStack.__init__", "collapse_output", "True"),
  ("VerticalStack.__init__", "jit", "True"),
  ("DiagonalStack.__init__", "collapse_input", "True"),
  ("DiagonalStack.__init__", "collapse_output", "True"),
  ("DiagonalStack.__init__", "jit", "True"),
  ("DiagonalReplicated.__init__", "input_axis", "0"),
  ("DiagonalReplicated.__init__", "output_axis", "None"),
  ("DiagonalReplicated.__init__", "map_type", "'auto'"),
  ("linop_over_axes", "axes", "None"),
  ("normalize_axes", "shape", "None"),
  ("normalize_axes", "default", "None"),
  ("normalize_axes", "sort", "False"),
  ("XRayTransform2D.__init__", "x0", "None"),
  ("XRayTransform2D.__init__", "dx", "None"),
  ("XRayTransform2D.__init__", "y0", "None"),
  ("XRayTransform2D.__init__", "det_count", "None"),
  ("XRayTransform3D.matrices_from_euler_angles", "degrees", "False"),
  ("XRayTransform3D.matrices_from_euler_angles", "voxel_spacing", "None"),
  ("XRayTransform3D.matrices_from_euler_angles", "det_spacing", "None"),
  ("XRayTransform3D._calc_weights", "slice_offset", "0"),
  ("Propagator.__init__", "pad_factor", "1"),
  ("AngularSpectrumPropagator.__init__", "pad_factor", "1"),
  ("AngularSpectrumPropagator.__init__", "jit", "True"),
  ("FresnelPropagator.__init__", "pad_factor", "1"),
  ("FresnelPropagator.__init__", "jit", "True"),
  ("FraunhoferPropagator.__init__", "jit", "True"),
  ("SingleAxisFiniteSum.__init__", "input_dtype", "snp.float32"),
  ("SingleAxisFiniteSum.__init__", "axis", "-1"),
  ("SingleAxisFiniteSum.__init__", "jit", "True"),
  ("FiniteSum.__init__", "input_dtype", "snp.float32"),
  ("FiniteSum.__init__", "axes", "None"),
  ("FiniteSum.__init__", "jit", "True"),
  ("SingleAxisHaarTransform.__init__", "input_dtype", "snp.float32"),
  ("SingleAxisHaarTransform.__init__", "axis", "-1"),
  ("SingleAxisHaarTransform.__init__", "jit", "True"),
  ("HaarTransform.__init__", "input_dtype", "snp.float32"),
  ("HaarTransform.__init__", "axes", "None"),
  ("HaarTransform.__init__", "jit", "True")
]

def modelOptions : List (String × List String) := [
  ("pad.modes", ["'constant'", "'edge'", "'wrap'", "'reflect'", "'symmetric'", "'mean'", "'empty'"]),
  ("Convolve.mode", ["'full'", "'valid'", "'same'"]),
  ("ConvolveByX.mode", ["'full'", "'valid'", "'same'"]),
  ("BiConvolve.mode", ["'full'", "'valid'", "'same'"]),
  ("fd.prepend", ["None", "0", "1"]),
  ("fd.append", ["None", "0", "1"]),
  ("DiagonalReplicated.map_type", ["'auto'", "'pmap'", "'vmap'"]),
  ("optics.ndim", ["1", "2"])
]

def modelConstants : List (String × String) := [
  ("XRayTransform3D._project.MAX_SLICE_LEN", "10"),
  ("XRayTransform3D._back_project.MAX_SLICE_LEN", "10"),
  ("XRayTransform3D._calc_weights.w", "0.5"),
  ("XRayTransform3D._calc_weights.x", "jnp.mgrid[:input_shape[0], :input_shape[1], :input_shape[2]] + 0.5"),
  ("XRayTransform2D.__init__.dx", "2 * (np.sqrt(2) / 2,)")
]

/-- names exported at the time of writing (kept only so that `modelTables` is a complete `Tables` value; the obligations on
    the exported names are `exported_covered` / `covered_exported` of the generated module) -/
def modelExported : List String := ["AbelTransform", "AngularSpectrumPropagator", "CircularConvolve", "ComposedLinearOperator", "Convolve", "Crop", "CylindricalGradient", "DFT", "Diagonal", "DiagonalReplicated", "DiagonalStack", "FiniteDifference", "FraunhoferPropagator", "FresnelPropagator", "Identity", "LinearOperator", "MatrixOperator", "Pad", "PolarGradient", "ProjectedGradient", "Propagator", "Reshape", "ScaledIdentity", "SingleAxisFiniteDifference", "Slice", "SphericalGradient", "Sum", "Transpose", "VerticalStack", "XRayTransform2D", "XRayTransform3D", "jacobian", "linop_from_function", "linop_over_axes", "operator_norm", "power_iteration", "valid_adjoint"]

def modelTables : Tables := ⟨modelDefaults, modelOptions, modelConstants, modelExported⟩

/-- the operator classes of the configuration grid `harness/opgrid.py` (`CLASSES`) -/
def covered : List String := ["SingleAxisFiniteDifference", "FiniteDifference", "DFT", "CircularConvolve", "Convolve", "ConvolveByX", "Pad", "Crop", "Reshape", "Transpose", "Sum", "Slice", "Identity", "ScaledIdentity", "Diagonal", "MatrixOperator", "VerticalStack", "DiagonalStack", "DiagonalReplicated", "ComposedLinearOperator", "ProjectedGradient", "PolarGradient", "CylindricalGradient", "SphericalGradient", "XRayTransform2D", "XRayTransform3D", "AngularSpectrumPropagator", "FresnelPropagator", "FraunhoferPropagator", "AbelTransform", "SingleAxisFiniteSum", "FiniteSum", "SingleAxisHaarTransform", "HaarTransform", "linop_from_function"]

/-- exported names that are deliberately NOT in the grid: abstract base classes and functions that are not operators -/
def excluded : List String := ["LinearOperator", "Propagator", "jacobian", "linop_over_axes", "operator_norm", "power_iteration", "valid_adjoint"]

/-- grid classes that are not exported by scico.linop / scico.linop.xray / optics / abel (`ConvolveByX` is imported by
    scico.linop but missing from its `__all__`; the others live in scico.functional._tvnorm) -/
def notExported : List String := ["ConvolveByX", "SingleAxisFiniteSum", "FiniteSum", "SingleAxisHaarTransform", "HaarTransform"]
/-! ### how the tables enter the model -/

def lookupDefault (f a : String) : Option String :=
  (modelDefaults.find? (fun t => t.1 = f ∧ t.2.1 = a)).map (·.2.2)

def lookupOption (k : String) : Option (List String) := (modelOptions.find? (fun t => t.1 = k)).map (·.2)
def lookupConstant (k : String) : Option String := (modelConstants.find? (fun t => t.1 = k)).map (·.2)

/-- Python spelling of the model's enumerations -/
def _root_.Scico.LinOps.Ext.py : Ext → String | .no => "None" | .b0 => "0" | .b1 => "1"
def _root_.Scico.LinOps.ConvMode.py : ConvMode → String | .full => "'full'" | .valid => "'valid'" | .same => "'same'"
def _root_.Scico.LinOps.PadMode.py : PadMode → String | .edge => "'edge'" | .wrap => "'wrap'" | .reflect => "'reflect'" | .symmetric => "'symmetric'"

/-- the boundary flags the constructor accepts are exactly the values of the model's `Ext`, and the defaults are
    `prepend = append = None`, `circular = False` (the plain difference matrix of `C04_fd`) -/
theorem fd_options : lookupOption "fd.prepend" = some ([Ext.no, .b0, .b1].map Ext.py)
    ∧ lookupOption "fd.append" = some ([Ext.no, .b0, .b1].map Ext.py)
    ∧ lookupDefault "SingleAxisFiniteDifference.__init__" "prepend" = some Ext.no.py
    ∧ lookupDefault "SingleAxisFiniteDifference.__init__" "append" = some Ext.no.py
    ∧ lookupDefault "SingleAxisFiniteDifference.__init__" "circular" = some "False"
    ∧ lookupDefault "FiniteDifference.__init__" "axes" = some "None" := by decide

/-- the convolution modes are exactly the constructors of `ConvMode` (for the three classes), default `full` -/
theorem conv_options : lookupOption "Convolve.mode" = some ([ConvMode.full, .valid, .same].map ConvMode.py)
    ∧ lookupOption "ConvolveByX.mode" = lookupOption "Convolve.mode" ∧ lookupOption "BiConvolve.mode" = lookupOption "Convolve.mode"
    ∧ lookupDefault "Convolve.__init__" "mode" = some ConvMode.full.py := by decide

/-- the linear pad modes: `constant` (zero pad of `C04_pad_crop`), the four gather modes of `C04_pad_modes`, `mean`
    (`C04_pad_mean`) and `empty` (undefined values: no documented map, outside the grid); default `constant` -/
theorem pad_options : lookupOption "pad.modes"
      = some (["'constant'"] ++ [PadMode.edge, .wrap, .reflect, .symmetric].map PadMode.py ++ ["'mean'", "'empty'"])
    ∧ lookupDefault "_linear_pad" "mode" = some "'constant'" := by decide

/-- circular convolution: centre at the origin, all axes, filter in the signal domain by default; DFT: all axes, no
    padding, backward normalisation by default -/
theorem circ_dft_defaults : lookupDefault "CircularConvolve.__init__" "h_center" = some "None"
    ∧ lookupDefault "CircularConvolve.__init__" "ndims" = some "None"
    ∧ lookupDefault "CircularConvolve.__init__" "h_is_dft" = some "False"
    ∧ lookupDefault "DFT.__init__" "axes" = some "None" ∧ lookupDefault "DFT.__init__" "axes_shape" = some "None"
    ∧ lookupDefault "DFT.__init__" "norm" = some "None" := by decide

/-- 3-D projector: slabs of 10 slices in `_project` and `_back_project` alike, footprint width `w = 1/2`
    (`x3ToNext … w`, `C04_xray3d_split` needs `0 < w ≤ 1`), voxel centres at `index + 1/2` (documented convention) -/
theorem xray3_constants : lookupConstant "XRayTransform3D._project.MAX_SLICE_LEN" = some "10"
    ∧ lookupConstant "XRayTransform3D._back_project.MAX_SLICE_LEN" = lookupConstant "XRayTransform3D._project.MAX_SLICE_LEN"
    ∧ lookupConstant "XRayTransform3D._calc_weights.w" = some "0.5" := by decide

/-- error cases of the modelled constructors / helpers: (function, guard, exception class) of every `if guard: raise …` -/
def modelRaises : List (String × String × String) := [
  ("SingleAxisFiniteDifference.__init__", "not isinstance(axis, int)", "TypeError"),
  ("SingleAxisFiniteDifference.__init__", "axis < 0 or axis >= len(input_shape)", "ValueError"),
  ("SingleAxisFiniteDifference.__init__", "circular and (prepend is not None or append is not None)", "ValueError"),
  ("SingleAxisFiniteDifference.__init__", "prepend not in [None, 0, 1]", "ValueError"),
  ("SingleAxisFiniteDifference.__init__", "append not in [None, 0, 1]", "ValueError"),
  ("DFT.__init__", "axes is not None and axes_shape is not None and (len(axes) != len(axes_shape))", "ValueError"),
  ("CircularConvolve.__init__", "h_is_dft and h_center is not None", "ValueError"),
  ("CircularConvolve.__init__", "self.real and snp.dtype(input_dtype).kind == 'c'", "ValueError"),
  ("CircularConvolve.__init__", "except ValueError", "ValueError"),
  ("CircularConvolve.from_operator", "is_nested(H.input_shape)", "ValueError"),
  ("Convolve.__init__", "h.ndim != len(input_shape)", "ValueError"),
  ("Convolve.__init__", "mode not in ['full', 'valid', 'same']", "ValueError"),
  ("ConvolveByX.__init__", "x.ndim != len(input_shape)", "ValueError"),
  ("ConvolveByX.__init__", "not snp.util.is_arraylike(x)", "TypeError"),
  ("ConvolveByX.__init__", "mode not in ['full', 'valid', 'same']", "ValueError"),
  ("_linear_pad", "callable(mode) or mode not in _LINEAR_PAD_MODES", "ValueError"),
  ("_linear_pad", "key in kwargs and np.any(np.asarray(kwargs[key]) != 0)", "ValueError"),
  ("ProjectedGradient.__init__", "snp.any(np.array(axes) >= len(input_shape))", "ValueError"),
  ("PolarGradient.__init__", "len(input_shape) < 2", "ValueError"),
  ("PolarGradient.__init__", "axes is not None and len(axes) != 2", "ValueError"),
  ("PolarGradient.__init__", "not angular and (not radial)", "ValueError"),
  ("CylindricalGradient.__init__", "len(input_shape) < 3", "ValueError"),
  ("CylindricalGradient.__init__", "axes is not None and len(axes) != 3", "ValueError"),
  ("CylindricalGradient.__init__", "not angular and (not radial) and (not axial)", "ValueError"),
  ("SphericalGradient.__init__", "len(input_shape) < 3", "ValueError"),
  ("SphericalGradient.__init__", "axes is not None and len(axes) != 3", "ValueError"),
  ("SphericalGradient.__init__", "not azimuthal and (not polar) and (not radial)", "ValueError"),
  ("normalize_axes", "shape is None", "ValueError"),
  ("normalize_axes", "max(axes) >= len(shape) or min(axes) < 0", "ValueError"),
  ("normalize_axes", "len(set(axes)) != len(axes)", "ValueError"),
  ("slice_length", "idx < -length or idx > length - 1", "ValueError"),
  ("slice_length", "not isinstance(idx, slice)", "ValueError"),
  ("indexed_shape", "sum((1 for ax_idx in idx if ax_idx is not None and ax_idx is not Ellipsis)) > len(shape)", "ValueError"),
  ("DiagonalReplicated.__init__", "map_type not in ['auto', 'pmap', 'vmap']", "ValueError"),
  ("DiagonalReplicated.__init__", "input_axis < 0 or input_axis > len(op.input_shape)", "ValueError"),
  ("DiagonalReplicated.__init__", "is_nested(op.input_shape)", "ValueError"),
  ("DiagonalReplicated.__init__", "is_nested(op.output_shape)", "ValueError"),
  ("DiagonalReplicated.__init__", "output_axis < 0 or output_axis > len(op.output_shape)", "ValueError"),
  ("DiagonalReplicated.__init__", "map_type == 'pmap' and replicates > jax.device_count()", "ValueError"),
  ("radial_transverse_frequency", "ndim not in (1, 2)", "ValueError"),
  ("radial_transverse_frequency", "len(dx) != ndim", "ValueError"),
  ("Propagator.__init__", "ndim not in (1, 2)", "ValueError"),
  ("Propagator.__init__", "len(dx) != ndim", "ValueError"),
  ("FraunhoferPropagator.__init__", "ndim not in (1, 2)", "ValueError"),
  ("FraunhoferPropagator.__init__", "len(dx) != ndim", "ValueError")
]

/-- attributes of operator objects that the adapter (`harness/c04.py`) or the tie read: they must be stored by the constructor -/
def usedAttrs : List (String × List String) := [
  ("DFT", ["axes", "inv_axes_shape"]),
  ("CircularConvolve", ["real", "h_dft", "ndims"]),
  ("XRayTransform2D", ["x0", "dx", "nx", "angles", "y0", "ny"]),
  ("XRayTransform3D", ["matrices", "det_shape"]),
  ("Propagator", ["kp", "D", "F"]),
  ("AbelTransform", ["proj_mat_quad"]),
  ("ProjectedGradient", ["axes", "coord", "cdiff"])
]

/-- the guards that have a counterpart in the Lean model (`FDCfg.valid`, `normAxes`, `dftInit`, `circInit`, `convInit`) and
    are exercised by the malformed stream of the adapter; all of them are error cases of the source -/
def modelledGuards : List (String × String) := [
  ("SingleAxisFiniteDifference.__init__", "axis < 0 or axis >= len(input_shape)"),
  ("SingleAxisFiniteDifference.__init__", "circular and (prepend is not None or append is not None)"),
  ("DFT.__init__", "axes is not None and axes_shape is not None and (len(axes) != len(axes_shape))"),
  ("CircularConvolve.__init__", "h_is_dft and h_center is not None"),
  ("CircularConvolve.__init__", "except ValueError"),
  ("Convolve.__init__", "h.ndim != len(input_shape)"),
  ("Convolve.__init__", "mode not in ['full', 'valid', 'same']"),
  ("ConvolveByX.__init__", "x.ndim != len(input_shape)"),
  ("ConvolveByX.__init__", "mode not in ['full', 'valid', 'same']"),
  ("normalize_axes", "max(axes) >= len(shape) or min(axes) < 0"),
  ("normalize_axes", "len(set(axes)) != len(axes)")
]

/-- the guard added in e839754 (`self.real` with a complex input dtype) can only fire through the `output_dtype` keyword
    (closed forms of sums / scalar multiples): for the constructor arguments the model covers, `circInit` never declares a
    real output for a complex input -/
theorem circInit_real_guard_unreachable (hs is : List Nat) (nd : Option Nat) (hd hc : Bool) (a b : DT) (out : List Nat)
    (odt : DT) (h : circInit hs is nd hd hc a b = some (out, odt, true)) : b.cx = false := by
  unfold circInit at h
  by_cases h1 : (hd && hc) = true
  · simp [h1] at h
  · rw [if_neg h1] at h
    cases hd
    · simp only [Bool.false_eq_true, if_false] at h
      split at h
      · cases h
      · simp only [Option.some.injEq, Prod.mk.injEq] at h
        obtain ⟨_, h2, h3⟩ := h
        subst h2
        revert h3
        cases a <;> cases b <;> decide
    · simp only [if_true] at h
      split at h
      · cases h
      · simp only [Option.some.injEq, Prod.mk.injEq] at h
        obtain ⟨_, h2, h3⟩ := h
        subst h2
        revert h3
        cases b <;> decide

theorem modelledGuards_are_error_cases :
    modelledGuards.all (fun g => modelRaises.any (fun r => r.1 = g.1 ∧ r.2.1 = g.2)) = true := by decide

/-- every error case of the modelled functions raises `ValueError`, except the two type checks -/
theorem raises_classes : modelRaises.all (fun r => r.2.2 = "ValueError" ∨ r.2.2 = "TypeError") = true
    ∧ (modelRaises.filter (fun r => r.2.2 = "TypeError")).map (·.1)
        = ["SingleAxisFiniteDifference.__init__", "ConvolveByX.__init__"] := by decide

end Scico.LinOpsTables
