/-
  C07, analytic layer, part 1: differentiable curves in `ℂⁿ` (componentwise), the calculus of their
  velocities (sums, products, conjugation, linear images, images under the operator family `Op`).

  `Tangent c d` : the curve `c : ℝ → ℂⁿ` has velocity `d` at `t = 0` (real and imaginary parts of
                  every component are differentiable there).
  The line `t ↦ x + t d` is the special case used by property C07 (`tangent_along`); general curves
  are what a chain rule through a *nonlinear* operator needs (`t ↦ F(x + t d)` is not a line).
-/
import Scico.Proofs.AutogradWrap
import Mathlib.Analysis.SpecialFunctions.Sqrt
import Mathlib.Analysis.SpecialFunctions.Log.Deriv
import Mathlib.Analysis.Calculus.Deriv.Add
import Mathlib.Analysis.Calculus.Deriv.Mul
import Mathlib.Analysis.Calculus.Deriv.Comp
import Mathlib.Algebra.BigOperators.Field

namespace Scico.Autograd
open Scico
open scoped Topology

noncomputable instance instHasSqrtReal : HasSqrt ℝ := ⟨Real.sqrt⟩
noncomputable instance instHasLogReal : HasLog ℝ := ⟨Real.log⟩

theorem hasSqrt_real (r : ℝ) : (HasSqrt.sqrt r : ℝ) = Real.sqrt r := rfl
theorem hasLog_real (r : ℝ) : (HasLog.log r : ℝ) = Real.log r := rfl

variable {n m k : Nat}

/-- change the function pointwise and the derivative value -/
theorem HasDerivAt.congr' {f g : ℝ → ℝ} {f' g' x : ℝ} (h : HasDerivAt f f' x) (hf : ∀ t, g t = f t)
    (hd : f' = g') : HasDerivAt g g' x := by
  have : g = f := funext hf
  rw [this]; exact h.congr_deriv hd

theorem hasDerivAt_lin (a b : ℝ) : HasDerivAt (fun t : ℝ => a + t * b) b 0 :=
  HasDerivAt.congr' (((hasDerivAt_id (0 : ℝ)).mul_const b).const_add a) (fun _ => rfl) (one_mul b)

/-! ### complex-valued curves -/

/-- `z : ℝ → ℂ` has velocity `z'` at `0` -/
def CTangent (z : ℝ → Cx ℝ) (z' : Cx ℝ) : Prop :=
  HasDerivAt (fun t => (z t).re) z'.re 0 ∧ HasDerivAt (fun t => (z t).im) z'.im 0

theorem CTangent.const (a : Cx ℝ) : CTangent (fun _ => a) 0 :=
  ⟨hasDerivAt_const _ _, hasDerivAt_const _ _⟩

theorem CTangent.add {z w : ℝ → Cx ℝ} {z' w' : Cx ℝ} (hz : CTangent z z') (hw : CTangent w w') :
    CTangent (fun t => z t + w t) (z' + w') :=
  ⟨hz.1.add hw.1, hz.2.add hw.2⟩

theorem CTangent.sub {z w : ℝ → Cx ℝ} {z' w' : Cx ℝ} (hz : CTangent z z') (hw : CTangent w w') :
    CTangent (fun t => z t - w t) (z' - w') :=
  ⟨hz.1.sub hw.1, hz.2.sub hw.2⟩

theorem CTangent.conj {z : ℝ → Cx ℝ} {z' : Cx ℝ} (hz : CTangent z z') :
    CTangent (fun t => (z t).conj) z'.conj :=
  ⟨hz.1, hz.2.neg⟩

/-- product rule: `(z w)' = z(0) w' + z' w(0)` -/
theorem CTangent.mul {z w : ℝ → Cx ℝ} {z' w' : Cx ℝ} (hz : CTangent z z') (hw : CTangent w w') :
    CTangent (fun t => z t * w t) (z 0 * w' + z' * w 0) := by
  constructor
  · have h := (hz.1.mul hw.1).sub (hz.2.mul hw.2)
    refine HasDerivAt.congr' h (fun _ => rfl) ?_
    simp; ring
  · have h := (hz.1.mul hw.2).add (hz.2.mul hw.1)
    refine HasDerivAt.congr' h (fun _ => rfl) ?_
    simp; ring

theorem CTangent.const_mul (a : Cx ℝ) {z : ℝ → Cx ℝ} {z' : Cx ℝ} (hz : CTangent z z') :
    CTangent (fun t => a * z t) (a * z') := by
  have h := (CTangent.const a).mul hz
  simpa using h

theorem CTangent.sum {ι : Type} (s : Finset ι) {z : ι → ℝ → Cx ℝ} {z' : ι → Cx ℝ}
    (h : ∀ i ∈ s, CTangent (z i) (z' i)) : CTangent (fun t => ∑ i ∈ s, z i t) (∑ i ∈ s, z' i) := by
  constructor
  · simp only [Cx.re_sum]
    exact HasDerivAt.fun_sum (fun i hi => (h i hi).1)
  · simp only [Cx.im_sum]
    exact HasDerivAt.fun_sum (fun i hi => (h i hi).2)

theorem CTangent.congr {z w : ℝ → Cx ℝ} {z' w' : Cx ℝ} (hz : CTangent z z') (hf : ∀ t, w t = z t)
    (hd : z' = w') : CTangent w w' := by
  have : w = z := funext hf
  rw [this, ← hd]; exact hz

/-- `d/dt |z(t)|² = 2 Re(conj z(0) · z')` -/
theorem CTangent.abs2 {z : ℝ → Cx ℝ} {z' : Cx ℝ} (hz : CTangent z z') :
    HasDerivAt (fun t => Cx.abs2 (z t)) (2 * ((z 0).re * z'.re + (z 0).im * z'.im)) 0 := by
  have h := (hz.1.mul hz.1).add (hz.2.mul hz.2)
  refine HasDerivAt.congr' h (fun _ => rfl) ?_
  ring

/-! ### vector-valued curves -/

/-- the curve `c` has velocity `d` at `t = 0`, component by component -/
def Tangent (c : ℝ → CVec ℝ n) (d : CVec ℝ n) : Prop := ∀ i, CTangent (fun t => c t i) (d i)

theorem along_re (x d : CVec ℝ n) (t : ℝ) (i : Fin n) : (along x d t i).re = (x i).re + t * (d i).re := rfl
theorem along_im (x d : CVec ℝ n) (t : ℝ) (i : Fin n) : (along x d t i).im = (x i).im + t * (d i).im := rfl

theorem along_zero (x d : CVec ℝ n) : along x d 0 = x := by
  funext i; apply Cx.ext' <;> simp [along]

/-- the line `t ↦ x + t d` has velocity `d` -/
theorem tangent_along (x d : CVec ℝ n) : Tangent (fun t => along x d t) d :=
  fun i => ⟨hasDerivAt_lin (x i).re (d i).re, hasDerivAt_lin (x i).im (d i).im⟩

theorem tangent_vsub_const {c : ℝ → CVec ℝ n} {d : CVec ℝ n} (hc : Tangent c d) (y : CVec ℝ n) :
    Tangent (fun t => vsub (c t) y) d := fun i => by
  have h := (hc i).sub (CTangent.const (y i))
  exact h.congr (fun _ => rfl) (by apply Cx.ext' <;> simp)

theorem tangent_conj {c : ℝ → CVec ℝ n} {d : CVec ℝ n} (hc : Tangent c d) :
    Tangent (fun t => conjVec (c t)) (conjVec d) := fun i => (hc i).conj

theorem tangent_vleft {c : ℝ → CVec ℝ (n + k)} {d : CVec ℝ (n + k)} (hc : Tangent c d) :
    Tangent (fun t => vleft (c t)) (vleft d) := fun i => hc ⟨i.val, by omega⟩

theorem tangent_vright {c : ℝ → CVec ℝ (n + k)} {d : CVec ℝ (n + k)} (hc : Tangent c d) :
    Tangent (fun t => vright (c t)) (vright d) := fun i => hc ⟨n + i.val, by omega⟩

/-- linear image of a curve -/
theorem tangent_mulVec (A : Mat ℝ m n) {c : ℝ → CVec ℝ n} {d : CVec ℝ n} (hc : Tangent c d) :
    Tangent (fun t => mulVec A (c t)) (mulVec A d) := fun i => by
  have h := CTangent.sum Finset.univ (z := fun j t => A i j * c t j) (z' := fun j => A i j * d j)
    (fun j _ => (hc j).const_mul (A i j))
  exact h.congr (fun t => mulVec_eq A (c t) i) (mulVec_eq A d i).symm

/-- image of a curve under the operator `F`: the velocity is the Jacobian-vector product — i.e.
    `Op.jvp` **is** the derivative of `Op.eval` -/
theorem tangent_op (F : Op ℝ n m) {c : ℝ → CVec ℝ n} {d : CVec ℝ n} (hc : Tangent c d) :
    Tangent (fun t => F.eval (c t)) (F.jvp (c 0) d) := fun i => by
  have hA := tangent_mulVec F.A hc i
  have hB := tangent_mulVec F.B (tangent_conj hc) i
  have hC := tangent_mulVec F.C hc i
  have h := ((hA.add hB).add (hC.mul hC)).add (CTangent.const (F.c i))
  refine h.congr (fun _ => rfl) ?_
  simp only [Op.jvp, add_zero]
  ring

end Scico.Autograd
