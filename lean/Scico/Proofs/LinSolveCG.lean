/-
  Proofs about the conjugate-gradient models of `Scico.Model.LinSolve` (C14):
  loop invariant for every iteration count, exit rule, reported residual, absence of division by
  zero for Hermitian positive-definite `A`, `M`; the fixed-iteration (scan) variant; and the generic
  "quadratic is minimised exactly where its gradient vanishes" lemma used for `lstsq` and C10.
-/
import Mathlib.Analysis.InnerProductSpace.Basic
import Scico.Model.LinSolve

namespace Scico.LinSolve
open RCLike

variable {𝕜 V : Type} [RCLike 𝕜] [NormedAddCommGroup V] [InnerProductSpace 𝕜 V]

/-- the numpy operations of `cg` at an abstract inner-product space:
    `inner = Σ conj(a)·b`, complex `>` is lexicographic (as in jax), `sqrt(·).real` of the principal root -/
noncomputable def rcOps (𝕜 V : Type) [RCLike 𝕜] [NormedAddCommGroup V] [InnerProductSpace 𝕜 V] : CGOps 𝕜 ℝ V where
  inner x y := inner 𝕜 x y
  norm x := ‖x‖
  gtReal s t := decide (t < re s ∨ (t = re s ∧ 0 < im s))
  sqrtRe s := Real.sqrt ((‖s‖ + re s) / 2)
  isZero s := decide (s = 0)

/-- specification of the loop invariant -/
structure CGInv (A M : V → V) (b : V) (s : CGState 𝕜 V) : Prop where
  res : s.r = b - A s.x
  pre : s.z = M s.r
  num : s.num = inner 𝕜 s.r s.z

theorem cgInit_inv (A M : V → V) (b x0 : V) : CGInv A M b (cgInit (rcOps 𝕜 V) A M b x0) :=
  ⟨rfl, rfl, rfl⟩

theorem cgStep_inv (A : V →ₗ[𝕜] V) (M : V → V) (b : V) (s : CGState 𝕜 V) (h : CGInv (⇑A) M b s) :
    CGInv (⇑A) M b (cgStep (rcOps 𝕜 V) A M s) := by
  refine ⟨?_, rfl, rfl⟩
  simp only [cgStep]
  rw [h.res, map_add, map_smul]
  abel

theorem cgStep_ii (ops : CGOps 𝕜 ℝ V) (A M : V → V) (s : CGState 𝕜 V) : (cgStep ops A M s).ii = s.ii + 1 := rfl

/-- the invariant holds at the returned state, for every amount of fuel -/
theorem cgLoop_inv (A : V →ₗ[𝕜] V) (M : V → V) (b : V) (maxiter : Nat) (tolsq : ℝ) :
    ∀ (fuel : Nat) (s : CGState 𝕜 V), CGInv (⇑A) M b s →
      CGInv (⇑A) M b (cgLoop (rcOps 𝕜 V) A M maxiter tolsq fuel s)
  | 0, s, h => by simpa [cgLoop] using h
  | fuel + 1, s, h => by
    unfold cgLoop
    split
    · exact cgLoop_inv A M b maxiter tolsq fuel _ (cgStep_inv A M b s h)
    · exact h

/-- … and at every visited state -/
theorem cgRun_inv (A : V →ₗ[𝕜] V) (M : V → V) (b : V) (maxiter : Nat) (tolsq : ℝ) :
    ∀ (fuel : Nat) (s : CGState 𝕜 V), CGInv (⇑A) M b s →
      ∀ t ∈ cgRun (rcOps 𝕜 V) A M maxiter tolsq fuel s, CGInv (⇑A) M b t
  | 0, s, h => by simp [cgRun]; exact h
  | fuel + 1, s, h => by
    unfold cgRun
    split
    · intro t ht
      rcases List.mem_cons.1 ht with rfl | ht
      · exact h
      · exact cgRun_inv A M b maxiter tolsq fuel _ (cgStep_inv A M b s h) t ht
    · intro t ht
      rw [List.mem_singleton] at ht
      exact ht ▸ h

/-- with enough fuel the loop stops because its condition is false (the fuel is never what stops it) -/
theorem cgLoop_exit (ops : CGOps 𝕜 ℝ V) (A M : V → V) (maxiter : Nat) (tolsq : ℝ) :
    ∀ (fuel : Nat) (s : CGState 𝕜 V), maxiter ≤ s.ii + fuel →
      cgCond ops maxiter tolsq (cgLoop ops A M maxiter tolsq fuel s) = false
  | 0, s, h => by
    have h' : ¬ s.ii < maxiter := by omega
    simp [cgLoop, cgCond, h']
  | fuel + 1, s, h => by
    unfold cgLoop
    split
    · apply cgLoop_exit ops A M maxiter tolsq fuel
      rw [cgStep_ii]; omega
    · rename_i hc; simpa using hc

/-- the iteration counter never exceeds `maxiter` (started below it) -/
theorem cgLoop_ii_le (ops : CGOps 𝕜 ℝ V) (A M : V → V) (maxiter : Nat) (tolsq : ℝ) :
    ∀ (fuel : Nat) (s : CGState 𝕜 V), s.ii ≤ maxiter →
      (cgLoop ops A M maxiter tolsq fuel s).ii ≤ maxiter
  | 0, s, h => by simpa [cgLoop] using h
  | fuel + 1, s, h => by
    unfold cgLoop
    split
    · rename_i hc
      apply cgLoop_ii_le ops A M maxiter tolsq fuel
      simp only [cgCond, Bool.and_eq_true, decide_eq_true_eq] at hc
      rw [cgStep_ii]; omega
    · exact h

/-- the returned state is the `k`-fold step of the initial one, `k` = increase of the counter, and the
    loop condition held at every earlier state -/
theorem cgLoop_iterate (ops : CGOps 𝕜 ℝ V) (A M : V → V) (maxiter : Nat) (tolsq : ℝ) :
    ∀ (fuel : Nat) (s : CGState 𝕜 V), ∃ k, k ≤ fuel ∧
      cgLoop ops A M maxiter tolsq fuel s = (cgStep ops A M)^[k] s ∧
      (cgLoop ops A M maxiter tolsq fuel s).ii = s.ii + k ∧
      ∀ j < k, cgCond ops maxiter tolsq ((cgStep ops A M)^[j] s) = true
  | 0, s => ⟨0, le_rfl, rfl, rfl, by intro j hj; omega⟩
  | fuel + 1, s => by
    unfold cgLoop
    split
    · rename_i hc
      obtain ⟨k, hk, he, hi, hj⟩ := cgLoop_iterate ops A M maxiter tolsq fuel (cgStep ops A M s)
      refine ⟨k + 1, by omega, ?_, ?_, ?_⟩
      · rw [he, Function.iterate_succ_apply]
      · rw [hi, cgStep_ii]; omega
      · intro j hjk
        cases j with
        | zero => simpa using hc
        | succ j => rw [Function.iterate_succ_apply]; exact hj j (by omega)
    · exact ⟨0, by omega, rfl, rfl, by intro j hj; omega⟩

/-! ### what `cg` returns -/

theorem norm_eq_re_of_real_nonneg (s : 𝕜) (him : im s = 0) (hre : 0 ≤ re s) : ‖s‖ = re s := by
  have hs : s = ((re s : ℝ) : 𝕜) := by
    conv_lhs => rw [← re_add_im s, him]
    simp
  rw [hs, RCLike.norm_of_nonneg hre, RCLike.ofReal_re]

/-- `sqrt(num).real` for a real non-negative `num` is `√(re num)` -/
theorem sqrtRe_of_real_nonneg (s : 𝕜) (him : im s = 0) (hre : 0 ≤ re s) :
    (rcOps 𝕜 V).sqrtRe s = Real.sqrt (re s) := by
  simp only [rcOps, norm_eq_re_of_real_nonneg s him hre]
  congr 1; ring

/-- **Specification of `cg`.**  For every linear `A`, every map `M`, every `b, x0, tol, atol, maxiter`:
    with `r = b − A x` the residual of the *returned* `x` and `num = ⟪r, M r⟫`,
    the reported `rel_res` is `sqrt(num).real / ‖b‖`, `num_iter ≤ maxiter`, and the solver stopped either
    because `num_iter = maxiter` or because `num > termination_tol_sq` is false. -/
theorem cg_spec (A : V →ₗ[𝕜] V) (M : V → V) (b x0 : V) (tol atol : ℝ) (maxiter : Nat) :
    let out := cg (rcOps 𝕜 V) A M b x0 tol atol maxiter
    let r := b - A out.1
    let num : 𝕜 := inner 𝕜 r (M r)
    out.2.relRes = (rcOps 𝕜 V).sqrtRe num / ‖b‖ ∧ out.2.numIter ≤ maxiter ∧
      (out.2.numIter = maxiter ∨
        ¬ (cgTolSq tol atol ‖b‖ < re num ∨ (cgTolSq tol atol ‖b‖ = re num ∧ 0 < im num))) := by
  intro out r num
  have hinv := cgLoop_inv A M b maxiter (cgTolSq tol atol ‖b‖) maxiter _ (cgInit_inv (𝕜 := 𝕜) A M b x0)
  have hexit := cgLoop_exit (rcOps 𝕜 V) A M maxiter (cgTolSq tol atol ‖b‖) maxiter
    (cgInit (rcOps 𝕜 V) A M b x0) (by simp [cgInit])
  have hle := cgLoop_ii_le (rcOps 𝕜 V) A M maxiter (cgTolSq tol atol ‖b‖) maxiter
    (cgInit (rcOps 𝕜 V) A M b x0) (by simp [cgInit])
  set s := cgLoop (rcOps 𝕜 V) A M maxiter (cgTolSq tol atol ‖b‖) maxiter (cgInit (rcOps 𝕜 V) A M b x0) with hs
  have hx : out.1 = s.x := rfl
  have hnum : s.num = num := by
    rw [hinv.num, hinv.pre, hinv.res]; rfl
  refine ⟨?_, hle, ?_⟩
  · show cgRelRes (rcOps 𝕜 V) s.num ‖b‖ = _
    rw [hnum]; rfl
  · show s.ii = maxiter ∨ _
    by_cases hlt : s.ii < maxiter
    · right
      have : (rcOps 𝕜 V).gtReal s.num (cgTolSq tol atol ‖b‖) = false := by
        simpa [cgCond, hlt] using hexit
      rw [hnum] at this
      simpa [rcOps] using this
    · left; omega

/-- unpreconditioned case `M = id`: `rel_res` **is** the true relative residual of the returned `x`
    (for `b ≠ 0`), and at exit either the budget is used up or `‖b − A x‖ ≤ max(tol‖b‖, atol)`. -/
theorem cg_spec_noprecond (A : V →ₗ[𝕜] V) (b x0 : V) (tol atol : ℝ) (maxiter : Nat)
    (htol : 0 ≤ max (tol * ‖b‖) atol) :
    let out := cg (rcOps 𝕜 V) A (fun v => v) b x0 tol atol maxiter
    out.2.relRes = ‖b - A out.1‖ / ‖b‖ ∧
      (out.2.numIter = maxiter ∨ ‖b - A out.1‖ ≤ max (tol * ‖b‖) atol) := by
  intro out
  obtain ⟨h1, _, h3⟩ := cg_spec A (fun v => v) b x0 tol atol maxiter
  set r := b - A out.1 with hr
  have hre : re (inner 𝕜 r r) = ‖r‖ ^ 2 := by
    rw [inner_self_eq_norm_sq_to_K]; norm_cast
  have him : im (inner 𝕜 r r) = 0 := by
    rw [inner_self_eq_norm_sq_to_K]; norm_cast
  constructor
  · rw [h1, sqrtRe_of_real_nonneg _ him (by rw [hre]; positivity), hre, Real.sqrt_sq (norm_nonneg _)]
  · rcases h3 with h | h
    · exact Or.inl h
    · right
      push Not at h
      have h' := h.1
      rw [hre] at h'
      simp only [cgTolSq] at h'
      nlinarith [norm_nonneg r, sq_nonneg (‖r‖ - max (tol * ‖b‖) atol)]

/-! ### no division by zero for Hermitian positive-definite `A` and Hermitian `M` -/

/-- extended invariant: additionally `⟪r, p⟫ = num` and `num` is real -/
structure CGInv2 (A M : V → V) (b : V) (s : CGState 𝕜 V) : Prop extends CGInv A M b s where
  rp : inner 𝕜 s.r s.p = s.num
  real : im s.num = 0

theorem im_inner_symm (M : V → V) (hM : ∀ x y, inner 𝕜 (M x) y = inner 𝕜 x (M y)) (r : V) :
    im (inner 𝕜 r (M r)) = 0 := by
  have h : (starRingEnd 𝕜) (inner 𝕜 r (M r)) = inner 𝕜 r (M r) := by
    rw [inner_conj_symm, hM]
  exact RCLike.conj_eq_iff_im.1 h

theorem cgInit_inv2 (A M : V → V) (hM : ∀ x y, inner 𝕜 (M x) y = inner 𝕜 x (M y)) (b x0 : V) :
    CGInv2 A M b (cgInit (rcOps 𝕜 V) A M b x0) :=
  { toCGInv := cgInit_inv A M b x0, rp := rfl, real := im_inner_symm M hM _ }

/-- if the loop condition holds (threshold ≥ 0) at a state satisfying the extended invariant, then both
    denominators of the next step are non-zero, and the extended invariant is preserved -/
theorem cgStep_inv2 (A : V →ₗ[𝕜] V) (M : V → V) (b : V)
    (hAs : ∀ x y, inner 𝕜 (A x) y = inner 𝕜 x (A y)) (hAp : ∀ x, x ≠ 0 → 0 < re (inner 𝕜 x (A x)))
    (hM : ∀ x y, inner 𝕜 (M x) y = inner 𝕜 x (M y))
    (maxiter : Nat) (tolsq : ℝ) (htol : 0 ≤ tolsq) (s : CGState 𝕜 V) (h : CGInv2 (⇑A) M b s)
    (hc : cgCond (rcOps 𝕜 V) maxiter tolsq s = true) :
    s.num ≠ 0 ∧ inner 𝕜 s.p (A s.p) ≠ 0 ∧ CGInv2 (⇑A) M b (cgStep (rcOps 𝕜 V) A M s) := by
  have hgt : tolsq < re s.num := by
    simp only [cgCond, rcOps, Bool.and_eq_true, decide_eq_true_eq] at hc
    rcases hc.2 with h1 | ⟨_, h2⟩
    · exact h1
    · rw [h.real] at h2; exact absurd h2 (lt_irrefl 0)
  have hnum : s.num ≠ 0 := by
    intro h0; rw [h0] at hgt; simp at hgt; linarith
  have hp : s.p ≠ 0 := by
    intro h0
    have := h.rp
    rw [h0, inner_zero_right] at this
    exact hnum this.symm
  have hden : inner 𝕜 s.p (A s.p) ≠ 0 := by
    intro h0
    have := hAp s.p hp
    rw [h0] at this; simp at this
  refine ⟨hnum, hden, ?_⟩
  have hinv := cgStep_inv A M b s h.toCGInv
  refine { toCGInv := hinv, rp := ?_, real := ?_ }
  · -- ⟪r', p'⟫ = num'
    have hden_real : (starRingEnd 𝕜) (inner 𝕜 s.p (A s.p)) = inner 𝕜 s.p (A s.p) := by
      rw [inner_conj_symm, hAs]
    have hnum_real : (starRingEnd 𝕜) s.num = s.num := RCLike.conj_eq_iff_im.2 h.real
    simp only [cgStep, rcOps]
    set α := s.num / inner 𝕜 s.p (A s.p) with hα
    set r' := s.r - α • A s.p with hr'
    have h0 : inner 𝕜 r' s.p = 0 := by
      rw [hr', inner_sub_left, inner_smul_left, hα, map_div₀, hden_real, hnum_real, hAs s.p s.p, h.rp,
        div_mul_cancel₀ _ hden, sub_self]
    rw [inner_add_right, inner_smul_right, h0, mul_zero, add_zero]
  · have := hinv.num
    rw [hinv.pre] at this
    rw [this]
    exact im_inner_symm M hM _

/-- **No breakdown**: for Hermitian positive-definite `A` and Hermitian `M`, every step executed by the
    loop divides by non-zero numbers (`⟪p, A p⟫ ≠ 0` for `alpha`, `num ≠ 0` for `beta`). -/
theorem cg_no_breakdown (A : V →ₗ[𝕜] V) (M : V → V) (b x0 : V)
    (hAs : ∀ x y, inner 𝕜 (A x) y = inner 𝕜 x (A y)) (hAp : ∀ x, x ≠ 0 → 0 < re (inner 𝕜 x (A x)))
    (hM : ∀ x y, inner 𝕜 (M x) y = inner 𝕜 x (M y))
    (maxiter : Nat) (tolsq : ℝ) (htol : 0 ≤ tolsq) :
    ∀ (j : Nat),
      (∀ i ≤ j, cgCond (rcOps 𝕜 V) maxiter tolsq ((cgStep (rcOps 𝕜 V) A M)^[i] (cgInit (rcOps 𝕜 V) A M b x0)) = true) →
      let s := (cgStep (rcOps 𝕜 V) A M)^[j] (cgInit (rcOps 𝕜 V) A M b x0)
      s.num ≠ 0 ∧ inner 𝕜 s.p (A s.p) ≠ 0 := by
  intro j hj
  have key : ∀ i ≤ j, CGInv2 (⇑A) M b ((cgStep (rcOps 𝕜 V) A M)^[i] (cgInit (rcOps 𝕜 V) A M b x0)) := by
    intro i
    induction i with
    | zero => intro _; exact cgInit_inv2 A M hM b x0
    | succ i ih =>
      intro hi
      rw [Function.iterate_succ_apply']
      exact (cgStep_inv2 A M b hAs hAp hM maxiter tolsq htol _ (ih (by omega)) (hj i (by omega))).2.2
  have := cgStep_inv2 A M b hAs hAp hM maxiter tolsq htol _ (key j le_rfl) (hj j le_rfl)
  exact ⟨this.1, this.2.1⟩

/-! ### fixed-iteration variant (`cg_solver`) -/

structure ScanInv (A : V → V) (b : V) (s : ScanState 𝕜 V) : Prop where
  res : s.r = b - A s.x
  num : s.num = inner 𝕜 s.r s.r

theorem scanStep_inv (A : V →ₗ[𝕜] V) (b : V) (s : ScanState 𝕜 V) (h : ScanInv (⇑A) b s) :
    ScanInv (⇑A) b (scanStep (rcOps 𝕜 V) A s) := by
  refine ⟨?_, rfl⟩
  simp only [scanStep]
  rw [h.res, map_add, map_smul]
  abel

/-- once the residual, the search direction and `num` are exactly zero a scan step changes nothing
    (`alpha` and `beta` are set to `0` by the guards instead of `0/0`) -/
theorem scanStep_fixed (A : V →ₗ[𝕜] V) (s : ScanState 𝕜 V) (hr : s.r = 0) (hp : s.p = 0) (hn : s.num = 0) :
    scanStep (rcOps 𝕜 V) A s = s := by
  cases s with
  | mk x r p num =>
    simp only at hr hp hn
    subst hr hp hn
    simp [scanStep, rcOps]

theorem scanIter_fixed (A : V →ₗ[𝕜] V) (s : ScanState 𝕜 V) (hr : s.r = 0) (hp : s.p = 0) (hn : s.num = 0) :
    ∀ k, scanIter (rcOps 𝕜 V) A k s = s
  | 0 => rfl
  | k + 1 => by
    rw [scanIter, scanStep_fixed A s hr hp hn]
    exact scanIter_fixed A s hr hp hn k

theorem scanIter_inv (A : V →ₗ[𝕜] V) (b : V) :
    ∀ (k : Nat) (s : ScanState 𝕜 V), ScanInv (⇑A) b s → ScanInv (⇑A) b (scanIter (rcOps 𝕜 V) A k s)
  | 0, s, h => h
  | k + 1, s, h => scanIter_inv A b k _ (scanStep_inv A b s h)

/-! ### a quadratic is minimised exactly where its gradient vanishes -/

/-- If `J (x + h) = J x + 2 re⟪g x, h⟫ + q h` with `q ≥ 0` homogeneous of degree two (over real
    scalings), then `x` minimises `J` iff `g x = 0`. -/
theorem argmin_iff_grad_zero {E : Type} [NormedAddCommGroup E] [InnerProductSpace 𝕜 E]
    (J : E → ℝ) (g : E → E) (q : E → ℝ) (hq : ∀ h, 0 ≤ q h)
    (hq2 : ∀ (t : ℝ) (h : E), q ((t : 𝕜) • h) = t ^ 2 * q h)
    (hexp : ∀ x h, J (x + h) = J x + 2 * re (inner 𝕜 (g x) h) + q h) (x : E) :
    (∀ x', J x ≤ J x') ↔ g x = 0 := by
  constructor
  · intro hmin
    by_contra hg
    have hpos : 0 < ‖g x‖ ^ 2 := by positivity
    -- test direction h = -ε g x
    have key : ∀ ε : ℝ, 0 ≤ -2 * ε * ‖g x‖ ^ 2 + ε ^ 2 * q (g x) := by
      intro ε
      have h1 := hmin (x + ((-ε : ℝ) : 𝕜) • g x)
      rw [hexp, hq2, inner_smul_right, inner_self_eq_norm_sq_to_K] at h1
      have : re (((-ε : ℝ) : 𝕜) * ((‖g x‖ : ℝ) : 𝕜) ^ 2) = -ε * ‖g x‖ ^ 2 := by
        norm_cast
      rw [this] at h1
      nlinarith
    by_cases hq0 : q (g x) = 0
    · have := key 1
      rw [hq0] at this; nlinarith
    · have hqp : 0 < q (g x) := lt_of_le_of_ne (hq _) (Ne.symm hq0)
      have := key (‖g x‖ ^ 2 / q (g x))
      have e : -2 * (‖g x‖ ^ 2 / q (g x)) * ‖g x‖ ^ 2 + (‖g x‖ ^ 2 / q (g x)) ^ 2 * q (g x)
          = -(‖g x‖ ^ 2) ^ 2 / q (g x) := by
        field_simp; ring
      rw [e] at this
      have : 0 < (‖g x‖ ^ 2) ^ 2 / q (g x) := by positivity
      linarith [neg_div (q (g x)) ((‖g x‖ ^ 2) ^ 2)]
  · intro hg x'
    have := hexp x (x' - x)
    rw [add_sub_cancel, hg, inner_zero_left] at this
    simp at this
    linarith [hq (x' - x)]

/-! ### least squares -/

/-- `lstsq`: the system handed to `cg` is `Aᴴ A x = Aᴴ b`, and its solutions are exactly the minimisers
    of `‖A x − b‖` (real and complex).  `AH` is any adjoint of `A`. -/
theorem lstsq_normal_iff_argmin {U : Type} [NormedAddCommGroup U] [InnerProductSpace 𝕜 U]
    (A : V →ₗ[𝕜] U) (AH : U →ₗ[𝕜] V) (hadj : ∀ x y, inner 𝕜 (A x) y = inner 𝕜 x (AH y)) (b : U) (x : V) :
    (lstsqSys (⇑A) (⇑AH) b).1 x = (lstsqSys (⇑A) (⇑AH) b).2 ↔ ∀ x', ‖A x - b‖ ≤ ‖A x' - b‖ := by
  have hmain := argmin_iff_grad_zero (𝕜 := 𝕜) (fun x => ‖A x - b‖ ^ 2) (fun x => AH (A x - b)) (fun h => ‖A h‖ ^ 2)
    (fun h => by positivity)
    (fun t h => by
      rw [map_smul, norm_smul, mul_pow]; simp)
    (fun x h => by
      have e : A (x + h) - b = (A x - b) + A h := by rw [map_add]; abel
      have hadj' : inner 𝕜 (A x - b) (A h) = inner 𝕜 (AH (A x - b)) h := by
        rw [← inner_conj_symm, hadj, inner_conj_symm]
      rw [e, @norm_add_sq 𝕜, hadj']) x
  simp only [lstsqSys]
  rw [show (AH (A x) = AH b) ↔ AH (A x - b) = 0 by rw [map_sub, sub_eq_zero], ← hmain]
  constructor
  · intro h x'
    exact (sq_le_sq₀ (norm_nonneg _) (norm_nonneg _)).1 (h x')
  · intro h x'
    exact (sq_le_sq₀ (norm_nonneg _) (norm_nonneg _)).2 (h x')

end Scico.LinSolve
