/-
  The jax conjugate-gradient solver (`jax.scipy.sparse.linalg.cg`, selectable in `LinearSubproblemSolver`) — C14 round 2.
  Model `jaxCg*` in `Scico/Model/LinSolve.lean` (a contract of third-party code, tied iterate by iterate in `harness/c14.py`):
  invariant, exit rule on the TRUE residual (also with a preconditioner), identity of its iterates with those of
  `scico.solver.cg` for Hermitian `A`, `M`, and "at most `dim V` iterations".
-/
import Mathlib.Analysis.InnerProductSpace.Basic
import Scico.Proofs.LinSolveCGConj

/-! ## proofs -/
namespace Scico.LinSolve
open RCLike

variable {𝕜 V : Type} [RCLike 𝕜] [NormedAddCommGroup V] [InnerProductSpace 𝕜 V]

/-- `_vdot_real_tree`, `.astype(dtype)`, `.real` at an abstract inner-product space -/
noncomputable def rcJaxOps (𝕜 V : Type) [RCLike 𝕜] [NormedAddCommGroup V] [InnerProductSpace 𝕜 V] : JaxOps 𝕜 ℝ V where
  vdotRe x y := re (inner 𝕜 x y)
  ofReal t := (t : 𝕜)
  re s := re s

structure JaxInv (A M : V → V) (b : V) (s : JaxCGState 𝕜 V) : Prop where
  res : s.r = b - A s.x
  gam : s.gamma = ((re (inner 𝕜 s.r (M s.r)) : ℝ) : 𝕜)

theorem jaxCgInit_inv (A M : V → V) (b x0 : V) : JaxInv A M b (jaxCgInit (rcJaxOps 𝕜 V) A M b x0) := ⟨rfl, rfl⟩

theorem jaxCgStep_inv (A : V →ₗ[𝕜] V) (M : V → V) (b : V) (s : JaxCGState 𝕜 V) (h : JaxInv (⇑A) M b s) :
    JaxInv (⇑A) M b (jaxCgStep (rcJaxOps 𝕜 V) A M s) := by
  refine ⟨?_, rfl⟩
  simp only [jaxCgStep]
  rw [h.res, map_add, map_smul]
  abel

theorem jaxCgStep_k (ops : JaxOps 𝕜 ℝ V) (A M : V → V) (s : JaxCGState 𝕜 V) : (jaxCgStep ops A M s).k = s.k + 1 := rfl

theorem jaxCgLoop_inv (A : V →ₗ[𝕜] V) (M : V → V) (b : V) (mIsId : Bool) (maxiter : Nat) (atol2 : ℝ) :
    ∀ (fuel : Nat) (s : JaxCGState 𝕜 V), JaxInv (⇑A) M b s →
      JaxInv (⇑A) M b (jaxCgLoop (rcJaxOps 𝕜 V) A M mIsId maxiter atol2 fuel s)
  | 0, s, h => by simpa [jaxCgLoop] using h
  | fuel + 1, s, h => by
    unfold jaxCgLoop
    split
    · exact jaxCgLoop_inv A M b mIsId maxiter atol2 fuel _ (jaxCgStep_inv A M b s h)
    · exact h

theorem jaxCgRun_inv (A : V →ₗ[𝕜] V) (M : V → V) (b : V) (mIsId : Bool) (maxiter : Nat) (atol2 : ℝ) :
    ∀ (fuel : Nat) (s : JaxCGState 𝕜 V), JaxInv (⇑A) M b s →
      ∀ t ∈ jaxCgRun (rcJaxOps 𝕜 V) A M mIsId maxiter atol2 fuel s, JaxInv (⇑A) M b t
  | 0, s, h => by simp [jaxCgRun]; exact h
  | fuel + 1, s, h => by
    unfold jaxCgRun
    split
    · intro t ht
      rcases List.mem_cons.1 ht with rfl | ht
      · exact h
      · exact jaxCgRun_inv A M b mIsId maxiter atol2 fuel _ (jaxCgStep_inv A M b s h) t ht
    · intro t ht
      rw [List.mem_singleton] at ht
      exact ht ▸ h

theorem jaxCgLoop_exit (ops : JaxOps 𝕜 ℝ V) (A M : V → V) (mIsId : Bool) (maxiter : Nat) (atol2 : ℝ) :
    ∀ (fuel : Nat) (s : JaxCGState 𝕜 V), maxiter ≤ s.k + fuel →
      jaxCgCond ops mIsId maxiter atol2 (jaxCgLoop ops A M mIsId maxiter atol2 fuel s) = false
  | 0, s, h => by
    have h' : ¬ s.k < maxiter := by omega
    simp [jaxCgLoop, jaxCgCond, h']
  | fuel + 1, s, h => by
    unfold jaxCgLoop
    split
    · apply jaxCgLoop_exit ops A M mIsId maxiter atol2 fuel
      rw [jaxCgStep_k]; omega
    · rename_i hc; simpa using hc

theorem jaxCgLoop_k_le (ops : JaxOps 𝕜 ℝ V) (A M : V → V) (mIsId : Bool) (maxiter : Nat) (atol2 : ℝ) :
    ∀ (fuel : Nat) (s : JaxCGState 𝕜 V), s.k ≤ maxiter →
      (jaxCgLoop ops A M mIsId maxiter atol2 fuel s).k ≤ maxiter
  | 0, s, h => by simpa [jaxCgLoop] using h
  | fuel + 1, s, h => by
    unfold jaxCgLoop
    split
    · rename_i hc
      apply jaxCgLoop_k_le ops A M mIsId maxiter atol2 fuel
      simp only [jaxCgCond, Bool.and_eq_true, decide_eq_true_eq] at hc
      rw [jaxCgStep_k]; omega
    · exact h

/-- **Specification of the jax variant**: for every linear `A`, every preconditioner (or none), every
    `b, x0, tol, atol, maxiter`, the returned `x` either used up `maxiter` iterations or satisfies
    `‖b − A x‖² ≤ max(tol² ‖b‖², atol²)` — the *true* residual, also when a preconditioner is given. -/
theorem jaxCg_spec (A : V →ₗ[𝕜] V) (M : Option (V → V)) (b x0 : V) (tol atol : ℝ) (maxiter : Nat) :
    let s := jaxCgLoop (rcJaxOps 𝕜 V) A (precondOf M) M.isNone maxiter (jaxAtol2 tol atol (re (inner 𝕜 b b))) maxiter
      (jaxCgInit (rcJaxOps 𝕜 V) A (precondOf M) b x0)
    jaxCg (rcJaxOps 𝕜 V) A M b x0 tol atol maxiter = s.x ∧ s.r = b - A s.x ∧ s.k ≤ maxiter ∧
      (s.k = maxiter ∨ ‖b - A s.x‖ ^ 2 ≤ max (tol ^ 2 * ‖b‖ ^ 2) (atol ^ 2)) := by
  intro s
  have hinv := jaxCgLoop_inv A (precondOf M) b M.isNone maxiter (jaxAtol2 tol atol (re (inner 𝕜 b b))) maxiter _
    (jaxCgInit_inv (𝕜 := 𝕜) A (precondOf M) b x0)
  have hexit := jaxCgLoop_exit (rcJaxOps 𝕜 V) A (precondOf M) M.isNone maxiter (jaxAtol2 tol atol (re (inner 𝕜 b b))) maxiter
    (jaxCgInit (rcJaxOps 𝕜 V) A (precondOf M) b x0) (by simp [jaxCgInit])
  have hle := jaxCgLoop_k_le (rcJaxOps 𝕜 V) A (precondOf M) M.isNone maxiter (jaxAtol2 tol atol (re (inner 𝕜 b b))) maxiter
    (jaxCgInit (rcJaxOps 𝕜 V) A (precondOf M) b x0) (by simp [jaxCgInit])
  refine ⟨rfl, hinv.res, hle, ?_⟩
  by_cases hlt : s.k < maxiter
  · right
    have hrr : ∀ v : V, re (inner 𝕜 v v) = ‖v‖ ^ 2 := fun v => by
      rw [inner_self_eq_norm_sq_to_K]; norm_cast
    have hb : jaxAtol2 tol atol (re (inner 𝕜 b b)) = max (tol ^ 2 * ‖b‖ ^ 2) (atol ^ 2) := by
      unfold jaxAtol2; rw [hrr]; simp only [sq]
    -- the quantity tested is the true squared residual
    have hrs : (if M.isNone then (rcJaxOps 𝕜 V).re s.gamma else (rcJaxOps 𝕜 V).vdotRe s.r s.r) = ‖s.r‖ ^ 2 := by
      cases M with
      | none =>
        simp only [Option.isNone_none, if_true, rcJaxOps]
        rw [hinv.gam]
        simp only [precondOf, RCLike.ofReal_re]
        exact hrr _
      | some m =>
        simp only [Option.isNone_some, rcJaxOps]
        exact hrr _
    have hc : jaxCgCond (rcJaxOps 𝕜 V) M.isNone maxiter (jaxAtol2 tol atol (re (inner 𝕜 b b))) s = false := hexit
    simp only [jaxCgCond, hrs, hlt, decide_true, Bool.and_true, decide_eq_false_iff_not, not_lt] at hc
    rw [← hinv.res, ← hb]
    exact hc
  · exact Or.inl (le_antisymm hle (not_lt.1 hlt))

/-- squared form ⇒ norm form of the stopping rule, for non-negative tolerances -/
theorem sq_tol_bound (tol atol bn res : ℝ) (htol : 0 ≤ tol) (hatol : 0 ≤ atol) (hbn : 0 ≤ bn) (hres : 0 ≤ res)
    (hsq : res ^ 2 ≤ max (tol ^ 2 * bn ^ 2) (atol ^ 2)) : res ≤ max (tol * bn) atol := by
  have hm : 0 ≤ tol * bn := mul_nonneg htol hbn
  have h1 : max (tol ^ 2 * bn ^ 2) (atol ^ 2) = (max (tol * bn) atol) ^ 2 := by
    rcases le_total (tol * bn) atol with h | h
    · rw [max_eq_right h, max_eq_right]
      rw [← mul_pow]; exact pow_le_pow_left₀ hm h 2
    · rw [max_eq_left h, max_eq_left, mul_pow]
      rw [← mul_pow]; exact pow_le_pow_left₀ hatol h 2
  rw [h1] at hsq
  exact (sq_le_sq₀ hres (le_max_of_le_left hm)).1 hsq

end Scico.LinSolve

/-! ## the jax iterates are those of `scico.solver.cg` when `A` and `M` are Hermitian -/
namespace Scico.LinSolve
open RCLike

variable {𝕜 V : Type} [RCLike 𝕜] [NormedAddCommGroup V] [InnerProductSpace 𝕜 V]

def CGState.toJax (s : CGState 𝕜 V) : JaxCGState 𝕜 V := { x := s.x, r := s.r, gamma := s.num, p := s.p, k := s.ii }

theorem ofReal_re_inner_herm (T : V → V) (hT : ∀ x y, inner 𝕜 (T x) y = inner 𝕜 x (T y)) (v : V) :
    ((re (inner 𝕜 v (T v)) : ℝ) : 𝕜) = inner 𝕜 v (T v) := by
  rw [← RCLike.conj_eq_iff_re, inner_conj_symm, hT]

theorem jaxCgInit_eq (A M : V → V) (hM : ∀ x y, inner 𝕜 (M x) y = inner 𝕜 x (M y)) (b x0 : V) :
    jaxCgInit (rcJaxOps 𝕜 V) A M b x0 = (cgInit (rcOps 𝕜 V) A M b x0).toJax := by
  simp only [jaxCgInit, cgInit, CGState.toJax, rcJaxOps, rcOps, ofReal_re_inner_herm M hM]

theorem jaxCgStep_eq (A M : V → V) (hAs : ∀ x y, inner 𝕜 (A x) y = inner 𝕜 x (A y))
    (hM : ∀ x y, inner 𝕜 (M x) y = inner 𝕜 x (M y)) (s : CGState 𝕜 V) :
    jaxCgStep (rcJaxOps 𝕜 V) A M s.toJax = (cgStep (rcOps 𝕜 V) A M s).toJax := by
  simp only [jaxCgStep, cgStep, CGState.toJax, rcJaxOps, rcOps, ofReal_re_inner_herm M hM, ofReal_re_inner_herm A hAs]

/-- **same iterates**: for Hermitian `A` and `M` the state of the jax solver after `j` bodies is the state of
    `scico.solver.cg` after `j` bodies (only the stopping tests differ) -/
theorem jax_iterates_eq (A M : V → V) (hAs : ∀ x y, inner 𝕜 (A x) y = inner 𝕜 x (A y))
    (hM : ∀ x y, inner 𝕜 (M x) y = inner 𝕜 x (M y)) (b x0 : V) (j : ℕ) :
    (jaxCgStep (rcJaxOps 𝕜 V) A M)^[j] (jaxCgInit (rcJaxOps 𝕜 V) A M b x0) = (cgSeq (𝕜 := 𝕜) A M b x0 j).toJax := by
  induction j with
  | zero => exact jaxCgInit_eq A M hM b x0
  | succ j ih => rw [Function.iterate_succ_apply', ih, jaxCgStep_eq A M hAs hM, cgSeq_succ]

theorem jaxCgLoop_iterate (ops : JaxOps 𝕜 ℝ V) (A M : V → V) (mIsId : Bool) (maxiter : Nat) (atol2 : ℝ) :
    ∀ (fuel : Nat) (s : JaxCGState 𝕜 V), ∃ k, k ≤ fuel ∧
      jaxCgLoop ops A M mIsId maxiter atol2 fuel s = (jaxCgStep ops A M)^[k] s ∧
      ∀ j < k, jaxCgCond ops mIsId maxiter atol2 ((jaxCgStep ops A M)^[j] s) = true
  | 0, s => ⟨0, le_rfl, rfl, by intro j hj; omega⟩
  | fuel + 1, s => by
    unfold jaxCgLoop
    split
    · rename_i hc
      obtain ⟨k, hk, he, hj⟩ := jaxCgLoop_iterate ops A M mIsId maxiter atol2 fuel (jaxCgStep ops A M s)
      refine ⟨k + 1, by omega, ?_, ?_⟩
      · rw [he, Function.iterate_succ_apply]
      · intro j hjk
        cases j with
        | zero => simpa using hc
        | succ j => rw [Function.iterate_succ_apply]; exact hj j (by omega)
    · exact ⟨0, by omega, rfl, by intro j hj; omega⟩

theorem jaxIter_inv (A : V →ₗ[𝕜] V) (M : V → V) (b x0 : V) (j : ℕ) :
    JaxInv (⇑A) M b ((jaxCgStep (rcJaxOps 𝕜 V) A M)^[j] (jaxCgInit (rcJaxOps 𝕜 V) A M b x0)) := by
  induction j with
  | zero => exact jaxCgInit_inv (⇑A) M b x0
  | succ j ih => rw [Function.iterate_succ_apply']; exact jaxCgStep_inv A M b _ ih

theorem jaxCgCond_false_of_zero (mIsId : Bool) (maxiter : ℕ) (atol2 : ℝ) (h0 : 0 ≤ atol2) (s : JaxCGState 𝕜 V)
    (hg : s.gamma = 0) (hr : s.r = 0) : jaxCgCond (rcJaxOps 𝕜 V) mIsId maxiter atol2 s = false := by
  have : ¬ atol2 < 0 := not_lt.2 h0
  simp [jaxCgCond, rcJaxOps, hg, hr, this]

/-- **the jax variant needs at most `dim V` iterations** (exact arithmetic): Hermitian positive-definite `A` and `M`
    (or no `M`), `maxiter ≥ dim V`: the returned `x` has `‖b − A x‖² ≤ max(tol² ‖b‖², atol²)`. -/
theorem jaxCg_dim_steps [Module.Finite 𝕜 V] (A : V →ₗ[𝕜] V) (M : Option (V → V)) (b x0 : V)
    (hAs : ∀ x y, inner 𝕜 (A x) y = inner 𝕜 x (A y)) (hAp : ∀ x, x ≠ 0 → 0 < re (inner 𝕜 x (A x)))
    (hM : ∀ m, M = some m → (∀ x y, inner 𝕜 (m x) y = inner 𝕜 x (m y)) ∧ ∀ x, x ≠ 0 → 0 < re (inner 𝕜 x (m x)))
    (tol atol : ℝ) (maxiter : ℕ) (hmax : Module.finrank 𝕜 V ≤ maxiter) :
    let x := jaxCg (rcJaxOps 𝕜 V) A M b x0 tol atol maxiter
    ‖b - A x‖ ^ 2 ≤ max (tol ^ 2 * ‖b‖ ^ 2) (atol ^ 2) := by
  intro x
  obtain ⟨hx, hres, hk, hexit⟩ := jaxCg_spec A M b x0 tol atol maxiter
  set M' : V → V := precondOf M with hM'
  have hMs : ∀ x y, inner 𝕜 (M' x) y = inner 𝕜 x (M' y) := by
    cases M with
    | none => intro x y; rfl
    | some m => exact (hM m rfl).1
  have hMp : ∀ x, x ≠ 0 → 0 < re (inner 𝕜 x (M' x)) := by
    cases M with
    | none =>
      intro x hx0
      show 0 < re (inner 𝕜 x x)
      rw [inner_self_eq_norm_sq_to_K]; norm_cast; positivity
    | some m => exact (hM m rfl).2
  set atol2 := jaxAtol2 tol atol (re (inner 𝕜 b b)) with hat
  have hat0 : 0 ≤ atol2 := by
    unfold atol2 jaxAtol2
    exact le_max_of_le_right (mul_self_nonneg _)
  rcases hexit with hmaxed | hdone
  · -- all of maxiter was used; the loop is an iterate of the body with true conditions before
    obtain ⟨k, hkf, he, hj⟩ := jaxCgLoop_iterate (rcJaxOps 𝕜 V) (⇑A) M' M.isNone maxiter atol2 maxiter
      (jaxCgInit (rcJaxOps 𝕜 V) A M' b x0)
    obtain ⟨k0, hk0, hz⟩ := cg_finite_termination A M' b x0 hAs hAp hMs
    -- a true condition implies r ≠ 0 hence num ≠ 0
    have hnz : ∀ j < k, (cgSeq (𝕜 := 𝕜) (⇑A) M' b x0 j).num ≠ 0 := by
      intro j hjk hzero
      have hc := hj j hjk
      rw [jax_iterates_eq (⇑A) M' hAs hMs b x0 j] at hc
      have hinvj : JaxInv (⇑A) M' b (cgSeq (𝕜 := 𝕜) (⇑A) M' b x0 j).toJax := by
        rw [← jax_iterates_eq (⇑A) M' hAs hMs b x0 j]
        exact jaxIter_inv A M' b x0 j
      have hr0 : (cgSeq (𝕜 := 𝕜) (⇑A) M' b x0 j).r = 0 := by
        by_contra hne
        have hg := hinvj.gam
        simp only [CGState.toJax] at hg
        rw [hzero] at hg
        have := hMp _ hne
        have h0 := congrArg re hg
        simp at h0
        linarith
      have := jaxCgCond_false_of_zero M.isNone maxiter atol2 hat0 (cgSeq (𝕜 := 𝕜) (⇑A) M' b x0 j).toJax hzero hr0
      rw [this] at hc
      cases hc
    have hkk0 : k ≤ k0 := by
      by_contra hlt
      push Not at hlt
      exact hnz k0 hlt hz
    -- the counter of the returned state is k
    have hkeq : (jaxCgLoop (rcJaxOps 𝕜 V) (⇑A) M' M.isNone maxiter atol2 maxiter (jaxCgInit (rcJaxOps 𝕜 V) A M' b x0)).k = k := by
      rw [he, jax_iterates_eq (⇑A) M' hAs hMs b x0 k]
      simp only [CGState.toJax, cgSeq]
      clear he hj hnz hkk0
      induction k with
      | zero => rfl
      | succ k ih => rw [Function.iterate_succ_apply', cgStep_ii, ih (by omega)]
    have hkk : k = k0 := by omega
    -- so num_k = 0, r_k = 0
    have hrk : (jaxCgLoop (rcJaxOps 𝕜 V) (⇑A) M' M.isNone maxiter atol2 maxiter (jaxCgInit (rcJaxOps 𝕜 V) A M' b x0)).r = 0 := by
      have hinv := jaxCgLoop_inv A M' b M.isNone maxiter atol2 maxiter _ (jaxCgInit_inv (𝕜 := 𝕜) A M' b x0)
      have hg := hinv.gam
      rw [he, jax_iterates_eq (⇑A) M' hAs hMs b x0 k, hkk] at hg ⊢
      simp only [CGState.toJax] at hg ⊢
      rw [hz] at hg
      by_contra hne
      have := hMp _ hne
      have h0 := congrArg re hg
      simp at h0
      linarith
    show ‖b - A (jaxCg (rcJaxOps 𝕜 V) (⇑A) M b x0 tol atol maxiter)‖ ^ 2 ≤ _
    rw [hx, ← hres, hrk]
    simp only [norm_zero, ne_eq, OfNat.ofNat_ne_zero, not_false_eq_true, zero_pow]
    exact le_max_of_le_right (sq_nonneg _)
  · show ‖b - A (jaxCg (rcJaxOps 𝕜 V) (⇑A) M b x0 tol atol maxiter)‖ ^ 2 ≤ _
    rw [hx]; exact hdone

end Scico.LinSolve
