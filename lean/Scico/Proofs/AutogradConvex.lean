/-
  C07: the squared distance to a closed convex set is differentiable EVERYWHERE with gradient `x − P(x)`
  (`P` the metric projection, given by its variational characterisation) — so what JAX computes for
  `SquaredSetDistance` by differentiating through `proj` equals the documented gradient.
-/
import Scico.Proofs.AutogradChain
import Mathlib.Analysis.Asymptotics.Lemmas

namespace Scico.Autograd
open Scico
open scoped Topology

variable {n : Nat}

/-- `P` is the metric projection onto the convex set `C`: `P x ∈ C` and the variational inequality
    `Re⟪x − P x, z − P x⟫ ≤ 0` for every `z ∈ C` (Beck, Thm 6.41) -/
structure IsProjection (C : CVec ℝ n → Prop) (P : CVec ℝ n → CVec ℝ n) : Prop where
  mem : ∀ x, C (P x)
  vi : ∀ x z, C z → reInner (vsub x (P x)) (vsub z (P x)) ≤ 0

theorem reInner_vsub_left (a b c : CVec ℝ n) : reInner (vsub a b) c = reInner a c - reInner b c := by
  rw [reInner_eq, reInner_eq, reInner_eq, ← Finset.sum_sub_distrib]
  exact Finset.sum_congr rfl (fun i _ => by simp [vsub]; ring)

theorem reInner_vsub_right (a b c : CVec ℝ n) : reInner a (vsub b c) = reInner a b - reInner a c := by
  rw [reInner_comm, reInner_vsub_left, reInner_comm b, reInner_comm c]

theorem reInner_along_left (x d c : CVec ℝ n) (t : ℝ) :
    reInner (along x d t) c = reInner x c + t * reInner d c := by
  rw [reInner_eq, reInner_eq, reInner_eq, Finset.mul_sum, ← Finset.sum_add_distrib]
  exact Finset.sum_congr rfl (fun i _ => by simp [along]; ring)

theorem reInner_along_right (a x d : CVec ℝ n) (t : ℝ) :
    reInner a (along x d t) = reInner a x + t * reInner a d := by
  rw [reInner_comm, reInner_along_left, reInner_comm x, reInner_comm d]

theorem reInner_vsmul_right (t : ℝ) (a b : CVec ℝ n) : reInner a (vsmul t b) = t * reInner a b := by
  rw [reInner_comm, reInner_vsmul_left, reInner_comm]

theorem sumAbs2_eq_reInner (v : CVec ℝ n) : sumAbs2 v = reInner v v := by
  rw [sumAbs2_eq, reInner_eq]
  exact Finset.sum_congr rfl (fun i _ => by simp [Cx.abs2])

theorem reInner_self_nonneg (v : CVec ℝ n) : 0 ≤ reInner v v := by
  rw [← sumAbs2_eq_reInner]; exact sumAbs2_nonneg v

/-- squeeze: a quadratic bound on the first-order remainder gives the derivative -/
theorem hasDerivAt_of_quadratic_bound (f : ℝ → ℝ) (a K : ℝ)
    (h : ∀ t, |f t - f 0 - t * a| ≤ K * t ^ 2) : HasDerivAt f a 0 := by
  rw [hasDerivAt_iff_isLittleO]
  have hb : (fun t : ℝ => f t - f 0 - (t - 0) • a) =O[𝓝 0] (fun t : ℝ => t ^ 2) := by
    refine Asymptotics.IsBigO.of_bound K (Filter.Eventually.of_forall (fun t => ?_))
    simp only [sub_zero, smul_eq_mul, Real.norm_eq_abs, abs_pow, sq_abs]
    exact h t
  have hl : (fun t : ℝ => t ^ 2) =o[𝓝 0] (fun t : ℝ => t - 0) := by
    simp only [sub_zero]
    exact Asymptotics.isLittleO_pow_id (by norm_num)
  exact hb.trans_isLittleO hl

/-- **the squared distance to a convex set**: `½‖z − P z‖²` has the gradient `x − P x` at EVERY `x` -/
theorem isGradAt_sqdist (C : CVec ℝ n → Prop) (P : CVec ℝ n → CVec ℝ n) (hP : IsProjection C P)
    (x : CVec ℝ n) :
    IsGradAt (fun z => (1 / 2) * sumAbs2 (vsub z (P z))) x (vsub x (P x)) := by
  intro d
  refine hasDerivAt_of_quadratic_bound _ _ ((1 / 2) * reInner d d) (fun t => ?_)
  simp only [along_zero]
  -- the two variational inequalities, the two squares
  have v1 := hP.vi x (P (along x d t)) (hP.mem _)
  have v2 := hP.vi (along x d t) (P x) (hP.mem _)
  have s1 := reInner_self_nonneg (vsub (P (along x d t)) (P x))
  have s2 := reInner_self_nonneg (vsub (vsub (vsmul t d) (P (along x d t))) (vsub (fun _ => 0) (P x)))
  have s3 := reInner_self_nonneg d
  have z1 : ∀ c : CVec ℝ n, reInner (fun _ => (0 : Cx ℝ)) c = 0 := fun c => by rw [reInner_eq]; simp
  have z2 : ∀ c : CVec ℝ n, reInner c (fun _ => (0 : Cx ℝ)) = 0 := fun c => by rw [reInner_eq]; simp
  simp only [sumAbs2_eq_reInner, reInner_vsub_left, reInner_vsub_right, reInner_along_left,
    reInner_along_right, reInner_vsmul_left, reInner_vsmul_right, z1, z2] at v1 v2 s1 s2 ⊢
  have c1 := reInner_comm (P x) x
  have c2 := reInner_comm (P (along x d t)) x
  have c3 := reInner_comm (P (along x d t)) (P x)
  have c4 := reInner_comm (P x) d
  have c5 := reInner_comm (P (along x d t)) d
  have c6 := reInner_comm d x
  simp only [c1, c2, c3, c4, c5, c6] at v1 v2 s1 s2 ⊢
  clear c1 c2 c3 c4 c5 c6
  have s4 := mul_nonneg (sq_nonneg t) s3
  generalize reInner x x = xx at *
  generalize reInner x d = xd at *
  generalize reInner d d = dd at *
  generalize reInner x (P x) = xp at *
  generalize reInner x (P (along x d t)) = xq at *
  generalize reInner (P x) (P x) = pp at *
  generalize reInner (P x) (P (along x d t)) = pq at *
  generalize reInner (P (along x d t)) (P (along x d t)) = qq at *
  generalize reInner d (P x) = dp at *
  generalize reInner d (P (along x d t)) = dq at *
  rw [abs_le]
  constructor <;> nlinarith [s1, s2, s4, v1, v2]


/-- **the distance to a convex set** (guarded square root, as `SetDistance.__call__` writes it) has the gradient
    `(x − P x)/‖x − P x‖` at every `x` outside the set -/
theorem isGradAt_dist (C : CVec ℝ n → Prop) (P : CVec ℝ n → CVec ℝ n) (hP : IsProjection C P)
    (x : CVec ℝ n) (hx : sumAbs2 (vsub x (P x)) ≠ 0) :
    IsGradAt (fun z => l2normGuarded (sumAbs2 (vsub z (P z)))) x
      (fun i => Cx.divr (vsub x (P x) i) (norm2 (vsub x (P x)))) := by
  intro d
  have h := (isGradAt_sqdist C P hP x d).const_mul 2
  have h2 : HasDerivAt (fun t => sumAbs2 (vsub (along x d t) (P (along x d t))))
      (2 * reInner (vsub x (P x)) d) 0 := HasDerivAt.congr' h (fun t => by ring) rfl
  have h3 := h2.sqrt (by simp only [along_zero]; exact hx)
  simp only [along_zero] at h3
  refine HasDerivAt.congr' h3 (fun t => l2normGuarded_eq _ (sumAbs2_nonneg _)) ?_
  rw [reInner_eq, reInner_eq, Finset.mul_sum, Finset.sum_div]
  refine Finset.sum_congr rfl (fun i _ => ?_)
  simp only [Cx.divr_re, Cx.divr_im, norm2, hasSqrt_real]
  have hne : Real.sqrt (sumAbs2 (vsub x (P x))) ≠ 0 := (Real.sqrt_ne_zero (sumAbs2_nonneg _)).mpr hx
  field_simp

/-! ### what `grad` returns at the kinks of the l1 norm is a sub-gradient -/

/-- Cauchy–Schwarz in `ℂ ≅ ℝ²` for a multiplier of modulus at most one -/
theorem re_mul_le_abs (g z : Cx ℝ) (hg : Cx.abs2 g ≤ 1) : g.re * z.re + g.im * z.im ≤ Cx.abs z := by
  unfold Cx.abs; rw [hasSqrt_real]
  refine le_trans (le_abs_self _) (Real.abs_le_sqrt ?_)
  have h1 : (g.re * z.re + g.im * z.im) ^ 2 ≤ Cx.abs2 g * Cx.abs2 z := by
    unfold Cx.abs2; nlinarith [sq_nonneg (g.re * z.im - g.im * z.re)]
  have h2 : Cx.abs2 g * Cx.abs2 z ≤ 1 * Cx.abs2 z := mul_le_mul_of_nonneg_right hg (abs2_nonneg z)
  linarith

/-- sub-gradient inequality of the l1 norm at ANY point: `g` has the entries `xᵢ/|xᵢ|` where `xᵢ ≠ 0` and any
    entry of modulus ≤ 1 where `xᵢ = 0` -/
theorem l1_subgradient (x g z : CVec ℝ n)
    (h1 : ∀ i, Cx.abs2 (x i) ≠ 0 → g i = Cx.divr (x i) (Cx.abs (x i)))
    (h0 : ∀ i, Cx.abs2 (x i) = 0 → Cx.abs2 (g i) ≤ 1) :
    (Fn.l1 : Fn ℝ n).eval x + reInner g (vsub z x) ≤ (Fn.l1 : Fn ℝ n).eval z := by
  simp only [Fn.eval, vsum_eq]
  rw [reInner_eq, ← Finset.sum_add_distrib]
  refine Finset.sum_le_sum (fun i _ => ?_)
  simp only [vsub, Cx.sub_re, Cx.sub_im]
  by_cases hx : Cx.abs2 (x i) = 0
  · have hz := re_mul_le_abs (g i) (z i) (h0 i hx)
    have hre : (x i).re = 0 := by unfold Cx.abs2 at hx; nlinarith [mul_self_nonneg (x i).re, mul_self_nonneg (x i).im]
    have him : (x i).im = 0 := by unfold Cx.abs2 at hx; nlinarith [mul_self_nonneg (x i).re, mul_self_nonneg (x i).im]
    have ha : Cx.abs (x i) = 0 := by unfold Cx.abs; rw [hx, hasSqrt_real, Real.sqrt_zero]
    rw [ha, hre, him]; linarith
  · have hpos := abs_pos_of_abs2 (x i) hx
    have hg : Cx.abs2 (g i) ≤ 1 := by
      rw [h1 i hx]
      have hsq : Cx.abs (x i) * Cx.abs (x i) = Cx.abs2 (x i) := by
        unfold Cx.abs; rw [hasSqrt_real]; exact Real.mul_self_sqrt (abs2_nonneg _)
      unfold Cx.abs2 at hsq ⊢
      simp only [Cx.divr_re, Cx.divr_im]
      rw [div_mul_div_comm, div_mul_div_comm, ← add_div, hsq, div_self]
      unfold Cx.abs2 at hx; exact hx
    have hz := re_mul_le_abs (g i) (z i) hg
    have hxx : (g i).re * (x i).re + (g i).im * (x i).im = Cx.abs (x i) := by
      rw [h1 i hx]
      simp only [Cx.divr_re, Cx.divr_im]
      have hsq : Cx.abs (x i) * Cx.abs (x i) = (x i).re * (x i).re + (x i).im * (x i).im := by
        unfold Cx.abs; rw [hasSqrt_real]; exact Real.mul_self_sqrt (abs2_nonneg _)
      field_simp
      linarith
    linarith

end Scico.Autograd
